import LeptosModel.Model.Html
/-! Helper lemmas for C06: how `run` moves through the printer's output. -/
namespace Leptos.Html

theorem run_append (a b : Str) : ∀ σ, run σ (a ++ b) = (run σ a).bind (fun σ' => run σ' b) := by
  induction a with
  | nil => intro σ; simp [run]
  | cons c cs ih =>
    intro σ
    simp only [List.cons_append, run]
    cases h : step σ c with
    | none => simp
    | some σ' => simp [ih]

theorem clean_cons {c : Char} {s : Str} (h : clean (c :: s) = true) :
    c ≠ cNul ∧ c ≠ cCr ∧ clean s = true := by
  simp [clean] at h
  simp [clean]
  exact ⟨h.1.1, h.1.2, h.2⟩

/-! ### inserting characters -/

def pushStrKids : Str → List Tree → List Tree
  | [], k => k
  | c :: cs, k => pushStrKids cs (pushCharKids c k)

def headIsText : List Tree → Bool
  | .text _ :: _ => true
  | _ => false

theorem pushStrKids_text (s : Str) : ∀ t r, pushStrKids s (.text t :: r) = .text (t ++ s) :: r := by
  induction s with
  | nil => intro t r; simp [pushStrKids]
  | cons c cs ih => intro t r; simp [pushStrKids, pushCharKids, ih]

theorem pushStrKids_fresh (s : Str) (k : List Tree) (hs : s ≠ []) (hk : headIsText k = false) :
    pushStrKids s k = .text s :: k := by
  cases s with
  | nil => exact absurd rfl hs
  | cons c cs =>
    have : pushCharKids c k = .text [c] :: k := by
      cases k with
      | nil => rfl
      | cons x xs => cases x <;> simp_all [pushCharKids, headIsText]
    simp [pushStrKids, this, pushStrKids_text]

def escMode (st : List Frame) : Prop := curMode st = .data ∨ curMode st = .rcdata

theorem step_text_plain {f : Frame} {fs : List Frame} {c : Char} (hm : escMode (f :: fs))
    (h0 : c ≠ cNul) (hr : c ≠ cCr) (ha : c ≠ '&') (hl : c ≠ '<') :
    step ⟨.text, f :: fs⟩ c = some ⟨.text, { f with kidsRev := pushCharKids c f.kidsRev } :: fs⟩ := by
  rcases hm with hm | hm <;> simp [step, stepText, hm, h0, hr, ha, hl, emitChar]

theorem run_amp {f : Frame} {fs : List Frame} (hm : escMode (f :: fs)) :
    run ⟨.text, f :: fs⟩ ['&', 'a', 'm', 'p', ';'] =
      some ⟨.text, { f with kidsRev := pushCharKids '&' f.kidsRev } :: fs⟩ := by
  rcases hm with hm | hm <;>
    simp [run, step, stepText, hm, crefStep, emitChar, cCr, cNul, isAlnum, isAlpha, isUpper, isLowerAlpha, isDigit, namedRefs, assoc]

theorem run_lt {f : Frame} {fs : List Frame} (hm : escMode (f :: fs)) :
    run ⟨.text, f :: fs⟩ ['&', 'l', 't', ';'] =
      some ⟨.text, { f with kidsRev := pushCharKids '<' f.kidsRev } :: fs⟩ := by
  rcases hm with hm | hm <;>
    simp [run, step, stepText, hm, crefStep, emitChar, cCr, cNul, isAlnum, isAlpha, isUpper, isLowerAlpha, isDigit, namedRefs, assoc]

theorem run_gt {f : Frame} {fs : List Frame} (hm : escMode (f :: fs)) :
    run ⟨.text, f :: fs⟩ ['&', 'g', 't', ';'] =
      some ⟨.text, { f with kidsRev := pushCharKids '>' f.kidsRev } :: fs⟩ := by
  rcases hm with hm | hm <;>
    simp [run, step, stepText, hm, crefStep, emitChar, cCr, cNul, isAlnum, isAlpha, isUpper, isLowerAlpha, isDigit, namedRefs, assoc]

theorem run_entity_text {f : Frame} {fs : List Frame} (hm : escMode (f :: fs)) (c : Char)
    (h0 : c ≠ cNul) (hr : c ≠ cCr) :
    run ⟨.text, f :: fs⟩ (entityOf textTable c) =
      some ⟨.text, { f with kidsRev := pushCharKids c f.kidsRev } :: fs⟩ := by
  by_cases ha : c = '&'
  · subst ha; exact run_amp hm
  by_cases hl : c = '<'
  · subst hl; exact run_lt hm
  by_cases hg : c = '>'
  · subst hg; exact run_gt hm
  have : entityOf textTable c = [c] := by
    simp [entityOf, textTable, assoc, ha, hl, hg]
  rw [this]
  simp [run, step_text_plain hm h0 hr ha hl]

theorem run_escapeText (s : Str) : ∀ (f : Frame) (fs : List Frame), escMode (f :: fs) → clean s = true →
    run ⟨.text, f :: fs⟩ (escapeText s) =
      some ⟨.text, { f with kidsRev := pushStrKids s f.kidsRev } :: fs⟩ := by
  induction s with
  | nil => intro f fs _ _; simp [escapeText, escapeWith, run, pushStrKids]
  | cons c cs ih =>
    intro f fs hm hc
    obtain ⟨h0, hr, hcs⟩ := clean_cons hc
    have hm' : escMode ({ f with kidsRev := pushCharKids c f.kidsRev } :: fs) := hm
    have := ih { f with kidsRev := pushCharKids c f.kidsRev } fs hm' hcs
    simp only [escapeText] at this ⊢
    simp only [escapeWith, run_append, run_entity_text hm c h0 hr, Option.bind_some, this, pushStrKids]

/-! ### attribute values inside `="…"` -/

theorem step_attr_plain (tg : TagTok) (n v : Str) (st : List Frame) {c : Char}
    (h0 : c ≠ cNul) (hr : c ≠ cCr) (ha : c ≠ '&') (hq : c ≠ '"') :
    step ⟨.attrVal .dq tg n v, st⟩ c = some ⟨.attrVal .dq tg n (v ++ [c]), st⟩ := by
  simp [step, stepAttrVal, h0, hr, ha, hq]

theorem run_attr_amp (tg : TagTok) (n v : Str) (st : List Frame) :
    run ⟨.attrVal .dq tg n v, st⟩ ['&', 'a', 'm', 'p', ';'] = some ⟨.attrVal .dq tg n (v ++ ['&']), st⟩ := by
  simp [run, step, stepAttrVal, crefStep, cCr, cNul, isAlnum, isAlpha, isUpper, isLowerAlpha, isDigit, namedRefs, assoc]

theorem run_attr_lt (tg : TagTok) (n v : Str) (st : List Frame) :
    run ⟨.attrVal .dq tg n v, st⟩ ['&', 'l', 't', ';'] = some ⟨.attrVal .dq tg n (v ++ ['<']), st⟩ := by
  simp [run, step, stepAttrVal, crefStep, cCr, cNul, isAlnum, isAlpha, isUpper, isLowerAlpha, isDigit, namedRefs, assoc]

theorem run_attr_gt (tg : TagTok) (n v : Str) (st : List Frame) :
    run ⟨.attrVal .dq tg n v, st⟩ ['&', 'g', 't', ';'] = some ⟨.attrVal .dq tg n (v ++ ['>']), st⟩ := by
  simp [run, step, stepAttrVal, crefStep, cCr, cNul, isAlnum, isAlpha, isUpper, isLowerAlpha, isDigit, namedRefs, assoc]

theorem run_attr_quot (tg : TagTok) (n v : Str) (st : List Frame) :
    run ⟨.attrVal .dq tg n v, st⟩ ['&', 'q', 'u', 'o', 't', ';'] = some ⟨.attrVal .dq tg n (v ++ ['"']), st⟩ := by
  simp [run, step, stepAttrVal, crefStep, cCr, cNul, isAlnum, isAlpha, isUpper, isLowerAlpha, isDigit, namedRefs, assoc]

theorem run_entity_attr (tg : TagTok) (n v : Str) (st : List Frame) (c : Char)
    (h0 : c ≠ cNul) (hr : c ≠ cCr) :
    run ⟨.attrVal .dq tg n v, st⟩ (entityOf attrTable c) = some ⟨.attrVal .dq tg n (v ++ [c]), st⟩ := by
  by_cases ha : c = '&'
  · subst ha; exact run_attr_amp tg n v st
  by_cases hl : c = '<'
  · subst hl; exact run_attr_lt tg n v st
  by_cases hg : c = '>'
  · subst hg; exact run_attr_gt tg n v st
  by_cases hq : c = '"'
  · subst hq; exact run_attr_quot tg n v st
  have : entityOf attrTable c = [c] := by
    simp [entityOf, attrTable, assoc, ha, hl, hg, hq]
  rw [this]
  simp [run, step_attr_plain tg n v st h0 hr ha hq]

theorem run_escapeAttr (s : Str) : ∀ (tg : TagTok) (n v : Str) (st : List Frame), clean s = true →
    run ⟨.attrVal .dq tg n v, st⟩ (escapeAttr s) = some ⟨.attrVal .dq tg n (v ++ s), st⟩ := by
  induction s with
  | nil => intro tg n v st _; simp [escapeAttr, escapeWith, run]
  | cons c cs ih =>
    intro tg n v st hc
    obtain ⟨h0, hr, hcs⟩ := clean_cons hc
    have := ih tg n (v ++ [c]) st hcs
    simp only [escapeAttr] at this ⊢
    simp only [escapeWith, run_append, run_entity_attr tg n v st c h0 hr, Option.bind_some, this,
      List.append_assoc, List.singleton_append]

/-! ### names -/

def attrNameChar (c : Char) : Bool := nameChar c || c = '_' || c = ':'

def attrNameOK : Str → Bool
  | [] => false
  | c :: cs => attrNameChar c && cs.all attrNameChar

def tagCharsOK : Str → Bool
  | [] => false
  | c :: cs => isLowerAlpha c && cs.all nameChar

structure NameCharFacts (c : Char) : Prop where
  cr : c ≠ cCr
  nul : c ≠ cNul
  ws : isWs c = false
  slash : c ≠ '/'
  gt : c ≠ '>'
  eq : c ≠ '='
  dq : c ≠ '"'
  sq : c ≠ '\''
  lt : c ≠ '<'
  low : lower c = c

theorem isUpper_false_of (c : Char) (h : isLowerAlpha c = true ∨ isDigit c = true ∨ c = '-' ∨ c = '_' ∨ c = ':') :
    isUpper c = false := by
  rcases h with h | h | h | h | h
  · simp [isLowerAlpha, isUpper] at h ⊢; omega
  · simp [isDigit, isUpper] at h ⊢; omega
  · subst h; decide
  · subst h; decide
  · subst h; decide

theorem attrNameChar_cases {c : Char} (h : attrNameChar c = true) :
    isLowerAlpha c = true ∨ isDigit c = true ∨ c = '-' ∨ c = '_' ∨ c = ':' := by
  simp only [attrNameChar, nameChar, Bool.or_eq_true, decide_eq_true_eq] at h
  rcases h with (((h | h) | h) | h) | h
  · exact Or.inl h
  · exact Or.inr (Or.inl h)
  · exact Or.inr (Or.inr (Or.inl h))
  · exact Or.inr (Or.inr (Or.inr (Or.inl h)))
  · exact Or.inr (Or.inr (Or.inr (Or.inr h)))

theorem attrNameChar_facts {c : Char} (h : attrNameChar c = true) : NameCharFacts c := by
  have hu := isUpper_false_of c (attrNameChar_cases h)
  have e : ∀ d : Char, attrNameChar d = false → c ≠ d := by
    intro d hd hcd; subst hcd; rw [h] at hd; exact Bool.noConfusion hd
  have h1 := e cCr (by decide)
  have h2 := e cNul (by decide)
  have h3 := e ' ' (by decide)
  have h4 := e cTab (by decide)
  have h5 := e cLf (by decide)
  have h6 := e cFf (by decide)
  exact {
    cr := h1, nul := h2
    ws := by simp [isWs, h3, h4, h5, h6]
    slash := e _ (by decide), gt := e _ (by decide), eq := e _ (by decide), dq := e _ (by decide)
    sq := e _ (by decide), lt := e _ (by decide)
    low := by simp [lower, hu] }

theorem nameChar_attrNameChar {c : Char} (h : nameChar c = true) : attrNameChar c = true := by
  simp [attrNameChar, h]

theorem isLowerAlpha_nameChar {c : Char} (h : isLowerAlpha c = true) : nameChar c = true := by
  simp [nameChar, h]

/-! ### tag names -/

theorem run_tagName (cs : Str) : ∀ (t : Str) (st : List Frame), cs.all nameChar = true →
    run ⟨.tagName t, st⟩ cs = some ⟨.tagName (t ++ cs), st⟩ := by
  induction cs with
  | nil => intro t st _; simp [run]
  | cons c cs ih =>
    intro t st h
    simp only [List.all_cons, Bool.and_eq_true] at h
    have f := attrNameChar_facts (nameChar_attrNameChar h.1)
    have : step ⟨.tagName t, st⟩ c = some ⟨.tagName (t ++ [c]), st⟩ := by
      simp [step, f.cr, f.ws, f.slash, f.gt, f.nul, f.low]
    simp [run, this, ih _ st h.2]

theorem run_open_tagName {st : List Frame} (hm : curMode st = .data) {tag : Str}
    (h : tagCharsOK tag = true) : run ⟨.text, st⟩ ('<' :: tag) = some ⟨.tagName tag, st⟩ := by
  cases tag with
  | nil => simp [tagCharsOK] at h
  | cons c cs =>
    simp only [tagCharsOK, Bool.and_eq_true] at h
    have f := attrNameChar_facts (nameChar_attrNameChar (isLowerAlpha_nameChar h.1))
    have ha : isAlpha c = true := by simp [isAlpha, h.1]
    have h1 : step ⟨.text, st⟩ '<' = some ⟨.tagOpen, st⟩ := by
      simp [step, stepText, hm, cCr, cNul]
    have h2 : step ⟨.tagOpen, st⟩ c = some ⟨.tagName [c], st⟩ := by
      have e1 : c ≠ '!' := by rintro rfl; revert ha; decide
      simp [step, f.cr, f.slash, e1, ha, f.low]
    simp [run, h1, h2, run_tagName cs [c] st h.2]

theorem run_endTagName (cs : Str) : ∀ (t : Str) (st : List Frame), cs.all nameChar = true →
    run ⟨.endTagName t, st⟩ cs = some ⟨.endTagName (t ++ cs), st⟩ := by
  induction cs with
  | nil => intro t st _; simp [run]
  | cons c cs ih =>
    intro t st h
    simp only [List.all_cons, Bool.and_eq_true] at h
    have f := attrNameChar_facts (nameChar_attrNameChar h.1)
    have : step ⟨.endTagName t, st⟩ c = some ⟨.endTagName (t ++ [c]), st⟩ := by
      simp [step, f.cr, f.ws, f.slash, f.gt, f.nul, f.low]
    simp [run, this, ih _ st h.2]

/-- `</tag>` in the data state closes the current node -/
theorem run_endTag {st : List Frame} (hm : curMode st = .data) {tag : Str}
    (h : tagCharsOK tag = true) :
    run ⟨.text, st⟩ ('<' :: '/' :: tag ++ ['>']) = emitEnd tag st := by
  cases tag with
  | nil => simp [tagCharsOK] at h
  | cons c cs =>
    simp only [tagCharsOK, Bool.and_eq_true] at h
    have f := attrNameChar_facts (nameChar_attrNameChar (isLowerAlpha_nameChar h.1))
    have ha : isAlpha c = true := by simp [isAlpha, h.1]
    have h1 : step ⟨.text, st⟩ '<' = some ⟨.tagOpen, st⟩ := by
      simp [step, stepText, hm, cCr, cNul]
    have h2 : step ⟨.tagOpen, st⟩ '/' = some ⟨.endTagOpen, st⟩ := by
      simp [step, cCr]
    have h3 : step ⟨.endTagOpen, st⟩ c = some ⟨.endTagName [c], st⟩ := by
      simp [step, f.cr, ha, f.low]
    have h4 : ∀ t, step ⟨.endTagName t, st⟩ '>' = emitEnd t st := by
      intro t; simp [step, cCr, isWs, cTab, cLf, cFf]
    have := run_append cs ['>'] ⟨.endTagName [c], st⟩
    simp only [List.cons_append, run, h1, h2, h3]
    rw [this, run_endTagName cs [c] st h.2]
    simp only [Option.bind_some, run, h4]
    simp only [List.singleton_append]
    cases emitEnd (c :: cs) st <;> rfl

/-! ### attributes -/

theorem run_attrName (cs : Str) : ∀ (tg : TagTok) (n : Str) (st : List Frame), cs.all attrNameChar = true →
    run ⟨.attrName tg n, st⟩ cs = some ⟨.attrName tg (n ++ cs), st⟩ := by
  induction cs with
  | nil => intro tg n st _; simp [run]
  | cons c cs ih =>
    intro tg n st h
    simp only [List.all_cons, Bool.and_eq_true] at h
    have f := attrNameChar_facts h.1
    have : step ⟨.attrName tg n, st⟩ c = some ⟨.attrName tg (n ++ [c]), st⟩ := by
      simp [step, f.cr, f.ws, f.slash, f.gt, f.nul, f.low, f.eq, f.dq, f.sq, f.lt]
    simp [run, this, ih tg _ st h.2]

/-- tokenizer states between two attributes: the tag token so far is `tg` -/
inductive Bnd : Tok → TagTok → Prop where
  | tagName (t : Str) : Bnd (.tagName t) ⟨t, []⟩
  | afterQ (tg : TagTok) : Bnd (.afterAttrValQ tg) tg
  | bare (tg0 : TagTok) (n : Str) (tg : TagTok) : finishAttr tg0 n [] = some tg → Bnd (.attrName tg0 n) tg

theorem bnd_gt {tok : Tok} {tg : TagTok} (h : Bnd tok tg) (st : List Frame) :
    step ⟨tok, st⟩ '>' = emitStart tg false st := by
  cases h with
  | tagName t => simp [step, cCr, isWs, cTab, cLf, cFf]
  | afterQ tg => simp [step, cCr, isWs, cTab, cLf, cFf]
  | bare tg0 n tg hf => simp [step, cCr, isWs, cTab, cLf, cFf, hf]

theorem bnd_space_name {tok : Tok} {tg : TagTok} (h : Bnd tok tg) (st : List Frame) {c : Char}
    (hc : attrNameChar c = true) : run ⟨tok, st⟩ [' ', c] = some ⟨.attrName tg [c], st⟩ := by
  have f := attrNameChar_facts hc
  have hb : step ⟨.beforeAttrName tg, st⟩ c = some ⟨.attrName tg [c], st⟩ := by
    simp [step, startAttrOrEnd, f.cr, f.ws, f.slash, f.gt, f.nul, f.low, f.eq, f.dq, f.sq, f.lt]
  cases h with
  | tagName t =>
    have : step ⟨.tagName t, st⟩ ' ' = some ⟨.beforeAttrName ⟨t, []⟩, st⟩ := by simp [step, cCr, isWs]
    simp [run, this, hb]
  | afterQ tg =>
    have : step ⟨.afterAttrValQ tg, st⟩ ' ' = some ⟨.beforeAttrName tg, st⟩ := by simp [step, cCr, isWs]
    simp [run, this, hb]
  | bare tg0 n tg hf =>
    have h1 : step ⟨.attrName tg0 n, st⟩ ' ' = some ⟨.afterAttrName tg0 n, st⟩ := by simp [step, cCr, isWs]
    have h2 : step ⟨.afterAttrName tg0 n, st⟩ c = some ⟨.attrName tg [c], st⟩ := by
      simp [step, hf, startAttrOrEnd, f.cr, f.ws, f.slash, f.gt, f.nul, f.low, f.eq, f.dq, f.sq, f.lt]
    simp [run, h1, h2]

/-- one printed attribute: ` name` or ` name="escaped value"` -/
def renderFlat1 (a : Str × Option Str) : Str :=
  ' ' :: a.1 ++ (match a.2 with
    | some v => '=' :: '"' :: escapeAttr v ++ ['"']
    | none => [])

def renderFlat : List (Str × Option Str) → Str
  | [] => []
  | a :: r => renderFlat1 a ++ renderFlat r

def flatVal (a : Str × Option Str) : Str × Str := (a.1, a.2.getD [])

def flatClean (a : Str × Option Str) : Bool :=
  match a.2 with
  | some v => clean v
  | none => true

theorem run_flat1 {tok : Tok} {tg tg' : TagTok} (hb : Bnd tok tg) (st : List Frame) (a : Str × Option Str)
    (hn : attrNameOK a.1 = true) (hv : flatClean a = true)
    (hf : finishAttr tg a.1 (a.2.getD []) = some tg') :
    ∃ tok', run ⟨tok, st⟩ (renderFlat1 a) = some ⟨tok', st⟩ ∧ Bnd tok' tg' := by
  obtain ⟨n, ov⟩ := a
  cases n with
  | nil => simp [attrNameOK] at hn
  | cons c cs =>
    simp only [attrNameOK, Bool.and_eq_true] at hn
    have hname : run ⟨tok, st⟩ (' ' :: c :: cs) = some ⟨.attrName tg (c :: cs), st⟩ := by
      have := run_append [' ', c] cs ⟨tok, st⟩
      simp only [List.cons_append, List.nil_append] at this
      rw [this, bnd_space_name hb st hn.1]
      simp [run_attrName cs tg [c] st hn.2]
    cases ov with
    | none =>
      refine ⟨.attrName tg (c :: cs), ?_, ?_⟩
      · simpa [renderFlat1] using hname
      · exact Bnd.bare _ _ _ (by simpa using hf)
    | some v =>
      refine ⟨.afterAttrValQ tg', ?_, Bnd.afterQ _⟩
      have hv' : clean v = true := by simpa [flatClean] using hv
      have e : renderFlat1 (c :: cs, some v) = (' ' :: c :: cs) ++ (['=', '"'] ++ (escapeAttr v ++ ['"'])) := by
        simp [renderFlat1]
      have h1 : run ⟨.attrName tg (c :: cs), st⟩ ['=', '"'] = some ⟨.attrVal .dq tg (c :: cs) [], st⟩ := by
        simp [run, step, cCr, isWs, cTab, cLf, cFf]
      have h2 : step ⟨.attrVal .dq tg (c :: cs) v, st⟩ '"' = some ⟨.afterAttrValQ tg', st⟩ := by
        have hf' : finishAttr tg (c :: cs) v = some tg' := by simpa using hf
        simp [step, stepAttrVal, cCr, cNul, hf']
      rw [e, run_append, hname, Option.bind_some, run_append, h1, Option.bind_some, run_append,
        run_escapeAttr v tg (c :: cs) [] st hv', Option.bind_some]
      simp [run, h2]

def finishAll : TagTok → List (Str × Str) → Option TagTok
  | tg, [] => some tg
  | tg, (n, v) :: r =>
    match finishAttr tg n v with
    | some tg' => finishAll tg' r
    | none => none

theorem run_flat (l : List (Str × Option Str)) : ∀ {tok : Tok} {tg tg' : TagTok}, Bnd tok tg → ∀ (st : List Frame),
    (∀ a ∈ l, attrNameOK a.1 = true ∧ flatClean a = true) →
    finishAll tg (l.map flatVal) = some tg' →
    ∃ tok', run ⟨tok, st⟩ (renderFlat l) = some ⟨tok', st⟩ ∧ Bnd tok' tg' := by
  induction l with
  | nil =>
    intro tok tg tg' hb st _ hf
    simp [finishAll] at hf
    subst hf
    exact ⟨tok, by simp [renderFlat, run], hb⟩
  | cons a r ih =>
    intro tok tg tg' hb st hok hf
    simp only [List.map_cons, flatVal, finishAll] at hf
    cases h1 : finishAttr tg a.1 (a.2.getD []) with
    | none => simp [h1] at hf
    | some tg1 =>
      simp only [h1] at hf
      have ha := hok a (by simp)
      obtain ⟨tok1, hr1, hb1⟩ := run_flat1 hb st a ha.1 ha.2 h1
      obtain ⟨tok2, hr2, hb2⟩ := ih hb1 st (fun x hx => hok x (by simp [hx])) hf
      exact ⟨tok2, by simp [renderFlat, run_append, hr1, hr2], hb2⟩

theorem finishAll_nodup (l : List (Str × Str)) : ∀ (t : Str) (acc : List (Str × Str)),
    ((acc ++ l).map (·.1)).Nodup → finishAll ⟨t, acc⟩ l = some ⟨t, acc ++ l⟩ := by
  induction l with
  | nil => intro t acc _; simp [finishAll]
  | cons a r ih =>
    intro t acc h
    obtain ⟨n, v⟩ := a
    have hn : ¬ (acc.any (fun x => x.1 = n)) = true := by
      intro hany
      simp only [List.any_eq_true, decide_eq_true_eq] at hany
      obtain ⟨x, hx, hxn⟩ := hany
      simp only [List.map_append, List.map_cons] at h
      have := (List.nodup_append.mp h).2.2 x.1 (List.mem_map_of_mem hx) n (by simp)
      exact this hxn
    have : finishAttr ⟨t, acc⟩ n v = some ⟨t, acc ++ [(n, v)]⟩ := by
      simp [finishAttr, hn]
    simp only [finishAll, this]
    have h' : ((acc ++ [(n, v)] ++ r).map (·.1)).Nodup := by simpa using h
    simpa using ih t (acc ++ [(n, v)]) h'

/-! ### the attribute printer in flat form -/

def plainFlatR : List Attr → List (Str × Option Str)
  | [] => []
  | .plain n v :: r => (n, some v) :: plainFlatR r
  | .bool n true :: r => (n, none) :: plainFlatR r
  | _ :: r => plainFlatR r

def flatR (attrs : List Attr) : List (Str × Option Str) :=
  plainFlatR attrs ++
  (if classBuf attrs = [] then [] else [(sClass, some (trim (classBuf attrs)))]) ++
  (if styleBuf attrs = [] then [] else [(sStyle, some (trim (styleBuf attrs)))])

theorem renderFlat_append (a b : List (Str × Option Str)) : renderFlat (a ++ b) = renderFlat a ++ renderFlat b := by
  induction a with
  | nil => simp [renderFlat]
  | cons x xs ih => simp [renderFlat, ih]

theorem plainPart_eq (attrs : List Attr) : plainPart attrs = renderFlat (plainFlatR attrs) := by
  induction attrs with
  | nil => simp [plainPart, plainFlatR, renderFlat]
  | cons a r ih =>
    cases a with
    | plain n v => simp [plainPart, plainFlatR, renderFlat, renderFlat1, ih]
    | bool n on => cases on <;> simp [plainPart, plainFlatR, renderFlat, renderFlat1, ih]
    | cls v => simp [plainPart, plainFlatR, ih]
    | clsToggle n on => simp [plainPart, plainFlatR, ih]
    | style v => simp [plainPart, plainFlatR, ih]
    | styleKV n v => simp [plainPart, plainFlatR, ih]
    | innerHtml raw => simp [plainPart, plainFlatR, ih]

theorem attrsHtml_eq (attrs : List Attr) : attrsHtml attrs = renderFlat (flatR attrs) := by
  simp only [attrsHtml, flatR, renderFlat_append, plainPart_eq]
  congr 1
  · congr 1
    split <;> simp [renderFlat, renderFlat1, quoted]
  · split <;> simp [renderFlat, renderFlat1, quoted]

theorem plainFlat_eq (attrs : List Attr) : plainFlat attrs = (plainFlatR attrs).map flatVal := by
  induction attrs with
  | nil => simp [plainFlat, plainFlatR]
  | cons a r ih =>
    cases a with
    | plain n v => simp [plainFlat, plainFlatR, flatVal, ih]
    | bool n on => cases on <;> simp [plainFlat, plainFlatR, flatVal, ih]
    | cls v => simp [plainFlat, plainFlatR, ih]
    | clsToggle n on => simp [plainFlat, plainFlatR, ih]
    | style v => simp [plainFlat, plainFlatR, ih]
    | styleKV n v => simp [plainFlat, plainFlatR, ih]
    | innerHtml raw => simp [plainFlat, plainFlatR, ih]

theorem expectedAttrs_eq (attrs : List Attr) : expectedAttrs attrs = (flatR attrs).map flatVal := by
  simp only [expectedAttrs, flatR, List.map_append, plainFlat_eq]
  congr 1
  · congr 1
    split <;> simp [flatVal]
  · split <;> simp [flatVal]

/-! ### well-formed views (structure only; string *values* are unconstrained apart from `clean`) -/

def attrClean : Attr → Bool
  | .plain n v => attrNameOK n && clean v
  | .bool n _ => attrNameOK n
  | .cls v => clean v
  | .clsToggle n _ => clean n
  | .style v => clean v
  | .styleKV n v => clean n && clean v
  | .innerHtml _ => false

/-- attribute names are tokenizable and pairwise distinct, values contain no NUL/CR, no `inner_html` -/
def attrsOK (attrs : List Attr) : Bool :=
  attrs.all attrClean && decide (((expectedAttrs attrs).map (·.1)).Nodup)

theorem clean_append {a b : Str} : clean (a ++ b) = (clean a && clean b) := by simp [clean]

theorem clean_dropWhile (p : Char → Bool) (s : Str) (h : clean s = true) : clean (s.dropWhile p) = true := by
  induction s with
  | nil => simp [clean]
  | cons c cs ih =>
    simp only [List.dropWhile]
    split
    · exact ih (clean_cons h).2.2
    · exact h

theorem clean_reverse (s : Str) : clean s.reverse = clean s := by simp [clean]

theorem clean_trim (s : Str) (h : clean s = true) : clean (trim s) = true := by
  simp only [trim, clean_reverse]
  apply clean_dropWhile
  rw [clean_reverse]
  exact clean_dropWhile _ _ h

theorem clean_classBuf (attrs : List Attr) (h : attrs.all attrClean = true) : clean (classBuf attrs) = true := by
  induction attrs with
  | nil => simp [classBuf, clean]
  | cons a r ih =>
    simp only [List.all_cons, Bool.and_eq_true] at h
    have ihr := ih h.2
    cases a with
    | cls v =>
      have : clean v = true := by simpa [attrClean] using h.1
      simp only [classBuf]
      have e : (' ' :: v ++ classBuf r) = [' '] ++ v ++ classBuf r := by simp
      rw [e, clean_append, clean_append, this, ihr]; decide
    | clsToggle n on =>
      have : clean n = true := by simpa [attrClean] using h.1
      simp only [classBuf]
      have e : (' ' :: (if on = true then n else []) ++ classBuf r) = [' '] ++ (if on = true then n else []) ++ classBuf r := by simp
      rw [e, clean_append, clean_append, ihr]
      cases on <;> simp [this] <;> decide
    | plain n v => simpa [classBuf] using ihr
    | bool n on => simpa [classBuf] using ihr
    | style v => simpa [classBuf] using ihr
    | styleKV n v => simpa [classBuf] using ihr
    | innerHtml raw => simpa [classBuf] using ihr

theorem clean_styleBuf (attrs : List Attr) (h : attrs.all attrClean = true) : clean (styleBuf attrs) = true := by
  induction attrs with
  | nil => simp [styleBuf, clean]
  | cons a r ih =>
    simp only [List.all_cons, Bool.and_eq_true] at h
    have ihr := ih h.2
    cases a with
    | style v =>
      have : clean v = true := by simpa [attrClean] using h.1
      simp only [styleBuf]
      have e : (v ++ ';' :: styleBuf r) = v ++ [';'] ++ styleBuf r := by simp
      rw [e, clean_append, clean_append, this, ihr]; decide
    | styleKV n v =>
      have hh : clean n = true ∧ clean v = true := by simpa [attrClean] using h.1
      simp only [styleBuf]
      have e : (n ++ ':' :: v ++ ';' :: styleBuf r) = n ++ [':'] ++ v ++ [';'] ++ styleBuf r := by simp
      rw [e, clean_append, clean_append, clean_append, clean_append, hh.1, hh.2, ihr]; decide
    | plain n v => simpa [styleBuf] using ihr
    | bool n on => simpa [styleBuf] using ihr
    | cls v => simpa [styleBuf] using ihr
    | clsToggle n on => simpa [styleBuf] using ihr
    | innerHtml raw => simpa [styleBuf] using ihr

theorem innerBuf_nil (attrs : List Attr) (h : attrs.all attrClean = true) : innerBuf attrs = [] := by
  induction attrs with
  | nil => rfl
  | cons a r ih =>
    simp only [List.all_cons, Bool.and_eq_true] at h
    cases a <;> simp_all [innerBuf, attrClean]

theorem plainFlatR_ok (attrs : List Attr) (h : attrs.all attrClean = true) :
    ∀ a ∈ plainFlatR attrs, attrNameOK a.1 = true ∧ flatClean a = true := by
  induction attrs with
  | nil => simp [plainFlatR]
  | cons a r ih =>
    simp only [List.all_cons, Bool.and_eq_true] at h
    have ihr := ih h.2
    cases a with
    | plain n v =>
      have hh : attrNameOK n = true ∧ clean v = true := by simpa [attrClean] using h.1
      intro x hx
      simp only [plainFlatR, List.mem_cons] at hx
      rcases hx with rfl | hx
      · simpa [flatClean] using hh
      · exact ihr x hx
    | bool n on =>
      have hh : attrNameOK n = true := by simpa [attrClean] using h.1
      cases on
      · simpa [plainFlatR] using ihr
      · intro x hx
        simp only [plainFlatR, List.mem_cons] at hx
        rcases hx with rfl | hx
        · simp [flatClean, hh]
        · exact ihr x hx
    | cls v => simpa [plainFlatR] using ihr
    | clsToggle n on => simpa [plainFlatR] using ihr
    | style v => simpa [plainFlatR] using ihr
    | styleKV n v => simpa [plainFlatR] using ihr
    | innerHtml raw => simpa [plainFlatR] using ihr

theorem flatR_ok (attrs : List Attr) (h : attrs.all attrClean = true) :
    ∀ a ∈ flatR attrs, attrNameOK a.1 = true ∧ flatClean a = true := by
  intro a ha
  simp only [flatR, List.mem_append] at ha
  rcases ha with (ha | ha) | ha
  · exact plainFlatR_ok attrs h a ha
  · split at ha
    · simp at ha
    · simp only [List.mem_singleton] at ha
      subst ha
      exact ⟨(by decide : attrNameOK sClass = true), by simpa [flatClean] using clean_trim _ (clean_classBuf attrs h)⟩
  · split at ha
    · simp at ha
    · simp only [List.mem_singleton] at ha
      subst ha
      exact ⟨(by decide : attrNameOK sStyle = true), by simpa [flatClean] using clean_trim _ (clean_styleBuf attrs h)⟩

/-- `<tag attrs>` in the data state hands the expected start tag token to the tree builder -/
theorem run_startTag {st : List Frame} (hm : curMode st = .data) {tag : Str} {attrs : List Attr}
    (ht : tagCharsOK tag = true) (ha : attrsOK attrs = true) :
    run ⟨.text, st⟩ ('<' :: tag ++ attrsHtml attrs ++ ['>']) =
      emitStart ⟨tag, expectedAttrs attrs⟩ false st := by
  simp only [attrsOK, Bool.and_eq_true, decide_eq_true_eq] at ha
  have hfin : finishAll ⟨tag, []⟩ ((flatR attrs).map flatVal) = some ⟨tag, expectedAttrs attrs⟩ := by
    have := finishAll_nodup (expectedAttrs attrs) tag [] (by simpa using ha.2)
    simpa [expectedAttrs_eq] using this
  obtain ⟨tok', hr, hb⟩ := run_flat (flatR attrs) (Bnd.tagName tag) st (flatR_ok attrs ha.1) hfin
  have e : ('<' :: tag ++ attrsHtml attrs ++ ['>']) = ('<' :: tag) ++ (renderFlat (flatR attrs) ++ ['>']) := by
    simp [attrsHtml_eq]
  rw [e, run_append, run_open_tagName hm ht, Option.bind_some, run_append, hr, Option.bind_some]
  simp only [run, bnd_gt hb]
  cases emitStart ⟨tag, expectedAttrs attrs⟩ false st <;> rfl

/-! ### raw-text elements: `</tag>` seen from RCDATA / RAWTEXT / script data -/

def rawLike (tag : Str) : Bool :=
  tag = tTitle || tag = tTextarea || tag = tStyle || tag = tNoscript || tag = tScript

theorem rawLike_cases {tag : Str} (ht : rawLike tag = true) :
    tag = tTitle ∨ tag = tTextarea ∨ tag = tStyle ∨ tag = tNoscript ∨ tag = tScript := by
  simp only [rawLike, Bool.or_eq_true, decide_eq_true_eq] at ht
  rcases ht with (((h | h) | h) | h) | h <;> simp [h]

theorem run_rawEnd {tag : Str} (ht : rawLike tag = true) (tok : Tok) (htok : tok = .text ∨ tok = .textSkipLf)
    (f g : Frame) (rest : List Frame) (hf : f.tag = tag) :
    run ⟨tok, f :: g :: rest⟩ ('<' :: '/' :: tag ++ ['>']) =
      some ⟨.text, { g with kidsRev := .elem f.tag f.attrs f.kidsRev.reverse :: g.kidsRev } :: rest⟩ := by
  obtain ⟨ftag, fattrs, fk⟩ := f
  simp only at hf
  subst hf
  have m1 : modeOfTag ['t','i','t','l','e'] = .rcdata := by decide
  have m2 : modeOfTag ['t','e','x','t','a','r','e','a'] = .rcdata := by decide
  have m3 : modeOfTag ['s','t','y','l','e'] = .rawtext := by decide
  have m4 : modeOfTag ['n','o','s','c','r','i','p','t'] = .rawtext := by decide
  have m5 : modeOfTag ['s','c','r','i','p','t'] = .script := by decide
  rcases rawLike_cases ht with h | h | h | h | h <;> subst h <;> rcases htok with h | h <;> subst h
  all_goals
    simp [run, step, stepText, curMode, curTag, m1, m2, m3, m4, m5, cCr, cNul, cLf, isAlpha, isUpper,
      isLowerAlpha, lower, emitEnd,
      show tTitle = ['t','i','t','l','e'] from rfl, show tTextarea = ['t','e','x','t','a','r','e','a'] from rfl,
      show tStyle = ['s','t','y','l','e'] from rfl, show tNoscript = ['n','o','s','c','r','i','p','t'] from rfl,
      show tScript = ['s','c','r','i','p','t'] from rfl]

theorem rawLike_facts {tag : Str} (ht : rawLike tag = true) :
    isVoid tag = false ∧ tagCharsOK tag = true ∧ kind tag ≠ .unsupported ∧ kind tag ≠ .void := by
  rcases rawLike_cases ht with h | h | h | h | h <;> subst h <;> decide

theorem emitStart_raw {tag : Str} (ht : rawLike tag = true) (a : List (Str × Str)) (st : List Frame)
    (hn : nestOK tag (st.map (·.tag)) = true) :
    ∃ tok, (tok = .text ∨ tok = .textSkipLf) ∧ emitStart ⟨tag, a⟩ false st = some ⟨tok, ⟨tag, a, []⟩ :: st⟩ := by
  have hk := rawLike_facts ht
  refine ⟨if tag = tTextarea then .textSkipLf else .text, ?_, ?_⟩
  · split <;> simp
  · simp only [emitStart, hn]
    cases hkind : kind tag <;> simp_all

/-! ### well-formed views for the main theorem -/

/-- an ordinary (escaping, non-void) container the parser subset knows -/
def genericOK (tag : Str) : Bool :=
  kind tag = .generic && !isVoid tag && escapeChildren tag && tagCharsOK tag && tag != tTextarea

/-- a void element both sides agree on -/
def voidOK (tag : Str) : Bool := kind tag = .void && isVoid tag && tagCharsOK tag

/-- children of `<title>` (escaped, RCDATA): one string -/
def titleKids : List Node → Bool
  | [.text s] => clean s
  | _ => false

mutual
/-- `anc`: tags of the open elements, innermost first.  Elements are ordinary containers (any nesting
the tree builder accepts), void elements, raw-text elements *without children*, or `<title>` with one
string; all strings are free of NUL/CR. -/
def wfNode (anc : List Str) : Node → Bool
  | .text s => clean s
  | .elem tag attrs kids =>
    attrsOK attrs && nestOK tag anc &&
      ((genericOK tag && wfKids (tag :: anc) kids) || (voidOK tag && kids.isEmpty) ||
       (rawLike tag && kids.isEmpty) || (tag = tTitle && titleKids kids))
def wfKids (anc : List Str) : List Node → Bool
  | [] => true
  | n :: ns => wfNode anc n && wfKids anc ns
end

theorem run_marker {f : Frame} {fs : List Frame} (hm : curMode (f :: fs) = .data) :
    run ⟨.text, f :: fs⟩ ['<', '!', '>'] = some ⟨.text, { f with kidsRev := .comment [] :: f.kidsRev } :: fs⟩ := by
  simp [run, step, stepText, hm, cCr, cNul, stepBogus, emitComment, pushTree]

theorem run_space {f : Frame} {fs : List Frame} (tok : Tok) (htok : tok = .text ∨ tok = .textSkipLf)
    (hm : escMode (f :: fs)) :
    run ⟨tok, f :: fs⟩ [' '] = some ⟨.text, { f with kidsRev := pushCharKids ' ' f.kidsRev } :: fs⟩ := by
  rcases htok with h | h <;> subst h <;> rcases hm with hm | hm <;>
    simp [run, step, stepText, hm, cCr, cNul, cLf, emitChar]

/-- a text view after `k` (no text node last in `k`) -/
theorem run_textBody {f : Frame} {fs : List Frame} (hm : escMode (f :: fs)) (s : Str)
    (hs : clean s = true) (hk : headIsText f.kidsRev = false) :
    run ⟨.text, f :: fs⟩ (if s = [] then [' '] else escapeText s) =
      some ⟨.text, { f with kidsRev := .text (if s = [] then [' '] else s) :: f.kidsRev } :: fs⟩ := by
  by_cases h : s = []
  · subst h
    simp only [if_true]
    rw [run_space .text (Or.inl rfl) hm]
    have : pushCharKids ' ' f.kidsRev = .text [' '] :: f.kidsRev := by
      cases hk' : f.kidsRev with
      | nil => rfl
      | cons x xs => cases x <;> simp_all [pushCharKids, headIsText]
    rw [this]
  · simp only [h, if_false]
    rw [run_escapeText s f fs hm hs, pushStrKids_fresh s _ h hk]

theorem elemBody_ne {tag : Str} (h : tag ≠ tTextarea) (r : Str) : elemBody tag r = r := by
  simp [elemBody, h]

theorem elemBody_nil (tag : Str) : elemBody tag [] = [] := by
  unfold elemBody textareaBody
  split
  · split <;> simp [escapeText, escapeWith]
  · rfl

theorem modeOfTag_generic {tag : Str} (h : kind tag = .generic) : modeOfTag tag = .data := by
  simp [modeOfTag, h]

mutual
theorem run_node : (n : Node) → ∀ (f : Frame) (fs : List Frame) (pos : Pos),
    wfNode ((f :: fs).map (·.tag)) n = true → modeOfTag f.tag = .data →
    (pos = .afterText ↔ headIsText f.kidsRev = true) →
    run ⟨.text, f :: fs⟩ (nodeHtml true pos n) =
      some ⟨.text, { f with kidsRev := (structNode pos n).reverse ++ f.kidsRev } :: fs⟩
  | .text s, f, fs, pos, hw, hm, hp => by
    have hs : clean s = true := by simpa [wfNode] using hw
    have hm' : curMode (f :: fs) = .data := hm
    simp only [nodeHtml, textHtml, structNode, if_true]
    by_cases ha : pos = .afterText
    · simp only [ha, if_true]
      rw [run_append, run_marker hm', Option.bind_some]
      have := run_textBody (f := { f with kidsRev := .comment [] :: f.kidsRev }) (fs := fs) (Or.inl hm) s hs rfl
      simp only [this]
      simp
    · have hk : headIsText f.kidsRev = false := by
        cases h : headIsText f.kidsRev with
        | false => rfl
        | true => exact absurd (hp.mpr h) ha
      simp only [ha, if_false, List.nil_append]
      rw [run_textBody (Or.inl hm') s hs hk]
      simp
  | .elem tag attrs kids, f, fs, pos, hw, hm, _ => by
    have hm' : curMode (f :: fs) = .data := hm
    simp only [wfNode, Bool.and_eq_true, Bool.or_eq_true] at hw
    obtain ⟨⟨hattrs, hnest⟩, hcase⟩ := hw
    have hnest' : nestOK tag (f.tag :: List.map (fun x => x.tag) fs) = true := by simpa using hnest
    have hinner : innerBuf attrs = [] := by
      simp only [attrsOK, Bool.and_eq_true] at hattrs
      exact innerBuf_nil attrs hattrs.1
    rcases hcase with ((⟨hg, hkids⟩ | ⟨hv, hempty⟩) | ⟨hraw, hempty⟩) | ⟨htitle, htk⟩
    · -- generic container
      simp only [genericOK, Bool.and_eq_true, decide_eq_true_eq, Bool.not_eq_true', bne_iff_ne, ne_eq] at hg
      obtain ⟨⟨⟨⟨hkind, hnv⟩, hesc⟩, hchars⟩, hnta⟩ := hg
      have hstart : emitStart ⟨tag, expectedAttrs attrs⟩ false (f :: fs) =
          some ⟨.text, ⟨tag, expectedAttrs attrs, []⟩ :: f :: fs⟩ := by
        simp only [emitStart]
        simp [hnest', hkind, hnta]
      have hopen := run_startTag (st := f :: fs) hm' hchars hattrs
      have hmk : modeOfTag tag = .data := modeOfTag_generic hkind
      have ih := run_kids kids ⟨tag, expectedAttrs attrs, []⟩ (f :: fs) .firstChild hkids hmk
        (by simp [headIsText])
      have hclose : run ⟨.text, ⟨tag, expectedAttrs attrs, (structKids .firstChild kids).reverse ++ []⟩ :: f :: fs⟩
          ('<' :: '/' :: tag ++ ['>']) =
          some ⟨.text, { f with kidsRev := .elem tag (expectedAttrs attrs) (structKids .firstChild kids) :: f.kidsRev } :: fs⟩ := by
        rw [run_endTag (by exact hmk) hchars]
        simp [emitEnd]
      have e : nodeHtml true pos (.elem tag attrs kids) =
          ('<' :: tag ++ attrsHtml attrs ++ ['>']) ++ (kidsHtml true .firstChild kids ++ ('<' :: '/' :: tag ++ ['>'])) := by
        simp [nodeHtml, hnv, hinner, hesc]
      rw [e, run_append, hopen, hstart, Option.bind_some, run_append, ih, Option.bind_some, hclose]
      simp [structNode, hnv, hinner, hesc]
    · -- void element
      simp only [voidOK, Bool.and_eq_true, decide_eq_true_eq] at hv
      obtain ⟨⟨hkind, hisv⟩, hchars⟩ := hv
      have hstart : emitStart ⟨tag, expectedAttrs attrs⟩ false (f :: fs) =
          some ⟨.text, { f with kidsRev := .elem tag (expectedAttrs attrs) [] :: f.kidsRev } :: fs⟩ := by
        simp only [emitStart]
        simp [hnest', hkind, pushTree]
      have hopen := run_startTag (st := f :: fs) hm' hchars hattrs
      have e : nodeHtml true pos (.elem tag attrs kids) = ('<' :: tag ++ attrsHtml attrs ++ ['>']) := by
        simp [nodeHtml, hisv]
      rw [e, hopen, hstart]
      simp [structNode, hisv]
    · -- raw-text element without children
      have hk : kids = [] := by cases kids <;> simp_all
      subst hk
      obtain ⟨hnv, hchars, _, _⟩ := rawLike_facts hraw
      obtain ⟨tok, htok, hstart⟩ := emitStart_raw hraw (expectedAttrs attrs) (f :: fs) hnest
      have hopen := run_startTag (st := f :: fs) hm' hchars hattrs
      have hclose := run_rawEnd hraw tok htok ⟨tag, expectedAttrs attrs, []⟩ f fs rfl
      have e : nodeHtml true pos (.elem tag attrs []) =
          ('<' :: tag ++ attrsHtml attrs ++ ['>']) ++ ('<' :: '/' :: tag ++ ['>']) := by
        simp [nodeHtml, hnv, hinner, kidsHtml]
      rw [e, run_append, hopen, hstart, Option.bind_some, hclose]
      simp [structNode, hnv, hinner, structKids, rawText, textTree]
    · -- <title> with one string (escaped; RCDATA decodes it)
      simp only [decide_eq_true_eq] at htitle
      subst htitle
      match kids, htk with
      | [.text s], htk =>
        have hs : clean s = true := by simpa [titleKids] using htk
        have hraw : rawLike tTitle = true := by decide
        obtain ⟨hnv, hchars, _, _⟩ := rawLike_facts hraw
        have hstart : emitStart ⟨tTitle, expectedAttrs attrs⟩ false (f :: fs) =
            some ⟨.text, ⟨tTitle, expectedAttrs attrs, []⟩ :: f :: fs⟩ := by
          simp only [emitStart]
          simp [hnest', show tTitle ≠ tTextarea from by decide]
        have hopen := run_startTag (st := f :: fs) hm' hchars hattrs
        have hbody := run_textBody (f := ⟨tTitle, expectedAttrs attrs, []⟩) (fs := f :: fs)
          (Or.inr (show modeOfTag tTitle = .rcdata from by decide)) s hs rfl
        have hclose := run_rawEnd hraw .text (Or.inl rfl)
          ⟨tTitle, expectedAttrs attrs, [.text (if s = [] then [' '] else s)]⟩ f fs rfl
        have e : nodeHtml true pos (.elem tTitle attrs [.text s]) =
            ('<' :: tTitle ++ attrsHtml attrs ++ ['>']) ++
              ((if s = [] then [' '] else escapeText s) ++ ('<' :: '/' :: tTitle ++ ['>'])) := by
          simp [nodeHtml, hnv, hinner, show escapeChildren tTitle = true from by decide, kidsHtml, textHtml]
        rw [e, run_append, hopen, hstart, Option.bind_some, run_append, hbody, Option.bind_some, hclose]
        simp [structNode, hnv, hinner, show escapeChildren tTitle = true from by decide, structKids]
theorem run_kids : (ns : List Node) → ∀ (f : Frame) (fs : List Frame) (pos : Pos),
    wfKids ((f :: fs).map (·.tag)) ns = true → modeOfTag f.tag = .data →
    (pos = .afterText ↔ headIsText f.kidsRev = true) →
    run ⟨.text, f :: fs⟩ (kidsHtml true pos ns) =
      some ⟨.text, { f with kidsRev := (structKids pos ns).reverse ++ f.kidsRev } :: fs⟩
  | [], f, fs, pos, _, _, _ => by simp [kidsHtml, structKids, run]
  | n :: ns, f, fs, pos, hw, hm, hp => by
    simp only [wfKids, Bool.and_eq_true] at hw
    have h1 := run_node n f fs pos hw.1 hm hp
    have hp' : posAfter n = .afterText ↔
        headIsText ((structNode pos n).reverse ++ f.kidsRev) = true := by
      cases n with
      | text s => simp [posAfter, structNode, headIsText]
      | elem tag attrs kids => simp [posAfter, structNode, headIsText]
    have h2 := run_kids ns { f with kidsRev := (structNode pos n).reverse ++ f.kidsRev } fs (posAfter n)
      hw.2 hm hp'
    simp only [kidsHtml, run_append, h1, Option.bind_some, h2, structKids]
    simp
end

/-! ### typed children and containers (`VNode`) -/

/-- raw characters that neither RCDATA nor the data state reacts to -/
theorem run_inert (s : Str) : ∀ (f : Frame) (fs : List Frame), escMode (f :: fs) → titleInert s = true →
    run ⟨.text, f :: fs⟩ s = some ⟨.text, { f with kidsRev := pushStrKids s f.kidsRev } :: fs⟩ := by
  induction s with
  | nil => intro f fs _ _; simp [run, pushStrKids]
  | cons c cs ih =>
    intro f fs hm h
    simp only [titleInert, List.all_cons, Bool.and_eq_true, bne_iff_ne, ne_eq] at h
    obtain ⟨⟨⟨⟨h0, hr⟩, hl⟩, ha⟩, hcs⟩ := h
    have hm' : escMode ({ f with kidsRev := pushCharKids c f.kidsRev } :: fs) := hm
    simp only [run, step_text_plain hm h0 hr ha hl, pushStrKids]
    exact ih _ fs hm' (by simpa [titleInert] using hcs)

/-- a component name (program text) that needs no escaping inside `="…"` -/
def compOK (c : Str) : Bool :=
  c.all (fun ch => ch != '&' && ch != '<' && ch != '>' && ch != '"' && ch != cNul && ch != cCr)

theorem escapeAttr_of_compOK (c : Str) (h : compOK c = true) : escapeAttr c = c := by
  induction c with
  | nil => rfl
  | cons ch cs ih =>
    simp only [compOK, List.all_cons, Bool.and_eq_true, bne_iff_ne, ne_eq] at h
    obtain ⟨⟨⟨⟨⟨⟨ha, hl⟩, hg⟩, hq⟩, _⟩, _⟩, hcs⟩ := h
    have ih' := ih (by simpa [compOK] using hcs)
    simp only [escapeAttr] at ih' ⊢
    have e : entityOf attrTable ch = [ch] := by simp [entityOf, attrTable, assoc, ha, hl, hg, hq]
    simp only [escapeWith, e, ih']
    rfl

theorem clean_of_compOK (c : Str) (h : compOK c = true) : clean c = true := by
  simp only [compOK, clean, List.all_eq_true, Bool.and_eq_true, bne_iff_ne, ne_eq] at h ⊢
  intro x hx
  exact ⟨(h x hx).1.2, (h x hx).2⟩

/-- the island's hand-written attributes as ordinary plain attributes -/
def islandAttrsA (c p : Str) : List Attr :=
  .plain sDataComponent c :: (if p = [] then [] else [.plain sDataProps p])

theorem islandOpen_eq (c p : Str) (h : compOK c = true) :
    islandOpen c p = '<' :: tIsland ++ attrsHtml (islandAttrsA c p) ++ ['>'] := by
  by_cases hp : p = []
  · simp [islandOpen, islandAttrsA, hp, attrsHtml, plainPart, classBuf, styleBuf, escapeAttr_of_compOK c h]
  · simp [islandOpen, islandAttrsA, hp, attrsHtml, plainPart, classBuf, styleBuf, escapeAttr_of_compOK c h]

theorem islandAttrs_eq (c p : Str) : expectedAttrs (islandAttrsA c p) = islandAttrs c p := by
  by_cases hp : p = [] <;> simp [islandAttrsA, islandAttrs, hp, expectedAttrs, plainFlat, classBuf, styleBuf]

theorem islandAttrsOK (c p : Str) (hc : compOK c = true) (hp : clean p = true) :
    attrsOK (islandAttrsA c p) = true := by
  have h1 : attrNameOK sDataComponent = true := by decide
  have h2 : attrNameOK sDataProps = true := by decide
  have hcc := clean_of_compOK c hc
  by_cases hpe : p = []
  · simp [attrsOK, islandAttrsA, hpe, attrClean, h1, hcc, expectedAttrs, plainFlat, classBuf, styleBuf]
  · simp [attrsOK, islandAttrsA, hpe, attrClean, h1, h2, hcc, hp, expectedAttrs, plainFlat, classBuf, styleBuf]
    decide

theorem nestOK_custom (t : Str) (anc : List Str) (h1 : pClosers.contains t = false) (h2 : t ≠ tA)
    (h3 : t ≠ tButton) (h4 : headings.contains t = false) : nestOK t anc = true := by
  unfold nestOK
  rw [h1, h4]
  simp [h2, h3]

theorem clean_of_inert (s : Str) (h : titleInert s = true) : clean s = true := by
  simp only [titleInert, clean, List.all_eq_true, Bool.and_eq_true, bne_iff_ne, ne_eq] at h ⊢
  intro x hx
  exact ⟨(h x hx).1.1.1, (h x hx).1.1.2⟩

def vTitleKids : List VNode → Bool
  | [.text s] => clean s
  | _ => false

mutual
/-- prints nothing (under escape mode `esc`): nested empty tuples/arrays; without escaping also `Vec`s and
`()`/`None` that contain nothing else -/
def vBlank (esc : Bool) : VNode → Bool
  | .seq ks => vBlankKids esc ks
  | .vec ks => !esc && vBlankKids esc ks
  | .unit => !esc
  | _ => false
def vBlankKids (esc : Bool) : List VNode → Bool
  | [] => true
  | n :: ns => vBlank esc n && vBlankKids esc ns
end

mutual
theorem vBlank_facts : (n : VNode) → ∀ (esc : Bool) (pos : Pos), vBlank esc n = true →
    vHtml esc pos n = [] ∧ vPos esc pos n = pos ∧ vRawText n = [] ∧ (esc = true → vStruct pos n = [])
  | .text _, _, _, h => by simp [vBlank] at h
  | .prim _, _, _, h => by simp [vBlank] at h
  | .elem .., _, _, h => by simp [vBlank] at h
  | .island .., _, _, h => by simp [vBlank] at h
  | .islandChildren _, _, _, h => by simp [vBlank] at h
  | .resetPos, _, _, h => by simp [vBlank] at h
  | .seq ks, esc, pos, h => by
    have := vBlankKids_facts ks esc pos (by simpa [vBlank] using h)
    simpa [vHtml, vPos, vRawText, vStruct] using this
  | .vec ks, esc, pos, h => by
    simp only [vBlank, Bool.and_eq_true, Bool.not_eq_true'] at h
    obtain ⟨he, hk⟩ := h
    subst he
    have := vBlankKids_facts ks false pos hk
    simpa [vHtml, vPos, vRawText, markerIf] using this
  | .unit, esc, pos, h => by
    have he : esc = false := by simpa [vBlank] using h
    subst he
    simp [vHtml, vPos, vRawText, markerIf]
theorem vBlankKids_facts : (ns : List VNode) → ∀ (esc : Bool) (pos : Pos), vBlankKids esc ns = true →
    vKidsHtml esc pos ns = [] ∧ vKidsPos esc pos ns = pos ∧ vRawTextKids ns = [] ∧
      (esc = true → vStructKids pos ns = [])
  | [], _, _, _ => by simp [vKidsHtml, vKidsPos, vRawTextKids, vStructKids]
  | n :: ns, esc, pos, h => by
    simp only [vBlankKids, Bool.and_eq_true] at h
    obtain ⟨a1, a2, a3, a4⟩ := vBlank_facts n esc pos h.1
    obtain ⟨b1, b2, b3, b4⟩ := vBlankKids_facts ns esc pos h.2
    refine ⟨by simp [vKidsHtml, a1, a2, b1], by simp [vKidsPos, a2, b2], by simp [vRawTextKids, a3, b3], ?_⟩
    intro he
    subst he
    simp [vStructKids, a4 rfl, a2, b4 rfl]
end

/-! ### `<textarea>` with the two repairs: escaped text, doubled leading line feed -/

theorem step_skipLf_eq (st : List Frame) {x : Char} (hx : x ≠ cLf) :
    step ⟨.textSkipLf, st⟩ x = step ⟨.text, st⟩ x := by
  simp [step, hx]

theorem head_entity_ne_lf (c : Char) (hc : c ≠ cLf) : ∀ x ∈ (entityOf textTable c).head?, x ≠ cLf := by
  intro x hx
  by_cases ha : c = '&'
  · subst ha; simp [entityOf, textTable, assoc] at hx; subst hx; decide
  by_cases hl : c = '<'
  · subst hl; simp [entityOf, textTable, assoc] at hx; subst hx; decide
  by_cases hg : c = '>'
  · subst hg; simp [entityOf, textTable, assoc] at hx; subst hx; decide
  have : entityOf textTable c = [c] := by simp [entityOf, textTable, assoc, ha, hl, hg]
  rw [this] at hx
  simp at hx
  subst hx
  exact hc

/-- the repaired textarea body followed by the end tag, from the state right after `<textarea …>` -/
theorem run_textareaBody (s : Str) (hs : clean s = true) (a : List (Str × Str)) (g : Frame) (rest : List Frame) :
    run ⟨.textSkipLf, ⟨tTextarea, a, []⟩ :: g :: rest⟩
        (textareaBody true true s ++ ('<' :: '/' :: tTextarea ++ ['>'])) =
      some ⟨.text, { g with kidsRev := .elem tTextarea a (textTree s) :: g.kidsRev } :: rest⟩ := by
  have hraw : rawLike tTextarea = true := by decide
  have hmode : escMode (⟨tTextarea, a, []⟩ :: g :: rest) :=
    Or.inr (show modeOfTag tTextarea = .rcdata from by decide)
  have hfinish : ∀ tok, (tok = .text ∨ tok = .textSkipLf) → ∀ k : List Tree,
      run ⟨tok, ⟨tTextarea, a, k⟩ :: g :: rest⟩ ('<' :: '/' :: tTextarea ++ ['>']) =
        some ⟨.text, { g with kidsRev := .elem tTextarea a k.reverse :: g.kidsRev } :: rest⟩ :=
    fun tok ht k => run_rawEnd hraw tok ht ⟨tTextarea, a, k⟩ g rest rfl
  cases s with
  | nil =>
    have : textareaBody true true [] = [] := by simp [textareaBody, escapeText, escapeWith]
    rw [this, List.nil_append, hfinish _ (Or.inr rfl) []]
    simp [textTree]
  | cons c cs =>
    have hbody := run_escapeText (c :: cs) ⟨tTextarea, a, []⟩ (g :: rest) hmode hs
    have hk : pushStrKids (c :: cs) [] = [.text (c :: cs)] := pushStrKids_fresh _ _ (by simp) rfl
    have htt : textTree (c :: cs) = [.text (c :: cs)] := by simp [textTree]
    by_cases hc : c = cLf
    · -- `\n…` is printed `\n\n…`; the parser drops the first line feed
      have e : textareaBody true true (c :: cs) = cLf :: escapeText (c :: cs) := by
        subst hc; simp [textareaBody, cLf', cLf]
      have h1 : step ⟨.textSkipLf, ⟨tTextarea, a, []⟩ :: g :: rest⟩ cLf =
          some ⟨.text, ⟨tTextarea, a, []⟩ :: g :: rest⟩ := by
        simp [step, show cLf ≠ cCr from by decide]
      rw [e, List.cons_append]
      simp only [run, h1]
      rw [run_append, hbody, Option.bind_some]
      simp only [hk]
      rw [hfinish _ (Or.inl rfl) _, htt]
      simp
    · have e : textareaBody true true (c :: cs) = escapeText (c :: cs) := by
        have : ¬ (c = cLf') := hc
        simp [textareaBody, this]
      -- the first printed character is not a line feed, so `textSkipLf` behaves like `text`
      have hswap : ∀ (xs ys : Str), (∀ x ∈ xs.head?, x ≠ cLf) → xs ≠ [] →
          run ⟨.textSkipLf, ⟨tTextarea, a, []⟩ :: g :: rest⟩ (xs ++ ys) =
            run ⟨.text, ⟨tTextarea, a, []⟩ :: g :: rest⟩ (xs ++ ys) := by
        intro xs ys hh hne
        cases xs with
        | nil => exact absurd rfl hne
        | cons x xr =>
          have hx : x ≠ cLf := hh x (by simp)
          simp only [List.cons_append, run, step_skipLf_eq _ hx]
      have hne : escapeText (c :: cs) ≠ [] := by
        simp only [escapeText, escapeWith]
        intro h
        have := List.append_eq_nil_iff.mp h
        have h2 := this.1
        by_cases ha : c = '&'
        · subst ha; simp [entityOf, textTable, assoc] at h2
        by_cases hl : c = '<'
        · subst hl; simp [entityOf, textTable, assoc] at h2
        by_cases hg : c = '>'
        · subst hg; simp [entityOf, textTable, assoc] at h2
        simp [entityOf, textTable, assoc, ha, hl, hg] at h2
      have hhead : ∀ x ∈ (escapeText (c :: cs)).head?, x ≠ cLf := by
        intro x hx
        simp only [escapeText, escapeWith] at hx
        have hne' : entityOf textTable c ≠ [] := by
          by_cases ha : c = '&'
          · subst ha; simp [entityOf, textTable, assoc]
          by_cases hl : c = '<'
          · subst hl; simp [entityOf, textTable, assoc]
          by_cases hg : c = '>'
          · subst hg; simp [entityOf, textTable, assoc]
          simp [entityOf, textTable, assoc, ha, hl, hg]
        cases hE : entityOf textTable c with
        | nil => exact absurd hE hne'
        | cons y ys =>
          rw [hE] at hx
          have hy := head_entity_ne_lf c hc y (by simp [hE])
          simp at hx
          subst hx
          exact hy
      rw [e, hswap _ _ hhead hne, run_append, hbody, Option.bind_some]
      simp only [hk]
      rw [hfinish _ (Or.inl rfl) _, htt]
      simp

mutual
/-- `wfNode` for the extended views: strings of any string type in text positions; primitives whose
`Display` text has no `<`/`&`/NUL/CR (every number, `bool`, address; a `char` other than those);
tuples / arrays / `StaticVec` / `Fragment` (`seq`), `Vec` (`vec`), `()` / `None` (`unit`) anywhere a
child may stand in an escaping element. -/
def vwfNode (anc : List Str) : VNode → Bool
  | .text s => clean s
  | .prim s => s != [] && (titleInert s || (primEscaped && clean s))
  | .elem tag attrs kids =>
    attrsOK attrs && nestOK tag anc &&
      ((genericOK tag && vwfKids (tag :: anc) kids) || (voidOK tag && kids.isEmpty) ||
       (rawLike tag && vBlankKids (escapeChildren tag) kids) || (tag = tTitle && vTitleKids kids) ||
       (tag = tTextarea && textareaEscaped && textareaLfGuard && vTitleKids kids))
  | .seq ks => vwfKids anc ks
  | .vec ks => vwfKids anc ks
  | .unit => true
  | .island c p ks => compOK c && clean p && vwfKids (tIsland :: anc) ks
  | .islandChildren ks => vwfKids (tIslandChildren :: anc) ks
  | .resetPos => false
def vwfKids (anc : List Str) : List VNode → Bool
  | [] => true
  | n :: ns => vwfNode anc n && vwfKids anc ns
end

theorem headIsText_false_of {pos : Pos} {k : List Tree} (hp : headIsText k = true → pos = .afterText)
    (ha : ¬ pos = .afterText) : headIsText k = false := by
  cases h : headIsText k with
  | false => rfl
  | true => exact absurd (hp h) ha

mutual
theorem run_vnode : (n : VNode) → ∀ (f : Frame) (fs : List Frame) (pos : Pos),
    vwfNode ((f :: fs).map (·.tag)) n = true → modeOfTag f.tag = .data →
    (headIsText f.kidsRev = true → pos = .afterText) →
    run ⟨.text, f :: fs⟩ (vHtml true pos n) =
      some ⟨.text, { f with kidsRev := (vStruct pos n).reverse ++ f.kidsRev } :: fs⟩ ∧
    (headIsText ((vStruct pos n).reverse ++ f.kidsRev) = true → vPos true pos n = .afterText)
  | .text s, f, fs, pos, hw, hm, hp => by
    have hs : clean s = true := by simpa [vwfNode] using hw
    have hm' : curMode (f :: fs) = .data := hm
    refine ⟨?_, by simp [vPos, vStruct, headIsText]⟩
    simp only [vHtml, textHtml, vStruct, if_true]
    by_cases ha : pos = .afterText
    · simp only [ha, if_true]
      rw [run_append, run_marker hm', Option.bind_some]
      have := run_textBody (f := { f with kidsRev := .comment [] :: f.kidsRev }) (fs := fs) (Or.inl hm) s hs rfl
      simp only [this]
      simp
    · have hk := headIsText_false_of hp ha
      simp only [ha, if_false, List.nil_append]
      rw [run_textBody (Or.inl hm') s hs hk]
      simp
  | .prim s, f, fs, pos, hw, hm, hp => by
    simp only [vwfNode, Bool.and_eq_true, bne_iff_ne, ne_eq] at hw
    obtain ⟨hne, hin⟩ := hw
    have hm' : curMode (f :: fs) = .data := hm
    have htt : textTree s = [.text s] := by simp [textTree, hne]
    refine ⟨?_, by simp [vPos, vStruct, htt, headIsText]⟩
    -- what the primitive prints (raw, or escaped after fix-c06-5) is read back as its text
    have hbody : ∀ (g : Frame), modeOfTag g.tag = .data → headIsText g.kidsRev = false →
        run ⟨.text, g :: fs⟩ (if (true && primEscaped) = true then escapeText s else s) =
          some ⟨.text, { g with kidsRev := .text s :: g.kidsRev } :: fs⟩ := by
      intro g hg hk
      by_cases hpe : primEscaped = true
      · have hcl : clean s = true := by
          simp only [Bool.or_eq_true, Bool.and_eq_true] at hin
          rcases hin with h | h
          · exact clean_of_inert s h
          · exact h.2
        simp only [hpe, Bool.and_self, if_true]
        rw [run_escapeText s g fs (Or.inl hg) hcl, pushStrKids_fresh s _ hne hk]
      · have hin' : titleInert s = true := by
          simp only [Bool.or_eq_true, Bool.and_eq_true] at hin
          rcases hin with h | h
          · exact h
          · exact absurd h.1 hpe
        have : primEscaped = false := by simpa using hpe
        simp only [this, Bool.and_false, Bool.false_eq_true, if_false]
        rw [run_inert s g fs (Or.inl hg) hin', pushStrKids_fresh s _ hne hk]
    simp only [vHtml, vStruct, markerIf, htt]
    by_cases ha : pos = .afterText
    · simp only [ha, decide_true, if_true]
      rw [run_append, run_marker hm', Option.bind_some,
        hbody { f with kidsRev := .comment [] :: f.kidsRev } hm rfl]
      simp
    · have hk := headIsText_false_of hp ha
      simp only [ha, decide_false, if_false, List.nil_append, Bool.false_eq_true]
      rw [hbody f hm hk]
      simp
  | .elem tag attrs kids, f, fs, pos, hw, hm, _ => by
    have hm' : curMode (f :: fs) = .data := hm
    refine ⟨?_, by simp [vPos, vStruct, headIsText]⟩
    simp only [vwfNode, Bool.and_eq_true, Bool.or_eq_true] at hw
    obtain ⟨⟨hattrs, hnest⟩, hcase⟩ := hw
    have hnest' : nestOK tag (f.tag :: List.map (fun x => x.tag) fs) = true := by simpa using hnest
    have hinner : innerBuf attrs = [] := by
      simp only [attrsOK, Bool.and_eq_true] at hattrs
      exact innerBuf_nil attrs hattrs.1
    rcases hcase with (((⟨hg, hkids⟩ | ⟨hv, hempty⟩) | ⟨hraw, hempty⟩) | ⟨htitle, htk⟩) | ⟨⟨⟨hta, he⟩, hgd⟩, htk⟩
    rotate_left 4
    · -- <textarea>{s}</textarea> with the repairs of F-C06-1 (textarea part) and the leading line feed
      simp only [decide_eq_true_eq] at hta
      subst hta
      match kids, htk with
      | [.text s], htk =>
        have hs : clean s = true := by simpa [vTitleKids] using htk
        have hchars : tagCharsOK tTextarea = true := by decide
        have hstart : emitStart ⟨tTextarea, expectedAttrs attrs⟩ false (f :: fs) =
            some ⟨.textSkipLf, ⟨tTextarea, expectedAttrs attrs, []⟩ :: f :: fs⟩ := by
          simp only [emitStart]
          simp [hnest', show kind tTextarea = .rcdata from by decide]
        have hopen := run_startTag (st := f :: fs) hm' hchars hattrs
        have hbody := run_textareaBody s hs (expectedAttrs attrs) f fs
        have e : vHtml true pos (.elem tTextarea attrs [.text s]) =
            ('<' :: tTextarea ++ attrsHtml attrs ++ ['>']) ++
              (textareaBody true true s ++ ('<' :: '/' :: tTextarea ++ ['>'])) := by
          simp [vHtml, show isVoid tTextarea = false from by decide, hinner,
            show escapeChildren tTextarea = false from by decide, vKidsHtml, textHtml, elemBody, he, hgd]
        rw [e, run_append, hopen, hstart, Option.bind_some, hbody]
        simp [vStruct, show isVoid tTextarea = false from by decide, hinner,
          show escapeChildren tTextarea = false from by decide, vRawTextKids, vRawText]
    · simp only [genericOK, Bool.and_eq_true, decide_eq_true_eq, Bool.not_eq_true', bne_iff_ne, ne_eq] at hg
      obtain ⟨⟨⟨⟨hkind, hnv⟩, hesc⟩, hchars⟩, hnta⟩ := hg
      have hstart : emitStart ⟨tag, expectedAttrs attrs⟩ false (f :: fs) =
          some ⟨.text, ⟨tag, expectedAttrs attrs, []⟩ :: f :: fs⟩ := by
        simp only [emitStart]
        simp [hnest', hkind, hnta]
      have hopen := run_startTag (st := f :: fs) hm' hchars hattrs
      have hmk : modeOfTag tag = .data := modeOfTag_generic hkind
      have ih := (run_vkids kids ⟨tag, expectedAttrs attrs, []⟩ (f :: fs) .firstChild hkids hmk
        (by simp [headIsText])).1
      have hclose : run ⟨.text, ⟨tag, expectedAttrs attrs, (vStructKids .firstChild kids).reverse ++ []⟩ :: f :: fs⟩
          ('<' :: '/' :: tag ++ ['>']) =
          some ⟨.text, { f with kidsRev := .elem tag (expectedAttrs attrs) (vStructKids .firstChild kids) :: f.kidsRev } :: fs⟩ := by
        rw [run_endTag (by exact hmk) hchars]
        simp [emitEnd]
      have e : vHtml true pos (.elem tag attrs kids) =
          ('<' :: tag ++ attrsHtml attrs ++ ['>']) ++ (vKidsHtml true .firstChild kids ++ ('<' :: '/' :: tag ++ ['>'])) := by
        simp [vHtml, hnv, hinner, hesc, elemBody_ne hnta]
      rw [e, run_append, hopen, hstart, Option.bind_some, run_append, ih, Option.bind_some, hclose]
      simp [vStruct, hnv, hinner, hesc]
    · simp only [voidOK, Bool.and_eq_true, decide_eq_true_eq] at hv
      obtain ⟨⟨hkind, hisv⟩, hchars⟩ := hv
      have hstart : emitStart ⟨tag, expectedAttrs attrs⟩ false (f :: fs) =
          some ⟨.text, { f with kidsRev := .elem tag (expectedAttrs attrs) [] :: f.kidsRev } :: fs⟩ := by
        simp only [emitStart]
        simp [hnest', hkind, pushTree]
      have hopen := run_startTag (st := f :: fs) hm' hchars hattrs
      have e : vHtml true pos (.elem tag attrs kids) = ('<' :: tag ++ attrsHtml attrs ++ ['>']) := by
        simp [vHtml, hisv]
      rw [e, hopen, hstart]
      simp [vStruct, hisv]
    · obtain ⟨hb1, _, hb3, hb4⟩ := vBlankKids_facts kids (escapeChildren tag) .firstChild hempty
      obtain ⟨hnv, hchars, _, _⟩ := rawLike_facts hraw
      obtain ⟨tok, htok, hstart⟩ := emitStart_raw hraw (expectedAttrs attrs) (f :: fs) hnest
      have hopen := run_startTag (st := f :: fs) hm' hchars hattrs
      have hclose := run_rawEnd hraw tok htok ⟨tag, expectedAttrs attrs, []⟩ f fs rfl
      have e : vHtml true pos (.elem tag attrs kids) =
          ('<' :: tag ++ attrsHtml attrs ++ ['>']) ++ ('<' :: '/' :: tag ++ ['>']) := by
        simp [vHtml, hnv, hinner, hb1, elemBody_nil]
      have hk : (if escapeChildren tag = true then vStructKids .firstChild kids
          else textTree (vRawTextKids kids)) = [] := by
        split
        · next he => exact hb4 he
        · simp [hb3, textTree]
      rw [e, run_append, hopen, hstart, Option.bind_some, hclose]
      simp [vStruct, hnv, hinner, hk]
    · simp only [decide_eq_true_eq] at htitle
      subst htitle
      match kids, htk with
      | [.text s], htk =>
        have hs : clean s = true := by simpa [vTitleKids] using htk
        have hraw : rawLike tTitle = true := by decide
        obtain ⟨hnv, hchars, _, _⟩ := rawLike_facts hraw
        have hstart : emitStart ⟨tTitle, expectedAttrs attrs⟩ false (f :: fs) =
            some ⟨.text, ⟨tTitle, expectedAttrs attrs, []⟩ :: f :: fs⟩ := by
          simp only [emitStart]
          simp [hnest', show tTitle ≠ tTextarea from by decide]
        have hopen := run_startTag (st := f :: fs) hm' hchars hattrs
        have hbody := run_textBody (f := ⟨tTitle, expectedAttrs attrs, []⟩) (fs := f :: fs)
          (Or.inr (show modeOfTag tTitle = .rcdata from by decide)) s hs rfl
        have hclose := run_rawEnd hraw .text (Or.inl rfl)
          ⟨tTitle, expectedAttrs attrs, [.text (if s = [] then [' '] else s)]⟩ f fs rfl
        have e : vHtml true pos (.elem tTitle attrs [.text s]) =
            ('<' :: tTitle ++ attrsHtml attrs ++ ['>']) ++
              ((if s = [] then [' '] else escapeText s) ++ ('<' :: '/' :: tTitle ++ ['>'])) := by
          simp [vHtml, hnv, hinner, show escapeChildren tTitle = true from by decide, vKidsHtml, textHtml,
            elemBody_ne (show tTitle ≠ tTextarea from by decide)]
        rw [e, run_append, hopen, hstart, Option.bind_some, run_append, hbody, Option.bind_some, hclose]
        simp [vStruct, hnv, hinner, show escapeChildren tTitle = true from by decide, vStructKids]
  | .seq ks, f, fs, pos, hw, hm, hp => by
    have hw' : vwfKids ((f :: fs).map (·.tag)) ks = true := by simpa [vwfNode] using hw
    simpa [vHtml, vStruct, vPos] using run_vkids ks f fs pos hw' hm hp
  | .vec ks, f, fs, pos, hw, hm, hp => by
    have hw' : vwfKids ((f :: fs).map (·.tag)) ks = true := by simpa [vwfNode] using hw
    have h := (run_vkids ks f fs pos hw' hm hp).1
    refine ⟨?_, by simp [vPos, vStruct, headIsText]⟩
    simp only [vHtml, markerIf, if_true, vStruct]
    rw [run_append, h, Option.bind_some,
      run_marker (f := { f with kidsRev := (vStructKids pos ks).reverse ++ f.kidsRev }) (fs := fs) hm]
    simp
  | .unit, f, fs, pos, _, hm, _ => by
    refine ⟨?_, by simp [vPos, vStruct, headIsText]⟩
    simp only [vHtml, markerIf, if_true, vStruct]
    rw [run_marker (f := f) (fs := fs) hm]
    simp
  | .island c p ks, f, fs, pos, hw, hm, _ => by
    -- the hand-written open tag is an ordinary start tag with two plain attributes
    have hm' : curMode (f :: fs) = .data := hm
    refine ⟨?_, by simp [vStruct, headIsText]⟩
    simp only [vwfNode, Bool.and_eq_true] at hw
    obtain ⟨⟨hc, hp⟩, hkids⟩ := hw
    have hopen := run_startTag (st := f :: fs) (tag := tIsland) (attrs := islandAttrsA c p) hm'
      (by decide) (islandAttrsOK c p hc hp)
    have hnest : nestOK tIsland (f.tag :: List.map (fun x => x.tag) fs) = true :=
      nestOK_custom _ _ (by decide) (by decide) (by decide) (by decide)
    have hstart : emitStart ⟨tIsland, expectedAttrs (islandAttrsA c p)⟩ false (f :: fs) =
        some ⟨.text, ⟨tIsland, islandAttrs c p, []⟩ :: f :: fs⟩ := by
      simp only [emitStart]
      simp [hnest, show kind tIsland = .generic from by decide, show tIsland ≠ tTextarea from by decide,
        islandAttrs_eq]
    have hmk : modeOfTag tIsland = .data := by decide
    have ih := (run_vkids ks ⟨tIsland, islandAttrs c p, []⟩ (f :: fs) pos hkids hmk (by simp [headIsText])).1
    have hclose : run ⟨.text, ⟨tIsland, islandAttrs c p, (vStructKids pos ks).reverse ++ []⟩ :: f :: fs⟩
        ('<' :: '/' :: tIsland ++ ['>']) =
        some ⟨.text, { f with kidsRev := .elem tIsland (islandAttrs c p) (vStructKids pos ks) :: f.kidsRev } :: fs⟩ := by
      rw [run_endTag (by exact hmk) (by decide)]
      simp [emitEnd]
    have e : vHtml true pos (.island c p ks) =
        ('<' :: tIsland ++ attrsHtml (islandAttrsA c p) ++ ['>']) ++
          (vKidsHtml true pos ks ++ ('<' :: '/' :: tIsland ++ ['>'])) := by
      simp [vHtml, islandOpen_eq c p hc]
    rw [e, run_append, hopen, hstart, Option.bind_some, run_append, ih, Option.bind_some, hclose]
    simp [vStruct]
  | .islandChildren ks, f, fs, pos, hw, hm, _ => by
    have hm' : curMode (f :: fs) = .data := hm
    refine ⟨?_, by simp [vStruct, headIsText]⟩
    have hkids : vwfKids (tIslandChildren :: (f :: fs).map (·.tag)) ks = true := by simpa [vwfNode] using hw
    have hopen := run_startTag (st := f :: fs) (tag := tIslandChildren) (attrs := []) hm' (by decide) (by decide)
    have hnest : nestOK tIslandChildren (f.tag :: List.map (fun x => x.tag) fs) = true :=
      nestOK_custom _ _ (by decide) (by decide) (by decide) (by decide)
    have hstart : emitStart ⟨tIslandChildren, expectedAttrs []⟩ false (f :: fs) =
        some ⟨.text, ⟨tIslandChildren, [], []⟩ :: f :: fs⟩ := by
      simp only [emitStart]
      simp [hnest, show kind tIslandChildren = .generic from by decide,
        show tIslandChildren ≠ tTextarea from by decide, expectedAttrs, plainFlat, classBuf, styleBuf]
    have hmk : modeOfTag tIslandChildren = .data := by decide
    have ih := (run_vkids ks ⟨tIslandChildren, [], []⟩ (f :: fs) pos hkids hmk (by simp [headIsText])).1
    have hclose : run ⟨.text, ⟨tIslandChildren, [], (vStructKids pos ks).reverse ++ []⟩ :: f :: fs⟩
        ('<' :: '/' :: tIslandChildren ++ ['>']) =
        some ⟨.text, { f with kidsRev := .elem tIslandChildren [] (vStructKids pos ks) :: f.kidsRev } :: fs⟩ := by
      rw [run_endTag (by exact hmk) (by decide)]
      simp [emitEnd]
    have e : vHtml true pos (.islandChildren ks) =
        ('<' :: tIslandChildren ++ attrsHtml [] ++ ['>']) ++
          (vKidsHtml true pos ks ++ ('<' :: '/' :: tIslandChildren ++ ['>'])) := by
      simp [vHtml, attrsHtml, plainPart, classBuf, styleBuf]
    rw [e, run_append, hopen, hstart, Option.bind_some, run_append, ih, Option.bind_some, hclose]
    simp [vStruct]
  | .resetPos, _, _, _, hw, _, _ => by simp [vwfNode] at hw
theorem run_vkids : (ns : List VNode) → ∀ (f : Frame) (fs : List Frame) (pos : Pos),
    vwfKids ((f :: fs).map (·.tag)) ns = true → modeOfTag f.tag = .data →
    (headIsText f.kidsRev = true → pos = .afterText) →
    run ⟨.text, f :: fs⟩ (vKidsHtml true pos ns) =
      some ⟨.text, { f with kidsRev := (vStructKids pos ns).reverse ++ f.kidsRev } :: fs⟩ ∧
    (headIsText ((vStructKids pos ns).reverse ++ f.kidsRev) = true → vKidsPos true pos ns = .afterText)
  | [], f, fs, pos, _, _, hp => by simpa [vKidsHtml, vStructKids, run, vKidsPos] using hp
  | n :: ns, f, fs, pos, hw, hm, hp => by
    simp only [vwfKids, Bool.and_eq_true] at hw
    have h1 := run_vnode n f fs pos hw.1 hm hp
    have h2 := run_vkids ns { f with kidsRev := (vStruct pos n).reverse ++ f.kidsRev } fs (vPos true pos n)
      hw.2 hm h1.2
    refine ⟨?_, ?_⟩
    · simp only [vKidsHtml, run_append, h1.1, Option.bind_some, h2.1, vStructKids]
      simp
    · simpa [vKidsPos, vStructKids] using h2.2
end

end Leptos.Html
