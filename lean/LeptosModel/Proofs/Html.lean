import LeptosModel.Model.Html
/-! Helper lemmas for C06: how `run` moves through the printer's output. -/
namespace Leptos.Html

theorem run_append (a b : Str) : ∀ σ, run σ (a ++ b) = (run σ a).bind (fun σ' => run σ' b) := by
  induction a with
  | nil => intro σ; simp [run]
  | cons c cs ih =>
    intro σ
    simp only [List.cons_append, run]
    cases h : step σ c with
    | none => simp
    | some σ' => simp [ih]

/-- no U+0000 and no U+000D -/
def clean (s : Str) : Bool := s.all (fun c => c != cNul && c != cCr)

theorem clean_cons {c : Char} {s : Str} (h : clean (c :: s) = true) :
    c ≠ cNul ∧ c ≠ cCr ∧ clean s = true := by
  simp [clean] at h
  simp [clean]
  exact ⟨h.1.1, h.1.2, h.2⟩

/-! ### inserting characters -/

def pushStrKids : Str → List Tree → List Tree
  | [], k => k
  | c :: cs, k => pushStrKids cs (pushCharKids c k)

def headIsText : List Tree → Bool
  | .text _ :: _ => true
  | _ => false

theorem pushStrKids_text (s : Str) : ∀ t r, pushStrKids s (.text t :: r) = .text (t ++ s) :: r := by
  induction s with
  | nil => intro t r; simp [pushStrKids]
  | cons c cs ih => intro t r; simp [pushStrKids, pushCharKids, ih]

theorem pushStrKids_fresh (s : Str) (k : List Tree) (hs : s ≠ []) (hk : headIsText k = false) :
    pushStrKids s k = .text s :: k := by
  cases s with
  | nil => exact absurd rfl hs
  | cons c cs =>
    have : pushCharKids c k = .text [c] :: k := by
      cases k with
      | nil => rfl
      | cons x xs => cases x <;> simp_all [pushCharKids, headIsText]
    simp [pushStrKids, this, pushStrKids_text]

def escMode (st : List Frame) : Prop := curMode st = .data ∨ curMode st = .rcdata

theorem step_text_plain {f : Frame} {fs : List Frame} {c : Char} (hm : escMode (f :: fs))
    (h0 : c ≠ cNul) (hr : c ≠ cCr) (ha : c ≠ '&') (hl : c ≠ '<') :
    step ⟨.text, f :: fs⟩ c = some ⟨.text, { f with kidsRev := pushCharKids c f.kidsRev } :: fs⟩ := by
  rcases hm with hm | hm <;> simp [step, stepText, hm, h0, hr, ha, hl, emitChar]

theorem run_amp {f : Frame} {fs : List Frame} (hm : escMode (f :: fs)) :
    run ⟨.text, f :: fs⟩ ['&', 'a', 'm', 'p', ';'] =
      some ⟨.text, { f with kidsRev := pushCharKids '&' f.kidsRev } :: fs⟩ := by
  rcases hm with hm | hm <;>
    simp [run, step, stepText, hm, crefStep, emitChar, cCr, cNul, isAlnum, isAlpha, isUpper, isLowerAlpha, isDigit, namedRefs, assoc]

theorem run_lt {f : Frame} {fs : List Frame} (hm : escMode (f :: fs)) :
    run ⟨.text, f :: fs⟩ ['&', 'l', 't', ';'] =
      some ⟨.text, { f with kidsRev := pushCharKids '<' f.kidsRev } :: fs⟩ := by
  rcases hm with hm | hm <;>
    simp [run, step, stepText, hm, crefStep, emitChar, cCr, cNul, isAlnum, isAlpha, isUpper, isLowerAlpha, isDigit, namedRefs, assoc]

theorem run_gt {f : Frame} {fs : List Frame} (hm : escMode (f :: fs)) :
    run ⟨.text, f :: fs⟩ ['&', 'g', 't', ';'] =
      some ⟨.text, { f with kidsRev := pushCharKids '>' f.kidsRev } :: fs⟩ := by
  rcases hm with hm | hm <;>
    simp [run, step, stepText, hm, crefStep, emitChar, cCr, cNul, isAlnum, isAlpha, isUpper, isLowerAlpha, isDigit, namedRefs, assoc]

theorem run_entity_text {f : Frame} {fs : List Frame} (hm : escMode (f :: fs)) (c : Char)
    (h0 : c ≠ cNul) (hr : c ≠ cCr) :
    run ⟨.text, f :: fs⟩ (entityOf textTable c) =
      some ⟨.text, { f with kidsRev := pushCharKids c f.kidsRev } :: fs⟩ := by
  by_cases ha : c = '&'
  · subst ha; exact run_amp hm
  by_cases hl : c = '<'
  · subst hl; exact run_lt hm
  by_cases hg : c = '>'
  · subst hg; exact run_gt hm
  have : entityOf textTable c = [c] := by
    simp [entityOf, textTable, assoc, ha, hl, hg]
  rw [this]
  simp [run, step_text_plain hm h0 hr ha hl]

theorem run_escapeText (s : Str) : ∀ (f : Frame) (fs : List Frame), escMode (f :: fs) → clean s = true →
    run ⟨.text, f :: fs⟩ (escapeText s) =
      some ⟨.text, { f with kidsRev := pushStrKids s f.kidsRev } :: fs⟩ := by
  induction s with
  | nil => intro f fs _ _; simp [escapeText, escapeWith, run, pushStrKids]
  | cons c cs ih =>
    intro f fs hm hc
    obtain ⟨h0, hr, hcs⟩ := clean_cons hc
    have hm' : escMode ({ f with kidsRev := pushCharKids c f.kidsRev } :: fs) := hm
    have := ih { f with kidsRev := pushCharKids c f.kidsRev } fs hm' hcs
    simp only [escapeText] at this ⊢
    simp only [escapeWith, run_append, run_entity_text hm c h0 hr, Option.bind_some, this, pushStrKids]

end Leptos.Html
