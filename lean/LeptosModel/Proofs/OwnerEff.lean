import LeptosModel.Proofs.OwnerCtx
/-!
# Proofs/OwnerEff — an effect whose arena entry is gone never runs again (C08)

`K e a st` : between `a` and `st` no run of effect `e` was logged and the arena key of effect `e`
is the same.  Every function of the reactive layer keeps `K`, except `runEffect e`, which `pollEff`
only reaches when the entry is live.
-/
namespace Leptos.Owner

def rCount (e : Nat) (l : List Ev) : Nat := l.count (Ev.r e)

theorem rCount_append (e : Nat) (a b : List Ev) : rCount e (a ++ b) = rCount e a + rCount e b := by
  simp [rCount, List.count_append]

theorem rCount_snoc_ne (e : Nat) (l : List Ev) (ev : Ev) (h : ev ≠ Ev.r e) : rCount e (l ++ [ev]) = rCount e l := by
  rw [rCount_append]
  have : rCount e [ev] = 0 := by
    simp only [rCount, List.count_singleton]
    have : (ev == Ev.r e) = false := by simpa using h
    simp [this]
  omega

/-! ### core functions do not log effect runs -/

theorem rc_step (e : Nat) (st : Core) (f : Frame) : rCount e (stepFrame st f).1.log = rCount e st.log := by
  cases f with
  | visit o late =>
    cases hr : st.owners[o]? with
    | none => simp only [stepFrame, hr]
    | some r =>
      by_cases ha : r.alive = true
      · simp only [stepFrame, hr, ha, if_true, setOwner_log]
      · simp only [stepFrame, hr, ha, if_false, Bool.false_eq_true]
  | drop o late =>
    cases hr : st.owners[o]? with
    | none => simp only [stepFrame, hr]
    | some r => simp only [stepFrame, hr, setOwner_log]
  | run c ow late =>
    by_cases hn : c.nested = true
    · simp only [stepFrame, hn, if_true, newStored_log, regCleanup_log, logEv_log]
      exact rCount_snoc_ne e _ _ (by intro h; cases h)
    · simp only [stepFrame, hn, if_false, Bool.false_eq_true, logEv_log]
      exact rCount_snoc_ne e _ _ (by intro h; cases h)
  | remove k late => rfl

theorem rc_frames (e : Nat) (n : Nat) (st : Core) (fs : List Frame) :
    rCount e (runFrames n st fs).1.log = rCount e st.log :=
  runFrames_rel (R := fun a b => rCount e b.log = rCount e a.log) (fun _ => rfl)
    (fun _ _ _ h1 h2 => h2.trans h1) (rc_step e) n st fs

theorem rc_prim (e : Nat) {a b : Core} (hp : CorePrim a b) (hne : ∀ ev, b = logEv a ev → ev ≠ Ev.r e) :
    rCount e b.log = rCount e a.log := by
  cases hp with
  | regCleanup tag nested drops => rw [regCleanup_log]
  | newItem v => rw [newItem_log]
  | addItemHandle k => rfl
  | newOwnerUnder p paused hp => rw [newOwnerUnder_log]
  | pass f hf => exact rc_frames e _ _ _
  | provide ty v => rw [provide_log]
  | useCtx ty =>
    unfold useCtx; split
    · exact rCount_snoc_ne e _ _ (by intro h; cases h)
    · exact rCount_snoc_ne e _ _ (by intro h; cases h)
  | takeCtx ty =>
    unfold takeCtx; split
    · simp only; rw [modOwner_log]; exact rCount_snoc_ne e _ _ (by intro h; cases h)
    · exact rCount_snoc_ne e _ _ (by intro h; cases h)
  | setPaused o p => unfold setPaused; rw [pauseWalk_log]
  | setCur cur => rfl
  | logEv ev he => exact rCount_snoc_ne e _ _ (hne ev rfl)

/-! ### the relation -/

/-- how the record of an effect may evolve: once no strong reference is held outside the arena,
none is acquired again and the arena key stays what it is -/
def Frozen (er er' : EffRec) : Prop := er.held = false → er'.held = false ∧ er'.key = er.key

theorem Frozen.refl (er : EffRec) : Frozen er er := fun h => ⟨h, rfl⟩
theorem Frozen.trans {a b c : EffRec} (h1 : Frozen a b) (h2 : Frozen b c) : Frozen a c := by
  intro h
  obtain ⟨hb, hk⟩ := h1 h
  obtain ⟨hc, hk2⟩ := h2 hb
  exact ⟨hc, hk2.trans hk⟩

structure K (e : Nat) (a st : St) : Prop where
  rc : rCount e st.log = rCount e a.log
  key : ∀ er, a.effs[e]? = some er → ∃ er', st.effs[e]? = some er' ∧ Frozen er er'
  ex : e < a.effs.length

theorem K.refl (e : Nat) (a : St) (h : e < a.effs.length) : K e a a :=
  ⟨rfl, fun er h => ⟨er, h, Frozen.refl _⟩, h⟩

theorem K.lt {e : Nat} {a st : St} (h : K e a st) : e < st.effs.length := by
  have hex := h.ex
  cases hr : a.effs[e]? with
  | none => rw [List.getElem?_eq_none_iff] at hr; omega
  | some er =>
    obtain ⟨er', h1, _⟩ := h.key er hr
    exact lt_of_getElem?_some h1

/-- a core transformer that logs no run of `e` -/
theorem K.core {e : Nat} {a st : St} (h : K e a st) (f : Core → Core)
    (hf : rCount e (f st.toCore).log = rCount e st.log) : K e a (st.lift f) :=
  ⟨hf.trans h.rc, h.key, h.ex⟩

/-- a change that leaves the log and the effect table alone -/
theorem K.same {e : Nat} {a st st' : St} (h : K e a st) (hl : st'.log = st.log) (he : st'.effs = st.effs) :
    K e a st' := ⟨by rw [hl]; exact h.rc, by rw [he]; exact h.key, h.ex⟩

theorem set_key_ok (l : List EffRec) (j : Nat) (r0 r1 : EffRec) (h0 : l[j]? = some r0) (hk : Frozen r0 r1) :
    ∀ (i : Nat) (er : EffRec), l[i]? = some er → ∃ er' : EffRec, (l.set j r1)[i]? = some er' ∧ Frozen er er' := by
  intro i er hi
  by_cases hji : j = i
  · subst hji
    rw [h0] at hi; cases hi
    exact ⟨r1, List.getElem?_set_self (lt_of_getElem?_some h0), hk⟩
  · exact ⟨er, by rw [List.getElem?_set_ne hji]; exact hi, Frozen.refl _⟩

/-- a change that keeps the count of runs of `e` and lets every record evolve as `Frozen` allows -/
theorem K.effs_ok {e : Nat} {a st st' : St} (h : K e a st) (hl : rCount e st'.log = rCount e st.log)
    (he : ∀ (i : Nat) (er : EffRec), st.effs[i]? = some er → ∃ er' : EffRec, st'.effs[i]? = some er' ∧ Frozen er er') :
    K e a st' := by
  refine ⟨hl.trans h.rc, fun er her => ?_, h.ex⟩
  obtain ⟨er', h1, h2⟩ := h.key er her
  obtain ⟨er'', h3, h4⟩ := he e er' h1
  exact ⟨er'', h3, h2.trans h4⟩

/-- the record of another effect is rewritten -/
theorem K.setOther {e : Nat} {a st st' : St} (h : K e a st) (hl : rCount e st'.log = rCount e st.log)
    (j : Nat) (r1 : EffRec) (hne : j ≠ e) (he : st'.effs = st.effs.set j r1) : K e a st' := by
  refine ⟨hl.trans h.rc, fun er her => ?_, h.ex⟩
  obtain ⟨er', h1, h2⟩ := h.key er her
  exact ⟨er', by rw [he, List.getElem?_set_ne hne]; exact h1, h2⟩

theorem K.pushEff {e : Nat} {a st st' : St} (h : K e a st) (hl : rCount e st'.log = rCount e st.log) (x : EffRec)
    (he : st'.effs = st.effs ++ [x]) : K e a st' := by
  refine ⟨hl.trans h.rc, fun er her => ?_, h.ex⟩
  obtain ⟨er', h1, h2⟩ := h.key er her
  exact ⟨er', by rw [he]; exact getElem?_append_some h1, h2⟩

/-! ### the reactive layer -/

theorem k_clearSources {e : Nat} {a st : St} (h : K e a st) (me : Sub) (l : List Nat) :
    K e a (clearSources st me l) := h.same rfl rfl

theorem k_addSource {e : Nat} {a st : St} (h : K e a st) (me : Sub) (s : Nat) : K e a (addSource st me s) := by
  unfold addSource
  split
  · next e' =>
    split
    · next er her => exact h.effs_ok rfl (set_key_ok _ _ _ _ her (fun hh => ⟨hh, rfl⟩))
    · exact h
  · split
    · exact h.same rfl rfl
    · exact h

theorem k_readSig {e : Nat} {a st : St} (h : K e a st) (s : Nat) : K e a (readSig st s) := by
  unfold readSig
  split
  · split
    · simp only
      split
      · split
        · refine k_addSource ?_ _ _
          exact h.same rfl rfl
        · exact h.same rfl rfl
      · exact h.same rfl rfl
    · exact h
  · exact h

theorem rc_newOwner (e : Nat) (c : Core) : rCount e (newOwner c).1.log = rCount e c.log := by
  unfold newOwner; rw [newOwnerUnder_log]

theorem k_newEffect {e : Nat} {a st : St} (h : K e a st) (b : Nat) (k : EffKind) : K e a (newEffect st b k) := by
  unfold newEffect
  refine h.pushEff ?_ _ rfl
  show rCount e (newItem (newOwner st.toCore).1 _).1.log = rCount e st.log
  rw [newItem_log, rc_newOwner]

theorem k_newMemo {e : Nat} {a st : St} (h : K e a st) (b : Nat) : K e a (newMemo st b) := by
  unfold newMemo
  refine ⟨?_, h.key, h.ex⟩
  show rCount e (newItem (newOwner st.toCore).1 _).1.log = rCount e a.log
  rw [newItem_log, rc_newOwner]; exact h.rc

theorem k_newSignal {e : Nat} {a st : St} (h : K e a st) (v : Int) : K e a (newSignal st v) := by
  unfold newSignal
  refine ⟨?_, h.key, h.ex⟩
  show rCount e (newItem st.toCore _).1.log = rCount e a.log
  rw [newItem_log]; exact h.rc

theorem k_newOwnerHandle {e : Nat} {a st : St} (h : K e a st) : K e a (newOwnerHandle st) := by
  unfold newOwnerHandle
  refine ⟨?_, h.key, h.ex⟩
  show rCount e (newOwner st.toCore).1.log = rCount e a.log
  rw [rc_newOwner]; exact h.rc

theorem k_foldl {α} (e : Nat) (f : St → α → St) (hf : ∀ a st x, K e a st → K e a (f st x)) (l : List α)
    {a st : St} (h : K e a st) : K e a (l.foldl f st) := by
  induction l generalizing st with
  | nil => exact h
  | cons x l ih => exact ih (hf a st x h)

theorem rc_cleanupOwner (e : Nat) (c : Core) (o : Nat) : rCount e (cleanupOwner c o).log = rCount e c.log :=
  rc_frames e _ _ _
theorem rc_dropOwner (e : Nat) (c : Core) (o : Nat) : rCount e (dropOwner c o).log = rCount e c.log :=
  rc_frames e _ _ _
theorem rc_disposeKey (e : Nat) (c : Core) (k : Key) : rCount e (disposeKey c k).log = rCount e c.log :=
  rc_frames e _ _ _

/-- a token executor that keeps `K` -/
def Kex (e : Nat) (ex : St → BOp → St) : Prop := ∀ (a st : St) (op : BOp), K e a st → K e a (ex st op)

/-- a run of the body of another effect `e'` -/
theorem k_runScoped {e : Nat} {ex : St → BOp → St} (hex : Kex e ex) {a st : St} (h : K e a st)
    (e' o b : Nat) (hne : e' ≠ e) : K e a (runScoped ex st e' o b) := by
  unfold runScoped
  simp only
  have h0 : ∀ S0 : St, S0.toCore = logEv (pushCur (cleanupOwner st.toCore o) o) (Ev.r e') →
      S0.effs = st.effs → K e a S0 := by
    intro S0 hc he
    refine ⟨?_, by rw [he]; exact h.key, h.ex⟩
    rw [hc]
    show rCount e ((cleanupOwner st.toCore o).log ++ [Ev.r e']) = _
    rw [rCount_snoc_ne e _ _ (by intro hh; cases hh; exact hne rfl), rc_cleanupOwner]; exact h.rc
  have key : ∀ (body : List BOp) (S0 : St), K e a S0 → ∀ S1 : St,
      (∃ x, S1.toCore = popCur (logEv (List.foldl ex S0 body).toCore (Ev.s e' x)) 1) →
      S1.effs = (List.foldl ex S0 body).effs → K e a S1 := by
    intro body S0 hS0 S1 ⟨x, hc⟩ he
    have := k_foldl e _ hex body hS0
    refine ⟨?_, by rw [he]; exact this.key, h.ex⟩
    rw [hc]
    show rCount e ((List.foldl ex S0 body).log ++ [Ev.s e' x]) = _
    rw [rCount_snoc_ne e _ _ (by intro hh; cases hh)]; exact this.rc
  refine key _ _ ?_ _ ⟨_, rfl⟩ rfl
  exact h0 _ rfl rfl

theorem k_pushEager {e : Nat} {a st : St} (h : K e a st) (b : Nat) (k : EffKind) : K e a (pushEager st b k) := by
  unfold pushEager
  refine h.pushEff ?_ _ rfl
  show rCount e (newOwner st.toCore).1.log = rCount e st.log
  exact rc_newOwner e _

theorem k_addTask {e : Nat} {a st : St} (h : K e a st) (e' : Nat) : K e a (addTask st e') := h.same rfl rfl

theorem k_finishAsync {e : Nat} {a st : St} (h : K e a st) (e' : Nat) (hne : e' ≠ e) : K e a (finishAsync st e') := by
  unfold finishAsync
  simp only
  have hl : rCount e (newItem st.toCore (Val.eff e')).1.log = rCount e st.log := by rw [newItem_log]
  split
  · exact h.setOther hl e' _ hne rfl
  · exact ⟨hl.trans h.rc, h.key, h.ex⟩

theorem pushEager_effs_length (st : St) (b : Nat) (k : EffKind) :
    (pushEager st b k).effs.length = st.effs.length + 1 := by
  unfold pushEager; simp

theorem k_newRender {e : Nat} {ex : St → BOp → St} (hex : Kex e ex) {a st : St} (h : K e a st) (b : Nat) :
    K e a (newRender ex st b) := by
  unfold newRender
  have hne : st.effs.length ≠ e := by have := h.lt; omega
  exact k_addTask (k_runScoped hex (k_pushEager h _ _) _ _ _ hne) _

theorem k_newAsync {e : Nat} {ex : St → BOp → St} (hex : Kex e ex) {a st : St} (h : K e a st) (b : Nat) :
    K e a (newAsync ex st b) := by
  unfold newAsync
  have hne : st.effs.length ≠ e := by have := h.lt; omega
  exact k_finishAsync (k_addTask (k_runScoped hex (k_pushEager h _ _) _ _ _ hne) _) _ hne

theorem k_runMemo {e : Nat} {ex : St → BOp → St} (hex : Kex e ex) {a st : St} (h : K e a st) (m : Nat) :
    K e a (runMemo ex st m) := by
  unfold runMemo
  split
  · exact h
  · next mr _ =>
    simp only
    have key : ∀ (body : List BOp) (S0 : St), K e a S0 → ∀ S1 : St,
        S1.toCore = popCur (List.foldl ex S0 body).toCore 1 →
        S1.effs = (List.foldl ex S0 body).effs → K e a S1 := by
      intro body S0 h0 S1 hc he
      have := k_foldl e _ hex body h0
      exact ⟨by rw [hc]; exact this.rc, by rw [he]; exact this.key, h.ex⟩
    have h0 : ∀ S0 : St, S0.toCore = logEv (pushCur (cleanupOwner st.toCore mr.owner) mr.owner) (Ev.m m) →
        S0.effs = st.effs → K e a S0 := by
      intro S0 hc he
      refine ⟨?_, by rw [he]; exact h.key, h.ex⟩
      rw [hc]
      show rCount e ((cleanupOwner st.toCore mr.owner).log ++ [Ev.m m]) = _
      rw [rCount_snoc_ne e _ _ (by intro hh; cases hh), rc_cleanupOwner]; exact h.rc
    split
    · refine key _ _ ?_ _ rfl rfl
      exact h0 _ rfl rfl
    · refine key _ _ ?_ _ rfl rfl
      exact h0 _ rfl rfl

theorem k_getMemo {e : Nat} {ex : St → BOp → St} (hex : Kex e ex) {a st : St} (h : K e a st) (m : Nat) :
    K e a (getMemo ex st m) := by
  unfold getMemo
  split
  · simp only
    have key : ∀ S1 : St, K e a S1 → ∀ v x, K e a (St.lift { S1 with acc := x } (logEv · (Ev.g m v))) := by
      intro S1 h1 v x
      refine ⟨?_, h1.key, h.ex⟩
      show rCount e (S1.log ++ [Ev.g m v]) = _
      rw [rCount_snoc_ne e _ _ (by intro hh; cases hh)]; exact h1.rc
    apply key
    split
    · split
      · exact k_runMemo hex h _
      · exact h
    · exact h
  · refine ⟨?_, h.key, h.ex⟩
    show rCount e (st.log ++ [Ev.g m none]) = _
    rw [rCount_snoc_ne e _ _ (by intro hh; cases hh)]; exact h.rc

theorem rc_useCtx (e : Nat) (c : Core) (ty : Nat) : rCount e (useCtx c ty).log = rCount e c.log := by
  unfold useCtx; split
  · exact rCount_snoc_ne e _ _ (by intro hh; cases hh)
  · exact rCount_snoc_ne e _ _ (by intro hh; cases hh)

theorem rc_takeCtx (e : Nat) (c : Core) (ty : Nat) : rCount e (takeCtx c ty).log = rCount e c.log := by
  unfold takeCtx; split
  · simp only; rw [modOwner_log]; exact rCount_snoc_ne e _ _ (by intro hh; cases hh)
  · exact rCount_snoc_ne e _ _ (by intro hh; cases hh)

theorem k_execWith {e : Nat} {ex : St → BOp → St} (hex : Kex e ex) : Kex e (execWith ex) := by
  intro a st op h
  cases op with
  | read s => exact k_readSig h s
  | get m =>
    simp only [execWith]
    split
    · exact h
    · exact k_getMemo hex h _
  | cleanup tag => exact h.core (regCleanup · tag false none) (by rw [regCleanup_log])
  | nested tag => exact h.core (regCleanup · tag true none) (by rw [regCleanup_log])
  | item v => exact h.core (newStored · v) (by rw [newStored_log])
  | sig v => exact k_newSignal h v
  | provide ty v => exact h.core (provide · ty v) (by rw [provide_log])
  | use ty => exact h.core (useCtx · ty) (rc_useCtx e _ _)
  | take ty => exact h.core (takeCtx · ty) (rc_takeCtx e _ _)
  | effect b => exact k_newEffect h b _
  | memo b => exact k_newMemo h b
  | newOwner => exact k_newOwnerHandle h
  | watch b hb imm => exact k_newEffect h b _
  | render b => exact k_newRender hex h b
  | async b => exact k_newAsync hex h b

theorem k_exec (e : Nat) (f : Nat) : Kex e (exec f) := by
  induction f with
  | zero =>
    intro a st op h
    simp only [exec]
    exact k_execWith (fun _ _ _ h => h) a st op h
  | succ n ih =>
    intro a st op h
    simp only [exec]
    exact k_execWith ih a st op h

theorem k_execBOp (e : Nat) (a st : St) (op : BOp) (h : K e a st) : K e a (execBOp st op) := k_exec e _ a st op h

theorem k_execHandlerTok (e : Nat) (a st : St) (op : BOp) (h : K e a st) : K e a (execHandlerTok st op) := by
  cases op with
  | read s => exact k_readSig h s
  | cleanup tag =>
    exact (h.core (regCleanup · tag false none) (by rw [regCleanup_log])).same rfl rfl
  | item v => exact (h.core (newStored · v) (by rw [newStored_log])).same rfl rfl
  | sig v => exact (k_newSignal h v).same rfl rfl
  | use ty => exact (h.core (useCtx · ty) (rc_useCtx e _ _)).same rfl rfl
  | get m => exact h
  | nested tag => exact h
  | provide ty v => exact h
  | take ty => exact h
  | effect b => exact h
  | memo b => exact h
  | newOwner => exact h
  | watch b hb imm => exact h
  | render b => exact h
  | async b => exact h

theorem k_runHandlerOld {e : Nat} {a st : St} (h : K e a st) (e' hb : Nat) : K e a (runHandlerOld st e' hb) := by
  unfold runHandlerOld
  simp only
  have h1 : K e a (st.lift (logEv · (Ev.h e'))) :=
    h.core _ (rCount_snoc_ne e _ _ (by intro hh; cases hh))
  have h2 : ∀ S0 : St, S0.toCore = (st.lift (logEv · (Ev.h e'))).toCore → S0.effs = st.effs → K e a S0 :=
    fun S0 hc he => ⟨by rw [hc]; exact h1.rc, by rw [he]; exact h.key, h.ex⟩
  have key : ∀ (body : List BOp) (S0 : St), K e a S0 → ∀ S1 : St,
      S1.toCore = (List.foldl execHandlerTok S0 body).toCore →
      S1.effs = (List.foldl execHandlerTok S0 body).effs → K e a S1 := by
    intro body S0 hS0 S1 hc he
    have := k_foldl e _ (k_execHandlerTok e) body hS0
    exact ⟨by rw [hc]; exact this.rc, by rw [he]; exact this.key, h.ex⟩
  refine key _ _ ?_ _ rfl rfl
  exact h2 _ rfl rfl

theorem k_runHandlerNew {e : Nat} {a st : St} (h : K e a st) (e' o hb : Nat) :
    K e a (runHandlerNew st e' o hb) := by
  unfold runHandlerNew
  simp only
  have h2 : ∀ S0 : St, S0.toCore = logEv (pushCur st.toCore o) (Ev.h e') → S0.effs = st.effs → K e a S0 := by
    intro S0 hc he
    refine ⟨?_, by rw [he]; exact h.key, h.ex⟩
    rw [hc]
    show rCount e (st.log ++ [Ev.h e']) = _
    rw [rCount_snoc_ne e _ _ (by intro hh; cases hh)]; exact h.rc
  have key : ∀ (body : List BOp) (S0 : St), K e a S0 → ∀ S1 : St,
      S1.toCore = popCur (List.foldl execHandlerTok S0 body).toCore 1 →
      S1.effs = (List.foldl execHandlerTok S0 body).effs → K e a S1 := by
    intro body S0 hS0 S1 hc he
    have := k_foldl e _ (k_execHandlerTok e) body hS0
    exact ⟨by rw [hc]; exact this.rc, by rw [he]; exact this.key, h.ex⟩
  refine key _ _ ?_ _ rfl rfl
  exact h2 _ rfl rfl

theorem k_runHandler {e : Nat} {a st : St} (h : K e a st) (e' o hb : Nat) : K e a (runHandler st e' o hb) := by
  unfold runHandler
  split
  · exact k_runHandlerOld h e' hb
  · exact k_runHandlerNew h e' o hb

theorem k_endTask {e : Nat} {a st : St} (h : K e a st) (e' : Nat) : K e a (endTask st e') := by
  unfold endTask
  split
  · next er her =>
    have h1 : K e a { st with effs := st.effs.set e' { er with woken := false, done := true } } :=
      h.effs_ok rfl (set_key_ok _ _ _ _ her (fun hh => ⟨hh, rfl⟩))
    exact h1.core (dropOwner · er.owner) (rc_dropOwner e _ _)
  · exact h

theorem k_prepRun {e : Nat} {a st : St} (h : K e a st) (e' : Nat) (er : EffRec) (her : st.effs[e']? = some er) :
    K e a (prepRun st e' er) := by
  unfold prepRun
  simp only
  split
  · exact h.effs_ok rfl (set_key_ok _ _ _ _ her (fun hh => ⟨hh, rfl⟩))
  · exact (k_clearSources h (Sub.eff e') er.sources).effs_ok rfl (set_key_ok _ _ _ _ her (fun hh => ⟨hh, rfl⟩))

theorem k_afterRun {e : Nat} {a st : St} (h : K e a st) (e' : Nat) (er : EffRec) : K e a (afterRun st e' er) := by
  unfold afterRun
  split
  · split
    · exact k_runHandler h _ _ _
    · exact h
  · exact h

/-- a run of another effect -/
theorem k_runEffect {e : Nat} {a st : St} (h : K e a st) (e' : Nat) (er : EffRec) (hne : e' ≠ e)
    (her : st.effs[e']? = some er) : K e a (runEffect st e' er) := by
  unfold runEffect
  exact k_afterRun (k_runScoped (k_execBOp e) (k_prepRun h e' er her) _ _ _ hne) _ _

/-- the entry of effect `e` is gone: no strong reference outside the arena, and the arena key (if it
ever had one) is dead -/
def EffDead (st : St) (e : Nat) : Prop :=
  ∃ er, st.effs[e]? = some er ∧ er.held = false ∧ ∀ k, er.key = some k → KeyDead st.arena k

theorem effLive_false_of_dead {st : St} {e : Nat} (h : EffDead st e) : effLive st e = false := by
  obtain ⟨er, h1, h2, h3⟩ := h
  unfold effLive; rw [h1]
  simp only [h2, Bool.false_or]
  unfold keyLive
  cases hk : er.key with
  | none => rfl
  | some k => simp [(h3 k hk).get_none]

/-- polling a task: either another effect's, or `e`'s own while its entry is dead -/
theorem k_pollEff {e : Nat} {a st : St} (h : K e a st) (e' : Nat)
    (hdead : e' = e → effLive st e = false) : K e a (pollEff st e') := by
  unfold pollEff
  split
  · exact h
  · next er her =>
    split
    · exact h
    · split
      · exact k_endTask h _
      · next hlive =>
        have hne : e' ≠ e := by
          intro he; subst he
          rw [hdead rfl] at hlive; simp at hlive
        split
        · exact h.effs_ok rfl (set_key_ok _ _ _ _ her (fun hh => ⟨hh, rfl⟩))
        · split
          · exact h.effs_ok rfl (set_key_ok _ _ _ _ her (fun hh => ⟨hh, rfl⟩))
          · split
            · exact k_endTask (k_runEffect h e' er hne her) _
            · exact k_runEffect h e' er hne her

theorem k_markSub (e : Nat) (a st : St) (s : Sub) (h : K e a st) : K e a (markSub st s) := by
  unfold markSub
  split
  · next e' =>
    split
    · next er her =>
      split
      · exact h.effs_ok rfl (set_key_ok _ _ _ _ her (fun hh => ⟨hh, rfl⟩))
      · exact h
    · exact h
  · split
    · split
      · exact h.same rfl rfl
      · exact h
    · exact h

theorem k_setSig {e : Nat} {a st : St} (h : K e a st) (s : Nat) (v : Int) : K e a (setSig st s v) := by
  unfold setSig
  split
  · split
    · exact k_foldl e _ (k_markSub e) _ (h.same rfl rfl)
    · exact h
  · exact h

theorem k_dropHandle (e : Nat) (a st : St) (hd : Nat) (h : K e a st) : K e a (dropHandle st hd) := by
  unfold dropHandle
  split
  · next o _ =>
    have h1 : K e a { st with hOwners := st.hOwners.set hd none } := h.same rfl rfl
    exact h1.core (dropOwner · o) (rc_dropOwner e _ _)
  · exact h

theorem k_runWc {e : Nat} {a st : St} (h : K e a st) (o b : Nat) : K e a (runWc st o b) := by
  unfold runWc
  simp only
  have h0 : ∀ S0 : St, S0.toCore = pushCur (cleanupOwner st.toCore o) o → S0.effs = st.effs → K e a S0 := by
    intro S0 hc he
    refine ⟨?_, by rw [he]; exact h.key, h.ex⟩
    rw [hc]
    show rCount e (cleanupOwner st.toCore o).log = _
    rw [rc_cleanupOwner]; exact h.rc
  have key : ∀ (body : List BOp) (S0 : St), K e a S0 → ∀ S1 : St,
      S1.toCore = popCur (List.foldl execBOp S0 body).toCore 1 →
      S1.effs = (List.foldl execBOp S0 body).effs → K e a S1 := by
    intro body S0 hS0 S1 hc he
    have := k_foldl e _ (k_execBOp e) body hS0
    exact ⟨by rw [hc]; exact this.rc, by rw [he]; exact this.key, h.ex⟩
  refine key _ _ ?_ _ rfl rfl
  exact h0 _ rfl rfl

theorem k_disposeEff {e : Nat} {a st st' : St} (h : K e a st) {i : Nat} (hd : disposeEff st i = some st') :
    K e a st' := by
  unfold disposeEff at hd
  split at hd
  · next er her =>
    split at hd
    · next k _ =>
      simp only [Option.some.injEq] at hd; subst hd
      exact h.core (disposeKey · k) (rc_disposeKey e _ _)
    · simp only [Option.some.injEq] at hd; subst hd
      exact h.effs_ok rfl (set_key_ok _ _ _ _ her (fun hh => ⟨rfl, rfl⟩))
  · cases hd

/-! ### the effect's entry stays dead -/

theorem EffDead.of_K {e : Nat} {a st : St} (hd : EffDead a e) (hk : K e a st) (hs : SR a st) : EffDead st e := by
  obtain ⟨er, h1, h2, h3⟩ := hd
  obtain ⟨er', h4, h5⟩ := hk.key er h1
  obtain ⟨h6, h7⟩ := h5 h2
  refine ⟨er', h4, h6, fun k hk' => ?_⟩
  rw [h7] at hk'
  exact (ArenaLe.reach hs).dead _ (h3 k hk')

theorem k_pollNth {e : Nat} {a st : St} (h : K e a st) (hs : SR a st) (hd : EffDead a e) (i : Nat) :
    K e a (pollNth st i) := by
  unfold pollNth
  simp only
  split
  · next e' _ => exact k_pollEff h e' (fun _ => effLive_false_of_dead (hd.of_K h hs))
  · exact h

theorem k_runIdle {e : Nat} (n : Nat) {a st : St} (h : K e a st) (hs : SR a st) (hd : EffDead a e) :
    K e a (runIdle n st) := by
  induction n generalizing st with
  | zero => exact h
  | succ n ih =>
    simp only [runIdle]
    split
    · exact h
    · exact ih (k_pollNth h hs hd _) (sr_pollNth hs _)

theorem k_stepOp {e : Nat} {a st st' : St} {op : Op} (h : K e a st) (hs : SR a st) (hd : EffDead a e)
    (hop : stepOp st op = some st') : K e a st' := by
  cases op with
  | body b => simp only [stepOp, Option.some.injEq] at hop; subst hop; exact h.same rfl rfl
  | act ins x =>
    simp only [stepOp] at hop
    split at hop
    · cases hop
    · next os _ =>
      have h1 : K e a (st.lift (pushAll · os)) := h.core (pushAll · os) rfl
      cases x with
      | x b =>
        simp only [Option.map_some, Option.some.injEq] at hop; subst hop
        exact (k_execBOp e a _ b h1).core (popCur · os.length) rfl
      | cleanup hh =>
        simp only at hop
        split at hop
        · next o _ =>
          simp only [Option.map_some, Option.some.injEq] at hop; subst hop
          have h2 : K e a ((st.lift (pushAll · os)).lift (cleanupOwner · o)) :=
            h1.core (cleanupOwner · o) (rc_cleanupOwner e _ _)
          exact h2.core (popCur · os.length) rfl
        · simp at hop
      | wc hh b =>
        simp only at hop
        split at hop
        · next o _ =>
          simp only [Option.map_some, Option.some.injEq] at hop; subst hop
          exact (k_runWc h1 o b).core (popCur · os.length) rfl
        · simp at hop
  | child hh =>
    simp only [stepOp] at hop
    split at hop
    · next o _ =>
      simp only [Option.some.injEq] at hop; subst hop
      refine ⟨?_, h.key, h.ex⟩
      show rCount e (childOwner st.toCore o).1.log = _
      unfold childOwner
      split <;> (rw [newOwnerUnder_log]; exact h.rc)
    · cases hop
  | drop hh =>
    simp only [stepOp] at hop
    split at hop
    · simp only [Option.some.injEq] at hop; subst hop; exact k_dropHandle e _ _ _ h
    · cases hop
  | dispose k i =>
    have plain : ∀ key : Key, K e a (st.lift (disposeKey · key)) :=
      fun key => h.core (disposeKey · key) (rc_disposeKey e _ _)
    cases k with
    | e => simp only [stepOp] at hop; exact k_disposeEff h hop
    | i =>
      simp only [stepOp] at hop
      split at hop
      · simp only [Option.some.injEq] at hop; subst hop; exact plain _
      · cases hop
    | s =>
      simp only [stepOp] at hop
      split at hop
      · simp only [Option.some.injEq] at hop; subst hop; exact plain _
      · cases hop
    | m =>
      simp only [stepOp] at hop
      split at hop
      · simp only [Option.some.injEq] at hop; subst hop; exact plain _
      · cases hop
  | set s v =>
    simp only [stepOp] at hop
    split at hop
    · simp only [Option.some.injEq] at hop; subst hop; exact k_setSig h _ _
    · cases hop
  | pause hh =>
    simp only [stepOp] at hop
    split at hop
    · simp only [Option.some.injEq] at hop; subst hop
      exact h.core (setPaused · _ true) (by unfold setPaused; rw [pauseWalk_log])
    · cases hop
  | resume hh =>
    simp only [stepOp] at hop
    split at hop
    · simp only [Option.some.injEq] at hop; subst hop
      exact h.core (setPaused · _ false) (by unfold setPaused; rw [pauseWalk_log])
    · cases hop
  | poll i => simp only [stepOp, Option.some.injEq] at hop; subst hop; exact k_pollNth h hs hd _
  | idle => simp only [stepOp, Option.some.injEq] at hop; subst hop; exact k_runIdle _ h hs hd
  | «end» =>
    simp only [stepOp, Option.some.injEq] at hop; subst hop
    exact k_runIdle _ (k_foldl e _ (k_dropHandle e) _ h) (sr_foldl _ sr_dropHandle _ hs) hd

theorem k_runOps {e : Nat} {a st : St} (h : K e a st) (hs : SR a st) (hd : EffDead a e) (ops : List Op) :
    K e a (runOps st ops) := by
  induction ops generalizing st with
  | nil => exact h
  | cons op rest ih =>
    simp only [runOps]
    cases hop : stepOp st op with
    | none => simpa using ih h hs
    | some st' => simpa using ih (k_stepOp h hs hd hop) (sr_stepOp hs hop)

theorem EffDead.lt {st : St} {e : Nat} (h : EffDead st e) : e < st.effs.length := by
  obtain ⟨er, h1, _⟩ := h
  exact lt_of_getElem?_some h1

end Leptos.Owner
