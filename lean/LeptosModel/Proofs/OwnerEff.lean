import LeptosModel.Proofs.OwnerCtx
/-!
# Proofs/OwnerEff — an effect whose arena entry is gone never runs again (C08)

`K e a st` : between `a` and `st` no run of effect `e` was logged and the arena key of effect `e`
is the same.  Every function of the reactive layer keeps `K`, except `runEffect e`, which `pollEff`
only reaches when the entry is live.
-/
namespace Leptos.Owner

def rCount (e : Nat) (l : List Ev) : Nat := l.count (Ev.r e)

theorem rCount_append (e : Nat) (a b : List Ev) : rCount e (a ++ b) = rCount e a + rCount e b := by
  simp [rCount, List.count_append]

theorem rCount_snoc_ne (e : Nat) (l : List Ev) (ev : Ev) (h : ev ≠ Ev.r e) : rCount e (l ++ [ev]) = rCount e l := by
  rw [rCount_append]
  have : rCount e [ev] = 0 := by
    simp only [rCount, List.count_singleton]
    have : (ev == Ev.r e) = false := by simpa using h
    simp [this]
  omega

/-! ### core functions do not log effect runs -/

theorem rc_step (e : Nat) (st : Core) (f : Frame) : rCount e (stepFrame st f).1.log = rCount e st.log := by
  cases f with
  | visit o late =>
    cases hr : st.owners[o]? with
    | none => simp only [stepFrame, hr]
    | some r =>
      by_cases ha : r.alive = true
      · simp only [stepFrame, hr, ha, if_true, setOwner_log]
      · simp only [stepFrame, hr, ha, if_false, Bool.false_eq_true]
  | drop o late =>
    cases hr : st.owners[o]? with
    | none => simp only [stepFrame, hr]
    | some r => simp only [stepFrame, hr, setOwner_log]
  | run c ow late =>
    by_cases hn : c.nested = true
    · simp only [stepFrame, hn, if_true, newStored_log, regCleanup_log, logEv_log]
      exact rCount_snoc_ne e _ _ (by intro h; cases h)
    · simp only [stepFrame, hn, if_false, Bool.false_eq_true, logEv_log]
      exact rCount_snoc_ne e _ _ (by intro h; cases h)
  | remove k late => rfl

theorem rc_frames (e : Nat) (n : Nat) (st : Core) (fs : List Frame) :
    rCount e (runFrames n st fs).1.log = rCount e st.log :=
  runFrames_rel (R := fun a b => rCount e b.log = rCount e a.log) (fun _ => rfl)
    (fun _ _ _ h1 h2 => h2.trans h1) (rc_step e) n st fs

theorem rc_prim (e : Nat) {a b : Core} (hp : CorePrim a b) (hne : ∀ ev, b = logEv a ev → ev ≠ Ev.r e) :
    rCount e b.log = rCount e a.log := by
  cases hp with
  | regCleanup tag nested => rw [regCleanup_log]
  | newItem v => rw [newItem_log]
  | addItemHandle k => rfl
  | newOwnerUnder p paused hp => rw [newOwnerUnder_log]
  | pass f hf => exact rc_frames e _ _ _
  | provide ty v => rw [provide_log]
  | useCtx ty =>
    unfold useCtx; split
    · exact rCount_snoc_ne e _ _ (by intro h; cases h)
    · exact rCount_snoc_ne e _ _ (by intro h; cases h)
  | takeCtx ty =>
    unfold takeCtx; split
    · simp only; rw [modOwner_log]; exact rCount_snoc_ne e _ _ (by intro h; cases h)
    · exact rCount_snoc_ne e _ _ (by intro h; cases h)
  | setPaused o p => unfold setPaused; rw [pauseWalk_log]
  | setCur cur => rfl
  | logEv ev he => exact rCount_snoc_ne e _ _ (hne ev rfl)

/-! ### the relation -/

structure K (e : Nat) (a st : St) : Prop where
  rc : rCount e st.log = rCount e a.log
  key : ∀ er, a.effs[e]? = some er → ∃ er', st.effs[e]? = some er' ∧ er'.key = er.key

theorem K.refl (e : Nat) (a : St) : K e a a := ⟨rfl, fun er h => ⟨er, h, rfl⟩⟩

/-- a core transformer that logs no run of `e` -/
theorem K.core {e : Nat} {a st : St} (h : K e a st) (f : Core → Core)
    (hf : rCount e (f st.toCore).log = rCount e st.log) : K e a (st.lift f) :=
  ⟨hf.trans h.rc, h.key⟩

/-- a change that leaves the log and the effect table alone -/
theorem K.same {e : Nat} {a st st' : St} (h : K e a st) (hl : st'.log = st.log) (he : st'.effs = st.effs) :
    K e a st' := ⟨by rw [hl]; exact h.rc, by rw [he]; exact h.key⟩

theorem set_key_ok (l : List EffRec) (j : Nat) (r0 r1 : EffRec) (h0 : l[j]? = some r0) (hk : r1.key = r0.key) :
    ∀ (i : Nat) (er : EffRec), l[i]? = some er → ∃ er' : EffRec, (l.set j r1)[i]? = some er' ∧ er'.key = er.key := by
  intro i er hi
  by_cases hji : j = i
  · subst hji
    rw [h0] at hi; cases hi
    exact ⟨r1, List.getElem?_set_self (lt_of_getElem?_some h0), hk⟩
  · exact ⟨er, by rw [List.getElem?_set_ne hji]; exact hi, rfl⟩

/-- a change that leaves the log alone and keeps every effect's key -/
theorem K.effs_ok {e : Nat} {a st st' : St} (h : K e a st) (hl : st'.log = st.log)
    (he : ∀ (i : Nat) (er : EffRec), st.effs[i]? = some er → ∃ er' : EffRec, st'.effs[i]? = some er' ∧ er'.key = er.key) :
    K e a st' := by
  refine ⟨by rw [hl]; exact h.rc, fun er her => ?_⟩
  obtain ⟨er', h1, h2⟩ := h.key er her
  obtain ⟨er'', h3, h4⟩ := he e er' h1
  exact ⟨er'', h3, h4.trans h2⟩

theorem K.pushEff {e : Nat} {a st st' : St} (h : K e a st) (hl : rCount e st'.log = rCount e st.log) (x : EffRec)
    (he : st'.effs = st.effs ++ [x]) : K e a st' := by
  refine ⟨hl.trans h.rc, fun er her => ?_⟩
  obtain ⟨er', h1, h2⟩ := h.key er her
  exact ⟨er', by rw [he]; exact getElem?_append_some h1, h2⟩

/-! ### the reactive layer -/

theorem k_clearSources {e : Nat} {a st : St} (h : K e a st) (me : Sub) (l : List Nat) :
    K e a (clearSources st me l) := h.same rfl rfl

theorem k_addSource {e : Nat} {a st : St} (h : K e a st) (me : Sub) (s : Nat) : K e a (addSource st me s) := by
  unfold addSource
  split
  · next e' =>
    split
    · next er her => exact h.effs_ok rfl (set_key_ok _ _ _ _ her rfl)
    · exact h
  · split
    · exact h.same rfl rfl
    · exact h

theorem k_readSig {e : Nat} {a st : St} (h : K e a st) (s : Nat) : K e a (readSig st s) := by
  unfold readSig
  split
  · split
    · simp only
      split
      · split
        · refine k_addSource ?_ _ _
          exact h.same rfl rfl
        · exact h.same rfl rfl
      · exact h.same rfl rfl
    · exact h
  · exact h

theorem rc_newOwner (e : Nat) (c : Core) : rCount e (newOwner c).1.log = rCount e c.log := by
  unfold newOwner; rw [newOwnerUnder_log]

theorem k_newEffect {e : Nat} {a st : St} (h : K e a st) (b : Nat) : K e a (newEffect st b) := by
  unfold newEffect
  refine h.pushEff ?_ _ rfl
  show rCount e (newItem (newOwner st.toCore).1 _).1.log = rCount e st.log
  rw [newItem_log, rc_newOwner]

theorem k_newMemo {e : Nat} {a st : St} (h : K e a st) (b : Nat) : K e a (newMemo st b) := by
  unfold newMemo
  refine ⟨?_, h.key⟩
  show rCount e (newItem (newOwner st.toCore).1 _).1.log = rCount e a.log
  rw [newItem_log, rc_newOwner]; exact h.rc

theorem k_newSignal {e : Nat} {a st : St} (h : K e a st) (v : Int) : K e a (newSignal st v) := by
  unfold newSignal
  refine ⟨?_, h.key⟩
  show rCount e (newItem st.toCore _).1.log = rCount e a.log
  rw [newItem_log]; exact h.rc

theorem k_newOwnerHandle {e : Nat} {a st : St} (h : K e a st) : K e a (newOwnerHandle st) := by
  unfold newOwnerHandle
  refine ⟨?_, h.key⟩
  show rCount e (newOwner st.toCore).1.log = rCount e a.log
  rw [rc_newOwner]; exact h.rc

theorem k_execCreate (e : Nat) (a st : St) (op : BOp) (h : K e a st) : K e a (execCreate st op) := by
  cases op with
  | read s => exact k_readSig h s
  | get m => exact h
  | cleanup tag => exact h.core (regCleanup · tag false) (by rw [regCleanup_log])
  | nested tag => exact h.core (regCleanup · tag true) (by rw [regCleanup_log])
  | item v => exact h.core (newStored · v) (by rw [newStored_log])
  | sig v => exact k_newSignal h v
  | provide ty v => exact h.core (provide · ty v) (by rw [provide_log])
  | use ty =>
    refine h.core (useCtx · ty) ?_
    unfold useCtx; split
    · exact rCount_snoc_ne e _ _ (by intro hh; cases hh)
    · exact rCount_snoc_ne e _ _ (by intro hh; cases hh)
  | take ty =>
    refine h.core (takeCtx · ty) ?_
    unfold takeCtx; split
    · simp only; rw [modOwner_log]; exact rCount_snoc_ne e _ _ (by intro hh; cases hh)
    · exact rCount_snoc_ne e _ _ (by intro hh; cases hh)
  | effect b => exact k_newEffect h b
  | memo b => exact k_newMemo h b
  | newOwner => exact k_newOwnerHandle h

theorem k_foldl {α} (e : Nat) (f : St → α → St) (hf : ∀ a st x, K e a st → K e a (f st x)) (l : List α)
    {a st : St} (h : K e a st) : K e a (l.foldl f st) := by
  induction l generalizing st with
  | nil => exact h
  | cons x l ih => exact ih (hf a st x h)

theorem rc_cleanupOwner (e : Nat) (c : Core) (o : Nat) : rCount e (cleanupOwner c o).log = rCount e c.log :=
  rc_frames e _ _ _
theorem rc_dropOwner (e : Nat) (c : Core) (o : Nat) : rCount e (dropOwner c o).log = rCount e c.log :=
  rc_frames e _ _ _
theorem rc_disposeKey (e : Nat) (c : Core) (k : Key) : rCount e (disposeKey c k).log = rCount e c.log :=
  rc_frames e _ _ _

theorem k_runMemo {e : Nat} {a st : St} (h : K e a st) (m : Nat) : K e a (runMemo st m) := by
  unfold runMemo
  split
  · exact h
  · next mr _ =>
    simp only
    have key : ∀ (body : List BOp) (S0 : St), K e a S0 → ∀ S1 : St,
        S1.toCore = popCur (List.foldl execCreate S0 body).toCore 1 →
        S1.effs = (List.foldl execCreate S0 body).effs → K e a S1 := by
      intro body S0 h0 S1 hc he
      have := k_foldl e _ (k_execCreate e) body h0
      exact ⟨by rw [hc]; exact this.rc, by rw [he]; exact this.key⟩
    have h0 : ∀ S0 : St, S0.toCore = logEv (pushCur (cleanupOwner st.toCore mr.owner) mr.owner) (Ev.m m) →
        S0.effs = st.effs → K e a S0 := by
      intro S0 hc he
      refine ⟨?_, by rw [he]; exact h.key⟩
      rw [hc]
      show rCount e ((cleanupOwner st.toCore mr.owner).log ++ [Ev.m m]) = _
      rw [rCount_snoc_ne e _ _ (by intro hh; cases hh), rc_cleanupOwner]; exact h.rc
    split
    · refine key _ _ ?_ _ rfl rfl
      exact h0 _ rfl rfl
    · refine key _ _ ?_ _ rfl rfl
      exact h0 _ rfl rfl

theorem k_getMemo {e : Nat} {a st : St} (h : K e a st) (m : Nat) : K e a (getMemo st m) := by
  unfold getMemo
  split
  · simp only
    have key : ∀ S1 : St, K e a S1 → ∀ v x, K e a (St.lift { S1 with acc := x } (logEv · (Ev.g m v))) := by
      intro S1 h1 v x
      refine ⟨?_, h1.key⟩
      show rCount e (S1.log ++ [Ev.g m v]) = _
      rw [rCount_snoc_ne e _ _ (by intro hh; cases hh)]; exact h1.rc
    apply key
    split
    · split
      · exact k_runMemo h _
      · exact h
    · exact h
  · refine ⟨?_, h.key⟩
    show rCount e (st.log ++ [Ev.g m none]) = _
    rw [rCount_snoc_ne e _ _ (by intro hh; cases hh)]; exact h.rc

theorem k_execBOp (e : Nat) (a st : St) (op : BOp) (h : K e a st) : K e a (execBOp st op) := by
  unfold execBOp
  split
  · split
    · exact h
    · exact k_getMemo h _
  · exact k_execCreate e _ _ _ h

theorem k_endTask {e : Nat} {a st : St} (h : K e a st) (e' : Nat) : K e a (endTask st e') := by
  unfold endTask
  split
  · next er her =>
    have h1 : K e a { st with effs := st.effs.set e' { er with woken := false, done := true } } :=
      h.effs_ok rfl (set_key_ok _ _ _ _ her rfl)
    exact h1.core (dropOwner · er.owner) (rc_dropOwner e _ _)
  · exact h

/-- a run of another effect -/
theorem k_runEffect {e : Nat} {a st : St} (h : K e a st) (e' : Nat) (er : EffRec) (hne : e' ≠ e)
    (her : st.effs[e']? = some er) : K e a (runEffect st e' er) := by
  unfold runEffect
  simp only
  have h0 : ∀ S0 : St, S0.toCore = logEv (pushCur (cleanupOwner st.toCore er.owner) er.owner) (Ev.r e') →
      S0.effs = st.effs.set e' { er with woken := false, notified := false, dirty := false, firstRun := false, sources := [] } →
      K e a S0 := by
    intro S0 hc he
    have h1 : K e a { st with effs := st.effs.set e' { er with woken := false, notified := false, dirty := false, firstRun := false, sources := [] } } :=
      h.effs_ok rfl (set_key_ok _ _ _ _ her rfl)
    refine ⟨?_, by rw [he]; exact h1.key⟩
    rw [hc]
    show rCount e ((cleanupOwner st.toCore er.owner).log ++ [Ev.r e']) = _
    rw [rCount_snoc_ne e _ _ (by intro hh; cases hh; exact hne rfl), rc_cleanupOwner]; exact h.rc
  have key : ∀ (body : List BOp) (S0 : St), K e a S0 → ∀ S1 : St,
      (∃ x, S1.toCore = popCur (logEv (List.foldl execBOp S0 body).toCore (Ev.s e' x)) 1) →
      S1.effs = (List.foldl execBOp S0 body).effs → K e a S1 := by
    intro body S0 hS0 S1 ⟨x, hc⟩ he
    have := k_foldl e _ (k_execBOp e) body hS0
    refine ⟨?_, by rw [he]; exact this.key⟩
    rw [hc]
    show rCount e ((List.foldl execBOp S0 body).log ++ [Ev.s e' x]) = _
    rw [rCount_snoc_ne e _ _ (by intro hh; cases hh)]; exact this.rc
  refine key _ _ ?_ _ ⟨_, rfl⟩ rfl
  exact h0 _ rfl rfl

theorem effLive_false_of_dead {st : St} {e : Nat} {er : EffRec} (h1 : st.effs[e]? = some er)
    (h2 : KeyDead st.arena er.key) : effLive st e = false := by
  unfold effLive; rw [h1]; simp [h2.get_none]

/-- polling a task: either another effect's, or `e`'s own while its entry is dead -/
theorem k_pollEff {e : Nat} {a st : St} (h : K e a st) (e' : Nat)
    (hdead : e' = e → effLive st e = false) : K e a (pollEff st e') := by
  unfold pollEff
  split
  · exact h
  · next er her =>
    split
    · exact h
    · split
      · exact k_endTask h _
      · next hlive =>
        have hne : e' ≠ e := by
          intro he; subst he
          rw [hdead rfl] at hlive; simp at hlive
        split
        · exact h.effs_ok rfl (set_key_ok _ _ _ _ her rfl)
        · split
          · exact h.effs_ok rfl (set_key_ok _ _ _ _ her rfl)
          · split
            · exact k_endTask (k_runEffect h e' er hne her) _
            · exact k_runEffect h e' er hne her

theorem k_markSub (e : Nat) (a st : St) (s : Sub) (h : K e a st) : K e a (markSub st s) := by
  unfold markSub
  split
  · next e' =>
    split
    · next er her =>
      split
      · exact h.effs_ok rfl (set_key_ok _ _ _ _ her rfl)
      · exact h
    · exact h
  · split
    · split
      · exact h.same rfl rfl
      · exact h
    · exact h

theorem k_setSig {e : Nat} {a st : St} (h : K e a st) (s : Nat) (v : Int) : K e a (setSig st s v) := by
  unfold setSig
  split
  · split
    · exact k_foldl e _ (k_markSub e) _ (h.same rfl rfl)
    · exact h
  · exact h

theorem k_dropHandle (e : Nat) (a st : St) (hd : Nat) (h : K e a st) : K e a (dropHandle st hd) := by
  unfold dropHandle
  split
  · next o _ =>
    have h1 : K e a { st with hOwners := st.hOwners.set hd none } := h.same rfl rfl
    exact h1.core (dropOwner · o) (rc_dropOwner e _ _)
  · exact h

/-! ### the effect's entry stays dead -/

/-- the entry of effect `e` is dead in `st` -/
def EffDead (st : St) (e : Nat) : Prop := ∃ er, st.effs[e]? = some er ∧ KeyDead st.arena er.key

theorem EffDead.of_K {e : Nat} {a st : St} (hd : EffDead a e) (hk : K e a st) (hs : SR a st) : EffDead st e := by
  obtain ⟨er, h1, h2⟩ := hd
  obtain ⟨er', h3, h4⟩ := hk.key er h1
  exact ⟨er', h3, by rw [h4]; exact (ArenaLe.reach hs).dead _ h2⟩

theorem k_pollNth {e : Nat} {a st : St} (h : K e a st) (hs : SR a st) (hd : EffDead a e) (i : Nat) :
    K e a (pollNth st i) := by
  unfold pollNth
  simp only
  split
  · next e' _ =>
    refine k_pollEff h e' (fun _ => ?_)
    obtain ⟨er, h1, h2⟩ := hd.of_K h hs
    exact effLive_false_of_dead h1 h2
  · exact h

theorem k_runIdle {e : Nat} (n : Nat) {a st : St} (h : K e a st) (hs : SR a st) (hd : EffDead a e) :
    K e a (runIdle n st) := by
  induction n generalizing st with
  | zero => exact h
  | succ n ih =>
    simp only [runIdle]
    split
    · exact h
    · exact ih (k_pollNth h hs hd _) (sr_pollNth hs _)

theorem k_stepOp {e : Nat} {a st st' : St} {op : Op} (h : K e a st) (hs : SR a st) (hd : EffDead a e)
    (hop : stepOp st op = some st') : K e a st' := by
  cases op with
  | body b => simp only [stepOp, Option.some.injEq] at hop; subst hop; exact h.same rfl rfl
  | act ins x =>
    simp only [stepOp] at hop
    split at hop
    · cases hop
    · next os _ =>
      cases x with
      | x b =>
        simp only [Option.map_some, Option.some.injEq] at hop; subst hop
        have h1 : K e a (st.lift (pushAll · os)) := h.core (pushAll · os) rfl
        exact (k_execBOp e a _ b h1).core (popCur · os.length) rfl
      | cleanup hh =>
        simp only at hop
        split at hop
        · next o _ =>
          simp only [Option.map_some, Option.some.injEq] at hop; subst hop
          have h1 : K e a (st.lift (pushAll · os)) := h.core (pushAll · os) rfl
          have h2 : K e a ((st.lift (pushAll · os)).lift (cleanupOwner · o)) :=
            h1.core (cleanupOwner · o) (rc_cleanupOwner e _ _)
          exact h2.core (popCur · os.length) rfl
        · simp at hop
  | child hh =>
    simp only [stepOp] at hop
    split at hop
    · next o _ =>
      simp only [Option.some.injEq] at hop; subst hop
      refine ⟨?_, h.key⟩
      show rCount e (childOwner st.toCore o).1.log = _
      unfold childOwner
      split <;> (rw [newOwnerUnder_log]; exact h.rc)
    · cases hop
  | drop hh =>
    simp only [stepOp] at hop
    split at hop
    · simp only [Option.some.injEq] at hop; subst hop; exact k_dropHandle e _ _ _ h
    · cases hop
  | dispose k i =>
    simp only [stepOp] at hop
    split at hop
    · next key _ =>
      simp only [Option.some.injEq] at hop; subst hop
      exact h.core (disposeKey · key) (rc_disposeKey e _ _)
    · cases hop
  | set s v =>
    simp only [stepOp] at hop
    split at hop
    · simp only [Option.some.injEq] at hop; subst hop; exact k_setSig h _ _
    · cases hop
  | pause hh =>
    simp only [stepOp] at hop
    split at hop
    · simp only [Option.some.injEq] at hop; subst hop
      exact h.core (setPaused · _ true) (by unfold setPaused; rw [pauseWalk_log])
    · cases hop
  | resume hh =>
    simp only [stepOp] at hop
    split at hop
    · simp only [Option.some.injEq] at hop; subst hop
      exact h.core (setPaused · _ false) (by unfold setPaused; rw [pauseWalk_log])
    · cases hop
  | poll i => simp only [stepOp, Option.some.injEq] at hop; subst hop; exact k_pollNth h hs hd _
  | idle => simp only [stepOp, Option.some.injEq] at hop; subst hop; exact k_runIdle _ h hs hd
  | «end» =>
    simp only [stepOp, Option.some.injEq] at hop; subst hop
    exact k_runIdle _ (k_foldl e _ (k_dropHandle e) _ h) (sr_foldl _ sr_dropHandle _ hs) hd

theorem k_runOps {e : Nat} {a st : St} (h : K e a st) (hs : SR a st) (hd : EffDead a e) (ops : List Op) :
    K e a (runOps st ops) := by
  induction ops generalizing st with
  | nil => exact h
  | cons op rest ih =>
    simp only [runOps]
    cases hop : stepOp st op with
    | none => simpa using ih h hs
    | some st' => simpa using ih (k_stepOp h hs hd hop) (sr_stepOp hs hop)

end Leptos.Owner
