import LeptosModel.Proofs.OwnerCtx
/-!
# Proofs/OwnerEff — an effect whose arena entry is gone never runs again (C08)

`K e a st` : between `a` and `st` no run of effect `e` was logged and the arena key of effect `e`
is the same.  Every function of the reactive layer keeps `K`, except the functions that run the body
of `e` (`runEffect e`, `immUpdate e`, `runSeg e`), which are only reached while the entry is live.
The entries are those of every kind: the effects with a task, `ImmediateEffect`s, scoped tasks.
-/
namespace Leptos.Owner

def rCount (e : Nat) (l : List Ev) : Nat := l.count (Ev.r e)

theorem rCount_append (e : Nat) (a b : List Ev) : rCount e (a ++ b) = rCount e a + rCount e b := by
  simp [rCount, List.count_append]

theorem rCount_snoc_ne (e : Nat) (l : List Ev) (ev : Ev) (h : ev ≠ Ev.r e) : rCount e (l ++ [ev]) = rCount e l := by
  rw [rCount_append]
  have : rCount e [ev] = 0 := by
    simp only [rCount, List.count_singleton]
    have : (ev == Ev.r e) = false := by simpa using h
    simp [this]
  omega

/-! ### core functions do not log effect runs -/

theorem rc_step (e : Nat) (st : Core) (f : Frame) : rCount e (stepFrame st f).1.log = rCount e st.log := by
  cases f with
  | visit o late =>
    cases hr : st.owners[o]? with
    | none => simp only [stepFrame, hr]
    | some r =>
      by_cases ha : r.alive = true
      · simp only [stepFrame, hr, ha, if_true, setOwner_log]
      · simp only [stepFrame, hr, ha, if_false, Bool.false_eq_true]
  | drop o late =>
    cases hr : st.owners[o]? with
    | none => simp only [stepFrame, hr]
    | some r => simp only [stepFrame, hr, setOwner_log]
  | run c ow late =>
    by_cases hn : c.nested = true
    · simp only [stepFrame, hn, if_true, newStored_log, regCleanup_log, logEv_log]
      exact rCount_snoc_ne e _ _ (by intro h; cases h)
    · simp only [stepFrame, hn, if_false, Bool.false_eq_true, logEv_log]
      exact rCount_snoc_ne e _ _ (by intro h; cases h)
  | remove k late => rfl

theorem rc_frames (e : Nat) (n : Nat) (st : Core) (fs : List Frame) :
    rCount e (runFrames n st fs).1.log = rCount e st.log :=
  runFrames_rel (R := fun a b => rCount e b.log = rCount e a.log) (fun _ => rfl)
    (fun _ _ _ h1 h2 => h2.trans h1) (rc_step e) n st fs

theorem rc_prim (e : Nat) {a b : Core} (hp : CorePrim a b) (hne : ∀ ev, b = logEv a ev → ev ≠ Ev.r e) :
    rCount e b.log = rCount e a.log := by
  cases hp with
  | regCleanup tag nested drops => rw [regCleanup_log]
  | newItem v => rw [newItem_log]
  | addItemHandle k => rfl
  | newOwnerUnder p paused hp => rw [newOwnerUnder_log]
  | pass f hf => exact rc_frames e _ _ _
  | provide ty v => rw [provide_log]
  | useCtx ty =>
    unfold useCtx; split
    · exact rCount_snoc_ne e _ _ (by intro h; cases h)
    · exact rCount_snoc_ne e _ _ (by intro h; cases h)
  | takeCtx ty =>
    unfold takeCtx; split
    · simp only; rw [modOwner_log]; exact rCount_snoc_ne e _ _ (by intro h; cases h)
    · exact rCount_snoc_ne e _ _ (by intro h; cases h)
  | updateCtx ty d =>
    unfold updateCtx; split
    · simp only; rw [modOwner_log]; exact rCount_snoc_ne e _ _ (by intro h; cases h)
    · exact rCount_snoc_ne e _ _ (by intro h; cases h)
  | setPaused o p => unfold setPaused; rw [pauseWalk_log]
  | setCur cur => rfl
  | logEv ev he => exact rCount_snoc_ne e _ _ (hne ev rfl)

/-- the log only grows along primitive steps -/
def LogLe (a b : Core) : Prop := ∀ e, e ∈ a.log → e ∈ b.log

theorem LogLe.frames (n : Nat) (st : Core) (fs : List Frame) : LogLe st (runFrames n st fs).1 :=
  runFrames_rel (R := LogLe) (fun _ _ h => h) (fun _ _ _ h1 h2 e he => h2 e (h1 e he))
    (fun st f e he => log_step_mono st f e he) n st fs

theorem LogLe.prim {a b : Core} (hp : CorePrim a b) : LogLe a b := by
  intro e he
  cases hp with
  | regCleanup tag nested drops => rw [regCleanup_log]; exact he
  | newItem v => rw [newItem_log]; exact he
  | addItemHandle k => exact he
  | newOwnerUnder p paused hp => rw [newOwnerUnder_log]; exact he
  | pass f hf => exact LogLe.frames _ _ _ e he
  | provide ty v => rw [provide_log]; exact he
  | useCtx ty => unfold useCtx; split <;> exact List.mem_append_left _ he
  | takeCtx ty =>
    unfold takeCtx; split
    · simp only; rw [modOwner_log]; exact List.mem_append_left _ he
    · exact List.mem_append_left _ he
  | updateCtx ty d =>
    unfold updateCtx; split
    · simp only; rw [modOwner_log]; exact List.mem_append_left _ he
    · exact List.mem_append_left _ he
  | setPaused o p => unfold setPaused; rw [pauseWalk_log]; exact he
  | setCur cur => exact he
  | logEv ev hev => exact List.mem_append_left _ he

theorem LogLe.reach {a b : Core} (h : CoreReach a b) : LogLe a b :=
  CoreReach.rel (R := LogLe) (fun _ _ h => h) (fun _ _ _ h1 h2 e he => h2 e (h1 e he))
    (fun _ _ hp => LogLe.prim hp) h

theorem logHas_mono {a b : Core} (h : CoreReach a b) {cid : Nat} (hl : logHas cid a.log) : logHas cid b.log := by
  obtain ⟨tag, ow, late, hm⟩ := hl
  exact ⟨tag, ow, late, LogLe.reach h _ hm⟩


theorem cidRan_of_logHas {st : Core} {cid : Nat} (h : logHas cid st.log) : cidRan st cid = true := by
  obtain ⟨tag, ow, late, hm⟩ := h
  unfold cidRan
  rw [List.any_eq_true]
  exact ⟨_, hm, by simp [Ev.isCid]⟩

/-! ### the relation -/

/-- how the record of an effect may evolve: once no strong reference is held outside the arena,
none is acquired again, the arena key and the deciding cleanup stay what they are, and no run of an
`ImmediateEffect` begins or ends -/
def Frozen (er er' : EffRec) : Prop :=
  er.held = false → er'.held = false ∧ er'.key = er.key ∧ er'.dropCid = er.dropCid ∧
    immRunning er' = immRunning er

theorem Frozen.refl (er : EffRec) : Frozen er er := fun h => ⟨h, rfl, rfl, rfl⟩
theorem Frozen.trans {a b c : EffRec} (h1 : Frozen a b) (h2 : Frozen b c) : Frozen a c := by
  intro h
  obtain ⟨hb, hk, hd, hr⟩ := h1 h
  obtain ⟨hc, hk2, hd2, hr2⟩ := h2 hb
  exact ⟨hc, hk2.trans hk, hd2.trans hd, hr2.trans hr⟩

structure K (e : Nat) (a st : St) : Prop where
  rc : rCount e st.log = rCount e a.log
  key : ∀ er, a.effs[e]? = some er → ∃ er', st.effs[e]? = some er' ∧ Frozen er er'
  ex : e < a.effs.length

theorem K.refl (e : Nat) (a : St) (h : e < a.effs.length) : K e a a :=
  ⟨rfl, fun er h => ⟨er, h, Frozen.refl _⟩, h⟩

theorem K.lt {e : Nat} {a st : St} (h : K e a st) : e < st.effs.length := by
  have hex := h.ex
  cases hr : a.effs[e]? with
  | none => rw [List.getElem?_eq_none_iff] at hr; omega
  | some er =>
    obtain ⟨er', h1, _⟩ := h.key er hr
    exact lt_of_getElem?_some h1

/-- a core transformer that logs no run of `e` -/
theorem K.core {e : Nat} {a st : St} (h : K e a st) (f : Core → Core)
    (hf : rCount e (f st.toCore).log = rCount e st.log) : K e a (st.lift f) :=
  ⟨hf.trans h.rc, h.key, h.ex⟩

/-- a change that leaves the log and the effect table alone -/
theorem K.same {e : Nat} {a st st' : St} (h : K e a st) (hl : st'.log = st.log) (he : st'.effs = st.effs) :
    K e a st' := ⟨by rw [hl]; exact h.rc, by rw [he]; exact h.key, h.ex⟩

theorem set_key_ok (l : List EffRec) (j : Nat) (r0 r1 : EffRec) (h0 : l[j]? = some r0) (hk : Frozen r0 r1) :
    ∀ (i : Nat) (er : EffRec), l[i]? = some er → ∃ er' : EffRec, (l.set j r1)[i]? = some er' ∧ Frozen er er' := by
  intro i er hi
  by_cases hji : j = i
  · subst hji
    rw [h0] at hi; cases hi
    exact ⟨r1, List.getElem?_set_self (lt_of_getElem?_some h0), hk⟩
  · exact ⟨er, by rw [List.getElem?_set_ne hji]; exact hi, Frozen.refl _⟩

/-- a change that keeps the count of runs of `e` and lets every record evolve as `Frozen` allows -/
theorem K.effs_ok {e : Nat} {a st st' : St} (h : K e a st) (hl : rCount e st'.log = rCount e st.log)
    (he : ∀ (i : Nat) (er : EffRec), st.effs[i]? = some er → ∃ er' : EffRec, st'.effs[i]? = some er' ∧ Frozen er er') :
    K e a st' := by
  refine ⟨hl.trans h.rc, fun er her => ?_, h.ex⟩
  obtain ⟨er', h1, h2⟩ := h.key er her
  obtain ⟨er'', h3, h4⟩ := he e er' h1
  exact ⟨er'', h3, h2.trans h4⟩

/-- the record of another effect is rewritten -/
theorem K.setOther {e : Nat} {a st st' : St} (h : K e a st) (hl : rCount e st'.log = rCount e st.log)
    (j : Nat) (r1 : EffRec) (hne : j ≠ e) (he : st'.effs = st.effs.set j r1) : K e a st' := by
  refine ⟨hl.trans h.rc, fun er her => ?_, h.ex⟩
  obtain ⟨er', h1, h2⟩ := h.key er her
  exact ⟨er', by rw [he, List.getElem?_set_ne hne]; exact h1, h2⟩

theorem K.pushEff {e : Nat} {a st st' : St} (h : K e a st) (hl : rCount e st'.log = rCount e st.log) (x : EffRec)
    (he : st'.effs = st.effs ++ [x]) : K e a st' := by
  refine ⟨hl.trans h.rc, fun er her => ?_, h.ex⟩
  obtain ⟨er', h1, h2⟩ := h.key er her
  exact ⟨er', by rw [he]; exact getElem?_append_some h1, h2⟩

/-! ### the entry of the effect is gone -/

/-- the entry of effect `e` is gone: no strong reference outside the arena, the arena key (if it ever
had one) is dead, the cleanup whose closure owned it (if any) has run, and no run of it is in progress -/
def EffDead (st : St) (e : Nat) : Prop :=
  ∃ er, st.effs[e]? = some er ∧ er.held = false ∧ (∀ k, er.key = some k → KeyDead st.arena k) ∧
    (∀ cid, er.dropCid = some cid → logHas cid st.log) ∧ immRunning er = false

theorem effLive_false_of_dead {st : St} {e : Nat} (h : EffDead st e) : effLive st e = false := by
  obtain ⟨er, h1, h2, h3, h4, h5⟩ := h
  unfold effLive; rw [h1]
  have hk : keyLive st e er.key = false := by
    unfold keyLive
    cases hk : er.key with
    | none => rfl
    | some k => simp [(h3 k hk).get_none]
  have hd : dropLive st er.dropCid = false := by
    unfold dropLive
    cases hc : er.dropCid with
    | none => rfl
    | some cid => simp [cidRan_of_logHas (h4 cid hc)]
  simp [h2, hk, hd, h5]

theorem EffDead.of_K {e : Nat} {a st : St} (hd : EffDead a e) (hk : K e a st) (hs : SR a st) : EffDead st e := by
  obtain ⟨er, h1, h2, h3, h4, h5⟩ := hd
  obtain ⟨er', h6, h7⟩ := hk.key er h1
  obtain ⟨h8, h9, h10, h11⟩ := h7 h2
  refine ⟨er', h6, h8, fun k hk' => ?_, fun cid hc => ?_, by rw [h11]; exact h5⟩
  · rw [h9] at hk'
    exact (ArenaLe.reach hs).dead _ (h3 k hk')
  · rw [h10] at hc
    exact logHas_mono hs (h4 cid hc)

theorem EffDead.lt {st : St} {e : Nat} (h : EffDead st e) : e < st.effs.length := by
  obtain ⟨er, h1, _⟩ := h
  exact lt_of_getElem?_some h1

/-! ### the reactive layer -/

theorem k_clearSources {e : Nat} {a st : St} (h : K e a st) (me : Sub) (l : List Nat) :
    K e a (clearSources st me l) := h.same rfl rfl

theorem k_addSource {e : Nat} {a st : St} (h : K e a st) (me : Sub) (s : Nat) : K e a (addSource st me s) := by
  unfold addSource
  split
  · next e' =>
    split
    · next er her => exact h.effs_ok rfl (set_key_ok _ _ _ _ her (fun hh => ⟨hh, rfl, rfl, rfl⟩))
    · exact h
  · split
    · exact h.same rfl rfl
    · exact h

theorem k_readSig {e : Nat} {a st : St} (h : K e a st) (s : Nat) : K e a (readSig st s) := by
  unfold readSig
  split
  · split
    · simp only
      split
      · split
        · refine k_addSource ?_ _ _
          exact h.same rfl rfl
        · exact h.same rfl rfl
      · exact h.same rfl rfl
    · exact h
  · exact h

theorem rc_newOwner (e : Nat) (c : Core) : rCount e (newOwner c).1.log = rCount e c.log := by
  unfold newOwner; rw [newOwnerUnder_log]

theorem k_newEffect {e : Nat} {a st : St} (h : K e a st) (b : Nat) (k : EffKind) : K e a (newEffect st b k) := by
  unfold newEffect
  refine h.pushEff ?_ _ rfl
  show rCount e (newItem (newOwner st.toCore).1 _).1.log = rCount e st.log
  rw [newItem_log, rc_newOwner]

theorem k_newMemo {e : Nat} {a st : St} (h : K e a st) (b : Nat) : K e a (newMemo st b) := by
  unfold newMemo
  refine ⟨?_, h.key, h.ex⟩
  show rCount e (newItem (newOwner st.toCore).1 _).1.log = rCount e a.log
  rw [newItem_log, rc_newOwner]; exact h.rc

theorem k_newSignal {e : Nat} {a st : St} (h : K e a st) (v : Int) : K e a (newSignal st v) := by
  unfold newSignal
  refine ⟨?_, h.key, h.ex⟩
  show rCount e (newItem st.toCore _).1.log = rCount e a.log
  rw [newItem_log]; exact h.rc

theorem k_newOwnerHandle {e : Nat} {a st : St} (h : K e a st) : K e a (newOwnerHandle st) := by
  unfold newOwnerHandle
  refine ⟨?_, h.key, h.ex⟩
  show rCount e (newOwner st.toCore).1.log = rCount e a.log
  rw [rc_newOwner]; exact h.rc

theorem k_foldl {α} (e : Nat) (f : St → α → St) (hf : ∀ a st x, K e a st → K e a (f st x)) (l : List α)
    {a st : St} (h : K e a st) : K e a (l.foldl f st) := by
  induction l generalizing st with
  | nil => exact h
  | cons x l ih => exact ih (hf a st x h)

/-- the same for a step that needs to know that `e`'s entry is dead -/
theorem ks_foldl {α} (e : Nat) (f : St → α → St) (hsf : ∀ a st x, SR a st → SR a (f st x))
    (hf : ∀ a st x, EffDead a e → SR a st → K e a st → K e a (f st x)) (l : List α)
    {a st : St} (hd : EffDead a e) (hs : SR a st) (h : K e a st) : K e a (l.foldl f st) := by
  induction l generalizing st with
  | nil => exact h
  | cons x l ih => exact ih (hsf a st x hs) (hf a st x hd hs h)

theorem rc_cleanupOwner (e : Nat) (c : Core) (o : Nat) : rCount e (cleanupOwner c o).log = rCount e c.log :=
  rc_frames e _ _ _
theorem rc_dropOwner (e : Nat) (c : Core) (o : Nat) : rCount e (dropOwner c o).log = rCount e c.log :=
  rc_frames e _ _ _
theorem rc_disposeKey (e : Nat) (c : Core) (k : Key) : rCount e (disposeKey c k).log = rCount e c.log :=
  rc_frames e _ _ _

theorem k_releaseOwner {e : Nat} {a st : St} (h : K e a st) (o : Nat) : K e a (releaseOwner st o) := by
  unfold releaseOwner
  split
  · exact h
  · exact h.core (dropOwner · o) (rc_dropOwner e _ _)

/-- a token executor that keeps `K` as long as `e`'s entry is dead (marking a subscriber dirty may
run an `ImmediateEffect` at once: not `e`, which is dead) -/
def Kex (e : Nat) (ex : St → BOp → St) : Prop :=
  ∀ (a st : St) (op : BOp), EffDead a e → SR a st → K e a st → K e a (ex st op)

/-- a run of the body of another effect `e'` -/
theorem k_runScoped {e : Nat} {ex : St → BOp → St} (hex : Kex e ex) (hsx : SRex ex) {a st : St}
    (hd : EffDead a e) (hs : SR a st) (h : K e a st)
    (e' o b : Nat) (hne : e' ≠ e) : K e a (runScoped ex st e' o b) := by
  unfold runScoped
  simp only
  have h0 : ∀ S0 : St, S0.toCore = logEv (pushCur (cleanupOwner st.toCore o) o) (Ev.r e') →
      S0.effs = st.effs → K e a S0 ∧ SR a S0 := by
    intro S0 hc he
    refine ⟨⟨?_, by rw [he]; exact h.key, h.ex⟩, ?_⟩
    · rw [hc]
      show rCount e ((cleanupOwner st.toCore o).log ++ [Ev.r e']) = _
      rw [rCount_snoc_ne e _ _ (by intro hh; cases hh; exact hne rfl), rc_cleanupOwner]; exact h.rc
    · unfold SR; rw [hc]
      exact CR.logEv (CR.pushCur (CR.cleanupOwner hs _) _) _ rfl
  have key : ∀ (body : List BOp) (S0 : St), K e a S0 ∧ SR a S0 → ∀ S1 : St,
      (∃ x, S1.toCore = popCur (logEv (List.foldl ex S0 body).toCore (Ev.s e' x)) 1) →
      S1.effs = (List.foldl ex S0 body).effs → K e a S1 := by
    intro body S0 hS0 S1 ⟨x, hc⟩ he
    have := ks_foldl e _ hsx hex body hd hS0.2 hS0.1
    refine ⟨?_, by rw [he]; exact this.key, h.ex⟩
    rw [hc]
    show rCount e ((List.foldl ex S0 body).log ++ [Ev.s e' x]) = _
    rw [rCount_snoc_ne e _ _ (by intro hh; cases hh)]; exact this.rc
  refine key _ _ ?_ _ ⟨_, rfl⟩ rfl
  exact h0 _ rfl rfl

theorem k_pushEager {e : Nat} {a st : St} (h : K e a st) (b : Nat) (k : EffKind) : K e a (pushEager st b k) := by
  unfold pushEager
  refine h.pushEff ?_ _ rfl
  show rCount e (newOwner st.toCore).1.log = rCount e st.log
  exact rc_newOwner e _

theorem k_addTask {e : Nat} {a st : St} (h : K e a st) (e' : Nat) : K e a (addTask st e') := h.same rfl rfl

theorem k_finishAsync {e : Nat} {a st : St} (h : K e a st) (e' : Nat) (hne : e' ≠ e) : K e a (finishAsync st e') := by
  unfold finishAsync
  simp only
  have hl : rCount e (newItem st.toCore (Val.eff e')).1.log = rCount e st.log := by rw [newItem_log]
  split
  · exact h.setOther hl e' _ hne rfl
  · exact ⟨hl.trans h.rc, h.key, h.ex⟩

theorem pushEager_effs_length (st : St) (b : Nat) (k : EffKind) :
    (pushEager st b k).effs.length = st.effs.length + 1 := by
  unfold pushEager; simp

theorem k_newRender {e : Nat} {ex : St → BOp → St} (hex : Kex e ex) (hsx : SRex ex) {a st : St}
    (hd : EffDead a e) (hs : SR a st) (h : K e a st) (b : Nat) :
    K e a (newRender ex st b) := by
  unfold newRender
  have hne : st.effs.length ≠ e := by have := h.lt; omega
  exact k_addTask (k_runScoped hex hsx hd (sr_pushEager hs _ _) (k_pushEager h _ _) _ _ _ hne) _

theorem k_newAsync {e : Nat} {ex : St → BOp → St} (hex : Kex e ex) (hsx : SRex ex) {a st : St}
    (hd : EffDead a e) (hs : SR a st) (h : K e a st) (b : Nat) :
    K e a (newAsync ex st b) := by
  unfold newAsync
  have hne : st.effs.length ≠ e := by have := h.lt; omega
  have h1 : K e a (setMutDepth (pushEager st b EffKind.async) st.mutDepth) :=
    K.same (st := pushEager st b EffKind.async) (k_pushEager h _ _) rfl rfl
  have s1 : SR a (setMutDepth (pushEager st b EffKind.async) st.mutDepth) :=
    SR.react (st := pushEager st b EffKind.async) (sr_pushEager hs _ _) rfl
  have h2 := k_runScoped hex hsx hd s1 h1 st.effs.length (eagerOwner st) b hne
  refine k_finishAsync (k_addTask ?_ _) _ hne
  exact K.same h2 rfl rfl

theorem k_runMemo {e : Nat} {ex : St → BOp → St} (hex : Kex e ex) (hsx : SRex ex) {a st : St}
    (hd : EffDead a e) (hs : SR a st) (h : K e a st) (m : Nat) :
    K e a (runMemo ex st m) := by
  unfold runMemo
  split
  · exact h
  · next mr _ =>
    simp only
    have key : ∀ (body : List BOp) (S0 : St), K e a S0 ∧ SR a S0 → ∀ S1 : St,
        S1.toCore = popCur (List.foldl ex S0 body).toCore 1 →
        S1.effs = (List.foldl ex S0 body).effs → K e a S1 := by
      intro body S0 h0 S1 hc he
      have := ks_foldl e _ hsx hex body hd h0.2 h0.1
      exact ⟨by rw [hc]; exact this.rc, by rw [he]; exact this.key, h.ex⟩
    have h0 : ∀ S0 : St, S0.toCore = logEv (pushCur (cleanupOwner st.toCore mr.owner) mr.owner) (Ev.m m) →
        S0.effs = st.effs → K e a S0 ∧ SR a S0 := by
      intro S0 hc he
      refine ⟨⟨?_, by rw [he]; exact h.key, h.ex⟩, ?_⟩
      · rw [hc]
        show rCount e ((cleanupOwner st.toCore mr.owner).log ++ [Ev.m m]) = _
        rw [rCount_snoc_ne e _ _ (by intro hh; cases hh), rc_cleanupOwner]; exact h.rc
      · unfold SR; rw [hc]
        exact CR.logEv (CR.pushCur (CR.cleanupOwner hs _) _) _ rfl
    split
    · refine key _ _ ?_ _ rfl rfl
      exact h0 _ rfl rfl
    · refine key _ _ ?_ _ rfl rfl
      exact h0 _ rfl rfl

theorem k_getMemo {e : Nat} {ex : St → BOp → St} (hex : Kex e ex) (hsx : SRex ex) {a st : St}
    (hd : EffDead a e) (hs : SR a st) (h : K e a st) (m : Nat) :
    K e a (getMemo ex st m) := by
  unfold getMemo
  split
  · simp only
    have key : ∀ S1 : St, K e a S1 → ∀ v x, K e a (St.lift { S1 with acc := x } (logEv · (Ev.g m v))) := by
      intro S1 h1 v x
      refine ⟨?_, h1.key, h.ex⟩
      show rCount e (S1.log ++ [Ev.g m v]) = _
      rw [rCount_snoc_ne e _ _ (by intro hh; cases hh)]; exact h1.rc
    apply key
    split
    · split
      · exact k_runMemo hex hsx hd hs h _
      · exact h
    · exact h
  · refine ⟨?_, h.key, h.ex⟩
    show rCount e (st.log ++ [Ev.g m none]) = _
    rw [rCount_snoc_ne e _ _ (by intro hh; cases hh)]; exact h.rc

theorem rc_useCtx (e : Nat) (c : Core) (ty : Nat) : rCount e (useCtx c ty).log = rCount e c.log := by
  unfold useCtx; split
  · exact rCount_snoc_ne e _ _ (by intro hh; cases hh)
  · exact rCount_snoc_ne e _ _ (by intro hh; cases hh)

theorem rc_updateCtx (e : Nat) (c : Core) (ty : Nat) (d : Int) : rCount e (updateCtx c ty d).log = rCount e c.log := by
  unfold updateCtx; split
  · simp only; rw [modOwner_log]; exact rCount_snoc_ne e _ _ (by intro hh; cases hh)
  · exact rCount_snoc_ne e _ _ (by intro hh; cases hh)

theorem rc_takeCtx (e : Nat) (c : Core) (ty : Nat) : rCount e (takeCtx c ty).log = rCount e c.log := by
  unfold takeCtx; split
  · simp only; rw [modOwner_log]; exact rCount_snoc_ne e _ _ (by intro hh; cases hh)
  · exact rCount_snoc_ne e _ _ (by intro hh; cases hh)

/-! ### `ImmediateEffect`s -/

theorem k_immBegin {e : Nat} {a st : St} (h : K e a st) (e' : Nat) (er : EffRec) (hne : e' ≠ e) :
    K e a (immBegin st e' er) := by
  unfold immBegin
  exact (k_clearSources h (Sub.eff e') er.sources).setOther rfl e' _ hne rfl

theorem k_immEnd {e : Nat} {a st : St} (h : K e a st) (e' rc : Nat) (hne : e' ≠ e) : K e a (immEnd st e' rc) := by
  unfold immEnd
  split
  · exact h
  · exact h.setOther rfl e' _ hne rfl

theorem k_immRelease {e : Nat} {a st : St} (h : K e a st) (e' : Nat) : K e a (immRelease st e') := by
  unfold immRelease
  split
  · split
    · exact k_releaseOwner h _
    · exact h
  · exact h

/-- an update of another `ImmediateEffect` -/
theorem k_immUpdate {e : Nat} {ex : St → BOp → St} (hex : Kex e ex) (hsx : SRex ex) {a st : St}
    (hd : EffDead a e) (hs : SR a st) (h : K e a st) (e' : Nat) (hne : e' ≠ e) :
    K e a (immUpdate ex st e') := by
  unfold immUpdate
  split
  · exact h
  · next er _ =>
    split
    · exact h
    · simp only
      refine k_immRelease (k_immEnd ?_ _ _ hne) _
      refine K.same (st := runScoped ex _ e' er.owner er.body) (k_runScoped hex hsx hd ?_ ?_ _ _ _ hne) rfl rfl
      · exact SR.react (st := immBegin st e' er) (sr_immBegin hs e' er) rfl
      · exact K.same (st := immBegin st e' er) (k_immBegin h e' er hne) rfl rfl

theorem k_immScope {e : Nat} {a st : St} (h : K e a st) (e' : Nat) (hne : e' ≠ e) : K e a (immScope st e') := by
  unfold immScope
  split
  · exact h
  · next er _ =>
    split
    · have h1 : K e a (st.lift (regCleanup · (immTag e') false (some er.owner))) :=
        h.core _ (by rw [regCleanup_log])
      exact h1.setOther rfl e' _ hne rfl
    · refine k_releaseOwner ?_ _
      exact h.setOther rfl e' _ hne rfl

theorem k_newImm {e : Nat} {ex : St → BOp → St} (hex : Kex e ex) (hsx : SRex ex) {a st : St}
    (hd : EffDead a e) (hs : SR a st) (h : K e a st) (b : Nat) (sc mutf : Bool) :
    K e a (newImm ex st b sc mutf) := by
  unfold newImm
  simp only
  have hne : st.effs.length ≠ e := by have := h.lt; omega
  have h1 := k_immUpdate hex hsx hd (sr_pushEager hs b (EffKind.imm sc mutf)) (k_pushEager h b (EffKind.imm sc mutf))
    st.effs.length hne
  split
  · exact k_immScope h1 _ hne
  · exact h1

theorem k_markSub {e : Nat} {ex : St → BOp → St} (hex : Kex e ex) (hsx : SRex ex) (a st : St) (s : Sub)
    (hd : EffDead a e) (hs : SR a st) (h : K e a st) : K e a (markSub ex st s) := by
  unfold markSub
  split
  · next e' =>
    split
    · next er her =>
      split
      · next hlive =>
        split
        · have hne : e' ≠ e := by
            intro he; subst he
            rw [effLive_false_of_dead (hd.of_K h hs)] at hlive; cases hlive
          refine k_immUpdate hex hsx hd ?_ ?_ e' hne
          · exact hs.react rfl
          · exact h.setOther rfl e' _ hne rfl
        · exact h.effs_ok rfl (set_key_ok _ _ _ _ her (fun hh => ⟨hh, rfl, rfl, rfl⟩))
      · exact h
    · exact h
  · split
    · split
      · exact h.same rfl rfl
      · exact h
    · exact h

theorem k_setSig {e : Nat} {ex : St → BOp → St} (hex : Kex e ex) (hsx : SRex ex) {a st : St}
    (hd : EffDead a e) (hs : SR a st) (h : K e a st) (s : Nat) (v : Int) : K e a (setSig ex st s v) := by
  unfold setSig
  split
  · split
    · refine ks_foldl e _ (sr_markSub hsx) (k_markSub hex hsx) _ hd ?_ ?_
      · exact hs.react rfl
      · exact h.same rfl rfl
    · exact h
  · exact h

theorem k_writeSig {e : Nat} {ex : St → BOp → St} (hex : Kex e ex) (hsx : SRex ex) {a st : St}
    (hd : EffDead a e) (hs : SR a st) (h : K e a st) (s v : Nat) : K e a (writeSig ex st s v) := by
  unfold writeSig
  split
  · exact h
  · split
    · split
      · exact k_setSig hex hsx hd hs h _ _
      · exact h
    · exact h

/-! ### scoped tasks -/

theorem rc_captureOwner (e : Nat) (c : Core) : rCount e (captureOwner c).1.log = rCount e c.log := by
  unfold captureOwner
  split
  · rfl
  · rw [newOwnerUnder_log]

theorem k_newTask {e : Nat} {a st : St} (h : K e a st) (b : Nat) (cancel : Bool) : K e a (newTask st b cancel) := by
  unfold newTask
  simp only
  refine h.pushEff ?_ _ rfl
  split
  · show rCount e (captureOwner (regCleanup st.toCore _ false none)).1.log = _
    rw [rc_captureOwner, regCleanup_log]
  · exact rc_captureOwner e _

theorem k_execWith {e : Nat} {ex : St → BOp → St} (hex : Kex e ex) (hsx : SRex ex) : Kex e (execWith ex) := by
  intro a st op hd hs h
  cases op with
  | read s => exact k_readSig h s
  | get m =>
    simp only [execWith]
    split
    · exact h
    · exact k_getMemo hex hsx hd hs h _
  | cleanup tag => exact h.core (regCleanup · tag false none) (by rw [regCleanup_log])
  | nested tag => exact h.core (regCleanup · tag true none) (by rw [regCleanup_log])
  | item v => exact h.core (newStored · v) (by rw [newStored_log])
  | sig v => exact k_newSignal h v
  | provide ty v => exact h.core (provide · ty v) (by rw [provide_log])
  | use ty => exact h.core (useCtx · ty) (rc_useCtx e _ _)
  | take ty => exact h.core (takeCtx · ty) (rc_takeCtx e _ _)
  | update ty d => exact h.core (updateCtx · ty d) (rc_updateCtx e _ _ _)
  | effect b => exact k_newEffect h b _
  | memo b => exact k_newMemo h b
  | newOwner => exact k_newOwnerHandle h
  | watch b hb imm => exact k_newEffect h b _
  | render b => exact k_newRender hex hsx hd hs h b
  | async b => exact k_newAsync hex hsx hd hs h b
  | imm b sc mutf => exact k_newImm hex hsx hd hs h b sc mutf
  | write s v => exact k_writeSig hex hsx hd hs h s v
  | spawn b cancel =>
    simp only [execWith]
    split
    · exact h
    · exact k_newTask h b cancel

theorem k_exec (e : Nat) (f : Nat) : Kex e (exec f) := by
  induction f with
  | zero =>
    intro a st op hd hs h
    simp only [exec]
    exact k_execWith (fun _ _ _ _ _ h => h) (fun _ _ _ h => h) a st op hd hs h
  | succ n ih =>
    intro a st op hd hs h
    simp only [exec]
    exact k_execWith ih (sr_exec n) a st op hd hs h

theorem k_execBOp (e : Nat) : Kex e execBOp := fun a st op hd hs h => k_exec e _ a st op hd hs h

theorem k_execHandlerTok (e : Nat) (a st : St) (op : BOp) (h : K e a st) : K e a (execHandlerTok st op) := by
  cases op with
  | read s => exact k_readSig h s
  | cleanup tag =>
    exact (h.core (regCleanup · tag false none) (by rw [regCleanup_log])).same rfl rfl
  | item v => exact (h.core (newStored · v) (by rw [newStored_log])).same rfl rfl
  | sig v => exact (k_newSignal h v).same rfl rfl
  | use ty => exact (h.core (useCtx · ty) (rc_useCtx e _ _)).same rfl rfl
  | get m => exact h
  | nested tag => exact h
  | provide ty v => exact h
  | take ty => exact h
  | update ty d => exact h
  | effect b => exact h
  | memo b => exact h
  | newOwner => exact h
  | watch b hb imm => exact h
  | render b => exact h
  | async b => exact h
  | imm b sc mutf => exact h
  | write s v => exact h
  | spawn b cancel => exact h

theorem k_runHandlerOld {e : Nat} {a st : St} (h : K e a st) (e' hb : Nat) : K e a (runHandlerOld st e' hb) := by
  unfold runHandlerOld
  simp only
  have h1 : K e a (st.lift (logEv · (Ev.h e'))) :=
    h.core _ (rCount_snoc_ne e _ _ (by intro hh; cases hh))
  have h2 : ∀ S0 : St, S0.toCore = (st.lift (logEv · (Ev.h e'))).toCore → S0.effs = st.effs → K e a S0 :=
    fun S0 hc he => ⟨by rw [hc]; exact h1.rc, by rw [he]; exact h.key, h.ex⟩
  have key : ∀ (body : List BOp) (S0 : St), K e a S0 → ∀ S1 : St,
      S1.toCore = (List.foldl execHandlerTok S0 body).toCore →
      S1.effs = (List.foldl execHandlerTok S0 body).effs → K e a S1 := by
    intro body S0 hS0 S1 hc he
    have := k_foldl e _ (k_execHandlerTok e) body hS0
    exact ⟨by rw [hc]; exact this.rc, by rw [he]; exact this.key, h.ex⟩
  refine key _ _ ?_ _ rfl rfl
  exact h2 _ rfl rfl

theorem k_runHandlerNew {e : Nat} {a st : St} (h : K e a st) (e' o hb : Nat) :
    K e a (runHandlerNew st e' o hb) := by
  unfold runHandlerNew
  simp only
  have h2 : ∀ S0 : St, S0.toCore = logEv (pushCur st.toCore o) (Ev.h e') → S0.effs = st.effs → K e a S0 := by
    intro S0 hc he
    refine ⟨?_, by rw [he]; exact h.key, h.ex⟩
    rw [hc]
    show rCount e (st.log ++ [Ev.h e']) = _
    rw [rCount_snoc_ne e _ _ (by intro hh; cases hh)]; exact h.rc
  have key : ∀ (body : List BOp) (S0 : St), K e a S0 → ∀ S1 : St,
      S1.toCore = popCur (List.foldl execHandlerTok S0 body).toCore 1 →
      S1.effs = (List.foldl execHandlerTok S0 body).effs → K e a S1 := by
    intro body S0 hS0 S1 hc he
    have := k_foldl e _ (k_execHandlerTok e) body hS0
    exact ⟨by rw [hc]; exact this.rc, by rw [he]; exact this.key, h.ex⟩
  refine key _ _ ?_ _ rfl rfl
  exact h2 _ rfl rfl

theorem k_runHandler {e : Nat} {a st : St} (h : K e a st) (e' o hb : Nat) : K e a (runHandler st e' o hb) := by
  unfold runHandler
  split
  · exact k_runHandlerOld h e' hb
  · exact k_runHandlerNew h e' o hb

theorem k_endTask {e : Nat} {a st : St} (h : K e a st) (e' : Nat) : K e a (endTask st e') := by
  unfold endTask
  split
  · next er her =>
    refine k_releaseOwner ?_ _
    exact h.effs_ok rfl (set_key_ok _ _ _ _ her (fun hh => ⟨hh, rfl, rfl, rfl⟩))
  · exact h

theorem k_prepRun {e : Nat} {a st : St} (h : K e a st) (e' : Nat) (er : EffRec) (her : st.effs[e']? = some er) :
    K e a (prepRun st e' er) := by
  unfold prepRun
  simp only
  split
  · exact h.effs_ok rfl (set_key_ok _ _ _ _ her (fun hh => ⟨hh, rfl, rfl, rfl⟩))
  · exact (k_clearSources h (Sub.eff e') er.sources).effs_ok rfl
      (set_key_ok _ _ _ _ her (fun hh => ⟨hh, rfl, rfl, rfl⟩))

theorem k_afterRun {e : Nat} {a st : St} (h : K e a st) (e' : Nat) (er : EffRec) : K e a (afterRun st e' er) := by
  unfold afterRun
  split
  · split
    · exact k_runHandler h _ _ _
    · exact h
  · exact h

/-- a run of another effect -/
theorem k_runEffect {e : Nat} {a st : St} (hd : EffDead a e) (hs : SR a st) (h : K e a st) (e' : Nat)
    (er : EffRec) (hne : e' ≠ e) (her : st.effs[e']? = some er) : K e a (runEffect st e' er) := by
  unfold runEffect
  exact k_afterRun (k_runScoped (k_execBOp e) sr_execBOp hd (sr_prepRun hs _ _) (k_prepRun h e' er her) _ _ _ hne) _ _

/-- a segment of another scoped task -/
theorem k_runSeg {e : Nat} {ex : St → BOp → St} (hex : Kex e ex) (hsx : SRex ex) {a st : St}
    (hd : EffDead a e) (hs : SR a st) (h : K e a st) (e' : Nat) (er : EffRec) (hne : e' ≠ e) :
    K e a (runSeg ex st e' er) := by
  unfold runSeg
  simp only
  have h0 : ∀ S0 : St, S0.toCore = logEv (pushCur st.toCore er.owner) (Ev.r e') →
      S0.effs = st.effs → K e a S0 ∧ SR a S0 := by
    intro S0 hc he
    refine ⟨⟨?_, by rw [he]; exact h.key, h.ex⟩, ?_⟩
    · rw [hc]
      show rCount e (st.log ++ [Ev.r e']) = _
      rw [rCount_snoc_ne e _ _ (by intro hh; cases hh; exact hne rfl)]; exact h.rc
    · unfold SR; rw [hc]
      exact CR.logEv (CR.pushCur hs _) _ rfl
  have key : ∀ (body : List BOp) (S0 : St), K e a S0 ∧ SR a S0 → ∀ S1 : St,
      (∃ x, S1.toCore = popCur (logEv (List.foldl ex S0 body).toCore (Ev.s e' x)) 1) →
      S1.effs = (List.foldl ex S0 body).effs → K e a S1 := by
    intro body S0 hS0 S1 ⟨x, hc⟩ he
    have := ks_foldl e _ hsx hex body hd hS0.2 hS0.1
    refine ⟨?_, by rw [he]; exact this.key, h.ex⟩
    rw [hc]
    show rCount e ((List.foldl ex S0 body).log ++ [Ev.s e' x]) = _
    rw [rCount_snoc_ne e _ _ (by intro hh; cases hh)]; exact this.rc
  refine key _ _ ?_ _ ⟨_, rfl⟩ rfl
  exact h0 _ rfl rfl

theorem k_finishTask {e : Nat} {a st : St} (h : K e a st) (e' : Nat) : K e a (finishTask st e') := by
  unfold finishTask
  split
  · next er her =>
    refine k_releaseOwner ?_ _
    exact h.effs_ok rfl (set_key_ok _ _ _ _ her (fun _ => ⟨rfl, rfl, rfl, rfl⟩))
  · exact h

theorem k_afterSeg {e : Nat} {a st : St} (h : K e a st) (e' : Nat) : K e a (afterSeg st e') := by
  unfold afterSeg
  split
  · next er her =>
    split
    · exact k_finishTask h _
    · exact h.effs_ok rfl (set_key_ok _ _ _ _ her (fun hh => ⟨hh, rfl, rfl, rfl⟩))
  · exact h

/-- polling a scoped task: another one, or `e` itself while it is dead (aborted / over) -/
theorem k_pollTask {e : Nat} {a st : St} (hd : EffDead a e) (hs : SR a st) (h : K e a st) (e' : Nat)
    (er : EffRec) (her : st.effs[e']? = some er) : K e a (pollTask st e' er) := by
  unfold pollTask
  split
  · exact k_finishTask h _
  · next hlive =>
    have hne : e' ≠ e := by
      intro he; subst he
      rw [effLive_false_of_dead (hd.of_K h hs)] at hlive; simp at hlive
    refine k_afterSeg (k_runSeg (k_execBOp e) sr_execBOp hd ?_ ?_ e' er hne) _
    · exact hs.react rfl
    · exact h.effs_ok rfl (set_key_ok _ _ _ _ her (fun hh => ⟨hh, rfl, rfl, rfl⟩))

/-- one iteration of a task's loop: either another effect's, or `e`'s own while its entry is dead -/
theorem k_pollIter {e : Nat} {a st : St} (hd : EffDead a e) (hs : SR a st) (h : K e a st) (e' : Nat) :
    K e a (pollIter st e') := by
  unfold pollIter
  split
  · exact h
  · next er her =>
    split
    · exact h
    · split
      · exact k_pollTask hd hs h e' er her
      · split
        · exact k_endTask h _
        · next hlive =>
          have hne : e' ≠ e := by
            intro he; subst he
            rw [effLive_false_of_dead (hd.of_K h hs)] at hlive; simp at hlive
          split
          · exact h.effs_ok rfl (set_key_ok _ _ _ _ her (fun hh => ⟨hh, rfl, rfl, rfl⟩))
          · split
            · exact h.effs_ok rfl (set_key_ok _ _ _ _ her (fun hh => ⟨hh, rfl, rfl, rfl⟩))
            · split
              · exact k_endTask (k_runEffect hd hs h e' er hne her) _
              · exact k_runEffect hd hs h e' er hne her

theorem k_rewake {e : Nat} {a st : St} (h : K e a st) (e' : Nat) : K e a (rewake st e') := by
  unfold rewake
  split
  · next er her => exact h.effs_ok rfl (set_key_ok _ _ _ _ her (fun hh => ⟨hh, rfl, rfl, rfl⟩))
  · exact h

theorem k_pollLoop {e : Nat} (n : Nat) {a st : St} (hd : EffDead a e) (hs : SR a st) (h : K e a st) (e' : Nat) :
    K e a (pollLoop n st e') := by
  induction n generalizing st with
  | zero => exact h
  | succ n ih =>
    simp only [pollLoop]
    split
    · exact k_rewake (ih (sr_pollIter hs e') (k_pollIter hd hs h e')) e'
    · exact k_pollIter hd hs h e'

theorem k_pollEff {e : Nat} {a st : St} (hd : EffDead a e) (hs : SR a st) (h : K e a st) (e' : Nat) :
    K e a (pollEff st e') := k_pollLoop _ hd hs h e'

theorem k_dropHandle {e : Nat} (a st : St) (hd : Nat) (h : K e a st) : K e a (dropHandle st hd) := by
  unfold dropHandle
  split
  · next o _ =>
    refine k_releaseOwner ?_ o
    exact h.same rfl rfl
  · exact h

theorem k_runWc {e : Nat} {a st : St} (hd : EffDead a e) (hs : SR a st) (h : K e a st) (o b : Nat) :
    K e a (runWc st o b) := by
  unfold runWc
  simp only
  have h0 : ∀ S0 : St, S0.toCore = pushCur (cleanupOwner st.toCore o) o → S0.effs = st.effs →
      K e a S0 ∧ SR a S0 := by
    intro S0 hc he
    refine ⟨⟨?_, by rw [he]; exact h.key, h.ex⟩, ?_⟩
    · rw [hc]
      show rCount e (cleanupOwner st.toCore o).log = _
      rw [rc_cleanupOwner]; exact h.rc
    · unfold SR; rw [hc]
      exact CR.pushCur (CR.cleanupOwner hs _) _
  have key : ∀ (body : List BOp) (S0 : St), K e a S0 ∧ SR a S0 → ∀ S1 : St,
      S1.toCore = popCur (List.foldl execBOp S0 body).toCore 1 →
      S1.effs = (List.foldl execBOp S0 body).effs → K e a S1 := by
    intro body S0 hS0 S1 hc he
    have := ks_foldl e _ sr_execBOp (k_execBOp e) body hd hS0.2 hS0.1
    exact ⟨by rw [hc]; exact this.rc, by rw [he]; exact this.key, h.ex⟩
  refine key _ _ ?_ _ rfl rfl
  exact h0 _ rfl rfl

theorem k_disposeEff {e : Nat} {a st st' : St} (h : K e a st) {i : Nat} (hd : disposeEff st i = some st') :
    K e a st' := by
  unfold disposeEff at hd
  split at hd
  · next er her =>
    split at hd
    · next k _ =>
      simp only [Option.some.injEq] at hd; subst hd
      exact h.core (disposeKey · k) (rc_disposeKey e _ _)
    · split at hd
      · cases hd
      · split at hd
        · simp only [Option.some.injEq] at hd; subst hd
          refine k_releaseOwner ?_ _
          exact h.effs_ok rfl (set_key_ok _ _ _ _ her (fun _ => ⟨rfl, rfl, rfl, rfl⟩))
        · simp only [Option.some.injEq] at hd; subst hd
          exact h.effs_ok rfl (set_key_ok _ _ _ _ her (fun _ => ⟨rfl, rfl, rfl, rfl⟩))
  · cases hd

/-! ### histories -/

theorem k_pollNth {e : Nat} {a st : St} (h : K e a st) (hs : SR a st) (hd : EffDead a e) (i : Nat) :
    K e a (pollNth st i) := by
  unfold pollNth
  simp only
  split
  · next e' _ => exact k_pollEff hd hs h e'
  · exact h

theorem k_runIdle {e : Nat} (n : Nat) {a st : St} (h : K e a st) (hs : SR a st) (hd : EffDead a e) :
    K e a (runIdle n st) := by
  induction n generalizing st with
  | zero => exact h
  | succ n ih =>
    simp only [runIdle]
    split
    · exact h
    · exact ih (k_pollNth h hs hd _) (sr_pollNth hs _)

theorem k_stepOp {e : Nat} {a st st' : St} {op : Op} (h : K e a st) (hs : SR a st) (hd : EffDead a e)
    (hop : stepOp st op = some st') : K e a st' := by
  cases op with
  | body b => simp only [stepOp, Option.some.injEq] at hop; subst hop; exact h.same rfl rfl
  | act ins x =>
    simp only [stepOp] at hop
    split at hop
    · cases hop
    · next os _ =>
      have h1 : K e a (st.lift (pushAll · os)) := h.core (pushAll · os) rfl
      cases x with
      | x b =>
        simp only [Option.map_some, Option.some.injEq] at hop; subst hop
        exact (k_execBOp e a (st.lift (pushAll · os)) b hd (CR.pushAll hs os) h1).core (popCur · os.length) rfl
      | cleanup hh =>
        simp only at hop
        split at hop
        · next o _ =>
          simp only [Option.map_some, Option.some.injEq] at hop; subst hop
          have h2 : K e a ((st.lift (pushAll · os)).lift (cleanupOwner · o)) :=
            h1.core (cleanupOwner · o) (rc_cleanupOwner e _ _)
          exact h2.core (popCur · os.length) rfl
        · simp at hop
      | wc hh b =>
        simp only at hop
        split at hop
        · next o _ =>
          simp only [Option.map_some, Option.some.injEq] at hop; subst hop
          exact (k_runWc (st := st.lift (pushAll · os)) hd (CR.pushAll hs os) h1 o b).core (popCur · os.length) rfl
        · simp at hop
  | child hh =>
    simp only [stepOp] at hop
    split at hop
    · next o _ =>
      simp only [Option.some.injEq] at hop; subst hop
      refine ⟨?_, h.key, h.ex⟩
      show rCount e (childOwner st.toCore o).1.log = _
      unfold childOwner
      split <;> (rw [newOwnerUnder_log]; exact h.rc)
    · cases hop
  | drop hh =>
    simp only [stepOp] at hop
    split at hop
    · simp only [Option.some.injEq] at hop; subst hop; exact k_dropHandle _ _ _ h
    · cases hop
  | dispose k i =>
    have plain : ∀ key : Key, K e a (st.lift (disposeKey · key)) :=
      fun key => h.core (disposeKey · key) (rc_disposeKey e _ _)
    cases k with
    | e => simp only [stepOp] at hop; exact k_disposeEff h hop
    | i =>
      simp only [stepOp] at hop
      split at hop
      · simp only [Option.some.injEq] at hop; subst hop; exact plain _
      · cases hop
    | s =>
      simp only [stepOp] at hop
      split at hop
      · simp only [Option.some.injEq] at hop; subst hop; exact plain _
      · cases hop
    | m =>
      simp only [stepOp] at hop
      split at hop
      · simp only [Option.some.injEq] at hop; subst hop; exact plain _
      · cases hop
  | set s v =>
    simp only [stepOp] at hop
    split at hop
    · simp only [Option.some.injEq] at hop; subst hop; exact k_setSig (k_execBOp e) sr_execBOp hd hs h _ _
    · cases hop
  | pause hh =>
    simp only [stepOp] at hop
    split at hop
    · simp only [Option.some.injEq] at hop; subst hop
      exact h.core (setPaused · _ true) (by unfold setPaused; rw [pauseWalk_log])
    · cases hop
  | resume hh =>
    simp only [stepOp] at hop
    split at hop
    · simp only [Option.some.injEq] at hop; subst hop
      exact h.core (setPaused · _ false) (by unfold setPaused; rw [pauseWalk_log])
    · cases hop
  | poll i => simp only [stepOp, Option.some.injEq] at hop; subst hop; exact k_pollNth h hs hd _
  | idle => simp only [stepOp, Option.some.injEq] at hop; subst hop; exact k_runIdle _ h hs hd
  | «end» =>
    simp only [stepOp, Option.some.injEq] at hop; subst hop
    exact k_runIdle _ (k_foldl e _ k_dropHandle _ h) (sr_foldl _ sr_dropHandle _ hs) hd

theorem k_runOps {e : Nat} {a st : St} (h : K e a st) (hs : SR a st) (hd : EffDead a e) (ops : List Op) :
    K e a (runOps st ops) := by
  induction ops generalizing st with
  | nil => exact h
  | cons op rest ih =>
    simp only [runOps]
    cases hop : stepOp st op with
    | none => simpa using ih h hs
    | some st' => simpa using ih (k_stepOp h hs hd hop) (sr_stepOp hs hop)

end Leptos.Owner
