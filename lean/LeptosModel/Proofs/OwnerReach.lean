import LeptosModel.Proofs.OwnerCover
/-!
# Proofs/OwnerReach — every cleanup below the root runs, every node below the root is removed (C08)
-/
namespace Leptos.Owner

/-! ## what a single step does to the lists of an owner it does not take -/

theorem log_step_mono (st : Core) (f : Frame) (e : Ev) (h : e ∈ st.log) : e ∈ (stepFrame st f).1.log := by
  cases f with
  | visit o late =>
    cases hr : st.owners[o]? with
    | none => simp only [stepFrame, hr]; exact h
    | some r =>
      by_cases ha : r.alive = true
      · simp only [stepFrame, hr, ha, if_true, setOwner_log]; exact h
      · simp only [stepFrame, hr, ha, if_false, Bool.false_eq_true]; exact h
  | drop o late =>
    cases hr : st.owners[o]? with
    | none => simp only [stepFrame, hr]; exact h
    | some r => simp only [stepFrame, hr, setOwner_log]; exact h
  | run c ow late =>
    by_cases hn : c.nested = true
    · simp only [stepFrame, hn, if_true, newStored_log, regCleanup_log, logEv_log]
      exact List.mem_append_left _ h
    · simp only [stepFrame, hn, if_false, Bool.false_eq_true, logEv_log]
      exact List.mem_append_left _ h
  | remove k late => exact h

theorem log_step_run (st : Core) (c : Cleanup) (ow : Nat) (late : Bool) :
    Ev.c c.tag c.cid ow late ∈ (stepFrame st (.run c ow late)).1.log := by
  by_cases hn : c.nested = true
  · simp only [stepFrame, hn, if_true, newStored_log, regCleanup_log, logEv_log]
    exact List.mem_append_right _ (List.mem_singleton.mpr rfl)
  · simp only [stepFrame, hn, if_false, Bool.false_eq_true, logEv_log]
    exact List.mem_append_right _ (List.mem_singleton.mpr rfl)

theorem field_mem_record {α} {F : OwnerRec → List α} {st : Core} {d : Nat} {a : α}
    (h : a ∈ fieldOf F [] st d) : ∃ r, st.owners[d]? = some r ∧ a ∈ F r := by
  unfold fieldOf at h
  cases hr : st.owners[d]? with
  | none => rw [hr] at h; cases h
  | some r => rw [hr] at h; exact ⟨r, rfl, h⟩

/-- a step that does not take `d`'s lists keeps them (they may grow) -/
theorem step_keep (st : Core) (f : Frame) (d : Nat) (hne : ¬ Expanded st f d) :
    (∀ c, c ∈ cleanupsOf st d → c ∈ cleanupsOf (stepFrame st f).1 d) ∧
    (∀ k, k ∈ nodesOf st d → k ∈ nodesOf (stepFrame st f).1 d) := by
  cases f with
  | visit x late =>
    cases hr : st.owners[x]? with
    | none => simp only [stepFrame, hr]; exact ⟨fun _ h => h, fun _ h => h⟩
    | some r =>
      by_cases ha : r.alive = true
      · have hxd : x ≠ d := by
          intro h; subst h
          exact hne ⟨rfl, by simp [Core.aliveB, hr, ha]⟩
        simp only [stepFrame, hr, ha, if_true]
        constructor
        · intro c hc
          rw [cleanupsOf_eq, fieldOf_setOwner _ _ hr]; simp [Ne.symm hxd]; exact hc
        · intro k hk
          rw [nodesOf_eq, fieldOf_setOwner _ _ hr]; simp [Ne.symm hxd]; exact hk
      · simp only [stepFrame, hr, ha, if_false, Bool.false_eq_true]; exact ⟨fun _ h => h, fun _ h => h⟩
  | drop x late =>
    have hxd : x ≠ d := fun h => hne h
    cases hr : st.owners[x]? with
    | none => simp only [stepFrame, hr]; exact ⟨fun _ h => h, fun _ h => h⟩
    | some r =>
      simp only [stepFrame, hr]
      constructor
      · intro c hc
        rw [cleanupsOf_eq, fieldOf_setOwner _ _ hr]; simp [Ne.symm hxd]; exact hc
      · intro k hk
        rw [nodesOf_eq, fieldOf_setOwner _ _ hr]; simp [Ne.symm hxd]; exact hk
  | run c ow late =>
    by_cases hn : c.nested = true
    · simp only [stepFrame, hn, if_true]
      constructor
      · intro c' hc
        rw [cleanupsOf_eq, fieldOf_newStored _ _ _ _ (fun _ _ => rfl)]
        exact cleanupsOf_regCleanup_mono _ _ _ _ _ _ hc
      · intro k hk
        unfold newStored
        have : k ∈ nodesOf (newItem (regCleanup (logEv st (Ev.c c.tag c.cid ow late)) (c.tag + 100) false none)
            (Val.num c.tag)).1 d := by
          apply nodesOf_newItem_mono
          rw [nodesOf_eq, fieldOf_regCleanup _ _ _ _ _ (fun _ _ => rfl)]; exact hk
        exact this
    · simp only [stepFrame, hn, if_false, Bool.false_eq_true]; exact ⟨fun _ h => h, fun _ h => h⟩
  | remove k late => exact ⟨fun _ h => h, fun _ h => h⟩

/-- the step that takes `d`'s lists pushes exactly `expand r d _` -/
theorem step_expanded (st : Core) (f : Frame) (d : Nat) (r : OwnerRec) (he : Expanded st f d)
    (hr : st.owners[d]? = some r) : ∃ late, (stepFrame st f).2 = expand r d late := by
  cases f with
  | visit x late =>
    obtain ⟨hx, ha⟩ := he
    subst hx
    have ha' : r.alive = true := by simpa [Core.aliveB, hr] using ha
    exact ⟨late, by simp only [stepFrame, hr, ha', if_true]⟩
  | drop x late =>
    have hx : x = d := he
    subst hx
    exact ⟨late, by simp only [stepFrame, hr]⟩
  | run c ow late => exact False.elim he
  | remove k late => exact False.elim he

/-! ## cleanups -/

def logHas (cid : Nat) (l : List Ev) : Prop := ∃ tag ow late, Ev.c tag cid ow late ∈ l

/-- where cleanup `cid` is: already run, on the stack, or in the list of a claimed owner -/
def CoverC (cid : Nat) (st : Core) (fs : List Frame) : Prop :=
  logHas cid st.log ∨ (∃ c ow late, Frame.run c ow late ∈ fs ∧ c.cid = cid) ∨
    (∃ d c, c ∈ cleanupsOf st d ∧ c.cid = cid ∧ Pending st fs d)

theorem CoverC.step {cid : Nat} {st : Core} (hwf : TreeWF st) (f : Frame) (fs : List Frame)
    (h : CoverC cid st (f :: fs)) : CoverC cid (stepFrame st f).1 ((stepFrame st f).2 ++ fs) := by
  rcases h with ⟨tag, ow, late, h⟩ | ⟨c, ow, late, hm, hc⟩ | ⟨d, c, hm, hc, hp⟩
  · exact Or.inl ⟨tag, ow, late, log_step_mono st f _ h⟩
  · rcases List.mem_cons.mp hm with rfl | hm
    · exact Or.inl ⟨c.tag, ow, late, hc ▸ log_step_run st c ow late⟩
    · exact Or.inr (Or.inl ⟨c, ow, late, List.mem_append_right _ hm, hc⟩)
  · by_cases he : Expanded st f d
    · rw [cleanupsOf_eq] at hm
      obtain ⟨r, hr, hcr⟩ := field_mem_record hm
      obtain ⟨late, hl⟩ := step_expanded st f d r he hr
      refine Or.inr (Or.inl ⟨c, d, late, ?_, hc⟩)
      rw [hl]; exact List.mem_append_left _ (mem_expand_run hcr)
    · rcases Pending.step hwf f fs d hp with h | h
      · exact absurd h he
      · exact Or.inr (Or.inr ⟨d, c, (step_keep st f d he).1 c hm, hc, h⟩)

/-- **every cleanup registered below the root of a `cleanup` pass runs in that pass** -/
theorem cleanupOwner_runs {st : Core} (hwf : TreeWF st) {o d : Nat} {c : Cleanup}
    (ha : st.aliveB o = true) (hd : Below st o d) (hc : c ∈ cleanupsOf st d) :
    logHas c.cid (cleanupOwner st o).log := by
  have h0 : TreeWF st ∧ CoverC c.cid st [Frame.visit o false] :=
    ⟨hwf, Or.inr (Or.inr ⟨d, c, hc, rfl, _, List.mem_singleton.mpr rfl, ha, hd⟩)⟩
  have := runPass_inv (fun s fs => TreeWF s ∧ CoverC c.cid s fs)
    (fun s f fs h => ⟨h.1.shrink (TreeShrink.step s f), h.2.step h.1 f fs⟩) st _ h0
  rcases this.2 with h | ⟨_, _, _, hm, _⟩ | ⟨_, _, _, _, _, hm, _⟩
  · exact h
  · cases hm
  · cases hm

/-- the same for the pass that runs when the last handle of an owner is dropped -/
theorem dropOwner_runs {st : Core} (hwf : TreeWF st) {o d : Nat} {c : Cleanup}
    (hd : Below st o d) (hc : c ∈ cleanupsOf st d) : logHas c.cid (dropOwner st o).log := by
  have h0 : TreeWF st ∧ CoverC c.cid st [Frame.drop o false] :=
    ⟨hwf, Or.inr (Or.inr ⟨d, c, hc, rfl, _, List.mem_singleton.mpr rfl, hd⟩)⟩
  have := runPass_inv (fun s fs => TreeWF s ∧ CoverC c.cid s fs)
    (fun s f fs h => ⟨h.1.shrink (TreeShrink.step s f), h.2.step h.1 f fs⟩) st _ h0
  rcases this.2 with h | ⟨_, _, _, hm, _⟩ | ⟨_, _, _, _, _, hm, _⟩
  · exact h
  · cases hm
  · cases hm

/-! ## nodes -/

/-- where key `k` is: dead, about to be removed, or in the node list of a claimed owner -/
def CoverK (k : Key) (st : Core) (fs : List Frame) : Prop :=
  KeyDead st.arena k ∨ (∃ late, Frame.remove k late ∈ fs) ∨ (∃ d, k ∈ nodesOf st d ∧ Pending st fs d)

theorem CoverK.step {k : Key} {st : Core} (hwf : TreeWF st) (hi : Issued st.arena k) (f : Frame)
    (fs : List Frame) (h : CoverK k st (f :: fs)) :
    CoverK k (stepFrame st f).1 ((stepFrame st f).2 ++ fs) := by
  rcases h with h | ⟨late, hm⟩ | ⟨d, hm, hp⟩
  · exact Or.inl ((ArenaLe.step st f).dead k h)
  · rcases List.mem_cons.mp hm with rfl | hm
    · left
      simp only [stepFrame]
      exact remove_dead hi
    · exact Or.inr (Or.inl ⟨late, List.mem_append_right _ hm⟩)
  · by_cases he : Expanded st f d
    · rw [nodesOf_eq] at hm
      obtain ⟨r, hr, hkr⟩ := field_mem_record hm
      obtain ⟨late, hl⟩ := step_expanded st f d r he hr
      refine Or.inr (Or.inl ⟨late, ?_⟩)
      rw [hl]; exact List.mem_append_left _ (mem_expand_remove hkr)
    · rcases Pending.step hwf f fs d hp with h | h
      · exact absurd h he
      · exact Or.inr (Or.inr ⟨d, (step_keep st f d he).2 k hm, h⟩)

/-- **every node registered below the root of a `cleanup` pass is dead afterwards** -/
theorem cleanupOwner_kills {st : Core} (hwf : TreeWF st) {o d : Nat} {k : Key}
    (ha : st.aliveB o = true) (hd : Below st o d) (hk : k ∈ nodesOf st d) (hi : Issued st.arena k) :
    KeyDead (cleanupOwner st o).arena k := by
  have h0 : TreeWF st ∧ Issued st.arena k ∧ CoverK k st [Frame.visit o false] :=
    ⟨hwf, hi, Or.inr (Or.inr ⟨d, hk, _, List.mem_singleton.mpr rfl, ha, hd⟩)⟩
  have := runPass_inv (fun s fs => TreeWF s ∧ Issued s.arena k ∧ CoverK k s fs)
    (fun s f fs h => ⟨h.1.shrink (TreeShrink.step s f), (ArenaLe.step s f).issued k h.2.1,
      h.2.2.step h.1 h.2.1 f fs⟩) st _ h0
  rcases this.2.2 with h | ⟨_, hm⟩ | ⟨_, _, _, hm, _⟩
  · exact h
  · cases hm
  · cases hm

theorem dropOwner_kills {st : Core} (hwf : TreeWF st) {o d : Nat} {k : Key}
    (hd : Below st o d) (hk : k ∈ nodesOf st d) (hi : Issued st.arena k) :
    KeyDead (dropOwner st o).arena k := by
  have h0 : TreeWF st ∧ Issued st.arena k ∧ CoverK k st [Frame.drop o false] :=
    ⟨hwf, hi, Or.inr (Or.inr ⟨d, hk, _, List.mem_singleton.mpr rfl, hd⟩)⟩
  have := runPass_inv (fun s fs => TreeWF s ∧ Issued s.arena k ∧ CoverK k s fs)
    (fun s f fs h => ⟨h.1.shrink (TreeShrink.step s f), (ArenaLe.step s f).issued k h.2.1,
      h.2.2.step h.1 h.2.1 f fs⟩) st _ h0
  rcases this.2.2 with h | ⟨_, hm⟩ | ⟨_, _, _, hm, _⟩
  · exact h
  · cases hm
  · cases hm

end Leptos.Owner
