import LeptosModel.Proofs.ReactivePrim
/-!
# Proofs/ReactiveEval — evaluation of a memo body under the induction hypothesis for `upd`
-/
namespace Leptos.Reactive

/-- for a well-formed program whose memo bodies use tracked reads only, the log written between `s` and
`s'` is glitch-free -/
def GFI (p : Prog) (s s' : State) : Prop := WF p = true → MemoTracked p → StateGF p s s'

theorem GFI.refl (p : Prog) (s : State) : GFI p s s := fun _ _ => StateGF.refl p s
theorem GFI.trans {p : Prog} {s s' s'' : State} (h1 : GFI p s s') (h2 : GFI p s' s'') : GFI p s s'' :=
  fun hwf htr => (h1 hwf htr).trans (h2 hwf htr)
theorem GFI.of_eq {p : Prog} {s s' : State} (hl : s'.log = s.log)
    (hv : ∀ i, (s'.get i).val = (s.get i).val) : GFI p s s' :=
  fun _ _ => StateGF.of_eq hl (SigEq.of_val (fun i _ _ => hv i))

/-- the log-level "one run per change" relation, under its invariant -/
def CRI (p : Prog) (s s' : State) : Prop := CInv p s → ChgRel p s s'

theorem CRI.refl (p : Prog) (s : State) : CRI p s s := fun _ => ChgRel.refl p s
theorem CRI.trans {p : Prog} {s s' s'' : State} (h1 : CRI p s s') (h2 : CRI p s' s'') : CRI p s s'' :=
  fun hc => (h1 hc).trans (h2 (hc.step (h1 hc)))
theorem CRI.of_same {p : Prog} {s s' : State} (hl : s'.log = s.log)
    (hseen : ∀ w, (s'.get w).seen = (s.get w).seen) (hver : ∀ x, (s'.get x).ver = (s.get x).ver)
    (hruns : ∀ w, (s'.get w).runs = (s.get w).runs) : CRI p s s' :=
  fun _ => ChgRel.of_same hl hseen hver hruns
theorem CRI.of_nodes {p : Prog} {s s' : State} (hn : s'.nodes = s.nodes) (hl : s'.log = s.log) : CRI p s s' := by
  have g : ∀ i, s'.get i = s.get i := by intro i; simp only [State.get, hn]
  exact CRI.of_same hl (fun w => by rw [g]) (fun w => by rw [g]) (fun w => by rw [g])

/-- post-condition of `update_if_necessary` on node `m` -/
structure UpdPost (p : Prog) (s : State) (m : Nat) (r : State × Bool) : Prop where
  inv : InvR p r.1
  frame : Frame s r.1 (m + 1)
  obs : r.1.obs = s.obs
  running : ∀ i, (r.1.get i).running = (s.get i).running
  clean : (s.get m).kind = .memo → (r.1.get m).st = .clean
  subs : (r.1.get m).subs = (s.get m).subs
  ver : r.2 = true → (s.get m).ver < (r.1.get m).ver
  obsD : ∀ o, s.obs = some o → (s.get o).kind = .eff → (r.1.get o).dirty = true →
    (s.get o).dirty = true ∨ ∃ y ∈ (s.get o).sources, y ≠ m ∧ (s.get y).ver < (r.1.get y).ver
  valCh : ValCh s r.1
  runRel : RunRel s r.1
  ss : SrcStatic p s → SrcStatic p r.1
  gf : GFI p s r.1
  cr : CRI p s r.1

def UpdOK (p : Prog) (u : State → Nat → State × Bool) (f : Nat) : Prop :=
  ∀ s x, InvR p s → x < f → (s.get x).running = false → (∀ r, (s.get r).running = true → x < r) →
    UpdPost p s x (u s x)

theorem UpdPost.refl {p : Prog} {s : State} {m : Nat} (h : InvR p s)
    (hc : (s.get m).kind = .memo → (s.get m).st = .clean) : UpdPost p s m (s, false) :=
  ⟨h, Frame.refl s _, rfl, fun _ => rfl, hc, rfl, fun hc => (by cases hc), fun _ _ _ hd => .inl hd,
   ValCh.of_val_eq (fun _ => rfl), RunRel.of_eq (fun _ => rfl), fun h => h, GFI.refl p s,
   CRI.refl p s⟩

/-- relation between the states before and after evaluating part of the body of the running memo `m` -/
structure EvalPost (p : Prog) (s s' : State) (m : Nat) (L : List (Nat × Int × Nat)) : Prop where
  inv : InvR p s'
  loc : RunLoc s' m
  frame : Frame s s' (m + 1)
  running : ∀ i, (s'.get i).running = (s.get i).running
  subs : (s'.get m).subs = (s.get m).subs
  ver : (s'.get m).ver = (s.get m).ver
  seen : (s'.get m).seen = (s.get m).seen ++ L
  valCh : ValCh s s'
  obs : s'.obs = s.obs
  runRel : RunRel s s'
  ss : SrcStatic p s → SrcStatic p s'
  gf : GFI p s s'
  cr : CRI p s s'

theorem EvalPost.refl {p : Prog} {s : State} {m : Nat} (h : InvR p s) (hl : RunLoc s m) :
    EvalPost p s s m [] :=
  ⟨h, hl, Frame.refl s _, fun _ => rfl, rfl, rfl, by simp, ValCh.of_val_eq (fun _ => rfl), rfl,
   RunRel.of_eq (fun _ => rfl), fun h => h, GFI.refl p s, CRI.refl p s⟩

theorem EvalPost.trans {p : Prog} {s s1 s2 : State} {m : Nat} {L1 L2}
    (h1 : EvalPost p s s1 m L1) (h2 : EvalPost p s1 s2 m L2) : EvalPost p s s2 m (L1 ++ L2) :=
  ⟨h2.inv, h2.loc, h1.frame.trans h2.frame, fun i => (h2.running i).trans (h1.running i),
   h2.subs.trans h1.subs, h2.ver.trans h1.ver, by rw [h2.seen, h1.seen, List.append_assoc],
   h1.valCh.trans h2.valCh h1.frame h2.frame h1.obs, h2.obs.trans h1.obs,
   h1.runRel.trans h2.runRel (fun i hi => (h1.frame.clean i hi).1) (fun i hi => (h2.frame.clean i hi).1),
   fun h => h2.ss (h1.ss h), h1.gf.trans h2.gf, h1.cr.trans h2.cr⟩

/-- appending a ghost `seen` entry to the running node -/
theorem appendSeen_inv {p : Prog} {s : State} {m : Nat} (h : InvR p s) (hm : m < s.nodes.length)
    (hr : (s.get m).kind = .memo → (s.get m).running = true) (e : Nat × Int × Nat)
    (he : e.2.2 ≤ (s.get e.1).ver) (ev : Ev) :
    InvR p ((s.upd m fun n => { n with seen := n.seen ++ [e] }).emit ev) := by
  generalize hs' : ((s.upd m fun n => { n with seen := n.seen ++ [e] }).emit ev) = s'
  have gm : s'.get m = { s.get m with seen := (s.get m).seen ++ [e] } := by
    subst hs'; rw [State.emit_get, State.get_upd_same _ _ hm]
  have go : ∀ i, i ≠ m → s'.get i = s.get i := by
    intro i hi; subst hs'; rw [State.emit_get, State.get_upd_ne _ _ (Ne.symm hi)]
  have hlen : s'.nodes.length = s.nodes.length := by subst hs'; simp
  have hobs : s'.obs = s.obs := by subst hs'; rfl
  have kE : ∀ i, (s'.get i).kind = (s.get i).kind := by
    intro i; by_cases hi : i = m
    · subst hi; rw [gm]
    · rw [go i hi]
  have stE : ∀ i, (s'.get i).st = (s.get i).st := by
    intro i; by_cases hi : i = m
    · subst hi; rw [gm]
    · rw [go i hi]
  have valE : ∀ i, (s'.get i).val = (s.get i).val := by
    intro i; by_cases hi : i = m
    · subst hi; rw [gm]
    · rw [go i hi]
  have runE : ∀ i, (s'.get i).running = (s.get i).running := by
    intro i; by_cases hi : i = m
    · subst hi; rw [gm]
    · rw [go i hi]
  have subsE : ∀ i, (s'.get i).subs = (s.get i).subs := by
    intro i; by_cases hi : i = m
    · subst hi; rw [gm]
    · rw [go i hi]
  have srcE : ∀ i, (s'.get i).sources = (s.get i).sources := by
    intro i; by_cases hi : i = m
    · subst hi; rw [gm]
    · rw [go i hi]
  have verE : ∀ i, (s'.get i).ver = (s.get i).ver := by
    intro i; by_cases hi : i = m
    · subst hi; rw [gm]
    · rw [go i hi]
  have runsE : ∀ i, (s'.get i).runs = (s.get i).runs := by
    intro i; by_cases hi : i = m
    · subst hi; rw [gm]
    · rw [go i hi]
  have nr : ∀ i, (s'.get i).kind = .memo → (s'.get i).running = false → i ≠ m := by
    intro i hk hi e; subst e; rw [kE] at hk; rw [runE, hr hk] at hi; cases hi
  constructor
  · exact hlen.trans h.len
  · intro i d hd; rw [kE]; exact h.kind i d hd
  · intro i hi hk; rw [kE] at hk; rw [stE, runE, valE]; exact h.sigOk i hi hk
  · intro o ho; rw [hobs] at ho; rw [runE]; exact h.obsRun o ho
  · intro a w; rw [subsE, srcE]; exact h.edge a w
  · intro a; rw [subsE]; exact h.nodup a
  · intro w a ha; rw [srcE] at ha; exact h.srcLt w a ha
  · intro r hk hrr; rw [kE] at hk; rw [runE] at hrr; rw [stE]; exact h.runNC r hk hrr
  · intro a w hka hsa hw hkw
    rw [kE] at hka hkw; rw [stE] at hsa ⊢; rw [subsE] at hw
    exact h.closed a w hka hsa hw hkw
  · intro i hk hri
    have him := nr i hk hri
    rw [go i him] at hk hri ⊢; exact h.srcSeen i hk hri
  · intro i hk hri hv
    have him := nr i hk hri
    rw [go i him] at hk hri hv ⊢; exact h.valNone i hk hri hv
  · intro i hk hri hst
    have him := nr i hk hri
    have g := go i him
    rw [g] at hk hri hst; exact (h.replay i hk hri hst).congr (by rw [g]) (by rw [g])
  · intro i hk hri hst e' he'
    have him := nr i hk hri
    rw [go i him] at hk hri hst he'
    rw [runE, valE]; exact h.srcVal i hk hri hst e' he'
  · intro i hk hri hst hruns
    have him := nr i hk hri
    rw [go i him] at hk hri hst hruns
    obtain ⟨e', he', hne⟩ := h.verDirty i hk hri hst hruns
    exact ⟨e', by rw [go i him]; exact he', by rw [verE]; exact hne⟩
  · intro w e' he'
    rw [verE]
    by_cases hw : w = m
    · subst hw
      rw [gm] at he'
      simp only [List.mem_append, List.mem_singleton] at he'
      rcases he' with he' | rfl
      · exact h.verLe w e' he'
      · exact he
    · rw [go w hw] at he'; exact h.verLe w e' he'
  · intro w a ha; rw [srcE] at ha; rw [kE]; exact h.srcData w a ha

/-- a clean data node holds a value -/
theorem InvR.clean_val {p : Prog} {s : State} (h : InvR p s) {x : Nat} (hx : x < p.length)
    (hk : (s.get x).kind ≠ .eff) (hc : (s.get x).st = .clean) : ∃ v, (s.get x).val = some v := by
  cases hkx : (s.get x).kind with
  | eff => exact absurd hkx hk
  | sig => exact (h.sigOk x hx hkx).2.2
  | memo =>
    have hnr : (s.get x).running = false := by
      cases hr : (s.get x).running with
      | false => rfl
      | true => exact absurd hc (h.runNC x hkx hr)
    cases hv : (s.get x).val with
    | some v => exact ⟨v, rfl⟩
    | none =>
      have := h.valNone x hkx hnr hv
      rw [hc] at this; cases this

structure ReadPost (p : Prog) (s s2 : State) (m x : Nat) (v : Int) : Prop where
  inv : InvR p s2
  frame : Frame s s2 (m + 1)
  obs : s2.obs = s.obs
  running : ∀ i, (s2.get i).running = (s.get i).running
  kind_m : (s2.get m).kind = (s.get m).kind
  sources_m : (s2.get m).sources = (s.get m).sources ++ [x]
  seen_m : (s2.get m).seen = (s.get m).seen
  subs_m : (s2.get m).subs = (s.get m).subs
  ver_m : (s2.get m).ver = (s.get m).ver
  clean_x : (s2.get x).st = .clean
  val_x : (s2.get x).val = some v
  valCh : ValCh s s2
  runRel : RunRel s s2
  ss : SrcStatic p s → SrcStatic p s2
  gf : GFI p s s2
  cr : CRI p s s2

theorem readNode_spec {p : Prog} {u : State → Nat → State × Bool} {f : Nat} (hu : UpdOK p u f)
    {m : Nat} (hmf : m ≤ f) {s : State} (h : InvR p s) (hl : RunLoc s m) {x : Nat} (hx : x < m)
    (hkx : (s.get x).kind ≠ .eff) (hrx : (bodyOf p m).readsNode x = true) :
    ReadPost p s (readNode u s x).1 m x (readNode u s x).2 := by
  have hm : m < s.nodes.length := s.lt_of_running hl.running
  have hxm : x ≠ m := Nat.ne_of_lt hx
  have t := track_post hl.obs hm hx
  have h1 := track_inv h t hx (fun _ => hl.running) hkx
  have f1 := track_frame t hx hl.kind hkx
  have hxp : x < p.length := by rw [← h.len]; omega
  have hss1 : SrcStatic p s → SrcStatic p (track s x) := by
    intro hs w y hy
    by_cases hw : w = m
    · subst hw
      rw [t.sources_m, List.mem_append, List.mem_singleton] at hy
      rcases hy with hy | rfl
      · exact hs w y hy
      · exact hrx
    · rw [t.sources hxm w hw] at hy; exact hs w y hy
  unfold readNode
  generalize track s x = s1 at t h1 f1 hss1
  simp only
  have hk1 : (s1.get x).kind = (s.get x).kind := t.kind x
  have hxnr : (s1.get x).running = false := by
    rw [t.running]
    cases hr : (s.get x).running with
    | false => rfl
    | true => have := hl.lowest x hr; omega
  cases hk : (s1.get x).kind with
  | eff => rw [hk1] at hk; exact absurd hk hkx
  | sig =>
    simp only
    have hs := h1.sigOk x hxp hk
    obtain ⟨v, hv⟩ := hs.2.2
    exact ⟨h1, f1, t.obs, t.running, t.kind m, t.sources_m, t.seen m, t.subs hxm m (Ne.symm hxm), t.ver m,
      hs.1, by rw [hv]; rfl, ValCh.of_val_eq t.val, RunRel.of_eq t.runs, hss1, GFI.of_eq t.log t.val,
      CRI.of_same t.log t.seen t.ver t.runs⟩
  | memo =>
    simp only
    have hp := hu s1 x h1 (by omega) hxnr (by
      intro r hr
      rw [t.running] at hr
      have := hl.lowest r hr; omega)
    generalize u s1 x = r at hp
    obtain ⟨s2, ch⟩ := r
    simp only
    have hc := hp.clean hk
    have ab := (hp.frame.above m (by omega)).1
    have cf := Node.core_fields ab
    obtain ⟨v, hv⟩ := hp.inv.clean_val hxp (by rw [hp.frame.kind, hk]; simp) hc
    refine ⟨hp.inv, f1.trans (hp.frame.mono (by omega)), hp.obs.trans t.obs,
      fun i => (hp.running i).trans (t.running i), cf.1.trans (t.kind m), ?_, ?_, ?_, ?_, hc, ?_,
      (ValCh.of_val_eq t.val).trans hp.valCh f1 (hp.frame.mono (by omega)) t.obs,
      (RunRel.of_eq t.runs).trans hp.runRel (fun i hi => by rw [t.st]; exact hi)
        (fun i hi => (hp.frame.clean i hi).1), fun h => hp.ss (hss1 h),
      (GFI.of_eq t.log t.val).trans hp.gf, (CRI.of_same t.log t.seen t.ver t.runs).trans hp.cr⟩
    · exact cf.2.2.1.trans t.sources_m
    · exact cf.2.2.2.2.2.2.1.trans (t.seen m)
    · exact cf.2.2.2.1.trans (t.subs hxm m (Ne.symm hxm))
    · exact cf.2.2.2.2.2.2.2.1.trans (t.ver m)
    · show (s2.get x).val = some ((s2.get x).val.getD 0)
      rw [hv]; rfl

theorem rd_evalPost {p : Prog} {s s2 : State} {m x : Nat} {v : Int} (hl : RunLoc s m)
    (hx : x < m) (rp : ReadPost p s s2 m x v) (ev : Ev) (hev : ∀ i, ev ≠ .unjust i)
    (hev' : ∀ i, ev ≠ .ran i)
    (hg : WF p = true → MemoTracked p → GlitchFree p (envOf s2) [ev] (envOf s2))
    (hcr : ChgRel p s2 ((s2.upd m fun n => { n with seen := n.seen ++ [(x, v, (s2.get x).ver)] }).emit ev)) :
    EvalPost p s ((s2.upd m fun n => { n with seen := n.seen ++ [(x, v, (s2.get x).ver)] }).emit ev) m
      [(x, v, (s2.get x).ver)] := by
  have hr2 : (s2.get m).running = true := by rw [rp.running]; exact hl.running
  have hm : m < s2.nodes.length := s2.lt_of_running hr2
  have hxm : x ≠ m := Nat.ne_of_lt hx
  have hinv := appendSeen_inv rp.inv hm (fun _ => hr2) (x, v, (s2.get x).ver) (Nat.le_refl _) ev
  generalize hs' : ((s2.upd m fun n => { n with seen := n.seen ++ [(x, v, (s2.get x).ver)] }).emit ev) = s' at hinv hcr
  have gm : s'.get m = { s2.get m with seen := (s2.get m).seen ++ [(x, v, (s2.get x).ver)] } := by
    subst hs'; rw [State.emit_get, State.get_upd_same _ _ hm]
  have go : ∀ i, i ≠ m → s'.get i = s2.get i := by
    intro i hi; subst hs'; rw [State.emit_get, State.get_upd_ne _ _ (Ne.symm hi)]
  have hlen : s'.nodes.length = s2.nodes.length := by subst hs'; simp
  have hobs : s'.obs = s2.obs := by subst hs'; rfl
  have hlog : s'.log = s2.log ++ [ev] := by subst hs'; rfl
  have kE : ∀ i, (s'.get i).kind = (s2.get i).kind := by
    intro i; by_cases hi : i = m
    · subst hi; rw [gm]
    · rw [go i hi]
  have stE : ∀ i, (s'.get i).st = (s2.get i).st := by
    intro i; by_cases hi : i = m
    · subst hi; rw [gm]
    · rw [go i hi]
  have valE : ∀ i, (s'.get i).val = (s2.get i).val := by
    intro i; by_cases hi : i = m
    · subst hi; rw [gm]
    · rw [go i hi]
  have runE : ∀ i, (s'.get i).running = (s2.get i).running := by
    intro i; by_cases hi : i = m
    · subst hi; rw [gm]
    · rw [go i hi]
  have verE : ∀ i, (s'.get i).ver = (s2.get i).ver := by
    intro i; by_cases hi : i = m
    · subst hi; rw [gm]
    · rw [go i hi]
  have f2 : Frame s2 s' (m + 1) := by
    refine ⟨hlen, kE, fun i hi => ⟨by rw [stE]; exact hi, valE i⟩, fun i => by rw [verE]; exact Nat.le_refl _,
      fun i _ => verE i, fun i hi => ?_, ?_, ?_, ?_, ?_, ?_, ?_⟩
    · rw [go i (by omega)]; exact ⟨rfl, .inl rfl⟩
    · intro hl2 i hi
      rw [hlog, List.mem_append, List.mem_singleton] at hi
      rcases hi with hi | hi
      · exact hl2 i hi
      · exact hev i hi.symm
    · intro i hk
      have him : i ≠ m := by
        intro e; subst e; rw [rp.kind_m, hl.kind] at hk; cases hk
      rw [go i him]
    · intro i hk hd
      have him : i ≠ m := by
        intro e; subst e; rw [rp.kind_m, hl.kind] at hk; cases hk
      rw [go i him] at hd; exact .inl hd
    · apply FlagRel.of_same
      intro i
      by_cases hi : i = m
      · subst hi; rw [gm]; exact ⟨rfl, rfl, rfl⟩
      · rw [go i hi]; exact ⟨rfl, rfl, rfl⟩
    · exact ⟨[ev], hlog, fun e he i hi => by
        rw [List.mem_singleton.1 he] at hi; exact absurd hi (hev' i)⟩
    · refine RunsX.of_quiet ⟨[ev], hlog, fun e he => by
        rw [List.mem_singleton.1 he]; exact ⟨hev, hev'⟩⟩ (fun i => ?_)
      by_cases hi : i = m
      · subst hi; rw [gm]
      · rw [go i hi]
  refine ⟨hinv, ?_, rp.frame.trans f2, fun i => (runE i).trans (rp.running i), ?_, ?_, ?_,
    rp.valCh.trans (ValCh.of_val_eq valE) rp.frame f2 rp.obs, hobs.trans rp.obs,
    rp.runRel.trans (RunRel.of_eq (fun i => by
      by_cases hi : i = m
      · subst hi; rw [gm]
      · rw [go i hi])) (fun i hi => (rp.frame.clean i hi).1) (fun i hi => by rw [stE]; exact hi),
    fun h => (rp.ss h).mono (fun w y hy => by
      by_cases hw : w = m
      · subst hw; rw [gm] at hy; exact hy
      · rw [go w hw] at hy; exact hy),
    fun hwf htr => (rp.gf hwf htr).trans ⟨[ev], hlog, by
      have := (hg hwf htr).append (.nil (SigEq.of_val (s := s2) (s' := s') (fun i _ _ => valE i)))
      simpa using this⟩, rp.cr.trans (fun _ => hcr)⟩
  · refine ⟨hobs.trans (rp.obs.trans hl.obs), (kE m).trans (rp.kind_m.trans hl.kind), by rw [runE]; exact hr2,
      ?_, ?_, ?_⟩
    · intro r hr; rw [runE, rp.running] at hr; exact hl.lowest r hr
    · rw [gm]
      show (s2.get m).sources = ((s2.get m).seen ++ [(x, v, (s2.get x).ver)]).map (·.1)
      rw [rp.sources_m, rp.seen_m, hl.srcSeen]; simp
    · intro e he
      rw [gm] at he
      simp only [List.mem_append, List.mem_singleton] at he
      rw [stE, valE]
      rcases he with he | rfl
      · rw [rp.seen_m] at he
        have := hl.seenOk e he
        have c := rp.frame.clean e.1 this.1
        exact ⟨c.1, c.2.trans this.2⟩
      · exact ⟨rp.clean_x, rp.val_x⟩
  · rw [gm]; exact rp.subs_m
  · rw [verE]; exact rp.ver_m
  · rw [gm]; show (s2.get m).seen ++ _ = _; rw [rp.seen_m]

/-- two states with the same nodes and log are related by every frame -/
theorem Frame.of_nodes {s s' : State} (k : Nat) (hn : s'.nodes = s.nodes) (hl : s'.log = s.log) :
    Frame s s' k := by
  have g : ∀ i, s'.get i = s.get i := by intro i; simp only [State.get, hn]
  refine ⟨by rw [hn], fun i => by rw [g], fun i hi => by rw [g]; exact ⟨hi, rfl⟩,
    fun i => by rw [g]; exact Nat.le_refl _, fun i _ => by rw [g], fun i _ => by rw [g]; exact ⟨rfl, .inl rfl⟩,
    fun h i => by rw [hl]; exact h i, fun i _ => by rw [g], fun i _ hd => .inl (by rw [← g]; exact hd),
    FlagRel.of_same (fun i => by rw [g]; exact ⟨rfl, rfl, rfl⟩), LogExt.of_eq hl,
    RunsX.of_quiet (LogExt.of_eq hl) (fun i => by rw [g])⟩

/-- an untracked read (`untrack(..)`) inside the body of the running memo `m` -/
theorem rdU_evalPost {p : Prog} {u : State → Nat → State × Bool} {f : Nat} (hu : UpdOK p u f)
    {m : Nat} (hmf : m ≤ f) {s : State} (h : InvR p s) (hl : RunLoc s m) {x : Nat} (hx : x < m)
    (hkx : (s.get x).kind ≠ .eff) :
    EvalPost p s ({ (readNode u { s with obs := none } x).1 with obs := s.obs }) m [] := by
  have hm : m < s.nodes.length := s.lt_of_running hl.running
  have hxnr : (s.get x).running = false := by
    cases hr : (s.get x).running with
    | false => rfl
    | true => have := hl.lowest x hr; omega
  have h' : InvR p ({ s with obs := none } : State) := h.reobs rfl (fun o ho => by cases ho)
  have key : ∃ s2 v ch, readNode u { s with obs := none } x = (s2, v) ∧
      UpdPost p ({ s with obs := none } : State) x (s2, ch) := by
    unfold readNode
    have ht : track ({ s with obs := none } : State) x = { s with obs := none } := rfl
    rw [ht]
    simp only
    cases hk : (({ s with obs := none } : State).get x).kind with
    | eff => exact absurd hk hkx
    | sig => exact ⟨_, _, false, rfl, UpdPost.refl h' (fun hk' => by rw [hk] at hk'; cases hk')⟩
    | memo =>
      simp only
      have hp := hu ({ s with obs := none } : State) x h' (by omega) hxnr
        (fun r hr => by have := hl.lowest r hr; omega)
      generalize u ({ s with obs := none } : State) x = r at hp
      obtain ⟨s2, ch⟩ := r
      exact ⟨s2, _, ch, rfl, hp⟩
  obtain ⟨s2, v, ch, hrd, up⟩ := key
  rw [hrd]
  simp only
  have hrun2 : (s2.get m).running = true := by rw [up.running]; exact hl.running
  have inv3 : InvR p ({ s2 with obs := s.obs } : State) :=
    up.inv.reobs rfl (fun o ho => by
      rw [hl.obs] at ho
      have : o = m := (Option.some.inj ho).symm
      subst this; exact hrun2)
  have fr : Frame s ({ s2 with obs := s.obs } : State) (m + 1) :=
    ((Frame.of_nodes (m + 1) rfl rfl : Frame s ({ s with obs := none } : State) (m + 1)).trans
      (up.frame.mono (by omega))).trans (Frame.of_nodes (m + 1) rfl rfl)
  have cf := Node.core_fields (up.frame.above m (by omega)).1
  have cfk : (s2.get m).kind = (s.get m).kind := cf.1
  have cfsrc : (s2.get m).sources = (s.get m).sources := cf.2.2.1
  have cfsubs : (s2.get m).subs = (s.get m).subs := cf.2.2.2.1
  have cfseen : (s2.get m).seen = (s.get m).seen := cf.2.2.2.2.2.2.1
  have cfver : (s2.get m).ver = (s.get m).ver := cf.2.2.2.2.2.2.2.1
  have hrunE : ∀ i, (s2.get i).running = (s.get i).running := up.running
  have hclean : ∀ i, (s.get i).st = .clean → (s2.get i).st = .clean ∧ (s2.get i).val = (s.get i).val :=
    up.frame.clean
  refine ⟨inv3, ⟨hl.obs, cfk.trans hl.kind, hrun2, ?_, ?_, ?_⟩, fr, hrunE, cfsubs,
    cfver, by rw [List.append_nil]; exact cfseen, ?_, rfl, up.runRel, up.ss,
    fun hwf htr => ((StateGF.of_eq rfl (SigEq.refl _ _) : StateGF p s ({ s with obs := none } : State)).trans
      (up.gf hwf htr)).trans (StateGF.of_eq rfl (SigEq.refl _ _)),
    ((CRI.of_nodes rfl rfl : CRI p s ({ s with obs := none } : State)).trans up.cr).trans (CRI.of_nodes rfl rfl)⟩
  · intro r hr; exact hl.lowest r (by rw [← hrunE]; exact hr)
  · show (s2.get m).sources = (s2.get m).seen.map (·.1)
    rw [cfsrc, cfseen]; exact hl.srcSeen
  · intro e he
    have he' : e ∈ (s.get m).seen := by rw [← cfseen]; exact he
    have := hl.seenOk e he'
    have c := hclean e.1 this.1
    exact ⟨c.1, c.2.trans this.2⟩
  · intro i hk y hy hne
    rcases up.valCh i hk y hy hne with h1 | h1 | h1
    · exact .inl h1
    · cases h1
    · exact .inr (.inr h1)

theorem evalE_spec {p : Prog} {u : State → Nat → State × Bool} {f : Nat} (hu : UpdOK p u f)
    (wrN : State → Nat → Int → State) {m : Nat} (hmf : m ≤ f) :
    ∀ (e : Expr) (s : State), InvR p s → RunLoc s m → e.readsBelow m = true → e.noWrite = true →
      e.readsData p = true → (∀ y, e.readsNode y = true → (bodyOf p m).readsNode y = true) →
      ∃ (L : List (Nat × Int × Nat)) (U : List Int), EvalPost p s (evalE (readNode u) wrN m e s).1 m L ∧
        ∀ ρ : Nat → Int, (∀ x ∈ L, ρ x.1 = x.2.1) → ∀ rest,
          evalSnap ρ e (U ++ rest) = ((evalE (readNode u) wrN m e s).2, rest)
  | .lit n, s, h, hl, _, _, _, _ => ⟨[], [], EvalPost.refl h hl, fun _ _ _ => rfl⟩
  | .rd tracked x, s, h, hl, hb, _, hd, hs => by
    simp only [Expr.readsBelow, decide_eq_true_eq] at hb
    have hkx : (s.get x).kind ≠ .eff := by
      simp only [Expr.readsData] at hd
      cases hpx : p[x]? with
      | none => rw [hpx] at hd; cases hd
      | some d =>
        rw [h.kind x d hpx]
        cases d <;> simp_all [kindOf]
    cases tracked with
    | true =>
      have rp := readNode_spec hu hmf h hl hb hkx (hs x (by simp [Expr.readsNode]))
      simp only [evalE, if_true]
      generalize readNode u s x = r at rp
      obtain ⟨s2, v⟩ := r
      have hxp : x < p.length := by
        have := s.lt_of_running hl.running
        rw [← h.len]; omega
      have hg : WF p = true → MemoTracked p → GlitchFree p (envOf s2) [.rdv m x v] (envOf s2) := by
        intro hwf htr
        have hc := rp.inv.clean_correct hwf htr x hxp (by rw [rp.frame.kind]; exact hkx) rp.clean_x
        rw [rp.val_x] at hc
        exact .rdv (Option.some.inj hc).symm (.nil (SigEq.refl _ _))
      have hm2 : m < s2.nodes.length := s2.lt_of_running (by rw [rp.running]; exact hl.running)
      have hcr : ChgRel p s2
          ((s2.upd m fun n => { n with seen := n.seen ++ [(x, v, (s2.get x).ver)] }).emit (.rdv m x v)) := by
        refine ChgRel.of_rdv (w := m) (x := x) (v := v) rfl ?_ ?_ ?_ ?_
        · rw [State.emit_get, State.get_upd_same _ _ hm2]
        · intro i hi; rw [State.emit_get, State.get_upd_ne _ _ (Ne.symm hi)]
        · intro i; rw [State.emit_get, State.get_upd]; split <;> rfl
        · intro i; rw [State.emit_get, State.get_upd]; split <;> rfl
      exact ⟨_, [], rd_evalPost hl hb rp (.rdv m x v) (by intro i; simp) (by intro i; simp) hg hcr, fun ρ hρ rest => by
        have := hρ _ List.mem_cons_self
        simp only [evalSnap, List.nil_append]
        rw [this]⟩
    | false =>
      have ep := rdU_evalPost hu hmf h hl hb hkx
      simp only [evalE, Bool.false_eq_true, if_false]
      generalize readNode u { s with obs := none } x = r at ep
      obtain ⟨s2, v⟩ := r
      exact ⟨[], [v], ep, fun _ _ rest => rfl⟩
  | .add a b, s, h, hl, hb, hw, hd, hs => by
    simp only [Expr.readsBelow, Expr.noWrite, Expr.readsData, Bool.and_eq_true] at hb hw hd
    obtain ⟨L1, U1, p1, e1⟩ := evalE_spec hu wrN hmf a s h hl hb.1 hw.1 hd.1
      (fun y hy => hs y (by simp [Expr.readsNode, hy]))
    simp only [evalE]
    generalize evalE (readNode u) wrN m a s = r1 at p1 e1
    obtain ⟨s1, v1⟩ := r1
    obtain ⟨L2, U2, p2, e2⟩ := evalE_spec hu wrN hmf b s1 p1.inv p1.loc hb.2 hw.2 hd.2
      (fun y hy => hs y (by simp [Expr.readsNode, hy]))
    generalize evalE (readNode u) wrN m b s1 = r2 at p2 e2
    obtain ⟨s2, v2⟩ := r2
    refine ⟨L1 ++ L2, U1 ++ U2, p1.trans p2, fun ρ hρ rest => ?_⟩
    simp only [evalSnap, List.append_assoc]
    rw [e1 ρ (fun x hx => hρ x (List.mem_append_left _ hx)) (U2 ++ rest)]
    simp only
    rw [e2 ρ (fun x hx => hρ x (List.mem_append_right _ hx)) rest]
  | .mulc k a, s, h, hl, hb, hw, hd, hs => by
    simp only [Expr.readsBelow, Expr.noWrite, Expr.readsData] at hb hw hd
    obtain ⟨L1, U1, p1, e1⟩ := evalE_spec hu wrN hmf a s h hl hb hw hd
      (fun y hy => hs y (by simp [Expr.readsNode, hy]))
    simp only [evalE]
    generalize evalE (readNode u) wrN m a s = r1 at p1 e1
    obtain ⟨s1, v1⟩ := r1
    refine ⟨L1, U1, p1, fun ρ hρ rest => ?_⟩
    simp only [evalSnap]
    rw [e1 ρ hρ rest]
  | .ite c t e, s, h, hl, hb, hw, hd, hs => by
    simp only [Expr.readsBelow, Expr.noWrite, Expr.readsData, Bool.and_eq_true] at hb hw hd
    obtain ⟨L1, U1, p1, e1⟩ := evalE_spec hu wrN hmf c s h hl hb.1.1 hw.1.1 hd.1.1
      (fun y hy => hs y (by simp [Expr.readsNode, hy]))
    simp only [evalE]
    generalize evalE (readNode u) wrN m c s = r1 at p1 e1
    obtain ⟨s1, v1⟩ := r1
    simp only
    by_cases hv : (v1 != 0) = true
    · simp only [hv, if_true]
      obtain ⟨L2, U2, p2, e2⟩ := evalE_spec hu wrN hmf t s1 p1.inv p1.loc hb.1.2 hw.1.2 hd.1.2
        (fun y hy => hs y (by simp [Expr.readsNode, hy]))
      refine ⟨L1 ++ L2, U1 ++ U2, p1.trans p2, fun ρ hρ rest => ?_⟩
      simp only [evalSnap, List.append_assoc]
      rw [e1 ρ (fun x hx => hρ x (List.mem_append_left _ hx)) (U2 ++ rest)]
      simp only [hv, if_true]
      exact e2 ρ (fun x hx => hρ x (List.mem_append_right _ hx)) rest
    · simp only [hv]
      obtain ⟨L2, U2, p2, e2⟩ := evalE_spec hu wrN hmf e s1 p1.inv p1.loc hb.2 hw.2 hd.2
        (fun y hy => hs y (by simp [Expr.readsNode, hy]))
      refine ⟨L1 ++ L2, U1 ++ U2, p1.trans p2, fun ρ hρ rest => ?_⟩
      simp only [evalSnap, List.append_assoc]
      rw [e1 ρ (fun x hx => hρ x (List.mem_append_left _ hx)) (U2 ++ rest)]
      simp only [hv]
      exact e2 ρ (fun x hx => hρ x (List.mem_append_right _ hx)) rest
  | .seq a b, s, h, hl, hb, hw, hd, hs => by
    simp only [Expr.readsBelow, Expr.noWrite, Expr.readsData, Bool.and_eq_true] at hb hw hd
    obtain ⟨L1, U1, p1, e1⟩ := evalE_spec hu wrN hmf a s h hl hb.1 hw.1 hd.1
      (fun y hy => hs y (by simp [Expr.readsNode, hy]))
    simp only [evalE]
    generalize evalE (readNode u) wrN m a s = r1 at p1 e1
    obtain ⟨s1, v1⟩ := r1
    obtain ⟨L2, U2, p2, e2⟩ := evalE_spec hu wrN hmf b s1 p1.inv p1.loc hb.2 hw.2 hd.2
      (fun y hy => hs y (by simp [Expr.readsNode, hy]))
    refine ⟨L1 ++ L2, U1 ++ U2, p1.trans p2, fun ρ hρ rest => ?_⟩
    simp only [evalSnap, List.append_assoc]
    rw [e1 ρ (fun x hx => hρ x (List.mem_append_left _ hx)) (U2 ++ rest)]
    exact e2 ρ (fun x hx => hρ x (List.mem_append_right _ hx)) rest
  | .wr _ _, _, _, _, _, hw, _, _ => by simp [Expr.noWrite] at hw

end Leptos.Reactive
