import LeptosModel.Proofs.HydrateState
import LeptosModel.Proofs.HydrateLoad
/-! Helper lemmas for C05, part 5: the DOM a browser builds from the SSR string of a view without
empty strings shows — comments aside — what a client-side `build` + `mount` of the same view shows
(`render`, C03): same elements, same attributes in the same order (plain attributes with distinct
names), same text.  Tree level; hydration itself does not touch the DOM. -/
namespace Leptos.Hydrate
open Leptos.Dom Leptos.View

def plainAttr : AttrVal → Bool
  | .str _ _ => true
  | .ostr _ _ => true
  | .bool _ _ => true
  | _ => false

/-- only `Attr<K, String | Option<String> | bool>` items -/
def PlainAttrs (as : List AttrVal) : Prop := as.all plainAttr = true

instance (as : List AttrVal) : Decidable (PlainAttrs as) := by unfold PlainAttrs; infer_instance

mutual
def plainV : View → Bool
  | .elem _ as c => as.all plainAttr && plainV c
  | .tuple vs => plainL vs
  | .osome v => plainV v
  | .either _ _ v => plainV v
  | .vec vs => plainL vs
  | .any _ v => plainV v
  | _ => true
def plainL : List View → Bool
  | [] => true
  | v :: vs => plainV v && plainL vs
end

/-- the attribute list plain attribute values denote -/
def plainPairs : List AttrVal → List (String × String)
  | [] => []
  | .str n v :: r => (n, v) :: plainPairs r
  | .ostr n (some v) :: r => (n, v) :: plainPairs r
  | .bool n true :: r => (n, "") :: plainPairs r
  | _ :: r => plainPairs r

theorem toDomTrees_append : ∀ (a b : List HTree), toDomTrees (a ++ b) = toDomTrees a ++ toDomTrees b
  | [], _ => rfl
  | t :: a, b => by simp [toDomTrees, toDomTrees_append a b]

theorem classBuf_plain : ∀ (as : List AttrVal), as.all plainAttr = true → Html.classBuf (attrsOf as) = [] ∧
    Html.styleBuf (attrsOf as) = [] ∧
    (Html.plainFlat (attrsOf as)).map (fun a => (String.ofList a.1, String.ofList a.2)) = plainPairs as
  | [], _ => by simp [attrsOf, Html.classBuf, Html.styleBuf, Html.plainFlat, plainPairs]
  | a :: as, h => by
    simp only [List.all_cons, Bool.and_eq_true] at h
    obtain ⟨h1, h2, h3⟩ := classBuf_plain as h.2
    cases a with
    | str n v => simp [attrsOf, attrOf, Html.classBuf, Html.styleBuf, Html.plainFlat, plainPairs, h1, h2, h3]
    | ostr n v =>
      cases v <;> simp [attrsOf, attrOf, Html.classBuf, Html.styleBuf, Html.plainFlat, plainPairs, h1, h2, h3]
    | bool n b =>
      cases b <;> simp [attrsOf, attrOf, Html.classBuf, Html.styleBuf, Html.plainFlat, plainPairs, h1, h2, h3]
    | _ => simp [plainAttr] at h

theorem expected_plain (as : List AttrVal) (h : as.all plainAttr = true) :
    (Html.expectedAttrs (attrsOf as)).map (fun a => (String.ofList a.1, String.ofList a.2)) = plainPairs as := by
  obtain ⟨h1, h2, h3⟩ := classBuf_plain as h
  simp [Html.expectedAttrs, h1, h2, h3]

theorem getA_none_of_not_mem : ∀ (l : List (String × String)) (n : String), n ∉ l.map (·.1) → getA l n = none
  | [], _, _ => rfl
  | (k, w) :: l, n, h => by
    simp only [List.map_cons, List.mem_cons, not_or] at h
    have hk : ¬ k = n := fun e => h.1 e.symm
    simp [getA, hk, getA_none_of_not_mem l n h.2]

theorem set_fresh_attr (d : Dom) (el : Id) (r : NodeRec) (n v : String) (hr : d.get? el = some r)
    (hk : r.kind.isElem = true) (hn : n ∉ r.attrs.map (·.1)) :
    (d.setAttribute el n v).get? el = some { r with attrs := r.attrs ++ [(n, v)], muts := r.muts + 1 } := by
  have := Dom.get?_setAttribute d el n v r hr hk el
  simp only [if_true] at this
  rw [this, setA_new' _ _ _ (getA_none_of_not_mem _ _ hn)]

theorem buildAttrs_plain : ∀ (as : List AttrVal) (d : Dom) (el : Id) (r : NodeRec), as.all plainAttr = true →
    d.get? el = some r → r.kind.isElem = true → ((r.attrs ++ plainPairs as).map (·.1)).Nodup →
    ∃ r', (buildAttrs el as d).1.get? el = some r' ∧ r'.attrs = r.attrs ++ plainPairs as
  | [], d, el, r, _, hr, _, _ => ⟨r, hr, by simp [plainPairs]⟩
  | a :: as, d, el, r, h, hr, hk, hnd => by
    simp only [List.all_cons, Bool.and_eq_true] at h
    have step : ∀ (n v : String), plainPairs (a :: as) = (n, v) :: plainPairs as →
        (buildAttr el d a).1 = d.setAttribute el n v →
        ∃ r', (buildAttrs el (a :: as) d).1.get? el = some r' ∧ r'.attrs = r.attrs ++ plainPairs (a :: as) := by
      intro n v hpp hb
      rw [hpp] at hnd ⊢
      have hn : n ∉ r.attrs.map (·.1) := by
        intro hm
        have := List.nodup_append.mp (by simpa using hnd : (r.attrs.map (·.1) ++ (n :: (plainPairs as).map (·.1))).Nodup)
        exact this.2.2 n hm n (by simp) rfl
      have h1 := set_fresh_attr d el r n v hr hk hn
      obtain ⟨r', g1, g2⟩ := buildAttrs_plain as (d.setAttribute el n v) el _ h.2 h1 hk (by simpa using hnd)
      refine ⟨r', ?_, by rw [g2]; simp⟩
      simp only [buildAttrs]
      rw [hb]; exact g1
    have skip : plainPairs (a :: as) = plainPairs as → (buildAttr el d a).1 = d →
        ∃ r', (buildAttrs el (a :: as) d).1.get? el = some r' ∧ r'.attrs = r.attrs ++ plainPairs (a :: as) := by
      intro hpp hb
      rw [hpp] at hnd ⊢
      obtain ⟨r', g1, g2⟩ := buildAttrs_plain as d el r h.2 hr hk hnd
      refine ⟨r', ?_, g2⟩
      simp only [buildAttrs]
      rw [hb]; exact g1
    cases a with
    | str n v => exact step n v rfl rfl
    | ostr n v =>
      cases v with
      | none => exact skip rfl rfl
      | some v => exact step n v rfl rfl
    | bool n b =>
      cases b with
      | false => exact skip rfl (by simp [buildAttr])
      | true => exact step n "" rfl (by simp [buildAttr])
    | _ => simp [plainAttr] at h

theorem renderAttrs_plain (as : List AttrVal) (h : as.all plainAttr = true)
    (hnd : ((plainPairs as).map (·.1)).Nodup) : renderAttrs as = plainPairs as := by
  have hroot : (({} : Dom).createElement "x").1.get? 0 = some { kind := .elem "x", data := "" } := by
    show (({} : Dom).create _ _).1.get? 0 = _
    rw [Dom.get?_create]; rfl
  obtain ⟨r', g1, g2⟩ := buildAttrs_plain as _ 0 _ h hroot rfl (by simpa using hnd)
  simp only [renderAttrs, Dom.attrsOf, g1, g2]
  simp

theorem nodup_map_inj {α β : Type} (f : α → β) (hf : ∀ a b, f a = f b → a = b) :
    ∀ l : List α, l.Nodup → (l.map f).Nodup
  | [], _ => List.nodup_nil
  | a :: l, h => by
    simp only [List.map_cons, List.nodup_cons] at h ⊢
    refine ⟨?_, nodup_map_inj f hf l h.2⟩
    intro hm
    obtain ⟨b, hb, e⟩ := List.mem_map.mp hm
    have : b = a := hf _ _ e
    exact h.1 (this ▸ hb)

theorem map_fst_ofList_nodup (l : List (Str × Str)) (h : (l.map (·.1)).Nodup) :
    ((l.map (fun a => (String.ofList a.1, String.ofList a.2))).map (·.1)).Nodup := by
  have : (l.map (fun a => (String.ofList a.1, String.ofList a.2))).map (·.1) = (l.map (·.1)).map String.ofList := by
    simp [List.map_map, Function.comp_def]
  rw [this]
  exact nodup_map_inj String.ofList (fun a b e => ofList_inj e) _ h

/-- for plain attributes with distinct names, the attributes the parser reads from the SSR string are
the attributes a client-side build sets, in the same order -/
theorem attrs_like_csr (as : List AttrVal) (h : as.all plainAttr = true) (hok : Html.attrsOK (attrsOf as) = true) :
    (Html.expectedAttrs (attrsOf as)).map (fun a => (String.ofList a.1, String.ofList a.2)) = renderAttrs as := by
  simp only [Html.attrsOK, Bool.and_eq_true, decide_eq_true_eq] at hok
  have hnd := map_fst_ofList_nodup _ hok.2
  rw [expected_plain as h] at hnd ⊢
  exact (renderAttrs_plain as h hnd).symm

/-! the initial DOM -/

theorem stripL_eq_foldr : ∀ (l : List Dom.Tree), stripL l = l.foldr stripT []
  | [] => rfl
  | t :: ts => by simp [stripL, stripL_eq_foldr ts]

theorem texts_tuple_cons (v : View) (vs : List View) : textsL (v :: vs) = texts v ++ textsL vs := rfl

mutual
theorem initial_view : (v : View) → ∀ (anc : List Str) (pos : Position) (acc : List Dom.Tree),
    wfV anc v = true → plainV v = true → "" ∉ texts v →
    (toDomTrees (dom v pos)).foldr stripT acc = (render v).foldr stripT acc
  | .text s, _, pos, acc, _, _, hne => by
    have hs : s ≠ "" := by simpa [texts] using hne
    have hl : ¬ s.toList = [] := by simpa using hs
    by_cases hp : pos = .nextChildAfterText <;>
      simp [dom, hp, textNode, hl, toDomTrees, toDomTree, render, stripT]
  | .unit, _, _, acc, _, _, _ => by simp [dom, toDomTrees, toDomTree, render, stripT]
  | .onone, _, _, acc, _, _, _ => by simp [dom, toDomTrees, toDomTree, render, stripT]
  | .osome v, anc, pos, acc, hw, hp, hne => by
    simpa [dom, render] using initial_view v anc pos acc (by simpa [wfV] using hw) (by simpa [plainV] using hp)
      (by simpa [texts] using hne)
  | .either _ _ v, anc, pos, acc, hw, hp, hne => by
    simpa [dom, render] using initial_view v anc pos acc (by simpa [wfV] using hw) (by simpa [plainV] using hp)
      (by simpa [texts] using hne)
  | .any _ v, anc, pos, acc, hw, hp, hne => by
    simpa [dom, render] using initial_view v anc pos acc (by simpa [wfV] using hw) (by simpa [plainV] using hp)
      (by simpa [texts] using hne)
  | .tuple vs, anc, pos, acc, hw, hp, hne => by
    simpa [dom, render] using initial_list vs anc pos acc (by simpa [wfV] using hw) (by simpa [plainV] using hp)
      (by simpa [texts] using hne)
  | .vec vs, anc, pos, acc, hw, hp, hne => by
    have := initial_list vs anc pos (stripT (.comment "") acc) (by simpa [wfV] using hw)
      (by simpa [plainV] using hp) (by simpa [texts] using hne)
    simpa [dom, render, toDomTrees_append, toDomTrees, toDomTree, List.foldr_append] using this
  | .elem tag as c, anc, pos, acc, hw, hp, hne => by
    simp only [wfV, Bool.and_eq_true, Bool.or_eq_true] at hw
    obtain ⟨⟨hattrs, _⟩, hcase⟩ := hw
    simp only [plainV, Bool.and_eq_true] at hp
    have hat := attrs_like_csr as hp.1 hattrs
    have hkids : stripL (toDomTrees (if isVoidT tag = true then [] else if viewExists c = true then dom c .firstChild else [])) =
        stripL (if View.isVoid tag = true then [] else render c) := by
      rw [isVoid_agree]
      by_cases hv : isVoidT tag = true
      · simp [hv, toDomTrees]
      · by_cases hex : viewExists c = true
        · rcases hcase with ⟨_, hc⟩ | ⟨hvo, _⟩
          · have := initial_view c _ .firstChild [] hc hp.2 (by simpa [texts] using hne)
            simpa [hv, hex, stripL_eq_foldr] using this
          · simp only [Html.voidOK, Bool.and_eq_true] at hvo
            exact absurd hvo.1.2 hv
        · have hc := viewExists_false (by simpa using hex)
          subst hc
          simp [hv, viewExists, toDomTrees, render, stripL, stripT]
    simp only [dom, toDomTrees, toDomTree, render, List.foldr_cons, List.foldr_nil, stripT]
    rw [hat, hkids]
    simp
theorem initial_list : (vs : List View) → ∀ (anc : List Str) (pos : Position) (acc : List Dom.Tree),
    wfL anc vs = true → plainL vs = true → "" ∉ textsL vs →
    (toDomTrees (domL vs pos)).foldr stripT acc = (renderList vs).foldr stripT acc
  | [], _, _, acc, _, _, _ => by simp [domL, toDomTrees, renderList]
  | v :: vs, anc, pos, acc, hw, hp, hne => by
    simp only [wfL, Bool.and_eq_true] at hw
    simp only [plainL, Bool.and_eq_true] at hp
    simp only [texts_tuple_cons, List.mem_append, not_or] at hne
    simp only [domL, renderList, toDomTrees_append, List.foldr_append]
    rw [initial_list vs anc _ acc hw.2 hp.2 hne.2]
    exact initial_view v anc pos _ hw.1 hp.1 hne.1
end

/-! the DOM after hydration (current code: the adopted `" "` of an empty string is reset) -/

theorem pushText_empty (acc : List Dom.Tree) : pushText "" acc = acc := by
  cases acc with
  | nil => rfl
  | cons t ts => cases t <;> rfl

mutual
theorem initialA_view : (v : View) → ∀ (anc : List Str) (pos : Position) (acc : List Dom.Tree),
    wfV anc v = true → plainV v = true →
    (domA v pos).foldr stripT acc = (render v).foldr stripT acc
  | .text s, _, pos, acc, _, _ => by
    by_cases hp : pos = .nextChildAfterText <;> simp [domA, hp, render, stripT]
  | .unit, _, _, acc, _, _ => by simp [domA, render, stripT]
  | .onone, _, _, acc, _, _ => by simp [domA, render, stripT]
  | .osome v, anc, pos, acc, hw, hp => by
    simpa [domA, render] using initialA_view v anc pos acc (by simpa [wfV] using hw) (by simpa [plainV] using hp)
  | .either _ _ v, anc, pos, acc, hw, hp => by
    simpa [domA, render] using initialA_view v anc pos acc (by simpa [wfV] using hw) (by simpa [plainV] using hp)
  | .any _ v, anc, pos, acc, hw, hp => by
    simpa [domA, render] using initialA_view v anc pos acc (by simpa [wfV] using hw) (by simpa [plainV] using hp)
  | .tuple vs, anc, pos, acc, hw, hp => by
    simpa [domA, render] using initialA_list vs anc pos acc (by simpa [wfV] using hw) (by simpa [plainV] using hp)
  | .vec vs, anc, pos, acc, hw, hp => by
    have := initialA_list vs anc pos (stripT (.comment "") acc) (by simpa [wfV] using hw)
      (by simpa [plainV] using hp)
    simpa [domA, render, List.foldr_append] using this
  | .elem tag as c, anc, pos, acc, hw, hp => by
    simp only [wfV, Bool.and_eq_true, Bool.or_eq_true] at hw
    obtain ⟨⟨hattrs, _⟩, hcase⟩ := hw
    simp only [plainV, Bool.and_eq_true] at hp
    have hat := attrs_like_csr as hp.1 hattrs
    have hkids : stripL (if isVoidT tag = true then [] else if viewExists c = true then domA c .firstChild else []) =
        stripL (if View.isVoid tag = true then [] else render c) := by
      rw [isVoid_agree]
      by_cases hv : isVoidT tag = true
      · simp [hv]
      · by_cases hex : viewExists c = true
        · rcases hcase with ⟨_, hc⟩ | ⟨hvo, _⟩
          · have := initialA_view c _ .firstChild [] hc hp.2
            simpa [hv, hex, stripL_eq_foldr] using this
          · simp only [Html.voidOK, Bool.and_eq_true] at hvo
            exact absurd hvo.1.2 hv
        · have hc := viewExists_false (by simpa using hex)
          subst hc
          simp [hv, viewExists, render, stripL, stripT]
    simp only [domA, render, List.foldr_cons, List.foldr_nil, stripT]
    rw [hat, hkids]
theorem initialA_list : (vs : List View) → ∀ (anc : List Str) (pos : Position) (acc : List Dom.Tree),
    wfL anc vs = true → plainL vs = true →
    (domAL vs pos).foldr stripT acc = (renderList vs).foldr stripT acc
  | [], _, _, acc, _, _ => by simp [domAL, renderList]
  | v :: vs, anc, pos, acc, hw, hp => by
    simp only [wfL, Bool.and_eq_true] at hw
    simp only [plainL, Bool.and_eq_true] at hp
    simp only [domAL, renderList, List.foldr_append]
    rw [initialA_list vs anc _ acc hw.2 hp.2]
    exact initialA_view v anc pos _ hw.1 hp.1
end

end Leptos.Hydrate
