import LeptosModel.Proofs.RViewMTree
import LeptosModel.Proofs.RViewMain
/-!
# Proofs/RViewMBuild — `build` over signals and memos, `Show` included
-/
namespace Leptos.RView
open Leptos.Reactive

theorem GoodAttrP.extM {K : Nat} {A : Nat → Prop} {st st' : St} (hx : ExtM K A st st') :
    ∀ {a : Attr} {s : AState}, GoodAttrP (EM K st) a s → (∀ e ∈ s.effs, ¬ A e) → GoodAttrP (EM K st') a s :=
  fun h ha => h.map (fun e _ _ he hp => hp.ext hx (ha e he))

theorem GoodAttrsP.extM {K : Nat} {A : Nat → Prop} {st st' : St} (hx : ExtM K A st st')
    {as : List Attr} {ss : List AState} (h : GoodAttrsP (EM K st) as ss)
    (ha : ∀ e ∈ ss.flatMap AState.effs, ¬ A e) : GoodAttrsP (EM K st') as ss :=
  h.map (fun e _ _ he hp => hp.ext hx (ha e he))

theorem GoodM.extM {K : Nat} {A : Nat → Prop} {st st' : St} (hx : ExtM K A st st') (v : View) (t : RState)
    (h : GoodM (EM K st) (ShowMemo K st) v t) (ha : ∀ e ∈ effsOf t, ¬ A e) :
    GoodM (EM K st') (ShowMemo K st') v t :=
  GoodM.map v t h (fun e _ _ he hp => hp.ext hx (ha e he)) (fun _ _ hq => hq.ext hx)

/-! ## bookkeeping steps -/

theorem allocM {K : Nat} {st : St} (h : RM K st) : RM K st.alloc.2 := h.of_rs_prog rfl rfl
theorem alloc_extM {K : Nat} (st : St) : ExtM K (fun _ => False) st st.alloc.2 :=
  ExtM.of_rs_prog _ (fun _ hf => hf.elim) rfl rfl (fun _ h => h)
theorem spawnM {K : Nat} {st : St} (h : RM K st) (e : Nat) : RM K (st.spawn e) := h.of_rs_prog rfl rfl
theorem spawn_extM {K : Nat} (st : St) (e : Nat) : ExtM K (fun _ => False) st (st.spawn e) :=
  ExtM.of_rs_prog _ (fun _ hf => hf.elim) rfl rfl (fun e' he' => by simp [St.spawn, he'])

/-! ## attributes -/

structure BuiltAttrM (K : Nat) (st : St) (a : Attr) (s : AState) (st' : St) : Prop where
  rm : RM K st'
  ext : ExtM K (fun _ => False) st st'
  good : GoodAttrP (EM K st') a s
  fresh : ∀ e ∈ s.effs, st.prog.length ≤ e ∧ e < st'.prog.length
  same : Same st st'

theorem sigOnly_nw {K : Nat} {x : Expr} (h : sigOnly K x = true) : x.noWrite = true := by
  simp only [sigOnly, Bool.and_eq_true] at h; exact h.1.2

theorem sigOnly_nu {K : Nat} {x : Expr} (h : sigOnly K x = true) : x.noUntracked = true := by
  simp only [sigOnly, Bool.and_eq_true] at h; exact h.2

theorem buildAttr_specM {K : Nat} {st : St} (hi : RM K st) :
    ∀ (a : Attr), a.exprOk K = true → BuiltAttrM K st a (buildAttr st a).1 (buildAttr st a).2.1
  | .stat n v, _ => ⟨hi, ExtM.refl _ _ (fun _ hf => hf.elim) _, ⟨rfl, rfl⟩, by simp [buildAttr, AState.effs], Same.refl _⟩
  | .dyn n x, hx => by
    have hs : sigOnly K x = true := by simpa [Attr.exprOk, sigOnly] using hx
    have hr : st.res x = x := st.res_eq (sigOnly_nu hs)
    have hn := newEffM_spec hi hs
    simp only [buildAttr, hr]
    refine ⟨spawnM hn.rm _, hn.ext.trans (spawn_extM _ _), ?_, ?_, ?_⟩
    · exact ⟨rfl, rfl, hn.em hi.kle (sigOnly_nw hs) (spawn_extM _ _) (by simp [St.spawn]) rfl⟩
    · intro e he
      simp only [AState.effs, List.mem_singleton] at he
      rw [he, hn.he]; show _ ∧ _ < (newEff st x).2.2.prog.length; rw [hn.prog]; simp
    · exact ⟨hn.zombies, hn.root, hn.rootN, hn.disposed⟩
  | .cls n x, hx => by
    have hs : sigOnly K x = true := by simpa [Attr.exprOk, sigOnly] using hx
    have hr : st.res x = x := st.res_eq (sigOnly_nu hs)
    have hn := newEffM_spec hi hs
    simp only [buildAttr, hr]
    refine ⟨spawnM hn.rm _, hn.ext.trans (spawn_extM _ _), ?_, ?_, ?_⟩
    · exact ⟨rfl, rfl, hn.em hi.kle (sigOnly_nw hs) (spawn_extM _ _) (by simp [St.spawn]) rfl⟩
    · intro e he
      simp only [AState.effs, List.mem_singleton] at he
      rw [he, hn.he]; show _ ∧ _ < (newEff st x).2.2.prog.length; rw [hn.prog]; simp
    · exact ⟨hn.zombies, hn.root, hn.rootN, hn.disposed⟩
  | .sty n x, hx => by
    have hs : sigOnly K x = true := by simpa [Attr.exprOk, sigOnly] using hx
    have hr : st.res x = x := st.res_eq (sigOnly_nu hs)
    have hn := newEffM_spec hi hs
    simp only [buildAttr, hr]
    refine ⟨spawnM hn.rm _, hn.ext.trans (spawn_extM _ _), ?_, ?_, ?_⟩
    · exact ⟨rfl, rfl, hn.em hi.kle (sigOnly_nw hs) (spawn_extM _ _) (by simp [St.spawn]) rfl⟩
    · intro e he
      simp only [AState.effs, List.mem_singleton] at he
      rw [he, hn.he]; show _ ∧ _ < (newEff st x).2.2.prog.length; rw [hn.prog]; simp
    · exact ⟨hn.zombies, hn.root, hn.rootN, hn.disposed⟩

structure BuiltAttrsM (K : Nat) (st : St) (as : List Attr) (ss : List AState) (st' : St) : Prop where
  rm : RM K st'
  ext : ExtM K (fun _ => False) st st'
  good : GoodAttrsP (EM K st') as ss
  fresh : ∀ e ∈ ss.flatMap AState.effs, st.prog.length ≤ e ∧ e < st'.prog.length
  nodup : (ss.flatMap AState.effs).Nodup
  same : Same st st'

theorem buildAttrs_specM {K : Nat} : ∀ (as : List Attr) (st : St), RM K st → as.all (Attr.exprOk K) = true →
    BuiltAttrsM K st as (buildAttrs as st).1 (buildAttrs as st).2.1
  | [], st, hi, _ => ⟨hi, ExtM.refl _ _ (fun _ hf => hf.elim) _, trivial, by simp [buildAttrs], by simp [buildAttrs], Same.refl _⟩
  | a :: as, st, hi, ha => by
    simp only [List.all_cons, Bool.and_eq_true] at ha
    have h1 := buildAttr_specM hi a ha.1
    have h2 := buildAttrs_specM as (buildAttr st a).2.1 h1.rm ha.2
    rw [buildAttrs_cons]
    dsimp only
    refine ⟨h2.rm, h1.ext.trans h2.ext, ⟨h1.good.extM h2.ext (fun _ _ hf => hf), h2.good⟩, ?_, ?_,
      h1.same.trans h2.same⟩
    · intro e he
      simp only [List.flatMap_cons, List.mem_append] at he
      rcases he with he | he
      · have := h1.fresh e he; have := h2.ext.len_le; omega
      · have := h2.fresh e he; have := h1.ext.len_le; omega
    · simp only [List.flatMap_cons]
      refine List.nodup_append.2 ⟨AState.effs_nodup _, h2.nodup, ?_⟩
      intro x hx y hy hxy
      have := h1.fresh x hx; have := h2.fresh y hy; omega

/-! ## views -/

structure BuiltM (K : Nat) (st : St) (v : View) (t : RState) (st' : St) : Prop where
  rm : RM K st'
  ext : ExtM K (fun _ => False) st st'
  good : GoodM (EM K st') (ShowMemo K st') v t
  fresh : ∀ e ∈ effsOf t, st.prog.length ≤ e ∧ e < st'.prog.length
  nodup : (effsOf t).Nodup
  same : Same st st'

/-- a condition effect created by `newEff`, then its branch built: what `either` and `Show` share -/
structure CondBuilt (K : Nat) (st : St) (e : Nat) (inner : RState) (st' : St) : Prop where
  rm : RM K st'
  ext : ExtM K (fun _ => False) st st'
  fresh : ∀ y ∈ e :: effsOf inner, st.prog.length ≤ y ∧ y < st'.prog.length
  nodup : (e :: effsOf inner).Nodup
  same : Same st st'

theorem cond_built {K : Nat} {st st1 st2 : St} {x : Expr} {e : Nat} {v : Int} {vb : View} {inner : RState}
    (hk : K ≤ st.prog.length) (hnw : x.noWrite = true)
    (hn : NewEffM K st x e v st1) (h2 : BuiltM K st1 vb inner st2) :
    CondBuilt K st e inner (st2.spawn e) ∧
    (∀ cur : Int → Prop, cur v → EM K (st2.spawn e) e x cur) ∧
    GoodM (EM K (st2.spawn e)) (ShowMemo K (st2.spawn e)) vb inner := by
  have hx2 : ExtM K (fun _ => False) st1 (st2.spawn e) := h2.ext.trans (spawn_extM _ _)
  have hl1 : st1.prog.length = st.prog.length + 1 := by rw [hn.prog]; simp
  refine ⟨⟨spawnM h2.rm _, hn.ext.trans hx2, ?_, ?_,
    (Same.mk hn.zombies hn.root hn.rootN hn.disposed).trans (h2.same.trans (spawn_same _ _))⟩,
    fun cur hc => hn.em hk hnw hx2 (by simp [St.spawn]) hc,
    GoodM.extM (spawn_extM _ _) _ _ h2.good (fun _ _ hf => hf)⟩
  · intro y hy
    simp only [List.mem_cons] at hy
    show st.prog.length ≤ y ∧ y < st2.prog.length
    have := h2.ext.len_le
    rcases hy with hy | hy
    · rw [hy, hn.he]; omega
    · have := h2.fresh y hy; omega
  · refine List.nodup_cons.2 ⟨?_, h2.nodup⟩
    intro hm
    have := h2.fresh _ hm
    rw [hn.he] at this
    omega

theorem build_show (c : Expr) (a b : View) (st : St) :
    build (.show c a b) st =
      (.show (newEff (st.addDef (.memo (showBody (st.res c)))).2 (.rd true st.prog.length)).1 st.prog.length c a b
          ((newEff (st.addDef (.memo (showBody (st.res c)))).2 (.rd true st.prog.length)).2.1 != 0)
          (if (newEff (st.addDef (.memo (showBody (st.res c)))).2 (.rd true st.prog.length)).2.1 != 0
            then build a (newEff (st.addDef (.memo (showBody (st.res c)))).2 (.rd true st.prog.length)).2.2
            else build b (newEff (st.addDef (.memo (showBody (st.res c)))).2 (.rd true st.prog.length)).2.2).1,
       (if (newEff (st.addDef (.memo (showBody (st.res c)))).2 (.rd true st.prog.length)).2.1 != 0
            then build a (newEff (st.addDef (.memo (showBody (st.res c)))).2 (.rd true st.prog.length)).2.2
            else build b (newEff (st.addDef (.memo (showBody (st.res c)))).2 (.rd true st.prog.length)).2.2).2.spawn
          (newEff (st.addDef (.memo (showBody (st.res c)))).2 (.rd true st.prog.length)).1) := by
  simp only [build, showBody]
  rfl

/-! ## the memo of a `Show` -/

structure AddMemo (K : Nat) (st : St) (c : Expr) (st1 : St) : Prop where
  prog : st1.prog = st.prog ++ [.memo (showBody c)]
  rm : RM K st1
  ext : ExtM K (fun _ => False) st st1
  same : Same st st1
  tasks : st1.tasks = st.tasks

theorem addMemoM {K : Nat} {st : St} (h : RM K st) {c : Expr} (hs : sigOnly K c = true) :
    AddMemo K st c (st.addDef (.memo (showBody c))).2 := by
  have hlen := h.len
  have hs' := hs
  simp only [sigOnly, Bool.and_eq_true] at hs'
  have hwf : WF (st.prog ++ [.memo (showBody c)]) = true := by
    refine WF_push h.wf _ ?_
    simp only [wfNode, showBody, Expr.readsBelow, Expr.noWrite, Expr.readsData, Bool.and_true, Bool.and_eq_true]
    exact ⟨⟨readsBelow_mono h.kle c hs'.1.1, hs'.1.2⟩,
      readsData_append _ _ c (readsData_of_below h.defs c hs'.1.1 hs'.1.2)⟩
  have htr : bodiesTracked (st.prog ++ [.memo (showBody c)]) = true :=
    bodiesTracked_push h.tr _ (by simp [showBody, Expr.noUntracked, hs'.2])
  have htop := h.top.push (.memo (showBody c)) (.inl ⟨_, rfl⟩) hwf
  have hrs : (st.addDef (.memo (showBody c))).2.rs = st.rs.push (initNode (.memo (showBody c))) := rfl
  have hold : ∀ i, i ≠ st.rs.nodes.length → (st.rs.push (initNode (.memo (showBody c)))).get i = st.rs.get i :=
    fun i hi => push_old i hi
  have hnew : (st.rs.push (initNode (.memo (showBody c)))).get st.rs.nodes.length = initNode (.memo (showBody c)) :=
    push_new
  have hdead : ∀ i, DeadE st.rs i ↔ DeadE (st.rs.push (initNode (.memo (showBody c)))) i := by
    intro i
    by_cases hi : i = st.rs.nodes.length
    · subst hi
      constructor
      · intro hd
        have h1 := hd.1
        rw [State.get_default st.rs (Nat.le_refl _)] at h1; cases h1
      · intro hd
        have h1 := hd.1
        rw [hnew] at h1; cases h1
    · simp only [DeadE, hold i hi]
  have hff : ∀ i, ((st.rs.push (initNode (.memo (showBody c)))).get i).kind = .eff →
      ((st.rs.push (initNode (.memo (showBody c)))).get i).first = false := by
    intro i hk
    by_cases hi : i = st.rs.nodes.length
    · subst hi; rw [hnew] at hk; cases hk
    · rw [hold i hi] at hk ⊢; exact h.firstF i hk
  have hnwAll : ∀ (i : Nat) (y : Expr), (st.prog ++ [NodeDef.memo (showBody c)])[i]? = some (NodeDef.eff y) →
      y.noWrite = true := by
    intro i y hy
    rcases Nat.lt_or_ge i st.prog.length with hl | hl
    · rw [List.getElem?_append_left hl] at hy; exact h.nwAll i y hy
    · rcases Nat.lt_or_ge st.prog.length i with hl2 | hl2
      · rw [List.getElem?_eq_none (by simp; omega)] at hy; cases hy
      · have : i = st.prog.length := by omega
        subst this
        simp at hy
  refine ⟨rfl, ⟨htop.congrD hdead, hwf, htr, ?_, ?_, hff, hnwAll⟩, ⟨⟨[_], rfl⟩, fun _ hf => hf.elim, ?_, fun _ h => h⟩,
    ⟨rfl, rfl, rfl, rfl⟩, rfl⟩
  · show K ≤ (st.prog ++ [NodeDef.memo (showBody c)]).length
    have := h.kle; simp; omega
  · intro i hi
    obtain ⟨d, hd, hne⟩ := h.defs i hi
    refine ⟨d, ?_, hne⟩
    show (st.prog ++ [NodeDef.memo (showBody c)])[i]? = some d
    rw [List.getElem?_append_left (by have := h.kle; omega)]; exact hd
  · intro i hi _ _
    show stab ((st.rs.push (initNode (.memo (showBody c)))).get i) = _
    rw [hold i (by rw [hlen]; exact Nat.ne_of_lt hi)]

/-- the effect of a `Show` reads its memo -/
theorem showEff_wf {K : Nat} {st st1 : St} {c : Expr} (h : AddMemo K st c st1) :
    WF (st1.prog ++ [.eff (.rd true st.prog.length)]) = true ∧
    bodiesTracked (st1.prog ++ [.eff (.rd true st.prog.length)]) = true := by
  refine ⟨WF_push h.rm.wf _ ?_, bodiesTracked_push h.rm.tr _ rfl⟩
  have hl : st1.prog.length = st.prog.length + 1 := by rw [h.prog]; simp
  simp only [wfNode, Expr.readsBelow, Expr.readsData, Bool.and_eq_true, decide_eq_true_eq]
  refine ⟨by omega, ?_⟩
  rw [List.getElem?_append_left (by omega), h.prog]
  simp

theorem wf_cond {K : Nat} {c : Expr} (h : (c.readsBelow K && c.noWrite && c.noUntracked) = true) :
    sigOnly K c = true := h

theorem build_specM {K : Nat} : ∀ (v : View) (st : St), RM K st → v.wf K = true → v.coreS = true →
    BuiltM K st v (build v st).1 (build v st).2 := by
  intro v
  induction v with
  | text s =>
    intro st hi _ _
    exact ⟨allocM hi, alloc_extM st, rfl, by simp [build, effsOf], by simp [build, effsOf], alloc_same st⟩
  | unit =>
    intro st hi _ _
    exact ⟨allocM hi, alloc_extM st, trivial, by simp [build, effsOf], by simp [build, effsOf], alloc_same st⟩
  | elem tag attrs kid ih =>
    intro st hi hw hc
    simp only [View.wf, Bool.and_eq_true] at hw
    simp only [View.coreS] at hc
    have h1 := buildAttrs_specM attrs st.alloc.2 (allocM hi) hw.1.1
    have h2 := ih (buildAttrs attrs st.alloc.2).2.1 h1.rm hw.2 hc
    rw [build_elem]
    dsimp only
    refine ⟨h2.rm, ((alloc_extM st).trans h1.ext).trans h2.ext,
      ⟨rfl, h1.good.extM h2.ext (fun _ _ hf => hf), h2.good⟩, ?_, ?_,
      ((alloc_same st).trans h1.same).trans h2.same⟩
    · intro e he
      simp only [effsOf, List.mem_append] at he
      rcases he with he | he
      · have := h1.fresh e he; have := h2.ext.len_le
        have : st.alloc.2.prog.length = st.prog.length := rfl
        omega
      · have := h2.fresh e he; have := h1.ext.len_le
        have : st.alloc.2.prog.length = st.prog.length := rfl
        omega
    · simp only [effsOf]
      refine List.nodup_append.2 ⟨h1.nodup, h2.nodup, ?_⟩
      intro x hx y hy hxy
      have := h1.fresh x hx; have := h2.fresh y hy; omega
  | seq a b iha ihb =>
    intro st hi hw hc
    simp only [View.wf, Bool.and_eq_true] at hw
    simp only [View.coreS, Bool.and_eq_true] at hc
    have h1 := iha st hi hw.1 hc.1
    have h2 := ihb (build a st).2 h1.rm hw.2 hc.2
    rw [build_seq]
    dsimp only
    refine ⟨h2.rm, h1.ext.trans h2.ext, ⟨GoodM.extM h2.ext _ _ h1.good (fun _ _ hf => hf), h2.good⟩,
      ?_, ?_, h1.same.trans h2.same⟩
    · intro e he
      simp only [effsOf, List.mem_append] at he
      rcases he with he | he
      · have := h1.fresh e he; have := h2.ext.len_le; omega
      · have := h2.fresh e he; have := h1.ext.len_le; omega
    · simp only [effsOf]
      refine List.nodup_append.2 ⟨h1.nodup, h2.nodup, ?_⟩
      intro x hx y hy hxy
      have := h1.fresh x hx; have := h2.fresh y hy; omega
  | dynText x =>
    intro st hi hw _
    have hs : sigOnly K x = true := by simpa [View.wf, sigOnly] using hw
    have hn := newEffM_spec hi hs
    rw [build_dynText, st.res_eq (sigOnly_nu hs)]
    dsimp only
    have hx2 : ExtM K (fun _ => False) (newEff st x).2.2 ((newEff st x).2.2.alloc.2.spawn (newEff st x).1) :=
      (alloc_extM _).trans (spawn_extM _ _)
    refine ⟨spawnM (allocM hn.rm) _, hn.ext.trans hx2,
      ⟨rfl, hn.em hi.kle (sigOnly_nw hs) hx2 (by simp [St.spawn]) rfl⟩, ?_, by simp [effsOf],
      ⟨hn.zombies, hn.root, hn.rootN, hn.disposed⟩⟩
    intro e he
    simp only [effsOf, List.mem_singleton] at he
    rw [he, hn.he]
    show _ ∧ _ < (newEff st x).2.2.prog.length
    rw [hn.prog]; simp
  | either c a b iha ihb =>
    intro st hi hw hc
    simp only [View.wf, Bool.and_eq_true] at hw
    simp only [View.coreS, Bool.and_eq_true] at hc
    have hs : sigOnly K c = true := by simp [sigOnly, hw.1.1.1.1, hw.1.1.1.2, hw.1.1.2]
    have hn := newEffM_spec hi hs
    rw [build_either, st.res_eq hw.1.1.2]
    dsimp only
    by_cases hv : ((newEff st c).2.1 != 0) = true
    · simp only [hv, if_true]
      have h2 := iha (newEff st c).2.2 hn.rm hw.1.2 hc.1
      obtain ⟨cb, hem, hg⟩ := cond_built hi.kle (sigOnly_nw hs) hn h2
      refine ⟨cb.rm, cb.ext, ?_, by simpa [effsOf] using cb.fresh, by simpa [effsOf] using cb.nodup, cb.same⟩
      exact ⟨rfl, rfl, rfl, hem _ (by simp [hv]), fun _ => hg, fun hf => by simp at hf⟩
    · simp only [hv, Bool.false_eq_true, if_false]
      have h2 := ihb (newEff st c).2.2 hn.rm hw.2 hc.2
      obtain ⟨cb, hem, hg⟩ := cond_built hi.kle (sigOnly_nw hs) hn h2
      refine ⟨cb.rm, cb.ext, ?_, by simpa [effsOf] using cb.fresh, by simpa [effsOf] using cb.nodup, cb.same⟩
      exact ⟨rfl, rfl, rfl, hem _ (by simp [hv]), fun hf => by simp at hf, fun _ => hg⟩
  | «show» c a b iha ihb =>
    intro st hi hw hc
    simp only [View.wf, Bool.and_eq_true] at hw
    simp only [View.coreS, Bool.and_eq_true] at hc
    have hs : sigOnly K c = true := by simp [sigOnly, hw.1.1.1.1, hw.1.1.1.2, hw.1.1.2]
    have hm := addMemoM hi hs
    obtain ⟨hwf, htr⟩ := showEff_wf hm
    have hn := newEffM_spec' hm.rm hwf htr rfl
    rw [build_show, st.res_eq hw.1.1.2]
    dsimp only
    have hl1 : (st.addDef (.memo (showBody c))).2.prog.length = st.prog.length + 1 := by rw [hm.prog]; simp
    have hk1 : K ≤ (st.addDef (.memo (showBody c))).2.prog.length := by have := hi.kle; omega
    by_cases hv : ((newEff (st.addDef (.memo (showBody c))).2 (.rd true st.prog.length)).2.1 != 0) = true
    · simp only [hv, if_true]
      have h2 := iha _ hn.rm hw.1.2 hc.1
      obtain ⟨cb, hem, hg⟩ := cond_built hk1 rfl hn h2
      have hxall := hm.ext.trans cb.ext
      refine ⟨cb.rm, hxall, ?_, ?_, by simpa [effsOf] using cb.nodup, hm.same.trans cb.same⟩
      · refine ⟨rfl, rfl, rfl, hem _ (by simp [hv]), ?_, ?_, fun _ => hg, fun hf => by simp at hf⟩
        · have : ShowMemo K (st.addDef (.memo (showBody c))).2 st.prog.length c :=
            ⟨hi.kle, by omega, by rw [hm.prog]; simp⟩
          exact this.ext cb.ext
        · rw [hn.he]; omega
      · intro y hy
        have := cb.fresh y (by simpa [effsOf] using hy)
        omega
    · simp only [hv, Bool.false_eq_true, if_false]
      have h2 := ihb _ hn.rm hw.2 hc.2
      obtain ⟨cb, hem, hg⟩ := cond_built hk1 rfl hn h2
      have hxall := hm.ext.trans cb.ext
      refine ⟨cb.rm, hxall, ?_, ?_, by simpa [effsOf] using cb.nodup, hm.same.trans cb.same⟩
      · refine ⟨rfl, rfl, rfl, hem _ (by simp [hv]), ?_, ?_, fun hf => by simp at hf, fun _ => hg⟩
        · have : ShowMemo K (st.addDef (.memo (showBody c))).2 st.prog.length c :=
            ⟨hi.kle, by omega, by rw [hm.prog]; simp⟩
          exact this.ext cb.ext
        · rw [hn.he]; omega
      · intro y hy
        have := cb.fresh y (by simpa [effsOf] using hy)
        omega
  | forKeyed sel lists =>
    intro st hi hw _
    obtain ⟨hsel, hl⟩ := wf_forKeyed hw
    have hs : sigOnly K sel = true := by simp [sigOnly, hsel.1, hsel.2.1, hsel.2.2]
    have hn := newEffM_spec hi hs
    rw [build_forKeyed, st.res_eq hsel.2.2]
    dsimp only
    obtain ⟨n, hbn⟩ := buildFor_st (newEff st sel).2.2 (listAt lists (newEff st sel).2.1)
    have hx2 : ExtM K (fun _ => False) (newEff st sel).2.2
        ((buildFor (newEff st sel).2.2 (listAt lists (newEff st sel).2.1)).2.2.spawn (newEff st sel).1) := by
      rw [hbn]
      have h1 : ExtM K (fun _ => False) (newEff st sel).2.2 { (newEff st sel).2.2 with next := n } :=
        ExtM.of_rs_prog _ (fun _ hf => hf.elim) rfl rfl (fun _ h => h)
      exact h1.trans (spawn_extM _ _)
    refine ⟨?_, hn.ext.trans hx2,
      ⟨rfl, rfl, hn.em hi.kle (sigOnly_nw hs) hx2 (by simp [St.spawn]) (buildFor_hashed _ _),
        buildFor_kok _ (listAt_nodup hl _)⟩, ?_, by simp [effsOf], ?_⟩
    · rw [hbn]
      have h1 : RM K { (newEff st sel).2.2 with next := n } := hn.rm.of_rs_prog rfl rfl
      exact spawnM h1 _
    · intro e he
      simp only [effsOf, List.mem_singleton] at he
      rw [he, hn.he, hbn]
      show _ ∧ _ < (newEff st sel).2.2.prog.length
      rw [hn.prog]; simp
    · rw [hbn]; exact ⟨hn.zombies, hn.root, hn.rootN, hn.disposed⟩
  | scope sid d kid _ => intro st _ _ hc; simp [View.coreS] at hc
  | forRows en sel lists row _ => intro st _ _ hc; simp [View.coreS] at hc
  | eb kid _ => intro st _ _ hc; simp [View.coreS] at hc
  | res c x => intro st _ _ hc; simp [View.coreS] at hc

theorem build_tasksM : ∀ (v : View) (st : St), v.coreS = true → ∀ e, e ∈ (build v st).2.tasks →
    e ∈ st.tasks ∨ e ∈ effsOf (build v st).1 := by
  intro v
  induction v with
  | text s => intro st _ e h; exact Or.inl h
  | unit => intro st _ e h; exact Or.inl h
  | elem tag attrs kid ih =>
    intro st hc e h
    rw [build_elem] at h ⊢
    dsimp only at h ⊢
    rcases ih _ hc e h with h1 | h1
    · rcases buildAttrs_tasks attrs _ e h1 with h2 | h2
      · exact Or.inl h2
      · exact Or.inr (by simp [effsOf, h2])
    · exact Or.inr (by simp [effsOf, h1])
  | seq a b iha ihb =>
    intro st hc e h
    simp only [View.coreS, Bool.and_eq_true] at hc
    rw [build_seq] at h ⊢
    dsimp only at h ⊢
    rcases ihb _ hc.2 e h with h1 | h1
    · rcases iha st hc.1 e h1 with h2 | h2
      · exact Or.inl h2
      · exact Or.inr (by simp [effsOf, h2])
    · exact Or.inr (by simp [effsOf, h1])
  | dynText x =>
    intro st _ e h
    rw [build_dynText] at h ⊢
    dsimp only at h ⊢
    simp only [St.spawn, St.alloc, List.mem_append, List.mem_singleton] at h
    rcases h with h | h
    · exact Or.inl h
    · exact Or.inr (by simp [effsOf, h])
  | either c a b iha ihb =>
    intro st hc e h
    simp only [View.coreS, Bool.and_eq_true] at hc
    rw [build_either] at h ⊢
    dsimp only at h ⊢
    simp only [St.spawn, List.mem_append, List.mem_singleton] at h
    rcases h with h | h
    · split at h
      · next hv =>
        simp only [hv, if_true]
        rcases iha _ hc.1 e h with h1 | h1
        · exact Or.inl h1
        · exact Or.inr (by simp [effsOf, h1])
      · next hv =>
        simp only [hv, if_false]
        rcases ihb _ hc.2 e h with h1 | h1
        · exact Or.inl h1
        · exact Or.inr (by simp [effsOf, h1])
    · exact Or.inr (by simp [effsOf, h])
  | «show» c a b iha ihb =>
    intro st hc e h
    simp only [View.coreS, Bool.and_eq_true] at hc
    rw [build_show] at h ⊢
    dsimp only at h ⊢
    simp only [St.spawn, List.mem_append, List.mem_singleton] at h
    rcases h with h | h
    · split at h
      · next hv =>
        simp only [hv, if_true]
        rcases iha _ hc.1 e h with h1 | h1
        · exact Or.inl h1
        · exact Or.inr (by simp [effsOf, h1])
      · next hv =>
        simp only [hv, if_false]
        rcases ihb _ hc.2 e h with h1 | h1
        · exact Or.inl h1
        · exact Or.inr (by simp [effsOf, h1])
    · exact Or.inr (by simp [effsOf, h])
  | scope sid d kid _ => intro st hc; simp [View.coreS] at hc
  | forRows en sel lists row _ => intro st hc; simp [View.coreS] at hc
  | eb kid _ => intro st hc; simp [View.coreS] at hc
  | res c x => intro st hc; simp [View.coreS] at hc
  | forKeyed sel lists =>
    intro st _ e h
    rw [build_forKeyed] at h ⊢
    dsimp only at h ⊢
    obtain ⟨n, hbn⟩ := buildFor_st (newEff st (st.res sel)).2.2 (listAt lists (newEff st (st.res sel)).2.1)
    rw [hbn] at h
    simp only [St.spawn, List.mem_append, List.mem_singleton] at h
    rcases h with h | h
    · exact Or.inl h
    · exact Or.inr (by simp [effsOf, h])



end Leptos.RView
