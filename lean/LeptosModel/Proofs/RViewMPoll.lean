import LeptosModel.Proofs.RViewMTop
/-!
# Proofs/RViewMPoll — one poll of a render effect's task, over signals and memos

The task loop (`RView.effLoop`) mirrors the reactive core's loop with the DOM phase (`rerun`) after every
run of the body.  The reactive steps are the core's state-level lemmas (`Proofs/ReactiveState2.lean`):
`consume` → `effUpdate` → `noRun` / `runEffBody`; the DOM phase starts at a quiescent state (`InvCM.run`).
-/
namespace Leptos.RView
open Leptos.Reactive

theorem upd_upd (s : State) (e : Nat) (g1 g2 : Node → Node) :
    (s.upd e g1).upd e g2 = s.upd e (fun n => g2 (g1 n)) := by
  simp only [State.upd, List.modify_modify_eq]
  rfl

/-- consuming the notification of `e`, together with any other change of `e`'s marking flags -/
theorem _root_.Leptos.Reactive.TopC.consumeG {p : Prog} {s : State} {D : Nat → Prop} (h : TopC p s D) {e : Nat}
    (hk : (s.get e).kind = .eff) (hD : ¬ D e) (g : Node → Node) (gc : ∀ n, (g n).core = n.core)
    (gchan : ∀ n, (g n).chan = false) (gdirty : ∀ n, (g n).dirty = n.dirty) :
    BusyState p D (s.upd e g) e := by
  have hq := h.quiet
  have he : e < s.nodes.length := s.lt_of_kind_ne (by rw [hk]; simp)
  have e0 := h.conv.eff e hk (hq.idle e) hD (by simp)
  have gf : ∀ n, (g n).kind = n.kind ∧ (g n).sources = n.sources ∧ (g n).subs = n.subs ∧
      (g n).seen = n.seen ∧ (g n).ver = n.ver ∧ (g n).running = n.running := by
    intro n
    have c := Node.core_fields (gc n)
    exact ⟨c.1, c.2.2.1, c.2.2.2.1, c.2.2.2.2.2.2.1, c.2.2.2.2.2.2.2.1, c.2.2.2.2.2.1⟩
  obtain ⟨q1, hk1⟩ := hq.flagEff hk g gf
  obtain ⟨c1, _⟩ := (h.conv.weaken (some e)).flagBusy hq.inv hk (hq.idle e) g gc hD
  have g1e : (s.upd e g).get e = g (s.get e) := State.get_upd_same _ _ he
  have g1f : ∀ y, ((s.upd e g).get y).running = (s.get y).running ∧ ((s.upd e g).get y).val = (s.get y).val := by
    intro y; rw [State.get_upd]; split
    · have c := Node.core_fields (gc (s.get y)); exact ⟨c.2.2.2.2.2.1, c.2.1⟩
    · exact ⟨rfl, rfl⟩
  refine ⟨q1, c1, hk1, ?_, by rw [g1e]; exact gchan _, h.ss.updFlag e _ (fun n => (gf n).2.1), hD,
    e0.valOK.of_core (by rw [g1e]; exact gc _)⟩
  intro hro hd z hz
  rw [g1e] at hd hz
  rw [gdirty] at hd
  rw [(gf (s.get e)).2.2.2.1] at hz
  rw [(g1f z.1).1, (g1f z.1).2]
  exact e0.vals hro hd z hz

/-- a change of `e`'s `woken` flag while `e` is not notified -/
theorem _root_.Leptos.Reactive.TopC.flagIdle {p : Prog} {s : State} {D : Nat → Prop} (h : TopC p s D) {e : Nat}
    (hk : (s.get e).kind = .eff) (hD : ¬ D e) (hch : (s.get e).chan = false) (g : Node → Node)
    (gc : ∀ n, (g n).core = n.core) (gchan : ∀ n, (g n).chan = n.chan) (gdirty : ∀ n, (g n).dirty = n.dirty) :
    TopC p (s.upd e g) D := by
  have hq := h.quiet
  have he : e < s.nodes.length := s.lt_of_kind_ne (by rw [hk]; simp)
  have e0 := h.conv.eff e hk (hq.idle e) hD (by simp)
  have gf : ∀ n, (g n).kind = n.kind ∧ (g n).sources = n.sources ∧ (g n).subs = n.subs ∧
      (g n).seen = n.seen ∧ (g n).ver = n.ver ∧ (g n).running = n.running := by
    intro n
    have c := Node.core_fields (gc n)
    exact ⟨c.1, c.2.2.1, c.2.2.2.1, c.2.2.2.2.2.2.1, c.2.2.2.2.2.2.2.1, c.2.2.2.2.2.1⟩
  obtain ⟨q1, hk1⟩ := hq.flagEff hk g gf
  obtain ⟨c1, _⟩ := (h.conv.weaken (some e)).flagBusy hq.inv hk (hq.idle e) g gc hD
  have g1e : (s.upd e g).get e = g (s.get e) := State.get_upd_same _ _ he
  have g1f : ∀ y, ((s.upd e g).get y).running = (s.get y).running ∧ ((s.upd e g).get y).val = (s.get y).val := by
    intro y; rw [State.get_upd]; split
    · have c := Node.core_fields (gc (s.get y)); exact ⟨c.2.2.2.2.2.1, c.2.1⟩
    · exact ⟨rfl, rfl⟩
  have g1o : ∀ y, y ≠ e → (s.upd e g).get y = s.get y := fun y hy => State.get_upd_ne _ _ (Ne.symm hy)
  have hchan1 : ((s.upd e g).get e).chan = false := by rw [g1e, gchan]; exact hch
  have hvo : ValOK p (s.upd e g) e := e0.valOK.of_core (by rw [g1e]; exact gc _)
  refine ⟨q1, c1.close (fun _ => ⟨?_, ?_, ?_, ?_, hvo⟩), h.ss.updFlag e _ (fun n => (gf n).2.1)⟩
  · intro hro hd z hz
    rw [g1e] at hd hz
    rw [gdirty] at hd
    rw [(gf (s.get e)).2.2.2.1] at hz
    rw [(g1f z.1).1, (g1f z.1).2]
    exact e0.vals hro hd z hz
  · intro _
    rw [g1e, gdirty, (Node.core_fields (gc (s.get e))).2.2.2.2.1]
    exact e0.quietFlags hch
  · intro hc; rw [hchan1] at hc; cases hc
  · intro _ y hy hky
    rw [g1e, (gf (s.get e)).2.1] at hy
    have hye : y ≠ e := Nat.ne_of_lt (hq.inv.srcLt e y hy)
    rw [g1o y hye] at hky ⊢
    exact e0.srcClean hch y hy hky

/-- the invariant along a reactive step that keeps every effect's stable part -/
theorem InvCM.of_sk0 {K : Nat} {v : View} {st : St} (h : InvCM K v st) {rs' : State} (hs : SK0 st.rs rs')
    (hrm : RM K { st with rs := rs' }) : InvCM K v { st with rs := rs' } := by
  obtain ⟨t, ht⟩ := h.tree
  have hx : ExtM K (fun _ => False) st { st with rs := rs' } :=
    ExtM.of_sk (fun _ hf => hf.elim) rfl hs (fun _ he => he)
  refine ⟨hrm, ⟨t, ht.root, GoodM.extM hx v t ht.good (fun _ _ hf => hf), ht.uniq, ?_⟩, ?_, ?_, h.zb⟩
  · intro y hy
    rcases ht.tasks y hy with hd | hd | hd
    · left
      have := hs.lf y (hd.2.kind h.rm)
      simp only [life, Prod.mk.injEq] at this
      exact ⟨by show (rs'.get y).done = true; rw [this.2.1]; exact hd.1, hd.2⟩
    · exact Or.inr (Or.inl hd)
    · exact Or.inr (Or.inr hd)
  · intro z hz sub hsub; exact (h.zok z hz sub hsub).of_prog rfl
  · intro z hz
    have := hs.lf z.1 ((h.zb z hz).2.kind h.rm)
    simp only [life, Prod.mk.injEq] at this
    show (rs'.get z.1).alive = false
    rw [this.1]; exact h.zdead z hz

theorem deadE_of_sk {X : Nat → Prop} {s s' : State} (hs : SK X s s') : ∀ i, DeadE s i ↔ DeadE s' i := by
  intro i
  by_cases hk : (s.get i).kind = .eff
  · have := hs.lf i hk
    simp only [life, Prod.mk.injEq] at this
    simp only [DeadE, hs.kind i, this.1]
  · have hk' : (s'.get i).kind ≠ .eff := by rw [hs.kind]; exact hk
    exact ⟨fun hd => absurd hd.1 hk, fun hd => absurd hd.1 hk'⟩

/-- the reactive invariant along a step that keeps the program, given the core's invariant for the result -/
theorem RM.of_sk {K : Nat} {st : St} (h : RM K st) {X : Nat → Prop} {rs' : State} (hs : SK X st.rs rs')
    (htop : TopC st.prog rs' (DeadE st.rs)) : RM K { st with rs := rs' } :=
  ⟨htop.congrD (deadE_of_sk hs), h.wf, h.tr, h.kle, h.defs, fun i hk => by
    have hk0 : (st.rs.get i).kind = .eff := by rw [← hs.kind]; exact hk
    have := hs.lf i hk0
    simp only [life, Prod.mk.injEq] at this
    show (rs'.get i).first = false
    rw [this.2.2.1]; exact h.firstF i hk0, h.nwAll⟩

/-- facts about the polled effect that every iteration of its task loop needs -/
structure Polled (K : Nat) (st : St) (e : Nat) : Prop where
  ke : K ≤ e
  eff : IsEff st e
  alive : (st.rs.get e).alive = true
  done : (st.rs.get e).done = false
  task : e ∈ st.tasks

theorem Polled.where_ {K : Nat} {v : View} {st : St} {e : Nat} (hp : Polled K st e) (h : InvCM K v st) :
    ∀ t, st.root = some t → e ∈ effsOf t ∨ e ∈ zEffs st.zombies := by
  intro t ht
  obtain ⟨t', ht'⟩ := h.tree
  have : t' = t := by have := ht'.root; rw [ht] at this; exact (Option.some.inj this).symm
  subst this
  rcases ht'.tasks e hp.task with hd | hd | hd
  · rw [hp.done] at hd; cases hd.1
  · exact Or.inl hd
  · exact Or.inr hd

theorem Polled.notDead {K : Nat} {st : St} {e : Nat} (hp : Polled K st e) : ¬ DeadE st.rs e := fun hd => by
  have := hd.2; rw [hp.alive] at this; cases this

/-- `rs` observed by `e` -/
def obsOf (rs : State) (e : Nat) : State := { rs with obs := some e }

/-- the reactive state after the check phase of effect `e` started from `rs1` -/
def rs3Of (st : St) (rs1 : State) (e : Nat) : State :=
  { (effUpdate st.prog st.fuel (obsOf rs1 e) e).1 with obs := none }

/-- everything after the notification was consumed: `rs1` is the reactive state with `chan` cleared -/
theorem iterM {K : Nat} {v : View} (hre : RerunOK K v) {e : Nat} (k : Nat)
    (ih : ∀ st', InvCM K v st' → Polled K st' e → InvCM K v (effLoop k st' e))
    {st : St} (h : InvCM K v st) (hp : Polled K st e) {rs1 : State}
    (hb : BusyState st.prog (DeadE st.rs) rs1 e) (hs1 : SK0 st.rs rs1) :
    InvCM K v
      (if (effUpdate st.prog st.fuel (obsOf rs1 e) e).2 then
        effLoop k (rerun { st with rs := runEffBody st.prog st.fuel (rs3Of st rs1 e) e } e
          (((runEffBody st.prog st.fuel (rs3Of st rs1 e) e).get e).val.getD 0)) e
      else effLoop k { st with rs := rs3Of st rs1 e } e) := by
  have hmo := memoOK_of_wf h.rm.wf
  have heo := effOK_of_wf h.rm.wf h.rm.tr
  have post := hb.effUpdate hmo
  have hke_k := hp.eff.kind h.rm
  -- frames of the check phase
  have hs3 : SK0 st.rs (rs3Of st rs1 e) :=
    ((hs1.trans (SK.setObs rs1 _)).trans (effUpdate_sk st.prog st.fuel _ e)).trans (SK.setObs _ _)
  have post' : EffUpdPostC st.prog (DeadE st.rs) (rs3Of st rs1 e)
      e (effUpdate st.prog st.fuel (obsOf rs1 e) e).2 := post
  clear post
  generalize rs3Of st rs1 e = rs3 at post' hs3 ⊢
  have post := post'
  generalize hneed : (effUpdate st.prog st.fuel (obsOf rs1 e) e).2 = need at post
  clear post'
  have hfirst3 : (rs3.get e).first = false := by
    have := hs3.lf e hke_k
    simp only [life, Prod.mk.injEq] at this
    rw [this.2.2.1]; exact h.rm.firstF e hke_k
  cases need with
  | false =>
    simp only [Bool.false_eq_true, if_false]
    have htop3 := post.noRun rfl hfirst3
    have hrm3 := h.rm.of_sk hs3 htop3
    have h3 := h.of_sk0 hs3 hrm3
    refine ih _ h3 ⟨hp.ke, hp.eff, ?_, ?_, hp.task⟩
    · have := hs3.lf e hke_k
      simp only [life, Prod.mk.injEq] at this
      show (rs3.get e).alive = true; rw [this.1]; exact hp.alive
    · have := hs3.lf e hke_k
      simp only [life, Prod.mk.injEq] at this
      show (rs3.get e).done = false; rw [this.2.1]; exact hp.done
  | true =>
    simp only [if_true]
    have htop4 := post.runEffBody hmo heo hp.notDead hfirst3
    obtain ⟨x, hx⟩ := hp.eff
    have hnw : (bodyOf st.prog e).noWrite = true := by rw [bodyOf_eff hx]; exact h.rm.nwAll e x hx
    have hs4' : SK (· = e) rs3 (runEffBody st.prog st.fuel rs3 e) := runEffBody_sk st.prog st.fuel rs3 e hnw
    have hs4 : SK (· = e) st.rs (runEffBody st.prog st.fuel rs3 e) := (hs3.mono (fun _ hf => hf.elim)).trans hs4'
    have hrm4 := h.rm.of_sk hs4 htop4
    have hrun := h.run hre hp.ke ⟨x, hx⟩ hp.alive hp.done (hp.where_ h) hs4 hrm4 _ rfl hp.task
    exact ih _ hrun.1 ⟨hp.ke, hrun.2.2.2.2, hrun.2.1, hrun.2.2.1, hrun.2.2.2.1⟩

/-- the reactive state with the notification of `e` consumed -/
def rs1Of (rs : State) (e : Nat) : State := rs.upd e fun n => { n with chan := false }

/-- the reactive state after the check phase, the observer restored to `saved` -/
def rs3S (st : St) (rs1 : State) (e : Nat) (saved : Option Nat) : State :=
  { (effUpdate st.prog st.fuel (obsOf rs1 e) e).1 with obs := saved }

theorem rs3S_none (st : St) (rs1 : State) (e : Nat) : rs3S st rs1 e none = rs3Of st rs1 e := rfl

theorem effLoop_succM (k : Nat) (st : St) (e : Nat) :
    effLoop (k + 1) st e =
      if !(st.rs.get e).chan then st else
      if (effUpdate st.prog st.fuel (obsOf (rs1Of st.rs e) e) e).2 then
        effLoop k (rerun { st with rs := runEffBody st.prog st.fuel (rs3S st (rs1Of st.rs e) e (rs1Of st.rs e).obs) e } e
          (((runEffBody st.prog st.fuel (rs3S st (rs1Of st.rs e) e (rs1Of st.rs e).obs) e).get e).val.getD 0)) e
      else effLoop k { st with rs := rs3S st (rs1Of st.rs e) e (rs1Of st.rs e).obs } e := by
  rw [effLoop]
  rfl

/-- **the task loop of a live effect keeps the invariant** -/
theorem loopM {K : Nat} {v : View} (hre : RerunOK K v) {e : Nat} :
    ∀ (k : Nat) (st : St), InvCM K v st → Polled K st e → InvCM K v (effLoop k st e)
  | 0, st, h, _ => h
  | k + 1, st, h, hp => by
    rw [effLoop_succM]
    split
    · exact h
    · have hk := hp.eff.kind h.rm
      have hb := h.rm.top.consumeG hk hp.notDead (fun n => { n with chan := false }) (fun _ => rfl) (fun _ => rfl)
        (fun _ => rfl)
      have hs1 : SK0 st.rs (rs1Of st.rs e) := SK.upd_stab _ _ _ (fun _ => rfl)
      have hobs : (rs1Of st.rs e).obs = none := h.rm.top.quiet.obs
      rw [hobs, rs3S_none]
      exact iterM hre k (loopM hre k) h hp hb hs1

/-- **one poll of a live effect's task keeps the invariant** -/
theorem pollAliveM {K : Nat} {v : View} (hre : RerunOK K v) {st : St} (h : InvCM K v st)
    {e : Nat} (hp : Polled K st e) : InvCM K v (pollTask st e) := by
  have hk := hp.eff.kind h.rm
  have he : e < st.rs.nodes.length := st.rs.lt_of_kind_ne (by rw [hk]; simp)
  have hpt : pollTask st e = effLoop 64 { st with rs := st.rs.upd e fun n => { n with woken := false } } e := by
    unfold pollTask
    have : ((st.rs.upd e fun n => { n with woken := false }).get e).alive = true := by
      rw [State.get_upd_same _ _ he]; exact hp.alive
    simp only [this, Bool.not_true, Bool.false_eq_true, if_false]
  rw [hpt, effLoop_succM]
  have hg1e : (st.rs.upd e fun n => { n with woken := false }).get e = { st.rs.get e with woken := false } :=
    State.get_upd_same _ _ he
  have hsW : SK0 st.rs (st.rs.upd e fun n => { n with woken := false }) := SK.upd_stab _ _ _ (fun _ => rfl)
  cases hch : (st.rs.get e).chan with
  | false =>
    have : (({ st with rs := st.rs.upd e fun n => { n with woken := false } } : St).rs.get e).chan = false := by
      show ((st.rs.upd e fun n => { n with woken := false }).get e).chan = false
      rw [hg1e]; exact hch
    simp only [this, Bool.not_false, if_true]
    have htop := h.rm.top.flagIdle hk hp.notDead hch (fun n => { n with woken := false }) (fun _ => rfl)
      (fun _ => rfl) (fun _ => rfl)
    exact h.of_sk0 hsW (h.rm.of_sk hsW htop)
  | true =>
    have : (({ st with rs := st.rs.upd e fun n => { n with woken := false } } : St).rs.get e).chan = true := by
      show ((st.rs.upd e fun n => { n with woken := false }).get e).chan = true
      rw [hg1e]; exact hch
    simp only [this, Bool.not_true, Bool.false_eq_true, if_false]
    -- both flag updates at once
    have hcomb : rs1Of (st.rs.upd e fun n => { n with woken := false }) e =
        st.rs.upd e (fun n => { n with woken := false, chan := false }) := by
      unfold rs1Of; rw [upd_upd]
    have hb := h.rm.top.consumeG hk hp.notDead (fun n => { n with woken := false, chan := false }) (fun _ => rfl)
      (fun _ => rfl) (fun _ => rfl)
    have hs1 : SK0 st.rs (st.rs.upd e fun n => { n with woken := false, chan := false }) :=
      SK.upd_stab _ _ _ (fun _ => rfl)
    have hobs : (st.rs.upd e fun n => { n with woken := false, chan := false }).obs = none := h.rm.top.quiet.obs
    show InvCM K v (if (effUpdate st.prog st.fuel
        (obsOf (rs1Of (st.rs.upd e fun n => { n with woken := false }) e) e) e).2 then _ else _)
    rw [hcomb, hobs, rs3S_none]
    -- the DOM phase and the recursive calls do not see the intermediate `woken := false` state
    have key := iterM hre 63 (loopM hre 63) h hp hb hs1
    exact key

end Leptos.RView
