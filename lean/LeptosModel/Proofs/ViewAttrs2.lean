import LeptosModel.Proofs.ViewAttrs
/-! # Proofs/ViewAttrs2 — stage 2a attribute fragment: `String` / `Option<String>` / `bool` attribute
values and a single whole-value `class` (`String` or `Option<String>`) / `style` string, each key once; attributes compared as a
map (`AttrsEq`), because `None`/`false` removes an attribute and a later `Some`/`true` appends it -/
namespace Leptos.View
open Leptos.Dom

/-- two attribute lists are the same *map* (order is not observable) -/
def AttrsEq (a b : List (String × String)) : Prop := ∀ k, getA a k = getA b k

theorem AttrsEq.refl (a : List (String × String)) : AttrsEq a a := fun _ => rfl

theorem getA_setA : ∀ (l : List (String × String)) (n v k : String),
    getA (setA l n v) k = if k = n then some v else getA l k
  | [], n, v, k => by
    by_cases h : k = n
    · simp [setA, getA, h]
    · simp [setA, getA, h, Ne.symm h]
  | (a, w) :: rest, n, v, k => by
    by_cases han : a = n
    · subst han
      by_cases h : k = a
      · simp [setA, getA, h]
      · simp [setA, getA, h, Ne.symm h]
    · by_cases hak : a = k
      · subst hak; simp [setA, getA, han]
      · simp [setA, getA, han, hak, getA_setA rest n v k]

theorem getA_delA : ∀ (l : List (String × String)) (n k : String),
    getA (delA l n) k = if k = n then none else getA l k
  | [], n, k => by simp [delA, getA]
  | (a, w) :: rest, n, k => by
    by_cases han : a = n
    · subst han
      by_cases h : k = a
      · subst h; simp [delA, getA, getA_delA rest k k]
      · simp [delA, getA, h, Ne.symm h, getA_delA rest a k]
    · by_cases hak : a = k
      · subst hak; simp [delA, getA, han]
      · simp [delA, getA, han, hak, getA_delA rest n k]

/-- same node except for its attribute list (and the mutation counter) -/
def EqModAttrs (r r' : NodeRec) : Prop :=
  r'.kind = r.kind ∧ r'.parent = r.parent ∧ r'.kids = r.kids ∧ r'.data = r.data

theorem setAttribute_attrs (d : Dom) (x : Id) (n v : String) (r : NodeRec)
    (hx : d.get? x = some r) (hk : r.kind.isElem = true) :
    (∃ r', (d.setAttribute x n v).get? x = some r' ∧ EqModAttrs r r' ∧
      ∀ k, getA r'.attrs k = if k = n then some v else getA r.attrs k) ∧
    (∀ y, y ≠ x → (d.setAttribute x n v).get? y = d.get? y) ∧
    (d.setAttribute x n v).next = d.next := by
  have hget := Dom.get?_setAttribute d x n v r hx hk
  refine ⟨⟨{ r with attrs := setA r.attrs n v, muts := r.muts + 1 }, by rw [hget x]; simp,
    ⟨rfl, rfl, rfl, rfl⟩, fun k => by simp [getA_setA]⟩, ?_, by simp⟩
  intro y hy; rw [hget y]; simp [hy]

theorem removeAttribute_attrs (d : Dom) (x : Id) (n : String) (r : NodeRec)
    (hx : d.get? x = some r) (hk : r.kind.isElem = true) :
    (∃ r', (d.removeAttribute x n).get? x = some r' ∧ EqModAttrs r r' ∧
      ∀ k, getA r'.attrs k = if k = n then none else getA r.attrs k) ∧
    (∀ y, y ≠ x → (d.removeAttribute x n).get? y = d.get? y) ∧
    (d.removeAttribute x n).next = d.next := by
  have hel : d.isElement x = true := by simp [Dom.isElement, hx, hk]
  simp only [Dom.removeAttribute, hel, if_true, Dom.get?_modify, Dom.next_modify]
  refine ⟨?_, fun y hy => by simp [hy], trivial⟩
  cases hga : getA r.attrs n with
  | none =>
    refine ⟨r, by simp [hx, hga], ⟨rfl, rfl, rfl, rfl⟩, ?_⟩
    intro k; by_cases h : k = n
    · subst h; simp [hga]
    · simp [h]
  | some w =>
    refine ⟨{ r with attrs := delA r.attrs n, muts := r.muts + 1 }, by simp [hx, hga],
      ⟨rfl, rfl, rfl, rfl⟩, fun k => by simp [getA_delA]⟩

/-- key and present value of an item of the fragment -/
def AttrVal.kv? : AttrVal → Option (String × Option String)
  | .str n v => some (n, some v)
  | .ostr n v => some (n, v)
  | .bool n b => some (n, if b then some "" else none)
  | .cls v => some ("class", some v)
  | .ocls v => some ("class", v)
  | .sty v => some ("style", some v)
  | _ => none

def kvKeys : List AttrVal → List String
  | [] => []
  | a :: r => (match a.kv? with | some (n, _) => [n] | none => []) ++ kvKeys r

def allKV : List AttrVal → Bool
  | [] => true
  | a :: r => a.kv?.isSome && allKV r

/-- stage 2a fragment (decidable): `Attr<K, String | Option<String> | bool>` items and at most one
whole-value `class` and `style` string, every attribute key once -/
def KVAttrs (as : List AttrVal) : Prop := allKV as = true ∧ nodupS (kvKeys as) = true

instance (as : List AttrVal) : Decidable (KVAttrs as) := by unfold KVAttrs; infer_instance

/-- the attribute map a fresh build produces on top of the map `f` -/
def foldVal : List AttrVal → (String → Option String) → String → Option String
  | [], f => f
  | a :: as, f =>
    foldVal as (fun k => match a.kv? with
      | some (n, some v) => if k = n then some v else f k
      | _ => f k)

/-- one build step on the attribute map -/
theorem buildAttr_kv (a : AttrVal) (d : Dom) (el : Id) (r : NodeRec)
    (hg : d.get? el = some r) (hk : r.kind.isElem = true) (ha : a.kv?.isSome = true) :
    (∃ r', (buildAttr el d a).1.get? el = some r' ∧ EqModAttrs r r' ∧
      ∀ k, getA r'.attrs k = (match a.kv? with
        | some (n, some v) => if k = n then some v else getA r.attrs k
        | _ => getA r.attrs k)) ∧
    (∀ y, y ≠ el → (buildAttr el d a).1.get? y = d.get? y) ∧
    (buildAttr el d a).1.next = d.next ∧ (buildAttr el d a).2 = a.initState := by
  have hid : (∃ r', d.get? el = some r' ∧ EqModAttrs r r' ∧ ∀ k, getA r'.attrs k = getA r.attrs k) :=
    ⟨r, hg, ⟨rfl, rfl, rfl, rfl⟩, fun _ => rfl⟩
  cases a with
  | str n v =>
    obtain ⟨h1, h2, h3⟩ := setAttribute_attrs d el n v r hg hk
    exact ⟨by simpa [buildAttr, AttrVal.kv?] using h1, h2, h3, rfl⟩
  | ostr n v =>
    cases v with
    | none => exact ⟨by simpa [buildAttr, AttrVal.kv?] using hid, fun _ _ => rfl, rfl, rfl⟩
    | some v =>
      obtain ⟨h1, h2, h3⟩ := setAttribute_attrs d el n v r hg hk
      exact ⟨by simpa [buildAttr, AttrVal.kv?] using h1, h2, h3, rfl⟩
  | bool n b =>
    cases b with
    | false => exact ⟨by simpa [buildAttr, AttrVal.kv?] using hid, fun _ _ => by simp [buildAttr], by simp [buildAttr], rfl⟩
    | true =>
      obtain ⟨h1, h2, h3⟩ := setAttribute_attrs d el n "" r hg hk
      exact ⟨by simpa [buildAttr, AttrVal.kv?] using h1, by simpa [buildAttr] using h2,
        by simpa [buildAttr] using h3, rfl⟩
  | cls v =>
    obtain ⟨h1, h2, h3⟩ := setAttribute_attrs d el "class" v r hg hk
    exact ⟨by simpa [buildAttr, AttrVal.kv?] using h1, h2, h3, rfl⟩
  | sty v =>
    obtain ⟨h1, h2, h3⟩ := setAttribute_attrs d el "style" v r hg hk
    exact ⟨by simpa [buildAttr, AttrVal.kv?] using h1, h2, h3, rfl⟩
  | ocls v =>
    cases v with
    | none => exact ⟨by simpa [buildAttr, AttrVal.kv?] using hid, fun _ _ => rfl, rfl, rfl⟩
    | some v =>
      obtain ⟨h1, h2, h3⟩ := setAttribute_attrs d el "class" v r hg hk
      exact ⟨by simpa [buildAttr, AttrVal.kv?] using h1, h2, h3, rfl⟩
  | tcls _ _ => simp [AttrVal.kv?] at ha
  | psty _ _ => simp [AttrVal.kv?] at ha
  | opsty _ _ => simp [AttrVal.kv?] at ha

theorem EqModAttrs.trans {a b c : NodeRec} (h1 : EqModAttrs a b) (h2 : EqModAttrs b c) :
    EqModAttrs a c :=
  ⟨h2.1.trans h1.1, h2.2.1.trans h1.2.1, h2.2.2.1.trans h1.2.2.1, h2.2.2.2.trans h1.2.2.2⟩

theorem buildAttrs_kv (as : List AttrVal) : ∀ (d : Dom) (el : Id) (r : NodeRec),
    d.get? el = some r → r.kind.isElem = true → allKV as = true →
    (∃ r', (buildAttrs el as d).1.get? el = some r' ∧ EqModAttrs r r' ∧
      ∀ k, getA r'.attrs k = foldVal as (getA r.attrs) k) ∧
    (∀ y, y ≠ el → (buildAttrs el as d).1.get? y = d.get? y) ∧
    (buildAttrs el as d).1.next = d.next ∧
    (buildAttrs el as d).2 = as.map AttrVal.initState := by
  induction as with
  | nil =>
    intro d el r hg _ _
    exact ⟨⟨r, by simpa [buildAttrs] using hg, ⟨rfl, rfl, rfl, rfl⟩, fun _ => rfl⟩,
      by simp [buildAttrs], by simp [buildAttrs], by simp [buildAttrs]⟩
  | cons a as ih =>
    intro d el r hg hk hall
    simp [allKV] at hall
    obtain ⟨⟨r1, hg1, he1, hv1⟩, ho1, hn1, hs1⟩ := buildAttr_kv a d el r hg hk hall.1
    obtain ⟨⟨r2, hg2, he2, hv2⟩, ho2, hn2, hs2⟩ :=
      ih (buildAttr el d a).1 el r1 hg1 (by rw [he1.1]; exact hk) hall.2
    have hb : buildAttrs el (a :: as) d =
        ((buildAttrs el as (buildAttr el d a).1).1,
          (buildAttr el d a).2 :: (buildAttrs el as (buildAttr el d a).1).2) := rfl
    rw [hb]
    refine ⟨⟨r2, hg2, he1.trans he2, ?_⟩, fun y hy => by dsimp only; rw [ho2 y hy, ho1 y hy],
      by dsimp only; rw [hn2, hn1], by simp [hs1, hs2]⟩
    intro k
    rw [hv2 k]
    simp only [foldVal]
    congr 1
    funext k'
    rw [hv1 k']


/-- present value of the (first) item with key `k` -/
def valOf : List AttrVal → String → Option String
  | [], _ => none
  | a :: as, k =>
    match a.kv? with
    | some (n, pv) => if k = n then pv else valOf as k
    | none => valOf as k

theorem valOf_not_mem : ∀ (as : List AttrVal) (k : String), k ∉ kvKeys as → valOf as k = none
  | [], _, _ => rfl
  | a :: as, k, h => by
    simp only [kvKeys, List.mem_append, not_or] at h
    cases hkv : a.kv? with
    | none => simp [valOf, hkv, valOf_not_mem as k h.2]
    | some p =>
      obtain ⟨n, pv⟩ := p
      simp [hkv] at h
      simp [valOf, hkv, h.1, valOf_not_mem as k h.2]

theorem foldVal_valOf : ∀ (as : List AttrVal) (f : String → Option String) (k : String),
    nodupS (kvKeys as) = true →
    foldVal as f k = (match valOf as k with | some v => some v | none => f k)
  | [], f, k, _ => rfl
  | a :: as, f, k, hnd => by
    cases hkv : a.kv? with
    | none =>
      simp only [kvKeys, hkv, List.nil_append] at hnd
      simp only [foldVal, valOf, hkv]
      exact foldVal_valOf as f k hnd
    | some p =>
      obtain ⟨n, pv⟩ := p
      simp only [kvKeys, hkv, List.singleton_append, nodupS_cons] at hnd
      simp only [foldVal, valOf, hkv]
      rw [foldVal_valOf as _ k hnd.2]
      by_cases hk : k = n
      · subst hk
        rw [valOf_not_mem as k hnd.1]
        cases pv <;> simp
      · cases pv <;> simp [hk]

theorem renderAttrs_kv (as : List AttrVal) (h : KVAttrs as) (k : String) :
    getA (renderAttrs as) k = valOf as k := by
  have hg : (({} : Dom).createElement "x").1.get? 0 = some { kind := .elem "x", data := "" } := by
    simp [Dom.createElement, Dom.get?_create]
  obtain ⟨⟨r', h1, _, h2⟩, _⟩ := buildAttrs_kv as (({} : Dom).createElement "x").1 0 _ hg rfl h.1
  simp only [renderAttrs, Dom.attrsOf, h1]
  rw [h2 k, foldVal_valOf as _ k h.2]
  simp only [getA]
  cases valOf as k <;> rfl

theorem AttrsFresh_kv (as : List AttrVal) (h : KVAttrs as) : AttrsFresh AttrsEq as := by
  intro d el r hg hk hat
  obtain ⟨⟨r', h1, h2, h3⟩, h4, h5, h6⟩ := buildAttrs_kv as d el r hg hk h.1
  refine ⟨⟨r', h1, ?_, h2⟩, h4, h5, h6⟩
  intro k
  rw [h3 k, renderAttrs_kv as h k, foldVal_valOf as _ k h.2, hat]
  simp only [getA]
  cases valOf as k <;> rfl

/-- the shape of one rebuild step: nothing (value unchanged), `set_attribute`, or `remove_attribute` -/
theorem rebuildAttr_shape (a b : AttrVal) (er : Bool) (d : Dom) (el : Id) (n : String)
    (pa pb : Option String)
    (hty : a.ty = b.ty) (ha : a.kv? = some (n, pa)) (hb : b.kv? = some (n, pb)) :
    ∃ D, rebuildAttr er el d b a.initState = (D, b.initState) ∧
      ((D = d ∧ pb = pa) ∨ (∃ v, pb = some v ∧ D = d.setAttribute el n v) ∨
        (pb = none ∧ D = d.removeAttribute el n)) := by
  cases a <;> cases b <;> simp [AttrVal.ty] at hty <;> simp [AttrVal.kv?] at ha hb
  case str.str na va nb vb =>
    obtain ⟨h1, h2⟩ := ha; obtain ⟨h3, h4⟩ := hb; subst h1 h2 h4
    refine ⟨_, rfl, ?_⟩
    by_cases hv : vb = va
    · subst hv; simp
    · simp [hv, h3]
  case cls.cls va vb =>
    obtain ⟨h1, h2⟩ := ha; obtain ⟨h3, h4⟩ := hb; subst h1 h2 h4
    refine ⟨_, rfl, ?_⟩
    by_cases hv : vb = va
    · subst hv; simp
    · simp [hv]
  case sty.sty va vb =>
    obtain ⟨h1, h2⟩ := ha; obtain ⟨h3, h4⟩ := hb; subst h1 h2 h4
    refine ⟨_, rfl, ?_⟩
    by_cases hv : vb = va
    · subst hv; simp
    · simp [hv]
  case ostr.ostr na va nb vb =>
    obtain ⟨h1, h2⟩ := ha; obtain ⟨h3, h4⟩ := hb; subst h1 h2 h4
    cases va <;> cases vb
    · exact ⟨_, rfl, by simp⟩
    · exact ⟨_, rfl, by simp [h3]⟩
    · exact ⟨_, rfl, by simp [h3]⟩
    · rename_i va vb
      refine ⟨_, rfl, ?_⟩
      by_cases hv : vb = va
      · subst hv; simp
      · simp [hv, h3]
  case bool.bool na ba nb bb =>
    obtain ⟨h1, h2⟩ := ha; obtain ⟨h3, h4⟩ := hb; subst h1 h2 h4
    cases ba <;> cases bb
    · exact ⟨_, rfl, by simp⟩
    · exact ⟨_, rfl, by simp [h3]⟩
    · exact ⟨_, rfl, by simp [h3]⟩
    · exact ⟨_, rfl, by simp⟩
  case ocls.ocls va vb =>
    obtain ⟨h1, h2⟩ := ha; obtain ⟨h3, h4⟩ := hb; subst h1 h2 h4
    cases va <;> cases vb
    · exact ⟨_, rfl, by simp⟩
    · exact ⟨_, rfl, by simp⟩
    · exact ⟨_, rfl, by simp⟩
    · rename_i va vb
      refine ⟨_, rfl, ?_⟩
      by_cases hv : vb = va
      · subst hv; simp
      · simp [hv]

/-- one rebuild step on the attribute map: the key of the item gets its new present value -/
theorem rebuildAttr_kv (a b : AttrVal) (er : Bool) (d : Dom) (el : Id) (r : NodeRec) (n : String)
    (pa pb : Option String)
    (hg : d.get? el = some r) (hk : r.kind.isElem = true)
    (hty : a.ty = b.ty) (ha : a.kv? = some (n, pa)) (hb : b.kv? = some (n, pb))
    (hcur : getA r.attrs n = pa) :
    (∃ r', (rebuildAttr er el d b a.initState).1.get? el = some r' ∧ EqModAttrs r r' ∧
      ∀ k, getA r'.attrs k = if k = n then pb else getA r.attrs k) ∧
    (∀ y, y ≠ el → (rebuildAttr er el d b a.initState).1.get? y = d.get? y) ∧
    (rebuildAttr er el d b a.initState).1.next = d.next ∧
    (rebuildAttr er el d b a.initState).2 = b.initState := by
  obtain ⟨D, hD, hshape⟩ := rebuildAttr_shape a b er d el n pa pb hty ha hb
  rw [hD]
  rcases hshape with ⟨rfl, e⟩ | ⟨v, e, rfl⟩ | ⟨e, rfl⟩
  · refine ⟨⟨r, hg, ⟨rfl, rfl, rfl, rfl⟩, fun k => ?_⟩, fun _ _ => rfl, rfl, rfl⟩
    by_cases h : k = n
    · subst h; simp [hcur, e]
    · simp [h]
  · subst e
    obtain ⟨h1, h2, h3⟩ := setAttribute_attrs d el n v r hg hk
    exact ⟨h1, h2, h3, rfl⟩
  · subst e
    obtain ⟨h1, h2, h3⟩ := removeAttribute_attrs d el n r hg hk
    exact ⟨h1, h2, h3, rfl⟩


theorem kv_of_ty {a b : AttrVal} (hty : a.ty = b.ty) {n : String} {pa : Option String}
    (ha : a.kv? = some (n, pa)) : ∃ pb, b.kv? = some (n, pb) := by
  cases a <;> cases b <;> simp [AttrVal.ty] at hty <;> simp [AttrVal.kv?] at ha ⊢
  all_goals first | exact ⟨hty ▸ ha.1⟩ | exact hty ▸ ha.1 | exact ha.1 | skip
  all_goals simp_all

theorem rebuildAttrs_kv (as : List AttrVal) : ∀ (bs : List AttrVal) (er : Bool) (d : Dom) (el : Id)
    (r : NodeRec) (g : String → Option String),
    d.get? el = some r → r.kind.isElem = true → allKV as = true →
    as.map AttrVal.ty = bs.map AttrVal.ty → nodupS (kvKeys as) = true →
    (∀ k, getA r.attrs k = if k ∈ kvKeys as then valOf as k else g k) →
    kvKeys bs = kvKeys as ∧ allKV bs = true ∧
    (∃ r', (rebuildAttrs er el bs (as.map AttrVal.initState) d).1.get? el = some r' ∧
      EqModAttrs r r' ∧ ∀ k, getA r'.attrs k = if k ∈ kvKeys bs then valOf bs k else g k) ∧
    (∀ y, y ≠ el → (rebuildAttrs er el bs (as.map AttrVal.initState) d).1.get? y = d.get? y) ∧
    (rebuildAttrs er el bs (as.map AttrVal.initState) d).1.next = d.next ∧
    (rebuildAttrs er el bs (as.map AttrVal.initState) d).2 = bs.map AttrVal.initState := by
  induction as with
  | nil =>
    intro bs er d el r g hg _ _ hty _ hinv
    cases bs with
    | cons _ _ => simp at hty
    | nil =>
      exact ⟨rfl, rfl, ⟨r, by simpa [rebuildAttrs] using hg, ⟨rfl, rfl, rfl, rfl⟩, hinv⟩,
        by simp [rebuildAttrs], by simp [rebuildAttrs], by simp [rebuildAttrs]⟩
  | cons a as ih =>
    intro bs er d el r g hg hk hall hty hnd hinv
    cases bs with
    | nil => simp at hty
    | cons b bs =>
    simp only [List.map_cons, List.cons.injEq] at hty
    simp only [allKV, Bool.and_eq_true] at hall
    obtain ⟨⟨n, pa⟩, hkva⟩ := Option.isSome_iff_exists.mp hall.1
    obtain ⟨pb, hkvb⟩ := kv_of_ty hty.1 hkva
    simp only [kvKeys, hkva, List.singleton_append, nodupS_cons] at hnd
    have hcur : getA r.attrs n = pa := by
      rw [hinv n]; simp [kvKeys, hkva, valOf]
    obtain ⟨⟨r1, hg1, he1, hv1⟩, ho1, hn1, hs1⟩ :=
      rebuildAttr_kv a b er d el r n pa pb hg hk hty.1 hkva hkvb hcur
    let g' : String → Option String := fun k => if k = n then pb else g k
    have hinv1 : ∀ k, getA r1.attrs k = if k ∈ kvKeys as then valOf as k else g' k := by
      intro k
      rw [hv1 k]
      by_cases hkn : k = n
      · subst hkn; simp [hnd.1, g']
      · rw [hinv k]; simp [kvKeys, hkva, valOf, hkn, g']
    obtain ⟨hkeys, hallb, ⟨r2, hg2, he2, hv2⟩, ho2, hn2, hs2⟩ :=
      ih bs er (rebuildAttr er el d b a.initState).1 el r1 g' hg1 (by rw [he1.1]; exact hk) hall.2
        hty.2 hnd.2 hinv1
    have hrb : rebuildAttrs er el (b :: bs) (List.map AttrVal.initState (a :: as)) d =
        ((rebuildAttrs er el bs (as.map AttrVal.initState) (rebuildAttr er el d b a.initState).1).1,
          (rebuildAttr er el d b a.initState).2 ::
            (rebuildAttrs er el bs (as.map AttrVal.initState) (rebuildAttr er el d b a.initState).1).2) := rfl
    rw [hrb]
    refine ⟨by simp [kvKeys, hkva, hkvb, hkeys], by simp [allKV, hkvb, hallb],
      ⟨r2, hg2, he1.trans he2, ?_⟩, fun y hy => by dsimp only; rw [ho2 y hy, ho1 y hy],
      by dsimp only; rw [hn2, hn1], by simp [hs1, hs2]⟩
    intro k
    rw [hv2 k]
    by_cases hkn : k = n
    · subst hkn; simp [kvKeys, hkvb, valOf, hkeys, hnd.1, g']
    · simp [kvKeys, hkvb, valOf, hkn, g']

theorem AttrsRebuild_kv (as bs : List AttrVal) (ha : KVAttrs as) (hb : KVAttrs bs)
    (hty : as.map AttrVal.ty = bs.map AttrVal.ty) : AttrsRebuild AttrsEq as bs := by
  intro er d el r hg hk hat
  have hinv : ∀ k, getA r.attrs k = if k ∈ kvKeys as then valOf as k else none := by
    intro k
    rw [hat k, renderAttrs_kv as ha k]
    by_cases hm : k ∈ kvKeys as
    · simp [hm]
    · simp [hm, valOf_not_mem as k hm]
  obtain ⟨_, _, ⟨r', h1, h2, h3⟩, h4, h5, h6⟩ :=
    rebuildAttrs_kv as bs er d el r (fun _ => none) hg hk ha.1 hty ha.2 hinv
  refine ⟨⟨r', h1, ?_, h2⟩, h4, h5, h6⟩
  intro k
  rw [h3 k, renderAttrs_kv bs hb k]
  by_cases hm : k ∈ kvKeys bs
  · simp [hm]
  · simp [hm, valOf_not_mem bs k hm]

end Leptos.View
