import LeptosModel.Proofs.KeyedPlace
import LeptosModel.Proofs.KeyedLogs
/-!
# The DOM order after `apply_diff` under `settledMonotone` (C11)
-/
namespace Leptos.Keyed

/-- the old item keyed `k` -/
def oldOf (old : List Item) (k : Key) : Option Item := old.find? fun it => it.key == k

section
variable {f t : List Key} {old : List Item} {rem : List Nat} {U : List DiffOpMove} {ads : List DiffOpAdd}

theorem Ctx.oldOf_eq (c : Ctx f t old rem U ads) {i : Nat} {it : Item} (h : old[i]? = some it) :
    oldOf old it.key = some it := by
  unfold oldOf
  rw [List.find?_eq_some_iff_getElem]
  obtain ⟨hi, hit⟩ := List.getElem?_eq_some_iff.mp h
  refine ⟨by simp, i, hi, hit, ?_⟩
  intro j hj
  simp only [Bool.not_eq_true', beq_eq_false_iff_ne, ne_eq]
  intro heq
  have h1 : f[j]? = some it.key := by
    rw [← c.hold, List.getElem?_map, List.getElem?_eq_getElem (by omega)]
    simp [heq]
  have h2 : f[i]? = some it.key := by
    rw [← c.hold, List.getElem?_map, h]; rfl
  have := (List.getElem?_inj (by rw [← c.old_length]; omega) c.hf).mp (h1.trans h2.symm)
  omega

theorem Ctx.oldOf_of_key (c : Ctx f t old rem U ads) {i : Nat} {k : Key} (h : f[i]? = some k) :
    oldOf old k = old[i]? := by
  obtain ⟨it, hit, hk⟩ := c.old_get h
  rw [hit, ← hk]
  exact c.oldOf_eq hit

theorem oldOf_mem {old : List Item} {k : Key} {it : Item} (h : oldOf old k = some it) :
    it ∈ old ∧ it.key = k := by
  unfold oldOf at h
  exact ⟨List.mem_of_find?_eq_some h, by simpa using List.find?_some h⟩

theorem Ctx.mem_domMoved (_c : Ctx f t old rem U ads) (hU : U = (unpackMoves (diff f t)).1) {k : Key} :
    k ∈ domMovedKeys f t ↔ ∃ m ∈ U, m.moveInDom = true ∧ f[m.from_]? = some k := by
  unfold domMovedKeys
  rw [← hU, List.mem_filterMap]
  constructor
  · rintro ⟨m, hm, hk⟩
    obtain ⟨hmU, hd⟩ := List.mem_filter.mp hm
    exact ⟨m, hmU, hd, hk⟩
  · rintro ⟨m, hm, hd, hk⟩
    exact ⟨m, List.mem_filter.mpr ⟨hm, hd⟩, hk⟩

theorem Ctx.settled_iff (c : Ctx f t old rem U ads) (hU : U = (unpackMoves (diff f t)).1) {k : Key} :
    settled f t k = true ↔ k ∈ f ∧ k ∈ t ∧ ¬ ∃ m ∈ U, m.moveInDom = true ∧ f[m.from_]? = some k := by
  unfold settled
  simp only [Bool.and_eq_true, List.contains_iff_mem, Bool.not_eq_true', ← c.mem_domMoved hU]
  constructor
  · rintro ⟨⟨h1, h2⟩, h3⟩
    exact ⟨h1, h2, by simpa using h3⟩
  · rintro ⟨h1, h2, h3⟩
    exact ⟨⟨h1, h2⟩, by simpa using h3⟩

/-- a target index that is not "in place" is empty after the move-out -/
theorem Ctx.storage3_target (c : Ctx f t old rem U ads) (n : Nat) {j : Nat} {k : Key}
    (hk : t[j]? = some k) (hne : f[j]? ≠ some k) :
    itemAt (storage2 (old.map some) rem U ++ List.replicate n none) j = none := by
  rw [c.itemAt_storage3]
  split
  · rfl
  · rename_i hn
    simp only [not_or] at hn
    cases hf : f[j]? with
    | none =>
      have : old.length ≤ j := by
        rw [c.old_length]
        exact Nat.le_of_not_lt fun h => by simp [List.getElem?_eq_getElem h] at hf
      exact List.getElem?_eq_none this
    | some k' =>
      exfalso
      by_cases hkt : k' ∈ t
      · obtain ⟨j', hj'⟩ := List.mem_iff_getElem?.mp hkt
        have hjj : j ≠ j' := by
          rintro rfl
          rw [hk] at hj'
          simp only [Option.some.injEq] at hj'
          subst hj'
          exact hne hf
        obtain ⟨m, hm, hmf, _⟩ := (c.sp.mem_pairs c.ht).mpr ⟨hjj, k', hf, hj'⟩
        exact hn.2 (List.mem_map.mpr ⟨m, hm, hmf⟩)
      · exact hn.1 (c.sp.mem_rem.mpr (isRem_iff.mpr ⟨k', hf, hkt⟩))

/-- storage before the DOM phases: exactly the settled items, at their new indices -/
theorem Ctx.storage4_at (c : Ctx f t old rem U ads) (hU : U = (unpackMoves (diff f t)).1) (n : Nat)
    {j : Nat} {k : Key} (hk : t[j]? = some k) :
    itemAt (storage4 (old.map some) rem U n) j = if settled f t k then oldOf old k else none := by
  have hto := c.sp.to_nodup c.hf c.ht
  have hjt := (List.getElem?_eq_some_iff.mp hk).1
  unfold storage4
  by_cases hkf : k ∈ f
  · obtain ⟨i, hi⟩ := List.mem_iff_getElem?.mp hkf
    have hilt := (List.getElem?_eq_some_iff.mp hi).1
    by_cases hij : i = j
    · subst hij
      -- in place: settled, never written
      have hsett : settled f t k = true := by
        rw [c.settled_iff hU]
        refine ⟨hkf, List.mem_of_getElem? hk, ?_⟩
        rintro ⟨m, hm, _, hmk⟩
        obtain ⟨hne, k', hk1, hk2⟩ := (c.sp.mem_pairs c.ht).mp ⟨m, hm, rfl, rfl⟩
        rw [hmk] at hk1; simp only [Option.some.injEq] at hk1; subst hk1
        have h1 := (List.getElem?_inj hilt c.hf).mp (hi.trans hmk.symm)
        have h2 := (List.getElem?_inj hjt c.ht).mp (hk.trans hk2.symm)
        exact hne (h1.symm.trans h2)
      rw [hsett, if_pos rfl, itemAt_applyWrites_of_not_mem, c.itemAt_storage3, if_neg, c.oldOf_of_key hi]
      · rintro (h | h)
        · obtain ⟨k', hk', hkt⟩ := isRem_iff.mp (c.sp.mem_rem.mp h)
          rw [hi] at hk'; simp only [Option.some.injEq] at hk'; subst hk'
          exact hkt (List.mem_of_getElem? hk)
        · obtain ⟨m, hm, hmf⟩ := List.mem_map.mp h
          obtain ⟨hne, k', hk1, hk2⟩ := (c.sp.mem_pairs c.ht).mp ⟨m, hm, rfl, rfl⟩
          rw [hmf, hi] at hk1; simp only [Option.some.injEq] at hk1; subst hk1
          have := (List.getElem?_inj hjt c.ht).mp (hk.trans hk2.symm)
          exact hne (hmf.trans this)
      · intro h
        have := c.ndWrites_pos_sublist.subset h
        obtain ⟨m, hm, hmt⟩ := List.mem_map.mp this
        obtain ⟨hne, k', hk1, hk2⟩ := (c.sp.mem_pairs c.ht).mp ⟨m, hm, rfl, rfl⟩
        rw [hmt, hk] at hk2; simp only [Option.some.injEq] at hk2; subst hk2
        have := (List.getElem?_inj hilt c.hf).mp (hi.trans hk1.symm)
        exact hne (this.symm.trans hmt.symm ▸ rfl)
    · obtain ⟨m, hm, hmf, hmt⟩ := (c.sp.mem_pairs c.ht).mpr ⟨hij, k, hi, hk⟩
      subst hmf hmt
      have hlen : m.to_ < (storage2 (old.map some) rem U ++ List.replicate n none).length := by
        sorry
      sorry
  · sorry

end

end Leptos.Keyed
