import LeptosModel.Proofs.KeyedPlace
import LeptosModel.Proofs.KeyedLogs
/-!
# The DOM order after `apply_diff` under `settledMonotone` (C11)
-/
namespace Leptos.Keyed

/-- the old item keyed `k` -/
def oldOf (old : List Item) (k : Key) : Option Item := old.find? fun it => it.key == k

section
variable {D : List Key → List Key → Diff} {f t : List Key} {old : List Item} {rem : List Nat} {U : List DiffOpMove}
  {ads : List DiffOpAdd}

theorem Ctx.oldOf_eq (c : Ctx f t old rem U ads) {i : Nat} {it : Item} (h : old[i]? = some it) :
    oldOf old it.key = some it := by
  unfold oldOf
  rw [List.find?_eq_some_iff_getElem]
  obtain ⟨hi, hit⟩ := List.getElem?_eq_some_iff.mp h
  refine ⟨by simp, i, hi, hit, ?_⟩
  intro j hj
  simp only [Bool.not_eq_true', beq_eq_false_iff_ne, ne_eq]
  intro heq
  have h1 : f[j]? = some it.key := by
    rw [← c.hold, List.getElem?_map, List.getElem?_eq_getElem (by omega)]
    simp [heq]
  have h2 : f[i]? = some it.key := by
    rw [← c.hold, List.getElem?_map, h]; rfl
  have := (List.getElem?_inj (by rw [← c.old_length]; omega) c.hf).mp (h1.trans h2.symm)
  omega

theorem Ctx.oldOf_of_key (c : Ctx f t old rem U ads) {i : Nat} {k : Key} (h : f[i]? = some k) :
    oldOf old k = old[i]? := by
  obtain ⟨it, hit, hk⟩ := c.old_get h
  rw [hit, ← hk]
  exact c.oldOf_eq hit

theorem oldOf_mem {old : List Item} {k : Key} {it : Item} (h : oldOf old k = some it) :
    it ∈ old ∧ it.key = k := by
  unfold oldOf at h
  exact ⟨List.mem_of_find?_eq_some h, by simpa using List.find?_some h⟩

theorem Ctx.mem_domMoved (_c : Ctx f t old rem U ads) (hU : U = (unpackMoves (D f t)).1) {k : Key} :
    k ∈ domMovedKeys D f t ↔ ∃ m ∈ U, m.moveInDom = true ∧ f[m.from_]? = some k := by
  unfold domMovedKeys
  rw [← hU, List.mem_filterMap]
  constructor
  · rintro ⟨m, hm, hk⟩
    obtain ⟨hmU, hd⟩ := List.mem_filter.mp hm
    exact ⟨m, hmU, hd, hk⟩
  · rintro ⟨m, hm, hd, hk⟩
    exact ⟨m, List.mem_filter.mpr ⟨hm, hd⟩, hk⟩

theorem Ctx.settled_iff (c : Ctx f t old rem U ads) (hU : U = (unpackMoves (D f t)).1) {k : Key} :
    settled D f t k = true ↔ k ∈ f ∧ k ∈ t ∧ ¬ ∃ m ∈ U, m.moveInDom = true ∧ f[m.from_]? = some k := by
  unfold settled
  simp only [Bool.and_eq_true, List.contains_iff_mem, Bool.not_eq_true', ← c.mem_domMoved hU]
  constructor
  · rintro ⟨⟨h1, h2⟩, h3⟩
    exact ⟨h1, h2, by simpa using h3⟩
  · rintro ⟨h1, h2, h3⟩
    exact ⟨⟨h1, h2⟩, by simpa using h3⟩

/-- a target index that is not "in place" is empty after the move-out -/
theorem Ctx.storage3_target (c : Ctx f t old rem U ads) (n : Nat) {j : Nat} {k : Key}
    (hk : t[j]? = some k) (hne : f[j]? ≠ some k) :
    itemAt (storage2 (old.map some) rem U ++ List.replicate n none) j = none := by
  rw [c.itemAt_storage3]
  split
  · rfl
  · rename_i hn
    simp only [not_or] at hn
    cases hf : f[j]? with
    | none =>
      have : old.length ≤ j := by
        rw [c.old_length]
        exact Nat.le_of_not_lt fun h => by simp [List.getElem?_eq_getElem h] at hf
      exact List.getElem?_eq_none this
    | some k' =>
      exfalso
      by_cases hkt : k' ∈ t
      · obtain ⟨j', hj'⟩ := List.mem_iff_getElem?.mp hkt
        have hjj : j ≠ j' := by
          rintro rfl
          rw [hk] at hj'
          simp only [Option.some.injEq] at hj'
          subst hj'
          exact hne hf
        obtain ⟨m, hm, hmf, _⟩ := (c.sp.mem_pairs c.ht).mpr ⟨hjj, k', hf, hj'⟩
        exact hn.2 (List.mem_map.mpr ⟨m, hm, hmf⟩)
      · exact hn.1 (c.sp.mem_rem.mpr (isRem_iff.mpr ⟨k', hf, hkt⟩))

/-- storage before the DOM phases: exactly the settled items, at their new indices -/
theorem Ctx.storage4_at (c : Ctx f t old rem U ads) (hU : U = (unpackMoves (D f t)).1)
    {j : Nat} {k : Key} (hk : t[j]? = some k) :
    itemAt (storage4 (old.map some) rem U ads.length) j = if settled D f t k then oldOf old k else none := by
  have hfrom := c.sp.from_nodup c.ht
  have hto := c.sp.to_nodup c.hf c.ht
  have hjt := (List.getElem?_eq_some_iff.mp hk).1
  unfold storage4
  by_cases hkf : k ∈ f
  · obtain ⟨i, hi⟩ := List.mem_iff_getElem?.mp hkf
    have hilt := (List.getElem?_eq_some_iff.mp hi).1
    by_cases hij : i = j
    · subst hij
      -- in place: settled, never written
      have hsett : settled D f t k = true := by
        rw [c.settled_iff hU]
        refine ⟨hkf, List.mem_of_getElem? hk, ?_⟩
        rintro ⟨m, hm, _, hmk⟩
        obtain ⟨hne, k', hk1, hk2⟩ := (c.sp.mem_pairs c.ht).mp ⟨m, hm, rfl, rfl⟩
        rw [hmk] at hk1; simp only [Option.some.injEq] at hk1; subst hk1
        have h1 := (List.getElem?_inj hilt c.hf).mp (hi.trans hmk.symm)
        have h2 := (List.getElem?_inj hjt c.ht).mp (hk.trans hk2.symm)
        exact hne (h1.symm.trans h2)
      rw [hsett, if_pos rfl, itemAt_applyWrites_of_not_mem, c.itemAt_storage3, if_neg, c.oldOf_of_key hi]
      · rintro (h | h)
        · obtain ⟨k', hk', hkt⟩ := isRem_iff.mp (c.sp.mem_rem.mp h)
          rw [hi] at hk'; simp only [Option.some.injEq] at hk'; subst hk'
          exact hkt (List.mem_of_getElem? hk)
        · obtain ⟨m, hm, hmf⟩ := List.mem_map.mp h
          obtain ⟨hne, k', hk1, hk2⟩ := (c.sp.mem_pairs c.ht).mp ⟨m, hm, rfl, rfl⟩
          rw [hmf, hi] at hk1; simp only [Option.some.injEq] at hk1; subst hk1
          have := (List.getElem?_inj hjt c.ht).mp (hk.trans hk2.symm)
          exact hne (hmf.trans this)
      · intro h
        have := c.ndWrites_pos_sublist.subset h
        obtain ⟨m, hm, hmt⟩ := List.mem_map.mp this
        obtain ⟨hne, k', hk1, hk2⟩ := (c.sp.mem_pairs c.ht).mp ⟨m, hm, rfl, rfl⟩
        rw [hmt, hk] at hk2; simp only [Option.some.injEq] at hk2; subst hk2
        have := (List.getElem?_inj hilt c.hf).mp (hi.trans hk1.symm)
        exact hne (this.symm.trans hmt.symm ▸ rfl)
    · obtain ⟨m, hm, hmf, hmt⟩ := (c.sp.mem_pairs c.ht).mpr ⟨hij, k, hi, hk⟩
      subst hmf hmt
      have hlen : m.to_ < (storage2 (old.map some) rem U ++ List.replicate ads.length none).length := by
        have := c.to_lt hm; have := c.length_le; have := c.old_length
        simp [storage2]; omega
      have hfj : f[m.to_]? ≠ some k := by
        intro h
        exact hij ((List.getElem?_inj hilt c.hf).mp (hi.trans h.symm))
      by_cases hd : m.moveInDom = true
      · have hsett : settled D f t k = false := by
          rw [Bool.eq_false_iff, Ne, c.settled_iff hU]
          exact fun h => h.2.2 ⟨m, hm, hd, hi⟩
        rw [hsett, itemAt_applyWrites_of_not_mem, c.storage3_target _ hk hfj]
        · simp
        · intro h
          rw [c.ndWrites_eq, List.map_map, List.mem_map] at h
          obtain ⟨m', hm', hmt'⟩ := h
          obtain ⟨hmU', hd'⟩ := List.mem_filter.mp hm'
          have := eq_of_mem_of_nodup_map hto hmU' hm hmt'
          subst this
          simp [hd] at hd'
      · have hd' : m.moveInDom = false := by simpa using hd
        have hsett : settled D f t k = true := by
          rw [c.settled_iff hU]
          refine ⟨hkf, List.mem_of_getElem? hk, ?_⟩
          rintro ⟨m', hm', hdm', hmk'⟩
          have h1 := (List.getElem?_inj hilt c.hf).mp (hi.trans hmk'.symm)
          have := eq_of_mem_of_nodup_map hfrom hm hm' h1
          subst this
          simp [hd'] at hdm'
        rw [hsett, if_pos rfl, c.oldOf_of_key hi]
        apply itemAt_applyWrites_of_mem (List.Nodup.sublist c.ndWrites_pos_sublist hto) _ hlen
        rw [c.ndWrites_eq, List.mem_map]
        exact ⟨m, List.mem_filter.mpr ⟨hm, by simp [hd']⟩, rfl⟩
  · have hsett : settled D f t k = false := by
      rw [Bool.eq_false_iff, Ne, c.settled_iff hU]
      exact fun h => hkf h.1
    rw [hsett, itemAt_applyWrites_of_not_mem,
      c.storage3_target _ hk (fun h => hkf (List.mem_of_getElem? h))]
    · simp
    · intro h
      have := c.ndWrites_pos_sublist.subset h
      obtain ⟨m, hm, hmt⟩ := List.mem_map.mp this
      obtain ⟨_, k', hk1, hk2⟩ := (c.sp.mem_pairs c.ht).mp ⟨m, hm, rfl, rfl⟩
      rw [hmt, hk] at hk2; simp only [Option.some.injEq] at hk2; subst hk2
      exact hkf (List.mem_of_getElem? hk1)

theorem Ctx.storage4_beyond (c : Ctx f t old rem U ads) (n : Nat) {j : Nat} (hj : t.length ≤ j) :
    itemAt (storage4 (old.map some) rem U n) j = none := by
  unfold storage4
  rw [itemAt_applyWrites_of_not_mem, c.itemAt_storage3]
  · split
    · rfl
    · rename_i hn
      simp only [not_or] at hn
      cases hf : f[j]? with
      | none =>
        have : old.length ≤ j := by
          rw [c.old_length]
          exact Nat.le_of_not_lt fun h => by simp [List.getElem?_eq_getElem h] at hf
        exact List.getElem?_eq_none this
      | some k =>
        exfalso
        by_cases hkt : k ∈ t
        · obtain ⟨j', hj'⟩ := List.mem_iff_getElem?.mp hkt
          have hlt := (List.getElem?_eq_some_iff.mp hj').1
          obtain ⟨m, hm, hmf, _⟩ := (c.sp.mem_pairs c.ht).mpr ⟨(by omega : j ≠ j'), k, hf, hj'⟩
          exact hn.2 (List.mem_map.mpr ⟨m, hm, hmf⟩)
        · exact hn.1 (c.sp.mem_rem.mpr (isRem_iff.mpr ⟨k, hf, hkt⟩))
  · intro h
    have := c.ndWrites_pos_sublist.subset h
    obtain ⟨m, hm, rfl⟩ := List.mem_map.mp this
    have := c.to_lt hm; omega

end

/-! ### the stored items before the DOM phases, as a list -/

theorem somes_eq_nil_of_all_none : ∀ (S : List (Option Item)), (∀ j, itemAt S j = none) → somes S = []
  | [], _ => rfl
  | none :: S, h => by
    rw [somes_cons_none]
    exact somes_eq_nil_of_all_none S (fun j => by simpa [itemAt] using h (j + 1))
  | some a :: S, h => by simpa [itemAt] using h 0

theorem somes_eq_filterMap (g : Key → Option Item) : ∀ (t : List Key) (S : List (Option Item)),
    (∀ (j : Nat) (k : Key), t[j]? = some k → itemAt S j = g k) → (∀ j, t.length ≤ j → itemAt S j = none) →
    somes S = t.filterMap g
  | [], S, _, h2 => by
    simpa using somes_eq_nil_of_all_none S (fun j => h2 j (by simp))
  | k :: t, [], h1, _ => by
    have h0 : g k = none := by simpa [itemAt] using (h1 0 k rfl).symm
    have := somes_eq_filterMap g t [] (fun j k' hk' => by
      have := h1 (j + 1) k' (by simpa using hk')
      simpa [itemAt] using this) (fun j _ => by simp [itemAt])
    simp [h0, ← this, somes]
  | k :: t, o :: S, h1, h2 => by
    have h0 : o = g k := by simpa [itemAt] using h1 0 k rfl
    have ih := somes_eq_filterMap g t S (fun j k' hk' => by
      have := h1 (j + 1) k' (by simpa using hk')
      simpa [itemAt] using this) (fun j hj => by
      have := h2 (j + 1) (by simp; omega)
      simpa [itemAt] using this)
    rw [List.filterMap_cons, ← h0, ← ih]
    cases o <;> rfl

theorem filterMap_ite (p : Key → Bool) (g : Key → Option Item) : ∀ (l : List Key),
    l.filterMap (fun k => if p k then g k else none) = (l.filter p).filterMap g
  | [] => rfl
  | a :: l => by
    by_cases h : p a = true
    · simp [List.filterMap_cons, h, filterMap_ite p g l]
    · simp [h, filterMap_ite p g l]

section
variable {D : List Key → List Key → Diff} {f t : List Key} {old : List Item} {rem : List Nat} {U : List DiffOpMove}
  {ads : List DiffOpAdd}

theorem Ctx.filter_keys_filterMap_oldOf (c : Ctx f t old rem U ads) (p : Key → Bool) :
    (f.filter p).filterMap (oldOf old) = old.filter fun it => p it.key := by
  rw [← c.hold, List.filter_map, List.filterMap_map]
  have : ∀ it ∈ old.filter (p ∘ fun x => x.key), (oldOf old ∘ fun x => x.key) it = some it := by
    intro it hit
    obtain ⟨i, hi⟩ := List.mem_iff_getElem?.mp (List.mem_filter.mp hit).1
    exact c.oldOf_eq hi
  rw [filterMap_congr' this]
  simp [Function.comp_def]

/-- under `settledMonotone`, the items stored before the DOM phases are the settled old items, in the
OLD order -/
theorem Ctx.somes_storage4 (c : Ctx f t old rem U ads) (hU : U = (unpackMoves (D f t)).1)
    (hsm : settledMonotone D f t = true) :
    somes (storage4 (old.map some) rem U ads.length) = old.filter fun it => settled D f t it.key := by
  rw [somes_eq_filterMap (fun k => if settled D f t k then oldOf old k else none) t _
    (fun j k hk => c.storage4_at hU hk) (fun j hj => c.storage4_beyond _ hj)]
  rw [filterMap_ite]
  have : t.filter (settled D f t) = f.filter (settled D f t) := by
    unfold settledMonotone at hsm
    exact (by simpa using hsm : f.filter (settled D f t) = t.filter (settled D f t)).symm
  rw [this, c.filter_keys_filterMap_oldOf]

end

/-! ### the removal phase on the region -/

theorem nodup_unmountItem {kids : List NodeId} (it : Item) (h : kids.Nodup) : (unmountItem kids it).Nodup := by
  rw [unmountItem_eq_filter it h]
  exact List.Nodup.sublist List.filter_sublist h

theorem mem_unmountItem {kids : List NodeId} {it : Item} (h : kids.Nodup) {n : NodeId} :
    n ∈ unmountItem kids it ↔ n ∈ kids ∧ n ∉ it.nodes := by
  rw [unmountItem_eq_filter it h, List.mem_filter]
  simp

theorem unmount_fold_region (pre post : List NodeId) (marker : NodeId) : ∀ (R seq : List Item),
    (pre ++ blocks seq ++ marker :: post).Nodup → (∀ z ∈ seq, z.nodes ≠ []) → R.Nodup →
    (∀ x ∈ R, x ∈ seq) →
    R.foldl unmountItem (pre ++ blocks seq ++ marker :: post)
      = pre ++ blocks (seq.filter fun z => !R.contains z) ++ marker :: post
  | [], seq, _, _, _, _ => by
    have : seq.filter (fun z => !([] : List Item).contains z) = seq := List.filter_eq_self.mpr (by simp)
    rw [this]; rfl
  | x :: R, seq, hnd, hne, hR, hsub => by
    have h1 := List.nodup_append.mp hnd
    have h2 := List.nodup_append.mp h1.1
    have hseq := nodup_of_blocks_nodup h2.2.1 hne
    simp only [List.nodup_cons] at hR
    rw [List.foldl_cons, unmountItem_eq_filter x hnd,
      region_filter pre post marker seq x hnd hne (Or.inl (hsub x (by simp)))]
    have hnd' : (pre ++ blocks (seq.erase x) ++ marker :: post).Nodup := by
      rw [← region_filter pre post marker seq x hnd hne (Or.inl (hsub x (by simp)))]
      exact List.Nodup.sublist List.filter_sublist hnd
    rw [unmount_fold_region pre post marker R (seq.erase x) hnd'
      (fun z hz => hne z (List.mem_of_mem_erase hz)) hR.2
      (fun x' hx' => (List.Nodup.mem_erase_iff hseq).mpr
        ⟨by rintro rfl; exact hR.1 hx', hsub x' (by simp [hx'])⟩)]
    congr 2
    rw [List.Nodup.erase_eq_filter hseq, List.filter_filter]
    congr 1
    apply List.filter_congr
    intro z _
    by_cases hz : z = x <;> simp [hz, Bool.and_comm]

theorem unmount_fold_nodup : ∀ (R : List Item) {kids : List NodeId}, kids.Nodup →
    (R.foldl unmountItem kids).Nodup ∧ ∀ n ∈ R.foldl unmountItem kids, n ∈ kids
  | [], _, h => ⟨h, fun _ hn => hn⟩
  | x :: R, kids, h => by
    obtain ⟨h1, h2⟩ := unmount_fold_nodup R (nodup_unmountItem x h)
    exact ⟨h1, fun n hn => ((mem_unmountItem h).mp (h2 n hn)).1⟩

theorem somes_filter_isSome (S : List (Option Item)) : somes (S.filter Option.isSome) = somes S := by
  induction S with
  | nil => rfl
  | cons o S ih => cases o <;> simp [somes] at ih ⊢ <;> exact ih

theorem getElem?_of_itemAt_none {S : List (Option Item)} {p : Nat} (hp : p < S.length) (h : itemAt S p = none) :
    S[p]? = some none := by
  unfold itemAt at h
  rw [List.getElem?_eq_getElem hp] at h ⊢
  cases hv : S[p] with
  | none => rfl
  | some a => simp [hv] at h

theorem addPlacements_nodes {bs : Nat} {to : List Key} : ∀ {as : List DiffOpAdd} {next : Nat} {p : Nat} {it : Item},
    (p, it) ∈ addPlacements bs to next as →
    (∀ n ∈ it.nodes, next ≤ n ∧ n < next + bs * as.length) ∧ it.nodes.Nodup ∧ (0 < bs → it.nodes ≠ [])
  | [], _, _, _, h => by simp [addPlacements] at h
  | a :: as, next, p, it, h => by
    simp only [addPlacements, List.mem_cons, Prod.mk.injEq] at h
    rcases h with ⟨rfl, rfl⟩ | h
    · refine ⟨?_, List.nodup_range' .., ?_⟩
      · intro n hn
        simp only [List.mem_range'_1] at hn
        simp only [List.length_cons, Nat.mul_add, Nat.mul_one]
        generalize bs * as.length = e
        exact ⟨hn.1, Nat.lt_of_lt_of_le hn.2 (by omega)⟩
      · intro hbs hnil
        simp only at hnil
        have := congrArg List.length hnil
        simp at this
        omega
    · obtain ⟨h1, h2, h3⟩ := addPlacements_nodes h
      refine ⟨?_, h2, h3⟩
      intro n hn
      have := h1 n hn
      simp only [List.length_cons, Nat.mul_add, Nat.mul_one]
      generalize bs * as.length = e at this ⊢
      exact ⟨Nat.le_trans (by omega) this.1, Nat.lt_of_lt_of_le this.2 (by omega)⟩

theorem addPlacements_pairwise_disjoint (bs : Nat) (to : List Key) : ∀ (as : List DiffOpAdd) (next : Nat),
    ((addPlacements bs to next as).map (·.2)).Pairwise fun a b => ∀ n ∈ a.nodes, n ∉ b.nodes
  | [], _ => by simp [addPlacements]
  | a :: as, next => by
    simp only [addPlacements, List.map_cons, List.pairwise_cons]
    refine ⟨?_, addPlacements_pairwise_disjoint bs to as (next + bs)⟩
    intro b hb n hn hn'
    obtain ⟨q, hq, rfl⟩ := List.mem_map.mp hb
    have := (addPlacements_nodes (p := q.1) (it := q.2) hq).1 n hn'
    simp only [List.mem_range'_1] at hn
    omega

theorem nodup_of_pairwise_disjoint {l : List Item} (h : l.Pairwise fun a b => ∀ n ∈ a.nodes, n ∉ b.nodes)
    (hne : ∀ x ∈ l, x.nodes ≠ []) : l.Nodup := by
  refine List.Pairwise.imp_of_mem ?_ h
  intro a b ha _ hab heq
  subst heq
  obtain ⟨n, hn⟩ := List.exists_mem_of_ne_nil _ (hne a ha)
  exact hab n hn hn

section
variable {D : List Key → List Key → Diff} {f t : List Key} {old : List Item} {rem : List Nat} {U : List DiffOpMove}
  {ads : List DiffOpAdd}

/-- the positions written by the DOM phases are pairwise different -/
theorem Ctx.placements_pos_nodup (c : Ctx f t old rem U ads) (bs next : Nat) :
    ((dPlacements (movedWith (old.map some) rem U) ++ addPlacements bs t next ads).map (·.1)).Nodup := by
  have hto := c.sp.to_nodup c.hf c.ht
  rw [List.map_append, List.nodup_append]
  refine ⟨List.Nodup.sublist c.dPlacements_pos_sublist hto, ?_, ?_⟩
  · rw [addPlacements_map_fst]; exact c.sp.ads_nodup
  · intro a ha b hb hab
    subst hab
    obtain ⟨m', hm', rfl⟩ := List.mem_map.mp (c.dPlacements_pos_sublist.subset ha)
    rw [addPlacements_map_fst] at hb
    obtain ⟨k, hk, hkf⟩ := isAdd_iff.mp (c.sp.mem_ads.mp hb)
    obtain ⟨_, k', hk1, hk2⟩ := (c.sp.mem_pairs c.ht).mp ⟨m', hm', rfl, rfl⟩
    rw [hk] at hk2
    simp only [Option.some.injEq] at hk2
    subst hk2
    exact hkf (List.mem_of_getElem? hk1)

/-- the removed items -/
theorem Ctx.mem_removed (c : Ctx f t old rem U ads) {x : Item} :
    x ∈ rem.filterMap (itemAt (old.map some)) ↔ x ∈ old ∧ x.key ∉ t := by
  rw [List.mem_filterMap]
  constructor
  · rintro ⟨a, ha, hx⟩
    rw [itemAt_map_some] at hx
    obtain ⟨k, hk, hkt⟩ := isRem_iff.mp (c.sp.mem_rem.mp ha)
    have := c.old_key a
    rw [hx, hk] at this
    simp only [Option.map_some, Option.some.injEq] at this
    exact ⟨List.mem_of_getElem? hx, this ▸ hkt⟩
  · rintro ⟨hx, hkt⟩
    obtain ⟨i, hi⟩ := List.mem_iff_getElem?.mp hx
    have hk : f[i]? = some x.key := by rw [← c.old_key, hi]; rfl
    exact ⟨i, c.sp.mem_rem.mpr (isRem_iff.mpr ⟨x.key, hk, hkt⟩), by rw [itemAt_map_some, hi]⟩

theorem Ctx.removed_nodup (c : Ctx f t old rem U ads) (hold : old.Nodup) :
    (rem.filterMap (itemAt (old.map some))).Nodup := by
  refine List.Pairwise.filterMap _ ?_ c.sp.rem_nodup
  intro a a' hne b hb b' hb' heq
  subst heq
  rw [itemAt_map_some] at hb hb'
  have hlt := (List.getElem?_eq_some_iff.mp hb).1
  exact hne ((List.getElem?_inj hlt hold).mp (hb.trans hb'.symm))

theorem Ctx.dPlacements_items (c : Ctx f t old rem U ads) :
    (dPlacements (movedWith (old.map some) rem U)).map (·.2)
      = (U.filter fun m => m.moveInDom).filterMap fun m => old[m.from_]? := by
  rw [c.movedWith_eq, dPlacements, List.filter_map, List.filterMap_map, List.map_filterMap]
  apply filterMap_congr'
  intro m _
  simp only [Function.comp]
  cases old[m.from_]? <;> rfl

/-- the blocks of the items to be placed are pairwise disjoint -/
theorem Ctx.placements_disjoint (c : Ctx f t old rem U ads) (bs next : Nat) (hbo : (blocks old).Nodup)
    (hold : old.Nodup) (hlt : ∀ x ∈ old, ∀ n ∈ x.nodes, n < next) :
    ((dPlacements (movedWith (old.map some) rem U) ++ addPlacements bs t next ads).map (·.2)).Pairwise
      fun a b => ∀ n ∈ a.nodes, n ∉ b.nodes := by
  rw [List.map_append, List.pairwise_append]
  refine ⟨?_, addPlacements_pairwise_disjoint bs t ads next, ?_⟩
  · rw [c.dPlacements_items]
    have hfrom : ((U.filter fun m => m.moveInDom).map (·.from_)).Nodup :=
      List.Nodup.sublist (List.Sublist.map _ List.filter_sublist) (c.sp.from_nodup c.ht)
    rw [List.Nodup, List.pairwise_map] at hfrom
    refine List.Pairwise.filterMap _ ?_ hfrom
    intro m m' hne b hb b' hb'
    have hbb : b ≠ b' := by
      rintro rfl
      exact hne ((List.getElem?_inj (List.getElem?_eq_some_iff.mp hb).1 hold).mp (hb.trans hb'.symm))
    exact disjoint_of_mem hbo (List.mem_of_getElem? hb) (List.mem_of_getElem? hb') hbb
  · intro a ha b hb n hna hnb
    rw [c.dPlacements_items, List.mem_filterMap] at ha
    obtain ⟨m, _, hm⟩ := ha
    obtain ⟨q, hq, rfl⟩ := List.mem_map.mp hb
    have h1 := hlt a (List.mem_of_getElem? hm) n hna
    have h2 := ((addPlacements_nodes (p := q.1) (it := q.2) hq).1 n hnb).1
    exact absurd h1 (Nat.not_lt.mpr h2)

/-- **DOM order after the pipeline, under `settledMonotone`** -/
theorem Ctx.dom_order (c : Ctx f t old rem U ads) (hn : ∀ a ∈ ads, a.mode = .normal)
    (hU : U = (unpackMoves (D f t)).1) (hsm : settledMonotone D f t = true)
    (bs : Nat) (marker : NodeId) (w : World) (pre post : List NodeId)
    (hw : w.storage = old.map some) (hk : w.kids = pre ++ blocks old ++ marker :: post)
    (hnd : w.kids.Nodup) (hne : ∀ z ∈ old, z.nodes ≠ []) (hfr : ∀ n ∈ w.kids, n < w.next) (hbs : 0 < bs) :
    (pipeline bs marker t rem U ads ads.length w).kids
      = pre ++ blocksOf (pipeline bs marker t rem U ads ads.length w).storage ++ marker :: post ∧
    (pipeline bs marker t rem U ads ads.length w).kids.Nodup := by
  have hkn : (pre ++ blocks old ++ marker :: post).Nodup := hk ▸ hnd
  have hbo : (blocks old).Nodup := (List.nodup_append.mp (List.nodup_append.mp hkn).1).2.1
  have hold : old.Nodup := nodup_of_blocks_nodup hbo hne
  have hfrom := c.sp.from_nodup c.ht
  have hto := c.sp.to_nodup c.hf c.ht
  -- nodes of old items are children of the parent, hence below the id counter
  have hold_lt : ∀ x ∈ old, ∀ n ∈ x.nodes, n < w.next := by
    intro x hx n hnx
    apply hfr
    rw [hk]
    simp only [List.mem_append]
    exact Or.inl (Or.inr (mem_blocks.mpr ⟨x, hx, hnx⟩))
  rw [c.pipeline_closed hn bs marker w hw]
  simp only [blocksOf_eq, somes_filter_isSome]
  have hst7 : storage7 old rem U ads bs t w.next
      = (placeAll marker (placements bs t w rem U ads) (kids1 w rem, storage4 w.storage rem U ads.length)).2 := by
    rw [placeAll_storage, storage7, placements, hw]
  rw [hst7]
  -- the sequence after the removals
  have hkids1 : kids1 w rem = pre ++ blocks (old.filter fun z => t.contains z.key) ++ marker :: post := by
    rw [kids1, hw, hk, unmount_fold_region pre post marker _ old hkn hne (c.removed_nodup hold)
      (fun x hx => (c.mem_removed.mp hx).1)]
    congr 2
    congr 1
    apply List.filter_congr
    intro z hz
    have := c.mem_removed (x := z)
    by_cases hzt : z.key ∈ t
    · simp [hzt, this, hz]
    · simp [hzt, this, hz]
  have hkids1_nodup : (kids1 w rem).Nodup := (unmount_fold_nodup _ hnd).1
  have hkids1_sub : ∀ n ∈ kids1 w rem, n ∈ w.kids := (unmount_fold_nodup _ hnd).2
  have hsomes4 := c.somes_storage4 hU hsm
  rw [hw]
  -- members of the placement list
  have hmemP : ∀ q ∈ placements bs t w rem U ads,
      (∃ m ∈ U, m.moveInDom = true ∧ m.to_ = q.1 ∧ old[m.from_]? = some q.2) ∨
      q ∈ addPlacements bs t w.next ads := by
    intro q hq
    rw [placements, hw, List.mem_append] at hq
    rcases hq with hq | hq
    · exact Or.inl (c.mem_dPlacements.mp hq)
    · exact Or.inr hq
  -- a DOM-moved item is an old item whose key is in `t` and is not settled
  have hdom : ∀ (m : DiffOpMove) (x : Item), m ∈ U → m.moveInDom = true → old[m.from_]? = some x →
      x ∈ old ∧ x.key ∈ t ∧ settled D f t x.key = false ∧ t[m.to_]? = some x.key := by
    intro m x hm hd hx
    obtain ⟨_, k, hk1, hk2⟩ := (c.sp.mem_pairs c.ht).mp ⟨m, hm, rfl, rfl⟩
    have hkx : k = x.key := by
      have := c.old_key m.from_
      rw [hx, hk1] at this
      simpa using this.symm
    subst hkx
    refine ⟨List.mem_of_getElem? hx, List.mem_of_getElem? hk2, ?_, hk2⟩
    rw [Bool.eq_false_iff, Ne, c.settled_iff hU]
    exact fun h => h.2.2 ⟨m, hm, hd, hk1⟩
  have hnew : ∀ q ∈ addPlacements bs t w.next ads,
      (∀ n ∈ q.2.nodes, w.next ≤ n) ∧ q.2.nodes.Nodup ∧ q.2.nodes ≠ [] ∧ q.2 ∉ old ∧
      ∃ k, t[q.1]? = some k ∧ k ∉ f := by
    intro q hq
    obtain ⟨h1, h2, h3⟩ := addPlacements_nodes (p := q.1) (it := q.2) hq
    refine ⟨fun n hn' => (h1 n hn').1, h2, h3 hbs, ?_, ?_⟩
    · intro ho
      obtain ⟨n, hn'⟩ := List.exists_mem_of_ne_nil _ (h3 hbs)
      exact absurd (hold_lt q.2 ho n hn') (Nat.not_lt.mpr (h1 n hn').1)
    · have := (mem_addPlacements hq).2
      exact isAdd_iff.mp (c.sp.mem_ads.mp this)
  have hlen4 : (storage4 (old.map some) rem U ads.length).length = f.length + ads.length := by
    simp [storage4, storage2, c.old_length]
  refine place_all pre post marker (placements bs t w rem U ads) (old.filter fun z => t.contains z.key)
    (kids1 w rem, storage4 (old.map some) rem U ads.length) ⟨hkids1, hkids1_nodup, ?_, ?_, ?_⟩
    ⟨?_, ?_, ?_, ?_, ?_, ?_, ?_⟩
  · intro z hz; exact hne z (List.mem_filter.mp hz).1
  · -- order: the settled items stand in the old order
    simp only [hsomes4]
    rw [List.filter_filter]
    apply List.filter_congr
    intro z hz
    have : settled D f t z.key = true → t.contains z.key = true := by
      intro h
      simpa using ((c.settled_iff hU).mp h).2.1
    by_cases hs : settled D f t z.key = true
    · have := this hs
      simp only [List.contains_iff_mem] at this
      simp [List.mem_filter, hz, hs, this]
    · simp [List.mem_filter, hz, hs]
  · -- cover: an unsettled retained item is DOM-moved
    intro z hz
    obtain ⟨hzo, hzt⟩ := List.mem_filter.mp hz
    simp only [hsomes4, List.mem_filter]
    by_cases hs : settled D f t z.key = true
    · exact Or.inl ⟨hzo, hs⟩
    · right
      obtain ⟨i, hi⟩ := List.mem_iff_getElem?.mp hzo
      have hfi : f[i]? = some z.key := by rw [← c.old_key, hi]; rfl
      have : ∃ m ∈ U, m.moveInDom = true ∧ f[m.from_]? = some z.key :=
        Classical.byContradiction fun hcon =>
          hs ((c.settled_iff hU).mpr ⟨List.mem_of_getElem? hfi, by simpa using hzt, hcon⟩)
      obtain ⟨m, hm, hd, hmk⟩ := this
      have hmi : m.from_ = i :=
        (List.getElem?_inj (List.getElem?_eq_some_iff.mp hmk).1 c.hf).mp (hmk.trans hfi.symm)
      rw [List.mem_map]
      refine ⟨(m.to_, z), ?_, rfl⟩
      rw [placements, hw]
      exact List.mem_append_left _ (c.mem_dPlacements.mpr ⟨m, hm, hd, rfl, by rw [hmi]; exact hi⟩)
  · rw [placements, hw]; exact c.placements_pos_nodup bs w.next
  · -- items pairwise different: their blocks are non-empty and pairwise disjoint
    rw [placements, hw]
    apply nodup_of_pairwise_disjoint (c.placements_disjoint bs w.next hbo hold hold_lt)
    intro x hx
    obtain ⟨q, hq, rfl⟩ := List.mem_map.mp hx
    have hq' : q ∈ placements bs t w rem U ads := by rw [placements, hw]; exact hq
    rcases hmemP q hq' with ⟨m, hm, hd, _, hx'⟩ | hq''
    · exact hne _ (hdom m q.2 hm hd hx').1
    · exact (hnew q hq'').2.2.1
  · -- the slots are empty
    intro q hq
    have hq1 : ∃ k, t[q.1]? = some k ∧ settled D f t k = false := by
      rcases hmemP q hq with ⟨m, hm, hd, hto', hx⟩ | hq'
      · obtain ⟨_, _, h3, h4⟩ := hdom m q.2 hm hd hx
        exact ⟨_, hto' ▸ h4, h3⟩
      · obtain ⟨_, _, _, _, k, hk, hkf⟩ := hnew q hq'
        refine ⟨k, hk, ?_⟩
        rw [Bool.eq_false_iff, Ne, c.settled_iff hU]
        exact fun h => hkf h.1
    obtain ⟨k, hk, hs⟩ := hq1
    apply getElem?_of_itemAt_none
    · have := (List.getElem?_eq_some_iff.mp hk).1
      have := c.length_le
      simp only at hlen4 ⊢
      omega
    · have := c.storage4_at hU hk
      simp only [hs] at this
      simpa using this
  · -- not stored yet
    intro q hq hst
    simp only [hsomes4, List.mem_filter] at hst
    rcases hmemP q hq with ⟨m, hm, hd, _, hx⟩ | hq'
    · have := (hdom m q.2 hm hd hx).2.2.1
      simp [this] at hst
    · exact (hnew q hq').2.2.2.1 hst.1
  · intro q hq
    rcases hmemP q hq with ⟨m, hm, hd, _, hx⟩ | hq'
    · exact hne _ (hdom m q.2 hm hd hx).1
    · exact (hnew q hq').2.2.1
  · -- in the sequence already, or made of fresh nodes
    intro q hq
    rcases hmemP q hq with ⟨m, hm, hd, _, hx⟩ | hq'
    · left
      obtain ⟨h1, h2, _⟩ := hdom m q.2 hm hd hx
      exact List.mem_filter.mpr ⟨h1, by simpa using h2⟩
    · right
      obtain ⟨h1, h2, _⟩ := hnew q hq'
      refine ⟨h2, ?_⟩
      intro n hn' hk1
      exact absurd (hfr n (hkids1_sub n hk1)) (Nat.not_lt.mpr (h1 n hn'))
  · -- blocks pairwise disjoint
    rw [placements, hw]
    exact c.placements_disjoint bs w.next hbo hold hold_lt

end

end Leptos.Keyed