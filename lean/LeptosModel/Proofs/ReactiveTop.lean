import LeptosModel.Proofs.ReactiveUpd
import LeptosModel.Proofs.ReactiveSet
/-!
# Proofs/ReactiveTop — the invariant between operations; reads return from-scratch values
(programs without effects)
-/
namespace Leptos.Reactive

/-- the invariant between two operations -/
structure TopInv (p : Prog) (s : State) : Prop where
  inv : InvR p s
  obs : s.obs = none
  idle : ∀ i, (s.get i).running = false
  log : LogOK s

theorem initState_get (p : Prog) (i : Nat) :
    (initState p).get i = match p[i]? with | some d => initNode d | none => {} := by
  simp only [State.get, initState, List.getElem?_map]
  cases p[i]? <;> rfl

theorem initNode_fields (d : NodeDef) :
    (initNode d).kind = kindOf d ∧ (initNode d).sources = [] ∧ (initNode d).subs = [] ∧
    (initNode d).seen = [] ∧ (initNode d).running = false ∧ (initNode d).runs = 0 ∧
    ((initNode d).kind = .sig → (initNode d).st = .clean ∧ ∃ v, (initNode d).val = some v) ∧
    ((initNode d).kind = .memo → (initNode d).st = .dirty) := by
  cases d <;> simp [initNode, kindOf]

theorem init_fields (p : Prog) (i : Nat) :
    ((initState p).get i).sources = [] ∧ ((initState p).get i).subs = [] ∧
    ((initState p).get i).seen = [] ∧ ((initState p).get i).running = false ∧
    ((initState p).get i).runs = 0 ∧
    (((initState p).get i).kind = .memo → ((initState p).get i).st = .dirty) := by
  rw [initState_get]
  cases hp : p[i]? with
  | none => simp
  | some d =>
    have := initNode_fields d
    exact ⟨this.2.1, this.2.2.1, this.2.2.2.1, this.2.2.2.2.1, this.2.2.2.2.2.1, this.2.2.2.2.2.2.2⟩

theorem init_topInv (p : Prog) : TopInv p (initState p) := by
  refine ⟨?_, rfl, fun i => (init_fields p i).2.2.2.1, fun i hi => by cases hi⟩
  constructor
  · simp [initState]
  · intro i d hd; rw [initState_get, hd]; exact (initNode_fields d).1
  · intro i hi hk
    rw [initState_get] at hk ⊢
    have hd : p[i]? = some p[i] := List.getElem?_eq_getElem hi
    rw [hd] at hk ⊢
    have := initNode_fields p[i]
    exact ⟨(this.2.2.2.2.2.2.1 hk).1, this.2.2.2.2.1, (this.2.2.2.2.2.2.1 hk).2⟩
  · intro o ho; cases ho
  · intro a w; rw [(init_fields p a).2.1, (init_fields p w).1]; simp
  · intro a; rw [(init_fields p a).2.1]; exact List.nodup_nil
  · intro w a ha; rw [(init_fields p w).1] at ha; cases ha
  · intro r _ hr; rw [(init_fields p r).2.2.2.1] at hr; cases hr
  · intro a w _ _ hw; rw [(init_fields p a).2.1] at hw; cases hw
  · intro m _ _; rw [(init_fields p m).1, (init_fields p m).2.2.1]; rfl
  · intro m hk _ _; exact (init_fields p m).2.2.2.2.2 hk
  · intro m hk _ hst; exact absurd ((init_fields p m).2.2.2.2.2 hk) hst
  · intro m hk _ hst; exact absurd ((init_fields p m).2.2.2.2.2 hk) hst
  · intro m _ _ _ hruns; exact absurd (init_fields p m).2.2.2.2.1 hruns
  · intro w e he; rw [(init_fields p w).2.2.1] at he; cases he
  · intro w a ha; rw [(init_fields p w).1] at ha; cases ha

theorem ready_nil {p : Prog} {s : State} (h : InvR p s) (hne : noEff p = true) : ready s = [] := by
  unfold ready
  rw [List.filter_eq_nil_iff]
  intro i _
  have := h.kind_ne_eff hne i
  cases hk : (s.get i).kind <;> simp_all

theorem specVal_congr {p : Prog} {s s' : State}
    (h : ∀ i v, p[i]? = some (.sig v) → (s'.get i).val = (s.get i).val) (m : Nat) :
    specVal p s' m = specVal p s m := by
  unfold specVal
  apply scratch_env_congr
  intro i v hi
  simp only [envOf, h i v hi]

/-- a read of node `m` from a quiescent state -/
theorem read_spec {p : Prog} (hwf : WF p = true) (hp : MemoOK p) (hne : noEff p = true) {s : State}
    (h : TopInv p s) (m : Nat) :
    TopInv p (readNode (upd p (fuelFor p)) s m).1 ∧
    (MemoTracked p → m < p.length → (readNode (upd p (fuelFor p)) s m).2 = specVal p s m) := by
  have htrack : track s m = s := by unfold track; rw [h.obs]
  unfold readNode
  rw [htrack]
  simp only
  cases hk : (s.get m).kind with
  | eff => exact absurd hk (h.inv.kind_ne_eff hne m)
  | sig =>
    simp only
    refine ⟨h, fun htr hm => ?_⟩
    have hc := (h.inv.sigOk m hm hk).1
    rw [h.inv.clean_correct hwf htr m hm (by rw [hk]; simp) hc]; rfl
  | memo =>
    simp only
    have hm : m < p.length := h.inv.memo_lt hk
    have post := upd_ok hp (fuelFor p) s m h.inv (by simp only [fuelFor]; omega) (h.idle m)
      (fun r hr => by rw [h.idle r] at hr; cases hr)
    generalize upd p (fuelFor p) s m = r at post
    obtain ⟨s', ch⟩ := r
    simp only at post ⊢
    refine ⟨⟨post.inv, post.obs.trans h.obs, fun i => (post.running i).trans (h.idle i),
      post.frame.log h.log⟩, fun htr _ => ?_⟩
    have hc := post.clean hk
    rw [post.inv.clean_correct hwf htr m hm (by rw [post.frame.kind, hk]; simp) hc]
    show specVal p s' m = specVal p s m
    apply specVal_congr
    intro i v hi
    have hki : (s.get i).kind = .sig := h.inv.kind i _ hi
    have hil : i < p.length := by
      rcases Nat.lt_or_ge i p.length with h' | h'
      · exact h'
      · rw [List.getElem?_eq_none h'] at hi; cases hi
    exact (post.frame.clean i (h.inv.sigOk i hil hki).1).2

theorem runIdle_noEff {p : Prog} {s : State} (h : InvR p s) (hne : noEff p = true) :
    ∀ k, runIdle p k s = s
  | 0 => rfl
  | k + 1 => by unfold runIdle; rw [ready_nil h hne]; rfl

theorem step_topInv {p : Prog} (hwf : WF p = true) (hp : MemoOK p) (hne : noEff p = true) {s : State}
    (h : TopInv p s) (o : Op) : TopInv p (step p s o).1 := by
  have noE : ∀ e, ((s.get e).kind == .eff) = false := by
    intro e
    have := h.inv.kind_ne_eff hne e
    cases hk : (s.get e).kind <;> simp_all
  cases o with
  | set id v =>
    simp only [step]
    split
    · next v0 hx =>
      have hf : s.nodes.length ≤ fuelFor p := by rw [h.inv.len]; simp [fuelFor]
      obtain ⟨hi, sp⟩ := setSignal_inv h.inv hx v hf
      exact ⟨hi, sp.obs.trans h.obs, fun i => (sp.running i).trans (h.idle i), sp.log h.log⟩
    · exact h
  | read id => exact (read_spec hwf hp hne h id).1
  | poll i =>
    simp only [step, pollNth]
    rw [ready_nil h.inv hne]
    exact h
  | idle =>
    simp only [step]
    rw [runIdle_noEff h.inv hne]
    exact h
  | pause e => simp only [step, noE e]; exact h
  | resume e => simp only [step, noE e]; exact h
  | dispose e => simp only [step, noE e]; exact h

theorem run_topInv {p : Prog} (hwf : WF p = true) (hp : MemoOK p) (hne : noEff p = true)
    (ops : List Op) : TopInv p (run p ops) := by
  unfold run
  suffices ∀ s, TopInv p s → TopInv p (ops.foldl (fun s o => (step p s o).1) s) from
    this _ (init_topInv p)
  induction ops with
  | nil => intro s h; exact h
  | cons o ops ih => intro s h; exact ih _ (step_topInv hwf hp hne h o)

/-- **C01 (a)**: without effects, every read returns the from-scratch value -/
theorem read_eq_scratch_noeff {p : Prog} (hwf : WF p = true) (hp : MemoOK p) (htr : MemoTracked p)
    (hne : noEff p = true)
    (ops : List Op) (m : Nat) (hm : m < p.length) :
    (step p (run p ops) (.read m)).2 = some (specVal p (run p ops) m) := by
  have h := run_topInv hwf hp hne ops
  simp only [step]
  rw [(read_spec hwf hp hne h m).2 htr hm]

/-- **C09 (memos)**: without effects, no memo body ever runs unjustified -/
theorem no_unjust_noeff {p : Prog} (hwf : WF p = true) (hp : MemoOK p) (hne : noEff p = true)
    (ops : List Op) : ∀ i, Ev.unjust i ∉ (run p ops).log :=
  (run_topInv hwf hp hne ops).log

/-- every body uses tracked reads only -/
def bodiesTracked (p : Prog) : Bool :=
  p.all fun d => match d with | .sig _ => true | .memo b => b.noUntracked | .eff b => b.noUntracked

theorem memoOK_of_wf {p : Prog} (hwf : WF p = true) : MemoOK p := by
  intro m b hb
  have hw := WF_get hwf hb
  simp only [wfNode, Bool.and_eq_true] at hw
  exact ⟨hw.1.1, hw.1.2, hw.2⟩

theorem memoTracked_of {p : Prog} (ht : bodiesTracked p = true) : MemoTracked p := by
  intro m b hb
  have hmem : NodeDef.memo b ∈ p := List.mem_of_getElem? hb
  simp only [bodiesTracked, List.all_eq_true] at ht
  exact ht _ hmem

end Leptos.Reactive
