import LeptosModel.Proofs.ReactiveJust
/-!
# Proofs/ReactiveReach — marking only touches the subscribers-descendants of the marked node;
a write to a signal that a memo does not (transitively, tracked) depend on leaves the memo alone
-/
namespace Leptos.Reactive

/-- `y` is reachable from `x` along subscriber edges (reflexive, transitive) -/
inductive Reach (s : State) (x : Nat) : Nat → Prop where
  | refl : Reach s x x
  | step {y w : Nat} : Reach s x y → w ∈ (s.get y).subs → Reach s x w

theorem Reach.head {s : State} {x w y : Nat} (hw : w ∈ (s.get x).subs) (h : Reach s w y) : Reach s x y := by
  induction h with
  | refl => exact .step .refl hw
  | step _ hm ih => exact .step ih hm

theorem Reach.of_subs_eq {s s' : State} (hs : ∀ i, (s'.get i).subs = (s.get i).subs) {x y : Nat}
    (h : Reach s' x y) : Reach s x y := by
  induction h with
  | refl => exact .refl
  | step _ hm ih => exact .step ih (by rw [← hs]; exact hm)

/-- only the `st` of reachable nodes can change -/
def StReach (s s' : State) (x : Nat) : Prop := ∀ i, (s'.get i).st ≠ (s.get i).st → Reach s x i

theorem foldl_stReach (g : State → Nat → State) (hrel : ∀ s x, MarkRel s (g s x))
    (hg : ∀ s x, StReach s (g s x) x) :
    ∀ (l : List Nat) (s : State) (y : Nat), (∀ w ∈ l, w ∈ (s.get y).subs) →
      ∀ i, ((l.foldl g s).get i).st ≠ (s.get i).st → Reach s y i ∧ i ≠ y ∨ Reach s y i
  | [], s, y, _, i, h => absurd rfl h
  | x :: l, s, y, hl, i, h => by
    rw [List.foldl_cons] at h
    have r1 := hrel s x
    by_cases h1 : ((g s x).get i).st = (s.get i).st
    · have := foldl_stReach g hrel hg l (g s x) y
        (fun w hw => by rw [r1.subs]; exact hl w (List.mem_cons_of_mem _ hw)) i (by rw [h1]; exact h)
      rcases this with h' | h'
      · exact .inr (Reach.of_subs_eq r1.subs h'.1)
      · exact .inr (Reach.of_subs_eq r1.subs h')
    · exact .inr (Reach.head (hl x List.mem_cons_self) (hg s x i h1))

theorem markCheck_stReach : ∀ (f : Nat) (s : State) (y : Nat), StReach s (markCheck f s y) y
  | 0, _, _ => fun _ h => absurd rfl h
  | f + 1, s, y => by
    unfold markCheck
    split
    · exact fun _ h => absurd rfl h
    · intro i h; rw [notify_st] at h; exact absurd rfl h
    · intro i h
      generalize hs1 : (if (s.get y).st != .dirty then s.upd y fun n => { n with st := .check } else s) = s1 at h
      have hsubs1 : ∀ j, (s1.get j).subs = (s.get j).subs := by
        intro j; subst hs1; split
        · rw [State.get_upd]; split <;> rfl
        · rfl
      have hst1 : ∀ j, j ≠ y → (s1.get j).st = (s.get j).st := by
        intro j hj; subst hs1; split
        · rw [State.get_upd_ne _ _ (Ne.symm hj)]
        · rfl
      by_cases hiy : i = y
      · subst hiy; exact .refl
      · have := foldl_stReach (fun s x => markCheck f s x) (fun s x => markCheck_rel f s x)
          (fun s x => markCheck_stReach f s x) (s1.get y).subs s1 y (fun w hw => hw) i
          (by rw [hst1 i hiy]; exact h)
        rcases this with h' | h'
        · exact Reach.of_subs_eq hsubs1 h'.1
        · exact Reach.of_subs_eq hsubs1 h'

theorem markDirty_stReach (f : Nat) (s : State) (y : Nat) : StReach s (markDirty f s y) y := by
  unfold markDirty
  split
  · exact fun _ h => absurd rfl h
  · split
    · exact fun _ h => absurd rfl h
    · intro i h
      rw [notify_st, State.get_upd] at h
      split at h <;> exact absurd rfl h
  · intro i h
    generalize hs1 : (s.upd y fun n => { n with st := .dirty }) = s1 at h
    have hsubs1 : ∀ j, (s1.get j).subs = (s.get j).subs := by
      intro j; subst hs1; rw [State.get_upd]; split <;> rfl
    have hst1 : ∀ j, j ≠ y → (s1.get j).st = (s.get j).st := by
      intro j hj; subst hs1; rw [State.get_upd_ne _ _ (Ne.symm hj)]
    by_cases hiy : i = y
    · subst hiy; exact .refl
    · have := foldl_stReach (fun s x => markCheck f s x) (fun s x => markCheck_rel f s x)
        (fun s x => markCheck_stReach f s x) (s1.get y).subs s1 y (fun w hw => hw) i
        (by rw [hst1 i hiy]; exact h)
      rcases this with h' | h'
      · exact Reach.of_subs_eq hsubs1 h'.1
      · exact Reach.of_subs_eq hsubs1 h'

/-- a signal write changes the `st` only of nodes reachable from one of its subscribers -/
theorem setSignal_stReach (f : Nat) (s : State) (x : Nat) (v : Int) (i : Nat)
    (h : ((setSignal f s x v).get i).st ≠ (s.get i).st) : ∃ w ∈ (s.get x).subs, Reach s w i := by
  unfold setSignal sigNotify at h
  have pre := setSignal_pre s x v
  simp only at pre
  generalize hs1 : ((s.upd x fun n => { n with val := some v, ver := n.ver + 1 }).emit (.set x)) = s1 at pre h
  have hsubs1 : ∀ j, (s1.get j).subs = (s.get j).subs := fun j => (pre j).2.2.1
  rw [← (pre i).2.1] at h
  -- generalise the fold
  suffices ∀ (l : List Nat) (s' : State), (∀ j, (s'.get j).subs = (s.get j).subs) →
      ((l.foldl (fun s x => markDirty f s x) s').get i).st ≠ (s'.get i).st → ∃ w ∈ l, Reach s w i by
    obtain ⟨w, hw, hr⟩ := this (s1.get x).subs s1 hsubs1 h
    exact ⟨w, by rw [← hsubs1]; exact hw, hr⟩
  intro l
  induction l with
  | nil => intro s' _ h'; exact absurd rfl h'
  | cons a l ih =>
    intro s' hs' h'
    rw [List.foldl_cons] at h'
    have r1 := markDirty_rel f s' a
    by_cases h1 : ((markDirty f s' a).get i).st = (s'.get i).st
    · obtain ⟨w, hw, hr⟩ := ih (markDirty f s' a) (fun j => (r1.subs j).trans (hs' j)) (by rw [h1]; exact h')
      exact ⟨w, List.mem_cons_of_mem _ hw, hr⟩
    · exact ⟨a, List.mem_cons_self, Reach.of_subs_eq hs' (markDirty_stReach f s' a i h1)⟩

/-- `x` is among the transitive TRACKED sources of `m` (as recorded by the last runs); fuel > `m` suffices -/
def trackedDep (s : State) : Nat → Nat → Nat → Bool
  | 0, _, _ => false
  | f + 1, m, x => (s.get m).sources.any fun y => y == x || trackedDep s f y x

theorem trackedDep_of_reach {p : Prog} {s : State} (h : InvR p s) {x w m : Nat} (hw : w ∈ (s.get x).subs)
    (hr : Reach s w m) : ∀ f, m < f → trackedDep s f m x = true := by
  induction hr with
  | refl =>
    intro f hf
    cases f with
    | zero => omega
    | succ f =>
      simp only [trackedDep, List.any_eq_true, Bool.or_eq_true, beq_iff_eq]
      exact ⟨x, (h.edge x w).1 hw, .inl rfl⟩
  | step hr' hm ih =>
    rename_i y w'
    intro f hf
    have hsrc : y ∈ (s.get w').sources := (h.edge y w').1 hm
    have hlt := h.srcLt w' y hsrc
    cases f with
    | zero => omega
    | succ f =>
      simp only [trackedDep, List.any_eq_true, Bool.or_eq_true, beq_iff_eq]
      exact ⟨y, hsrc, .inr (ih f (by omega))⟩

/-- a write to a signal on which memo `m` does not (transitively, tracked) depend does not change what
a read of `m` returns -/
theorem set_inert {p : Prog} (hwf : WF p = true) (ops : List Op) (m sg : Nat) (b : Expr) (v0 v : Int)
    (hb : p[m]? = some (.memo b)) (hsg : p[sg]? = some (.sig v0))
    (hdep : trackedDep (step p (run p ops) (.read m)).1 p.length m sg = false) :
    (step p (step p (step p (run p ops) (.read m)).1 (.set sg v)).1 (.read m)).2 =
      (step p (run p ops) (.read m)).2 := by
  have hq0 := run_quietU hwf ops
  generalize run p ops = s0 at hq0 hdep
  have hk : (s0.get m).kind = .memo := hq0.inv.kind m _ hb
  have hm : m < p.length := hq0.inv.memo_lt hk
  have htrack : track s0 m = s0 := by unfold track; rw [hq0.obs]
  have post := upd_ok (memoOK_of_wf hwf) (fuelFor p) s0 m hq0.inv (by simp only [fuelFor]; omega)
    (hq0.idle m) (fun r hr => by rw [hq0.idle r] at hr; cases hr)
  have hstep : step p s0 (.read m) =
      ((upd p (fuelFor p) s0 m).1, some (((upd p (fuelFor p) s0 m).1.get m).val.getD 0)) := by
    simp only [step]
    unfold readNode
    rw [htrack]
    simp only [hk]
  rw [hstep] at hdep ⊢
  generalize upd p (fuelFor p) s0 m = r at post hdep
  obtain ⟨s, ch⟩ := r
  simp only at post hdep ⊢
  have hq : Quiet p s := ⟨post.inv, fun i => (post.running i).trans (hq0.idle i)⟩
  have hk' : (s.get m).kind = .memo := by rw [post.frame.kind]; exact hk
  have hc : (s.get m).st = .clean := post.clean hk
  have hxp : m < p.length := hm
  obtain ⟨val, hval⟩ := post.inv.clean_val hxp (by rw [hk']; simp) hc
  -- the write
  have hf : s.nodes.length ≤ fuelFor p := by rw [hq.inv.len]; simp [fuelFor]
  obtain ⟨hi', sp⟩ := setSignal_inv hq.inv hsg v hf
  have hset : step p s (.set sg v) = (setSignal (fuelFor p) s sg v, none) := by
    simp only [step, hsg]
  rw [hset]
  simp only
  have hq' : Quiet p (setSignal (fuelFor p) s sg v) := ⟨hi', fun i => (sp.running i).trans (hq.idle i)⟩
  have hmsg : m ≠ sg := by
    intro hc'; subst hc'
    rw [hb] at hsg; cases hsg
  have hst' : ((setSignal (fuelFor p) s sg v).get m).st = .clean := by
    by_cases hne : ((setSignal (fuelFor p) s sg v).get m).st = (s.get m).st
    · rw [hne]; exact hc
    · exfalso
      obtain ⟨w, hw, hr⟩ := setSignal_stReach (fuelFor p) s sg v m hne
      have := trackedDep_of_reach hq.inv hw hr p.length hm
      rw [this] at hdep; cases hdep
  have hval' : ((setSignal (fuelFor p) s sg v).get m).val = some val := by rw [sp.val m hmsg]; exact hval
  rw [read_clean_val hq' (by rw [sp.kind, hk']; simp) hst' hval', hval]; rfl

/-! ## dynamic reachability implies static dependency -/

theorem dependsOn_self (p : Prog) (f x : Nat) : dependsOn p (f + 1) x x = true := by
  simp [dependsOn]

theorem dependsOn_of_reach {p : Prog} {s : State} (h : InvR p s) (hs : SrcStatic p s) {x w y : Nat}
    (hw : w ∈ (s.get x).subs) (hr : Reach s w y) :
    ∀ f, y < f → (s.get y).kind ≠ .eff → dependsOn p f y x = true := by
  -- a node with a recorded source is a memo or an effect
  have memo_of_src : ∀ a b, b ∈ (s.get a).sources → (s.get a).kind ≠ .eff →
      ∃ body, p[a]? = some (.memo body) ∧ body.readsNode b = true := by
    intro a b hb hk
    have hrd := hs a b hb
    cases hka : (s.get a).kind with
    | eff => exact absurd hka hk
    | memo =>
      obtain ⟨body, hbody⟩ := h.memo_def hka
      refine ⟨body, hbody, ?_⟩
      simpa [bodyOf, hbody] using hrd
    | sig =>
      exfalso
      have ha : a < s.nodes.length := by
        rcases Nat.lt_or_ge a s.nodes.length with h' | h'
        · exact h'
        · rw [State.get_default s h'] at hb; cases hb
      obtain ⟨v, hv⟩ := h.sig_def (by rw [← h.len]; exact ha) hka
      simp [bodyOf, hv, Expr.readsNode] at hrd
  induction hr with
  | refl =>
    intro f hf hk
    have hsrc : x ∈ (s.get w).sources := (h.edge x w).1 hw
    have hlt := h.srcLt w x hsrc
    obtain ⟨body, hbody, hrd⟩ := memo_of_src w x hsrc hk
    cases f with
    | zero => omega
    | succ f =>
      cases f with
      | zero => omega
      | succ f =>
        simp only [dependsOn, hbody, Bool.or_eq_true, beq_iff_eq, List.any_eq_true, List.mem_range,
          Bool.and_eq_true]
        exact .inr ⟨x, hlt, hrd, .inl rfl⟩
  | step hr' hm ih =>
    rename_i y w'
    intro f hf hk
    have hsrc : y ∈ (s.get w').sources := (h.edge y w').1 hm
    have hlt := h.srcLt w' y hsrc
    have hky := h.srcData w' y hsrc
    obtain ⟨body, hbody, hrd⟩ := memo_of_src w' y hsrc hk
    cases f with
    | zero => omega
    | succ f =>
      simp only [dependsOn, hbody, Bool.or_eq_true, beq_iff_eq, List.any_eq_true, List.mem_range,
        Bool.and_eq_true]
      exact .inr ⟨y, hlt, hrd, ih f (by omega) hky⟩

/-! ## no glitch: a read inside an effect run returns the from-scratch value of that moment -/

/-- In any state reached during the run of effect `e` (characterised by `InvR` and `EffLoc`, which
`evalEff_spec` / `evalEff_specU` show to hold at every evaluation step of an effect body), a tracked
read of a data node `x` returns the from-scratch value of `x` in the state right after the read
(programs whose memos use tracked reads only). -/
theorem effect_read_no_glitch {p : Prog} {f : Nat} (hwf : WF p = true) (htr : MemoTracked p)
    {e : Nat} (hef : e ≤ f) {s : State} (h : InvR p s) (hl : EffLoc s e) {x : Nat} (hx : x < e)
    (hkx : (s.get x).kind ≠ .eff) :
    (readNode (upd p f) s x).2 = specVal p (readNode (upd p f) s x).1 x := by
  obtain ⟨s1, s2, v, ch, hrd, t, h1, up, hc, hv⟩ :=
    readEff_cases (upd_ok (memoOK_of_wf hwf) f) hef h hl hx hkx
  rw [hrd]
  simp only
  have hxp : x < p.length := by
    have := s.lt_of_running hl.running
    rw [h.len] at this; omega
  have hk2 : (s2.get x).kind ≠ .eff := by
    have : (s2.get x).kind = (s.get x).kind := (up.frame.kind x).trans (t.kind x)
    rw [this]; exact hkx
  have := up.inv.clean_correct hwf htr x hxp hk2 hc
  rw [hv] at this
  exact Option.some.inj this

end Leptos.Reactive
