import LeptosModel.Model.RView
import LeptosModel.Proofs.ReactiveState
/-!
# Proofs/RViewReactive — what the reactive model does for render effects whose sources are signals

Closed forms (as relations) of `evalE`, `runEffBody`, `initRenderEffect`, `effUpdate`, `setSignal`
and `dispose` for effects whose bodies read signals only (tracked, no writes).
-/
namespace Leptos.RView
open Leptos.Reactive

/-- control part of a node: everything except subscriptions, sources and ghost fields -/
def ctl (n : Node) : Kind × Option Int × Reactive.St × Bool × Bool × Bool × Bool × Bool × Bool × Bool :=
  (n.kind, n.val, n.st, n.dirty, n.chan, n.woken, n.first, n.paused, n.alive, n.done)

/-- the nodes an expression actually reads when evaluated against `ρ` -/
def readsU (ρ : Nat → Int) : Expr → List Nat
  | .lit _ => []
  | .rd _ id => [id]
  | .add a b => readsU ρ a ++ readsU ρ b
  | .mulc _ a => readsU ρ a
  | .ite c t e => readsU ρ c ++ (if evalPure ρ c != 0 then readsU ρ t else readsU ρ e)
  | .seq a b => readsU ρ a ++ readsU ρ b
  | .wr _ a => readsU ρ a

/-- the value and the read set of an expression depend only on the nodes it reads -/
theorem reads_determine {ρ ρ' : Nat → Int} : ∀ (x : Expr), x.noWrite = true →
    (∀ i ∈ readsU ρ x, ρ i = ρ' i) → evalPure ρ x = evalPure ρ' x ∧ readsU ρ x = readsU ρ' x
  | .lit _, _, _ => ⟨rfl, rfl⟩
  | .rd _ id, _, h => ⟨h id (by simp [readsU]), rfl⟩
  | .add a b, hw, h => by
    simp only [Expr.noWrite, Bool.and_eq_true] at hw
    have ha := reads_determine a hw.1 (fun i hi => h i (by simp [readsU, hi]))
    have hb := reads_determine b hw.2 (fun i hi => h i (by simp [readsU, hi]))
    simp only [evalPure, readsU, ha.1, hb.1, ha.2, hb.2, and_self]
  | .mulc _ a, hw, h => by
    simp only [Expr.noWrite] at hw
    have ha := reads_determine a hw (fun i hi => h i (by simp [readsU, hi]))
    simp only [evalPure, readsU, ha.1, ha.2, and_self]
  | .ite c t e, hw, h => by
    simp only [Expr.noWrite, Bool.and_eq_true] at hw
    have hc := reads_determine c hw.1.1 (fun i hi => h i (by simp [readsU, hi]))
    by_cases hv : evalPure ρ c != 0
    · have hv' : evalPure ρ' c != 0 := by rw [← hc.1]; exact hv
      have ht := reads_determine t hw.1.2 (fun i hi => h i (by simp [readsU, hv, hi]))
      simp only [evalPure, readsU, hv, hv', if_true, hc.2, ht.1, ht.2, and_self]
    · have hv' : ¬ (evalPure ρ' c != 0) := by rw [← hc.1]; exact hv
      have he := reads_determine e hw.2 (fun i hi => h i (by simp [readsU, hv, hi]))
      simp only [evalPure, readsU, hv, hv', hc.2, he.1, he.2]
      simp
  | .seq a b, hw, h => by
    simp only [Expr.noWrite, Bool.and_eq_true] at hw
    have ha := reads_determine a hw.1 (fun i hi => h i (by simp [readsU, hi]))
    have hb := reads_determine b hw.2 (fun i hi => h i (by simp [readsU, hi]))
    simp only [evalPure, readsU, hb.1, ha.2, hb.2, and_self]
  | .wr _ _, hw, _ => by simp [Expr.noWrite] at hw

theorem readsU_below {ρ : Nat → Int} {k : Nat} : ∀ (x : Expr), x.readsBelow k = true →
    ∀ i ∈ readsU ρ x, i < k
  | .lit _, _, i, hi => by simp [readsU] at hi
  | .rd _ id, h, i, hi => by
    simp only [readsU, List.mem_singleton] at hi
    simp only [Expr.readsBelow, decide_eq_true_eq] at h
    omega
  | .add a b, h, i, hi => by
    simp only [Expr.readsBelow, Bool.and_eq_true] at h
    simp only [readsU, List.mem_append] at hi
    rcases hi with hi | hi
    · exact readsU_below a h.1 i hi
    · exact readsU_below b h.2 i hi
  | .mulc _ a, h, i, hi => by
    simp only [Expr.readsBelow] at h
    exact readsU_below a h i hi
  | .ite c t e, h, i, hi => by
    simp only [Expr.readsBelow, Bool.and_eq_true] at h
    simp only [readsU, List.mem_append] at hi
    rcases hi with hi | hi
    · exact readsU_below c h.1.1 i hi
    · split at hi
      · exact readsU_below t h.1.2 i hi
      · exact readsU_below e h.2 i hi
  | .seq a b, h, i, hi => by
    simp only [Expr.readsBelow, Bool.and_eq_true] at h
    simp only [readsU, List.mem_append] at hi
    rcases hi with hi | hi
    · exact readsU_below a h.1 i hi
    · exact readsU_below b h.2 i hi
  | .wr _ a, h, i, hi => by
    simp only [Expr.readsBelow] at h
    exact readsU_below a h i hi


/-! ## evaluation of a signal-only body under observer `e` -/

theorem mem_subscribe' {l : List Nat} {o w : Nat} : w ∈ subscribe l o ↔ w ∈ l ∨ w = o := by
  unfold subscribe
  split
  · next h =>
    constructor
    · intro hw; exact Or.inl hw
    · intro hw
      rcases hw with hw | hw
      · exact hw
      · subst hw; simpa using h
  · simp

theorem nodup_subscribe' {l : List Nat} {o : Nat} (h : l.Nodup) : (subscribe l o).Nodup := by
  unfold subscribe
  split
  · exact h
  · next hc =>
    refine List.nodup_append.2 ⟨h, by simp, ?_⟩
    intro a ha b hb hab
    simp only [List.mem_singleton] at hb
    subst hb; subst hab
    exact hc (by simpa using ha)

/-- `s'` differs from `s` only by what observer `e` does while reading signals -/
structure EvalPost (e : Nat) (s s' : State) : Prop where
  len : s'.nodes.length = s.nodes.length
  obs : s'.obs = s.obs
  ctl : ∀ i, ctl (s'.get i) = ctl (s.get i)
  subs_mono : ∀ i x, x ∈ (s.get i).subs → x ∈ (s'.get i).subs
  subs_new : ∀ i x, x ∈ (s'.get i).subs → x ∈ (s.get i).subs ∨ x = e
  srcs : ∀ i, i ≠ e → (s'.get i).sources = (s.get i).sources
  nodup : ∀ i, (s.get i).subs.Nodup → (s'.get i).subs.Nodup

theorem EvalPost.refl (e : Nat) (s : State) : EvalPost e s s :=
  ⟨rfl, rfl, fun _ => rfl, fun _ _ h => h, fun _ _ h => Or.inl h, fun _ _ => rfl, fun _ h => h⟩

theorem EvalPost.trans {e : Nat} {a b c : State} (h1 : EvalPost e a b) (h2 : EvalPost e b c) :
    EvalPost e a c where
  len := h2.len.trans h1.len
  obs := h2.obs.trans h1.obs
  ctl i := (h2.ctl i).trans (h1.ctl i)
  subs_mono i x h := h2.subs_mono i x (h1.subs_mono i x h)
  subs_new i x h := by
    rcases h2.subs_new i x h with h | h
    · exact h1.subs_new i x h
    · exact Or.inr h
  srcs i hi := (h2.srcs i hi).trans (h1.srcs i hi)
  nodup i h := h2.nodup i (h1.nodup i h)

theorem EvalPost.envOf {e : Nat} {s s' : State} (h : EvalPost e s s') : envOf s' = envOf s := by
  funext i
  have := h.ctl i
  simp only [RView.ctl, Prod.mk.injEq] at this
  simp only [Reactive.envOf, this.2.1]

theorem EvalPost.kind {e : Nat} {s s' : State} (h : EvalPost e s s') (i : Nat) :
    (s'.get i).kind = (s.get i).kind := by
  have := h.ctl i
  simp only [RView.ctl, Prod.mk.injEq] at this
  exact this.1

/-- hypotheses on the state in which a signal-only body is evaluated -/
structure EvalPre (K e : Nat) (s : State) : Prop where
  obs : s.obs = some e
  ke : K ≤ e
  lt : e < s.nodes.length
  sigs : ∀ i, i < K → (s.get i).kind = .sig

theorem EvalPre.of_post {K e : Nat} {s s' : State} (h : EvalPre K e s) (p : EvalPost e s s') :
    EvalPre K e s' where
  obs := p.obs.trans h.obs
  ke := h.ke
  lt := by rw [p.len]; exact h.lt
  sigs i hi := (p.kind i).trans (h.sigs i hi)

theorem read_sig_post {p : Prog} {f K e id : Nat} {wr : State → Nat → Int → State} {s : State} (h : EvalPre K e s) (hid : id < K) :
    let r := evalE (readNode (upd p f)) wr e (.rd true id) s
    EvalPost e s r.1 ∧ r.2 = Reactive.envOf s id ∧ e ∈ (r.1.get id).subs ∧
      (r.1.get e).sources = (s.get e).sources ++ [id] ∧
      (∀ i, e ∈ (r.1.get i).subs → e ∈ (s.get i).subs ∨ i = id) := by
  have hne : id ≠ e := by have := h.ke; omega
  have hidlt : id < s.nodes.length := by have := h.ke; have := h.lt; omega
  have hk := h.sigs id hid
  simp only [evalE, readNode, track, h.obs, if_true]
  -- the state after `track`
  generalize hs1 : ((s.upd e fun n => { n with sources := n.sources ++ [id] }).upd id
      fun n => { n with subs := subscribe n.subs e }) = s1
  have g1 : ∀ i, s1.get i =
      if i = id then { s.get i with subs := subscribe (s.get i).subs e }
      else if i = e then { s.get i with sources := (s.get i).sources ++ [id] } else s.get i := by
    intro i
    rw [← hs1, State.get_upd]
    by_cases hi : i = id
    · subst hi
      simp only [State.upd_length, hidlt, and_self, if_true]
      rw [State.get_upd_ne _ _ (Ne.symm hne)]
    · have : ¬ (id = i ∧ i < (s.upd e fun n => { n with sources := n.sources ++ [id] }).nodes.length) := by
        intro hh; exact hi hh.1.symm
      simp only [this, if_false, hi]
      rw [State.get_upd]
      by_cases hie : i = e
      · subst hie; simp [h.lt]
      · have : ¬ (e = i ∧ i < s.nodes.length) := fun hh => hie hh.1.symm
        simp [this, hie]
  have hk1 : (s1.get id).kind = .sig := by rw [g1]; simp [hk]
  simp only [hk1]
  have hlen1 : s1.nodes.length = s.nodes.length := by rw [← hs1]; simp
  have hobs1 : s1.obs = s.obs := by rw [← hs1]; rfl
  refine ⟨?_, ?_, ?_, ?_, ?_⟩
  · refine ⟨by simp [hlen1], by simp [hobs1], ?_, ?_, ?_, ?_, ?_⟩
    · intro i
      simp only [State.emit_get]
      rw [State.get_upd]
      split
      · next hh => rw [g1]; obtain ⟨rfl, _⟩ := hh; simp [Ne.symm hne, RView.ctl]
      · rw [g1]; split
        · simp [RView.ctl]
        · split <;> simp [RView.ctl]
    · intro i x hx
      simp only [State.emit_get]
      rw [State.get_upd]
      split
      · next hh => obtain ⟨rfl, _⟩ := hh; rw [g1]; simp [Ne.symm hne, hx]
      · rw [g1]; split
        · next hi => subst hi; simp only; exact mem_subscribe'.2 (Or.inl hx)
        · split <;> exact hx
    · intro i x hx
      simp only [State.emit_get] at hx
      rw [State.get_upd] at hx
      split at hx
      · next hh => obtain ⟨rfl, _⟩ := hh; rw [g1] at hx; simp [Ne.symm hne] at hx; exact Or.inl hx
      · rw [g1] at hx; split at hx
        · next hi => subst hi; simp only at hx; exact mem_subscribe'.1 hx
        · split at hx <;> exact Or.inl hx
    · intro i hi
      simp only [State.emit_get]
      rw [State.get_upd_ne _ _ (Ne.symm hi), g1]
      split
      · rfl
      · simp
    · intro i hnd
      simp only [State.emit_get]
      rw [State.get_upd]
      split
      · next hh => obtain ⟨rfl, _⟩ := hh; rw [g1]; simp [Ne.symm hne]; exact hnd
      · rw [g1]; split
        · next hi => subst hi; exact nodup_subscribe' hnd
        · split <;> exact hnd
  · rw [g1]; simp [Reactive.envOf]
  · simp only [State.emit_get]
    rw [State.get_upd_ne _ _ (Ne.symm hne), g1]
    simp only [if_true]
    exact mem_subscribe'.2 (Or.inr rfl)
  · simp only [State.emit_get]
    rw [State.get_upd_same _ _ (by rw [hlen1]; exact h.lt), g1]
    simp [Ne.symm hne]
  · intro i hm
    simp only [State.emit_get] at hm
    by_cases hi : i = id
    · exact Or.inr hi
    · left
      rw [State.get_upd] at hm
      split at hm
      · next hh => obtain ⟨rfl, _⟩ := hh; rw [g1] at hm; simpa [hi] using hm
      · rw [g1] at hm; simp only [hi, if_false] at hm
        split at hm <;> exact hm

/-- what evaluating a signal-only body under observer `e` does -/
structure EvalRes (e : Nat) (x : Expr) (s s' : State) (v : Int) : Prop where
  post : EvalPost e s s'
  val : v = evalPure (Reactive.envOf s) x
  subd : ∀ i ∈ readsU (Reactive.envOf s) x, e ∈ (s'.get i).subs
  srcs : (s'.get e).sources = (s.get e).sources ++ readsU (Reactive.envOf s) x
  only : ∀ i, e ∈ (s'.get i).subs → e ∈ (s.get i).subs ∨ i ∈ readsU (Reactive.envOf s) x

theorem evalE_sig {p : Prog} {f K e : Nat} {wr : State → Nat → Int → State} : ∀ (x : Expr) (s : State), EvalPre K e s →
    x.readsBelow K = true → x.noWrite = true → x.noUntracked = true →
    EvalRes e x s (evalE (readNode (upd p f)) wr e x s).1
      (evalE (readNode (upd p f)) wr e x s).2
  | .lit n, s, _, _, _, _ => by
    simp only [evalE]
    exact ⟨EvalPost.refl e s, rfl, by simp [readsU], by simp [readsU], fun i h => Or.inl h⟩
  | .rd tracked id, s, h, hb, _, ht => by
    simp only [Expr.noUntracked] at ht
    subst ht
    simp only [Expr.readsBelow, decide_eq_true_eq] at hb
    obtain ⟨h1, h2, h3, h4, h5⟩ := read_sig_post (p := p) (f := f) (wr := wr) h hb
    refine ⟨h1, ?_, ?_, ?_, ?_⟩
    · simp only [evalPure]; exact h2
    · intro i hi
      simp only [readsU, List.mem_singleton] at hi
      subst hi; exact h3
    · simp only [readsU]; exact h4
    · intro i hm
      rcases h5 i hm with h | h
      · exact Or.inl h
      · exact Or.inr (by simp [readsU, h])
  | .add a b, s, h, hb, hw, ht => by
    simp only [Expr.readsBelow, Bool.and_eq_true] at hb
    simp only [Expr.noWrite, Bool.and_eq_true] at hw
    simp only [Expr.noUntracked, Bool.and_eq_true] at ht
    have ra := evalE_sig (p := p) (f := f) (wr := wr) a s h hb.1 hw.1 ht.1
    have h' := h.of_post ra.post
    have rb := evalE_sig (p := p) (f := f) (wr := wr) b _ h' hb.2 hw.2 ht.2
    simp only [evalE]
    have henv := ra.post.envOf
    refine ⟨ra.post.trans rb.post, ?_, ?_, ?_, ?_⟩
    · simp only [evalPure]; rw [ra.val, rb.val, henv]
    · intro i hi
      simp only [readsU, List.mem_append] at hi
      rcases hi with hi | hi
      · exact rb.post.subs_mono i e (ra.subd i hi)
      · exact rb.subd i (by rw [henv]; exact hi)
    · rw [rb.srcs, ra.srcs, henv]; simp [readsU]
    · intro i hm
      rcases rb.only i hm with h1 | h1
      · rcases ra.only i h1 with h2 | h2
        · exact Or.inl h2
        · exact Or.inr (by simp [readsU, h2])
      · rw [henv] at h1; exact Or.inr (by simp [readsU, h1])
  | .mulc k a, s, h, hb, hw, ht => by
    simp only [Expr.readsBelow] at hb
    simp only [Expr.noWrite] at hw
    simp only [Expr.noUntracked] at ht
    have ra := evalE_sig (p := p) (f := f) (wr := wr) a s h hb hw ht
    simp only [evalE]
    refine ⟨ra.post, ?_, ?_, ?_, ?_⟩
    · simp only [evalPure]; rw [ra.val]
    · intro i hi; exact ra.subd i (by simpa [readsU] using hi)
    · rw [ra.srcs]; simp [readsU]
    · intro i hm
      rcases ra.only i hm with h | h
      · exact Or.inl h
      · exact Or.inr (by simpa [readsU] using h)
  | .ite c t el, s, h, hb, hw, ht => by
    simp only [Expr.readsBelow, Bool.and_eq_true] at hb
    simp only [Expr.noWrite, Bool.and_eq_true] at hw
    simp only [Expr.noUntracked, Bool.and_eq_true] at ht
    have rc := evalE_sig (p := p) (f := f) (wr := wr) c s h hb.1.1 hw.1.1 ht.1.1
    have h' := h.of_post rc.post
    have henv := rc.post.envOf
    simp only [evalE]
    by_cases hv : (evalE (readNode (upd p f)) wr e c s).2 != 0
    · simp only [hv, if_true]
      have hv' : evalPure (Reactive.envOf s) c != 0 := by rw [← rc.val]; exact hv
      have rt := evalE_sig (p := p) (f := f) (wr := wr) t _ h' hb.1.2 hw.1.2 ht.1.2
      refine ⟨rc.post.trans rt.post, ?_, ?_, ?_, ?_⟩
      · simp only [evalPure, hv', if_true]; rw [rt.val, henv]
      · intro i hi
        simp only [readsU, hv', if_true, List.mem_append] at hi
        rcases hi with hi | hi
        · exact rt.post.subs_mono i e (rc.subd i hi)
        · exact rt.subd i (by rw [henv]; exact hi)
      · rw [rt.srcs, rc.srcs, henv]; simp [readsU, hv']
      · intro i hm
        rcases rt.only i hm with h1 | h1
        · rcases rc.only i h1 with h2 | h2
          · exact Or.inl h2
          · exact Or.inr (by simp [readsU, h2])
        · rw [henv] at h1; exact Or.inr (by simp [readsU, hv', h1])
    · simp only [hv, Bool.false_eq_true, ↓reduceIte]
      have hv' : ¬ (evalPure (Reactive.envOf s) c != 0) := by rw [← rc.val]; exact hv
      have re := evalE_sig (p := p) (f := f) (wr := wr) el _ h' hb.2 hw.2 ht.2
      refine ⟨rc.post.trans re.post, ?_, ?_, ?_, ?_⟩
      · simp only [evalPure, hv', Bool.false_eq_true, ↓reduceIte]; rw [re.val, henv]
      · intro i hi
        simp only [readsU, hv', Bool.false_eq_true, ↓reduceIte, List.mem_append] at hi
        rcases hi with hi | hi
        · exact re.post.subs_mono i e (rc.subd i hi)
        · exact re.subd i (by rw [henv]; exact hi)
      · rw [re.srcs, rc.srcs, henv]; simp [readsU, hv']
      · intro i hm
        rcases re.only i hm with h1 | h1
        · rcases rc.only i h1 with h2 | h2
          · exact Or.inl h2
          · exact Or.inr (by simp [readsU, h2])
        · rw [henv] at h1; exact Or.inr (by simp [readsU, hv', h1])
  | .seq a b, s, h, hb, hw, ht => by
    simp only [Expr.readsBelow, Bool.and_eq_true] at hb
    simp only [Expr.noWrite, Bool.and_eq_true] at hw
    simp only [Expr.noUntracked, Bool.and_eq_true] at ht
    have ra := evalE_sig (p := p) (f := f) (wr := wr) a s h hb.1 hw.1 ht.1
    have h' := h.of_post ra.post
    have rb := evalE_sig (p := p) (f := f) (wr := wr) b _ h' hb.2 hw.2 ht.2
    simp only [evalE]
    have henv := ra.post.envOf
    refine ⟨ra.post.trans rb.post, ?_, ?_, ?_, ?_⟩
    · simp only [evalPure]; rw [rb.val, henv]
    · intro i hi
      simp only [readsU, List.mem_append] at hi
      rcases hi with hi | hi
      · exact rb.post.subs_mono i e (ra.subd i hi)
      · exact rb.subd i (by rw [henv]; exact hi)
    · rw [rb.srcs, ra.srcs, henv]; simp [readsU]
    · intro i hm
      rcases rb.only i hm with h1 | h1
      · rcases ra.only i h1 with h2 | h2
        · exact Or.inl h2
        · exact Or.inr (by simp [readsU, h2])
      · rw [henv] at h1; exact Or.inr (by simp [readsU, h1])
  | .wr _ _, _, _, _, hw, _ => by simp [Expr.noWrite] at hw


/-! ## one run of a signal-only effect body -/

/-- only effect `e` acted: other nodes keep their control part and sources, and keep exactly their
subscriptions; `e` itself keeps everything that its own run does not set -/
structure Acts (e : Nat) (s s' : State) : Prop where
  len : s'.nodes.length = s.nodes.length
  obs : s'.obs = s.obs
  ctl : ∀ i, i ≠ e → ctl (s'.get i) = ctl (s.get i)
  srcs : ∀ i, i ≠ e → (s'.get i).sources = (s.get i).sources
  subs : ∀ i x, x ≠ e → (x ∈ (s'.get i).subs ↔ x ∈ (s.get i).subs)

theorem Acts.refl (e : Nat) (s : State) : Acts e s s :=
  ⟨rfl, rfl, fun _ _ => rfl, fun _ _ => rfl, fun _ _ _ => Iff.rfl⟩

theorem Acts.trans {e : Nat} {a b c : State} (h1 : Acts e a b) (h2 : Acts e b c) : Acts e a c where
  len := h2.len.trans h1.len
  obs := h2.obs.trans h1.obs
  ctl i hi := (h2.ctl i hi).trans (h1.ctl i hi)
  srcs i hi := (h2.srcs i hi).trans (h1.srcs i hi)
  subs i x hx := (h2.subs i x hx).trans (h1.subs i x hx)

theorem EvalPost.acts {e : Nat} {s s' : State} (h : EvalPost e s s') : Acts e s s' where
  len := h.len
  obs := h.obs
  ctl i _ := h.ctl i
  srcs := h.srcs
  subs i x hx := ⟨fun hm => (h.subs_new i x hm).resolve_right hx, h.subs_mono i x⟩

theorem Acts.of_upd (s : State) (e : Nat) (g : Node → Node) (hs : ∀ n, (g n).subs = n.subs) :
    Acts e s (s.upd e g) where
  len := by simp
  obs := rfl
  ctl i hi := by rw [State.get_upd_ne _ _ (Ne.symm hi)]
  srcs i hi := by rw [State.get_upd_ne _ _ (Ne.symm hi)]
  subs i x _ := by
    rw [State.get_upd]; split
    · rw [hs]
    · rfl

/-- `clearSources`: `e` is erased from the subscriber lists of its sources -/
theorem clearSources_fold_acts (e : Nat) : ∀ (l : List Nat) (s : State),
    Acts e s (l.foldl (fun s src => s.upd src fun n => { n with subs := n.subs.erase e }) s) ∧
    (∀ i, RView.ctl ((l.foldl (fun s src => s.upd src fun n => { n with subs := n.subs.erase e }) s).get i)
        = RView.ctl (s.get i)) ∧
    (∀ i, ((l.foldl (fun s src => s.upd src fun n => { n with subs := n.subs.erase e }) s).get i).sources
        = (s.get i).sources)
  | [], s => ⟨Acts.refl e s, fun _ => rfl, fun _ => rfl⟩
  | src :: rest, s => by
    simp only [List.foldl_cons]
    have ih := clearSources_fold_acts e rest (s.upd src fun n => { n with subs := n.subs.erase e })
    have step : Acts e s (s.upd src fun n => { n with subs := n.subs.erase e }) := by
      refine ⟨by simp, rfl, ?_, ?_, ?_⟩
      · intro i _; rw [State.get_upd]; split <;> rfl
      · intro i _; rw [State.get_upd]; split <;> rfl
      · intro i x hx
        rw [State.get_upd]; split
        · simp only; exact List.mem_erase_of_ne hx
        · rfl
    refine ⟨step.trans ih.1, ?_, ?_⟩
    · intro i; rw [ih.2.1 i, State.get_upd]; split <;> rfl
    · intro i; rw [ih.2.2 i, State.get_upd]; split <;> rfl

theorem clearSources_acts (s : State) (e : Nat) :
    Acts e s (clearSources s e) ∧ (∀ i, RView.ctl ((clearSources s e).get i) = RView.ctl (s.get i)) ∧
      (e < s.nodes.length → ((clearSources s e).get e).sources = []) := by
  unfold clearSources
  have h := clearSources_fold_acts e (s.get e).sources s
  refine ⟨h.1.trans (Acts.of_upd _ e _ (fun _ => rfl)), ?_, ?_⟩
  · intro i; rw [State.get_upd]; split
    · rw [← h.2.1 i]; rfl
    · exact h.2.1 i
  · intro hlt
    rw [State.get_upd_same _ _ (by rw [h.1.len]; exact hlt)]

theorem clearSources_fold_exact (e : Nat) : ∀ (l : List Nat) (s : State),
    (∀ i, (s.get i).subs.Nodup) →
    (∀ i, ((l.foldl (fun s src => s.upd src fun n => { n with subs := n.subs.erase e }) s).get i).subs.Nodup) ∧
    (∀ i, e ∈ ((l.foldl (fun s src => s.upd src fun n => { n with subs := n.subs.erase e }) s).get i).subs →
      e ∈ (s.get i).subs ∧ i ∉ l)
  | [], s, h => ⟨h, fun i hm => ⟨hm, by simp⟩⟩
  | src :: rest, s, h => by
    simp only [List.foldl_cons]
    have hstep : ∀ i, ((s.upd src fun n => { n with subs := n.subs.erase e }).get i).subs =
        if src = i ∧ i < s.nodes.length then (s.get i).subs.erase e else (s.get i).subs := by
      intro i; rw [State.get_upd]; split <;> rfl
    have hnd1 : ∀ i, ((s.upd src fun n => { n with subs := n.subs.erase e }).get i).subs.Nodup := by
      intro i; rw [hstep]; split
      · exact (h i).erase e
      · exact h i
    have ih := clearSources_fold_exact e rest _ hnd1
    refine ⟨ih.1, ?_⟩
    intro i hm
    have h1 := ih.2 i hm
    rw [hstep] at h1
    by_cases hi : src = i
    · subst hi
      by_cases hlt : src < s.nodes.length
      · simp only [hlt, and_self, if_true] at h1
        have := ((h src).mem_erase_iff).1 h1.1
        exact absurd rfl this.1
      · exfalso
        simp only [hlt, and_false, if_false] at h1
        rw [State.get_default s (by omega)] at h1
        simp at h1
    · simp only [hi, false_and, if_false] at h1
      refine ⟨h1.1, ?_⟩
      simp only [List.mem_cons, not_or]
      exact ⟨fun hh => hi hh.symm, h1.2⟩

theorem clearSources_exact (s : State) (e : Nat) (hnd : ∀ i, (s.get i).subs.Nodup)
    (hex : ∀ i, e ∈ (s.get i).subs → i ∈ (s.get e).sources) :
    (∀ i, ((clearSources s e).get i).subs.Nodup) ∧ (∀ i, e ∉ ((clearSources s e).get i).subs) := by
  unfold clearSources
  have h := clearSources_fold_exact e (s.get e).sources s hnd
  have hsub : ∀ i, (((List.foldl (fun s src => s.upd src fun n => { n with subs := n.subs.erase e }) s
      (s.get e).sources).upd e fun n => { n with sources := [] }).get i).subs =
      ((List.foldl (fun s src => s.upd src fun n => { n with subs := n.subs.erase e }) s
      (s.get e).sources).get i).subs := by
    intro i; rw [State.get_upd]; split <;> rfl
  refine ⟨fun i => by rw [hsub]; exact h.1 i, fun i hm => ?_⟩
  rw [hsub] at hm
  have := h.2 i hm
  exact this.2 (hex i this.1)

theorem clearSources_nodup (s : State) (e : Nat) (hnd : ∀ i, (s.get i).subs.Nodup) :
    ∀ i, ((clearSources s e).get i).subs.Nodup := by
  unfold clearSources
  have h := clearSources_fold_exact e (s.get e).sources s hnd
  intro i
  rw [State.get_upd]; split
  · exact h.1 i
  · exact h.1 i

theorem noteRun_subs (s : State) (e : Nat) (i : Nat) : ((noteRun s e).get i).subs = (s.get i).subs := by
  unfold noteRun
  split
  · simp only [State.emit_get]; rw [State.get_upd]; split <;> rfl
  · simp only [State.emit_get]; rw [State.get_upd]; split <;> rfl

theorem Acts.emit {e : Nat} {s s' : State} (h : Acts e s s') (ev : Ev) : Acts e s (s'.emit ev) :=
  ⟨h.len, h.obs, h.ctl, h.srcs, h.subs⟩

theorem Acts.emit_left {e : Nat} {s s' : State} (ev : Ev) (h : Acts e (s.emit ev) s') : Acts e s s' :=
  ⟨h.len, h.obs, h.ctl, h.srcs, h.subs⟩

theorem Acts.setObs {e : Nat} {s s' : State} (h : Acts e s s') (o : Option Nat) (ho : o = s.obs) :
    Acts e s ({ s' with obs := o } : State) :=
  ⟨h.len, ho, h.ctl, h.srcs, h.subs⟩

theorem noteRun_acts (s : State) (e : Nat) :
    Acts e s (noteRun s e) ∧ (∀ i, RView.ctl ((noteRun s e).get i) = RView.ctl (s.get i)) ∧
      ((noteRun s e).get e).sources = (s.get e).sources := by
  unfold noteRun
  split
  · refine ⟨(Acts.of_upd s e (fun n => { n with seen := [], runs := n.runs + 1, running := true })
      (fun _ => rfl)).emit _, ?_, ?_⟩
    · intro i; simp only [State.emit_get]; rw [State.get_upd]; split <;> rfl
    · simp only [State.emit_get]; rw [State.get_upd]; split <;> rfl
  · refine ⟨Acts.emit_left (.unjust e) ((Acts.of_upd (s.emit (.unjust e)) e
      (fun n => { n with seen := [], runs := n.runs + 1, running := true }) (fun _ => rfl)).emit _), ?_, ?_⟩
    · intro i; simp only [State.emit_get]; rw [State.get_upd]; split <;> rfl
    · simp only [State.emit_get]; rw [State.get_upd]; split <;> rfl

/-- the result of `runEffBody` for an effect whose body reads signals only -/
structure RunPost (K e : Nat) (x : Expr) (s s' : State) : Prop where
  acts : Acts e s s'
  /-- the control part of `e` is unchanged except for the value -/
  ctl_e : RView.ctl (s'.get e) =
    ((s.get e).kind, some (evalPure (Reactive.envOf s) x), (s.get e).st, (s.get e).dirty, (s.get e).chan,
      (s.get e).woken, (s.get e).first, (s.get e).paused, (s.get e).alive, (s.get e).done)
  subd : ∀ i ∈ readsU (Reactive.envOf s) x, e ∈ (s'.get i).subs
  srcs_e : (s'.get e).sources = readsU (Reactive.envOf s) x
  nodup : (∀ i, (s.get i).subs.Nodup) → ∀ i, (s'.get i).subs.Nodup
  /-- exact subscription: afterwards `e` is subscribed to exactly what it read -/
  only : (∀ i, (s.get i).subs.Nodup) → (∀ i, e ∈ (s.get i).subs → i ∈ (s.get e).sources) →
    ∀ i, e ∈ (s'.get i).subs → i ∈ readsU (Reactive.envOf s) x

theorem runEffBody_eq (p : Prog) (f : Nat) (s : State) (e : Nat) :
    runEffBody p f s e =
      (({ (evalE (readNode (upd p f)) (setSignal f) e (bodyOf p e)
            { noteRun (clearSources s e) e with obs := some e }).1 with obs := s.obs } : State).upd e fun n =>
        { n with
          val := some (evalE (readNode (upd p f)) (setSignal f) e (bodyOf p e)
            { noteRun (clearSources s e) e with obs := some e }).2,
          running := false,
          ver := (if ((clearSources s e).get e).val != some (evalE (readNode (upd p f)) (setSignal f) e (bodyOf p e)
            { noteRun (clearSources s e) e with obs := some e }).2 then n.ver + 1 else n.ver) }) := rfl

theorem runPost_assemble {K e : Nat} {x : Expr} {s s2 s3 : State} {v : Int} (g : Node → Nat)
    (hke : K ≤ e) (hlt : e < s.nodes.length) (hb : x.readsBelow K = true)
    (a02 : Acts e s s2) (ctl02 : ∀ i, RView.ctl (s2.get i) = RView.ctl (s.get i))
    (src2 : (s2.get e).sources = [])
    (nd2 : (∀ i, (s.get i).subs.Nodup) → ∀ i, (s2.get i).subs.Nodup)
    (ex2 : (∀ i, (s.get i).subs.Nodup) → (∀ i, e ∈ (s.get i).subs → i ∈ (s.get e).sources) →
      ∀ i, e ∉ (s2.get i).subs)
    (r : EvalRes e x { s2 with obs := some e } s3 v) :
    RunPost K e x s (({ s3 with obs := s.obs } : State).upd e fun n =>
      { n with val := some v, running := false, ver := g n }) := by
  have henv2 : Reactive.envOf ({ s2 with obs := some e } : State) = Reactive.envOf s := by
    funext i
    have := ctl02 i; simp only [RView.ctl, Prod.mk.injEq] at this
    simp only [Reactive.envOf, State.setObs_get, this.2.1]
  have a23 := r.post.acts
  have hlen3 : s3.nodes.length = s.nodes.length := by rw [r.post.len]; exact a02.len
  have hlt3 : e < ({ s3 with obs := s.obs } : State).nodes.length := by
    show e < s3.nodes.length; rw [hlen3]; exact hlt
  have hsub3 : ∀ i, ((({ s3 with obs := s.obs } : State).upd e fun n =>
      { n with val := some v, running := false, ver := g n }).get i).subs = (s3.get i).subs := by
    intro i; rw [State.get_upd]; split <;> rfl
  refine ⟨?_, ?_, ?_, ?_, ?_, ?_⟩
  · have h1 : Acts e s ({ s3 with obs := s.obs } : State) :=
      ⟨hlen3, rfl, fun i hi => (a23.ctl i hi).trans (a02.ctl i hi),
        fun i hi => (a23.srcs i hi).trans (a02.srcs i hi),
        fun i y hy => (a23.subs i y hy).trans (a02.subs i y hy)⟩
    exact h1.trans (Acts.of_upd _ e _ (fun _ => rfl))
  · rw [State.get_upd_same _ _ hlt3]
    have h3 := r.post.ctl e
    have h2 := ctl02 e
    simp only [State.setObs_get] at h3
    simp only [RView.ctl, Prod.mk.injEq] at h3 h2 ⊢
    rw [r.val, henv2]
    simp only [State.setObs_get]
    refine ⟨h3.1.trans h2.1, trivial, h3.2.2.1.trans h2.2.2.1, h3.2.2.2.1.trans h2.2.2.2.1,
      h3.2.2.2.2.1.trans h2.2.2.2.2.1, h3.2.2.2.2.2.1.trans h2.2.2.2.2.2.1,
      h3.2.2.2.2.2.2.1.trans h2.2.2.2.2.2.2.1, h3.2.2.2.2.2.2.2.1.trans h2.2.2.2.2.2.2.2.1,
      h3.2.2.2.2.2.2.2.2.1.trans h2.2.2.2.2.2.2.2.2.1, h3.2.2.2.2.2.2.2.2.2.trans h2.2.2.2.2.2.2.2.2.2⟩
  · intro i hi
    have hi' : i ∈ readsU (Reactive.envOf ({ s2 with obs := some e } : State)) x := by rw [henv2]; exact hi
    have hie : i ≠ e := by
      have := readsU_below x hb i hi; omega
    rw [State.get_upd_ne _ _ (Ne.symm hie)]
    exact r.subd i hi'
  · rw [State.get_upd_same _ _ hlt3]
    show (s3.get e).sources = _
    rw [r.srcs, henv2]
    simp only [State.setObs_get, src2, List.nil_append]
  · intro hnd i
    rw [hsub3]
    exact r.post.nodup i (nd2 hnd i)
  · intro hnd hex i hm
    rw [hsub3] at hm
    rcases r.only i hm with h | h
    · exact absurd h (ex2 hnd hex i)
    · rw [henv2] at h; exact h

theorem runEffBody_sig {p : Prog} {f K e : Nat} {x : Expr} {s : State}
    (hke : K ≤ e) (hlt : e < s.nodes.length)
    (hsigs : ∀ i, i < K → (s.get i).kind = .sig) (hbody : bodyOf p e = x)
    (hb : x.readsBelow K = true) (hw : x.noWrite = true) (ht : x.noUntracked = true) :
    RunPost K e x s (runEffBody p f s e) := by
  rw [runEffBody_eq, hbody]
  have c := clearSources_acts s e
  have n := noteRun_acts (clearSources s e) e
  have a02 : Acts e s (noteRun (clearSources s e) e) := c.1.trans n.1
  have ctl02 : ∀ i, RView.ctl ((noteRun (clearSources s e) e).get i) = RView.ctl (s.get i) :=
    fun i => (n.2.1 i).trans (c.2.1 i)
  have src2 : ((noteRun (clearSources s e) e).get e).sources = [] := by rw [n.2.2]; exact c.2.2 hlt
  have pre : EvalPre K e { noteRun (clearSources s e) e with obs := some e } :=
    ⟨rfl, hke, by show e < (noteRun (clearSources s e) e).nodes.length; rw [a02.len]; exact hlt,
     fun i hi => by
       show ((noteRun (clearSources s e) e).get i).kind = .sig
       have := ctl02 i; simp only [RView.ctl, Prod.mk.injEq] at this; rw [this.1]; exact hsigs i hi⟩
  have r := evalE_sig (p := p) (f := f) (wr := setSignal f) x _ pre hb hw ht
  refine runPost_assemble _ hke hlt hb a02 ctl02 src2 ?_ ?_ r
  · intro hnd i; rw [noteRun_subs]; exact clearSources_nodup s e hnd i
  · intro hnd hex i; rw [noteRun_subs]; exact (clearSources_exact s e hnd hex).2 i


/-! ## writing a signal whose subscribers are effects -/

/-- `EffectInner::mark_dirty` on a live effect -/
def wake (n : Node) : Node :=
  if n.alive then { n with dirty := true, chan := true, woken := true } else n

theorem wake_wake (n : Node) : wake (wake n) = wake n := by
  unfold wake; split <;> simp_all

@[simp] theorem wake_kind (n : Node) : (wake n).kind = n.kind := by unfold wake; split <;> rfl
@[simp] theorem wake_subs (n : Node) : (wake n).subs = n.subs := by unfold wake; split <;> rfl
@[simp] theorem wake_sources (n : Node) : (wake n).sources = n.sources := by unfold wake; split <;> rfl
@[simp] theorem wake_alive (n : Node) : (wake n).alive = n.alive := by unfold wake; split <;> rfl
@[simp] theorem wake_done (n : Node) : (wake n).done = n.done := by unfold wake; split <;> rfl
@[simp] theorem wake_val (n : Node) : (wake n).val = n.val := by unfold wake; split <;> rfl
@[simp] theorem wake_first (n : Node) : (wake n).first = n.first := by unfold wake; split <;> rfl
@[simp] theorem wake_paused (n : Node) : (wake n).paused = n.paused := by unfold wake; split <;> rfl

theorem markDirty_eff (f : Nat) (s : State) (x : Nat) (hk : (s.get x).kind = .eff) (hx : x < s.nodes.length) :
    (markDirty f s x).nodes.length = s.nodes.length ∧ (markDirty f s x).obs = s.obs ∧
      ∀ i, (markDirty f s x).get i = if i = x then wake (s.get i) else s.get i := by
  unfold markDirty
  simp only [hk]
  by_cases ha : (s.get x).alive = true
  · simp only [ha, Bool.not_true, Bool.false_eq_true, ↓reduceIte]
    unfold notify
    have g1 : ((s.upd x fun n => { n with dirty := true }).get x).alive = true := by
      rw [State.get_upd_same _ _ hx]; exact ha
    simp only [g1, Bool.not_true, Bool.false_eq_true, ↓reduceIte]
    have key : ∀ i, (((s.upd x fun n => { n with dirty := true }).upd x fun n =>
        { n with chan := true, woken := true }).get i) = if i = x then wake (s.get i) else s.get i := by
      intro i
      by_cases hi : i = x
      · subst hi
        rw [State.get_upd_same _ _ (by simpa using hx), State.get_upd_same _ _ hx]
        simp [wake, ha]
      · rw [State.get_upd_ne _ _ (Ne.symm hi), State.get_upd_ne _ _ (Ne.symm hi)]; simp [hi]
    split
    · refine ⟨by simp, rfl, ?_⟩
      intro i; simp only [State.emit_get]; exact key i
    · exact ⟨by simp, rfl, key⟩
  · simp only [Bool.not_eq_true] at ha
    simp only [ha, Bool.not_false, ↓reduceIte]
    refine ⟨trivial, trivial, ?_⟩
    intro i; split
    · next hi => subst hi; simp [wake, ha]
    · rfl

theorem foldl_markDirty_eff (f : Nat) : ∀ (l : List Nat) (s : State),
    (∀ x ∈ l, (s.get x).kind = .eff ∧ x < s.nodes.length) →
    (l.foldl (markDirty f) s).nodes.length = s.nodes.length ∧ (l.foldl (markDirty f) s).obs = s.obs ∧
      ∀ i, (l.foldl (markDirty f) s).get i = if i ∈ l then wake (s.get i) else s.get i
  | [], s, _ => ⟨rfl, rfl, fun i => by simp⟩
  | x :: rest, s, h => by
    simp only [List.foldl_cons]
    have hx := h x (by simp)
    have m := markDirty_eff f s x hx.1 hx.2
    have ih := foldl_markDirty_eff f rest (markDirty f s x) (by
      intro y hy
      have := h y (by simp [hy])
      rw [m.2.2 y, m.1]
      refine ⟨?_, this.2⟩
      split
      · rw [wake_kind]; exact this.1
      · exact this.1)
    refine ⟨ih.1.trans m.1, ih.2.1.trans m.2.1, ?_⟩
    intro i
    rw [ih.2.2 i, m.2.2 i]
    by_cases hix : i = x
    · subst hix; simp [wake_wake]
    · simp [hix]

/-- `RwSignal::set` when every subscriber of the signal is an effect -/
theorem setSignal_eff (f : Nat) (s : State) (id : Nat) (v : Int) (hid : id < s.nodes.length)
    (hsubs : ∀ x ∈ (s.get id).subs, (s.get x).kind = .eff ∧ x < s.nodes.length ∧ x ≠ id) :
    (setSignal f s id v).nodes.length = s.nodes.length ∧ (setSignal f s id v).obs = s.obs ∧
      ∀ i, (setSignal f s id v).get i =
        if i = id then { s.get id with val := some v, ver := (s.get id).ver + 1 }
        else if i ∈ (s.get id).subs then wake (s.get i) else s.get i := by
  unfold setSignal sigNotify
  generalize hs1 : ((s.upd id fun n => { n with val := some v, ver := n.ver + 1 }).emit (Ev.set id)) = s1
  have g1 : ∀ i, s1.get i = if i = id then { s.get id with val := some v, ver := (s.get id).ver + 1 } else s.get i := by
    intro i; rw [← hs1]; simp only [State.emit_get]
    by_cases hi : i = id
    · subst hi; rw [State.get_upd_same _ _ hid]; simp
    · rw [State.get_upd_ne _ _ (Ne.symm hi)]; simp [hi]
  have hl1 : s1.nodes.length = s.nodes.length := by rw [← hs1]; simp
  have ho1 : s1.obs = s.obs := by rw [← hs1]; rfl
  have hsub1 : (s1.get id).subs = (s.get id).subs := by rw [g1]; simp
  have m := foldl_markDirty_eff f (s1.get id).subs s1 (by
    intro x hx
    rw [hsub1] at hx
    have := hsubs x hx
    rw [g1, hl1]; simp only [this.2.2, if_false]; exact ⟨this.1, this.2.1⟩)
  refine ⟨m.1.trans hl1, m.2.1.trans ho1, ?_⟩
  intro i
  rw [m.2.2 i, hsub1]
  by_cases hi : i = id
  · subst hi
    have : i ∉ (s.get i).subs := fun hm => (hsubs i hm).2.2 rfl
    simp only [this, if_false, if_true]; rw [g1]; simp
  · simp only [hi, if_false]; rw [g1]; simp [hi]

/-! ## `update_if_necessary` of an effect whose sources are signals -/

theorem anySrc_nonmemo (p : Prog) (f e : Nat) : ∀ (l : List Nat) (s : State),
    (∀ x ∈ l, (s.get x).kind ≠ .memo) → anySrc (upd p f) false e l s = (s, false)
  | [], s, _ => rfl
  | x :: rest, s, h => by
    have hx := h x (by simp)
    have hu : upd p f s x = (s, false) := by
      cases f with
      | zero => rfl
      | succ f => simp [upd, hx]
    simp only [anySrc, hu, Bool.false_and, Bool.or_false, Bool.false_eq_true, ↓reduceIte]
    exact anySrc_nonmemo p f e rest s (fun y hy => h y (by simp [hy]))

theorem effUpdate_clean (p : Prog) (f : Nat) (s : State) (e : Nat) (o : Option Nat)
    (hd : (s.get e).dirty = false) (hs : ∀ x ∈ (s.get e).sources, (s.get x).kind ≠ .memo) :
    effUpdate p f { s with obs := o } e = ({ s with obs := o }, false) := by
  unfold effUpdate
  simp only [State.setObs_get, hd, Bool.false_eq_true, ↓reduceIte]
  rw [anySrc_nonmemo p f e _ _ (by intro x hx; exact hs x hx)]
  simp only [State.setObs_get, hd, Bool.or_false]
  congr 1
  refine State.upd_eq_self _ _ _ ?_
  rw [State.setObs_get]
  cases hn : s.get e
  rw [hn] at hd
  simp only at hd
  simp [hd]

theorem effUpdate_dirty (p : Prog) (f : Nat) (s : State) (e : Nat) (hd : (s.get e).dirty = true) :
    effUpdate p f s e = (s.upd e fun n => { n with dirty := false }, true) := by
  unfold effUpdate; simp [hd]

end Leptos.RView
