import LeptosModel.Proofs.RViewCore
import LeptosModel.Proofs.RViewMain
/-!
# Proofs/RViewRenew — `replace` and `rebuild`: the new tree consists of fresh effects only, every effect of
the old tree is handed over to the zombies
-/
namespace Leptos.RView
open Leptos.Reactive

/-- the zombies added between two states -/
def newZ (s s' : St) : List (Nat × Option RState) := s'.zombies.drop s.zombies.length

theorem newZ_of_append {s s' : St} {l : List (Nat × Option RState)} (h : s'.zombies = s.zombies ++ l) :
    newZ s s' = l := by
  simp [newZ, h]

theorem newZ_trans {a b c : St} (h1 : b.zombies = a.zombies ++ newZ a b) (h2 : c.zombies = b.zombies ++ newZ b c) :
    c.zombies = a.zombies ++ (newZ a b ++ newZ b c) ∧ newZ a c = newZ a b ++ newZ b c := by
  have : c.zombies = a.zombies ++ (newZ a b ++ newZ b c) := by rw [h2, h1, List.append_assoc]
  exact ⟨this, newZ_of_append this⟩

/-- result of renewing a region: `old` = the effects of what was there before (all handed over to the
zombies), `new` = the effects of what is there now (all fresh) -/
structure RenewCore (K : Nat) (s : St) (old new : List Nat) (s' : St) : Prop where
  inv : RInv K s'
  zomb : s'.zombies = s.zombies ++ newZ s s'
  ext : Ext K (fun x => x ∈ old) s s'
  fresh : ∀ x ∈ new, s.prog.length ≤ x ∧ x < s'.prog.length
  nodup : new.Nodup
  zcnt : ∀ x, (zEffs (newZ s s')).count x = old.count x
  zids : ∀ z ∈ newZ s s', z.1 ∈ old
  zdead : ∀ z ∈ newZ s s', (s'.rs.get z.1).alive = false
  zok : ∀ z ∈ newZ s s', ∀ h, z.2 = some h → ZTree K s' h
  tasks : ∀ x ∈ s'.tasks, x ∈ s.tasks ∨ x ∈ new
  root : s'.root = s.root
  rootN : s'.rootN = s.rootN
  disposed : s'.disposed = s.disposed

structure Renewed (K : Nat) (s : St) (old : List Nat) (v : View) (t' : RState) (s' : St) : Prop where
  core : RenewCore K s old (effsOf t') s'
  good : Good K s' v t'

theorem replace_spec {K : Nat} {s : St} (hi : RInv K s) {v : View} (hw : v.wf K = true) (hc : v.core = true)
    {vo : View} {old : RState} (hold : GoodP (EffWf K s) vo old) (hwo : vo.wf K = true) (hco : vo.core = true) :
    Renewed K s (effsOf old) v (replace v old s).1 (replace v old s).2.1 := by
  rw [replace_eq s (GoodP.locals_nil vo old hold)]
  dsimp only
  have b := build_spec v s hi hw hc
  have d := dropAll_spec old.held (build v s).2
  have hheld := held_ok vo old hold hwo hco
  have hbound := GoodP.bound vo old hold
  have hids : ∀ x ∈ old.held.map (·.1), x ∈ effsOf old := by
    intro x hx
    obtain ⟨z, hz, rfl⟩ := List.mem_map.1 hx
    exact (hheld z hz).1
  have hK : ∀ x ∈ old.held.map (·.1), K ≤ x := fun x hx => (hbound x (hids x hx)).1
  have hz : (dropAll (build v s).2 old.held).zombies = s.zombies ++ old.held := by
    show (dropAll (build v s).2 old.held).zombies = _
    rw [d.zombies, b.same.zombies]
  have hnz : newZ s (dropAll (build v s).2 old.held) = old.held := newZ_of_append hz
  have hdx := d.ext hK
  have hx1 : Ext K (fun x => x ∈ effsOf old) s (build v s).2 :=
    b.ext.mono (fun _ hf => hf.elim) (fun i hi' => (hbound i hi').1)
  have hx2 : Ext K (fun x => x ∈ effsOf old) (build v s).2 (dropAll (build v s).2 old.held) :=
    hdx.mono (fun i hi' => hids i hi') (fun i hi' => (hbound i hi').1)
  refine ⟨⟨d.rinv b.inv, by rw [hnz]; exact hz, hx1.trans hx2, ?_, b.nodup, ?_, ?_, ?_, ?_, ?_,
    d.root.trans b.same.root, d.rootN.trans b.same.rootN, d.disposed.trans b.same.disposed⟩, ?_⟩
  rotate_right
  · refine Good.ext b.inv hdx v _ b.good ?_
    intro e he ha
    have h1 := b.fresh e he
    have h2 := (hbound e (hids e ha)).2
    omega
  · intro x hx
    have := b.fresh x hx
    have hp : (dropAll (build v s).2 old.held).prog = (build v s).2.prog := d.prog
    show _ ∧ x < (dropAll (build v s).2 old.held).prog.length
    rw [hp]; exact this
  · intro x; rw [hnz, zEffs_held]
  · intro z hz'; rw [hnz] at hz'; exact (hheld z hz').1
  · intro z hz'
    rw [hnz] at hz'
    have hm : z.1 ∈ old.held.map (·.1) := List.mem_map.2 ⟨z, hz', rfl⟩
    show ((dropAll (build v s).2 old.held).rs.get z.1).alive = false
    rw [d.get z.1]; simp only [hm, if_true]
    have hb := hbound z.1 (hids z.1 hm)
    exact killed_alive_eff _ (b.inv.effk z.1 hb.1 (by have := b.ext.len_le; omega))
  · intro z hz' h hh
    rw [hnz] at hz'
    exact ((hheld z hz').2 h hh).ext (hx1.trans hx2)
  · intro x hx
    have hx' : x ∈ (dropAll (build v s).2 old.held).tasks := hx
    rw [d.tasks] at hx'
    exact build_tasks v s hc x hx'


theorem RenewCore.refl {K : Nat} {s : St} (hi : RInv K s) : RenewCore K s [] [] s := by
  have hn : newZ s s = [] := by simp [newZ]
  exact ⟨hi, by rw [hn]; simp, Ext.refl K _ (fun _ h => by simp at h) s, fun _ h => by simp at h, List.nodup_nil,
    fun x => by rw [hn]; simp [zEffs], fun z hz => by rw [hn] at hz; simp at hz,
    fun z hz => by rw [hn] at hz; simp at hz, fun z hz => by rw [hn] at hz; simp at hz,
    fun x hx => Or.inl hx, rfl, rfl, rfl⟩

/-- two renewals in sequence (disjoint old parts that existed before the first one) -/
theorem RenewCore.comp {K : Nat} {s s1 s2 : St} {oldA oldB newA newB : List Nat}
    (h1 : RenewCore K s oldA newA s1) (h2 : RenewCore K s1 oldB newB s2)
    (hbA : ∀ x ∈ oldA, K ≤ x ∧ x < s.prog.length) (hbB : ∀ x ∈ oldB, K ≤ x ∧ x < s.prog.length)
    (hnd : (oldA ++ oldB).Nodup) :
    RenewCore K s (oldA ++ oldB) (newA ++ newB) s2 := by
  have hz := newZ_trans h1.zomb h2.zomb
  have hlen1 := h1.ext.len_le
  have hlen2 := h2.ext.len_le
  have hK : ∀ i, i ∈ oldA ++ oldB → K ≤ i := by
    intro i hi
    rcases List.mem_append.1 hi with h | h
    · exact (hbA i h).1
    · exact (hbB i h).1
  have hx1 : Ext K (fun x => x ∈ oldA ++ oldB) s s1 :=
    h1.ext.mono (fun i hi => List.mem_append.2 (Or.inl hi)) hK
  have hx2 : Ext K (fun x => x ∈ oldA ++ oldB) s1 s2 :=
    h2.ext.mono (fun i hi => List.mem_append.2 (Or.inr hi)) hK
  refine ⟨h2.inv, by rw [hz.2]; exact hz.1, hx1.trans hx2, ?_, ?_, ?_, ?_, ?_, ?_, ?_,
    h2.root.trans h1.root, h2.rootN.trans h1.rootN, h2.disposed.trans h1.disposed⟩
  · intro x hx
    rcases List.mem_append.1 hx with h | h
    · have := h1.fresh x h; omega
    · have := h2.fresh x h; omega
  · refine List.nodup_append.2 ⟨h1.nodup, h2.nodup, ?_⟩
    intro a ha b hb hab
    have := h1.fresh a ha; have := h2.fresh b hb; omega
  · intro x
    rw [hz.2, zEffs_append, List.count_append, List.count_append, h1.zcnt, h2.zcnt]
  · intro z hm
    rw [hz.2] at hm
    rcases List.mem_append.1 hm with h | h
    · exact List.mem_append.2 (Or.inl (h1.zids z h))
    · exact List.mem_append.2 (Or.inr (h2.zids z h))
  · intro z hm
    rw [hz.2] at hm
    rcases List.mem_append.1 hm with h | h
    · have hzA := h1.zids z h
      have hnB : z.1 ∉ oldB := fun hB => (List.nodup_append.1 hnd).2.2 z.1 hzA z.1 hB rfl
      have hc := h2.ext.ctl z.1 (by have := (hbA z.1 hzA).2; omega) hnB
      simp only [RView.ctl, Prod.mk.injEq] at hc
      rw [hc.2.2.2.2.2.2.2.2.1]; exact h1.zdead z h
    · exact h2.zdead z h
  · intro z hm hh hhh
    rw [hz.2] at hm
    rcases List.mem_append.1 hm with h | h
    · exact (h1.zok z h hh hhh).ext h2.ext
    · exact h2.zok z h hh hhh
  · intro x hx
    rcases h2.tasks x hx with h | h
    · rcases h1.tasks x h with h' | h'
      · exact Or.inl h'
      · exact Or.inr (List.mem_append.2 (Or.inl h'))
    · exact Or.inr (List.mem_append.2 (Or.inr h))


/-- `NewEff.effOK` along an extension whose acting set does not contain the new effect -/
theorem NewEff.effOK' {K : Nat} {A : Nat → Prop} {st st1 st2 : St} {x : Expr} {e : Nat} {v : Int}
    {cur : Int → Prop} (hn : NewEff K st x e v st1) (hi : RInv K st) (hx : Ext K A st1 st2) (ha : ¬ A e)
    (ht : e ∈ st2.tasks) (hc : cur v) : EffOK K st2 e x cur := by
  have h1 : EffOK K (st1.spawn e) e x cur := hn.effOK hi (spawn_ext st1 e) (by simp [St.spawn]) hc
  have hx1 : Ext K A (st1.spawn e) st2 :=
    ⟨hx.pre, hx.aeff, hx.ctl, hx.subs, fun e' he' => by
      simp only [St.spawn, List.mem_append, List.mem_singleton] at he'
      rcases he' with h | h
      · exact hx.tasks e' h
      · rw [h]; exact ht⟩
  exact h1.ext (spawn_inv hn.inv e) hx1 ha

/-- a reactive attribute is rebuilt: a new effect over the old attribute state, the old effect dropped -/
theorem renew_attr_eff {K : Nat} {s : St} (hi : RInv K s) {x : Expr} (hs : sigOnly K x = true) {e0 : Nat}
    (hb : K ≤ e0 ∧ e0 < s.prog.length) :
    RenewCore K s [e0] [(newEff s x).1] (dropEff ((newEff s x).2.2.spawn (newEff s x).1) e0 none) ∧
    ∀ cur : Int → Prop, cur (newEff s x).2.1 →
      EffOK K (dropEff ((newEff s x).2.2.spawn (newEff s x).1) e0 none) (newEff s x).1 x cur := by
  have hn := newEff_spec hi hs
  have d := dropAll_spec [(e0, none)] ((newEff s x).2.2.spawn (newEff s x).1)
  have hd : dropAll ((newEff s x).2.2.spawn (newEff s x).1) [(e0, none)] =
      dropEff ((newEff s x).2.2.spawn (newEff s x).1) e0 none := by simp [dropAll]
  rw [hd] at d
  have hl1 : (newEff s x).2.2.prog.length = s.prog.length + 1 := by rw [hn.prog]; simp
  have hz : (dropEff ((newEff s x).2.2.spawn (newEff s x).1) e0 none).zombies = s.zombies ++ [(e0, none)] := by
    rw [d.zombies]; show (newEff s x).2.2.zombies ++ _ = _; rw [hn.zombies]
  have hnz := newZ_of_append hz
  have hK : ∀ i, i ∈ [e0] → K ≤ i := fun i hi' => by simp at hi'; rw [hi']; exact hb.1
  have hx1 : Ext K (fun i => i ∈ [e0]) s ((newEff s x).2.2.spawn (newEff s x).1) :=
    (hn.ext.trans (spawn_ext _ _)).mono (fun _ hf => hf.elim) hK
  have hx2 : Ext K (fun i => i ∈ [e0]) ((newEff s x).2.2.spawn (newEff s x).1)
      (dropEff ((newEff s x).2.2.spawn (newEff s x).1) e0 none) :=
    (d.ext (fun i hi' => by simp at hi'; rw [hi']; exact hb.1)).mono (fun i hi' => by simpa using hi') hK
  have hne : (newEff s x).1 ≠ e0 := by rw [hn.he]; omega
  refine ⟨⟨d.rinv (spawn_inv hn.inv _), by rw [hnz]; exact hz, hx1.trans hx2, ?_, by simp, ?_, ?_, ?_, ?_, ?_,
    d.root.trans hn.root, d.rootN.trans hn.rootN, d.disposed.trans hn.disposed⟩, ?_⟩
  · intro y hy
    simp only [List.mem_singleton] at hy
    have h1 : (newEff s x).1 = s.prog.length := hn.he
    have hp : (dropEff ((newEff s x).2.2.spawn (newEff s x).1) e0 none).prog.length = s.prog.length + 1 := by
      rw [d.prog]; exact hl1
    rw [hy]; omega
  · intro y; rw [hnz]; simp [zEffs, optEffs]
  · intro z hz'; rw [hnz] at hz'; simp only [List.mem_singleton] at hz'; rw [hz']; simp
  · intro z hz'
    rw [hnz] at hz'; simp only [List.mem_singleton] at hz'; rw [hz']
    show ((dropEff ((newEff s x).2.2.spawn (newEff s x).1) e0 none).rs.get e0).alive = false
    rw [d.get e0]; simp only [List.map_cons, List.map_nil, List.mem_singleton, if_true]
    exact killed_alive_eff _ (hn.inv.effk e0 hb.1 (by omega))
  · intro z hz' h hh
    rw [hnz] at hz'; simp only [List.mem_singleton] at hz'; rw [hz'] at hh; cases hh
  · intro y hy
    have hy' : y ∈ (dropEff ((newEff s x).2.2.spawn (newEff s x).1) e0 none).tasks := hy
    rw [d.tasks] at hy'
    simp only [St.spawn, List.mem_append, List.mem_singleton] at hy'
    rcases hy' with h | h
    · left; rw [← hn.tasks]; exact h
    · right; simp [h]
  · intro cur hc
    have hx12 : Ext K (fun i => i ∈ [e0]) (newEff s x).2.2
        (dropEff ((newEff s x).2.2.spawn (newEff s x).1) e0 none) :=
      ((spawn_ext (K := K) _ _).mono (fun _ hf => hf.elim) hK).trans hx2
    refine hn.effOK' hi hx12 ?_ ?_ hc
    · simpa using hne
    · rw [d.tasks]; simp [St.spawn]


structure RenewedA (K : Nat) (s : St) (old : List Nat) (a : Attr) (o' : AState) (s' : St) : Prop where
  core : RenewCore K s old o'.effs s'
  good : GoodAttr K s' a o'

structure RenewedAs (K : Nat) (s : St) (old : List Nat) (as : List Attr) (ss' : List AState) (s' : St) : Prop where
  core : RenewCore K s old (ss'.flatMap AState.effs) s'
  good : GoodAttrs K s' as ss'

theorem rebuildAttr_spec {K : Nat} {s : St} (hi : RInv K s) : ∀ (a : Attr) (o : AState),
    GoodAttrP (EffWf K s) a o → a.exprOk K = true →
    RenewedA K s o.effs a (rebuildAttr s a o).1 (rebuildAttr s a o).2.1
  | .stat n v, .stat n' v', _, _ => ⟨RenewCore.refl hi, ⟨rfl, rfl⟩⟩
  | .dyn n x, .dyn e0 n' x' last, hg, hx => by
    have hs : sigOnly K x = true := by simpa [Attr.exprOk, sigOnly] using hx
    have hr : s.res x = x := s.res_eq (by simp only [Attr.exprOk, Bool.and_eq_true] at hx; exact hx.2)
    have r := renew_attr_eff hi hs (e0 := e0) ⟨hg.2.2.1, hg.2.2.2.1⟩
    simp only [rebuildAttr, hr]
    exact ⟨r.1, ⟨rfl, rfl, r.2 _ rfl⟩⟩
  | .cls n x, .cls e0 n' x' last, hg, hx => by
    have hs : sigOnly K x = true := by simpa [Attr.exprOk, sigOnly] using hx
    have hr : s.res x = x := s.res_eq (by simp only [Attr.exprOk, Bool.and_eq_true] at hx; exact hx.2)
    have r := renew_attr_eff hi hs (e0 := e0) ⟨hg.2.2.1, hg.2.2.2.1⟩
    simp only [rebuildAttr, hr]
    exact ⟨r.1, ⟨rfl, rfl, r.2 _ rfl⟩⟩
  | .sty n x, .sty e0 n' x' last, hg, hx => by
    have hs : sigOnly K x = true := by simpa [Attr.exprOk, sigOnly] using hx
    have hr : s.res x = x := s.res_eq (by simp only [Attr.exprOk, Bool.and_eq_true] at hx; exact hx.2)
    have r := renew_attr_eff hi hs (e0 := e0) ⟨hg.2.2.1, hg.2.2.2.1⟩
    simp only [rebuildAttr, hr]
    exact ⟨r.1, ⟨rfl, rfl, r.2 _ rfl⟩⟩
  | .stat _ _, .dyn _ _ _ _, h, _ => h.elim
  | .stat _ _, .cls _ _ _ _, h, _ => h.elim
  | .stat _ _, .sty _ _ _ _, h, _ => h.elim
  | .dyn _ _, .stat _ _, h, _ => h.elim
  | .dyn _ _, .cls _ _ _ _, h, _ => h.elim
  | .dyn _ _, .sty _ _ _ _, h, _ => h.elim
  | .cls _ _, .stat _ _, h, _ => h.elim
  | .cls _ _, .dyn _ _ _ _, h, _ => h.elim
  | .cls _ _, .sty _ _ _ _, h, _ => h.elim
  | .sty _ _, .stat _ _, h, _ => h.elim
  | .sty _ _, .dyn _ _ _ _, h, _ => h.elim
  | .sty _ _, .cls _ _ _ _, h, _ => h.elim

theorem rebuildAttrs_cons (a : Attr) (as : List Attr) (o : AState) (os : List AState) (st : St) :
    rebuildAttrs (a :: as) (o :: os) st =
      ((rebuildAttr st a o).1 :: (rebuildAttrs as os (rebuildAttr st a o).2.1).1,
       (rebuildAttrs as os (rebuildAttr st a o).2.1).2.1,
       (rebuildAttr st a o).2.2 + (rebuildAttrs as os (rebuildAttr st a o).2.1).2.2) := rfl

/-- `GoodAttrsP (EffWf ..)` along an extension -/
theorem GoodAttrsP.wf_ext {K : Nat} {A : Nat → Prop} {st st' : St} {as : List Attr} {ss : List AState}
    (h : GoodAttrsP (EffWf K st) as ss) (hx : Ext K A st st') : GoodAttrsP (EffWf K st') as ss :=
  h.map (fun _ _ _ _ hp =>
    ⟨hp.1, by have := hx.len_le; have := hp.2.1; omega, by rw [hx.prog_get hp.2.1]; exact hp.2.2⟩)

theorem GoodP.wf_ext {K : Nat} {A : Nat → Prop} {st st' : St} {v : View} {t : RState}
    (h : GoodP (EffWf K st) v t) (hx : Ext K A st st') : GoodP (EffWf K st') v t :=
  GoodP.map v t h (fun _ _ _ _ hp =>
    ⟨hp.1, by have := hx.len_le; have := hp.2.1; omega, by rw [hx.prog_get hp.2.1]; exact hp.2.2⟩)

theorem rebuildAttrs_spec {K : Nat} : ∀ (as : List Attr) (os : List AState) (s : St), RInv K s →
    GoodAttrsP (EffWf K s) as os → as.all (Attr.exprOk K) = true → (os.flatMap AState.effs).Nodup →
    RenewedAs K s (os.flatMap AState.effs) as (rebuildAttrs as os s).1 (rebuildAttrs as os s).2.1
  | [], [], s, hi, _, _, _ => ⟨RenewCore.refl hi, trivial⟩
  | a :: as, o :: os, s, hi, hg, ha, hnd => by
    simp only [List.all_cons, Bool.and_eq_true] at ha
    simp only [List.flatMap_cons] at hnd
    have h1 := rebuildAttr_spec hi a o hg.1 ha.1
    have hb1 : ∀ x ∈ o.effs, K ≤ x ∧ x < s.prog.length := hg.1.bound
    have hb2 : ∀ x ∈ os.flatMap AState.effs, K ≤ x ∧ x < s.prog.length := hg.2.bound
    have h2 := rebuildAttrs_spec as os (rebuildAttr s a o).2.1 h1.core.inv (hg.2.wf_ext h1.core.ext) ha.2
      (List.nodup_append.1 hnd).2.1
    rw [rebuildAttrs_cons]
    dsimp only
    refine ⟨by simpa only [List.flatMap_cons] using h1.core.comp h2.core hb1 hb2 hnd, ?_, h2.good⟩
    refine GoodAttr.ext h1.core.inv h2.core.ext h1.good ?_
    intro e he ha'
    have := h1.core.fresh e he
    have := (hb2 e ha').2
    omega
  | [], _ :: _, _, _, h, _, _ => h.elim
  | _ :: _, [], _, _, h, _, _ => h.elim


/-- `Render::rebuild` of a fresh view against the state of the same view: everything dynamic is renewed -/
theorem rebuild_spec {K : Nat} : ∀ (v : View) (old : RState) (s : St), RInv K s →
    GoodP (EffWf K s) v old → v.wf K = true → v.core = true → (effsOf old).Nodup →
    Renewed K s (effsOf old) v (rebuild v old s).1 (rebuild v old s).2.1 := by
  intro v
  induction v with
  | text str =>
    intro old s hi hg _ _ _
    cases old <;> simp only [GoodP] at hg
    next n s' =>
      subst hg
      simp only [rebuild, if_true]
      exact ⟨RenewCore.refl hi, rfl⟩
  | unit =>
    intro old s hi hg _ _ _
    cases old <;> simp only [GoodP] at hg
    next n => exact ⟨RenewCore.refl hi, trivial⟩
  | elem tag attrs kid ih =>
    intro old s hi hg hw hc hnd
    cases old <;> simp only [GoodP] at hg
    next n tag' as k =>
      simp only [View.wf, Bool.and_eq_true] at hw
      simp only [View.core] at hc
      simp only [effsOf] at hnd
      have h1 := rebuildAttrs_spec attrs as s hi hg.2.1 hw.1.1 (List.nodup_append.1 hnd).1
      have hb1 : ∀ x ∈ as.flatMap AState.effs, K ≤ x ∧ x < s.prog.length := hg.2.1.bound
      have hb2 : ∀ x ∈ effsOf k, K ≤ x ∧ x < s.prog.length := GoodP.bound kid k hg.2.2
      have h2 := ih k (rebuildAttrs attrs as s).2.1 h1.core.inv (hg.2.2.wf_ext h1.core.ext) hw.2 hc
        (List.nodup_append.1 hnd).2.1
      rw [rebuild_elem]
      dsimp only
      refine ⟨by simpa only [effsOf] using h1.core.comp h2.core hb1 hb2 hnd, ?_⟩
      refine ⟨rfl, ?_, h2.good⟩
      refine GoodAttrs.ext h1.core.inv h2.core.ext h1.good ?_
      intro e he ha'
      have := h1.core.fresh e he
      have := (hb2 e ha').2
      omega
  | seq a b iha ihb =>
    intro old s hi hg hw hc hnd
    cases old <;> simp only [GoodP] at hg
    next sa sb =>
      simp only [View.wf, Bool.and_eq_true] at hw
      simp only [View.core, Bool.and_eq_true] at hc
      simp only [effsOf] at hnd
      have hb1 : ∀ x ∈ effsOf sa, K ≤ x ∧ x < s.prog.length := GoodP.bound a sa hg.1
      have hb2 : ∀ x ∈ effsOf sb, K ≤ x ∧ x < s.prog.length := GoodP.bound b sb hg.2
      have h1 := iha sa s hi hg.1 hw.1 hc.1 (List.nodup_append.1 hnd).1
      have h2 := ihb sb (rebuild a sa s).2.1 h1.core.inv (hg.2.wf_ext h1.core.ext) hw.2 hc.2
        (List.nodup_append.1 hnd).2.1
      rw [rebuild_seq]
      dsimp only
      refine ⟨by simpa only [effsOf] using h1.core.comp h2.core hb1 hb2 hnd, ?_, h2.good⟩
      refine Good.ext h1.core.inv h2.core.ext a _ h1.good ?_
      intro e he ha'
      have := h1.core.fresh e he
      have := (hb2 e ha').2
      omega
  | dynText x =>
    intro old s hi hg hw hc _
    cases old with
    | dynText e x' n last => exact replace_spec hi hw hc (vo := .dynText x) hg hw hc
    | _ => simp only [GoodP] at hg
  | either c a b _ _ =>
    intro old s hi hg hw hc _
    cases old with
    | either e c' a' b' left inner => exact replace_spec hi hw hc (vo := .either c a b) hg hw hc
    | _ => simp only [GoodP] at hg
  | «show» c a b _ _ => intro old s _ _ _ hc; simp [View.core] at hc
  | scope sid d kid _ => intro old s _ _ _ hc; simp [View.core] at hc
  | forRows en sel lists row _ => intro old s _ _ _ hc; simp [View.core] at hc
  | eb kid _ => intro old s _ _ _ hc; simp [View.core] at hc
  | res c x => intro old s _ _ _ hc; simp [View.core] at hc
  | forKeyed sel lists =>
    intro old s hi hg hw hc _
    cases old with
    | forK e sel' lists' ks texts => exact replace_spec hi hw hc (vo := .forKeyed sel lists) hg hw hc
    | _ => simp only [GoodP] at hg

end Leptos.RView
