import LeptosModel.Proofs.HydrateEraseView
import LeptosModel.Proofs.ViewEqns
import LeptosModel.Proofs.ViewAttrs
import LeptosModel.Proofs.ViewAttrs2
import LeptosModel.Proofs.HydrateInitial
/-! Helper lemmas for C05, part 9: erasing inert nodes commutes with `build` and `rebuild`, for every
attribute fragment `Good` of plain attributes (`String`, `Option<String>`, `bool` values: their build / rebuild
is `set_attribute` / `remove_attribute` on the element) for which C03 proves `rebuild` up to the attribute
relation `R` (`Frag`): the static strings (`fragStatic`, `R = Eq`) and strings / options / booleans with distinct
names (`fragKV`, `R = AttrsEq`: attributes compared as a map). -/
namespace Leptos.Hydrate
open Leptos.Dom Leptos.View

/-- view and state have matching head constructors (the shapes `rebuild` has a real case for) -/
def headOK : View → State → Bool
  | .text _, .text _ _ => true
  | .unit, .unit _ => true
  | .elem _ _ _, .elem _ _ _ => true
  | .tuple _, .tuple _ => true
  | .onone, .either _ _ => true
  | .osome _, .either _ _ => true
  | .either _ _ _, .either _ _ => true
  | .vec _, .vec _ _ => true
  | .any _ _, .any _ _ => true
  | _, _ => false

theorem rebuild_mismatch (er : Bool) (b : View) (st : State) (d : Dom) (h : headOK b st = false) :
    rebuild er b st d = (d, st) := by
  cases b <;> cases st <;> first | rfl | (simp only [rebuild]; done) | (cases h)

/-! ### attributes (plain values) -/

theorem buildAttrs_erase (Z : List Id) (el : Id) (hel : el ∉ Z) : ∀ (as : List AttrVal) (d : Dom), as.all plainAttr = true →
    buildAttrs el as (erase d Z) = (erase (buildAttrs el as d).1 Z, (buildAttrs el as d).2) ∧
      Grow d (buildAttrs el as d).1
  | [], d, _ => ⟨rfl, Grow.refl d⟩
  | a :: as, d, h => by
    simp only [List.all_cons, Bool.and_eq_true] at h
    have key : ∀ (d' : Dom) (s : AttrState), buildAttr el d a = (d', s) →
        buildAttr el (erase d Z) a = (erase d' Z, s) → Grow d d' →
        buildAttrs el (a :: as) (erase d Z) = (erase (buildAttrs el (a :: as) d).1 Z, (buildAttrs el (a :: as) d).2) ∧
          Grow d (buildAttrs el (a :: as) d).1 := by
      intro d' s e1 e2 hg
      obtain ⟨h1, h2⟩ := buildAttrs_erase Z el hel as d' h.2
      simp only [buildAttrs, e1, e2, h1]
      exact ⟨by first | trivial | rfl, hg.trans h2⟩
    cases a with
    | str n v =>
      exact key _ _ rfl (by simp only [buildAttr]; rw [erase_setAttribute d Z el n v hel]) (grow_setAttribute d el n v)
    | ostr n o =>
      cases o with
      | none => exact key _ _ rfl rfl (Grow.refl d)
      | some v =>
        exact key _ _ rfl (by simp only [buildAttr]; rw [erase_setAttribute d Z el n v hel]) (grow_setAttribute d el n v)
    | bool n b =>
      cases b with
      | false => exact key _ _ rfl rfl (Grow.refl d)
      | true =>
        exact key _ _ rfl (by simp only [buildAttr, if_true]; rw [erase_setAttribute d Z el n "" hel])
          (by simpa using grow_setAttribute d el n "")
    | _ => simp [plainAttr] at h

macro "noop_case" : tactic => `(tactic| first | exact ⟨rfl, Grow.refl _⟩ | exact ⟨trivial, Grow.refl _⟩)

theorem rebuildAttr_erase (Z : List Id) (er : Bool) (el : Id) (hel : el ∉ Z) (a : AttrVal) (ha : plainAttr a = true)
    (s : AttrState) (d : Dom) :
    rebuildAttr er el (erase d Z) a s = (erase (rebuildAttr er el d a s).1 Z, (rebuildAttr er el d a s).2) ∧
      Grow d (rebuildAttr er el d a s).1 := by
  have set : ∀ (n v : String) (st : AttrState),
      (((erase d Z).setAttribute el n v, st) : Dom × AttrState) =
        (erase (d.setAttribute el n v, st).1 Z, (d.setAttribute el n v, st).2) ∧ Grow d (d.setAttribute el n v, st).1 :=
    fun n v _ => ⟨by rw [erase_setAttribute d Z el n v hel], grow_setAttribute d el n v⟩
  have rem : ∀ (n : String) (st : AttrState),
      (((erase d Z).removeAttribute el n, st) : Dom × AttrState) =
        (erase (d.removeAttribute el n, st).1 Z, (d.removeAttribute el n, st).2) ∧ Grow d (d.removeAttribute el n, st).1 :=
    fun n _ => ⟨by rw [erase_removeAttribute d Z el n hel], grow_removeAttribute d el n⟩
  cases a with
  | str n v =>
    cases s <;> simp only [rebuildAttr] <;> try (noop_case)
    rename_i prev
    by_cases hv : (v != prev) = true
    · simp only [hv, if_true]; exact set n v _
    · simp only [hv]; noop_case
  | ostr n o =>
    cases s <;> try (cases o <;> simp only [rebuildAttr] <;> noop_case)
    rename_i p
    cases o with
    | none =>
      cases p with
      | none => simp only [rebuildAttr]; noop_case
      | some _ => simp only [rebuildAttr]; exact rem n _
    | some v =>
      cases p with
      | none => simp only [rebuildAttr]; exact set n v _
      | some prev =>
        simp only [rebuildAttr]
        by_cases hv : (v != prev) = true
        · simp only [hv, if_true]; exact set n v _
        · simp only [hv]; noop_case
  | bool n b =>
    cases s <;> simp only [rebuildAttr] <;> try (noop_case)
    rename_i prev
    by_cases hb : (b != prev) = true
    · simp only [hb, if_true]
      cases b with
      | true => simp only [if_true]; exact set n "" _
      | false => simp only [Bool.false_eq_true, if_false]; exact rem n _
    · simp only [hb]; noop_case
  | _ => simp [plainAttr] at ha

theorem rebuildAttrs_erase (Z : List Id) (er : Bool) (el : Id) (hel : el ∉ Z) : ∀ (as : List AttrVal) (ss : List AttrState)
    (d : Dom), as.all plainAttr = true →
    rebuildAttrs er el as ss (erase d Z) = (erase (rebuildAttrs er el as ss d).1 Z, (rebuildAttrs er el as ss d).2) ∧
      Grow d (rebuildAttrs er el as ss d).1
  | [], ss, d, _ => by simp only [rebuildAttrs]; exact ⟨trivial, Grow.refl d⟩
  | a :: as, [], d, _ => by simp only [rebuildAttrs]; exact ⟨trivial, Grow.refl d⟩
  | a :: as, s :: ss, d, h => by
    simp only [List.all_cons, Bool.and_eq_true] at h
    obtain ⟨h1, g1⟩ := rebuildAttr_erase Z er el hel a h.1 s d
    obtain ⟨h2, g2⟩ := rebuildAttrs_erase Z er el hel as ss (rebuildAttr er el d a s).1 h.2
    simp only [rebuildAttrs]
    rw [h1]
    simp only []
    rw [h2]
    exact ⟨rfl, g1.trans g2⟩

/-! ### attribute fragments -/

/-- an attribute fragment `Good` of plain attributes for which C03 proves build and rebuild up to `R` -/
structure Frag (R : List (String × String) → List (String × String) → Prop) (Good : List AttrVal → Prop) : Prop where
  fresh : ∀ as, Good as → AttrsFresh R as
  rebuild : ∀ as bs, Good as → Good bs → as.map AttrVal.ty = bs.map AttrVal.ty → AttrsRebuild R as bs
  plain : ∀ as, Good as → PlainAttrs as
  refl : ∀ l, R l l

theorem static_plain : ∀ (as : List AttrVal), allStr as = true → as.all plainAttr = true
  | [], _ => rfl
  | a :: as, h => by
    cases a <;> simp only [allStr] at h <;> try (cases h; done)
    simp [plainAttr, static_plain as h]

/-- static string attributes with distinct names, attribute lists compared exactly -/
theorem fragStatic : Frag Eq StaticAttrs :=
  ⟨AttrsFresh_static, fun as bs x y z => AttrsRebuild_static as bs x y z, fun as h => static_plain as h.1, fun _ => rfl⟩

/-- `String` / `Option<String>` / `bool` attribute values with distinct names (decidable) -/
def KVPlain (as : List AttrVal) : Prop := PlainAttrs as ∧ KVAttrs as

instance (as : List AttrVal) : Decidable (KVPlain as) := by unfold KVPlain; infer_instance

/-- … attribute lists compared as maps (`None` / `false` removes an attribute, a later `Some` / `true` appends it) -/
theorem fragKV : Frag AttrsEq KVPlain :=
  ⟨fun as h => AttrsFresh_kv as h.2, fun as bs x y z => AttrsRebuild_kv as bs x.2 y.2 z, fun _ h => h.1, AttrsEq.refl⟩

variable {R : List (String × String) → List (String × String) → Prop} {Good : List AttrVal → Prop}

/-! ### build -/

theorem grow_of_built {d d' : Dom} {v : View} {st : State} (h : Built R d d' v st) : Grow d d' :=
  ⟨h.next_le, fun x hx => by simp only [Dom.kindOf, h.frame x hx]⟩

theorem allEl_fresh (F : Frag R Good) {v : View} (h : AllEl Good v) : AllEl (AttrsFresh R) v :=
  AllEl.mono F.fresh v h

theorem allElList_fresh (F : Frag R Good) {vs : List View} (h : AllElList Good vs) : AllElList (AttrsFresh R) vs :=
  AllElList.mono F.fresh vs h

theorem grow_build (F : Frag R Good) (v : View) (d : Dom) (h : AllEl Good v) : Grow d (build v d).1 :=
  grow_of_built (build_spec v d (allEl_fresh F h))

theorem grow_buildList (F : Frag R Good) (vs : List View) (d : Dom) (h : AllElList Good vs) : Grow d (buildList vs d).1 :=
  grow_of_built (buildList_spec vs d (allElList_fresh F h))

theorem sideZ_fresh {d : Dom} {Z : List Id} (hs : SideZ d Z) {x : Id} (hx : d.next ≤ x) : x ∉ Z := by
  intro hm; have := hs.lt x hm; omega_nat

mutual
theorem erase_build (F : Frag R Good) (Z : List Id) : (v : View) → ∀ (d : Dom), SideZ d Z → AllEl Good v →
    build v (erase d Z) = (erase (build v d).1 Z, (build v d).2)
  | .text s, d, hs, _ => by
    simp only [build_text, erase_next]
    rw [erase_create d Z _ _ (sideZ_fresh hs (Nat.le_refl _))]
  | .unit, d, hs, _ => by
    simp only [build_unit, erase_next]
    rw [erase_create d Z _ _ (sideZ_fresh hs (Nat.le_refl _))]
  | .onone, d, hs, _ => by
    simp only [build_onone, erase_next]
    rw [erase_create d Z _ _ (sideZ_fresh hs (Nat.le_refl _))]
  | .osome v, d, hs, hv => by
    simp only [build_osome, erase_build F Z v d hs (by simpa [AllEl] using hv)]
  | .either _ _ v, d, hs, hv => by
    simp only [build_either, erase_build F Z v d hs (by simpa [AllEl] using hv)]
  | .any _ v, d, hs, hv => by
    simp only [build_any, erase_build F Z v d hs (by simpa [AllEl] using hv)]
  | .tuple vs, d, hs, hv => by
    simp only [build_tuple, erase_buildList F Z vs d hs (by simpa [AllEl] using hv)]
  | .vec vs, d, hs, hv => by
    have hg := grow_create d .comment ""
    simp only [build_vec, erase_next]
    rw [← erase_create d Z _ _ (sideZ_fresh hs (Nat.le_refl _)),
      erase_buildList F Z vs _ (hs.grow hg) (by simpa [AllEl] using hv)]
  | .elem tag as c, d, hs, hv => by
    simp only [AllEl] at hv
    have hel : d.next ∉ Z := sideZ_fresh hs (Nat.le_refl _)
    have hg1 := grow_create d (.elem tag) ""
    obtain ⟨ha, hga⟩ := buildAttrs_erase Z d.next hel as (d.create (.elem tag) "").1 (F.plain _ hv.1)
    simp only [build_elem, erase_next]
    rw [← erase_create d Z _ _ hel, ha]
    by_cases hvoid : isVoid tag = true
    · simp [hvoid]
    · have hvoid' : isVoid tag = false := by simpa using hvoid
      simp only [hvoid', Bool.false_eq_true, if_false]
      have hs2 : SideZ (buildAttrs d.next as (d.create (.elem tag) "").1).1 Z := hs.grow (hg1.trans hga)
      have hb := build_spec (R := R) c (buildAttrs d.next as (d.create (.elem tag) "").1).1 (allEl_fresh F hv.2)
      rw [erase_build F Z c _ hs2 hv.2]
      simp only []
      have hroots : RootsOk Z (build c (buildAttrs d.next as (d.create (.elem tag) "").1).1).2 none := by
        intro x hx
        refine ⟨?_, by simp⟩
        have := hb.range x (roots_sub_owned _ x hx)
        exact sideZ_fresh hs2 this.1
      rw [erase_mount Z _ _ d.next none (hs2.grow (grow_of_built hb)) hroots (by simp)]
theorem erase_buildList (F : Frag R Good) (Z : List Id) : (vs : List View) → ∀ (d : Dom), SideZ d Z → AllElList Good vs →
    buildList vs (erase d Z) = (erase (buildList vs d).1 Z, (buildList vs d).2)
  | [], _, _, _ => rfl
  | v :: vs, d, hs, hv => by
    simp only [AllElList] at hv
    simp only [buildList_cons]
    rw [erase_build F Z v d hs hv.1]
    simp only []
    rw [erase_buildList F Z vs _ (hs.grow (grow_build F v d hv.1)) hv.2]
end

/-! ### rebuild -/

/-- the state owns no node of `Z`, and only allocated nodes -/
def OwnOk (Z : List Id) (d : Dom) (st : State) : Prop := ∀ x ∈ owned st, x ∉ Z ∧ x < d.next
def OwnOkL (Z : List Id) (d : Dom) (sts : List State) : Prop := ∀ x ∈ ownedList sts, x ∉ Z ∧ x < d.next

/-- what one rebuild step guarantees: it commutes with the erasure, only adds nodes, and the new state
owns old or fresh nodes, all allocated -/
structure Step (Z : List Id) (d : Dom) (O : List Id) (rE : Dom × State) (r : Dom × State) : Prop where
  comm : rE = (erase r.1 Z, r.2)
  grow : Grow d r.1
  own : ∀ x ∈ owned r.2, (x ∈ O ∨ d.next ≤ x) ∧ x < r.1.next

structure StepL (Z : List Id) (d : Dom) (O : List Id) (rE : Dom × List State) (r : Dom × List State) : Prop where
  comm : rE = (erase r.1 Z, r.2)
  grow : Grow d r.1
  own : ∀ x ∈ ownedList r.2, (x ∈ O ∨ d.next ≤ x) ∧ x < r.1.next

theorem Step.ownOk {Z : List Id} {d : Dom} {O : List Id} {rE r : Dom × State} (h : Step Z d O rE r)
    (hs : SideZ d Z) (hO : ∀ x ∈ O, x ∉ Z) : OwnOk Z r.1 r.2 := by
  intro x hx
  obtain ⟨h1, h2⟩ := h.own x hx
  refine ⟨?_, h2⟩
  rcases h1 with h1 | h1
  · exact hO x h1
  · exact sideZ_fresh hs h1

theorem StepL.ownOk {Z : List Id} {d : Dom} {O : List Id} {rE r : Dom × List State} (h : StepL Z d O rE r)
    (hs : SideZ d Z) (hO : ∀ x ∈ O, x ∉ Z) : OwnOkL Z r.1 r.2 := by
  intro x hx
  obtain ⟨h1, h2⟩ := h.own x hx
  refine ⟨?_, h2⟩
  rcases h1 with h1 | h1
  · exact hO x h1
  · exact sideZ_fresh hs h1

theorem step_same (Z : List Id) (d : Dom) (st : State) (ho : OwnOk Z d st) :
    Step Z d (owned st) (erase d Z, st) (d, st) :=
  ⟨rfl, Grow.refl d, fun x hx => ⟨Or.inl hx, (ho x hx).2⟩⟩

/-- replacing a mounted state by a freshly built one -/
theorem step_replace (F : Frag R Good) (Z : List Id) (old : State) (v : View) (d : Dom) (hs : SideZ d Z) (ho : OwnOk Z d old)
    (hv : AllEl Good v) (wrap : State → State) (hw : ∀ s, owned (wrap s) = owned s) :
    Step Z d (owned old)
      (replaceState old (build v (erase d Z)).2 (build v (erase d Z)).1, wrap (build v (erase d Z)).2)
      (replaceState old (build v d).2 (build v d).1, wrap (build v d).2) := by
  have hb := build_spec (R := R) v d (allEl_fresh F hv)
  have hg := grow_of_built hb
  have hold : ∀ x ∈ old.roots, x ∉ Z := fun x hx => (ho x (roots_sub_owned old x hx)).1
  have hnew : ∀ y ∈ (build v d).2.roots, y ∉ Z ∧ y ∉ old.roots := by
    intro y hy
    have := hb.range y (roots_sub_owned _ y hy)
    refine ⟨sideZ_fresh hs this.1, fun hm => ?_⟩
    have := (ho y (roots_sub_owned old y hm)).2
    omega_nat
  refine ⟨?_, hg.trans (grow_replaceState old _ _), ?_⟩
  · rw [erase_build F Z v d hs hv]
    simp only []
    rw [erase_replaceState Z old _ _ (hs.grow hg) hold hnew]
  · intro x hx
    simp only [hw] at hx
    have := hb.range x hx
    have hg2 := (grow_replaceState old (build v d).2 (build v d).1).next_le
    exact ⟨Or.inr this.1, by simp only []; omega_nat⟩

theorem ownOk_sub {Z : List Id} {d d' : Dom} {st st' : State} (ho : OwnOk Z d st) (hg : Grow d d')
    (hsub : ∀ x ∈ owned st', x ∈ owned st) : OwnOk Z d' st' :=
  fun x hx => ⟨(ho x (hsub x hx)).1, Nat.lt_of_lt_of_le (ho x (hsub x hx)).2 hg.next_le⟩

macro "mismatch_case" ho:ident : tactic =>
  `(tactic| (rw [rebuild_mismatch _ _ _ _ rfl, rebuild_mismatch _ _ _ _ rfl]; exact step_same _ _ _ $ho))

mutual
theorem erase_rebuild (F : Frag R Good) (Z : List Id) : (b : View) → ∀ (er : Bool) (st : State) (d : Dom), SideZ d Z → OwnOk Z d st →
    AllEl Good b → Step Z d (owned st) (rebuild er b st (erase d Z)) (rebuild er b st d)
  | .text s, er, st, d, hs, ho, _ => by
    cases st with
    | text id prev =>
      simp only [rebuild_text]
      by_cases h : (s != prev) = true
      · simp only [h, if_true]
        exact ⟨by rw [erase_setText d Z id s (ho id (by simp [owned])).1], grow_setText d id s,
          fun x hx => ⟨Or.inl (by simpa [owned] using hx), by
            have := (ho id (by simp [owned])).2
            simp only [owned, List.mem_singleton] at hx; subst hx; simpa using this⟩⟩
      · simp only [h]
        exact step_same Z d _ ho
    | _ => mismatch_case ho
  | .unit, er, st, d, hs, ho, _ => by
    cases st with
    | unit id => simp only [rebuild_unit]; exact step_same Z d _ ho
    | _ => mismatch_case ho
  | .elem tag as c, er, st, d, hs, ho, hv => by
    simp only [AllEl] at hv
    cases st with
    | elem el ass cs =>
      have hel := ho el (by simp [owned])
      obtain ⟨ha, hga⟩ := rebuildAttrs_erase Z er el hel.1 as ass d (F.plain _ hv.1)
      cases cs with
      | none =>
        simp only [rebuild_elem_none]
        rw [ha]
        exact ⟨rfl, hga, fun x hx => ⟨Or.inl (by simpa [owned, ownedOpt] using hx), by
          simp only [owned, ownedOpt, List.mem_singleton] at hx; subst hx
          exact Nat.lt_of_lt_of_le hel.2 hga.next_le⟩⟩
      | some cst =>
        simp only [rebuild_elem_some]
        rw [ha]
        simp only []
        have ho2 : OwnOk Z (rebuildAttrs er el as ass d).1 cst :=
          ownOk_sub ho hga (fun x hx => by simp [owned, ownedOpt, hx])
        have ih := erase_rebuild F Z c er cst _ (hs.grow hga) ho2 hv.2
        rw [ih.comm]
        refine ⟨rfl, hga.trans ih.grow, ?_⟩
        intro x hx
        simp only [owned, ownedOpt, List.mem_cons] at hx
        rcases hx with hx | hx
        · subst hx
          exact ⟨Or.inl (by simp [owned]), Nat.lt_of_lt_of_le hel.2 (hga.trans ih.grow).next_le⟩
        · obtain ⟨h1, h2⟩ := ih.own x hx
          refine ⟨?_, h2⟩
          rcases h1 with h1 | h1
          · exact Or.inl (by simp [owned, ownedOpt, h1])
          · exact Or.inr (Nat.le_trans hga.next_le h1)
    | _ => mismatch_case ho
  | .tuple vs, er, st, d, hs, ho, hv => by
    cases st with
    | tuple sts =>
      simp only [rebuild_tuple]
      have ih := erase_rebuildList F Z vs er sts d hs (by simpa [OwnOk, OwnOkL, owned] using ho) (by simpa [AllEl] using hv)
      rw [ih.comm]
      exact ⟨rfl, ih.grow, by simpa [owned] using ih.own⟩
    | _ => mismatch_case ho
  | .onone, er, st, d, hs, ho, _ => by
    cases st with
    | either i old =>
      simp only [rebuild_onone]
      by_cases hi : i = 1
      · simp only [hi, if_true]
        subst hi
        exact step_same Z d _ ho
      · simp only [hi, if_false]
        have := step_replace F Z old .unit d hs (by simpa [OwnOk, owned] using ho) (by simp [AllEl])
          (fun s => State.either 1 s) (fun s => by simp [owned])
        simpa [owned] using this
    | _ => mismatch_case ho
  | .osome v, er, st, d, hs, ho, hv => by
    cases st with
    | either i old =>
      simp only [rebuild_osome]
      by_cases hi : i = 0
      · simp only [hi, if_true]
        have ih := erase_rebuild F Z v er old d hs (by simpa [OwnOk, owned] using ho) (by simpa [AllEl] using hv)
        rw [ih.comm]
        exact ⟨rfl, ih.grow, by simpa [owned] using ih.own⟩
      · simp only [hi, if_false]
        have := step_replace F Z old v d hs (by simpa [OwnOk, owned] using ho) (by simpa [AllEl] using hv)
          (fun s => State.either 0 s) (fun s => by simp [owned])
        simpa [owned] using this
    | _ => mismatch_case ho
  | .either n i v, er, st, d, hs, ho, hv => by
    cases st with
    | either j old =>
      simp only [rebuild_either]
      by_cases hi : i = j
      · simp only [hi, if_true]
        have ih := erase_rebuild F Z v er old d hs (by simpa [OwnOk, owned] using ho) (by simpa [AllEl] using hv)
        rw [ih.comm]
        exact ⟨rfl, ih.grow, by simpa [owned] using ih.own⟩
      · simp only [hi, if_false]
        have := step_replace F Z old v d hs (by simpa [OwnOk, owned] using ho) (by simpa [AllEl] using hv)
          (fun s => State.either i s) (fun s => by simp [owned])
        simpa [owned] using this
    | _ => mismatch_case ho
  | .any ty v, er, st, d, hs, ho, hv => by
    cases st with
    | any ty' old =>
      simp only [rebuild_any]
      by_cases hi : Ty.beq ty ty' = true
      · simp only [hi, if_true]
        have ih := erase_rebuild F Z v true old d hs (by simpa [OwnOk, owned] using ho) (by simpa [AllEl] using hv)
        rw [ih.comm]
        exact ⟨rfl, ih.grow, by simpa [owned] using ih.own⟩
      · simp only [hi]
        have := step_replace F Z old v d hs (by simpa [OwnOk, owned] using ho) (by simpa [AllEl] using hv)
          (fun s => State.any ty s) (fun s => by simp [owned])
        simpa [owned] using this
    | _ => mismatch_case ho
  | .vec vs, er, st, d, hs, ho, hv => by
    cases st with
    | vec sts mk =>
      have hmk := ho mk (by simp [owned])
      have hvs : AllElList Good vs := by simpa [AllEl] using hv
      simp only [rebuild_vec, erase_next]
      by_cases he : sts.isEmpty = true
      · simp only [he, if_true]
        have hg1 := grow_create d .comment ""
        have hs1 := hs.grow hg1
        have hb := buildList_spec (R := R) vs (d.create .comment "").1 (allElList_fresh F hvs)
        have hg2 := grow_of_built hb
        rw [← erase_create d Z _ _ (sideZ_fresh hs (Nat.le_refl _)), erase_buildList F Z vs _ hs1 hvs]
        simp only []
        have hroots : ∀ y ∈ State.rootsList (buildList vs (d.create .comment "").1).2, y ∉ Z ∧ y ≠ mk := by
          intro y hy
          have := hb.range y (by simpa [owned] using rootsList_sub_ownedList _ y hy)
          have h1 := hg1.next_le
          exact ⟨sideZ_fresh hs1 this.1, by have := hmk.2; omega_nat⟩
        refine ⟨by rw [erase_mountBeforeEach Z _ mk _ (hs1.grow hg2) hmk.1 hroots],
          (hg1.trans hg2).trans (grow_mountBeforeEach _ mk _), ?_⟩
        intro x hx
        have hg3 := (grow_mountBeforeEach (buildList vs (d.create .comment "").1).2 mk
          (buildList vs (d.create .comment "").1).1).next_le
        simp only [owned, List.mem_append, List.mem_singleton] at hx
        rcases hx with hx | hx
        · have := hb.range x (by simpa [owned] using hx)
          have h1 := hg1.next_le
          exact ⟨Or.inr (by omega_nat), by simp only []; omega_nat⟩
        · subst hx
          have h1 := hg1.next_le; have h2 := hg2.next_le
          exact ⟨Or.inl (by simp [owned]), by simp only []; have := hmk.2; omega_nat⟩
      · have he' : sts.isEmpty = false := by simpa using he
        simp only [he', Bool.false_eq_true, if_false]
        by_cases hve : vs.isEmpty = true
        · simp only [hve, if_true]
          have hr : ∀ x ∈ State.rootsList sts, x ∉ Z := fun x hx =>
            (ho x (by simp [owned, rootsList_sub_ownedList sts x hx])).1
          refine ⟨by rw [erase_unmountList Z sts d hr], grow_unmountList sts d, ?_⟩
          intro x hx
          simp only [owned, ownedList, List.nil_append, List.mem_singleton] at hx
          subst hx
          exact ⟨Or.inl (by simp [owned]), Nat.lt_of_lt_of_le hmk.2 (grow_unmountList sts d).next_le⟩
        · have hve' : vs.isEmpty = false := by simpa using hve
          simp only [hve', Bool.false_eq_true, if_false]
          have ih := erase_rebuildZip F Z vs er sts mk d hs
            (fun x hx => ho x (by simp [owned, hx])) hmk hvs
          rw [ih.comm]
          refine ⟨rfl, ih.grow, ?_⟩
          intro x hx
          simp only [owned, List.mem_append, List.mem_singleton] at hx
          rcases hx with hx | hx
          · obtain ⟨h1, h2⟩ := ih.own x hx
            refine ⟨?_, h2⟩
            rcases h1 with h1 | h1
            · exact Or.inl (by simp [owned, h1])
            · exact Or.inr h1
          · subst hx
            exact ⟨Or.inl (by simp [owned]), Nat.lt_of_lt_of_le hmk.2 ih.grow.next_le⟩
    | _ => mismatch_case ho
theorem erase_rebuildList (F : Frag R Good) (Z : List Id) : (vs : List View) → ∀ (er : Bool) (sts : List State) (d : Dom), SideZ d Z →
    OwnOkL Z d sts → AllElList Good vs →
    StepL Z d (ownedList sts) (rebuildList er vs sts (erase d Z)) (rebuildList er vs sts d)
  | [], er, sts, d, _, ho, _ =>
    ⟨by cases sts <;> rfl, by cases sts <;> exact Grow.refl d, fun x hx => by
      have e : rebuildList er [] sts d = (d, sts) := by cases sts <;> rfl
      rw [e] at hx ⊢
      exact ⟨Or.inl hx, (ho x hx).2⟩⟩
  | v :: vs, er, [], d, _, _, _ => ⟨rfl, Grow.refl d, fun x hx => by simp [rebuildList, ownedList] at hx⟩
  | v :: vs, er, s :: ss, d, hs, ho, hv => by
    simp only [AllElList] at hv
    simp only [rebuildList_cons]
    have ho1 : OwnOk Z d s := fun x hx => ho x (by simp [ownedList, hx])
    have ih1 := erase_rebuild F Z v er s d hs ho1 hv.1
    rw [ih1.comm]
    simp only []
    have ho2 : OwnOkL Z (rebuild er v s d).1 ss := fun x hx =>
      ⟨(ho x (by simp [ownedList, hx])).1, Nat.lt_of_lt_of_le (ho x (by simp [ownedList, hx])).2 ih1.grow.next_le⟩
    have ih2 := erase_rebuildList F Z vs er ss _ (hs.grow ih1.grow) ho2 hv.2
    rw [ih2.comm]
    refine ⟨rfl, ih1.grow.trans ih2.grow, ?_⟩
    intro x hx
    simp only [ownedList, List.mem_append] at hx
    rcases hx with hx | hx
    · obtain ⟨h1, h2⟩ := ih1.own x hx
      refine ⟨?_, Nat.lt_of_lt_of_le h2 ih2.grow.next_le⟩
      rcases h1 with h1 | h1
      · exact Or.inl (by simp [ownedList, h1])
      · exact Or.inr h1
    · obtain ⟨h1, h2⟩ := ih2.own x hx
      refine ⟨?_, h2⟩
      rcases h1 with h1 | h1
      · exact Or.inl (by simp [ownedList, h1])
      · exact Or.inr (Nat.le_trans ih1.grow.next_le h1)
theorem erase_rebuildZip (F : Frag R Good) (Z : List Id) : (vs : List View) → ∀ (er : Bool) (sts : List State) (mk : Id) (d : Dom),
    SideZ d Z → OwnOkL Z d sts → (mk ∉ Z ∧ mk < d.next) → AllElList Good vs →
    StepL Z d (ownedList sts) (rebuildZip er vs sts mk (erase d Z)) (rebuildZip er vs sts mk d)
  | [], er, sts, mk, d, _, ho, _, _ => by
    simp only [rebuildZip_nil]
    have hr : ∀ x ∈ State.rootsList sts, x ∉ Z := fun x hx => (ho x (rootsList_sub_ownedList sts x hx)).1
    exact ⟨by rw [erase_unmountList Z sts d hr], grow_unmountList sts d, fun x hx => by simp [ownedList] at hx⟩
  | v :: vs, er, s :: ss, mk, d, hs, ho, hmk, hv => by
    simp only [AllElList] at hv
    simp only [rebuildZip_cons]
    have ho1 : OwnOk Z d s := fun x hx => ho x (by simp [ownedList, hx])
    have ih1 := erase_rebuild F Z v er s d hs ho1 hv.1
    rw [ih1.comm]
    simp only []
    have ho2 : OwnOkL Z (rebuild er v s d).1 ss := fun x hx =>
      ⟨(ho x (by simp [ownedList, hx])).1, Nat.lt_of_lt_of_le (ho x (by simp [ownedList, hx])).2 ih1.grow.next_le⟩
    have ih2 := erase_rebuildZip F Z vs er ss mk _ (hs.grow ih1.grow) ho2
      ⟨hmk.1, Nat.lt_of_lt_of_le hmk.2 ih1.grow.next_le⟩ hv.2
    rw [ih2.comm]
    refine ⟨rfl, ih1.grow.trans ih2.grow, ?_⟩
    intro x hx
    simp only [ownedList, List.mem_append] at hx
    rcases hx with hx | hx
    · obtain ⟨h1, h2⟩ := ih1.own x hx
      refine ⟨?_, Nat.lt_of_lt_of_le h2 ih2.grow.next_le⟩
      rcases h1 with h1 | h1
      · exact Or.inl (by simp [ownedList, h1])
      · exact Or.inr h1
    · obtain ⟨h1, h2⟩ := ih2.own x hx
      refine ⟨?_, h2⟩
      rcases h1 with h1 | h1
      · exact Or.inl (by simp [ownedList, h1])
      · exact Or.inr (Nat.le_trans ih1.grow.next_le h1)
  | v :: vs, er, [], mk, d, hs, ho, hmk, hv => by
    simp only [AllElList] at hv
    simp only [rebuildZip_add]
    have hb := build_spec (R := R) v d (allEl_fresh F hv.1)
    have hg1 := grow_of_built hb
    rw [erase_build F Z v d hs hv.1]
    simp only []
    have hroots : ∀ y ∈ (build v d).2.roots, y ∉ Z ∧ y ≠ mk := by
      intro y hy
      have := hb.range y (roots_sub_owned _ y hy)
      exact ⟨sideZ_fresh hs this.1, by have := hmk.2; omega_nat⟩
    rw [← erase_mountBefore Z _ mk _ (hs.grow hg1) hmk.1 hroots]
    have hg2 := grow_mountBefore (build v d).2 mk (build v d).1
    have ih2 := erase_rebuildZip F Z vs er [] mk _ (hs.grow (hg1.trans hg2)) (fun x hx => by simp [ownedList] at hx)
      ⟨hmk.1, Nat.lt_of_lt_of_le hmk.2 (hg1.trans hg2).next_le⟩ hv.2
    rw [ih2.comm]
    refine ⟨rfl, (hg1.trans hg2).trans ih2.grow, ?_⟩
    intro x hx
    simp only [ownedList, List.mem_append] at hx
    rcases hx with hx | hx
    · have := hb.range x hx
      have h2 := hg2.next_le; have h3 := ih2.grow.next_le
      exact ⟨Or.inr this.1, by simp only []; omega_nat⟩
    · obtain ⟨h1, h2⟩ := ih2.own x hx
      refine ⟨?_, h2⟩
      rcases h1 with h1 | h1
      · simp [ownedList] at h1
      · exact Or.inr (Nat.le_trans (hg1.trans hg2).next_le h1)
end

end Leptos.Hydrate
