import LeptosModel.Proofs.ViewInv
/-! # Proofs/ViewEqns — unfolding equations of `rebuild` (all by `rfl`) -/
namespace Leptos.View
open Leptos.Dom

/-! ## unfolding equations of `rebuild` -/

theorem rebuild_text (er : Bool) (s : String) (id : Id) (prev : String) (d : Dom) :
    rebuild er (.text s) (.text id prev) d =
      if s != prev then (d.setText id s, .text id s) else (d, .text id prev) := rfl
theorem rebuild_unit (er : Bool) (id : Id) (d : Dom) :
    rebuild er .unit (.unit id) d = (d, .unit id) := rfl
theorem rebuild_elem_some (er : Bool) (tag : String) (as : List AttrVal) (c : View) (el : Id)
    (ass : List AttrState) (cst : State) (d : Dom) :
    rebuild er (.elem tag as c) (.elem el ass (some cst)) d =
      ((rebuild er c cst (rebuildAttrs er el as ass d).1).1,
        .elem el (rebuildAttrs er el as ass d).2 (some (rebuild er c cst (rebuildAttrs er el as ass d).1).2)) := by
  simp only [rebuild]
theorem rebuild_elem_none (er : Bool) (tag : String) (as : List AttrVal) (c : View) (el : Id)
    (ass : List AttrState) (d : Dom) :
    rebuild er (.elem tag as c) (.elem el ass none) d =
      ((rebuildAttrs er el as ass d).1, .elem el (rebuildAttrs er el as ass d).2 none) := by
  simp only [rebuild]
theorem rebuild_tuple (er : Bool) (vs : List View) (sts : List State) (d : Dom) :
    rebuild er (.tuple vs) (.tuple sts) d =
      ((rebuildList er vs sts d).1, .tuple (rebuildList er vs sts d).2) := rfl
theorem rebuild_onone (er : Bool) (i : Nat) (old : State) (d : Dom) :
    rebuild er .onone (.either i old) d =
      if i = 1 then (d, .either 1 old)
      else (replaceState old (build .unit d).2 (build .unit d).1, .either 1 (build .unit d).2) := by
  simp only [rebuild]; rfl
theorem rebuild_osome (er : Bool) (v : View) (i : Nat) (old : State) (d : Dom) :
    rebuild er (.osome v) (.either i old) d =
      if i = 0 then ((rebuild er v old d).1, .either 0 (rebuild er v old d).2)
      else (replaceState old (build v d).2 (build v d).1, .either 0 (build v d).2) := by
  simp only [rebuild]
theorem rebuild_either (er : Bool) (n i : Nat) (v : View) (j : Nat) (old : State) (d : Dom) :
    rebuild er (.either n i v) (.either j old) d =
      if i = j then ((rebuild er v old d).1, .either i (rebuild er v old d).2)
      else (replaceState old (build v d).2 (build v d).1, .either i (build v d).2) := by
  simp only [rebuild]
theorem rebuild_any (er : Bool) (ty : Ty) (v : View) (ty' : Ty) (old : State) (d : Dom) :
    rebuild er (.any ty v) (.any ty' old) d =
      if Ty.beq ty ty' then ((rebuild true v old d).1, .any ty' (rebuild true v old d).2)
      else (replaceState old (build v d).2 (build v d).1, .any ty (build v d).2) := by
  simp only [rebuild]
theorem rebuild_vec (er : Bool) (vs : List View) (sts : List State) (mk : Id) (d : Dom) :
    rebuild er (.vec vs) (.vec sts mk) d =
      if sts.isEmpty then
        (mountBeforeEach (buildList vs (d.create .comment "").1).2 mk (buildList vs (d.create .comment "").1).1,
          .vec (buildList vs (d.create .comment "").1).2 mk)
      else if vs.isEmpty then (unmountList sts d, .vec [] mk)
      else ((rebuildZip er vs sts mk d).1, .vec (rebuildZip er vs sts mk d).2 mk) := by
  simp only [rebuild]; rfl
theorem rebuildList_cons (er : Bool) (v : View) (vs : List View) (s : State) (ss : List State) (d : Dom) :
    rebuildList er (v :: vs) (s :: ss) d =
      ((rebuildList er vs ss (rebuild er v s d).1).1,
        (rebuild er v s d).2 :: (rebuildList er vs ss (rebuild er v s d).1).2) := rfl
theorem rebuildList_nil (er : Bool) (d : Dom) : rebuildList er [] [] d = (d, []) := rfl
theorem rebuildZip_cons (er : Bool) (v : View) (vs : List View) (s : State) (ss : List State)
    (mk : Id) (d : Dom) :
    rebuildZip er (v :: vs) (s :: ss) mk d =
      ((rebuildZip er vs ss mk (rebuild er v s d).1).1,
        (rebuild er v s d).2 :: (rebuildZip er vs ss mk (rebuild er v s d).1).2) := rfl
theorem rebuildZip_add (er : Bool) (v : View) (vs : List View) (mk : Id) (d : Dom) :
    rebuildZip er (v :: vs) [] mk d =
      ((rebuildZip er vs [] mk (mountBefore (build v d).2 mk (build v d).1)).1,
        (build v d).2 :: (rebuildZip er vs [] mk (mountBefore (build v d).2 mk (build v d).1)).2) := rfl
theorem rebuildZip_nil (er : Bool) (ss : List State) (mk : Id) (d : Dom) :
    rebuildZip er [] ss mk d = (unmountList ss d, []) := rfl

end Leptos.View
