import LeptosModel.Proofs.ReactiveEval
/-!
# Proofs/ReactiveUpd — the big-step lemma for `upd` (`update_if_necessary`)
-/
namespace Leptos.Reactive

/-! ## notifying the subscribers after a changed recomputation -/

structure SkipPost (s s' : State) (l : List Nat) : Prop where
  rel : MarkRel s s'
  st : ∀ i, (s'.get i).st = (s.get i).st ∨
    ((s'.get i).st = .dirty ∧ (s.get i).st ≠ .clean ∧ i ∈ l ∧ (s.get i).kind = .memo)
  marked : ∀ w ∈ l, s.obs ≠ some w → (s.get w).kind = .memo → (s'.get w).st = .dirty
  flags : FlagRel s s'
  markedE : ∀ w ∈ l, s.obs ≠ some w → (s.get w).kind = .eff → (s.get w).alive = true →
    (s'.get w).dirty = true

theorem foldl_skip_spec (f : Nat) : ∀ (l : List Nat) (s : State), Closed s →
    (∀ w ∈ l, (s.get w).kind = .memo → (s.get w).st ≠ .clean) →
    SkipPost s (l.foldl (fun s x => if s.obs == some x then s else markDirty f s x) s) l
  | [], s, _, _ => ⟨MarkRel.refl s, fun _ => .inl rfl, fun _ h => (by cases h), FlagRel.refl s,
      fun _ h => (by cases h)⟩
  | x :: l, s, hc, hl => by
    rw [List.foldl_cons]
    generalize hs1 : (if s.obs == some x then s else markDirty f s x) = s1
    have hx := hl x List.mem_cons_self
    have hr1 : MarkRel s s1 := by
      subst hs1; split
      · exact MarkRel.refl s
      · exact markDirty_rel f s x
    have hst1 : ∀ i, (s1.get i).st = (s.get i).st ∨
        ((s1.get i).st = .dirty ∧ (s.get i).st ≠ .clean ∧ i = x ∧ (s.get i).kind = .memo) := by
      intro i
      subst hs1; split
      · exact .inl rfl
      · have := markDirty_inner f s x hc hx
        by_cases hix : i = x
        · subst hix
          by_cases hk : (s.get i).kind = .memo
          · exact .inr ⟨this.2.1 hk, hx hk, rfl, hk⟩
          · exact .inl (this.2.2 hk)
        · exact .inl (this.1 i hix)
    have hm1 : s.obs ≠ some x → (s.get x).kind = .memo → (s1.get x).st = .dirty := by
      intro ho hk
      subst hs1
      rw [if_neg (by simpa using ho)]
      exact (markDirty_inner f s x hc hx).2.1 hk
    have hc1 : Closed s1 := hc.of_markRel hr1 (fun i hi => by
      rcases hst1 i with h | h
      · rw [h]; exact hi
      · exact absurd hi h.2.1)
    have ih := foldl_skip_spec f l s1 hc1 (fun w hw hk => by
      rw [hr1.kind] at hk
      exact hr1.nonclean (hl w (List.mem_cons_of_mem _ hw) hk))
    generalize l.foldl (fun s x => if s.obs == some x then s else markDirty f s x) s1 = s2 at ih
    have hf1 : FlagRel s s1 := by
      subst hs1; split
      · exact FlagRel.refl s
      · exact markDirty_flag f s x
    have hmE1 : s.obs ≠ some x → (s.get x).kind = .eff → (s.get x).alive = true →
        (s1.get x).dirty = true := by
      intro ho hk ha
      subst hs1
      rw [if_neg (by simpa using ho)]
      exact (markDirty_eff_flags f s x hk ha).1
    refine ⟨hr1.trans ih.rel, ?_, ?_, hf1.trans ih.flags, ?_⟩
    · intro i
      rcases ih.st i with h2 | h2
      · rcases hst1 i with h1 | h1
        · exact .inl (h2.trans h1)
        · exact .inr ⟨h2.trans h1.1, h1.2.1, by rw [h1.2.2.1]; exact List.mem_cons_self, h1.2.2.2⟩
      · refine .inr ⟨h2.1, ?_, List.mem_cons_of_mem _ h2.2.2.1, by rw [← hr1.kind]; exact h2.2.2.2⟩
        rcases hst1 i with h1 | h1
        · rw [← h1]; exact h2.2.1
        · exact h1.2.1
    · intro w hw ho hk
      rcases List.mem_cons.1 hw with rfl | hw
      · exact ih.rel.dirty (hm1 ho hk)
      · exact ih.marked w hw (by rw [hr1.obs]; exact ho) (by rw [hr1.kind]; exact hk)
    · intro w hw ho hk ha
      rcases List.mem_cons.1 hw with rfl | hw
      · exact ih.flags.d w (hmE1 ho hk ha)
      · exact ih.markedE w hw (by rw [hr1.obs]; exact ho) (by rw [hr1.kind]; exact hk)
          (by rw [(Node.core_life (hr1.core w)).1]; exact ha)

/-! ## the end of a memo run -/

structure FinRel (s5 s8 : State) (m : Nat) (v : Int) (saved : Option Nat) : Prop where
  len : s8.nodes.length = s5.nodes.length
  obs : s8.obs = saved
  log : LogOK s5 → LogOK s8
  kind_m : (s8.get m).kind = (s5.get m).kind
  val_m : (s8.get m).val = some v
  st_m : (s8.get m).st = .clean
  running_m : (s8.get m).running = false
  sources_m : (s8.get m).sources = (s5.get m).sources
  subs_m : (s8.get m).subs = (s5.get m).subs
  seen_m : (s8.get m).seen = (s5.get m).seen
  ver_m : (s5.get m).ver ≤ (s8.get m).ver
  go : ∀ i, i ≠ m → (s8.get i).core = (s5.get i).core ∧
    ((s8.get i).st = (s5.get i).st ∨
      ((s8.get i).st = .dirty ∧ (s5.get i).st ≠ .clean ∧ i ∈ (s5.get m).subs))
  verUp : ∀ i, i ≠ m → (s8.get i).st ≠ (s5.get i).st → (s5.get m).ver < (s8.get m).ver
  effD : ∀ i, i ≠ m → (s8.get i).dirty = true → (s5.get i).dirty = true ∨
    (i ∈ (s5.get m).subs ∧ saved ≠ some i ∧ (s5.get m).ver < (s8.get m).ver)
  flags : FlagRel s5 s8
  logx : LogExt ChgEv s5 s8
  runs_m : (s8.get m).runs = (s5.get m).runs
  chg : ∃ suf, s8.log = s5.log ++ suf ∧ (∀ w, Ev.ran w ∉ suf) ∧
    ((s8.get m).ver ≠ (s5.get m).ver → Ev.changed m ∈ suf)

theorem finish_inv {p : Prog} {s5 s8 : State} {m : Nat} {v : Int} {saved : Option Nat}
    (h5 : InvR p s5) (loc : RunLoc s5 m) (fr : FinRel s5 s8 m v saved)
    (hrep : ∃ U : List Int, ∀ ρ : Nat → Int, (∀ e ∈ (s5.get m).seen, ρ e.1 = e.2.1) →
      (evalSnap ρ (bodyOf p m) U).1 = v)
    (hsaved : ∀ o, saved = some o → (s5.get o).running = true ∧ o ≠ m)
    (hH : ∀ i, i ≠ m → (s5.get i).kind = .memo → (s5.get i).running = false → (s8.get i).st ≠ .dirty →
      ∀ e ∈ (s5.get i).seen, e.1 = m → v = e.2.1) : InvR p s8 := by
  have cf : ∀ i, i ≠ m → _ := fun i hi => Node.core_fields (fr.go i hi).1
  have kE : ∀ i, (s8.get i).kind = (s5.get i).kind := by
    intro i; by_cases hi : i = m
    · subst hi; exact fr.kind_m
    · exact (cf i hi).1
  have subsE : ∀ i, (s8.get i).subs = (s5.get i).subs := by
    intro i; by_cases hi : i = m
    · subst hi; exact fr.subs_m
    · exact (cf i hi).2.2.2.1
  have srcE : ∀ i, (s8.get i).sources = (s5.get i).sources := by
    intro i; by_cases hi : i = m
    · subst hi; exact fr.sources_m
    · exact (cf i hi).2.2.1
  have seenE : ∀ i, (s8.get i).seen = (s5.get i).seen := by
    intro i; by_cases hi : i = m
    · subst hi; exact fr.seen_m
    · exact (cf i hi).2.2.2.2.2.2.1
  have valE : ∀ i, i ≠ m → (s8.get i).val = (s5.get i).val := fun i hi => (cf i hi).2.1
  have runE : ∀ i, i ≠ m → (s8.get i).running = (s5.get i).running := fun i hi => (cf i hi).2.2.2.2.2.1
  have runsE : ∀ i, i ≠ m → (s8.get i).runs = (s5.get i).runs := fun i hi => (cf i hi).2.2.2.2.2.2.2.2
  have verMono : ∀ i, (s5.get i).ver ≤ (s8.get i).ver := by
    intro i; by_cases hi : i = m
    · subst hi; exact fr.ver_m
    · rw [(cf i hi).2.2.2.2.2.2.2.1]; exact Nat.le_refl _
  have ncE : ∀ i, i ≠ m → (s5.get i).st ≠ .clean → (s8.get i).st ≠ .clean := by
    intro i hi hc
    rcases (fr.go i hi).2 with h | h
    · rw [h]; exact hc
    · rw [h.1]; simp
  have ndE : ∀ i, i ≠ m → (s8.get i).st ≠ .dirty → (s8.get i).st = (s5.get i).st := by
    intro i hi hd
    rcases (fr.go i hi).2 with h | h
    · exact h
    · exact absurd h.1 hd
  have nc5 : ∀ i, i ≠ m → (s8.get i).st ≠ .clean → (s5.get i).st ≠ .clean := by
    intro i hi hc
    rcases (fr.go i hi).2 with h | h
    · rw [← h]; exact hc
    · exact h.2.1
  have dE : ∀ i, i ≠ m → (s5.get i).st = .dirty → (s8.get i).st = .dirty := by
    intro i hi hd
    rcases (fr.go i hi).2 with h | h
    · rw [h]; exact hd
    · exact h.1
  have nr5 : (s5.get m).running = true := loc.running
  have nrm : ∀ i, (s8.get i).running = true → i ≠ m := by
    intro i hi e; subst e; rw [fr.running_m] at hi; cases hi
  have seen_lt : ∀ e ∈ (s5.get m).seen, e.1 < m := by
    intro e he
    apply h5.srcLt m e.1
    rw [loc.srcSeen]; exact List.mem_map_of_mem he
  constructor
  · exact fr.len.trans h5.len
  · intro i d hd; rw [kE]; exact h5.kind i d hd
  · intro i hi hk
    rw [kE] at hk
    have him : i ≠ m := by intro e; subst e; rw [loc.kind] at hk; cases hk
    have := h5.sigOk i hi hk
    refine ⟨?_, by rw [runE i him]; exact this.2.1, by rw [valE i him]; exact this.2.2⟩
    rcases (fr.go i him).2 with h | h
    · rw [h]; exact this.1
    · exact absurd this.1 h.2.1
  · intro o ho
    rw [fr.obs] at ho
    have := hsaved o ho
    rw [runE o this.2]; exact this.1
  · intro a w; rw [subsE, srcE]; exact h5.edge a w
  · intro a; rw [subsE]; exact h5.nodup a
  · intro w a ha; rw [srcE] at ha; exact h5.srcLt w a ha
  · intro r hk hr
    have hrm := nrm r hr
    rw [kE] at hk; rw [runE r hrm] at hr
    exact ncE r hrm (h5.runNC r hk hr)
  · intro a w hka hsa hw hkw
    rw [kE] at hka hkw; rw [subsE] at hw
    have ham : a ≠ m := by intro e; subst e; exact hsa fr.st_m
    have ha5 := nc5 a ham hsa
    by_cases hwm : w = m
    · subst hwm
      exfalso
      have hsrc : a ∈ (s5.get w).sources := (h5.edge a w).1 hw
      rw [loc.srcSeen] at hsrc
      obtain ⟨e, he, rfl⟩ := List.mem_map.1 hsrc
      exact ha5 (loc.seenOk e he).1
    · exact ncE w hwm (h5.closed a w hka ha5 hw hkw)
  · intro i hk hr
    rw [srcE, seenE]
    by_cases him : i = m
    · subst him; exact loc.srcSeen
    · rw [kE] at hk; rw [runE i him] at hr; exact h5.srcSeen i hk hr
  · intro i hk hr hv
    by_cases him : i = m
    · subst him; rw [fr.val_m] at hv; cases hv
    · rw [kE] at hk; rw [runE i him] at hr; rw [valE i him] at hv
      exact dE i him (h5.valNone i hk hr hv)
  · intro i hk hr hst
    by_cases him : i = m
    · subst him
      obtain ⟨U, hU⟩ := hrep
      exact ⟨U, fun ρ hρ => by rw [seenE] at hρ; rw [fr.val_m, hU ρ hρ]⟩
    · rw [kE] at hk; rw [runE i him] at hr
      exact (h5.replay i hk hr (by rw [← ndE i him hst]; exact hst)).congr (seenE i) (valE i him)
  · intro i hk hr hst e he
    rw [seenE] at he
    by_cases him : i = m
    · subst him
      have hlt := seen_lt e he
      right
      rw [valE e.1 (by omega)]
      exact (loc.seenOk e he).2
    · rw [kE] at hk; rw [runE i him] at hr
      have hst5 : (s5.get i).st ≠ .dirty := by rw [← ndE i him hst]; exact hst
      by_cases hem : e.1 = m
      · right
        rw [hem, fr.val_m, hH i him hk hr hst e he hem]
      · rw [runE e.1 hem, valE e.1 hem]
        exact h5.srcVal i hk hr hst5 e he
  · intro i hk hr hst hruns
    have him : i ≠ m := by intro e; subst e; rw [fr.st_m] at hst; cases hst
    rw [kE] at hk; rw [runE i him] at hr; rw [runsE i him] at hruns; rw [seenE]
    by_cases h5d : (s5.get i).st = .dirty
    · obtain ⟨e, he, hne⟩ := h5.verDirty i hk hr h5d hruns
      refine ⟨e, he, ?_⟩
      have := h5.verLe i e he
      have := verMono e.1
      omega
    · have hne : (s8.get i).st ≠ (s5.get i).st := by rw [hst]; exact fun h => h5d h.symm
      have hup := fr.verUp i him hne
      have hsub : i ∈ (s5.get m).subs := by
        rcases (fr.go i him).2 with h | h
        · exact absurd h hne
        · exact h.2.2
      have hsrc : m ∈ (s5.get i).sources := (h5.edge m i).1 hsub
      rw [h5.srcSeen i hk hr] at hsrc
      obtain ⟨e, he, hem⟩ := List.mem_map.1 hsrc
      refine ⟨e, he, ?_⟩
      have := h5.verLe i e he
      rw [hem] at this ⊢
      omega
  · intro w e he
    rw [seenE] at he
    exact Nat.le_trans (h5.verLe w e he) (verMono e.1)
  · intro w a ha; rw [srcE] at ha; rw [kE]; exact h5.srcData w a ha

theorem finish_frame {p : Prog} {s5 s8 : State} {m : Nat} {v : Int} {saved : Option Nat}
    (h5 : InvR p s5) (loc : RunLoc s5 m) (fr : FinRel s5 s8 m v saved) : Frame s5 s8 (m + 1) where
  len := fr.len
  kind i := by
    by_cases hi : i = m
    · subst hi; exact fr.kind_m
    · exact (Node.core_fields (fr.go i hi).1).1
  clean i hc := by
    have him : i ≠ m := by intro e; subst e; exact h5.runNC i loc.kind loc.running hc
    refine ⟨?_, (Node.core_fields (fr.go i him).1).2.1⟩
    rcases (fr.go i him).2 with h | h
    · rw [h]; exact hc
    · exact absurd hc h.2.1
  verMono i := by
    by_cases hi : i = m
    · subst hi; exact fr.ver_m
    · rw [(Node.core_fields (fr.go i hi).1).2.2.2.2.2.2.2.1]; exact Nat.le_refl _
  sigVer i hk := by
    have him : i ≠ m := by intro e; subst e; rw [loc.kind] at hk; cases hk
    exact (Node.core_fields (fr.go i him).1).2.2.2.2.2.2.2.1
  above i hi := by
    have him : i ≠ m := by omega
    refine ⟨(fr.go i him).1, ?_⟩
    rcases (fr.go i him).2 with h | h
    · exact .inl h
    · exact .inr h.1
  log := fr.log
  effCore i hk := by
    have him : i ≠ m := by intro e; subst e; rw [loc.kind] at hk; cases hk
    exact (fr.go i him).1
  effD i hk hd := by
    have him : i ≠ m := by intro e; subst e; rw [loc.kind] at hk; cases hk
    rcases fr.effD i him hd with h | h
    · exact .inl h
    · exact .inr ⟨m, (h5.edge m i).1 h.1, h.2.2⟩
  flags := fr.flags
  logx := fr.logx.mono (fun ev hev i hi => absurd hi (hev.quiet.2 i))
  runsx := RunsX.of_quiet (fr.logx.mono (fun _ h => h.quiet)) (fun i => by
    by_cases hi : i = m
    · subst hi; exact fr.runs_m
    · exact (Node.core_fields (fr.go i hi).1).2.2.2.2.2.2.2.2)

/-- store the new value (with the observer restored) -/
def storeVal (s : State) (id : Nat) (old : Option Int) (saved : Option Nat) (v : Int) : State :=
  ({ s with obs := saved } : State).upd id fun n =>
    { n with val := some v, st := .clean, running := false, ver := (if old != some v then n.ver + 1 else n.ver) }

def notifySubs (f : Nat) (s : State) (id : Nat) : State :=
  (s.get id).subs.foldl (fun s x => if s.obs == some x then s else markDirty f s x) s

/-- the tail of `upd` after the body has been evaluated -/
def finishRun (f : Nat) (s : State) (id : Nat) (old : Option Int) (saved : Option Nat) (v : Int) :
    State × Bool :=
  if old != some v then (notifySubs (f + 1) ((storeVal s id old saved v).emit (.changed id)) id, true)
  else (storeVal s id old saved v, false)

theorem finishRun_rel {p : Prog} {s5 : State} {m : Nat} (f : Nat) (old : Option Int)
    (saved : Option Nat) (v : Int)
    (h5 : InvR p s5) (loc : RunLoc s5 m)
    (hsubsNC : ∀ w ∈ (s5.get m).subs, (s5.get w).kind = .memo → (s5.get w).st ≠ .clean) :
    FinRel s5 (finishRun f s5 m old saved v).1 m v saved ∧
    ((finishRun f s5 m old saved v).2 = (old != some v)) ∧
    ((old != some v) = true → (s5.get m).ver < ((finishRun f s5 m old saved v).1.get m).ver) ∧
    ((old != some v) = true → ∀ w ∈ (s5.get m).subs, saved ≠ some w → (s5.get w).kind = .memo →
      ((finishRun f s5 m old saved v).1.get w).st = .dirty) ∧
    ((old != some v) = true → ∀ w ∈ (s5.get m).subs, saved ≠ some w → (s5.get w).kind = .eff →
      (s5.get w).alive = true → ((finishRun f s5 m old saved v).1.get w).dirty = true) := by
  have hm : m < s5.nodes.length := s5.lt_of_running loc.running
  unfold finishRun
  generalize hs7 : storeVal s5 m old saved v = s7
  have g7m : s7.get m = { s5.get m with val := some v, st := .clean, running := false, ver := (if (old != some v) = true then (s5.get m).ver + 1 else (s5.get m).ver) } := by
    subst hs7; unfold storeVal; rw [State.get_upd_same (s := { s5 with obs := saved }) _ hm]; rfl
  have g7o : ∀ i, i ≠ m → s7.get i = s5.get i := by
    intro i hi; subst hs7; unfold storeVal; rw [State.get_upd_ne _ _ (Ne.symm hi)]; rfl
  have len7 : s7.nodes.length = s5.nodes.length := by subst hs7; simp [storeVal]
  have obs7 : s7.obs = saved := by subst hs7; rfl
  have log7 : s7.log = s5.log := by subst hs7; rfl
  have ver7 : (s5.get m).ver ≤ (s7.get m).ver := by
    rw [g7m]; simp only; split <;> omega
  by_cases hch : (old != some v) = true
  · rw [if_pos hch]
    simp only
    -- Closed for the state before marking
    generalize hs7e : s7.emit (.changed m) = s7e
    have ge : ∀ i, s7e.get i = s7.get i := by intro i; subst hs7e; rfl
    have hc7 : Closed s7e := by
      intro a w hka hsa hw hkw
      rw [ge] at hka hsa hw hkw ⊢
      have ham : a ≠ m := by intro e; subst e; rw [g7m] at hsa; exact hsa rfl
      rw [g7o a ham] at hka hsa hw
      by_cases hwm : w = m
      · subst hwm
        exfalso
        have hsrc : a ∈ (s5.get w).sources := (h5.edge a w).1 hw
        rw [loc.srcSeen] at hsrc
        obtain ⟨e, he, rfl⟩ := List.mem_map.1 hsrc
        exact hsa (loc.seenOk e he).1
      · rw [g7o w hwm] at hkw ⊢
        exact h5.closed a w hka hsa hw hkw
    have hmm : m ∉ (s5.get m).subs := by
      intro hc; exact Nat.lt_irrefl m (h5.srcLt m m ((h5.edge m m).1 hc))
    have hsubs7 : (s7e.get m).subs = (s5.get m).subs := by rw [ge, g7m]
    have hpre : ∀ w ∈ (s7e.get m).subs, (s7e.get w).kind = .memo → (s7e.get w).st ≠ .clean := by
      intro w hw hk
      rw [hsubs7] at hw
      have hwm : w ≠ m := by intro e; subst e; exact hmm hw
      rw [ge, g7o w hwm] at hk ⊢
      exact hsubsNC w hw hk
    have sp := foldl_skip_spec (f + 1) (s7e.get m).subs s7e hc7 hpre
    have hskipD := foldl_skip_dirty (f + 1) (s7e.get m).subs s7e
    unfold notifySubs
    generalize (s7e.get m).subs.foldl (fun s x => if s.obs == some x then s else markDirty (f + 1) s x) s7e = s8 at sp hskipD
    have obs7e : s7e.obs = saved := by subst hs7e; exact obs7
    have st8m : (s8.get m).st = .clean := by
      rcases sp.st m with h | h
      · rw [h, ge, g7m]
      · rw [hsubs7] at h; exact absurd h.2.2.1 hmm
    have verm : (s8.get m).ver = (s5.get m).ver + 1 := by
      rw [sp.rel.ver, ge, g7m]; simp only [hch, if_true]
    have hfl8 : FlagRel s5 s8 := by
      have h57 : FlagRel s5 s7e := by
        apply FlagRel.of_same
        intro i
        rw [ge]
        by_cases hi : i = m
        · subst hi; rw [g7m]; exact ⟨rfl, rfl, rfl⟩
        · rw [g7o i hi]; exact ⟨rfl, rfl, rfl⟩
      exact h57.trans sp.flags
    have hlx8 : LogExt ChgEv s5 s8 := by
      have h57 : LogExt ChgEv s5 s7e := by
        subst hs7e
        exact ⟨[.changed m], by simp [log7], fun ev hev => by
          rw [List.mem_singleton.1 hev]; exact .inr ⟨_, rfl⟩⟩
      exact h57.trans (sp.rel.logx.mono (fun _ h => h.chg))
    have hchg8 : ∃ suf, s8.log = s5.log ++ suf ∧ (∀ w, Ev.ran w ∉ suf) ∧
        ((s8.get m).ver ≠ (s5.get m).ver → Ev.changed m ∈ suf) := by
      obtain ⟨w, hw, gw⟩ := sp.rel.logx
      refine ⟨.changed m :: w, ?_, fun i hi => ?_, fun _ => List.mem_cons_self⟩
      · rw [hw, ← hs7e]; simp [log7]
      · rcases List.mem_cons.1 hi with hi | hi
        · cases hi
        · obtain ⟨j, hj⟩ := gw _ hi; cases hj
    refine ⟨⟨?_, ?_, ?_, ?_, ?_, st8m, ?_, ?_, ?_, ?_, ?_, ?_, ?_, ?_, hfl8, hlx8, by rw [sp.rel.runs, ge, g7m], hchg8⟩, hch.symm, fun _ => by rw [verm]; omega, ?_, ?_⟩
    · rw [sp.rel.len]; subst hs7e; exact len7
    · rw [sp.rel.obs]; exact obs7e
    · intro hl
      apply sp.rel.log
      subst hs7e
      exact LogOK.emit (s := s7) (by intro i; rw [log7]; exact hl i) (by intro i; simp)
    · rw [sp.rel.kind, ge, g7m]
    · rw [sp.rel.val, ge, g7m]
    · rw [sp.rel.running, ge, g7m]
    · rw [sp.rel.sources, ge, g7m]
    · rw [sp.rel.subs, ge, g7m]
    · rw [sp.rel.seen, ge, g7m]
    · rw [verm]; omega
    · intro i hi
      refine ⟨by rw [sp.rel.core, ge, g7o i hi], ?_⟩
      rcases sp.st i with h | h
      · left; rw [h, ge, g7o i hi]
      · right
        rw [ge, g7o i hi] at h
        exact ⟨h.1, h.2.1, by rw [← hsubs7]; exact h.2.2.1⟩
    · intro i _ _; rw [verm]; omega
    · intro i hi hd
      rcases hskipD i hd with h | h
      · rw [ge, g7o i hi] at h; exact .inl h
      · exact .inr ⟨by rw [← hsubs7]; exact h.1, by rw [← obs7e]; exact h.2.1, by rw [verm]; omega⟩
    · intro _ w hw hsv hk
      have hwm : w ≠ m := by intro e; subst e; exact hmm hw
      exact sp.marked w (by rw [hsubs7]; exact hw) (by rw [obs7e]; exact hsv)
        (by rw [ge, g7o w hwm]; exact hk)
    · intro _ w hw hsv hk ha
      have hwm : w ≠ m := by intro e; subst e; exact hmm hw
      exact sp.markedE w (by rw [hsubs7]; exact hw) (by rw [obs7e]; exact hsv)
        (by rw [ge, g7o w hwm]; exact hk) (by rw [ge, g7o w hwm]; exact ha)
  · rw [if_neg hch]
    have hch' : (old != some v) = false := by simpa using hch
    refine ⟨⟨len7, obs7, fun hl i => by rw [log7]; exact hl i, by rw [g7m], by rw [g7m], by rw [g7m],
      by rw [g7m], by rw [g7m], by rw [g7m], by rw [g7m], ver7, ?_, ?_, ?_, ?_, LogExt.of_eq log7, by rw [g7m],
      ⟨[], by simp [log7], fun _ h => (by cases h), fun hne => absurd (by rw [g7m]; simp [hch']) hne⟩⟩, hch'.symm, ?_, ?_, ?_⟩
    · intro i hi; rw [g7o i hi]; exact ⟨rfl, .inl rfl⟩
    · intro i hi hne; rw [g7o i hi] at hne; exact absurd rfl hne
    · intro i hi hd; rw [g7o i hi] at hd; exact .inl hd
    · apply FlagRel.of_same
      intro i
      by_cases hi : i = m
      · subst hi; rw [g7m]; exact ⟨rfl, rfl, rfl⟩
      · rw [g7o i hi]; exact ⟨rfl, rfl, rfl⟩
    · intro h; exact absurd h hch
    · intro h; exact absurd h hch
    · intro h; exact absurd h hch

/-! ## `upd` unfolded -/

/-- the recomputation branch of `upd`, verbatim -/
def runMemo (p : Prog) (f : Nat) (s : State) (id : Nat) : State × Bool :=
  let old := (s.get id).val
  let s := s.upd id fun n => { n with val := none }
  let s := clearSources s id
  let s := noteRun s id
  let saved := s.obs
  let s := { s with obs := some id }
  let (s, v) := evalE (readNode (upd p f)) (fun s _ _ => s) id (bodyOf p id) s
  let s := { s with obs := saved }
  let changed := old != some v
  let s := s.upd id fun n =>
    { n with val := some v, st := .clean, running := false, ver := (if changed then n.ver + 1 else n.ver) }
  if changed then
    let s := s.emit (.changed id)
    let s := (s.get id).subs.foldl
      (fun s x => if s.obs == some x then s else markDirty (fuelFor p) s x) s
    (s, true)
  else (s, false)

theorem upd_succ (p : Prog) (f : Nat) (s : State) (id : Nat) :
    upd p (f + 1) s id =
      if (s.get id).kind != .memo then (s, false) else
      let r := (match (s.get id).st with
        | .clean => (s, false)
        | .dirty => (s, true)
        | .check => anySrc (upd p f) true id (s.get id).sources s)
      if r.2 then runMemo p f r.1 id else (r.1.upd id fun n => { n with st := .clean }, false) := by
  rfl

theorem noteRun_obs (s : State) (id : Nat) : (noteRun s id).obs = s.obs := by
  unfold noteRun; simp only; split <;> rfl

theorem clearSources_obs (s : State) (id : Nat) : (clearSources s id).obs = s.obs := by
  unfold clearSources; simp only [State.upd_obs, foldl_erase_obs]

theorem runMemo_eq (p : Prog) (f : Nat) (s : State) (id : Nat) :
    runMemo p f s id =
      finishRun p.length (evalE (readNode (upd p f)) (fun s _ _ => s) id (bodyOf p id) (startRun s id)).1 id
        (s.get id).val s.obs (evalE (readNode (upd p f)) (fun s _ _ => s) id (bodyOf p id) (startRun s id)).2 := by
  have hobs : (noteRun (clearSources (s.upd id fun n => { n with val := none }) id) id).obs = s.obs := by
    rw [noteRun_obs, clearSources_obs]; rfl
  unfold runMemo finishRun storeVal notifySubs startRun fuelFor
  simp only [hobs]

/-- what the proof needs from the program: memo bodies read smaller data nodes and do not write -/
def MemoOK (p : Prog) : Prop :=
  ∀ (m : Nat) (b : Expr), p[m]? = some (NodeDef.memo b) →
    b.readsBelow m = true ∧ b.noWrite = true ∧ b.readsData p = true

theorem runMemo_spec {p : Prog} (hp : MemoOK p) {f : Nat} (hu : UpdOK p (upd p f) f) {s0 : State} {m : Nat}
    (h0 : InvR p s0) (hmf : m ≤ f) (hk : (s0.get m).kind = .memo) (hr : (s0.get m).running = false)
    (hst : (s0.get m).st ≠ .clean) (hlow : ∀ r, (s0.get r).running = true → m < r)
    (hj : (s0.get m).runs ≠ 0 → ∃ e ∈ (s0.get m).seen, (s0.get e.1).ver ≠ e.2.2) :
    UpdPost p s0 m (runMemo p f s0 m) := by
  have hm : m < s0.nodes.length := s0.lt_of_kind_ne (by rw [hk]; simp)
  have hself : m ∉ (s0.get m).sources := fun hc => Nat.lt_irrefl m (h0.srcLt m m hc)
  have t := startRun_post (s := s0) (m := m) h0.nodup
    (fun i hni hc => hni ((h0.edge i m).1 hc)) hself hm
  obtain ⟨h4, loc4⟩ := startRun_inv h0 t hk hr hst hlow
  have fr04 := startRun_frame h0 t hk hst hj
  obtain ⟨b, hb⟩ := h0.memo_def hk
  have hbody := hp m b hb
  have hbo : bodyOf p m = b := by simp only [bodyOf, hb]
  rw [runMemo_eq]
  generalize startRun s0 m = s4 at t h4 loc4 fr04
  obtain ⟨L, U, ep, hrep⟩ := evalE_spec hu (fun s _ _ => s) hmf (bodyOf p m) s4 h4 loc4
    (by rw [hbo]; exact hbody.1) (by rw [hbo]; exact hbody.2.1) (by rw [hbo]; exact hbody.2.2)
    (fun _ hy => hy)
  generalize evalE (readNode (upd p f)) (fun s _ _ => s) m (bodyOf p m) s4 = r at ep hrep
  obtain ⟨s5, v⟩ := r
  simp only at ep hrep ⊢
  have fr05 : Frame s0 s5 (m + 1) := fr04.trans ep.frame
  have hseen5 : (s5.get m).seen = L := by rw [ep.seen, t.seen_m]; rfl
  have hsubs5 : (s5.get m).subs = (s0.get m).subs := ep.subs.trans t.subs_m
  have hrun5 : ∀ i, i ≠ m → (s5.get i).running = (s0.get i).running :=
    fun i hi => (ep.running i).trans (t.running i hi)
  have sub_gt : ∀ w, w ∈ (s0.get m).subs → m < w := fun w hw => h0.srcLt w m ((h0.edge m w).1 hw)
  have hsubsNC : ∀ w ∈ (s5.get m).subs, (s5.get w).kind = .memo → (s5.get w).st ≠ .clean := by
    intro w hw hkw
    rw [hsubs5] at hw
    rw [fr05.kind] at hkw
    have h0w := h0.closed m w hk hst hw hkw
    rcases (fr05.above w (by have := sub_gt w hw; omega)).2 with h | h
    · rw [h]; exact h0w
    · rw [h]; simp
  obtain ⟨fr, hflag, hverup, hmarked, hmarkedE⟩ := finishRun_rel p.length (s0.get m).val s0.obs v ep.inv ep.loc hsubsNC
  generalize finishRun p.length s5 m (s0.get m).val s0.obs v = r8 at fr hflag hverup hmarked hmarkedE
  obtain ⟨s8, ch⟩ := r8
  simp only at fr hflag hverup hmarked hmarkedE
  have hsaved : ∀ o, s0.obs = some o → (s5.get o).running = true ∧ o ≠ m := by
    intro o ho
    have hro := h0.obsRun o ho
    have hom : o ≠ m := by intro e; subst e; rw [hr] at hro; cases hro
    exact ⟨by rw [hrun5 o hom]; exact hro, hom⟩
  have hH : ∀ i, i ≠ m → (s5.get i).kind = .memo → (s5.get i).running = false → (s8.get i).st ≠ .dirty →
      ∀ e ∈ (s5.get i).seen, e.1 = m → v = e.2.1 := by
    intro i him hki hri hst8 e he hem
    have hsrc : m ∈ (s5.get i).sources := by
      rw [ep.inv.srcSeen i hki hri, ← hem]; exact List.mem_map_of_mem he
    have hmi : m < i := ep.inv.srcLt i m hsrc
    have ab := fr05.above i (by omega)
    have cf := Node.core_fields ab.1
    have hk0 : (s0.get i).kind = .memo := by rw [← cf.1]; exact hki
    have hr0 : (s0.get i).running = false := by rw [← cf.2.2.2.2.2.1]; exact hri
    have he0 : e ∈ (s0.get i).seen := by rw [← cf.2.2.2.2.2.2.1]; exact he
    by_cases hch : ((s0.get m).val != some v) = true
    · exfalso
      have hsub : i ∈ (s5.get m).subs := (ep.inv.edge m i).2 hsrc
      have hsv : s0.obs ≠ some i := by
        intro ho
        have := h0.obsRun i ho
        rw [hr0] at this; cases this
      exact hst8 (hmarked hch i hsub hsv hki)
    · have hold : (s0.get m).val = some v := by simpa using hch
      have h85 : (s8.get i).st = (s5.get i).st := by
        rcases (fr.go i him).2 with h | h
        · exact h
        · exact absurd h.1 hst8
      have hst0 : (s0.get i).st ≠ .dirty := by
        rcases ab.2 with h | h
        · rw [← h, ← h85]; exact hst8
        · rw [h85] at hst8; exact absurd h hst8
      rcases h0.srcVal i hk0 hr0 hst0 e he0 with h | h
      · rw [hem, hr] at h; cases h
      · rw [hem, hold] at h; exact Option.some.inj h
  have hrep' : ∃ U : List Int, ∀ ρ : Nat → Int, (∀ e ∈ (s5.get m).seen, ρ e.1 = e.2.1) →
      (evalSnap ρ (bodyOf p m) U).1 = v := by
    refine ⟨U, fun ρ hρ => ?_⟩
    rw [hseen5] at hρ
    have := hrep ρ hρ []
    rw [List.append_nil] at this
    rw [this]
  have h8 := finish_inv ep.inv ep.loc fr hrep' hsaved hH
  have fr58 := finish_frame ep.inv ep.loc fr
  have hver5 : (s5.get m).ver = (s0.get m).ver := ep.ver.trans (t.ver m)
  refine ⟨h8, fr05.trans fr58, fr.obs, ?_, fun _ => fr.st_m, fr.subs_m.trans hsubs5, ?_, ?_, ?_, ?_, ?_, ?_, ?_⟩
  · intro i
    by_cases hi : i = m
    · subst hi; rw [hr]; exact fr.running_m
    · rw [(Node.core_fields (fr.go i hi).1).2.2.2.2.2.1]; exact hrun5 i hi
  · intro hc
    simp only at hc
    rw [← hver5]
    exact hverup (by rw [← hflag]; exact hc)
  · intro o ho hko hd
    simp only at hd ⊢
    have hom : o ≠ m := by intro e; subst e; rw [hk] at hko; cases hko
    have hd5 : (s5.get o).dirty = true := by
      rcases fr.effD o hom hd with h | h
      · exact h
      · exact absurd ho h.2.1
    rcases fr05.effD o hko hd5 with h | ⟨y, hy, hv⟩
    · exact .inl h
    · refine .inr ⟨y, hy, ?_, Nat.lt_of_lt_of_le hv (fr58.verMono y)⟩
      intro hym; subst hym; omega
  · -- value changes are signalled to effects
    intro i hki x hx hne
    simp only at hne ⊢
    have him : i ≠ m := by intro e; subst e; rw [hk] at hki; cases hki
    have hc05 := fr05.effCore i hki
    by_cases hxm : x = m
    · subst hxm
      by_cases hch : ((s0.get x).val != some v) = true
      · by_cases hsv : s0.obs = some i
        · exact .inr (.inl hsv)
        · by_cases hal : (s0.get i).alive = true
          · left
            have hsub : i ∈ (s5.get x).subs := by rw [hsubs5]; exact (h0.edge x i).2 hx
            exact hmarkedE hch i hsub hsv (by rw [fr05.kind]; exact hki)
              (by rw [(Node.core_life hc05).1]; exact hal)
          · exact .inr (.inr (by simpa using hal))
      · exfalso
        have hold : (s0.get x).val = some v := by simpa using hch
        exact hne (by rw [fr.val_m, hold])
    · have h85 : (s8.get x).val = (s5.get x).val := (Node.core_fields (fr.go x hxm).1).2.1
      have h40 : (s4.get x).val = (s0.get x).val := t.val x hxm
      have hne' : (s5.get x).val ≠ (s4.get x).val := by rw [← h85, h40]; exact hne
      have hk4 : (s4.get i).kind = .eff := by rw [t.kind]; exact hki
      rcases ep.valCh i hk4 x (by rw [t.sources i him]; exact hx) hne' with h' | h' | h'
      · exact .inl (fr.flags.d i h')
      · rw [loc4.obs] at h'
        have : m = i := Option.some.inj h'
        exact absurd this.symm him
      · rw [t.go i him] at h'; exact .inr (.inr h')
  · -- every node ran at most once
    intro i
    simp only
    by_cases him : i = m
    · subst him
      right
      have h54 : (s5.get i).runs = (s4.get i).runs := by
        rcases ep.runRel i with h' | h'
        · exact h'
        · exact absurd h'.2.1 (ep.inv.runNC i ep.loc.kind ep.loc.running)
      refine ⟨by rw [fr.runs_m, h54, t.gm], fr.st_m, hst⟩
    · have h85 : (s8.get i).runs = (s5.get i).runs :=
        (Node.core_fields (fr.go i him).1).2.2.2.2.2.2.2.2
      have h40 : (s4.get i).runs = (s0.get i).runs := t.runs i him
      rcases ep.runRel i with h' | h'
      · exact .inl (by rw [h85, h', h40])
      · refine .inr ⟨by rw [h85, h'.1, h40], ?_, by rw [← t.st]; exact h'.2.2⟩
        rcases (fr.go i him).2 with h'' | h''
        · rw [h'']; exact h'.2.1
        · exact absurd h'.2.1 h''.2.1
  · -- recorded sources are statically read
    intro hs0
    have hs4 : SrcStatic p s4 := hs0.mono (fun w y hy => by
      by_cases hw : w = m
      · subst hw; rw [t.sources_m] at hy; cases hy
      · rw [t.sources w hw] at hy; exact hy)
    exact (ep.ss hs4).mono (fun w y hy => by
      by_cases hw : w = m
      · subst hw; rw [fr.sources_m] at hy; exact hy
      · rw [(Node.core_fields (fr.go w hw).1).2.2.1] at hy; exact hy)
  · -- the log is glitch-free
    intro hwf htr
    have g04 : StateGF p s0 s4 := StateGF.of_plain (t.logx.mono (fun ev hev => by
      rcases hev with rfl | rfl
      · exact ⟨fun _ _ _ h => (by cases h), fun _ h => (by cases h)⟩
      · exact ⟨fun _ _ _ h => (by cases h), fun _ h => (by cases h)⟩)) (fr04.sigEq h0)
    have g58 : StateGF p s5 s8 :=
      StateGF.of_plain (fr.logx.mono (fun _ h => h.plain)) (fr58.sigEq ep.inv)
    exact (g04.trans (ep.gf hwf htr)).trans g58
  · -- one run per change, in the log
    have c04 : CRI p s0 s4 := by
      intro hc
      obtain ⟨pre, hl, hpre⟩ := t.logs
      refine ChgRel.of_ran hc hl hpre t.seen_m (fun i hi => t.seen i hi) t.ver (by rw [t.gm]; simp)
        (fun i hi => t.runs i hi) (fun hruns => ?_)
      obtain ⟨e, he, hne⟩ := hj hruns
      refine ⟨e, he, ?_, hne⟩
      have hsrc : e.1 ∈ (s0.get m).sources := by
        rw [h0.srcSeen m hk hr]; exact List.mem_map_of_mem he
      exact h0.notEffP (h0.srcData m e.1 hsrc)
    have c58 : CRI p s5 s8 := by
      intro _
      obtain ⟨suf, hl, hnr, hcm⟩ := fr.chg
      refine ChgRel.of_noRan hl hnr (fun w => ?_) (fun x _ hne => ?_) (fun w hw => ?_)
      · by_cases hw : w = m
        · subst hw; exact fr.seen_m
        · exact (Node.core_fields (fr.go w hw).1).2.2.2.2.2.2.1
      · by_cases hx : x = m
        · subst hx; exact .inr (hcm hne)
        · exact absurd (Node.core_fields (fr.go x hx).1).2.2.2.2.2.2.2.1 hne
      · by_cases hwm : w = m
        · subst hwm; rw [fr.runs_m]; exact hw
        · rw [(Node.core_fields (fr.go w hwm).1).2.2.2.2.2.2.2.2]; exact hw
    exact (c04.trans ep.cr).trans c58

/-! ## the `any` loop of `needs_update` -/

structure AnyPost (p : Prog) (s : State) (m : Nat) (l : List Nat) (r : State × Bool) : Prop where
  inv : InvR p r.1
  frame : Frame s r.1 m
  obs : r.1.obs = s.obs
  running : ∀ i, (r.1.get i).running = (s.get i).running
  allClean : r.2 = false → (∀ x ∈ l, (s.get x).kind = .memo → (r.1.get x).st = .clean) ∧
    (r.1.get m).st ≠ .dirty
  just : r.2 = true → (r.1.get m).runs ≠ 0 → ∃ e ∈ (r.1.get m).seen, (r.1.get e.1).ver ≠ e.2.2
  valCh : ValCh s r.1
  runRel : RunRel s r.1
  ss : SrcStatic p s → SrcStatic p r.1
  gf : GFI p s r.1
  cr : CRI p s r.1

theorem anySrc_spec {p : Prog} {u : State → Nat → State × Bool} {f : Nat} (hu : UpdOK p u f)
    {m : Nat} (hmf : m ≤ f) : ∀ (l : List Nat) (s : State), InvR p s → (s.get m).kind = .memo →
      (s.get m).running = false → (∀ r, (s.get r).running = true → m < r) →
      (s.get m).st ≠ .dirty →
      (∀ x ∈ l, x ∈ (s.get m).sources) → AnyPost p s m l (anySrc u true m l s) := by
  intro l
  induction l with
  | nil =>
    intro s h _ _ _ hnd _
    exact ⟨h, Frame.refl s m, rfl, fun _ => rfl, fun _ => ⟨fun _ hx => (by cases hx), hnd⟩,
      fun hc => (by cases hc), ValCh.of_val_eq (fun _ => rfl), RunRel.of_eq (fun _ => rfl), fun h => h,
      GFI.refl p s, CRI.refl p s⟩
  | cons x l ih =>
    intro s h hk hr hlow hnd hl
    have hxs : x ∈ (s.get m).sources := hl x List.mem_cons_self
    have hxm : x < m := h.srcLt m x hxs
    have hxr : (s.get x).running = false := by
      cases hrx : (s.get x).running with
      | false => rfl
      | true => have := hlow x hrx; omega
    have hp := hu s x h (by omega) hxr (fun r hr' => by have := hlow r hr'; omega)
    unfold anySrc
    generalize u s x = r1 at hp
    obtain ⟨s1, ch⟩ := r1
    simp only at hp ⊢
    have fr1 : Frame s s1 m := hp.frame.mono (by omega)
    have ab := hp.frame.above m (by omega)
    have cf := Node.core_fields ab.1
    have hk1 : (s1.get m).kind = .memo := by rw [cf.1]; exact hk
    have hr1 : (s1.get m).running = false := by rw [cf.2.2.2.2.2.1]; exact hr
    have hseen1 : (s1.get m).seen = (s.get m).seen := cf.2.2.2.2.2.2.1
    have hsrc1 : (s1.get m).sources = (s.get m).sources := cf.2.2.1
    by_cases hc : (ch || (true && (s1.get m).st == .dirty)) = true
    · rw [if_pos hc]
      refine ⟨hp.inv, fr1, hp.obs, hp.running, fun h' => (by cases h'), fun _ hruns => ?_, hp.valCh,
        hp.runRel, hp.ss, hp.gf, hp.cr⟩
      simp only at hruns ⊢
      by_cases hch : ch = true
      · have hv : (s.get x).ver < (s1.get x).ver := hp.ver hch
        have hxs' := hxs
        rw [h.srcSeen m hk hr] at hxs'
        obtain ⟨e, he, hex⟩ := List.mem_map.1 hxs'
        refine ⟨e, by rw [hseen1]; exact he, ?_⟩
        have := h.verLe m e he
        rw [hex] at this ⊢
        omega
      · have hd : (s1.get m).st = .dirty := by
          simp only [Bool.or_eq_true, Bool.true_and, beq_iff_eq] at hc
          rcases hc with hc | hc
          · exact absurd hc hch
          · exact hc
        exact hp.inv.verDirty m hk1 hr1 hd hruns
    · rw [if_neg hc]
      have hnd1 : (s1.get m).st ≠ .dirty := by
        intro hd; apply hc; simp [hd]
      have hch : ch = false := by
        cases ch with
        | false => rfl
        | true => exact absurd (by simp) hc
      have ih' := ih s1 hp.inv hk1 hr1 (fun r hr' => hlow r (by rw [← hp.running]; exact hr')) hnd1
        (fun y hy => by rw [hsrc1]; exact hl y (List.mem_cons_of_mem _ hy))
      generalize anySrc u true m l s1 = r2 at ih'
      refine ⟨ih'.inv, fr1.trans ih'.frame, ih'.obs.trans hp.obs,
        fun i => (ih'.running i).trans (hp.running i), fun h2 => ?_, ih'.just,
        hp.valCh.trans ih'.valCh fr1 ih'.frame hp.obs,
        hp.runRel.trans ih'.runRel (fun i hi => (fr1.clean i hi).1) (fun i hi => (ih'.frame.clean i hi).1),
        fun h => ih'.ss (hp.ss h), hp.gf.trans ih'.gf, hp.cr.trans ih'.cr⟩
      have a2 := ih'.allClean h2
      refine ⟨fun y hy hky => ?_, a2.2⟩
      rcases List.mem_cons.1 hy with rfl | hy
      · exact (ih'.frame.clean y (hp.clean hky)).1
      · exact a2.1 y hy (by rw [hp.frame.kind]; exact hky)

/-- re-stamping a `check` memo whose sources are all clean -/
theorem restamp_spec {p : Prog} {s : State} {m : Nat} (h : InvR p s) (hk : (s.get m).kind = .memo)
    (hr : (s.get m).running = false) (hnd : (s.get m).st ≠ .dirty)
    (hsrc : ∀ x ∈ (s.get m).sources, (s.get x).kind = .memo → (s.get x).st = .clean) :
    UpdPost p s m (s.upd m fun n => { n with st := .clean }, false) := by
  have hm : m < s.nodes.length := s.lt_of_kind_ne (by rw [hk]; simp)
  generalize hs' : (s.upd m fun n => { n with st := .clean }) = s'
  have gm : s'.get m = { s.get m with st := .clean } := by subst hs'; rw [State.get_upd_same _ _ hm]
  have go : ∀ i, i ≠ m → s'.get i = s.get i := by
    intro i hi; subst hs'; rw [State.get_upd_ne _ _ (Ne.symm hi)]
  have hcore : ∀ i, (s'.get i).core = (s.get i).core := by
    intro i; by_cases hi : i = m
    · subst hi; rw [gm]; rfl
    · rw [go i hi]
  have cf := fun i => Node.core_fields (hcore i)
  have stm : (s'.get m).st = .clean := by rw [gm]
  have sto : ∀ i, i ≠ m → (s'.get i).st = (s.get i).st := fun i hi => by rw [go i hi]
  have hlen : s'.nodes.length = s.nodes.length := by subst hs'; simp
  have hobs : s'.obs = s.obs := by subst hs'; rfl
  have hlog : s'.log = s.log := by subst hs'; rfl
  have nc : ∀ i, (s'.get i).st ≠ .clean → i ≠ m ∧ (s.get i).st ≠ .clean := by
    intro i hi
    have him : i ≠ m := by intro e; subst e; exact hi stm
    exact ⟨him, by rw [← sto i him]; exact hi⟩
  have hinv : InvR p s' := by
    constructor
    · exact hlen.trans h.len
    · intro i d hd; rw [(cf i).1]; exact h.kind i d hd
    · intro i hi hki
      rw [(cf i).1] at hki
      have him : i ≠ m := by intro e; subst e; rw [hk] at hki; cases hki
      rw [go i him]; exact h.sigOk i hi hki
    · intro o ho; rw [hobs] at ho; rw [(cf o).2.2.2.2.2.1]; exact h.obsRun o ho
    · intro a w; rw [(cf a).2.2.2.1, (cf w).2.2.1]; exact h.edge a w
    · intro a; rw [(cf a).2.2.2.1]; exact h.nodup a
    · intro w a ha; rw [(cf w).2.2.1] at ha; exact h.srcLt w a ha
    · intro r hkr hrr
      rw [(cf r).1] at hkr; rw [(cf r).2.2.2.2.2.1] at hrr
      have hrm : r ≠ m := by intro e; subst e; rw [hr] at hrr; cases hrr
      rw [sto r hrm]; exact h.runNC r hkr hrr
    · intro a w hka hsa hw hkw
      rw [(cf a).1] at hka; rw [(cf w).1] at hkw; rw [(cf a).2.2.2.1] at hw
      obtain ⟨ham, hsa'⟩ := nc a hsa
      by_cases hwm : w = m
      · subst hwm
        exact absurd (hsrc a ((h.edge a w).1 hw) hka) hsa'
      · rw [sto w hwm]; exact h.closed a w hka hsa' hw hkw
    · intro i hki hri
      rw [(cf i).1] at hki; rw [(cf i).2.2.2.2.2.1] at hri
      rw [(cf i).2.2.1, (cf i).2.2.2.2.2.2.1]; exact h.srcSeen i hki hri
    · intro i hki hri hv
      rw [(cf i).1] at hki; rw [(cf i).2.2.2.2.2.1] at hri; rw [(cf i).2.1] at hv
      have hd := h.valNone i hki hri hv
      have him : i ≠ m := by intro e; subst e; exact hnd hd
      rw [sto i him]; exact hd
    · intro i hki hri hsi
      rw [(cf i).1] at hki; rw [(cf i).2.2.2.2.2.1] at hri
      by_cases him : i = m
      · subst him; exact (h.replay i hki hri hnd).congr (cf i).2.2.2.2.2.2.1 (cf i).2.1
      · rw [sto i him] at hsi; exact (h.replay i hki hri hsi).congr (cf i).2.2.2.2.2.2.1 (cf i).2.1
    · intro i hki hri hsi e he
      rw [(cf i).1] at hki; rw [(cf i).2.2.2.2.2.1] at hri; rw [(cf i).2.2.2.2.2.2.1] at he
      rw [(cf e.1).2.2.2.2.2.1, (cf e.1).2.1]
      by_cases him : i = m
      · subst him; exact h.srcVal i hki hri hnd e he
      · rw [sto i him] at hsi; exact h.srcVal i hki hri hsi e he
    · intro i hki hri hsi hruns
      rw [(cf i).1] at hki; rw [(cf i).2.2.2.2.2.1] at hri; rw [(cf i).2.2.2.2.2.2.2.2] at hruns
      have him : i ≠ m := by intro e; subst e; rw [stm] at hsi; cases hsi
      rw [sto i him] at hsi
      obtain ⟨e, he, hne⟩ := h.verDirty i hki hri hsi hruns
      exact ⟨e, by rw [(cf i).2.2.2.2.2.2.1]; exact he, by rw [(cf e.1).2.2.2.2.2.2.2.1]; exact hne⟩
    · intro w e he
      rw [(cf w).2.2.2.2.2.2.1] at he; rw [(cf e.1).2.2.2.2.2.2.2.1]; exact h.verLe w e he
    · intro w a ha; rw [(cf w).2.2.1] at ha; rw [(cf a).1]; exact h.srcData w a ha
  have dE : ∀ i, (s'.get i).dirty = (s.get i).dirty := by
    intro i; by_cases hi : i = m
    · subst hi; rw [gm]
    · rw [go i hi]
  refine ⟨hinv, ?_, hobs, fun i => (cf i).2.2.2.2.2.1, fun _ => stm, (cf m).2.2.2.1, fun hc => (by cases hc),
    fun o _ _ hd => .inl (by rw [← dE]; exact hd), ValCh.of_val_eq (fun i => (cf i).2.1),
    RunRel.of_eq (fun i => (cf i).2.2.2.2.2.2.2.2),
    fun hs => hs.mono (fun w y hy => by rw [(cf w).2.2.1] at hy; exact hy),
    GFI.of_eq hlog (fun i => (cf i).2.1),
    CRI.of_same hlog (fun i => (cf i).2.2.2.2.2.2.1) (fun i => (cf i).2.2.2.2.2.2.2.1)
      (fun i => (cf i).2.2.2.2.2.2.2.2)⟩
  refine ⟨hlen, fun i => (cf i).1, ?_, fun i => by rw [(cf i).2.2.2.2.2.2.2.1]; exact Nat.le_refl _,
    fun i _ => (cf i).2.2.2.2.2.2.2.1, ?_, fun hl i => (by rw [hlog]; exact hl i), fun i _ => hcore i,
    fun i _ hd => .inl (by rw [← dE]; exact hd), ?_, LogExt.of_eq hlog,
    RunsX.of_quiet (LogExt.of_eq hlog) (fun i => (cf i).2.2.2.2.2.2.2.2)⟩
  · intro i hi
    refine ⟨?_, (cf i).2.1⟩
    by_cases him : i = m
    · subst him; exact stm
    · rw [sto i him]; exact hi
  · intro i hi
    exact ⟨hcore i, .inl (sto i (by omega))⟩
  · apply FlagRel.of_same
    intro i
    by_cases hi : i = m
    · subst hi; rw [gm]; exact ⟨rfl, rfl, rfl⟩
    · rw [go i hi]; exact ⟨rfl, rfl, rfl⟩

theorem upd_step {p : Prog} (hp : MemoOK p) {f : Nat} (hu : UpdOK p (upd p f) f) :
    UpdOK p (upd p (f + 1)) (f + 1) := by
  intro s m h hmf hr hlow
  rw [upd_succ]
  by_cases hk : (s.get m).kind = .memo
  · have hk' : ((s.get m).kind != .memo) = false := by rw [hk]; rfl
    rw [hk']
    simp only [Bool.false_eq_true, if_false]
    cases hst : (s.get m).st with
    | clean =>
      simp only [Bool.false_eq_true, if_false]
      have e : (s.upd m fun n => { n with st := .clean }) = s := by
        apply State.upd_eq_self
        have : s.get m = { s.get m with st := (s.get m).st } := rfl
        rw [hst] at this; exact this.symm
      rw [e]
      exact UpdPost.refl h (fun _ => hst)
    | dirty =>
      simp only [if_true]
      exact runMemo_spec hp hu h (by omega) hk hr (by rw [hst]; simp) hlow
        (fun hruns => h.verDirty m hk hr hst hruns)
    | check =>
      simp only
      have ap := anySrc_spec hu (m := m) (by omega) (s.get m).sources s h hk hr hlow (by rw [hst]; simp)
        (fun x hx => hx)
      generalize anySrc (upd p f) true m (s.get m).sources s = r at ap
      obtain ⟨s1, need⟩ := r
      simp only at ap ⊢
      have ab := ap.frame.above m (Nat.le_refl _)
      have cf := Node.core_fields ab.1
      have hk1 : (s1.get m).kind = .memo := by rw [cf.1]; exact hk
      have hr1 : (s1.get m).running = false := by rw [cf.2.2.2.2.2.1]; exact hr
      have fr1 : Frame s s1 (m + 1) := ap.frame.mono (by omega)
      have hobsD : ∀ (s2 : State), Frame s1 s2 (m + 1) →
          (∀ o, s1.obs = some o → (s1.get o).kind = .eff → (s2.get o).dirty = true →
            (s1.get o).dirty = true ∨ ∃ y ∈ (s1.get o).sources, y ≠ m ∧ (s1.get y).ver < (s2.get y).ver) →
          ∀ o, s.obs = some o → (s.get o).kind = .eff → (s2.get o).dirty = true →
            (s.get o).dirty = true ∨ ∃ y ∈ (s.get o).sources, y ≠ m ∧ (s.get y).ver < (s2.get y).ver := by
        intro s2 f12 hob o ho hko hd
        have hsrc1 : (s1.get o).sources = (s.get o).sources :=
          (Node.core_fields (ap.frame.effCore o hko)).2.2.1
        have step1 : (s1.get o).dirty = true → (s.get o).dirty = true ∨
            ∃ y ∈ (s.get o).sources, y ≠ m ∧ (s.get y).ver < (s2.get y).ver := by
          intro hd1
          rcases ap.frame.effD o hko hd1 with h' | ⟨y, hy, hv⟩
          · exact .inl h'
          · refine .inr ⟨y, hy, ?_, Nat.lt_of_lt_of_le hv (f12.verMono y)⟩
            intro hym; subst hym
            rw [cf.2.2.2.2.2.2.2.1] at hv; exact Nat.lt_irrefl _ hv
        rcases hob o (ap.obs.trans ho) ((ap.frame.kind o).trans hko) hd with h' | ⟨y, hy, hym, hv⟩
        · exact step1 h'
        · rw [hsrc1] at hy
          exact .inr ⟨y, hy, hym, Nat.lt_of_le_of_lt (ap.frame.verMono y) hv⟩
      by_cases hn : need = true
      · rw [if_pos hn]
        have hnc : (s1.get m).st ≠ .clean := by
          rcases ab.2 with h' | h'
          · rw [h', hst]; simp
          · rw [h']; simp
        have post := runMemo_spec hp hu ap.inv (by omega) hk1 hr1 hnc
          (fun r hr' => hlow r (by rw [← ap.running]; exact hr')) (ap.just hn)
        generalize runMemo p f s1 m = r2 at post
        exact ⟨post.inv, fr1.trans post.frame, post.obs.trans ap.obs,
          fun i => (post.running i).trans (ap.running i), fun _ => post.clean hk1,
          post.subs.trans cf.2.2.2.1, fun hc => (by rw [← cf.2.2.2.2.2.2.2.1]; exact post.ver hc),
          hobsD r2.1 post.frame post.obsD, ap.valCh.trans post.valCh fr1 post.frame ap.obs,
          ap.runRel.trans post.runRel (fun i hi => (fr1.clean i hi).1) (fun i hi => (post.frame.clean i hi).1),
          fun h => post.ss (ap.ss h), ap.gf.trans post.gf, ap.cr.trans post.cr⟩
      · rw [if_neg hn]
        have hn' : need = false := by simpa using hn
        have ac := ap.allClean hn'
        have post := restamp_spec ap.inv hk1 hr1 ac.2 (fun x hx hkx => by
          rw [cf.2.2.1] at hx
          exact ac.1 x hx (by rw [← ap.frame.kind]; exact hkx))
        generalize (s1.upd m fun n => { n with st := .clean }) = s2 at post
        exact ⟨post.inv, fr1.trans post.frame, post.obs.trans ap.obs,
          fun i => (post.running i).trans (ap.running i), fun _ => post.clean hk1,
          post.subs.trans cf.2.2.2.1, fun hc => (by cases hc), hobsD s2 post.frame post.obsD,
          ap.valCh.trans post.valCh fr1 post.frame ap.obs,
          ap.runRel.trans post.runRel (fun i hi => (fr1.clean i hi).1) (fun i hi => (post.frame.clean i hi).1),
          fun h => post.ss (ap.ss h), ap.gf.trans post.gf, ap.cr.trans post.cr⟩
  · have hk' : ((s.get m).kind != .memo) = true := by
      cases hkk : (s.get m).kind <;> simp_all
    rw [hk']
    simp only [if_true]
    exact UpdPost.refl h (fun h' => absurd h' hk)

theorem upd_ok {p : Prog} (hp : MemoOK p) : ∀ f, UpdOK p (upd p f) f
  | 0 => fun _ _ _ h => by omega
  | f + 1 => upd_step hp (upd_ok hp f)

end Leptos.Reactive
