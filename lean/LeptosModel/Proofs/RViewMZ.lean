import LeptosModel.Proofs.RViewMRerun
import LeptosModel.Proofs.RViewZ
/-!
# Proofs/RViewMZ — the re-run of an effect that lives in a tree held by a zombie (port of `Proofs/RViewZ.lean`)
-/
namespace Leptos.RView
open Leptos.Reactive

/-- result of the zombie pass of `rerun` -/
structure ZResM (K : Nat) (s : St) (zs zs' : List (Nat × Option RState)) (s' : St) : Prop where
  inv : RM K s'
  zomb : s'.zombies = s.zombies ++ newZ s s'
  ext : ExtM K (fun x => x ∈ zEffs (newZ s s')) s s'
  ids : zs'.map (·.1) = zs.map (·.1)
  zok' : ∀ z ∈ zs', ∀ h, z.2 = some h → ZTreeM K s' h
  cnt : ∀ x, x < s.prog.length → (zEffs zs').count x + (zEffs (newZ s s')).count x = (zEffs zs).count x
  fresh : ∀ x, s.prog.length ≤ x →
    (zEffs zs').count x ≤ 1 ∧ (zEffs (newZ s s')).count x = 0 ∧ (x ∈ zEffs zs' → x < s'.prog.length)
  zdead : ∀ z ∈ newZ s s', (s'.rs.get z.1).alive = false
  zok : ∀ z ∈ newZ s s', ∀ h, z.2 = some h → ZTreeM K s' h
  tasks : ∀ x ∈ s'.tasks, x ∈ s.tasks ∨ x ∈ zEffs zs'
  root : s'.root = s.root
  rootN : s'.rootN = s.rootN
  disposed : s'.disposed = s.disposed

theorem ZResM.same {K : Nat} {s : St} {zs : List (Nat × Option RState)} (hi : RM K s)
    (hok : ∀ z ∈ zs, ∀ h, z.2 = some h → ZTreeM K s h) (hu : ∀ x, (zEffs zs).count x ≤ 1)
    (hb : ∀ x ∈ zEffs zs, x < s.prog.length) : ZResM K s zs zs s := by
  refine ⟨hi, by rw [newZ_self]; simp, ?_, rfl, hok, ?_, ?_, ?_, ?_, fun x hx => Or.inl hx, rfl, rfl, rfl⟩
  · rw [newZ_self]; exact ExtM.refl K _ (fun _ h => by simp [zEffs] at h) s
  · intro x _; rw [newZ_self]; simp [zEffs]
  · intro x hx
    rw [newZ_self]
    exact ⟨hu x, by simp [zEffs], fun hm => by have := hb x hm; omega⟩
  · intro z hz; rw [newZ_self] at hz; simp at hz
  · intro z hz; rw [newZ_self] at hz; simp at hz


/-- an untouched entry in front -/
theorem ZResM.cons {K : Nat} {s s' : St} {rest rest' : List (Nat × Option RState)} (h : ZResM K s rest rest' s')
    (zh : Nat × Option RState) (hb : ∀ x ∈ zh.1 :: optEffs zh.2, x < s.prog.length)
    (hok : ∀ t, zh.2 = some t → ZTreeM K s t) : ZResM K s (zh :: rest) (zh :: rest') s' := by
  have hc0 : ∀ x, s.prog.length ≤ x → (zh.1 :: optEffs zh.2).count x = 0 := by
    intro x hx; rw [List.count_eq_zero]; intro hm; have := hb x hm; omega
  refine ⟨h.inv, h.zomb, h.ext, by simp [h.ids], ?_, ?_, ?_, h.zdead, h.zok, ?_, h.root, h.rootN, h.disposed⟩
  · intro z hz t ht
    rcases List.mem_cons.1 hz with hz | hz
    · subst hz; exact (hok t ht).ext h.ext
    · exact h.zok' z hz t ht
  · intro x hx
    have := h.cnt x hx
    rw [zEffs_cons, zEffs_cons]; simp only [List.count_append]; omega
  · intro x hx
    have hf := h.fresh x hx
    have h0 := hc0 x hx
    rw [zEffs_cons]
    refine ⟨by simp only [List.count_append]; omega, hf.2.1, ?_⟩
    intro hm
    rcases List.mem_append.1 hm with hm | hm
    · exact absurd hm (List.count_eq_zero.1 h0)
    · exact hf.2.2 hm
  · intro x hx
    rcases h.tasks x hx with ht | ht
    · exact Or.inl ht
    · exact Or.inr (by rw [zEffs_cons]; simp [ht])

/-- the zombie pass of `rerun` -/
theorem rerunZombies_specM {K : Nat} (e : Nat) (w : Int) : ∀ (zs : List (Nat × Option RState)) (s : St),
    RM K s → (∀ z ∈ zs, ∀ h, z.2 = some h → ZTreeM K s h) → (∀ x, (zEffs zs).count x ≤ 1) →
    (∀ x ∈ zEffs zs, x < s.prog.length) →
    ZResM K s zs (rerunZombies e w zs s).1 (rerunZombies e w zs s).2
  | [], s, hi, hok, hu, hb => ZResM.same hi hok hu hb
  | (z, none) :: rest, s, hi, hok, hu, hb => by
    have ih := rerunZombies_specM e w rest s hi (fun z' hz' => hok z' (List.mem_cons_of_mem _ hz'))
      (zEffs_count_le_tail hu) (fun x hx => hb x (by rw [zEffs_cons']; simp [hx]))
    rw [rerunZombies_none]
    exact ih.cons (z, none) (fun x hx => hb x (by rw [zEffs_cons']; exact List.mem_append.2 (Or.inl hx)))
      (fun t ht => by cases ht)
  | (z, some t) :: rest, s, hi, hok, hu, hb => by
    have hzt : ZTreeM K s t := hok (z, some t) (by simp) t rfl
    have hbt : ∀ x ∈ z :: optEffs (some t), x < s.prog.length := fun x hx =>
      hb x (by rw [zEffs_cons']; exact List.mem_append.2 (Or.inl hx))
    by_cases he : e ∈ effsOf t
    · -- the effect lives in this tree; the other entries cannot contain it
      have hrest : ∀ z' ∈ rest, ∀ h, z'.2 = some h → e ∉ effsOf h := by
        intro z' hz' h hh hm
        have h1 := hu e
        rw [zEffs_cons', List.count_append] at h1
        have h2 : 1 ≤ (z :: optEffs (some t)).count e :=
          List.one_le_count_iff.2 (List.mem_cons_of_mem _ (by simpa [optEffs] using he))
        have h3 : 1 ≤ (zEffs rest).count e := by
          rw [List.one_le_count_iff]
          simp only [zEffs, List.mem_flatMap]
          exact ⟨z', hz', List.mem_cons_of_mem _ (by rw [hh]; simpa [optEffs] using hm)⟩
        omega
      have hndt : (effsOf t).Nodup := by
        rw [List.nodup_iff_count]
        intro x
        have h1 := hu x
        rw [zEffs_cons', List.count_append] at h1
        have : (effsOf t).count x ≤ (z :: optEffs (some t)).count x := by
          simp only [optEffs, List.count_cons]; omega
        omega
      have hr := rerunIn_specM (P := EffWf K) (predM_effWf K) hi (e := e) (w := w) (P0 := EffWf K s)
        (Q0 := ShowMemo K s) (fun _ _ _ _ hp => hp) (fun _ _ hp _ _ => hp) (fun _ _ h => h)
        (viewOf t) t hzt.good hzt.wf hzt.core hndt
      rw [rerunZombies_some, rerunZombies_absent e w rest _ hrest]
      dsimp only
      have hcz : ∀ x, s.prog.length ≤ x → ([z] ++ zEffs rest).count x = 0 := by
        intro x hx; rw [List.count_eq_zero]; intro hm
        have : x ∈ zEffs ((z, some t) :: rest) := by
          rw [zEffs_cons']; simp only [List.mem_append, List.mem_singleton] at hm ⊢
          rcases hm with hm | hm
          · exact Or.inl (by simp [hm])
          · exact Or.inr hm
        have := hb x this; omega
      refine ⟨hr.inv, hr.zomb, hr.ext, rfl, ?_, ?_, ?_, hr.zdead, hr.zok, ?_, hr.root, hr.rootN, hr.disposed⟩
      · intro z' hz' h hh
        rcases List.mem_cons.1 hz' with hz' | hz'
        · subst hz'
          simp only [Option.some.injEq] at hh; subst hh
          have hv := GoodM.viewOf (viewOf t) _ hr.good
          exact ⟨by rw [hv]; exact hr.good, by rw [hv]; exact hzt.wf, by rw [hv]; exact hzt.core⟩
        · exact (hok z' (List.mem_cons_of_mem _ hz') h hh).ext hr.ext
      · intro x hx
        have := hr.cnt x hx
        rw [zEffs_cons', zEffs_cons']; simp only [optEffs, List.count_append, List.count_cons] at this ⊢; omega
      · intro x hx
        have hf := hr.fresh x hx
        have h0 := hcz x hx
        rw [zEffs_cons']
        simp only [optEffs, List.count_append, List.count_cons, List.count_nil] at h0 ⊢
        refine ⟨by omega, hf.2.1, ?_⟩
        intro hm
        simp only [List.mem_append, List.mem_cons] at hm
        rcases hm with (hm | hm) | hm
        · have := hbt x (by simp [hm]); omega
        · exact hf.2.2 hm
        · have := hb x (by rw [zEffs_cons']; exact List.mem_append.2 (Or.inr hm)); omega
      · intro x hx
        rcases hr.tasks x hx with ht | ht
        · exact Or.inl ht
        · exact Or.inr (by rw [zEffs_cons']; simp [optEffs, ht])
    · have ih := rerunZombies_specM e w rest s hi (fun z' hz' => hok z' (List.mem_cons_of_mem _ hz'))
        (zEffs_count_le_tail hu) (fun x hx => hb x (by rw [zEffs_cons']; simp [hx]))
      rw [rerunZombies_some, rerunIn_absent e w t s he]
      dsimp only
      exact ih.cons (z, some t) hbt (fun t' ht' => by cases ht'; exact hzt)

end Leptos.RView
