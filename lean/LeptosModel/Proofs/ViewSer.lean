import LeptosModel.Proofs.ViewAttrs
/-! # Proofs/ViewSer — a represented state serialises to `render v`; sibling subtrees are framed -/
namespace Leptos.View
open Leptos.Dom

-- `R`: how the attribute list of an element relates to the fresh render's (`Eq` for the static
-- fragment, lookup-equality `AttrsEq` where removal and re-insertion change the order)
variable {R : List (String × String) → List (String × String) → Prop}

/-! ## serialisation of a represented state -/

theorem allSome_append {α : Type} : ∀ (l1 l2 : List (Option α)) (a b : List α),
    allSome l1 = some a → allSome l2 = some b → allSome (l1 ++ l2) = some (a ++ b)
  | [], l2, a, b, h1, h2 => by simp [allSome] at h1; subst h1; simpa using h2
  | none :: l1, l2, a, b, h1, _ => by simp [allSome] at h1
  | some x :: l1, l2, a, b, h1, h2 => by
    simp only [allSome, Option.map_eq_some_iff] at h1
    obtain ⟨a', ha', rfl⟩ := h1
    simp [allSome, allSome_append l1 l2 a' b ha' h2]

theorem serListN_append (n : Nat) (d : Dom) (l1 l2 : List Id) (a b : List Tree)
    (h1 : serListN n d l1 = some a) (h2 : serListN n d l2 = some b) :
    serListN n d (l1 ++ l2) = some (a ++ b) := by
  simp only [serListN, List.map_append] at *
  exact allSome_append _ _ a b h1 h2

theorem allSome_map_mono {α β : Type} (f g : α → Option β) :
    ∀ (l : List α) (r : List β), (∀ x ∈ l, ∀ y, f x = some y → g x = some y) →
    allSome (l.map f) = some r → allSome (l.map g) = some r
  | [], r, _, h => by simpa using h
  | x :: l, r, hfg, h => by
    simp only [List.map_cons] at h ⊢
    cases hx : f x with
    | none => simp [hx, allSome] at h
    | some y =>
      simp only [hx, allSome, Option.map_eq_some_iff] at h
      obtain ⟨r', hr', rfl⟩ := h
      have := allSome_map_mono f g l r' (fun z hz => hfg z (by simp [hz])) hr'
      simp [hfg x (by simp) y hx, allSome, this]

/-- more depth budget never hurts -/
theorem serN_mono : ∀ (n : Nat) (d : Dom) (x : Id) (t : Tree), serN n d x = some t →
    serN (n + 1) d x = some t
  | 0, d, x, t, h => by simp [serN] at h
  | n + 1, d, x, t, h => by
    rw [serN] at h ⊢
    cases hg : d.get? x with
    | none => simp [hg] at h
    | some r =>
      simp only [hg] at h ⊢
      cases hk : r.kind with
      | text => simpa [hk] using h
      | comment => simpa [hk] using h
      | elem tag =>
        simp only [hk, Option.map_eq_some_iff] at h ⊢
        obtain ⟨ks, hks, rfl⟩ := h
        exact ⟨ks, allSome_map_mono _ _ r.kids ks (fun y _ t' ht' => serN_mono n d y t' ht') hks, rfl⟩

theorem serN_mono_le (n m : Nat) (d : Dom) (x : Id) (t : Tree) (h : serN n d x = some t)
    (hle : n ≤ m) : serN m d x = some t := by
  induction hle with
  | refl => exact h
  | step _ ih => exact serN_mono _ d x t ih

theorem serListN_mono_le (n m : Nat) (d : Dom) (xs : List Id) (ts : List Tree)
    (h : serListN n d xs = some ts) (hle : n ≤ m) : serListN m d xs = some ts := by
  simp only [serListN] at *
  exact allSome_map_mono _ _ xs ts (fun y _ t' ht' => serN_mono_le n m d y t' ht' hle) h

mutual
/-- nesting depth of the DOM a view renders to -/
def View.depth : View → Nat
  | .text _ => 1
  | .unit => 1
  | .elem _ _ c => c.depth + 1
  | .tuple vs => View.depthList vs
  | .onone => 1
  | .osome v => v.depth
  | .either _ _ v => v.depth
  | .vec vs => View.depthList vs + 1
  | .any _ v => v.depth
def View.depthList : List View → Nat
  | [] => 0
  | v :: vs => max v.depth (View.depthList vs)
end

theorem serListN_single (n : Nat) (d : Dom) (x : Id) (t : Tree) (h : serN n d x = some t) :
    serListN n d [x] = some [t] := by simp [serListN, allSome, h]

theorem serN_leaf {d : Dom} {x : Id} {k : Kind} {s : String} {par : Option Id}
    (h : NodeIs d x k s par) (hk : k = .text ∨ k = .comment) (n : Nat) :
    serN (n + 1) d x = some (match k with | .text => .text s | _ => .comment s) := by
  obtain ⟨r, h1, h2, h3, _⟩ := h
  rcases hk with hk | hk <;> subst hk <;> simp [serN, h1, h2, h3]

mutual
/-- a represented state serialises to `render v` -/
theorem Rep.ser {d : Dom} : ∀ (v : View) (st : State) (par : Option Id), Rep Eq d v st par →
    ∀ n, v.depth ≤ n → serListN n d st.roots = some (render v)
  | .text s, st, par, h, n, hn => by
    cases st <;> simp only [Rep] at h
    simp only [View.depth] at hn
    obtain ⟨m, rfl⟩ : ∃ m, n = m + 1 := ⟨n - 1, by omega⟩
    exact serListN_single _ d _ _ (by simpa using serN_leaf h.2 (Or.inl rfl) m)
  | .unit, st, par, h, n, hn => by
    cases st <;> simp only [Rep] at h
    simp only [View.depth] at hn
    obtain ⟨m, rfl⟩ : ∃ m, n = m + 1 := ⟨n - 1, by omega⟩
    exact serListN_single _ d _ _ (by simpa using serN_leaf h (Or.inr rfl) m)
  | .onone, st, par, h, n, hn => by
    cases st <;> simp only [Rep] at h
    obtain ⟨_, id, rfl, hnode⟩ := h
    simp only [View.depth] at hn
    obtain ⟨m, rfl⟩ : ∃ m, n = m + 1 := ⟨n - 1, by omega⟩
    exact serListN_single _ d _ _ (by simpa using serN_leaf hnode (Or.inr rfl) m)
  | .elem tag as c, st, par, h, n, hn => by
    cases st <;> simp only [Rep] at h
    rename_i id ass cs
    obtain ⟨r, h1, h2, _, h4, _, h6⟩ := h
    simp only [View.depth] at hn
    obtain ⟨m, rfl⟩ : ∃ m, n = m + 1 := ⟨n - 1, by omega⟩
    apply serListN_single
    rw [serN]
    simp only [h1, h2, h4]
    by_cases hv : isVoid tag
    · simp only [hv, if_true] at h6 ⊢
      simp [h6.2, allSome]
    · simp only [hv] at h6 ⊢
      obtain ⟨c', _, hk, hrc⟩ := h6
      have := Rep.ser c c' (some id) hrc m (by omega)
      simp only [serListN] at this
      simp [hk, this]
  | .tuple vs, st, par, h, n, hn => by
    cases st <;> simp only [Rep] at h
    simpa [State.roots, render] using RepList.ser vs _ par h n (by simpa [View.depth] using hn)
  | .osome v, st, par, h, n, hn => by
    cases st <;> simp only [Rep] at h
    simpa [State.roots, render] using Rep.ser v _ par h.2 n (by simpa [View.depth] using hn)
  | .either _ i v, st, par, h, n, hn => by
    cases st <;> simp only [Rep] at h
    simpa [State.roots, render] using Rep.ser v _ par h.2 n (by simpa [View.depth] using hn)
  | .any ty v, st, par, h, n, hn => by
    cases st <;> simp only [Rep] at h
    simpa [State.roots, render] using Rep.ser v _ par h.2 n (by simpa [View.depth] using hn)
  | .vec vs, st, par, h, n, hn => by
    cases st <;> simp only [Rep] at h
    simp only [View.depth] at hn
    obtain ⟨m, rfl⟩ : ∃ m, n = m + 1 := ⟨n - 1, by omega⟩
    simp only [State.roots, render]
    apply serListN_append _ d _ _ _ _ (RepList.ser vs _ par h.1 (m + 1) (by omega))
    exact serListN_single _ d _ _ (by simpa using serN_leaf h.2 (Or.inr rfl) m)
theorem RepList.ser {d : Dom} : ∀ (vs : List View) (sts : List State) (par : Option Id),
    RepList Eq d vs sts par → ∀ n, View.depthList vs ≤ n →
    serListN n d (State.rootsList sts) = some (renderList vs)
  | [], sts, par, h, n, _ => by
    cases sts <;> simp [RepList] at h
    simp [State.rootsList, renderList, serListN, allSome]
  | v :: vs, sts, par, h, n, hn => by
    cases sts with
    | nil => simp [RepList] at h
    | cons s ss =>
      simp only [RepList] at h
      simp only [View.depthList] at hn
      simp only [State.rootsList, renderList]
      exact serListN_append _ d _ _ _ _ (Rep.ser v s par h.1 n (by omega))
        (RepList.ser vs ss par h.2 n (by omega))
end

/-! ## subtrees of the siblings are not touched -/

/-- the node ids `serN n d x` looks at -/
def subIds : Nat → Dom → Id → List Id
  | 0, _, _ => []
  | n + 1, d, x =>
    x :: (match d.get? x with
      | some r => if r.kind.isElem then r.kids.flatMap (subIds n d) else []
      | none => [])

theorem serN_congr : ∀ (n : Nat) (d d' : Dom) (x : Id),
    (∀ y ∈ subIds n d x, d'.get? y = d.get? y) → serN n d' x = serN n d x ∧ subIds n d' x = subIds n d x
  | 0, d, d', x, _ => by simp [serN, subIds]
  | n + 1, d, d', x, h => by
    have hx : d'.get? x = d.get? x := h x (by simp [subIds])
    rw [serN, serN, subIds, subIds, hx]
    cases hg : d.get? x with
    | none => simp
    | some r =>
      simp only
      cases hk : r.kind with
      | text => simp [Kind.isElem]
      | comment => simp [Kind.isElem]
      | elem tag =>
        simp only [Kind.isElem, if_true]
        have hkids : ∀ k ∈ r.kids, serN n d' k = serN n d k ∧ subIds n d' k = subIds n d k := by
          intro k hk'
          apply serN_congr n d d' k
          intro y hy
          apply h y
          simp only [subIds, hg, hk, Kind.isElem, if_true, List.mem_cons, List.mem_flatMap]
          exact Or.inr ⟨k, hk', hy⟩
        have h1 : r.kids.map (serN n d') = r.kids.map (serN n d) :=
          List.map_congr_left (fun k hk' => (hkids k hk').1)
        have h2 : r.kids.flatMap (subIds n d') = r.kids.flatMap (subIds n d) := by
          simp only [List.flatMap]
          congr 1
          exact List.map_congr_left (fun k hk' => (hkids k hk').2)
        simp [h1, h2]

theorem serListN_congr (n : Nat) (d d' : Dom) (xs : List Id)
    (h : ∀ x ∈ xs, ∀ y ∈ subIds n d x, d'.get? y = d.get? y) :
    serListN n d' xs = serListN n d xs := by
  simp only [serListN]
  congr 1
  exact List.map_congr_left (fun x hx => (serN_congr n d d' x (h x hx)).1)

end Leptos.View
