import LeptosModel.Proofs.StreamOooStep
/-! Proofs/StreamOooRun — out-of-order streams from the first render to the end. -/
namespace Leptos.Stream

theorem oooIds_map (l : List PendOoo) : oooIds (l.map Chunk.ooo) = l.map (·.id) := by
  induction l with
  | nil => rfl
  | cons q l ih => simp [oooIds, ih]

theorem oooIds_tailChunk (t : Str) : oooIds (tailChunk t) = [] := by unfold tailChunk; split <;> rfl

/-- the state after `to_html_stream_out_of_order()` satisfies the invariant -/
theorem ORel_start (S : Sem) (prog : List Op) (hw : OooWf prog) (hc : cleanOps prog = true) (done0 : List FId) :
    ORel S prog done0 [] (startStream true done0 prog).b ∧ (startStream true done0 prog).b.pendingOoo = [] := by
  have hids := startStream_ids prog hw done0
  unfold startStream at hids ⊢
  simp only [if_true] at hids ⊢
  obtain ⟨segs, ps, h1, h2, _, h4, h5, h6, h7⟩ := exec_segs hw { done := done0, now := 0 } (Builder.new (some [0])) hc
    ⟨[0], rfl⟩
  have hf := exec_fields { done := done0, now := 0 } _ prog (Builder.new (some [0])) (Nat.le_refl _)
  generalize execOps { done := done0, now := 0 } prog (Builder.new (some [0])) = b at h1 h2 hf hids
  simp only [Builder.new, List.nil_append] at h1 h2 hf
  have hfin : b.finish.chunks = ps.map Chunk.ooo ++ tailChunk (segsStr segs) ∧ b.finish.syncBuf = [] ∧
      b.finish.pending = none ∧ b.finish.pendingOoo = [] := by
    unfold Builder.finish tailChunk
    by_cases hb : b.syncBuf.isEmpty = true
    · have hb' : b.syncBuf = [] := by simpa using hb
      have hs : (segsStr segs).isEmpty = true := by rw [← h1]; exact hb
      simp [hb, hb', h2, hs, hf.1, hf.2]
    · have hs : (segsStr segs).isEmpty = false := by rw [← h1]; simpa using hb
      simp [hb, hs, h2, finishChunks_ooo, h1, hf.1, hf.2]
  have hndIds : (ps.map (·.id)).Nodup := by
    have := hids.2
    rw [hfin.1, oooIds_append, oooIds_map, oooIds_tailChunk, List.append_nil] at this
    exact this
  have hshape : ∀ K ∈ holeIds segs, ∃ j, 1 ≤ j ∧ K = [j] := by
    intro K hK
    have : some K ∈ oooIds b.finish.chunks := by
      rw [hfin.1, oooIds_append, oooIds_map, oooIds_tailChunk, List.append_nil, ← h5]
      exact List.mem_map.2 ⟨K, hK, rfl⟩
    obtain ⟨j, hj, he⟩ := hids.1 _ this
    exact ⟨j, hj, Option.some.inj he⟩
  refine ⟨⟨[], [], segs, ps, ?_⟩, hfin.2.2.2⟩
  refine ⟨rfl, by rw [hfin.2.1]; rfl, hfin.2.2.1, hfin.1, by simp, h4, ?_, by simp [tplIds], ?_, ?_, ?_, ?_, ?_, ?_, ?_⟩
  · simp only [List.append_nil, allIds, List.nil_append]
    exact nodup_of_map_some (by rw [h5]; exact hndIds)
  · intro p hp
    rw [hfin.2.2.2, List.append_nil] at hp
    have : p.id ∈ (holeIds segs).map some := by rw [h5]; exact List.mem_map.2 ⟨p, hp, rfl⟩
    obtain ⟨K, _, he⟩ := List.mem_map.1 this
    exact ⟨h6 p hp, K, he.symm⟩
  · rw [hfin.2.2.2, List.append_nil]; exact hndIds
  · intro I
    rw [hfin.2.2.2]
    simp only [List.append_nil, clientS, List.nil_append]
    constructor
    · intro hI
      have : some I ∈ ps.map (·.id) := by rw [← h5]; exact List.mem_map.2 ⟨I, hI, rfl⟩
      obtain ⟨q, hq, hqI⟩ := List.mem_map.1 this
      exact ⟨q, hq, hqI⟩
    · rintro ⟨q, hq, hqI⟩
      have : some I ∈ (holeIds segs).map some := by rw [h5]; exact List.mem_map.2 ⟨q, hq, hqI⟩
      obtain ⟨K, hK, he⟩ := List.mem_map.1 this
      cases he; exact hK
  · intro done' hd' σ hσ
    rw [hfin.2.2.2, List.append_nil] at hσ
    simp only [List.append_nil, clientS, List.nil_append] at hσ ⊢
    exact h7 S done' hd' σ hσ
  · intro p _ I _; simp [tplIds]
  · intro p hp I hI K hK
    rw [hfin.2.2.2, List.append_nil] at hp
    simp only [List.append_nil, allIds, tplIds, List.nil_append] at hK
    have hIm : I ∈ holeIds segs := by
      have : some I ∈ (holeIds segs).map some := by rw [h5]; exact List.mem_map.2 ⟨p, hp, hI⟩
      obtain ⟨K', hK', he⟩ := List.mem_map.1 this
      cases he; exact hK'
    obtain ⟨i, _, rfl⟩ := hshape I hIm
    obtain ⟨k, _, rfl⟩ := hshape K hK
    rintro ⟨t, ht, he⟩
    have hl : [k].length = ([i] ++ t).length := congrArg List.length he
    simp only [List.length_append, List.length_cons, List.length_nil] at hl
    exact ht (List.length_eq_zero_iff.1 (by omega))
  · intro I hI; simp [contentIds] at hI

/-- a finished stream: what the client shows is the document -/
theorem ORel_done {prog : List Op} {done : List FId} {Y : Str} {b : Builder} (h : ORel finalSem prog done Y b)
    (hc : b.chunks = []) (hp : b.pendingOoo = []) (hb : b.syncBuf = []) : applyScripts Y = oooDocOps prog := by
  obtain ⟨ys, bs, tail, cs, h⟩ := h
  have hcs := chunks_nil_iff (by rw [← h.hC]; exact hc)
  obtain ⟨rfl, htail⟩ := hcs
  have hbs : itemsStr bs = [] := by rw [← h.hB]; exact hb
  have hholeT := holeIds_of_empty htail
  have hno : holeIds (clientS [] (ys ++ bs) ++ tail) = [] := by
    cases hh : holeIds (clientS [] (ys ++ bs) ++ tail) with
    | nil => rfl
    | cons I l =>
      obtain ⟨q, hq, _⟩ := (h.mem I).1 (by rw [hh]; simp)
      rw [hp] at hq; cases hq
  have hY : Y = itemsStr (ys ++ bs) := by rw [itemsStr_append, hbs, List.append_nil]; exact h.hY
  have hdoc : fill (fun _ => none) (clientS [] (ys ++ bs) ++ tail) = oooDocOps prog :=
    h.sem done (fun x hx => hx) (fun _ => none) (by
      intro I fb hg
      have := mem_hole_holeIds hg
      rw [hno] at this; cases this)
  rw [fill_noHoles _ hno, segsStr_append, htail, List.append_nil] at hdoc
  rw [hY, applyScripts_items (ys ++ bs) h.okI ?_ h.ndTpl, hdoc]
  have := h.ndText
  rw [hholeT, List.append_nil] at this
  exact this

structure ORun (S : Sem) (prog : List Op) (r : Run) : Prop where
  rel : ORel S prog r.done (itemsOf r.out) r.b
  alive : r.dead = false
  clean : ∀ o ∈ r.out, o ≠ Poll.panic ∧ o ≠ Poll.stuck
  fin : r.out.getLast? = some Poll.done → r.b.chunks = [] ∧ r.b.pendingOoo = [] ∧ r.b.syncBuf = []

theorem ORun_poll (S : Sem) (prog : List Op) (r : Run) (newly : List FId) (h : ORun S prog r) :
    ORun S prog (r.poll newly) := by
  unfold Run.poll
  simp only [h.alive, Bool.false_eq_true, if_false]
  have hrel : ORel S prog (r.done ++ newly) (itemsOf r.out) r.b := by
    obtain ⟨ys, bs, tail, cs, hi⟩ := h.rel
    exact ⟨ys, bs, tail, cs, hi.weaken (fun x hx => List.mem_append_left _ hx)⟩
  have hp := pollNext_ooo { done := r.done ++ newly, now := r.now + 1 } (done := r.done ++ newly) (fun x hx => hx)
    r.b.fuelFor hrel
  have hns := pollNext_not_stuck { done := r.done ++ newly, now := r.now + 1 } r.b.fuelFor r.b
    (by rw [fuelFor_eq]; omega)
  refine ⟨?_, ?_, ?_, ?_⟩
  · simpa [itemsOf_append] using hp.1
  · simp only [Bool.or_eq_false_iff, beq_eq_false_iff_ne, ne_eq]
    exact ⟨hp.2.1, hns.1⟩
  · intro o ho
    simp only [List.mem_append, List.mem_singleton] at ho
    rcases ho with ho | ho
    · exact h.clean o ho
    · subst ho; exact ⟨hp.2.1, hns.1⟩
  · intro hl
    apply hp.2.2
    simpa [List.getLast?_append] using hl

theorem ORun_polls (S : Sem) (prog : List Op) (sched : List (List FId)) :
    ∀ (r : Run), ORun S prog r → ORun S prog (r.polls sched) := by
  induction sched with
  | nil => intro r h; exact h
  | cons n ns ih => intro r h; exact ih _ (ORun_poll S prog r n h)

theorem ORun_drain (S : Sem) (prog : List Op) : ∀ (k : Nat) (r : Run), ORun S prog r → ORun S prog (r.drain k) := by
  intro k
  induction k with
  | zero => intro r h; exact h
  | succ k ih =>
    intro r h
    unfold Run.drain
    split
    · exact h
    · exact h
    · exact h
    · exact ih _ (ORun_poll S prog r [] h)

theorem ORun_start (S : Sem) (prog : List Op) (hw : OooWf prog) (hc : cleanOps prog = true) (done0 : List FId) :
    ORun S prog (startStream true done0 prog) := by
  have := ORel_start S prog hw hc done0
  refine ⟨by simpa [startStream, itemsOf] using this.1, rfl, by simp [startStream], by simp [startStream]⟩


/-! ### views -/

mutual
def cleanView : View → Bool
  | .raw s => cleanStr s
  | .seq vs => cleanViewL vs
  | .suspend _ v => cleanView v
  | .suspense fb nonce vs => cleanStr fb && nonce.isNone && cleanViewL vs
  | .eb vs => cleanViewL vs
  | .resSuspend _ v => cleanView v
  | .resRead _ _ v => cleanView v
  | .localRead => true
  | .localAwait _ => true
def cleanViewL : List View → Bool
  | [] => true
  | v :: vs => cleanView v && cleanViewL vs
end

theorem cleanOps_append (a b : List Op) : cleanOps (a ++ b) = (cleanOps a && cleanOps b) := by
  induction a with
  | nil => simp [cleanOps]
  | cons o os ih => simp [cleanOps, ih, Bool.and_assoc]

theorem cleanOps_iteTree (gs : List (FId × Bool)) (k : List FId → List Op) (hk : ∀ was, cleanOps (k was) = true) :
    ∀ was, cleanOps (iteTree gs was k) = true := by
  induction gs with
  | nil => intro was; simpa [iteTree] using hk was
  | cons g gs ih =>
    intro was
    obtain ⟨g, once⟩ := g
    simp [iteTree, cleanOps, cleanOp, ih]

theorem compileA_clean (ooo : Bool) : ∀ (n : Nat),
    (∀ (was : List FId) (c : Ctx) (v : View), viewSize v ≤ n → cleanView v = true →
      cleanOps (compileA ooo was c v) = true) ∧
    (∀ (was : List FId) (c : Ctx) (vs : List View), viewSizeL vs ≤ n → cleanViewL vs = true →
      cleanOps (compileAL ooo was c vs) = true) := by
  intro n
  induction n with
  | zero =>
    refine ⟨?_, ?_⟩
    · intro was c v h; cases v <;> simp [viewSize] at h
    · intro was c vs h _
      cases vs with
      | nil => simp [compileAL, cleanOps]
      | cons v vs => cases v <;> simp [viewSizeL, viewSize] at h
  | succ n ih =>
    have hL : ∀ (was : List FId) (c : Ctx) (vs : List View), viewSizeL vs ≤ n + 1 → cleanViewL vs = true →
        (∀ (was : List FId) (c : Ctx) (v : View), viewSize v ≤ n + 1 → cleanView v = true →
          cleanOps (compileA ooo was c v) = true) →
        cleanOps (compileAL ooo was c vs) = true := by
      intro was c vs
      induction vs with
      | nil => intro _ _ _; simp [compileAL, cleanOps]
      | cons v vs ihv =>
        intro h hok hv
        simp only [viewSizeL] at h
        simp only [cleanViewL, Bool.and_eq_true] at hok
        simp [compileAL, cleanOps_append, hv was c v (by omega) hok.1, ihv (by omega) hok.2 hv]
    have hbang : cleanStr ['<', '!', '>'] = true := by decide
    have hV : ∀ (was : List FId) (c : Ctx) (v : View), viewSize v ≤ n + 1 → cleanView v = true →
        cleanOps (compileA ooo was c v) = true := by
      intro was c v h hok
      cases v with
      | raw s => cases c <;> simpa [compileA, cleanOps, cleanOp, cleanView] using hok
      | seq vs =>
        simp only [viewSize] at h
        have := ih.2 was c vs (by omega) (by simpa [cleanView] using hok)
        cases c <;> simpa [compileA] using this
      | suspend f v =>
        simp only [viewSize] at h
        have hv : cleanView v = true := by simpa [cleanView] using hok
        cases c with
        | top =>
          have := ih.1 was .top v (by omega) hv
          cases ooo <;> simp [compileA, cleanOps, cleanOp, this, hbang, cleanNonce]
        | direct => simpa [compileA] using ih.1 was .nested v (by omega) hv
        | nested => simpa [compileA] using ih.1 was .nested v (by omega) hv
      | suspense fb nonce vs =>
        simp only [viewSize] at h
        simp only [cleanView, Bool.and_eq_true] at hok
        have := fun was' => ih.2 was' .direct vs (by omega) hok.2
        by_cases hl : localNowL vs = true
        · cases c <;> simp [compileA, hl, cleanOps, cleanOp, hok.1.1]
        · have hl' : localNowL vs = false := by simpa using hl
          cases hw : localWaitL vs with
          | some f => cases c <;> cases ooo <;> simp [compileA, hl', hw, cleanOps, cleanOp, hok.1.1, cleanNonce, hok.1.2]
          | none =>
            cases c <;> cases ooo <;> simp only [compileA, hl', hw, Bool.false_eq_true, if_false, if_true] <;>
              exact cleanOps_iteTree _ _ (fun was' => by simp [cleanOps, cleanOp, this was', hok.1.1, cleanNonce, hok.1.2]) _
      | eb vs =>
        simp only [viewSize] at h
        have := ih.2 was c vs (by omega) (by simpa [cleanView] using hok)
        cases c <;> simp [compileA, cleanOps, cleanOp, this]
      | resSuspend f v =>
        simp only [viewSize] at h
        have hv : cleanView v = true := by simpa [cleanView] using hok
        cases c with
        | top =>
          have := ih.1 was .top v (by omega) hv
          cases ooo <;> simp [compileA, cleanOps, cleanOp, this, hbang, cleanNonce]
        | direct => simpa [compileA] using ih.1 was .nested v (by omega) hv
        | nested => simpa [compileA] using ih.1 was .nested v (by omega) hv
      | resRead once f v =>
        simp only [viewSize] at h
        have hv : cleanView v = true := by simpa [cleanView] using hok
        cases c with
        | top => simpa [compileA] using ih.1 was .top v (by omega) hv
        | direct =>
          simp only [compileA]
          split
          · exact ih.1 was .direct v (by omega) hv
          · exact ih.1 was .nested v (by omega) hv
        | nested =>
          have := ih.1 was .nested v (by omega) hv
          simp [compileA, cleanOps, cleanOp, this, hbang]
      | localRead => cases c <;> simp [compileA, cleanOps]
      | localAwait f => cases c <;> simp [compileA, cleanOps]
    exact ⟨hV, fun was c vs h hok => hL was c vs h hok hV⟩

theorem compile_clean (ooo : Bool) : ∀ (n : Nat),
    (∀ (c : Ctx) (v : View), viewSize v ≤ n → cleanView v = true → cleanOps (compile ooo c v) = true) ∧
    (∀ (c : Ctx) (vs : List View), viewSizeL vs ≤ n → cleanViewL vs = true → cleanOps (compileL ooo c vs) = true) :=
  fun n => ⟨fun c v h hc => (compileA_clean ooo n).1 [] c v h hc, fun c vs h hc => (compileA_clean ooo n).2 [] c vs h hc⟩

end Leptos.Stream
