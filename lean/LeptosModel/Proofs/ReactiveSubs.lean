import LeptosModel.Proofs.ReactiveEff
/-!
# Proofs/ReactiveSubs — subscriber lists keep their order: new subscribers are appended,
unsubscribing removes without permuting (no invariant needed: holds for every state)
-/
namespace Leptos.Reactive

/-- `l'` is obtained from `l` by deleting some elements (keeping the order of the rest) and then
appending new elements at the end -/
def OrderKept (l l' : List Nat) : Prop := ∃ a b, l' = a ++ b ∧ List.Sublist a l

theorem OrderKept.refl (l : List Nat) : OrderKept l l := ⟨l, [], by simp, List.Sublist.refl l⟩

theorem OrderKept.trans {l l' l'' : List Nat} (h1 : OrderKept l l') (h2 : OrderKept l' l'') :
    OrderKept l l'' := by
  obtain ⟨a, b, rfl, ha⟩ := h1
  obtain ⟨a', b', rfl, ha'⟩ := h2
  obtain ⟨a1, b1, rfl, h1, _⟩ := List.sublist_append_iff.1 ha'
  exact ⟨a1, b1 ++ b', by simp, h1.trans ha⟩

theorem OrderKept.of_eq {l l' : List Nat} (h : l' = l) : OrderKept l l' := h ▸ OrderKept.refl l

/-- every subscriber list of `s'` is order-kept w.r.t. `s` -/
def SubsKept (s s' : State) : Prop := ∀ y, OrderKept (s.get y).subs (s'.get y).subs

theorem SubsKept.refl (s : State) : SubsKept s s := fun _ => OrderKept.refl _
theorem SubsKept.trans {s s' s'' : State} (h1 : SubsKept s s') (h2 : SubsKept s' s'') : SubsKept s s'' :=
  fun y => (h1 y).trans (h2 y)
theorem SubsKept.of_eq {s s' : State} (h : ∀ y, (s'.get y).subs = (s.get y).subs) : SubsKept s s' :=
  fun y => OrderKept.of_eq (h y)

theorem SubsKept.upd (s : State) (i : Nat) (g : Node → Node) (hg : ∀ n, (g n).subs = n.subs) :
    SubsKept s (s.upd i g) := SubsKept.of_eq (fun y => by
  rw [State.get_upd]; split
  · exact hg _
  · rfl)

theorem SubsKept.upd_obs (s : State) (o : Option Nat) (i : Nat) (g : Node → Node)
    (hg : ∀ n, (g n).subs = n.subs) : SubsKept s (({ s with obs := o } : State).upd i g) :=
  SubsKept.of_eq (fun y => by
    rw [State.get_upd]; split
    · exact hg _
    · rfl)

theorem SubsKept.of_markRel {s s' : State} (h : MarkRel s s') : SubsKept s s' := SubsKept.of_eq h.subs

/-! ## the two primitives that touch subscriber lists -/

theorem subscribe_cases (l : List Nat) (x : Nat) : subscribe l x = l ∨ subscribe l x = l ++ [x] := by
  unfold subscribe; split
  · exact .inl rfl
  · exact .inr rfl

theorem upd_subscribe_kept (s : State) (src o : Nat) :
    SubsKept s (s.upd src fun n => { n with subs := subscribe n.subs o }) := by
  intro y
  rw [State.get_upd]
  split
  · rcases subscribe_cases (s.get y).subs o with h | h
    · exact OrderKept.of_eq h
    · exact ⟨(s.get y).subs, [o], h, List.Sublist.refl _⟩
  · exact OrderKept.refl _

/-- `track` (subscription): appends the observer at the end of the source's list, or does nothing -/
theorem track_subsKept (s : State) (src : Nat) : SubsKept s (track s src) := by
  unfold track
  split
  · next o _ =>
    exact (SubsKept.upd s o (fun n => { n with sources := n.sources ++ [src] }) (fun _ => rfl)).trans
      (upd_subscribe_kept _ src o)
  · exact SubsKept.refl s

theorem foldl_erase_subsKept (id : Nat) : ∀ (l : List Nat) (s : State),
    SubsKept s (l.foldl (fun s src => s.upd src fun n => { n with subs := n.subs.erase id }) s)
  | [], s => SubsKept.refl s
  | x :: l, s => by
    rw [List.foldl_cons]
    refine SubsKept.trans ?_ (foldl_erase_subsKept id l _)
    intro y
    rw [State.get_upd]
    split
    · exact ⟨(s.get y).subs.erase id, [], by simp, List.erase_sublist⟩
    · exact OrderKept.refl _

/-- `clearSources` (unsubscription): removes without permuting the rest -/
theorem clearSources_subsKept (s : State) (id : Nat) : SubsKept s (clearSources s id) := by
  unfold clearSources
  exact (foldl_erase_subsKept id _ s).trans (SubsKept.upd _ id _ (fun _ => rfl))

/-! ## everything else leaves the lists alone: the whole model -/

theorem noteRun_subsKept (s : State) (id : Nat) : SubsKept s (noteRun s id) := by
  unfold noteRun
  simp only
  split
  · exact SubsKept.of_eq (fun y => by rw [State.emit_get, State.get_upd]; split <;> rfl)
  · exact SubsKept.of_eq (fun y => by rw [State.emit_get, State.get_upd]; split <;> rfl)

theorem setSignal_subsKept (f : Nat) (s : State) (x : Nat) (v : Int) : SubsKept s (setSignal f s x v) := by
  unfold setSignal sigNotify
  refine SubsKept.trans (s' := (s.upd x fun n => { n with val := some v, ver := n.ver + 1 }).emit (.set x)) ?_ ?_
  · exact SubsKept.of_eq (fun y => by rw [State.emit_get, State.get_upd]; split <;> rfl)
  · exact SubsKept.of_markRel (foldl_markRel _ (fun s y => markDirty_rel f s y) _ _)

theorem anySrc_subsKept (u : State → Nat → State × Bool) (hu : ∀ s x, SubsKept s (u s x).1)
    (recheck : Bool) (self : Nat) : ∀ (l : List Nat) (s : State), SubsKept s (anySrc u recheck self l s).1
  | [], s => SubsKept.refl s
  | x :: l, s => by
    unfold anySrc
    have h1 := hu s x
    generalize u s x = r at h1
    obtain ⟨s1, ch⟩ := r
    simp only
    split
    · exact h1
    · exact h1.trans (anySrc_subsKept u hu recheck self l s1)

theorem readNode_subsKept (u : State → Nat → State × Bool) (hu : ∀ s x, SubsKept s (u s x).1)
    (s : State) (id : Nat) : SubsKept s (readNode u s id).1 := by
  unfold readNode
  have ht := track_subsKept s id
  generalize track s id = s1 at ht
  simp only
  split
  · exact ht
  · exact ht.trans (hu s1 id)
  · exact ht

theorem evalE_subsKept (rdN : State → Nat → State × Int) (wrN : State → Nat → Int → State)
    (hr : ∀ s x, SubsKept s (rdN s x).1) (hw : ∀ s x v, SubsKept s (wrN s x v)) (self : Nat) :
    ∀ (e : Expr) (s : State), SubsKept s (evalE rdN wrN self e s).1
  | .lit _, s => SubsKept.refl s
  | .rd tracked x, s => by
    simp only [evalE]
    split
    · have h1 := hr s x
      generalize rdN s x = r at h1
      obtain ⟨s1, v⟩ := r
      exact h1.trans (SubsKept.of_eq (fun y => by
        simp only [State.emit_get]; rw [State.get_upd]; split <;> rfl))
    · have h1 := hr { s with obs := none } x
      generalize rdN { s with obs := none } x = r at h1
      obtain ⟨s1, v⟩ := r
      exact fun y => h1 y
  | .add a b, s => by
    simp only [evalE]
    exact (evalE_subsKept rdN wrN hr hw self a s).trans (evalE_subsKept rdN wrN hr hw self b _)
  | .mulc _ a, s => by
    simp only [evalE]
    exact evalE_subsKept rdN wrN hr hw self a s
  | .ite c t e, s => by
    simp only [evalE]
    split
    · exact (evalE_subsKept rdN wrN hr hw self c s).trans (evalE_subsKept rdN wrN hr hw self t _)
    · exact (evalE_subsKept rdN wrN hr hw self c s).trans (evalE_subsKept rdN wrN hr hw self e _)
  | .seq a b, s => by
    simp only [evalE]
    exact (evalE_subsKept rdN wrN hr hw self a s).trans (evalE_subsKept rdN wrN hr hw self b _)
  | .wr x a, s => by
    simp only [evalE]
    exact (evalE_subsKept rdN wrN hr hw self a s).trans (hw _ x _)

theorem startRun_subsKept (s : State) (id : Nat) : SubsKept s (startRun s id) := by
  unfold startRun
  have h1 : SubsKept s (s.upd id fun n => { n with val := none }) := SubsKept.upd _ _ _ (fun _ => rfl)
  have h2 := clearSources_subsKept (s.upd id fun n => { n with val := none }) id
  have h3 := noteRun_subsKept (clearSources (s.upd id fun n => { n with val := none }) id) id
  exact fun y => ((h1.trans h2).trans h3) y

theorem finishRun_subsKept (f : Nat) (s : State) (id : Nat) (old : Option Int) (saved : Option Nat)
    (v : Int) : SubsKept s (finishRun f s id old saved v).1 := by
  have hst : SubsKept s (storeVal s id old saved v) := by
    unfold storeVal
    exact SubsKept.upd_obs s saved id _ (fun _ => rfl)
  unfold finishRun
  split
  · refine hst.trans ?_
    refine (SubsKept.of_eq (s' := (storeVal s id old saved v).emit (.changed id)) (fun _ => rfl)).trans ?_
    apply SubsKept.of_markRel
    unfold notifySubs
    apply foldl_markRel
    intro s' x
    split
    · exact MarkRel.refl s'
    · exact markDirty_rel _ s' x
  · exact hst

theorem upd_subsKept (p : Prog) : ∀ (f : Nat) (s : State) (id : Nat), SubsKept s (upd p f s id).1
  | 0, s, _ => SubsKept.refl s
  | f + 1, s, id => by
    have ih : ∀ s x, SubsKept s (upd p f s x).1 := fun s x => upd_subsKept p f s x
    have hrun : ∀ s1, SubsKept s1 (runMemo p f s1 id).1 := by
      intro s1
      rw [runMemo_eq]
      have h1 := startRun_subsKept s1 id
      have h2 := evalE_subsKept (readNode (upd p f)) (fun s _ _ => s)
        (fun s x => readNode_subsKept _ ih s x) (fun s _ _ => SubsKept.refl s) id (bodyOf p id)
        (startRun s1 id)
      exact (h1.trans h2).trans (finishRun_subsKept _ _ _ _ _ _)
    have hstamp : ∀ s1 : State, SubsKept s1 (s1.upd id fun n => { n with st := .clean }) :=
      fun s1 => SubsKept.upd s1 id _ (fun _ => rfl)
    rw [upd_succ]
    split
    · exact SubsKept.refl s
    · cases hst : (s.get id).st with
      | clean => simp only [Bool.false_eq_true, if_false]; exact hstamp s
      | dirty => simp only [if_true]; exact hrun s
      | check =>
        simp only
        have h1 := anySrc_subsKept (upd p f) ih true id (s.get id).sources s
        generalize anySrc (upd p f) true id (s.get id).sources s = r at h1
        obtain ⟨s1, need⟩ := r
        simp only at h1 ⊢
        split
        · exact h1.trans (hrun s1)
        · exact h1.trans (hstamp s1)

theorem effUpdate_subsKept (p : Prog) (f : Nat) (s : State) (id : Nat) :
    SubsKept s (effUpdate p f s id).1 := by
  unfold effUpdate
  split
  · exact SubsKept.upd _ _ _ (fun _ => rfl)
  · have h1 := anySrc_subsKept (upd p f) (fun s x => upd_subsKept p f s x) false id (s.get id).sources
      { s with obs := none }
    generalize anySrc (upd p f) false id (s.get id).sources { s with obs := none } = r at h1
    obtain ⟨s2, any⟩ := r
    simp only at h1 ⊢
    have h12 : SubsKept s s2 := fun y => h1 y
    exact h12.trans (SubsKept.upd_obs s2 s.obs id _ (fun _ => rfl))

theorem effRun_subsKept (p : Prog) (f : Nat) (s : State) (e : Nat) (saved : Option Nat) :
    SubsKept s (effRun p f s e saved) := by
  unfold effRun
  have h1 : SubsKept s (s.upd e fun n => { n with first := false }) := SubsKept.upd _ _ _ (fun _ => rfl)
  have h2 := clearSources_subsKept (s.upd e fun n => { n with first := false }) e
  simp only
  generalize clearSources (s.upd e fun n => { n with first := false }) e = s2 at h2
  have h3 := noteRun_subsKept s2 e
  generalize noteRun s2 e = s3 at h3
  have h4 := evalE_subsKept (readNode (upd p f)) (setSignal f)
    (fun s x => readNode_subsKept _ (fun s x => upd_subsKept p f s x) s x)
    (fun s x v => setSignal_subsKept f s x v) e (bodyOf p e) { s3 with obs := some e }
  generalize evalE (readNode (upd p f)) (setSignal f) e (bodyOf p e) { s3 with obs := some e } = r at h4
  obtain ⟨s5, v⟩ := r
  simp only at h4 ⊢
  have h35 : SubsKept s3 s5 := fun y => h4 y
  refine (((h1.trans h2).trans h3).trans h35).trans ?_
  exact SubsKept.upd_obs s5 saved e _ (fun _ => rfl)

theorem effLoop_subsKept (p : Prog) (f : Nat) (e : Nat) : ∀ (k : Nat) (s : State),
    SubsKept s (effLoop p f k s e)
  | 0, s => SubsKept.refl s
  | k + 1, s => by
    rw [effLoop_succ]
    split
    · exact SubsKept.refl s
    · have h1 : SubsKept s (s.upd e fun n => { n with chan := false }) := SubsKept.upd _ _ _ (fun _ => rfl)
      simp only
      generalize (s.upd e fun n => { n with chan := false }) = s1 at h1
      split
      · exact h1.trans (effLoop_subsKept p f e k s1)
      · have h2 := effUpdate_subsKept p f { s1 with obs := some e } e
        generalize effUpdate p f { s1 with obs := some e } e = r at h2
        obtain ⟨s2, need⟩ := r
        simp only at h2 ⊢
        have h12 : SubsKept s1 ({ s2 with obs := s1.obs } : State) := fun y => h2 y
        split
        · exact ((h1.trans h12).trans (effRun_subsKept p f _ e _)).trans (effLoop_subsKept p f e k _)
        · exact (h1.trans h12).trans (effLoop_subsKept p f e k _)

theorem pollEff_subsKept (p : Prog) (s : State) (e : Nat) : SubsKept s (pollEff p s e) := by
  unfold pollEff
  have h1 : SubsKept s (s.upd e fun n => { n with woken := false }) := SubsKept.upd _ _ _ (fun _ => rfl)
  simp only
  split
  · exact h1.trans (SubsKept.upd _ _ _ (fun _ => rfl))
  · exact h1.trans (effLoop_subsKept p (fuelFor p) e 64 _)

theorem pollNth_subsKept (p : Prog) (s : State) (i : Nat) : SubsKept s (pollNth p s i) := by
  unfold pollNth
  simp only
  split
  · exact SubsKept.refl s
  · exact pollEff_subsKept p s _

theorem runIdle_subsKept (p : Prog) : ∀ (k : Nat) (s : State), SubsKept s (runIdle p k s)
  | 0, s => SubsKept.refl s
  | k + 1, s => by
    unfold runIdle
    split
    · exact SubsKept.refl s
    · exact (pollNth_subsKept p s 0).trans (runIdle_subsKept p k _)

/-- **every operation keeps the order of every subscriber list**: old subscribers that remain keep
their relative order, new subscribers are appended at the end -/
theorem step_subsKept (p : Prog) (s : State) (o : Op) : SubsKept s (step p s o).1 := by
  cases o with
  | set id v =>
    simp only [step]
    split
    · exact setSignal_subsKept _ s id v
    · exact SubsKept.refl s
  | read id =>
    simp only [step]
    exact readNode_subsKept _ (fun s x => upd_subsKept p _ s x) s id
  | poll i => exact pollNth_subsKept p s i
  | idle => exact runIdle_subsKept p 256 s
  | pause e =>
    simp only [step]
    split
    · exact SubsKept.upd _ _ _ (fun _ => rfl)
    · exact SubsKept.refl s
  | resume e =>
    simp only [step]
    split
    · exact SubsKept.upd _ _ _ (fun _ => rfl)
    · exact SubsKept.refl s
  | dispose e =>
    simp only [step]
    split
    · split
      · exact fun y => (SubsKept.upd s e (fun n => { n with alive := false, woken := true }) (fun _ => rfl)) y
      · exact SubsKept.upd _ _ _ (fun _ => rfl)
    · exact SubsKept.refl s

end Leptos.Reactive
