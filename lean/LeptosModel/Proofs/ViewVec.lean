import LeptosModel.Proofs.ViewSteps
/-! # Proofs/ViewVec — the three moves of `Vec::rebuild`: fill from empty, clear, add one item -/
namespace Leptos.View
open Leptos.Dom

-- `R`: how the attribute list of an element relates to the fresh render's (`Eq` for the static
-- fragment, lookup-equality `AttrsEq` where removal and re-insertion change the order)
variable {R : List (String × String) → List (String × String) → Prop}

/-- `Vec::rebuild` mounting freshly built items one after the other before the marker -/
theorem mountBeforeEach_eq (ss : List State) : ∀ (d : Dom) (p mk : Id) (rp rm : NodeRec)
    (l1 l2 : List Id),
    d.get? p = some rp → rp.kind.isElem = true → rp.kids = l1 ++ mk :: l2 → mk ∉ l1 →
    d.get? mk = some rm → rm.parent = some p → mk ≠ p →
    (State.rootsList ss).Nodup →
    (∀ r ∈ State.rootsList ss, ∃ rr, d.get? r = some rr ∧ rr.parent = none) →
    p ∉ State.rootsList ss → mk ∉ State.rootsList ss →
    (∀ r ∈ State.rootsList ss, r ∉ l1 ∧ r ∉ l2) →
    mountBeforeEach ss mk d = insertAll d p (some mk) (State.rootsList ss) := by
  induction ss with
  | nil => intros; simp [mountBeforeEach, State.rootsList, insertAll]
  | cons s ss ih =>
    intro d p mk rp rm l1 l2 hp hpe hk hmk1 hm hmp hmkp hnd hfree hpn hmkn hdisj
    simp only [State.rootsList] at hnd hfree hpn hmkn hdisj
    obtain ⟨hnd1, hnd2, hnd3⟩ := nodup_app hnd
    have hgp : d.getParent mk = some p := getParent_of hm hmp
    have hmb : mountBefore s mk d = insertAll d p (some mk) s.roots := by
      simp [mountBefore, hgp, isElement_of hp hpe, mount_eq]
    have hspec := insertAll_spec s.roots d p (some mk) rp l1 (mk :: l2) hp hpe hk
      ⟨l2, rfl, hmk1, hgp⟩ hnd1 (fun r hr => hfree r (by simp [hr]))
      (fun hm' => hpn (by simp [hm']))
      (by
        intro r hr
        refine ⟨(hdisj r (by simp [hr])).1, ?_⟩
        intro hm'; simp at hm'
        rcases hm' with hm' | hm'
        · exact hmkn (by simp [← hm', hr])
        · exact (hdisj r (by simp [hr])).2 hm')
    obtain ⟨⟨rp', hp', he', hk'⟩, _, hoth, _⟩ := hspec
    simp only [mountBeforeEach, State.rootsList, insertAll_append, hmb]
    have hmks : mk ∉ s.roots := fun h => hmkn (by simp [h])
    apply ih (insertAll d p (some mk) s.roots) p mk rp' rm (l1 ++ s.roots) l2 hp'
      (by rw [he'.1]; exact hpe) (by rw [hk'])
      (by simp [hmk1, hmks])
      (by rw [hoth mk hmkp hmks]; exact hm) hmp hmkp hnd2
    · intro r hr
      obtain ⟨rr, h1, h2⟩ := hfree r (by simp [hr])
      refine ⟨rr, ?_, h2⟩
      rw [hoth r (fun e => hpn (by simp [← e, hr])) (fun h => hnd3 r h hr)]; exact h1
    · exact fun h => hpn (by simp [h])
    · exact fun h => hmkn (by simp [h])
    · intro r hr
      have := hdisj r (by simp [hr])
      refine ⟨?_, this.2⟩
      simp [this.1]; exact fun h => hnd3 r h hr


/-- `Vec::rebuild` unmounting all (remaining) items: only the marker stays -/
theorem vec_clear_spec (as : List View) (sts : List State) (mk : Id) (d : Dom) (p : Id)
    (pre post : List Id)
    (hrep : RepList R d as sts (some p)) (hmk : NodeIs d mk .comment "" (some p))
    (hinv : Inv d (State.rootsList sts ++ [mk]) (ownedList sts ++ [mk]) p pre post) :
    NodeIs (unmountList sts d) mk .comment "" (some p) ∧
    Res d (unmountList sts d) (ownedList sts ++ [mk]) ([] ++ [mk]) ([] ++ [mk]) p pre post := by
  obtain ⟨rp, hp, hpe, hk⟩ := hinv.par
  obtain ⟨rn1, _, rn3⟩ := nodup_app hinv.rnodup
  have hroots := RepList.roots_parent as sts (some p) hrep
  have hsub : ∀ x, x ∈ State.rootsList sts → x ∈ ownedList sts ++ [mk] :=
    fun x hx => hinv.sub x (by simp [hx])
  have hspec := removeAll_spec (State.rootsList sts) d p rp pre (mk :: post) hp
    (by rw [hk]; simp) rn1 hroots (fun hm => hinv.pnot (hsub p hm))
    (by
      intro r hr
      refine ⟨fun hm => hinv.sib r (by simp [hm]) (hsub r hr), ?_⟩
      intro hm; simp at hm
      rcases hm with hm | hm
      · exact rn3 r hr (by simp [hm])
      · exact hinv.sib r (by simp [hm]) (hsub r hr))
  obtain ⟨⟨rp', hp', he', hk'⟩, hoth, hnx⟩ := hspec
  rw [unmountList_eq]
  have hmko : mk ∈ ownedList sts ++ [mk] := by simp
  have hmkp : mk ≠ p := fun e => hinv.pnot (e ▸ hmko)
  have hmkr : mk ∉ State.rootsList sts := fun h => rn3 mk h (by simp)
  refine ⟨hmk.congr (hoth mk hmkp hmkr), ⟨⟨?_, by simp, by simp, by simp, ?_, ?_, ?_, ?_, ?_⟩, ?_, ?_, ?_, ?_⟩⟩
  · exact ⟨rp', hp', by rw [he'.1]; exact hpe, by rw [hk']; simp⟩
  · simp; exact hmkp.symm
  · intro x hx hm; simp at hm; subst hm; exact hinv.sib x hx hmko
  · intro x hx; simp at hx; subst hx; rw [hnx]; exact hinv.lt x hmko
  · rw [hnx]; exact hinv.plt
  · intro x hx; rw [hnx]; exact hinv.siblt x hx
  · rw [hnx]; exact Nat.le_refl _
  · intro x _ hxo hxp
    exact hoth x hxp (fun hm => hxo (hsub x hm))
  · intro rp0 hrp0; rw [hp] at hrp0; cases hrp0; exact ⟨rp', hp', he'⟩
  · intro x hx; simp at hx; subst hx; exact Or.inl hmko

/-- `Vec::rebuild` adding one item: build it and mount it before the marker -/
theorem vec_add_spec (b : View) (mk : Id) (d : Dom) (p : Id) (pre post : List Id)
    (hb : AllEl (AttrsFresh R) b) (hmk : NodeIs d mk .comment "" (some p))
    (hinv : Inv d ([] ++ [mk]) ([] ++ [mk]) p pre post) :
    Rep R (mountBefore (build b d).2 mk (build b d).1) b (build b d).2 (some p) ∧
    Res d (mountBefore (build b d).2 mk (build b d).1) [] (build b d).2.roots (owned (build b d).2)
      p pre ([mk] ++ post) := by
  have hB := build_spec b d hb
  generalize build b d = bd at hB ⊢
  obtain ⟨d1, ns⟩ := bd
  dsimp only at hB ⊢
  obtain ⟨rp, hp, hpe, hk⟩ := hinv.par
  obtain ⟨rm, hm, _, _, hmp⟩ := hmk
  have hmko : mk ∈ ([] : List Id) ++ [mk] := by simp
  have hmkp : mk ≠ p := fun e => hinv.pnot (e ▸ hmko)
  have hmklt := hinv.lt mk hmko
  have hplt := hinv.plt
  have hp1 : d1.get? p = some rp := by rw [hB.frame p hplt]; exact hp
  have hm1 : d1.get? mk = some rm := by rw [hB.frame mk hmklt]; exact hm
  have hnsge : ∀ x, x ∈ owned ns → d.next ≤ x := fun x hx => (hB.range x hx).1
  have hmb : mountBefore ns mk d1 = insertAll d1 p (some mk) ns.roots := by
    simp [mountBefore, getParent_of hm1 hmp, isElement_of hp1 hpe, mount_eq]
  have hspec := insertAll_spec ns.roots d1 p (some mk) rp pre (mk :: post) hp1 hpe
    (by rw [hk]; simp)
    ⟨post, rfl, fun h => hinv.sib mk (by simp [h]) hmko, getParent_of hm1 hmp⟩
    (roots_nodup hB.nodup) (Rep.roots_parent b ns none hB.rep)
    (by intro h; have := hnsge p (roots_sub_owned ns p h); omega_nat)
    (by
      intro r hr
      have hge := hnsge r (roots_sub_owned ns r hr)
      refine ⟨fun h => ?_, fun h => ?_⟩
      · have := hinv.siblt r (by simp [h]); omega_nat
      · simp at h
        rcases h with h | h
        · subst h; omega_nat
        · have := hinv.siblt r (by simp [h]); omega_nat)
  obtain ⟨⟨rp', hp', he', hk'⟩, hkids, hoth, hnx⟩ := hspec
  rw [hmb]
  have hnl := hB.next_le
  refine ⟨?_, ⟨⟨?_, roots_sub_owned ns, hB.nodup, roots_nodup hB.nodup, ?_, ?_, ?_, ?_, ?_⟩, ?_, ?_, ?_, ?_⟩⟩
  · apply Rep.reparent b ns none (some p) hB.nodup ?_ hkids hB.rep
    intro x hx hxr
    apply hoth x ?_ hxr
    intro e; subst e; have := hnsge _ hx; omega_nat
  · exact ⟨rp', hp', by rw [he'.1]; exact hpe, by rw [hk']; simp⟩
  · intro h; have := hnsge p h; omega_nat
  · intro x hx h
    have := hnsge x h
    simp at hx
    rcases hx with hx | hx | hx
    · have := hinv.siblt x (by simp [hx]); omega_nat
    · subst hx; omega_nat
    · have := hinv.siblt x (by simp [hx]); omega_nat
  · intro x hx; rw [hnx]; exact (hB.range x hx).2
  · rw [hnx]; omega_nat
  · intro x hx
    rw [hnx]
    simp at hx
    rcases hx with hx | hx | hx
    · have := hinv.siblt x (by simp [hx]); omega_nat
    · subst hx; omega_nat
    · have := hinv.siblt x (by simp [hx]); omega_nat
  · rw [hnx]; exact hnl
  · intro x hx _ hxp
    rw [hoth x hxp ?_, hB.frame x hx]
    intro h; have := hnsge x (roots_sub_owned ns x h); omega_nat
  · intro rp0 hrp0; rw [hp] at hrp0; cases hrp0; exact ⟨rp', hp', he'⟩
  · intro x hx; exact Or.inr (hnsge x hx)


/-- `Vec::rebuild` from an empty list: build everything, mount each item before the marker -/
theorem vec_fill_spec (bs : List View) (mk : Id) (d : Dom) (p : Id) (pre post : List Id)
    (hb : AllElList (AttrsFresh R) bs) (hmk : NodeIs d mk .comment "" (some p))
    (hinv : Inv d ([] ++ [mk]) ([] ++ [mk]) p pre post) :
    RepList R (mountBeforeEach (buildList bs (d.create .comment "").1).2 mk
        (buildList bs (d.create .comment "").1).1) bs (buildList bs (d.create .comment "").1).2 (some p) ∧
    NodeIs (mountBeforeEach (buildList bs (d.create .comment "").1).2 mk
        (buildList bs (d.create .comment "").1).1) mk .comment "" (some p) ∧
    Res d (mountBeforeEach (buildList bs (d.create .comment "").1).2 mk
        (buildList bs (d.create .comment "").1).1) ([] ++ [mk])
      (State.rootsList (buildList bs (d.create .comment "").1).2 ++ [mk])
      (ownedList (buildList bs (d.create .comment "").1).2 ++ [mk]) p pre post := by
  have hfr0 := frame_create d .comment ""
  have hnx0 : (d.create .comment "").1.next = d.next + 1 := rfl
  generalize (d.create .comment "").1 = d1 at *
  have hB := buildList_spec bs d1 hb
  generalize buildList bs d1 = bd at hB ⊢
  obtain ⟨d2, new⟩ := bd
  dsimp only at hB ⊢
  obtain ⟨rp, hp, hpe, hk⟩ := hinv.par
  obtain ⟨rm, hm, hmkind, hmdata, hmp⟩ := hmk
  have hmko : mk ∈ ([] : List Id) ++ [mk] := by simp
  have hmkp : mk ≠ p := fun e => hinv.pnot (e ▸ hmko)
  have hmklt := hinv.lt mk hmko
  have hplt := hinv.plt
  have hfr : ∀ x, x < d.next → d2.get? x = d.get? x := by
    intro x hx; rw [hB.frame x (by omega_nat), hfr0 x hx]
  have hp2 : d2.get? p = some rp := by rw [hfr p hplt]; exact hp
  have hm2 : d2.get? mk = some rm := by rw [hfr mk hmklt]; exact hm
  have hrange : ∀ x, x ∈ ownedList new → d.next < x ∧ x < d2.next := by
    intro x hx; have := hB.range x (by simpa [owned] using hx); omega_nat
  have hrsub : ∀ x, x ∈ State.rootsList new → x ∈ ownedList new := rootsList_sub_ownedList new
  have hnd : (ownedList new).Nodup := by simpa [owned] using hB.nodup
  have hrnd : (State.rootsList new).Nodup := (rootsList_sublist_ownedList new).nodup hnd
  have hrep : RepList R d2 bs new none := by simpa only [Rep] using hB.rep
  have hroots := RepList.roots_parent bs new none hrep
  have hpn : p ∉ State.rootsList new := fun h => by have := hrange p (hrsub p h); omega_nat
  have hmkn : mk ∉ State.rootsList new := fun h => by have := hrange mk (hrsub mk h); omega_nat
  have hdisj : ∀ r ∈ State.rootsList new, r ∉ pre ∧ r ∉ post := by
    intro r hr
    have := hrange r (hrsub r hr)
    exact ⟨fun h => by have := hinv.siblt r (by simp [h]); omega_nat,
      fun h => by have := hinv.siblt r (by simp [h]); omega_nat⟩
  have hmkpre : mk ∉ pre := fun h => hinv.sib mk (by simp [h]) hmko
  have hk2 : rp.kids = pre ++ mk :: post := by rw [hk]; simp
  rw [mountBeforeEach_eq new d2 p mk rp rm pre post hp2 hpe hk2 hmkpre hm2 hmp hmkp hrnd hroots hpn
    hmkn hdisj]
  have hspec := insertAll_spec (State.rootsList new) d2 p (some mk) rp pre (mk :: post) hp2 hpe hk2
    ⟨post, rfl, hmkpre, getParent_of hm2 hmp⟩ hrnd hroots hpn
    (by
      intro r hr
      refine ⟨(hdisj r hr).1, fun h => ?_⟩
      simp at h
      rcases h with h | h
      · exact hmkn (h ▸ hr)
      · exact (hdisj r hr).2 h)
  obtain ⟨⟨rp', hp', he', hk'⟩, hkids, hoth, hnx⟩ := hspec
  have hnl := hB.next_le
  have hmk3 : (insertAll d2 p (some mk) (State.rootsList new)).get? mk = some rm := by
    rw [hoth mk hmkp hmkn]; exact hm2
  refine ⟨?_, ⟨rm, hmk3, hmkind, hmdata, hmp⟩, ⟨⟨?_, ?_, ?_, ?_, ?_, ?_, ?_, ?_, ?_⟩, ?_, ?_, ?_, ?_⟩⟩
  · apply RepList.reparent bs new none (some p) hnd ?_ hkids hrep
    intro x hx hxr
    apply hoth x ?_ hxr
    intro e; subst e; have := hrange _ hx; omega_nat
  · exact ⟨rp', hp', by rw [he'.1]; exact hpe, by rw [hk']; simp⟩
  · intro x hx; simp at hx ⊢
    rcases hx with hx | hx
    · exact Or.inl (hrsub x hx)
    · exact Or.inr hx
  · rw [List.nodup_append]
    refine ⟨hnd, by simp, ?_⟩
    intro a ha b hb' e; simp at hb'; subst hb'; subst e
    have := hrange a ha; omega_nat
  · rw [List.nodup_append]
    refine ⟨hrnd, by simp, ?_⟩
    intro a ha b hb' e; simp at hb'; subst hb'; subst e
    exact hmkn ha
  · intro h; simp at h
    rcases h with h | h
    · have := hrange p h; omega_nat
    · exact hmkp h.symm
  · intro x hx h; simp at h
    rcases h with h | h
    · have := hrange x h; have := hinv.siblt x hx; omega_nat
    · subst h; exact hinv.sib x hx hmko
  · intro x hx; rw [hnx]; simp at hx
    rcases hx with hx | hx
    · exact (hrange x hx).2
    · subst hx; omega_nat
  · rw [hnx]; omega_nat
  · intro x hx; rw [hnx]; have := hinv.siblt x hx; omega_nat
  · rw [hnx]; omega_nat
  · intro x hx _ hxp
    rw [hoth x hxp ?_, hfr x hx]
    intro h; have := hrange x (hrsub x h); omega_nat
  · intro rp0 hrp0; rw [hp] at hrp0; cases hrp0; exact ⟨rp', hp', he'⟩
  · intro x hx; simp at hx
    rcases hx with hx | hx
    · exact Or.inr (by have := hrange x hx; omega_nat)
    · subst hx; exact Or.inl hmko

end Leptos.View
