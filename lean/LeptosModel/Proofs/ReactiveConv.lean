import LeptosModel.Proofs.ReactiveReach
/-!
# Proofs/ReactiveConv — effects converge: at idle every read-only effect has seen current values (C02)
-/
namespace Leptos.Reactive

variable {D : Nat → Prop}

/-! ## `setSignal` and the effect flags -/

theorem setSignal_flag (f : Nat) (s : State) (x : Nat) (v : Int) : FlagRel s (setSignal f s x v) := by
  unfold setSignal sigNotify
  have h1 : FlagRel s ((s.upd x fun n => { n with val := some v, ver := n.ver + 1 }).emit (.set x)) := by
    apply FlagRel.of_same
    intro i
    rw [State.emit_get, State.get_upd]; split <;> exact ⟨rfl, rfl, rfl⟩
  exact h1.trans (foldl_flagRel _ (fun s y => markDirty_flag f s y) _ _)

theorem setSignal_closedE {p : Prog} {s : State} (h : InvR p s) (f : Nat) (hf : s.nodes.length ≤ f)
    (x : Nat) (v : Int) :
    NewClosedE s (setSignal f s x v) ∧
    ∀ w ∈ (s.get x).subs, (s.get w).kind = .eff → (s.get w).alive = true →
      ((setSignal f s x v).get w).dirty = true := by
  unfold setSignal sigNotify
  have pre := setSignal_pre s x v
  simp only at pre
  generalize hs1 : ((s.upd x fun n => { n with val := some v, ver := n.ver + 1 }).emit (.set x)) = s1 at pre
  have hinc1 : SubsInc s1 := fun a w hw => h.subsInc a w (by rw [← (pre a).2.2.1]; exact hw)
  have hlen1 : s1.nodes.length ≤ f := by subst hs1; simpa using hf
  have hfold := foldl_markDE f (s1.get x).subs s1 hinc1 hlen1
  generalize (s1.get x).subs.foldl (fun s x => markDirty f s x) s1 = s' at hfold
  refine ⟨?_, ?_⟩
  · intro a w hka hca hnc hw hkw ha
    exact hfold.1 a w (by rw [(pre a).1]; exact hka) (by rw [(pre a).2.1]; exact hca) hnc
      (by rw [(pre a).2.2.1]; exact hw) (by rw [(pre w).1]; exact hkw) (by rw [(pre w).2.2.2]; exact ha)
  · intro w hw hkw ha
    exact hfold.2 w (by rw [(pre x).2.2.1]; exact hw) (by rw [(pre w).1]; exact hkw)
      (by rw [(pre w).2.2.2]; exact ha)

/-! ## the convergence invariant -/

/-- the body of effect `i` does not write -/
def NoFB (p : Prog) (i : Nat) : Prop :=
  ∀ sg y, (bodyOf p i).writesSig sg = true → (bodyOf p i).readsNode y = true →
    dependsOn p p.length y sg = false

theorem writesSig_of_noWrite : ∀ (e : Expr) (sg : Nat), e.noWrite = true → e.writesSig sg = false
  | .lit _, _, _ => rfl
  | .rd _ _, _, _ => rfl
  | .add a b, sg, h => by
    simp only [Expr.noWrite, Bool.and_eq_true] at h
    simp [Expr.writesSig, writesSig_of_noWrite a sg h.1, writesSig_of_noWrite b sg h.2]
  | .mulc _ a, sg, h => by
    simp only [Expr.noWrite] at h
    simp [Expr.writesSig, writesSig_of_noWrite a sg h]
  | .ite c t e, sg, h => by
    simp only [Expr.noWrite, Bool.and_eq_true] at h
    simp [Expr.writesSig, writesSig_of_noWrite c sg h.1.1, writesSig_of_noWrite t sg h.1.2,
      writesSig_of_noWrite e sg h.2]
  | .seq a b, sg, h => by
    simp only [Expr.noWrite, Bool.and_eq_true] at h
    simp [Expr.writesSig, writesSig_of_noWrite a sg h.1, writesSig_of_noWrite b sg h.2]
  | .wr _ _, _, h => by simp [Expr.noWrite] at h

theorem NoFB.of_noWrite {p : Prog} {i : Nat} (h : (bodyOf p i).noWrite = true) : NoFB p i := by
  intro sg y hw
  rw [writesSig_of_noWrite _ sg h] at hw; cases hw

/-- the stored value of an effect that has run is its body evaluated at the values it saw -/
def ValOK (p : Prog) (s : State) (i : Nat) : Prop :=
  (s.get i).runs ≠ 0 → ∀ ρ : Nat → Int, (∀ z ∈ (s.get i).seen, ρ z.1 = z.2.1) →
    (s.get i).val = some (evalPure ρ (bodyOf p i))

theorem ValOK.of_core {p : Prog} {s s' : State} {i : Nat} (h : ValOK p s i)
    (hc : (s'.get i).core = (s.get i).core) : ValOK p s' i := by
  have cf := Node.core_fields hc
  intro hr ρ hρ
  rw [cf.2.2.2.2.2.2.2.2] at hr
  rw [cf.2.2.2.2.2.2.1] at hρ
  rw [cf.2.1]
  exact h hr ρ hρ

theorem ValOK.of_eq {p : Prog} {s s' : State} {i : Nat} (h : ValOK p s i)
    (hg : s'.get i = s.get i) : ValOK p s' i := h.of_core (by rw [hg])

/-- obligations of a non-running effect that is not the one being polled -/
structure EffC (p : Prog) (s : State) (i : Nat) : Prop where
  vals : NoFB p i → (s.get i).dirty = false → ∀ z ∈ (s.get i).seen,
    (s.get z.1).running = true ∨ (s.get z.1).val = some z.2.1
  quietFlags : (s.get i).chan = false → (s.get i).dirty = false ∧ (s.get i).first = false
  chanWoken : (s.get i).chan = true → (s.get i).woken = true
  srcClean : (s.get i).chan = false → ∀ y ∈ (s.get i).sources, (s.get y).kind = .memo →
    (s.get y).st = .clean
  valOK : ValOK p s i

/-- obligations of every non-running effect -/
structure EffB (s : State) (i : Nat) : Prop where
  live : (s.get i).alive = true ∧ (s.get i).paused = false ∧ (s.get i).done = false
  srcSeen : (s.get i).sources = (s.get i).seen.map (·.1)
  ran : (s.get i).first = false → (s.get i).runs ≠ 0

structure InvC (p : Prog) (s : State) (X : Option Nat) (D : Nat → Prop) : Prop where
  base : ∀ i, (s.get i).kind = .eff → (s.get i).running = false → ¬ D i → EffB s i
  eff : ∀ i, (s.get i).kind = .eff → (s.get i).running = false → ¬ D i → X ≠ some i → EffC p s i
  dead : ∀ i, D i → (s.get i).kind = .eff ∧ (s.get i).alive = false

theorem EffB.of_core {s s' : State} {i : Nat} (hc : (s'.get i).core = (s.get i).core) (h : EffB s i) :
    EffB s' i := by
  have cf := Node.core_fields hc
  have cl := Node.core_life hc
  exact ⟨by rw [cl.1, cl.2.1, cl.2.2]; exact h.live, by rw [cf.2.2.1, cf.2.2.2.2.2.2.1]; exact h.srcSeen,
    by rw [cf.2.2.2.2.1, cf.2.2.2.2.2.2.2.2]; exact h.ran⟩

/-- `EffC` survives a big step of `upd` (the effect is neither the observer nor dead) -/
theorem EffC.of_upd {p : Prog} {s : State} {m : Nat} {r : State × Bool} (up : UpdPost p s m r)
    {i : Nat} (hk : (s.get i).kind = .eff) (hb : EffB s i) (ho : s.obs ≠ some i)
    (h : EffC p s i) : EffC p r.1 i := by
  have hc := up.frame.effCore i hk
  have cf := Node.core_fields hc
  have fl := up.frame.flags
  have dnot : (r.1.get i).dirty = false → (s.get i).dirty = false := by
    intro hd
    cases hd0 : (s.get i).dirty with
    | false => rfl
    | true => rw [fl.d i hd0] at hd; cases hd
  have cnot : (r.1.get i).chan = false → (s.get i).chan = false := by
    intro hd
    cases hd0 : (s.get i).chan with
    | false => rfl
    | true => rw [fl.c i hd0] at hd; cases hd
  refine ⟨?_, ?_, ?_, ?_, h.valOK.of_core hc⟩
  · intro hro hd z hz
    rw [cf.2.2.2.2.2.2.1] at hz
    have hd0 := dnot hd
    have hv := h.vals hro hd0 z hz
    rw [up.running]
    by_cases hval : (r.1.get z.1).val = (s.get z.1).val
    · rw [hval]; exact hv
    · exfalso
      have hsrc : z.1 ∈ (s.get i).sources := by rw [hb.srcSeen]; exact List.mem_map_of_mem hz
      rcases up.valCh i hk z.1 hsrc hval with h' | h' | h'
      · rw [hd] at h'; cases h'
      · exact ho h'
      · rw [hb.live.1] at h'; cases h'
  · intro hcf
    have hc0 := cnot hcf
    have q := h.quietFlags hc0
    refine ⟨?_, by rw [cf.2.2.2.2.1]; exact q.2⟩
    cases hd : (r.1.get i).dirty with
    | false => rfl
    | true =>
      rcases fl.newD i hd with h' | h'
      · rw [q.1] at h'; cases h'
      · rw [hcf] at h'; cases h'.1
  · intro hct
    rcases fl.newC i hct with h' | h'
    · exact fl.w i (h.chanWoken h')
    · exact h'
  · intro hcf y hy hky
    rw [cf.2.2.1] at hy
    rw [up.frame.kind] at hky
    exact (up.frame.clean y (h.srcClean (cnot hcf) y hy hky)).1

/-- `EffC` survives a signal write -/
theorem EffC.of_set {p : Prog} {s : State} (h : InvR p s) {x : Nat} {v0 : Int}
    (hx : p[x]? = some (.sig v0)) (v : Int) {f : Nat} (hf : s.nodes.length ≤ f)
    (sp : SetPost s (setSignal f s x v) x v) {i : Nat}
    (hk : (s.get i).kind = .eff) (hb : EffB s i) (hc : EffC p s i) : EffC p (setSignal f s x v) i := by
  have hix : i ≠ x := by
    intro e; subst e
    rw [h.kind i _ hx] at hk; cases hk
  have hcore := setSignal_core f s x v i hix
  have cf := Node.core_fields hcore
  have fl := setSignal_flag f s x v
  obtain ⟨hnc, hmk⟩ := setSignal_closedE h f hf x v
  have dnot : ((setSignal f s x v).get i).dirty = false → (s.get i).dirty = false := by
    intro hd
    cases hd0 : (s.get i).dirty with
    | false => rfl
    | true => rw [fl.d i hd0] at hd; cases hd
  have cnot : ((setSignal f s x v).get i).chan = false → (s.get i).chan = false := by
    intro hd
    cases hd0 : (s.get i).chan with
    | false => rfl
    | true => rw [fl.c i hd0] at hd; cases hd
  refine ⟨?_, ?_, ?_, ?_, hc.valOK.of_core hcore⟩
  · intro hro hd z hz
    rw [cf.2.2.2.2.2.2.1] at hz
    have hv := hc.vals hro (dnot hd) z hz
    by_cases hzx : z.1 = x
    · exfalso
      have hsrc : x ∈ (s.get i).sources := by
        rw [hb.srcSeen, ← hzx]; exact List.mem_map_of_mem hz
      have := hmk i ((h.edge x i).2 hsrc) hk hb.live.1
      rw [hd] at this; cases this
    · rw [sp.running, sp.val z.1 hzx]; exact hv
  · intro hcf
    have q := hc.quietFlags (cnot hcf)
    refine ⟨?_, by rw [cf.2.2.2.2.1]; exact q.2⟩
    cases hd : ((setSignal f s x v).get i).dirty with
    | false => rfl
    | true =>
      rcases fl.newD i hd with h' | h'
      · rw [q.1] at h'; cases h'
      · rw [hcf] at h'; cases h'.1
  · intro hct
    rcases fl.newC i hct with h' | h'
    · exact fl.w i (hc.chanWoken h')
    · exact h'
  · intro hcf y hy hky
    rw [cf.2.2.1] at hy
    rw [sp.kind] at hky
    have hy0 := hc.srcClean (cnot hcf) y hy hky
    cases hst : ((setSignal f s x v).get y).st with
    | clean => rfl
    | check =>
      have := hnc y i hky hy0 (by rw [hst]; simp) ((h.edge y i).2 hy) hk hb.live.1
      rw [hcf] at this; cases this
    | dirty =>
      have := hnc y i hky hy0 (by rw [hst]; simp) ((h.edge y i).2 hy) hk hb.live.1
      rw [hcf] at this; cases this

theorem InvC.of_upd {p : Prog} {s : State} {m : Nat} {r : State × Bool} {X : Option Nat}
    (up : UpdPost p s m r) (hobs : ∀ o, s.obs = some o → X = some o) (h : InvC p s X D) :
    InvC p r.1 X D := by
  refine ⟨?_, ?_, fun i hd => ⟨by rw [up.frame.kind]; exact (h.dead i hd).1,
    by rw [(Node.core_life (up.frame.effCore i (h.dead i hd).1)).1]; exact (h.dead i hd).2⟩⟩
  · intro i hk hr hD
    have hk0 : (s.get i).kind = .eff := by rw [← up.frame.kind]; exact hk
    exact (h.base i hk0 (by rw [← up.running]; exact hr) hD).of_core (up.frame.effCore i hk0)
  · intro i hk hr hD hX
    have hk0 : (s.get i).kind = .eff := by rw [← up.frame.kind]; exact hk
    have hr0 : (s.get i).running = false := by rw [← up.running]; exact hr
    exact (h.eff i hk0 hr0 hD hX).of_upd up hk0 (h.base i hk0 hr0 hD) (fun ho => hX (hobs i ho))

theorem InvC.of_set {p : Prog} {s : State} {X : Option Nat} (hi : InvR p s) {x : Nat} {v0 : Int}
    (hx : p[x]? = some (.sig v0)) (v : Int) {f : Nat} (hf : s.nodes.length ≤ f)
    (sp : SetPost s (setSignal f s x v) x v) (h : InvC p s X D) : InvC p (setSignal f s x v) X D := by
  have hne : ∀ i, (s.get i).kind = .eff → i ≠ x := by
    intro i hk e; subst e
    rw [hi.kind i _ hx] at hk; cases hk
  refine ⟨?_, ?_, fun i hd => ⟨by rw [sp.kind]; exact (h.dead i hd).1,
    by rw [(Node.core_life (setSignal_core f s x v i (hne i (h.dead i hd).1))).1]; exact (h.dead i hd).2⟩⟩
  · intro i hk hr hD
    rw [sp.kind] at hk; rw [sp.running] at hr
    exact (h.base i hk hr hD).of_core (setSignal_core f s x v i (hne i hk))
  · intro i hk hr hD hX
    rw [sp.kind] at hk; rw [sp.running] at hr
    exact (h.eff i hk hr hD hX).of_set hi hx v hf sp hk (h.base i hk hr hD)

/-! ## generic invariant through an effect body, knowing what the body reads and writes -/

theorem evalEff_gen2 {p : Prog} {u : State → Nat → State × Bool} {f : Nat} (hu : UpdOK p u f)
    {e : Nat} (hef : e ≤ f) (F : Nat) (hF : p.length ≤ F) (Q : State → Prop) (PR PW : Nat → Prop)
    (hread : ∀ s x, PR x → InvR p s → EffLoc s e → Q s → x < e → (s.get x).kind ≠ .eff →
      Q (((readNode u s x).1.upd e fun n =>
        { n with seen := n.seen ++ [(x, (readNode u s x).2, ((readNode u s x).1.get x).ver)] }).emit
          (.rdv e x (readNode u s x).2)))
    (hwrite : ∀ s x v0 v, PW x → InvR p s → EffLoc s e → Q s → p[x]? = some (.sig v0) →
      Q (setSignal F s x v)) :
    ∀ (ex : Expr) (s : State), InvR p s → EffLoc s e → Q s → ex.readsBelow e = true →
      ex.noUntracked = true → ex.readsData p = true →
      (∀ y, ex.readsNode y = true → PR y) → (∀ sg, ex.writesSig sg = true → PW sg) →
      Q (evalE (readNode u) (setSignal F) e ex s).1
  | .lit n, s, _, _, hq, _, _, _, _, _ => hq
  | .rd tracked x, s, h, hl, hq, hb, hu', hd, hr, _ => by
    simp only [Expr.noUntracked] at hu'
    subst hu'
    simp only [Expr.readsBelow, decide_eq_true_eq] at hb
    have hkx : (s.get x).kind ≠ .eff := by
      simp only [Expr.readsData] at hd
      cases hpx : p[x]? with
      | none => rw [hpx] at hd; cases hd
      | some d =>
        rw [h.kind x d hpx]
        cases d <;> simp_all [kindOf]
    simp only [evalE, if_true]
    exact hread s x (hr x (by simp [Expr.readsNode])) h hl hq hb hkx
  | .add a b, s, h, hl, hq, hb, hu', hd, hr, hw => by
    simp only [Expr.readsBelow, Expr.noUntracked, Expr.readsData, Bool.and_eq_true] at hb hu' hd
    obtain ⟨h1, l1⟩ := evalEff_spec hu hef F hF a s h hl hb.1 hu'.1 hd.1
    have q1 := evalEff_gen2 hu hef F hF Q PR PW hread hwrite a s h hl hq hb.1 hu'.1 hd.1
      (fun y hy => hr y (by simp [Expr.readsNode, hy])) (fun y hy => hw y (by simp [Expr.writesSig, hy]))
    simp only [evalE]
    exact evalEff_gen2 hu hef F hF Q PR PW hread hwrite b _ h1 l1 q1 hb.2 hu'.2 hd.2
      (fun y hy => hr y (by simp [Expr.readsNode, hy])) (fun y hy => hw y (by simp [Expr.writesSig, hy]))
  | .mulc k a, s, h, hl, hq, hb, hu', hd, hr, hw => by
    simp only [Expr.readsBelow, Expr.noUntracked, Expr.readsData] at hb hu' hd
    simp only [evalE]
    exact evalEff_gen2 hu hef F hF Q PR PW hread hwrite a s h hl hq hb hu' hd
      (fun y hy => hr y (by simp [Expr.readsNode, hy])) (fun y hy => hw y (by simp [Expr.writesSig, hy]))
  | .ite c t el, s, h, hl, hq, hb, hu', hd, hr, hw => by
    simp only [Expr.readsBelow, Expr.noUntracked, Expr.readsData, Bool.and_eq_true] at hb hu' hd
    obtain ⟨h1, l1⟩ := evalEff_spec hu hef F hF c s h hl hb.1.1 hu'.1.1 hd.1.1
    have q1 := evalEff_gen2 hu hef F hF Q PR PW hread hwrite c s h hl hq hb.1.1 hu'.1.1 hd.1.1
      (fun y hy => hr y (by simp [Expr.readsNode, hy])) (fun y hy => hw y (by simp [Expr.writesSig, hy]))
    simp only [evalE]
    split
    · exact evalEff_gen2 hu hef F hF Q PR PW hread hwrite t _ h1 l1 q1 hb.1.2 hu'.1.2 hd.1.2
        (fun y hy => hr y (by simp [Expr.readsNode, hy])) (fun y hy => hw y (by simp [Expr.writesSig, hy]))
    · exact evalEff_gen2 hu hef F hF Q PR PW hread hwrite el _ h1 l1 q1 hb.2 hu'.2 hd.2
        (fun y hy => hr y (by simp [Expr.readsNode, hy])) (fun y hy => hw y (by simp [Expr.writesSig, hy]))
  | .seq a b, s, h, hl, hq, hb, hu', hd, hr, hw => by
    simp only [Expr.readsBelow, Expr.noUntracked, Expr.readsData, Bool.and_eq_true] at hb hu' hd
    obtain ⟨h1, l1⟩ := evalEff_spec hu hef F hF a s h hl hb.1 hu'.1 hd.1
    have q1 := evalEff_gen2 hu hef F hF Q PR PW hread hwrite a s h hl hq hb.1 hu'.1 hd.1
      (fun y hy => hr y (by simp [Expr.readsNode, hy])) (fun y hy => hw y (by simp [Expr.writesSig, hy]))
    simp only [evalE]
    exact evalEff_gen2 hu hef F hF Q PR PW hread hwrite b _ h1 l1 q1 hb.2 hu'.2 hd.2
      (fun y hy => hr y (by simp [Expr.readsNode, hy])) (fun y hy => hw y (by simp [Expr.writesSig, hy]))
  | .wr x a, s, h, hl, hq, hb, hu', hd, hr, hw => by
    simp only [Expr.readsBelow, Expr.noUntracked, Expr.readsData, Bool.and_eq_true] at hb hu' hd
    obtain ⟨h1, l1⟩ := evalEff_spec hu hef F hF a s h hl hb hu' hd.2
    have q1 := evalEff_gen2 hu hef F hF Q PR PW hread hwrite a s h hl hq hb hu' hd.2
      (fun y hy => hr y (by simp [Expr.readsNode, hy])) (fun y hy => hw y (by simp [Expr.writesSig, hy]))
    simp only [evalE]
    generalize evalE (readNode u) (setSignal F) e a s = r at h1 l1 q1
    obtain ⟨s1, v⟩ := r
    simp only at h1 l1 q1 ⊢
    cases hpx : p[x]? with
    | none => rw [hpx] at hd; simp at hd
    | some d =>
      cases d with
      | memo _ => rw [hpx] at hd; simp at hd
      | eff _ => rw [hpx] at hd; simp at hd
      | sig v0 => exact hwrite s1 x v0 v (hw x (by simp [Expr.writesSig])) h1 l1 q1 hpx

/-! ## the value computed by an effect body -/

theorem evalEff_val {p : Prog} {u : State → Nat → State × Bool} {f : Nat} (hu : UpdOK p u f)
    {e : Nat} (hef : e ≤ f) (F : Nat) (hF : p.length ≤ F) :
    ∀ (ex : Expr) (s : State), InvR p s → EffLoc s e → ex.readsBelow e = true →
      ex.noUntracked = true → ex.readsData p = true →
      ∃ L, ((evalE (readNode u) (setSignal F) e ex s).1.get e).seen = (s.get e).seen ++ L ∧
        ∀ ρ : Nat → Int, (∀ z ∈ L, ρ z.1 = z.2.1) →
          evalPure ρ ex = (evalE (readNode u) (setSignal F) e ex s).2
  | .lit n, s, _, _, _, _, _ => ⟨[], by simp [evalE], fun _ _ => rfl⟩
  | .rd tracked x, s, h, hl, hb, hu', hd => by
    simp only [Expr.noUntracked] at hu'
    subst hu'
    simp only [Expr.readsBelow, decide_eq_true_eq] at hb
    have hkx : (s.get x).kind ≠ .eff := by
      simp only [Expr.readsData] at hd
      cases hpx : p[x]? with
      | none => rw [hpx] at hd; cases hd
      | some d =>
        rw [h.kind x d hpx]
        cases d <;> simp_all [kindOf]
    obtain ⟨s1, s2, v, ch, hrd, t, h1, up, _, _⟩ := readEff_cases hu hef h hl hb hkx
    simp only [evalE, if_true]
    rw [hrd]
    simp only
    have he1 : (s1.get e).kind = .eff := by rw [t.kind]; exact hl.kind
    have he2 : e < s2.nodes.length := by
      rw [up.frame.len, t.len]; exact s.lt_of_running hl.running
    have cfe := Node.core_fields (up.frame.effCore e he1)
    refine ⟨[(x, v, (s2.get x).ver)], ?_, fun ρ hρ => ?_⟩
    · rw [State.emit_get, State.get_upd_same _ _ he2]
      show (s2.get e).seen ++ _ = _
      rw [cfe.2.2.2.2.2.2.1, t.seen]
    · simpa [evalPure] using hρ _ List.mem_cons_self
  | .add a b, s, h, hl, hb, hu', hd => by
    simp only [Expr.readsBelow, Expr.noUntracked, Expr.readsData, Bool.and_eq_true] at hb hu' hd
    obtain ⟨h1, l1⟩ := evalEff_spec hu hef F hF a s h hl hb.1 hu'.1 hd.1
    obtain ⟨L1, s1e, e1⟩ := evalEff_val hu hef F hF a s h hl hb.1 hu'.1 hd.1
    simp only [evalE]
    generalize evalE (readNode u) (setSignal F) e a s = r1 at h1 l1 s1e e1
    obtain ⟨s1, v1⟩ := r1
    obtain ⟨L2, s2e, e2⟩ := evalEff_val hu hef F hF b s1 h1 l1 hb.2 hu'.2 hd.2
    generalize evalE (readNode u) (setSignal F) e b s1 = r2 at s2e e2
    obtain ⟨s2, v2⟩ := r2
    refine ⟨L1 ++ L2, by rw [s2e, s1e, List.append_assoc], fun ρ hρ => ?_⟩
    simp only [evalPure]
    rw [e1 ρ (fun z hz => hρ z (List.mem_append_left _ hz)),
      e2 ρ (fun z hz => hρ z (List.mem_append_right _ hz))]
  | .mulc k a, s, h, hl, hb, hu', hd => by
    simp only [Expr.readsBelow, Expr.noUntracked, Expr.readsData] at hb hu' hd
    obtain ⟨L1, s1e, e1⟩ := evalEff_val hu hef F hF a s h hl hb hu' hd
    simp only [evalE]
    generalize evalE (readNode u) (setSignal F) e a s = r1 at s1e e1
    obtain ⟨s1, v1⟩ := r1
    refine ⟨L1, s1e, fun ρ hρ => ?_⟩
    simp only [evalPure]
    rw [e1 ρ hρ]
  | .ite c t el, s, h, hl, hb, hu', hd => by
    simp only [Expr.readsBelow, Expr.noUntracked, Expr.readsData, Bool.and_eq_true] at hb hu' hd
    obtain ⟨h1, l1⟩ := evalEff_spec hu hef F hF c s h hl hb.1.1 hu'.1.1 hd.1.1
    obtain ⟨L1, s1e, e1⟩ := evalEff_val hu hef F hF c s h hl hb.1.1 hu'.1.1 hd.1.1
    simp only [evalE]
    generalize evalE (readNode u) (setSignal F) e c s = r1 at h1 l1 s1e e1
    obtain ⟨s1, v1⟩ := r1
    simp only
    by_cases hv : (v1 != 0) = true
    · simp only [hv, if_true]
      obtain ⟨L2, s2e, e2⟩ := evalEff_val hu hef F hF t s1 h1 l1 hb.1.2 hu'.1.2 hd.1.2
      refine ⟨L1 ++ L2, by rw [s2e, s1e, List.append_assoc], fun ρ hρ => ?_⟩
      simp only [evalPure]
      rw [e1 ρ (fun z hz => hρ z (List.mem_append_left _ hz)), if_pos hv]
      exact e2 ρ (fun z hz => hρ z (List.mem_append_right _ hz))
    · simp only [hv, Bool.false_eq_true, if_false]
      obtain ⟨L2, s2e, e2⟩ := evalEff_val hu hef F hF el s1 h1 l1 hb.2 hu'.2 hd.2
      refine ⟨L1 ++ L2, by rw [s2e, s1e, List.append_assoc], fun ρ hρ => ?_⟩
      simp only [evalPure]
      rw [e1 ρ (fun z hz => hρ z (List.mem_append_left _ hz)), if_neg hv]
      exact e2 ρ (fun z hz => hρ z (List.mem_append_right _ hz))
  | .seq a b, s, h, hl, hb, hu', hd => by
    simp only [Expr.readsBelow, Expr.noUntracked, Expr.readsData, Bool.and_eq_true] at hb hu' hd
    obtain ⟨h1, l1⟩ := evalEff_spec hu hef F hF a s h hl hb.1 hu'.1 hd.1
    obtain ⟨L1, s1e, _⟩ := evalEff_val hu hef F hF a s h hl hb.1 hu'.1 hd.1
    simp only [evalE]
    generalize evalE (readNode u) (setSignal F) e a s = r1 at h1 l1 s1e
    obtain ⟨s1, v1⟩ := r1
    obtain ⟨L2, s2e, e2⟩ := evalEff_val hu hef F hF b s1 h1 l1 hb.2 hu'.2 hd.2
    refine ⟨L1 ++ L2, by rw [s2e, s1e, List.append_assoc], fun ρ hρ => ?_⟩
    simp only [evalPure]
    exact e2 ρ (fun z hz => hρ z (List.mem_append_right _ hz))
  | .wr x a, s, h, hl, hb, hu', hd => by
    simp only [Expr.readsBelow, Expr.noUntracked, Expr.readsData, Bool.and_eq_true] at hb hu' hd
    obtain ⟨h1, l1⟩ := evalEff_spec hu hef F hF a s h hl hb hu' hd.2
    obtain ⟨L1, s1e, e1⟩ := evalEff_val hu hef F hF a s h hl hb hu' hd.2
    simp only [evalE]
    generalize evalE (readNode u) (setSignal F) e a s = r1 at h1 l1 s1e e1
    obtain ⟨s1, v1⟩ := r1
    simp only at h1 l1 s1e e1 ⊢
    have hex : e ≠ x := by
      intro hc; subst hc
      cases hpx : p[e]? with
      | none => rw [hpx] at hd; simp at hd
      | some d =>
        have := h1.kind e d hpx
        rw [l1.kind] at this
        cases d <;> simp_all [kindOf]
    refine ⟨L1, ?_, fun ρ hρ => ?_⟩
    · rw [(Node.core_fields (setSignal_core F s1 x v1 e hex)).2.2.2.2.2.2.1]; exact s1e
    · simp only [evalPure]; exact e1 ρ hρ

/-! ## the running effect -/

structure RunLocC (p : Prog) (s : State) (e : Nat) : Prop where
  live : (s.get e).alive = true ∧ (s.get e).paused = false ∧ (s.get e).done = false
  srcSeen : (s.get e).sources = (s.get e).seen.map (·.1)
  seenNF : NoFB p e → ∀ z ∈ (s.get e).seen, (s.get z.1).st = .clean ∧ (s.get z.1).val = some z.2.1
  closed : (s.get e).chan = false → ∀ z ∈ (s.get e).seen, (s.get z.1).kind = .memo →
    (s.get z.1).st = .clean
  dc : (s.get e).dirty = true → (s.get e).chan = true
  cw : (s.get e).chan = true → (s.get e).woken = true
  noFirst : (s.get e).first = false
  ran : (s.get e).runs ≠ 0

structure QC (p : Prog) (s : State) (e : Nat) (D : Nat → Prop) : Prop where
  others : InvC p s (some e) D
  self : RunLocC p s e
  ss : SrcStatic p s

theorem setSignal_sources (f : Nat) (s : State) (x : Nat) (v : Int) (i : Nat) :
    ((setSignal f s x v).get i).sources = (s.get i).sources := by
  unfold setSignal sigNotify
  have hr := foldl_markRel (fun s x => markDirty f s x) (fun s x => markDirty_rel f s x)
    ((((s.upd x fun n => { n with val := some v, ver := n.ver + 1 }).emit (.set x)).get x).subs)
    ((s.upd x fun n => { n with val := some v, ver := n.ver + 1 }).emit (.set x))
  rw [hr.sources, State.emit_get, State.get_upd]
  split <;> rfl

/-- `InvC` only looks at the non-running effect nodes and at `val`/`st`/`running`/`kind` of the others -/
theorem InvC.congr {p : Prog} {s s' : State} {X : Option Nat} (e : Nat)
    (hrun : (s'.get e).running = true)
    (hsame : ∀ i, i ≠ e → (s.get i).kind = .eff → s'.get i = s.get i)
    (hfield : ∀ y, (s'.get y).kind = (s.get y).kind ∧ (s'.get y).val = (s.get y).val ∧
      (s'.get y).st = (s.get y).st ∧ (s'.get y).running = (s.get y).running)
    (hDe : ¬ D e)
    (h : InvC p s X D) : InvC p s' X D := by
  have key : ∀ i, (s'.get i).kind = .eff → (s'.get i).running = false →
      i ≠ e ∧ (s.get i).kind = .eff ∧ (s.get i).running = false ∧ s'.get i = s.get i := by
    intro i hk hr
    have hie : i ≠ e := by intro hc; subst hc; rw [hrun] at hr; cases hr
    have hk0 : (s.get i).kind = .eff := by rw [← (hfield i).1]; exact hk
    exact ⟨hie, hk0, by rw [← (hfield i).2.2.2]; exact hr, hsame i hie hk0⟩
  refine ⟨?_, ?_, fun i hd => ?_⟩
  rotate_left 2
  · have hie : i ≠ e := fun hc => hDe (hc ▸ hd)
    rw [hsame i hie (h.dead i hd).1]; exact h.dead i hd
  · intro i hk hr hD
    obtain ⟨_, hk0, hr0, hg⟩ := key i hk hr
    have b := h.base i hk0 hr0 hD
    exact ⟨by rw [hg]; exact b.live, by rw [hg]; exact b.srcSeen, by rw [hg]; exact b.ran⟩
  · intro i hk hr hD hX
    obtain ⟨_, hk0, hr0, hg⟩ := key i hk hr
    have c := h.eff i hk0 hr0 hD hX
    refine ⟨?_, by rw [hg]; exact c.quietFlags, by rw [hg]; exact c.chanWoken, ?_, c.valOK.of_eq hg⟩
    · intro hro hd z hz
      rw [hg] at hd hz
      rw [(hfield z.1).2.2.2, (hfield z.1).2.1]
      exact c.vals hro hd z hz
    · intro hcf y hy hky
      rw [hg] at hcf hy
      rw [(hfield y).1] at hky
      rw [(hfield y).2.2.1]
      exact c.srcClean hcf y hy hky

theorem hreadC {p : Prog} {u : State → Nat → State × Bool} {f : Nat} (hu : UpdOK p u f)
    {e : Nat} (hef : e ≤ f) (s : State) (x : Nat) (hrx : (bodyOf p e).readsNode x = true)
    (h : InvR p s) (hl : EffLoc s e) (hq : QC p s e D)
    (hx : x < e) (hkx : (s.get x).kind ≠ .eff) :
    QC p (((readNode u s x).1.upd e fun n =>
        { n with seen := n.seen ++ [(x, (readNode u s x).2, ((readNode u s x).1.get x).ver)] }).emit
          (.rdv e x (readNode u s x).2)) e D := by
  obtain ⟨s1, s2, v, ch, hrd, t, h1, up, hcx, hvx⟩ := readEff_cases hu hef h hl hx hkx
  rw [hrd]
  simp only
  have hxe : x ≠ e := Nat.ne_of_lt hx
  have he1 : (s1.get e).kind = .eff := by rw [t.kind]; exact hl.kind
  have he2 : e < s2.nodes.length := by
    rw [up.frame.len, t.len]; exact s.lt_of_running hl.running
  generalize hs3 : ((s2.upd e fun n => { n with seen := n.seen ++ [(x, v, (s2.get x).ver)] }).emit
    (.rdv e x v)) = s3
  have g3e : s3.get e = { s2.get e with seen := (s2.get e).seen ++ [(x, v, (s2.get x).ver)] } := by
    subst hs3; rw [State.emit_get, State.get_upd_same _ _ he2]
  have g3o : ∀ i, i ≠ e → s3.get i = s2.get i := by
    intro i hi; subst hs3; rw [State.emit_get, State.get_upd_ne _ _ (Ne.symm hi)]
  have f3 : ∀ y, (s3.get y).kind = (s2.get y).kind ∧ (s3.get y).val = (s2.get y).val ∧
      (s3.get y).st = (s2.get y).st ∧ (s3.get y).running = (s2.get y).running := by
    intro y; by_cases hy : y = e
    · subst hy; rw [g3e]; exact ⟨rfl, rfl, rfl, rfl⟩
    · rw [g3o y hy]; exact ⟨rfl, rfl, rfl, rfl⟩
  have hrun2 : (s2.get e).running = true := by rw [up.running, t.running]; exact hl.running
  have cfe := Node.core_fields (up.frame.effCore e he1)
  have cle := Node.core_life (up.frame.effCore e he1)
  have fl := up.frame.flags
  have hDe : ¬ D e := fun hd => by
    have := (hq.others.dead e hd).2
    rw [hq.self.live.1] at this; cases this
  have hss3 : SrcStatic p s3 := by
    have hs1 : SrcStatic p s1 := by
      intro w y hy
      by_cases hw : w = e
      · subst hw
        rw [t.sources_m, List.mem_append, List.mem_singleton] at hy
        rcases hy with hy | rfl
        · exact hq.ss w y hy
        · exact hrx
      · rw [t.sources hxe w hw] at hy; exact hq.ss w y hy
    exact (up.ss hs1).mono (fun w y hy => by
      by_cases hw : w = e
      · subst hw; rw [g3e] at hy; exact hy
      · rw [g3o w hw] at hy; exact hy)
  refine ⟨?_, ?_, hss3⟩
  · -- the other effects
    have c1 : InvC p s1 (some e) D := by
      refine InvC.congr e (by rw [t.running]; exact hl.running) ?_
        (fun y => ⟨t.kind y, t.val y, t.st y, t.running y⟩) hDe hq.others
      intro i hie hki
      exact t.go i hie (by intro hix; subst hix; exact hkx hki)
    have c2 : InvC p s2 (some e) D := c1.of_upd up (fun o ho => by rw [t.obs, hl.obs] at ho; exact ho)
    exact InvC.congr e (by rw [(f3 e).2.2.2]; exact hrun2) (fun i hie _ => g3o i hie) f3 hDe c2
  · have hseen2 : (s2.get e).seen = (s.get e).seen := cfe.2.2.2.2.2.2.1.trans (t.seen e)
    have hsrc2 : (s2.get e).sources = (s.get e).sources ++ [x] := cfe.2.2.1.trans t.sources_m
    have hchan : (s3.get e).chan = (s2.get e).chan := by rw [g3e]
    have cmono : (s.get e).chan = true → (s2.get e).chan = true := by
      intro hc; apply fl.c; rw [t.gm]; exact hc
    have old_clean : ∀ y, (s.get y).st = .clean → (s3.get y).st = .clean ∧ (s3.get y).val = (s.get y).val := by
      intro y hy
      have := up.frame.clean y (by rw [t.st]; exact hy)
      exact ⟨by rw [(f3 y).2.2.1]; exact this.1, by rw [(f3 y).2.1, this.2, t.val]⟩
    have mem3 : ∀ z, z ∈ (s3.get e).seen → z ∈ (s.get e).seen ∨ z = (x, v, (s2.get x).ver) := by
      intro z hz
      rw [g3e] at hz
      simp only [List.mem_append, List.mem_singleton] at hz
      rw [hseen2] at hz; exact hz
    refine ⟨?_, ?_, ?_, ?_, ?_, ?_, ?_, ?_⟩
    · rw [g3e]
      show (s2.get e).alive = true ∧ (s2.get e).paused = false ∧ (s2.get e).done = false
      rw [cle.1, cle.2.1, cle.2.2, t.gm]; exact hq.self.live
    · rw [g3e]
      show (s2.get e).sources = ((s2.get e).seen ++ [(x, v, (s2.get x).ver)]).map (·.1)
      rw [hsrc2, hseen2, hq.self.srcSeen]; simp
    · intro hro z hz
      rcases mem3 z hz with hz | rfl
      · have := hq.self.seenNF hro z hz
        have c := old_clean z.1 this.1
        exact ⟨c.1, c.2.trans this.2⟩
      · exact ⟨by rw [(f3 x).2.2.1]; exact hcx, by rw [(f3 x).2.1]; exact hvx⟩
    · intro hcf z hz hkz
      rw [hchan] at hcf
      have hc0 : (s.get e).chan = false := by
        cases hc : (s.get e).chan with
        | false => rfl
        | true => rw [cmono hc] at hcf; cases hcf
      rcases mem3 z hz with hz | rfl
      · have hk0 : (s.get z.1).kind = .memo := by
          rw [← t.kind, ← up.frame.kind, ← (f3 z.1).1]; exact hkz
        exact (old_clean z.1 (hq.self.closed hc0 z hz hk0)).1
      · rw [(f3 x).2.2.1]; exact hcx
    · intro hd
      rw [g3e] at hd
      rw [hchan]
      rcases fl.newD e hd with h' | h'
      · rw [t.gm] at h'; exact cmono (hq.self.dc h')
      · exact h'.1
    · intro hc
      rw [hchan] at hc
      rw [g3e]
      show (s2.get e).woken = true
      rcases fl.newC e hc with h' | h'
      · rw [t.gm] at h'
        apply fl.w; rw [t.gm]; exact hq.self.cw h'
      · exact h'
    · rw [g3e]
      show (s2.get e).first = false
      rw [cfe.2.2.2.2.1, t.gm]; exact hq.self.noFirst
    · rw [g3e]
      show (s2.get e).runs ≠ 0
      rw [cfe.2.2.2.2.2.2.2.2, t.gm]; exact hq.self.ran

theorem hwriteC {p : Prog} {e : Nat} (F : Nat) (hF : p.length ≤ F)
    (s : State) (x : Nat) (v0 v : Int) (hW : (bodyOf p e).writesSig x = true)
    (h : InvR p s) (hl : EffLoc s e) (hq : QC p s e D) (hx : p[x]? = some (.sig v0)) :
    QC p (setSignal F s x v) e D := by
  have hf : s.nodes.length ≤ F := by rw [h.len]; exact hF
  obtain ⟨h', sp⟩ := setSignal_inv h hx v (f := F) hf
  have hex : e ≠ x := by
    intro hc; subst hc
    have := h.kind e _ hx
    rw [hl.kind] at this; cases this
  refine ⟨hq.others.of_set h hx v hf sp, ?_,
    hq.ss.mono (fun w y hy => by rw [setSignal_sources] at hy; exact hy)⟩
  have hcore := setSignal_core F s x v e hex
  have cf := Node.core_fields hcore
  have cl := Node.core_life hcore
  have fl := setSignal_flag F s x v
  obtain ⟨hnc, _⟩ := setSignal_closedE h F hf x v
  have hxp : x < p.length := by
    rcases Nat.lt_or_ge x p.length with h'' | h''
    · exact h''
    · rw [List.getElem?_eq_none h''] at hx; cases hx
  refine ⟨by rw [cl.1, cl.2.1, cl.2.2]; exact hq.self.live,
    by rw [cf.2.2.1, cf.2.2.2.2.2.2.1]; exact hq.self.srcSeen, ?_, ?_, ?_, ?_,
    by rw [cf.2.2.2.2.1]; exact hq.self.noFirst, by rw [cf.2.2.2.2.2.2.2.2]; exact hq.self.ran⟩
  · -- the effect does not write upstream of anything it has read: its entries are untouched
    intro hro z hz
    rw [cf.2.2.2.2.2.2.1] at hz
    have old := hq.self.seenNF hro z hz
    have hsrc : z.1 ∈ (s.get e).sources := by rw [hq.self.srcSeen]; exact List.mem_map_of_mem hz
    have hrz : (bodyOf p e).readsNode z.1 = true := hq.ss e z.1 hsrc
    have hnd : dependsOn p p.length z.1 x = false := hro x z.1 hW hrz
    have hzlt : z.1 < e := h.srcLt e z.1 hsrc
    have hzp : z.1 < p.length := by
      have := s.lt_of_running hl.running
      rw [h.len] at this; omega
    have hzk := h.srcData e z.1 hsrc
    have hzx : z.1 ≠ x := by
      intro hc
      rw [hc] at hnd
      cases hpl : p.length with
      | zero => omega
      | succ n => rw [hpl, dependsOn_self] at hnd; cases hnd
    refine ⟨?_, by rw [sp.val z.1 hzx]; exact old.2⟩
    by_cases hne : ((setSignal F s x v).get z.1).st = (s.get z.1).st
    · rw [hne]; exact old.1
    · exfalso
      obtain ⟨w, hw, hr⟩ := setSignal_stReach F s x v z.1 hne
      have := dependsOn_of_reach h hq.ss hw hr p.length hzp hzk
      rw [this] at hnd; cases hnd
  · intro hcf z hz hkz
    rw [cf.2.2.2.2.2.2.1] at hz
    rw [sp.kind] at hkz
    have hc0 : (s.get e).chan = false := by
      cases hc : (s.get e).chan with
      | false => rfl
      | true => rw [fl.c e hc] at hcf; cases hcf
    have hz0 := hq.self.closed hc0 z hz hkz
    have hsrc : z.1 ∈ (s.get e).sources := by rw [hq.self.srcSeen]; exact List.mem_map_of_mem hz
    cases hst : ((setSignal F s x v).get z.1).st with
    | clean => rfl
    | check =>
      have := hnc z.1 e hkz hz0 (by rw [hst]; simp) ((h.edge z.1 e).2 hsrc) hl.kind hq.self.live.1
      rw [hcf] at this; cases this
    | dirty =>
      have := hnc z.1 e hkz hz0 (by rw [hst]; simp) ((h.edge z.1 e).2 hsrc) hl.kind hq.self.live.1
      rw [hcf] at this; cases this
  · intro hd
    rcases fl.newD e hd with h1 | h1
    · exact fl.c e (hq.self.dc h1)
    · exact h1.1
  · intro hc
    rcases fl.newC e hc with h1 | h1
    · exact fl.w e (hq.self.cw h1)
    · exact h1

/-- no disposed effects -/
abbrev NoDead : Nat → Prop := fun _ => False

/-! ## between operations -/

structure TopC (p : Prog) (s : State) (D : Nat → Prop) : Prop where
  quiet : Quiet p s
  conv : InvC p s none D
  ss : SrcStatic p s

theorem SrcStatic.updFlag {p : Prog} {s : State} (h : SrcStatic p s) (i : Nat) (g : Node → Node)
    (hg : ∀ n, (g n).sources = n.sources) : SrcStatic p (s.upd i g) :=
  h.mono (fun w y hy => by
    rw [State.get_upd] at hy
    split at hy
    · rw [hg] at hy; exact hy
    · exact hy)

theorem InvC.weaken {p : Prog} {s : State} (h : InvC p s none D) (X : Option Nat) : InvC p s X D :=
  ⟨h.base, fun i hk hr hD _ => h.eff i hk hr hD (by simp), h.dead⟩

/-- the polled effect `e`: everything but `chan → woken` -/
structure BusyC (p : Prog) (s : State) (e : Nat) : Prop where
  vals : NoFB p e → (s.get e).dirty = false → ∀ z ∈ (s.get e).seen,
    (s.get z.1).running = true ∨ (s.get z.1).val = some z.2.1
  quietFlags : (s.get e).chan = false → (s.get e).dirty = false ∧ (s.get e).first = false
  srcClean : (s.get e).chan = false → ∀ y ∈ (s.get e).sources, (s.get y).kind = .memo →
    (s.get y).st = .clean
  valOK : ValOK p s e

theorem InvC.close {p : Prog} {s : State} {e : Nat} (h : InvC p s (some e) D)
    (he : (s.get e).running = false → EffC p s e) : InvC p s none D := by
  refine ⟨h.base, fun i hk hr hD _ => ?_, h.dead⟩
  by_cases hie : i = e
  · subst hie; exact he hr
  · exact h.eff i hk hr hD (by intro hc; exact hie (Option.some.inj hc).symm)

/-- transfer of `InvC … (some e)` when only `e` itself and edge lists of data nodes change -/
theorem InvC.congrE {p : Prog} {s s' : State} (e : Nat) (hI : InvR p s)
    (hsame : ∀ i, i ≠ e → (s.get i).kind = .eff → s'.get i = s.get i)
    (hkind : ∀ y, (s'.get y).kind = (s.get y).kind)
    (hfield : ∀ y, (s.get y).kind ≠ .eff → (s'.get y).val = (s.get y).val ∧
      (s'.get y).st = (s.get y).st ∧ (s'.get y).running = (s.get y).running)
    (hbase : (s'.get e).running = false → EffB s' e) (hDe : ¬ D e)
    (h : InvC p s (some e) D) : InvC p s' (some e) D := by
  refine ⟨?_, ?_, fun i hd => ?_⟩
  rotate_left 2
  · have hie : i ≠ e := fun hc => hDe (hc ▸ hd)
    rw [hsame i hie (h.dead i hd).1]; exact h.dead i hd
  · intro i hk hr hD
    by_cases hie : i = e
    · subst hie; exact hbase hr
    · have hk0 : (s.get i).kind = .eff := by rw [← hkind]; exact hk
      have hg := hsame i hie hk0
      have b := h.base i hk0 (by rw [← hg]; exact hr) hD
      exact ⟨by rw [hg]; exact b.live, by rw [hg]; exact b.srcSeen, by rw [hg]; exact b.ran⟩
  · intro i hk hr hD hX
    have hie : i ≠ e := by intro hc; subst hc; exact hX rfl
    have hk0 : (s.get i).kind = .eff := by rw [← hkind]; exact hk
    have hg := hsame i hie hk0
    have hr0 : (s.get i).running = false := by rw [← hg]; exact hr
    have b := h.base i hk0 hr0 hD
    have c := h.eff i hk0 hr0 hD hX
    have data : ∀ y, y ∈ (s.get i).sources → (s.get y).kind ≠ .eff := fun y hy => hI.srcData i y hy
    refine ⟨?_, by rw [hg]; exact c.quietFlags, by rw [hg]; exact c.chanWoken, ?_, c.valOK.of_eq hg⟩
    · intro hro hd z hz
      rw [hg] at hd hz
      have hz1 : z.1 ∈ (s.get i).sources := by rw [b.srcSeen]; exact List.mem_map_of_mem hz
      have hf := hfield z.1 (data z.1 hz1)
      rw [hf.2.2, hf.1]
      exact c.vals hro hd z hz
    · intro hcf y hy hky
      rw [hg] at hcf hy
      rw [hkind] at hky
      rw [(hfield y (data y hy)).2.1]
      exact c.srcClean hcf y hy hky

/-- the polled effect during the walk over its sources -/
structure WalkSelf (p : Prog) (s : State) (e : Nat) : Prop where
  vals : NoFB p e → (s.get e).dirty = false → ∀ z ∈ (s.get e).seen,
    (s.get z.1).running = true ∨ (s.get z.1).val = some z.2.1
  dc : (s.get e).dirty = true → (s.get e).chan = true
  cw : (s.get e).chan = true → (s.get e).woken = true

theorem WalkSelf.of_upd {p : Prog} {s : State} {m : Nat} {r : State × Bool} (up : UpdPost p s m r)
    {e : Nat} (hk : (s.get e).kind = .eff) (hb : EffB s e) (ho : s.obs ≠ some e)
    (h : WalkSelf p s e) : WalkSelf p r.1 e := by
  have hc := up.frame.effCore e hk
  have cf := Node.core_fields hc
  have fl := up.frame.flags
  refine ⟨?_, ?_, ?_⟩
  · intro hro hd z hz
    rw [cf.2.2.2.2.2.2.1] at hz
    have hd0 : (s.get e).dirty = false := by
      cases hd0 : (s.get e).dirty with
      | false => rfl
      | true => rw [fl.d e hd0] at hd; cases hd
    have hv := h.vals hro hd0 z hz
    rw [up.running]
    by_cases hval : (r.1.get z.1).val = (s.get z.1).val
    · rw [hval]; exact hv
    · exfalso
      have hsrc : z.1 ∈ (s.get e).sources := by rw [hb.srcSeen]; exact List.mem_map_of_mem hz
      rcases up.valCh e hk z.1 hsrc hval with h' | h' | h'
      · rw [hd] at h'; cases h'
      · exact ho h'
      · rw [hb.live.1] at h'; cases h'
  · intro hd
    rcases fl.newD e hd with h' | h'
    · exact fl.c e (h.dc h')
    · exact h'.1
  · intro hc'
    rcases fl.newC e hc' with h' | h'
    · exact fl.w e (h.cw h')
    · exact h'

theorem walk_keeps_clean {p : Prog} {u : State → Nat → State × Bool} {f : Nat} (hu : UpdOK p u f)
    (e : Nat) : ∀ (l : List Nat) (s : State), (∀ x ∈ l, x < f) → Quiet p s → ∀ y,
      (s.get y).st = .clean → ((anySrc u false e l s).1.get y).st = .clean
  | [], _, _, _, _, h => h
  | x :: l, s, hl, hq, y, hy => by
    have up := hu s x hq.inv (hl x List.mem_cons_self) (hq.idle x)
      (fun r hr => by rw [hq.idle r] at hr; cases hr)
    unfold anySrc
    generalize u s x = r at up
    obtain ⟨s1, ch⟩ := r
    have q1 : Quiet p s1 := ⟨up.inv, fun i => (up.running i).trans (hq.idle i)⟩
    have hy1 : (s1.get y).st = .clean := (up.frame.clean y hy).1
    simp only
    split
    · exact hy1
    · exact walk_keeps_clean hu e l s1 (fun z hz => hl z (List.mem_cons_of_mem _ hz)) q1 y hy1

structure WalkPost (p : Prog) (D : Nat → Prop) (s : State) (e : Nat) (l : List Nat) (r : State × Bool) : Prop where
  quiet : Quiet p r.1
  conv : InvC p r.1 (some e) D
  kind : ∀ i, (r.1.get i).kind = (s.get i).kind
  self : WalkSelf p r.1 e
  base : EffB r.1 e
  core : (r.1.get e).core = (s.get e).core
  allClean : r.2 = false → ∀ x ∈ l, (s.get x).kind = .memo → (r.1.get x).st = .clean
  ss : SrcStatic p s → SrcStatic p r.1

theorem walk_specC {p : Prog} {u : State → Nat → State × Bool} {f : Nat} (hu : UpdOK p u f)
    (e : Nat) : ∀ (l : List Nat) (s : State), (∀ x ∈ l, x < f) → Quiet p s → InvC p s (some e) D →
      (s.get e).kind = .eff → EffB s e → WalkSelf p s e → WalkPost p D s e l (anySrc u false e l s)
  | [], s, _, hq, hc, _, hb, hw => ⟨hq, hc, fun _ => rfl, hw, hb, rfl, fun _ _ hx => (by cases hx), fun h => h⟩
  | x :: l, s, hl, hq, hc, hk, hb, hw => by
    have up := hu s x hq.inv (hl x List.mem_cons_self) (hq.idle x)
      (fun r hr => by rw [hq.idle r] at hr; cases hr)
    unfold anySrc
    generalize u s x = r at up
    obtain ⟨s1, ch⟩ := r
    have q1 : Quiet p s1 := ⟨up.inv, fun i => (up.running i).trans (hq.idle i)⟩
    have hobs : s.obs ≠ some e := by rw [hq.obs]; simp
    have c1 : InvC p s1 (some e) D := hc.of_upd up (fun o ho => by rw [hq.obs] at ho; cases ho)
    have w1 : WalkSelf p s1 e := hw.of_upd up hk hb hobs
    have b1 : EffB s1 e := hb.of_core (up.frame.effCore e hk)
    simp only
    split
    · exact ⟨q1, c1, up.frame.kind, w1, b1, up.frame.effCore e hk, fun hc' => (by cases hc'), up.ss⟩
    · have ih := walk_specC hu e l s1 (fun y hy => hl y (List.mem_cons_of_mem _ hy)) q1 c1
        (by rw [up.frame.kind]; exact hk) b1 w1
      refine ⟨ih.quiet, ih.conv, fun i => (ih.kind i).trans (up.frame.kind i), ih.self, ih.base,
        ih.core.trans (up.frame.effCore e hk), ?_, fun h => ih.ss (up.ss h)⟩
      intro hfalse y hy hky
      rcases List.mem_cons.1 hy with rfl | hy
      · -- `y` was cleaned by its own `upd` and stays clean
        have hcl : (s1.get y).st = .clean := up.clean hky
        have hq1 : Quiet p s1 := q1
        -- clean nodes stay clean during the rest of the walk: every later step is an `upd`
        exact walk_keeps_clean hu e l s1 (fun y hy => hl y (List.mem_cons_of_mem _ hy)) q1 y hcl
      · exact ih.allClean hfalse y hy (by rw [up.frame.kind]; exact hky)

/-- flag update on the polled effect (`e` stays non-running) -/
theorem InvC.flagBusy {p : Prog} {s : State} {e : Nat} (hI : InvR p s) (h : InvC p s (some e) D)
    (hk : (s.get e).kind = .eff) (hr : (s.get e).running = false) (g : Node → Node)
    (gc : ∀ n, (g n).core = n.core) (hD : ¬ D e) :
    InvC p (s.upd e g) (some e) D ∧ EffB (s.upd e g) e := by
  have he : e < s.nodes.length := s.lt_of_kind_ne (by rw [hk]; simp)
  have ge : (s.upd e g).get e = g (s.get e) := State.get_upd_same _ _ he
  have go : ∀ i, i ≠ e → (s.upd e g).get i = s.get i := fun i hi => State.get_upd_ne _ _ (Ne.symm hi)
  have hb : EffB (s.upd e g) e := (h.base e hk hr hD).of_core (by rw [ge]; exact gc _)
  refine ⟨InvC.congrE e hI (fun i hi _ => go i hi) ?_ ?_ (fun _ => hb) hD h, hb⟩
  · intro y; by_cases hy : y = e
    · subst hy; rw [ge]; exact (Node.core_fields (gc _)).1
    · rw [go y hy]
  · intro y hky
    have hy : y ≠ e := by intro hc; subst hc; exact hky hk
    rw [go y hy]; exact ⟨rfl, rfl, rfl⟩

structure EffUpdPostC (p : Prog) (D : Nat → Prop) (s3 : State) (e : Nat) (need : Bool) : Prop where
  quiet : Quiet p s3
  conv : InvC p s3 (some e) D
  kind : (s3.get e).kind = .eff
  base : EffB s3 e
  clean : (s3.get e).dirty = false
  cw : (s3.get e).chan = true → (s3.get e).woken = true
  ss : SrcStatic p s3
  valOK : ValOK p s3 e
  ready : need = false → (NoFB p e → ∀ z ∈ (s3.get e).seen,
      (s3.get z.1).running = true ∨ (s3.get z.1).val = some z.2.1) ∧
    ∀ y ∈ (s3.get e).sources, (s3.get y).kind = .memo → (s3.get y).st = .clean

theorem effUpdate_specC {p : Prog} {f : Nat} (hu : UpdOK p (upd p f) f) (hf : p.length ≤ f)
    {s : State} {e : Nat} (hq : Quiet p s) (hc : InvC p s (some e) D) (hk : (s.get e).kind = .eff)
    (hvals : NoFB p e → (s.get e).dirty = false → ∀ z ∈ (s.get e).seen,
      (s.get z.1).running = true ∨ (s.get z.1).val = some z.2.1)
    (hchan : (s.get e).chan = false) (hss : SrcStatic p s) (hD : ¬ D e) (hval : ValOK p s e) :
    EffUpdPostC p D ({ (effUpdate p f { s with obs := some e } e).1 with obs := none }) e
      (effUpdate p f { s with obs := some e } e).2 := by
  have hobs := hq.obs
  have he : e < s.nodes.length := s.lt_of_kind_ne (by rw [hk]; simp)
  have hb := hc.base e hk (hq.idle e) hD
  cases hd : (s.get e).dirty with
  | true =>
    rw [effUpdate_dirty p f { s with obs := some e } e hd]
    have e1 : ({ (({ s with obs := some e } : State).upd e fun n => { n with dirty := false }) with
        obs := none } : State) = ({ s with obs := none } : State).upd e fun n => { n with dirty := false } := rfl
    simp only
    rw [e1, State.setObs_none_eq hobs]
    obtain ⟨c', b'⟩ := hc.flagBusy hq.inv hk (hq.idle e) (fun n => { n with dirty := false })
      (fun _ => rfl) hD
    obtain ⟨q', hk'⟩ := hq.flagEff hk (fun n => { n with dirty := false })
      (fun _ => ⟨rfl, rfl, rfl, rfl, rfl, rfl⟩)
    have ge : (s.upd e fun n => { n with dirty := false }).get e = { s.get e with dirty := false } :=
      State.get_upd_same _ _ he
    exact ⟨q', c', hk', b', by rw [ge], (by rw [ge]; intro hc'; rw [hchan] at hc'; cases hc'),
      hss.updFlag e _ (fun _ => rfl), hval.of_core (by rw [ge]; rfl), fun hn => by cases hn⟩
  | false =>
    rw [effUpdate_clean p f { s with obs := some e } e hd]
    have e0 : ({ ({ s with obs := some e } : State) with obs := none } : State) = s :=
      State.setObs_none_eq hobs
    simp only [State.setObs_get]
    rw [e0]
    have hw := walk_specC hu e (s.get e).sources s (fun x hx => by
      have := hq.inv.srcLt e x hx
      have := hq.inv.len
      omega) hq hc hk hb
      ⟨hvals, fun hd' => (by rw [hd] at hd'; cases hd'), fun hc' => (by rw [hchan] at hc'; cases hc')⟩
    generalize anySrc (upd p f) false e (s.get e).sources s = r at hw
    obtain ⟨s2, any⟩ := r
    simp only at hw ⊢
    have hk2 : (s2.get e).kind = .eff := by rw [hw.kind]; exact hk
    have he2 : e < s2.nodes.length := s2.lt_of_kind_ne (by rw [hk2]; simp)
    have e1 : ({ (({ s2 with obs := some e } : State).upd e fun n => { n with dirty := false }) with
        obs := none } : State) = ({ s2 with obs := none } : State).upd e fun n => { n with dirty := false } := rfl
    rw [e1, State.setObs_none_eq hw.quiet.obs]
    obtain ⟨c', b'⟩ := hw.conv.flagBusy hw.quiet.inv hk2 (hw.quiet.idle e)
      (fun n => { n with dirty := false }) (fun _ => rfl) hD
    obtain ⟨q', hk'⟩ := hw.quiet.flagEff hk2 (fun n => { n with dirty := false })
      (fun _ => ⟨rfl, rfl, rfl, rfl, rfl, rfl⟩)
    have ge : (s2.upd e fun n => { n with dirty := false }).get e = { s2.get e with dirty := false } :=
      State.get_upd_same _ _ he2
    have go : ∀ i, i ≠ e → (s2.upd e fun n => { n with dirty := false }).get i = s2.get i :=
      fun i hi => State.get_upd_ne _ _ (Ne.symm hi)
    have gfield : ∀ y, ((s2.upd e fun n => { n with dirty := false }).get y).running = (s2.get y).running ∧
        ((s2.upd e fun n => { n with dirty := false }).get y).val = (s2.get y).val ∧
        ((s2.upd e fun n => { n with dirty := false }).get y).st = (s2.get y).st ∧
        ((s2.upd e fun n => { n with dirty := false }).get y).kind = (s2.get y).kind := by
      intro y; by_cases hy : y = e
      · subst hy; rw [ge]; exact ⟨rfl, rfl, rfl, rfl⟩
      · rw [go y hy]; exact ⟨rfl, rfl, rfl, rfl⟩
    refine ⟨q', c', hk', b', by rw [ge], (by rw [ge]; exact hw.self.cw),
      (hw.ss hss).updFlag e _ (fun _ => rfl),
      (hval.of_core hw.core).of_core (by rw [ge]; rfl), ?_⟩
    intro hneed
    have hany : any = false := by
      cases any with
      | false => rfl
      | true => simp at hneed
    have hwas : (s2.get e).dirty = false := by
      cases hd2 : (s2.get e).dirty with
      | false => rfl
      | true => rw [hany, hd2] at hneed; simp at hneed
    refine ⟨?_, ?_⟩
    · intro hro z hz
      rw [ge] at hz
      rw [(gfield z.1).1, (gfield z.1).2.1]
      exact hw.self.vals hro hwas z hz
    · intro y hy hky
      rw [ge] at hy
      have hsrc : (s2.get e).sources = (s.get e).sources := (Node.core_fields hw.core).2.2.1
      rw [hsrc] at hy
      rw [(gfield y).2.2.2, hw.kind] at hky
      rw [(gfield y).2.2.1]
      exact hw.allClean hany y hy hky

theorem effRun_specC {p : Prog} {f : Nat} (hu : UpdOK p (upd p f) f) (hf : p.length < f)
    (hpe : EffOK p) {s : State} {e : Nat} (hq : Quiet p s) (hc : InvC p s (some e) D)
    (hk : (s.get e).kind = .eff) (hd : (s.get e).dirty = false)
    (hcw : (s.get e).chan = true → (s.get e).woken = true) (hss : SrcStatic p s) (hD : ¬ D e) :
    TopC p (effRun p f s e none) D ∧ ((effRun p f s e none).get e).kind = .eff := by
  have he : e < s.nodes.length := s.lt_of_kind_ne (by rw [hk]; simp)
  have hep : e < p.length := by rw [← hq.inv.len]; exact he
  have hb := hc.base e hk (hq.idle e) hD
  have q1 := hq.updEff hk (fun n => { n with first := false }) hk rfl rfl (fun _ hx => hx)
    (Nat.le_refl _) (hq.idle e)
  unfold effRun
  generalize hs1 : (s.upd e fun n => { n with first := false }) = s1 at q1
  have g1e : s1.get e = { s.get e with first := false } := by subst hs1; rw [State.get_upd_same _ _ he]
  have g1o : ∀ i, i ≠ e → s1.get i = s.get i := by
    intro i hi; subst hs1; rw [State.get_upd_ne _ _ (Ne.symm hi)]
  have hk1 : (s1.get e).kind = .eff := by rw [g1e]; exact hk
  have he1 : e < s1.nodes.length := by subst hs1; simpa using he
  have t := clearSources_post (s := s1) (m := e) q1.inv.nodup
    (fun i hni hc' => hni ((q1.inv.edge i e).1 hc'))
    (fun hc' => Nat.lt_irrefl e (q1.inv.srcLt e e hc')) he1
  have h2 := clearSources_inv_eff q1.inv t hk1
  simp only
  generalize clearSources s1 e = s2 at t h2
  have hk2 : (s2.get e).kind = .eff := by rw [t.gm]; exact hk1
  have he2 : e < s2.nodes.length := by rw [t.len]; exact he1
  have idle2 : ∀ i, (s2.get i).running = false := by
    intro i; by_cases hi : i = e
    · subst hi; rw [t.gm]; exact q1.idle i
    · rw [t.go i hi]; exact q1.idle i
  generalize hs4 : ({ noteRun s2 e with obs := some e } : State) = s4
  have g4 : ∀ i, s4.get i = if e = i ∧ i < s2.nodes.length then
      { s2.get i with seen := [], runs := (s2.get i).runs + 1, running := true } else s2.get i := by
    intro i; subst hs4; exact noteRun_get s2 e i
  have g4e : s4.get e = { s2.get e with seen := [], runs := (s2.get e).runs + 1, running := true } := by
    rw [g4 e, if_pos ⟨rfl, he2⟩]
  have g4o : ∀ i, i ≠ e → s4.get i = s2.get i := by
    intro i hi; rw [g4 i, if_neg (fun hc' => hi hc'.1.symm)]
  have g4o' : ∀ i, i ≠ e → s4.get i = { s.get i with subs := (s.get i).subs.erase e } := by
    intro i hi; rw [g4o i hi, t.go i hi, g1o i hi]
  have h4 : InvR p s4 := by
    have hq2 : Quiet p s2 := ⟨h2, idle2⟩
    have h3 := hq2.inv.updEff hk2 (fun n => { n with seen := [], runs := n.runs + 1, running := true })
      hk2 rfl rfl (fun _ hx => by cases hx) (Nat.le_refl _) (fun _ => rfl)
    refine h3.reobs (s' := s4) ?_ ?_
    · subst hs4
      unfold noteRun
      simp only [State.emit_nodes]
      split <;> rfl
    · intro o ho
      have : o = e := by subst hs4; simpa using ho.symm
      subst this
      rw [State.get_upd_same _ _ he2]
  have l4 : EffLoc s4 e := by
    refine ⟨by subst hs4; rfl, by rw [g4e]; exact hk2, by rw [g4e], ?_⟩
    intro r hr
    by_cases hre : r = e
    · exact hre
    · rw [g4o r hre, idle2 r] at hr; cases hr
  have c4 : InvC p s4 (some e) D := by
    refine InvC.congrE e hq.inv ?_ ?_ ?_ (fun hr => by rw [g4e] at hr; cases hr) hD hc
    · intro i hie hki
      rw [g4o' i hie]
      have : e ∉ (s.get i).subs := by
        intro hc'
        exact hq.inv.srcData e i ((hq.inv.edge i e).1 hc') hki
      simp only [List.erase_of_not_mem this]
    · intro y; by_cases hy : y = e
      · subst hy; rw [g4e, t.gm, g1e]
      · rw [g4o' y hy]
    · intro y hky
      have hy : y ≠ e := by intro hc'; subst hc'; exact hky hk
      rw [g4o' y hy]; exact ⟨rfl, rfl, rfl⟩
  have ss4 : SrcStatic p s4 := hss.mono (fun w y hy => by
    by_cases hw : w = e
    · subst hw; rw [g4e, t.gm] at hy; cases hy
    · rw [g4o' w hw] at hy; exact hy)
  have q4 : QC p s4 e D := by
    refine ⟨c4, ⟨(by rw [g4e, t.gm, g1e]; exact hb.live), (by rw [g4e, t.gm]; rfl),
      fun _ z hz => (by rw [g4e] at hz; cases hz), fun _ z hz => (by rw [g4e] at hz; cases hz), ?_, ?_,
      (by rw [g4e, t.gm, g1e]), (by rw [g4e]; exact Nat.succ_ne_zero _)⟩, ss4⟩
    · intro hd4
      rw [g4e, t.gm, g1e] at hd4
      rw [hd] at hd4; cases hd4
    · intro hc4
      rw [g4e, t.gm, g1e] at hc4 ⊢
      exact hcw hc4
  -- the body
  obtain ⟨b, hb'⟩ : ∃ b, p[e]? = some (.eff b) := by
    have hd' : p[e]? = some p[e] := List.getElem?_eq_getElem hep
    have := hq.inv.kind e _ hd'
    rw [hk] at this
    cases hp : p[e] with
    | eff b => exact ⟨b, by rw [hd', hp]⟩
    | sig v => rw [hp] at this; cases this
    | memo b => rw [hp] at this; cases this
  have hbody := hpe e b hb'
  have hbo : bodyOf p e = b := by simp only [bodyOf, hb']
  have ev := evalEff_spec hu (by omega) f (by omega) (bodyOf p e) s4 h4 l4
    (by rw [hbo]; exact hbody.1) (by rw [hbo]; exact hbody.2.1) (by rw [hbo]; exact hbody.2.2)
  have evq := evalEff_gen2 hu (e := e) (by omega) f (by omega) (fun s => QC p s e D)
    (fun y => (bodyOf p e).readsNode y = true) (fun sg => (bodyOf p e).writesSig sg = true)
    (fun s x hrx h' hl' hq' hx hkx => hreadC hu (by omega) s x hrx h' hl' hq' hx hkx)
    (fun s x v0 v hW h' hl' hq' hx => hwriteC f (by omega) s x v0 v hW h' hl' hq' hx)
    (bodyOf p e) s4 h4 l4 q4
    (by rw [hbo]; exact hbody.1) (by rw [hbo]; exact hbody.2.1) (by rw [hbo]; exact hbody.2.2)
    (fun _ hy => hy) (fun _ hy => hy)
  have evv := evalEff_val hu (e := e) (by omega) f (by omega) (bodyOf p e) s4 h4 l4
    (by rw [hbo]; exact hbody.1) (by rw [hbo]; exact hbody.2.1) (by rw [hbo]; exact hbody.2.2)
  generalize evalE (readNode (upd p f)) (setSignal f) e (bodyOf p e) s4 = r at ev evq evv
  obtain ⟨s8, v⟩ := r
  simp only at ev evq evv ⊢
  obtain ⟨h8, l8⟩ := ev
  obtain ⟨L8, hL8, hval8⟩ := evv
  have hseen8 : (s8.get e).seen = L8 := by rw [hL8, g4e]; rfl
  have h9 : InvR p ({ s8 with obs := none } : State) :=
    h8.reobs rfl (fun o ho => by cases ho)
  have he9 : e < ({ s8 with obs := none } : State).nodes.length := s8.lt_of_running l8.running
  generalize hs10 : (({ s8 with obs := none } : State).upd e fun n =>
    { n with val := some v, running := false, ver := (if ((s2.get e).val != some v) = true then n.ver + 1 else n.ver) }) = s10
  have h10 : InvR p s10 := by
    subst hs10
    refine h9.updEff l8.kind _ l8.kind rfl rfl (fun _ hx => hx) ?_ (fun ho => by cases ho)
    simp only [State.setObs_get]; split <;> omega
  have g10e : s10.get e = { s8.get e with val := some v, running := false, ver := (if ((s2.get e).val != some v) = true then (s8.get e).ver + 1 else (s8.get e).ver) } := by
    subst hs10; rw [State.get_upd_same _ _ he9]; rfl
  have g10o : ∀ i, i ≠ e → s10.get i = s8.get i := by
    intro i hi; subst hs10; rw [State.get_upd_ne _ _ (Ne.symm hi)]; rfl
  have idle10 : ∀ i, (s10.get i).running = false := by
    intro i; by_cases hi : i = e
    · subst hi; rw [g10e]
    · rw [g10o i hi]
      cases hr : (s8.get i).running with
      | false => rfl
      | true => exact absurd (l8.only i hr) hi
  have sl := evq.self
  have b10 : EffB s10 e :=
    ⟨(by rw [g10e]; exact sl.live), (by rw [g10e]; exact sl.srcSeen), fun _ => (by rw [g10e]; exact sl.ran)⟩
  have c10 : InvC p s10 (some e) D := by
    refine InvC.congrE e h8 (fun i hie _ => g10o i hie) ?_ ?_ (fun _ => b10) hD evq.others
    · intro y; by_cases hy : y = e
      · subst hy; rw [g10e]
      · rw [g10o y hy]
    · intro y hky
      have hy : y ≠ e := by intro hc'; subst hc'; exact hky l8.kind
      rw [g10o y hy]; exact ⟨rfl, rfl, rfl⟩
  have data_ne : ∀ z, z ∈ (s8.get e).seen → z.1 ≠ e := by
    intro z hz hze
    have : z.1 ∈ (s8.get e).sources := by rw [sl.srcSeen]; exact List.mem_map_of_mem hz
    exact h8.srcData e z.1 this (by rw [hze]; exact l8.kind)
  have ss10 : SrcStatic p s10 := evq.ss.mono (fun w y hy => by
    by_cases hw : w = e
    · subst hw; rw [g10e] at hy; exact hy
    · rw [g10o w hw] at hy; exact hy)
  refine ⟨⟨⟨h10, idle10⟩, c10.close (fun _ => ?_), ss10⟩, by rw [g10e]; exact l8.kind⟩
  refine ⟨?_, ?_, ?_, ?_, ?_⟩
  rotate_left 4
  · intro _ ρ hρ
    rw [g10e] at hρ ⊢
    have hρ' : ∀ z ∈ L8, ρ z.1 = z.2.1 := by
      intro z hz; apply hρ; show z ∈ (s8.get e).seen; rw [hseen8]; exact hz
    show some v = some (evalPure ρ (bodyOf p e))
    rw [hval8 ρ hρ']
  · intro hro hd10 z hz
    rw [g10e] at hz
    have hz' : z ∈ (s8.get e).seen := hz
    right
    rw [g10o z.1 (data_ne z hz')]
    exact (sl.seenNF hro z hz').2
  · intro hc10
    rw [g10e] at hc10 ⊢
    have hc8 : (s8.get e).chan = false := hc10
    refine ⟨?_, sl.noFirst⟩
    cases hd8 : (s8.get e).dirty with
    | false => rfl
    | true => rw [sl.dc hd8] at hc8; cases hc8
  · intro hc10
    rw [g10e] at hc10 ⊢
    exact sl.cw hc10
  · intro hc10 y hy hky
    rw [g10e] at hc10 hy
    have hc8 : (s8.get e).chan = false := hc10
    have hy8 : y ∈ (s8.get e).sources := hy
    rw [sl.srcSeen] at hy8
    obtain ⟨z, hz, hzy⟩ := List.mem_map.1 hy8
    have hye : y ≠ e := by rw [← hzy]; exact data_ne z hz
    rw [g10o y hye] at hky ⊢
    rw [← hzy] at hky ⊢
    exact sl.closed hc8 z hz hky

theorem EffC.toBusy {p : Prog} {s : State} {e : Nat} (h : EffC p s e) : BusyC p s e :=
  ⟨h.vals, h.quietFlags, h.srcClean, h.valOK⟩

theorem effLoop_specC {p : Prog} {f : Nat} (hu : UpdOK p (upd p f) f) (hf : p.length < f)
    (hpe : EffOK p) (e : Nat) : ∀ (k : Nat) (s : State), Quiet p s → InvC p s (some e) D →
      (s.get e).kind = .eff → BusyC p s e →
      (k = 0 → (s.get e).chan = true → (s.get e).woken = true) → SrcStatic p s → ¬ D e →
      TopC p (effLoop p f k s e) D
  | 0, s, hq, hc, _, hb, hcw, hss, _ =>
    ⟨hq, hc.close (fun _ => ⟨hb.vals, hb.quietFlags, hcw rfl, hb.srcClean, hb.valOK⟩), hss⟩
  | k + 1, s, hq, hc, hk, hb, _, hss, hD => by
    rw [effLoop_succ]
    split
    · next hnc =>
      have hcf : (s.get e).chan = false := by simpa using hnc
      exact ⟨hq, hc.close (fun _ => ⟨hb.vals, hb.quietFlags, fun h => (by rw [hcf] at h; cases h), hb.srcClean, hb.valOK⟩), hss⟩
    · have he : e < s.nodes.length := s.lt_of_kind_ne (by rw [hk]; simp)
      obtain ⟨q1, hk1⟩ := hq.flagEff hk (fun n => { n with chan := false })
        (fun _ => ⟨rfl, rfl, rfl, rfl, rfl, rfl⟩)
      obtain ⟨c1, b1⟩ := hc.flagBusy hq.inv hk (hq.idle e) (fun n => { n with chan := false })
        (fun _ => rfl) hD
      have g1e : (s.upd e fun n => { n with chan := false }).get e = { s.get e with chan := false } :=
        State.get_upd_same _ _ he
      have g1f : ∀ y, ((s.upd e fun n => { n with chan := false }).get y).running = (s.get y).running ∧
          ((s.upd e fun n => { n with chan := false }).get y).val = (s.get y).val := by
        intro y; rw [State.get_upd]; split <;> exact ⟨rfl, rfl⟩
      have hvals1 : NoFB p e → ((s.upd e fun n => { n with chan := false }).get e).dirty = false →
          ∀ z ∈ ((s.upd e fun n => { n with chan := false }).get e).seen,
            ((s.upd e fun n => { n with chan := false }).get z.1).running = true ∨
            ((s.upd e fun n => { n with chan := false }).get z.1).val = some z.2.1 := by
        intro hro hd z hz
        rw [g1e] at hd hz
        rw [(g1f z.1).1, (g1f z.1).2]
        exact hb.vals hro hd z hz
      have hchan1 : ((s.upd e fun n => { n with chan := false }).get e).chan = false := by rw [g1e]
      have hss1 : SrcStatic p (s.upd e fun n => { n with chan := false }) := hss.updFlag e _ (fun _ => rfl)
      have hval1 : ValOK p (s.upd e fun n => { n with chan := false }) e :=
        hb.valOK.of_core (by rw [g1e]; rfl)
      simp only
      generalize (s.upd e fun n => { n with chan := false }) = s1 at q1 hk1 c1 b1 hvals1 hchan1 hss1 hval1
      split
      · next hp => rw [b1.live.2.1] at hp; cases hp
      · have post := effUpdate_specC hu (by omega) q1 c1 hk1 hvals1 hchan1 hss1 hD hval1
        rw [q1.obs]
        generalize effUpdate p f { s1 with obs := some e } e = r at post
        obtain ⟨s2, need⟩ := r
        simp only at post ⊢
        split
        · obtain ⟨t4, hk4⟩ := effRun_specC hu hf hpe post.quiet post.conv post.kind post.clean post.cw post.ss hD
          have e4 := t4.conv.eff e hk4 (t4.quiet.idle e) hD (by simp)
          exact effLoop_specC hu hf hpe e k _ t4.quiet (t4.conv.weaken _) hk4 e4.toBusy
            (fun _ => e4.chanWoken) t4.ss hD
        · next hnr =>
          have hneed : need = false := by
            cases need with
            | false => rfl
            | true => simp at hnr
          have hfirst : (({ s2 with obs := none } : State).get e).first = false := by
            cases hf' : (({ s2 with obs := none } : State).get e).first with
            | false => rfl
            | true => rw [hneed, hf'] at hnr; simp at hnr
          have rdy := post.ready hneed
          have e3 : EffC p ({ s2 with obs := none } : State) e :=
            ⟨fun hro _ => rdy.1 hro, fun _ => ⟨post.clean, hfirst⟩, post.cw, fun _ => rdy.2, post.valOK⟩
          exact effLoop_specC hu hf hpe e k _ post.quiet post.conv post.kind e3.toBusy
            (fun _ => e3.chanWoken) post.ss hD

theorem pollEff_specC {p : Prog} (hp : MemoOK p) (hpe : EffOK p) {s : State} {e : Nat} (h : TopC p s NoDead)
    (hk : (s.get e).kind = .eff) : TopC p (pollEff p s e) NoDead := by
  unfold pollEff
  have he : e < s.nodes.length := s.lt_of_kind_ne (by rw [hk]; simp)
  have e0 := h.conv.eff e hk (h.quiet.idle e) (fun hd => hd) (by simp)
  obtain ⟨q1, hk1⟩ := h.quiet.flagEff hk (fun n => { n with woken := false })
    (fun _ => ⟨rfl, rfl, rfl, rfl, rfl, rfl⟩)
  obtain ⟨c1, b1⟩ := (h.conv.weaken (some e)).flagBusy h.quiet.inv hk (h.quiet.idle e)
    (fun n => { n with woken := false }) (fun _ => rfl) (fun hd => hd)
  have g1e : (s.upd e fun n => { n with woken := false }).get e = { s.get e with woken := false } :=
    State.get_upd_same _ _ he
  have g1f : ∀ y, ((s.upd e fun n => { n with woken := false }).get y).running = (s.get y).running ∧
      ((s.upd e fun n => { n with woken := false }).get y).val = (s.get y).val ∧
      ((s.upd e fun n => { n with woken := false }).get y).st = (s.get y).st ∧
      ((s.upd e fun n => { n with woken := false }).get y).kind = (s.get y).kind := by
    intro y; rw [State.get_upd]; split <;> exact ⟨rfl, rfl, rfl, rfl⟩
  have hb1 : BusyC p (s.upd e fun n => { n with woken := false }) e := by
    refine ⟨?_, ?_, ?_, e0.valOK.of_core (by rw [g1e]; rfl)⟩
    · intro hro hd z hz
      rw [g1e] at hd hz
      rw [(g1f z.1).1, (g1f z.1).2.1]
      exact e0.vals hro hd z hz
    · intro hc; rw [g1e] at hc ⊢; exact e0.quietFlags hc
    · intro hc y hy hky
      rw [g1e] at hc hy
      rw [(g1f y).2.2.2] at hky
      rw [(g1f y).2.2.1]
      exact e0.srcClean hc y hy hky
  have hss1 : SrcStatic p (s.upd e fun n => { n with woken := false }) := h.ss.updFlag e _ (fun _ => rfl)
  simp only
  generalize (s.upd e fun n => { n with woken := false }) = s1 at q1 hk1 c1 b1 hb1 hss1
  split
  · next hal =>
    rw [b1.live.1] at hal; simp at hal
  · exact effLoop_specC (upd_ok hp (fuelFor p)) (by simp [fuelFor]) hpe e 64 s1 q1 c1 hk1 hb1
      (fun h0 => by cases h0) hss1 (fun hd => hd)

theorem pollNth_specC {p : Prog} (hp : MemoOK p) (hpe : EffOK p) {s : State} (h : TopC p s NoDead) (i : Nat) :
    TopC p (pollNth p s i) NoDead := by
  unfold pollNth
  simp only
  split
  · exact h
  · next hne =>
    apply pollEff_specC hp hpe h
    apply ready_kind
    have hpos : 0 < (ready s).length := by
      cases hr : ready s with
      | nil => rw [hr] at hne; simp at hne
      | cons a l => simp
    have hlt : i % (ready s).length < (ready s).length := Nat.mod_lt _ hpos
    rw [List.getD_eq_getElem?_getD, List.getElem?_eq_getElem hlt]
    exact List.getElem_mem hlt

theorem runIdle_specC {p : Prog} (hp : MemoOK p) (hpe : EffOK p) :
    ∀ (k : Nat) (s : State), TopC p s NoDead → TopC p (runIdle p k s) NoDead
  | 0, _, h => h
  | k + 1, s, h => by
    unfold runIdle
    split
    · exact h
    · exact runIdle_specC hp hpe k _ (pollNth_specC hp hpe h 0)

/-! ## top level -/

theorem init_eff_fields (p : Prog) (i : Nat) (hk : ((initState p).get i).kind = .eff) :
    ((initState p).get i).dirty = true ∧ ((initState p).get i).chan = true ∧
    ((initState p).get i).woken = true ∧ ((initState p).get i).first = true ∧
    ((initState p).get i).alive = true ∧ ((initState p).get i).paused = false ∧
    ((initState p).get i).done = false := by
  rw [initState_get] at hk ⊢
  cases hp : p[i]? with
  | none => rw [hp] at hk; simp at hk
  | some d =>
    rw [hp] at hk
    cases d <;> simp_all [initNode]

theorem init_topC (p : Prog) : TopC p (initState p) NoDead := by
  refine ⟨init_quiet p, ⟨?_, ?_, fun _ hd => hd.elim⟩, fun w y hy => by rw [(init_fields p w).1] at hy; cases hy⟩
  · intro i hk _ _
    have f := init_eff_fields p i hk
    have g := init_fields p i
    exact ⟨⟨f.2.2.2.2.1, f.2.2.2.2.2.1, f.2.2.2.2.2.2⟩, (by rw [g.1, g.2.2.1]; rfl),
      fun hf => (by rw [f.2.2.2.1] at hf; cases hf)⟩
  · intro i hk _ _ _
    have f := init_eff_fields p i hk
    exact ⟨fun _ hd => (by rw [f.1] at hd; cases hd), fun hc => (by rw [f.2.1] at hc; cases hc),
      fun _ => f.2.2.1, fun hc => (by rw [f.2.1] at hc; cases hc),
      fun hr => absurd (init_fields p i).2.2.2.2.1 hr⟩

def Op.plain : Op → Bool
  | .pause _ => false | .resume _ => false | .dispose _ => false | _ => true

theorem step_topC {p : Prog} (hp : MemoOK p) (hpe : EffOK p) {s : State}
    (h : TopC p s NoDead) (o : Op) (ho : o.plain = true) : TopC p (step p s o).1 NoDead := by
  cases o with
  | set id v =>
    simp only [step]
    split
    · next v0 hx =>
      have hf : s.nodes.length ≤ fuelFor p := by rw [h.quiet.inv.len]; simp [fuelFor]
      obtain ⟨hi, sp⟩ := setSignal_inv h.quiet.inv hx v hf
      exact ⟨⟨hi, fun i => (sp.running i).trans (h.quiet.idle i)⟩, h.conv.of_set h.quiet.inv hx v hf sp,
        h.ss.mono (fun w y hy => by rw [setSignal_sources] at hy; exact hy)⟩
    · exact h
  | read m =>
    simp only [step]
    have htrack : track s m = s := by unfold track; rw [h.quiet.obs]
    unfold readNode
    rw [htrack]
    simp only
    cases hk : (s.get m).kind with
    | eff => exact h
    | sig => exact h
    | memo =>
      simp only
      have hm : m < p.length := h.quiet.inv.memo_lt hk
      have post := upd_ok hp (fuelFor p) s m h.quiet.inv (by simp only [fuelFor]; omega) (h.quiet.idle m)
        (fun r hr => by rw [h.quiet.idle r] at hr; cases hr)
      exact ⟨⟨post.inv, fun i => (post.running i).trans (h.quiet.idle i)⟩,
        h.conv.of_upd post (fun o ho' => by rw [h.quiet.obs] at ho'; cases ho'), post.ss h.ss⟩
  | poll i => exact pollNth_specC hp hpe h i
  | idle => exact runIdle_specC hp hpe 256 s h
  | pause e => cases ho
  | resume e => cases ho
  | dispose e => cases ho

theorem run_topC {p : Prog} (hp : MemoOK p) (hpe : EffOK p) (ops : List Op)
    (hops : ∀ o ∈ ops, o.plain = true) : TopC p (run p ops) NoDead := by
  unfold run
  suffices ∀ s, TopC p s NoDead → TopC p (ops.foldl (fun s o => (step p s o).1) s) NoDead from
    this _ (init_topC p)
  induction ops with
  | nil => intro s h; exact h
  | cons o ops ih =>
    intro s h
    exact ih (fun o' ho' => hops o' (List.mem_cons_of_mem _ ho')) _
      (step_topC hp hpe h o (hops o List.mem_cons_self))

/-- **C02 (read-only effects)**: at an idle point every effect whose own body does not write has run
and has seen the current from-scratch value of everything it read -/
theorem effects_current {p : Prog} (hwf : WF p = true) (ht : bodiesTracked p = true) (ops : List Op)
    (hops : ∀ o ∈ ops, o.plain = true) (hidle : ready (run p ops) = []) (i : Nat)
    (hk : ((run p ops).get i).kind = .eff) (hro : NoFB p i) :
    ((run p ops).get i).runs ≠ 0 ∧
    ∀ z ∈ ((run p ops).get i).seen, specVal p (run p ops) z.1 = z.2.1 := by
  have h := run_topC (memoOK_of_wf hwf) (effOK_of_wf hwf ht) ops hops
  generalize run p ops = s at h hidle hk
  have hi : i < s.nodes.length := s.lt_of_kind_ne (by rw [hk]; simp)
  have hb := h.conv.base i hk (h.quiet.idle i) (fun hd => hd)
  have hc := h.conv.eff i hk (h.quiet.idle i) (fun hd => hd) (by simp)
  -- not woken
  have hw : (s.get i).woken = false := by
    cases hw : (s.get i).woken with
    | false => rfl
    | true =>
      have : i ∈ ready s := by
        unfold ready
        simp only [List.mem_filter, List.mem_range, Bool.and_eq_true, beq_iff_eq, Bool.not_eq_true']
        exact ⟨hi, ⟨hk, hw⟩, hb.live.2.2⟩
      rw [hidle] at this; cases this
  have hch : (s.get i).chan = false := by
    cases hc' : (s.get i).chan with
    | false => rfl
    | true => rw [hc.chanWoken hc'] at hw; cases hw
  have q := hc.quietFlags hch
  refine ⟨hb.ran q.2, ?_⟩
  intro z hz
  have hsrc : z.1 ∈ (s.get i).sources := by rw [hb.srcSeen]; exact List.mem_map_of_mem hz
  have hzi : z.1 < i := h.quiet.inv.srcLt i z.1 hsrc
  have hzp : z.1 < p.length := by rw [← h.quiet.inv.len]; omega
  have hdat := h.quiet.inv.srcData i z.1 hsrc
  have hcl : (s.get z.1).st = .clean := by
    cases hkz : (s.get z.1).kind with
    | eff => exact absurd hkz hdat
    | sig => exact (h.quiet.inv.sigOk z.1 hzp hkz).1
    | memo => exact hc.srcClean hch z.1 hsrc hkz
  have hv := h.quiet.inv.clean_correct hwf (memoTracked_of ht) z.1 hzp hdat hcl
  rcases hc.vals hro q.1 z hz with h1 | h1
  · rw [h.quiet.idle z.1] at h1; cases h1
  · rw [hv] at h1; exact Option.some.inj h1

/-- stronger form: not only at idle — whenever a read-only effect has no pending notification
(`chan = false`) it is current -/
theorem effect_current_of_unnotified {p : Prog} (hwf : WF p = true) (ht : bodiesTracked p = true)
    (ops : List Op) (hops : ∀ o ∈ ops, o.plain = true) (i : Nat)
    (hk : ((run p ops).get i).kind = .eff) (hro : NoFB p i) (hch : ((run p ops).get i).chan = false) :
    ((run p ops).get i).runs ≠ 0 ∧
    ∀ z ∈ ((run p ops).get i).seen, specVal p (run p ops) z.1 = z.2.1 := by
  have h := run_topC (memoOK_of_wf hwf) (effOK_of_wf hwf ht) ops hops
  generalize run p ops = s at h hk hch
  have hb := h.conv.base i hk (h.quiet.idle i) (fun hd => hd)
  have hc := h.conv.eff i hk (h.quiet.idle i) (fun hd => hd) (by simp)
  have q := hc.quietFlags hch
  refine ⟨hb.ran q.2, ?_⟩
  intro z hz
  have hsrc : z.1 ∈ (s.get i).sources := by rw [hb.srcSeen]; exact List.mem_map_of_mem hz
  have hzi : z.1 < i := h.quiet.inv.srcLt i z.1 hsrc
  have hi : i < s.nodes.length := s.lt_of_kind_ne (by rw [hk]; simp)
  have hzp : z.1 < p.length := by rw [← h.quiet.inv.len]; omega
  have hdat := h.quiet.inv.srcData i z.1 hsrc
  have hcl : (s.get z.1).st = .clean := by
    cases hkz : (s.get z.1).kind with
    | eff => exact absurd hkz hdat
    | sig => exact (h.quiet.inv.sigOk z.1 hzp hkz).1
    | memo => exact hc.srcClean hch z.1 hsrc hkz
  have hv := h.quiet.inv.clean_correct hwf (memoTracked_of ht) z.1 hzp hdat hcl
  rcases hc.vals hro q.1 z hz with h1 | h1
  · rw [h.quiet.idle z.1] at h1; cases h1
  · rw [hv] at h1; exact Option.some.inj h1

/-- in a WF program without self-feedback every effect satisfies the guard `NoFB` -/
theorem NoFB.of_noSelfFeedback {p : Prog} (hwf : WF p = true) (hnf : noSelfFeedback p = true) {i : Nat}
    {b : Expr} (hb : p[i]? = some (.eff b)) : NoFB p i := by
  intro sg y hw hr
  have hbo : bodyOf p i = b := by simp only [bodyOf, hb]
  rw [hbo] at hw hr
  have hwn := WF_get hwf hb
  simp only [wfNode, Bool.and_eq_true] at hwn
  have hi : i < p.length := by
    rcases Nat.lt_or_ge i p.length with h | h
    · exact h
    · rw [List.getElem?_eq_none h] at hb; cases hb
  have hy : y < p.length := by have := readsNode_lt b i y hwn.1 hr; omega
  have hsg : sg < p.length := writesSig_lt p b sg hwn.2 hw
  simp only [noSelfFeedback, List.all_eq_true, List.mem_range] at hnf
  have := hnf i hi
  rw [hb] at this
  simp only [List.all_eq_true, List.mem_range, Bool.or_eq_true, Bool.not_eq_true'] at this
  rcases this sg hsg with h | h
  · rw [hw] at h; cases h
  · rcases h y hy with h' | h'
    · rw [hr] at h'; cases h'
    · exact h'

end Leptos.Reactive
