import LeptosModel.Model.ServerFn
import LeptosModel.Proofs.ServerFnB64
/-!
# Proofs/ServerFnUtf8 — `String::from_utf8 (s.into_bytes()) = Ok(s)` for every `List Char`
-/
namespace Leptos.ServerFn
open Leptos

def ValidScalar (n : Nat) : Prop := n < 0xd800 ∨ (0xdfff < n ∧ n < 0x110000)

theorem char_validScalar (c : Char) : ValidScalar c.toNat := c.valid

theorem next1 (n : Nat) (h : n < 0x80) (rest : Bytes) : Url.utf8Next (n :: rest) = .valid 1 := by
  simp [Url.utf8Next, h]

theorem next2 (n : Nat) (h1 : 0x80 ≤ n) (h2 : n < 0x800) (rest : Bytes) :
    Url.utf8Next ((0xC0 + n / 64) :: (0x80 + n % 64) :: rest) = .valid 2 := by
  have a : ¬ (0xC0 + n / 64 < 0x80) := by omega
  have b : 0xC2 ≤ 0xC0 + n / 64 ∧ 0xC0 + n / 64 ≤ 0xDF := by omega
  have c : Url.isCont (0x80 + n % 64) = true := by simp [Url.isCont]; omega
  simp [Url.utf8Next, a, b, c]

theorem next3 (n : Nat) (h1 : 0x800 ≤ n) (h2 : n < 0x10000) (hs : n < 0xd800 ∨ 0xdfff < n) (rest : Bytes) :
    Url.utf8Next ((0xE0 + n / 4096) :: (0x80 + n / 64 % 64) :: (0x80 + n % 64) :: rest) = .valid 3 := by
  have a : ¬ (0xE0 + n / 4096 < 0x80) := by omega
  have b : ¬ (0xC2 ≤ 0xE0 + n / 4096 ∧ 0xE0 + n / 4096 ≤ 0xDF) := by omega
  have b' : 0xE0 ≤ 0xE0 + n / 4096 ∧ 0xE0 + n / 4096 ≤ 0xEF := by omega
  have c : Url.isCont (0x80 + n % 64) = true := by simp [Url.isCont]; omega
  simp [Url.utf8Next, a, b, b', c]
  omega

theorem next4 (n : Nat) (h1 : 0x10000 ≤ n) (h2 : n < 0x110000) (rest : Bytes) :
    Url.utf8Next ((0xF0 + n / 262144) :: (0x80 + n / 4096 % 64) :: (0x80 + n / 64 % 64) :: (0x80 + n % 64) :: rest)
      = .valid 4 := by
  have a : ¬ (0xF0 + n / 262144 < 0x80) := by omega
  have b : ¬ (0xC2 ≤ 0xF0 + n / 262144 ∧ 0xF0 + n / 262144 ≤ 0xDF) := by omega
  have b' : ¬ (0xE0 ≤ 0xF0 + n / 262144 ∧ 0xF0 + n / 262144 ≤ 0xEF) := by omega
  have b'' : 0xF0 ≤ 0xF0 + n / 262144 ∧ 0xF0 + n / 262144 ≤ 0xF4 := by omega
  have c : Url.isCont (0x80 + n % 64) = true := by simp [Url.isCont]; omega
  have c2 : Url.isCont (0x80 + n / 64 % 64) = true := by simp [Url.isCont]; omega
  simp [Url.utf8Next, a, b, b', b'', c, c2]
  omega

/-- the validator steps over the encoding of one scalar -/
theorem utf8ErrGo_enc (n : Nat) (hv : ValidScalar n) (rest : Bytes) (i : Nat) :
    ∃ k, utf8ErrGo 0 i (Wire.utf8EncodeChar n ++ rest) = utf8ErrGo 0 (i + k) rest := by
  unfold ValidScalar at hv
  by_cases h1 : n < 0x80
  · refine ⟨1, ?_⟩
    simp [Wire.utf8EncodeChar, h1, utf8ErrGo, next1 n h1]
  · by_cases h2 : n < 0x800
    · refine ⟨2, ?_⟩
      simp [Wire.utf8EncodeChar, h1, h2, utf8ErrGo, next2 n (by omega) h2]
    · by_cases h3 : n < 0x10000
      · refine ⟨3, ?_⟩
        simp [Wire.utf8EncodeChar, h1, h2, h3, utf8ErrGo, next3 n (by omega) h3 (by omega)]
      · refine ⟨4, ?_⟩
        simp [Wire.utf8EncodeChar, h1, h2, h3, utf8ErrGo, next4 n (by omega) (by omega)]

/-- the decoder reads the scalar back -/
theorem utf8DecodeGo_enc (n : Nat) (hv : ValidScalar n) (rest : Bytes) :
    utf8DecodeGo 0 (Wire.utf8EncodeChar n ++ rest) = Char.ofNat n :: utf8DecodeGo 0 rest := by
  unfold ValidScalar at hv
  by_cases h1 : n < 0x80
  · simp [Wire.utf8EncodeChar, h1, utf8DecodeGo]
  · by_cases h2 : n < 0x800
    · have a : ¬ (0xC0 + n / 64 < 0x80) := by omega
      have b : 0xC0 + n / 64 < 0xE0 := by omega
      simp [Wire.utf8EncodeChar, h1, h2, utf8DecodeGo, a, b, cont]
      congr 1; omega
    · by_cases h3 : n < 0x10000
      · have a : ¬ (0xE0 + n / 4096 < 0x80) := by omega
        have b : ¬ (0xE0 + n / 4096 < 0xE0) := by omega
        have c : 0xE0 + n / 4096 < 0xF0 := by omega
        simp [Wire.utf8EncodeChar, h1, h2, h3, utf8DecodeGo, a, b, c, cont]
        congr 1; omega
      · have a : ¬ (0xF0 + n / 262144 < 0x80) := by omega
        have b : ¬ (0xF0 + n / 262144 < 0xE0) := by omega
        have c : ¬ (0xF0 + n / 262144 < 0xF0) := by omega
        simp [Wire.utf8EncodeChar, h1, h2, h3, utf8DecodeGo, a, b, c, cont]
        congr 1; omega

theorem utf8EncodeChar_bytes (n : Nat) (hv : ValidScalar n) : IsBytes (Wire.utf8EncodeChar n) := by
  unfold ValidScalar at hv
  intro b hb
  unfold Wire.utf8EncodeChar at hb
  split at hb
  · simp at hb; omega
  · split at hb
    · simp at hb; omega
    · split at hb
      · simp at hb; omega
      · simp at hb; omega

theorem utf8Encode_cons (c : Char) (s : Str) : utf8Encode (c :: s) = Wire.utf8EncodeChar c.toNat ++ utf8Encode s := by
  simp [utf8Encode]

theorem utf8ErrGo_utf8Encode (s : Str) : ∀ i, utf8ErrGo 0 i (utf8Encode s) = none := by
  induction s with
  | nil => intro i; simp [utf8Encode, utf8ErrGo]
  | cons c cs ih =>
    intro i
    obtain ⟨k, hk⟩ := utf8ErrGo_enc c.toNat (char_validScalar c) (utf8Encode cs) i
    rw [utf8Encode_cons, hk, ih]

theorem utf8DecodeGo_utf8Encode (s : Str) : utf8DecodeGo 0 (utf8Encode s) = s := by
  induction s with
  | nil => simp [utf8Encode, utf8DecodeGo]
  | cons c cs ih =>
    rw [utf8Encode_cons, utf8DecodeGo_enc c.toNat (char_validScalar c), ih, Char.ofNat_toNat]

/-- **`String::from_utf8(s.into_bytes()) == Ok(s)`** -/
theorem fromUtf8_utf8Encode (s : Str) : fromUtf8 (utf8Encode s) = .ok s := by
  simp [fromUtf8, utf8ErrGo_utf8Encode s 0, utf8DecodeGo_utf8Encode s]

theorem utf8Encode_bytes (s : Str) : IsBytes (utf8Encode s) := by
  induction s with
  | nil => intro b hb; simp [utf8Encode] at hb
  | cons c cs ih =>
    intro b hb
    rw [utf8Encode_cons, List.mem_append] at hb
    rcases hb with h | h
    · exact utf8EncodeChar_bytes c.toNat (char_validScalar c) b h
    · exact ih b h

theorem validGo_enc (n : Nat) (hv : ValidScalar n) (rest : Bytes) :
    Url.validGo 0 (Wire.utf8EncodeChar n ++ rest) = Url.validGo 0 rest := by
  unfold ValidScalar at hv
  by_cases h1 : n < 0x80
  · simp [Wire.utf8EncodeChar, h1, Url.validGo, next1 n h1]
  · by_cases h2 : n < 0x800
    · simp [Wire.utf8EncodeChar, h1, h2, Url.validGo, next2 n (by omega) h2]
    · by_cases h3 : n < 0x10000
      · simp [Wire.utf8EncodeChar, h1, h2, h3, Url.validGo, next3 n (by omega) h3 (by omega)]
      · simp [Wire.utf8EncodeChar, h1, h2, h3, Url.validGo, next4 n (by omega) (by omega)]

/-- the bytes of a `String` are well-formed in the sense of `Model/Url` as well -/
theorem utf8Valid_utf8Encode (s : Str) : Url.utf8Valid (utf8Encode s) = true := by
  unfold Url.utf8Valid
  induction s with
  | nil => simp [utf8Encode, Url.validGo]
  | cons c cs ih => rw [utf8Encode_cons, validGo_enc c.toNat (char_validScalar c), ih]

end Leptos.ServerFn
