import LeptosModel.Proofs.KeyedDiff
/-!
# Lemmas about `apply_diff` (C11): what every phase does to `rendered_items`, the logs and the id counter
-/
namespace Leptos.Keyed

/-- the items that are in `rendered_items` -/
def somes (st : List (Option Item)) : List Item := st.filterMap id

/-- the item stored at index `i` -/
def itemAt (st : List (Option Item)) (i : Nat) : Option Item := (st[i]?).join

/-- a list of writes `children[pos] = val` -/
abbrev Writes := List (Nat × Option Item)

def applyWrites (st : List (Option Item)) (ws : Writes) : List (Option Item) :=
  ws.foldl (fun s w => s.set w.1 w.2) st

@[simp] theorem applyWrites_nil (st : List (Option Item)) : applyWrites st [] = st := rfl

@[simp] theorem applyWrites_cons (st : List (Option Item)) (w : Nat × Option Item) (ws : Writes) :
    applyWrites st (w :: ws) = applyWrites (st.set w.1 w.2) ws := rfl

theorem applyWrites_append (st : List (Option Item)) (a b : Writes) :
    applyWrites st (a ++ b) = applyWrites (applyWrites st a) b := by
  simp [applyWrites, List.foldl_append]

@[simp] theorem applyWrites_length (ws : Writes) : ∀ (st : List (Option Item)),
    (applyWrites st ws).length = st.length := by
  induction ws with
  | nil => simp
  | cons w ws ih => intro st; simp [ih]

theorem applyWrites_getElem?_of_not_mem (ws : Writes) : ∀ (st : List (Option Item)) (j : Nat),
    j ∉ ws.map (·.1) → (applyWrites st ws)[j]? = st[j]? := by
  induction ws with
  | nil => simp
  | cons w ws ih =>
    intro st j hj
    simp only [List.map_cons, List.mem_cons, not_or] at hj
    rw [applyWrites_cons, ih _ _ hj.2, List.getElem?_set_ne (Ne.symm hj.1)]

theorem applyWrites_getElem?_of_mem (ws : Writes) : ∀ (st : List (Option Item)) (j : Nat) (v : Option Item),
    (ws.map (·.1)).Nodup → (j, v) ∈ ws → j < st.length → (applyWrites st ws)[j]? = some v := by
  induction ws with
  | nil => simp
  | cons w ws ih =>
    intro st j v hnd hmem hj
    simp only [List.map_cons, List.nodup_cons] at hnd
    simp only [List.mem_cons] at hmem
    rcases hmem with rfl | hmem
    · rw [applyWrites_cons, applyWrites_getElem?_of_not_mem _ _ _ hnd.1]
      exact List.getElem?_set_self hj
    · rw [applyWrites_cons]
      exact ih _ _ _ hnd.2 hmem (by simpa using hj)

theorem filterMap_congr' {α β : Type} {f g : α → Option β} : ∀ {l : List α},
    (∀ a ∈ l, f a = g a) → l.filterMap f = l.filterMap g
  | [], _ => rfl
  | a :: l, h => by
    simp only [List.filterMap_cons, h a (by simp)]
    rw [filterMap_congr' (l := l) (fun a' ha' => h a' (by simp [ha']))]

theorem itemAt_eq_some {st : List (Option Item)} {i : Nat} {it : Item} :
    itemAt st i = some it ↔ st[i]? = some (some it) := by
  unfold itemAt
  cases h : st[i]? with
  | none => simp
  | some v => cases v <;> simp

theorem itemAt_set_ne {st : List (Option Item)} {i j : Nat} {v : Option Item} (h : i ≠ j) :
    itemAt (st.set i v) j = itemAt st j := by
  simp [itemAt, List.getElem?_set_ne h]

theorem itemAt_lt {st : List (Option Item)} {i : Nat} {it : Item} (h : itemAt st i = some it) :
    i < st.length := by
  rw [itemAt_eq_some] at h
  exact (List.getElem?_eq_some_iff.mp h).1

/-! ### removals -/

theorem removeFold (ats : List Nat) : ∀ (w : World), ats.Nodup →
    (∀ a ∈ ats, ∃ it, itemAt w.storage a = some it) →
    ats.foldl removeStep w =
      { w with
        storage := applyWrites w.storage (ats.map fun a => (a, none)),
        kids := (ats.filterMap (itemAt w.storage)).foldl unmountItem w.kids,
        log := { w.log with
          unmounts := w.log.unmounts ++ (ats.filterMap (itemAt w.storage)).map (·.key) } } := by
  induction ats with
  | nil => intro w _ _; simp
  | cons a as ih =>
    intro w hnd h
    simp only [List.nodup_cons] at hnd
    obtain ⟨it, hit⟩ := h a (by simp)
    have hit' := itemAt_eq_some.mp hit
    have hstep : removeStep w a = ({ w with storage := w.storage.set a none }).unmount it := by
      simp [removeStep, hit']
    have hcongr : ∀ a' ∈ as, itemAt (w.storage.set a none) a' = itemAt w.storage a' := by
      intro a' ha'
      exact itemAt_set_ne (by rintro rfl; exact hnd.1 ha')
    simp only [List.foldl_cons, hstep]
    rw [ih _ hnd.2 (by
      intro a' ha'
      obtain ⟨it', hit'⟩ := h a' (by simp [ha'])
      exact ⟨it', by simpa [World.unmount, hcongr a' ha'] using hit'⟩)]
    have hfm : as.filterMap (itemAt (w.storage.set a none)) = as.filterMap (itemAt w.storage) :=
      filterMap_congr' hcongr
    simp [World.unmount, hit, hfm]

/-! ### move out -/

theorem moveOutFold (U : List DiffOpMove) : ∀ (w : World) (acc : List (Option Item)),
    (U.map (·.from_)).Nodup → (∀ m ∈ U, m.from_ < w.storage.length) →
    U.foldl moveOutStep (w, acc) =
      ({ w with storage := applyWrites w.storage (U.map fun m => (m.from_, none)) },
       acc ++ U.map fun m => itemAt w.storage m.from_) := by
  induction U with
  | nil => intro w acc _ _; simp
  | cons m ms ih =>
    intro w acc hnd h
    simp only [List.map_cons, List.nodup_cons] at hnd
    have hm := h m (by simp)
    obtain ⟨v, hv⟩ : ∃ v, w.storage[m.from_]? = some v := ⟨_, List.getElem?_eq_getElem hm⟩
    have hstep : moveOutStep (w, acc) m = ({ w with storage := w.storage.set m.from_ none }, acc ++ [v]) := by
      simp [moveOutStep, hv]
    simp only [List.foldl_cons, hstep]
    rw [ih _ _ hnd.2 (by intro m' hm'; simpa using h m' (by simp [hm']))]
    have hcongr : ∀ m' ∈ ms, itemAt (w.storage.set m.from_ none) m'.from_ = itemAt w.storage m'.from_ := by
      intro m' hm'
      exact itemAt_set_ne (by
        intro heq
        exact hnd.1 (List.mem_map.mpr ⟨m', hm', heq.symm⟩))
    have : v = itemAt w.storage m.from_ := by simp [itemAt, hv]
    simp [this, List.map_congr_left hcongr]

/-! ### move in, storage only -/

def ndWrites (mcs : List (DiffOpMove × Option Item)) : Writes :=
  (mcs.filter fun mc => !mc.1.moveInDom).map fun mc => (mc.1.to_, mc.2)

def ndCalls (mcs : List (DiffOpMove × Option Item)) : List (Key × Nat) :=
  (mcs.filter fun mc => !mc.1.moveInDom).filterMap fun mc => mc.2.map fun it => (it.key, mc.1.to_)

theorem moveInStorageFold (mcs : List (DiffOpMove × Option Item)) : ∀ (w : World),
    (∀ mc ∈ mcs, mc.1.moveInDom = false → mc.1.to_ < w.storage.length) →
    mcs.foldl moveInStorageStep w =
      { w with
        storage := applyWrites w.storage (ndWrites mcs),
        log := { w.log with setIndex := w.log.setIndex ++ ndCalls mcs } } := by
  induction mcs with
  | nil => intro w _; simp [ndWrites, ndCalls]
  | cons mc mcs ih =>
    intro w h
    simp only [List.foldl_cons]
    by_cases hd : mc.1.moveInDom = true
    · have hstep : moveInStorageStep w mc = w := by simp [moveInStorageStep, hd]
      rw [hstep, ih w (fun mc' hmc' => h mc' (by simp [hmc']))]
      simp [ndWrites, ndCalls, hd]
    · have hd' : mc.1.moveInDom = false := by simpa using hd
      have hlt := h mc (by simp) hd'
      cases hv : mc.2 with
      | none =>
        have hstep : moveInStorageStep w mc = { w with storage := w.storage.set mc.1.to_ none } := by
          simp [moveInStorageStep, hd', hv, World.store, hlt]
        rw [hstep, ih _ (by intro mc' hmc'; simpa using h mc' (by simp [hmc']))]
        simp [ndWrites, ndCalls, hd', hv]
      | some it =>
        have hstep : moveInStorageStep w mc =
            { w with storage := w.storage.set mc.1.to_ (some it),
                     log := { w.log with setIndex := w.log.setIndex ++ [(it.key, mc.1.to_)] } } := by
          simp [moveInStorageStep, hd', hv, World.store, hlt, World.setIndex]
        rw [hstep, ih _ (by intro mc' hmc'; simpa using h mc' (by simp [hmc']))]
        simp [ndWrites, ndCalls, hd', hv]

/-! ### placements: the DOM moves and the additions -/

/-- the DOM half of `placeItem` -/
def place1 (marker : NodeId) (kids : List NodeId) (st : List (Option Item)) (at_ : Nat) (it : Item) :
    List NodeId :=
  match nextMounted st at_ with
  | some sib => insertBeforeThisOrMarker kids sib it marker
  | none => mountItem kids it (some marker)

theorem placeItem_eq (w : World) (marker : NodeId) (at_ : Nat) (it : Item) (h : at_ ≤ w.storage.length) :
    placeItem w marker at_ it = { w with kids := place1 marker w.kids w.storage at_ it } := by
  unfold placeItem place1
  rw [if_neg (by omega)]
  cases nextMounted w.storage at_ <;> rfl

/-- place the item in the DOM in front of its next mounted sibling, then store it -/
def placeStep (marker : NodeId) (ks : List NodeId × List (Option Item)) (p : Nat × Item) :
    List NodeId × List (Option Item) :=
  (place1 marker ks.1 ks.2 p.1 p.2, ks.2.set p.1 (some p.2))

def placeAll (marker : NodeId) (ps : List (Nat × Item)) (ks : List NodeId × List (Option Item)) :
    List NodeId × List (Option Item) :=
  ps.foldl (placeStep marker) ks

theorem placeAll_storage (marker : NodeId) (ps : List (Nat × Item)) :
    ∀ (ks : List NodeId × List (Option Item)),
    (placeAll marker ps ks).2 = applyWrites ks.2 (ps.map fun p => (p.1, some p.2)) := by
  induction ps with
  | nil => intro ks; rfl
  | cons p ps ih => intro ks; simp [placeAll, placeStep] at ih ⊢; rw [ih]

def dPlacements (mcs : List (DiffOpMove × Option Item)) : List (Nat × Item) :=
  (mcs.filter fun mc => mc.1.moveInDom).filterMap fun mc => mc.2.map fun it => (mc.1.to_, it)

def dCalls (mcs : List (DiffOpMove × Option Item)) : List (Key × Nat) :=
  (mcs.filter fun mc => mc.1.moveInDom).filterMap fun mc => mc.2.map fun it => (it.key, mc.1.to_)

theorem moveInDomFold (marker : NodeId) (mcs : List (DiffOpMove × Option Item)) : ∀ (w : World),
    (∀ mc ∈ mcs, mc.1.moveInDom = true → mc.2.isSome ∧ mc.1.to_ < w.storage.length) →
    mcs.foldl (moveInDomStep marker) w =
      { w with
        kids := (placeAll marker (dPlacements mcs) (w.kids, w.storage)).1,
        storage := (placeAll marker (dPlacements mcs) (w.kids, w.storage)).2,
        log := { w.log with setIndex := w.log.setIndex ++ dCalls mcs } } := by
  induction mcs with
  | nil => intro w _; simp [dPlacements, dCalls, placeAll]
  | cons mc mcs ih =>
    intro w h
    simp only [List.foldl_cons]
    by_cases hd : mc.1.moveInDom = true
    · obtain ⟨hsome, hlt⟩ := h mc (by simp) hd
      obtain ⟨it, hit⟩ := Option.isSome_iff_exists.mp hsome
      have hstep : moveInDomStep marker w mc =
          { w with kids := place1 marker w.kids w.storage mc.1.to_ it,
                   storage := w.storage.set mc.1.to_ (some it),
                   log := { w.log with setIndex := w.log.setIndex ++ [(it.key, mc.1.to_)] } } := by
        simp [moveInDomStep, hd, hit, placeItem_eq w marker mc.1.to_ it (by omega), World.setIndex,
          World.store, hlt]
      rw [hstep, ih _ (by intro mc' hmc' hd'; simpa using h mc' (by simp [hmc']) hd')]
      simp [dPlacements, dCalls, hd, hit, placeAll, placeStep]
    · have hd' : mc.1.moveInDom = false := by simpa using hd
      have hstep : moveInDomStep marker w mc = w := by simp [moveInDomStep, hd']
      rw [hstep, ih w (fun mc' hmc' => h mc' (by simp [hmc']))]
      simp [dPlacements, dCalls, hd']

/-- the items `view_fn` builds for the additions, with the index they are stored at -/
def addPlacements (bs : Nat) (to : List Key) : Nat → List DiffOpAdd → List (Nat × Item)
  | _, [] => []
  | next, a :: as =>
    (a.at_, { key := to[a.at_]?.getD 0, nodes := List.range' next bs }) :: addPlacements bs to (next + bs) as

theorem addPlacements_map_fst (bs : Nat) (to : List Key) (as : List DiffOpAdd) : ∀ (next : Nat),
    (addPlacements bs to next as).map (·.1) = as.map (·.at_) := by
  induction as with
  | nil => intro _; rfl
  | cons a as ih => intro next; simp [addPlacements, ih]

theorem addFold (bs : Nat) (marker : NodeId) (to : List Key) (as : List DiffOpAdd) : ∀ (w : World),
    (∀ a ∈ as, a.mode = .normal ∧ a.at_ < to.length ∧ a.at_ < w.storage.length) →
    as.foldl (addStep bs marker to) w =
      { w with
        kids := (placeAll marker (addPlacements bs to w.next as) (w.kids, w.storage)).1,
        storage := (placeAll marker (addPlacements bs to w.next as) (w.kids, w.storage)).2,
        next := w.next + bs * as.length,
        log := { w.log with builds := w.log.builds ++ as.map fun a => (to[a.at_]?.getD 0, a.at_) } } := by
  induction as with
  | nil => intro w _; simp [addPlacements, placeAll]
  | cons a as ih =>
    intro w h
    obtain ⟨hmode, hto, hlt⟩ := h a (by simp)
    obtain ⟨k, hk⟩ : ∃ k, to[a.at_]? = some k := ⟨_, List.getElem?_eq_getElem hto⟩
    have hstep : addStep bs marker to w a =
        { w with
          kids := place1 marker w.kids w.storage a.at_ { key := k, nodes := List.range' w.next bs },
          storage := w.storage.set a.at_ (some { key := k, nodes := List.range' w.next bs }),
          next := w.next + bs,
          log := { w.log with builds := w.log.builds ++ [(k, a.at_)] } } := by
      simp only [addStep, hk, buildItem, hmode]
      rw [placeItem_eq _ marker a.at_ _ (by simpa using Nat.le_of_lt hlt)]
      simp [World.store, hlt]
    simp only [List.foldl_cons, hstep]
    rw [ih _ (by intro a' ha'; simpa using h a' (by simp [ha']))]
    simp [addPlacements, hk, placeAll, placeStep, Nat.mul_add, Nat.add_assoc]
    exact Nat.add_comm _ _

/-- an `Append` addition behind which nothing is mounted does what a `Normal` one does -/
theorem addStep_append (bs : Nat) (marker : NodeId) (to : List Key) (w : World) (a : DiffOpAdd)
    (hn : nextMounted w.storage a.at_ = none) (hlt : a.at_ ≤ w.storage.length) :
    addStep bs marker to w { a with mode := .append } = addStep bs marker to w { a with mode := .normal } := by
  unfold addStep
  cases hk : to[a.at_]? with
  | none => simp
  | some k =>
    simp only [buildItem]
    rw [placeItem_eq _ marker a.at_ _ (by simpa using hlt)]
    simp [place1, hn]

end Leptos.Keyed
