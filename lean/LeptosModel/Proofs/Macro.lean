import LeptosModel.Model.Macro
import LeptosModel.Proofs.Html
/-! Helper lemmas for Theorems/C18.lean: tokens and trimming, attribute normal forms, the views the two
macro paths correspond to, and their structure. -/
namespace Leptos.Macro
open Leptos.Html

/-! ### tokens -/

theorem tok_append_sep (sep : Char → Bool) (c : Char) (hc : sep c = true) (b : Str) :
    ∀ (a cur : Str), tok sep cur (a ++ c :: b) = tok sep cur a ++ tok sep [] b := by
  intro a
  induction a with
  | nil => intro cur; simp [tok, hc]
  | cons x a ih =>
    intro cur
    simp only [List.cons_append, tok]
    split
    · rw [ih, List.append_assoc]
    · rw [ih]

theorem tok_snoc_sep (sep : Char → Bool) (c : Char) (hc : sep c = true) (a cur : Str) :
    tok sep cur (a ++ [c]) = tok sep cur a := by
  rw [tok_append_sep sep c hc [] a cur]
  simp [tok, flush]

theorem tok_dropWhile (sep p : Char → Bool) :
    ∀ (s : Str), (∀ c ∈ s, p c = true → sep c = true) → tok sep [] (s.dropWhile p) = tok sep [] s := by
  intro s
  induction s with
  | nil => intro _; rfl
  | cons x s ih =>
    intro h
    simp only [List.dropWhile_cons]
    split
    · next hp =>
      have hs : sep x = true := h x (by simp) hp
      rw [ih (fun c hc => h c (by simp [hc]))]
      simp [tok, hs, flush]
    · rfl

theorem tok_rdropWhile (sep p : Char → Bool) :
    ∀ (r : Str), (∀ c ∈ r, p c = true → sep c = true) →
      tok sep [] (r.dropWhile p).reverse = tok sep [] r.reverse := by
  intro r
  induction r with
  | nil => intro _; rfl
  | cons x r ih =>
    intro h
    simp only [List.dropWhile_cons]
    split
    · next hp =>
      have hs : sep x = true := h x (by simp) hp
      rw [ih (fun c hc => h c (by simp [hc])), List.reverse_cons, tok_snoc_sep sep x hs]
    · rfl

theorem mem_dropWhile {p : Char → Bool} {c : Char} : ∀ {s : Str}, c ∈ s.dropWhile p → c ∈ s := by
  intro s
  induction s with
  | nil => simp
  | cons x s ih =>
    simp only [List.dropWhile_cons]
    split
    · intro h; exact List.mem_cons_of_mem _ (ih h)
    · exact id

theorem tok_trim (sep : Char → Bool) (s : Str) (h : ∀ c ∈ s, isUniWs c = true → sep c = true) :
    tok sep [] (trim s) = tok sep [] s := by
  unfold trim
  rw [tok_rdropWhile sep isUniWs _ (by
    intro c hc
    rw [List.mem_reverse] at hc
    exact h c (mem_dropWhile hc))]
  rw [List.reverse_reverse]
  exact tok_dropWhile sep isUniWs s h


/-! ### class buffers -/

theorem classTokens_space (x : Str) : classTokens (' ' :: x) = classTokens x := by
  simp [classTokens, tok, isClassSep, isWs, flush]

theorem classTokens_append (a b : Str) (hb : b = [] ∨ ∃ y, b = ' ' :: y) :
    classTokens (a ++ b) = classTokens a ++ classTokens b := by
  rcases hb with rfl | ⟨y, rfl⟩
  · simp [classTokens, tok, flush]
  · unfold classTokens
    rw [tok_append_sep isClassSep ' ' (by decide) y a [], ← classTokens, ← classTokens, ← classTokens,
      classTokens_space]

theorem classBuf_head (A : List Attr) : classBuf A = [] ∨ ∃ y, classBuf A = ' ' :: y := by
  induction A with
  | nil => simp [classBuf]
  | cons a r ih => cases a <;> simp [classBuf, ih]

theorem classTokens_classBuf (L : List TAttr) :
    classTokens (classBuf (L.map builderAttr)) = classDen L := by
  induction L with
  | nil => simp [classBuf, classDen, classTokens, tok, flush]
  | cons a r ih =>
    cases a with
    | cls d v =>
      simp only [List.map_cons, builderAttr, classBuf, classDen]
      rw [List.cons_append, classTokens_space, classTokens_append _ _ (classBuf_head _), ih]
    | clsToggle n b =>
      cases b
      · simp only [List.map_cons, builderAttr, classBuf, classDen]
        simpa [classTokens_space] using ih
      · simp only [List.map_cons, builderAttr, classBuf, classDen, if_true]
        rw [List.cons_append, classTokens_space, classTokens_append _ _ (classBuf_head _), ih]
    | clsTuple n b =>
      cases b
      · simp only [List.map_cons, builderAttr, classBuf, classDen]
        simpa [classTokens_space] using ih
      · simp only [List.map_cons, builderAttr, classBuf, classDen, if_true]
        rw [List.cons_append, classTokens_space, classTokens_append _ _ (classBuf_head _), ih]
    | plain d n v => simpa [builderAttr, classBuf, classDen] using ih
    | flag n => simpa [builderAttr, classBuf, classDen] using ih
    | boolDyn n b => simpa [builderAttr, classBuf, classDen] using ih
    | style d v => simpa [builderAttr, classBuf, classDen] using ih
    | styleKV d n v => simpa [builderAttr, classBuf, classDen] using ih

/-- the strings that end up in the class buffer -/
def clsStrings (L : List TAttr) : List Str := L.flatMap attrClassStrings

theorem wsOK_mem {s : Str} (h : wsOK s = true) {c : Char} (hc : c ∈ s) (hw : isUniWs c = true) :
    isClassSep c = true := by
  have := List.all_eq_true.mp h c hc
  simpa [hw] using this

theorem mem_space_append {c : Char} {n X : Str} (hc : c ∈ ' ' :: (n ++ X)) : c = ' ' ∨ c ∈ n ∨ c ∈ X := by
  simpa using hc

theorem classBuf_ws (L : List TAttr) (h : ∀ s ∈ clsStrings L, wsOK s = true) :
    ∀ c ∈ classBuf (L.map builderAttr), isUniWs c = true → isClassSep c = true := by
  induction L with
  | nil => simp [classBuf]
  | cons a r ih =>
    have hr : ∀ s ∈ clsStrings r, wsOK s = true := fun s hs => h s (by simp [clsStrings] at hs ⊢; exact Or.inr hs)
    have ih' := ih hr
    have sp : isClassSep ' ' = true := by decide
    have key : ∀ (n : Str), wsOK n = true → ∀ c ∈ ' ' :: (n ++ classBuf (r.map builderAttr)),
        isUniWs c = true → isClassSep c = true := by
      intro n hn c hc hw
      rcases mem_space_append hc with rfl | hc | hc
      · exact sp
      · exact wsOK_mem hn hc hw
      · exact ih' c hc hw
    cases a with
    | cls d v =>
      have hv : wsOK v = true := h v (by simp [clsStrings, attrClassStrings])
      simpa [builderAttr, classBuf] using key v hv
    | clsToggle n b =>
      have hv : wsOK n = true := h n (by simp [clsStrings, attrClassStrings])
      cases b
      · simpa [builderAttr, classBuf] using key [] (by decide)
      · simpa [builderAttr, classBuf] using key n hv
    | clsTuple n b =>
      have hv : wsOK n = true := h n (by simp [clsStrings, attrClassStrings])
      cases b
      · simpa [builderAttr, classBuf] using key [] (by decide)
      · simpa [builderAttr, classBuf] using key n hv
    | plain d n v => simpa [builderAttr, classBuf] using ih'
    | flag n => simpa [builderAttr, classBuf] using ih'
    | boolDyn n b => simpa [builderAttr, classBuf] using ih'
    | style d v => simpa [builderAttr, classBuf] using ih'
    | styleKV d n v => simpa [builderAttr, classBuf] using ih'

theorem classDen_nil_of_classBuf_nil (L : List TAttr) (h : classBuf (L.map builderAttr) = []) : classDen L = [] := by
  rw [← classTokens_classBuf, h]; rfl

/-! ### style buffers -/

theorem styleBuf_builder (L : List TAttr) : styleBuf (L.map builderAttr) = styleSrc L := by
  induction L with
  | nil => rfl
  | cons a r ih => cases a <;> simp [builderAttr, styleBuf, styleSrc, ih]

theorem styleSrc_end (L : List TAttr) : styleSrc L = [] ∨ ∃ y, styleSrc L = y ++ [';'] := by
  induction L with
  | nil => simp [styleSrc]
  | cons a r ih =>
    cases a with
    | style d v =>
      right
      simp only [styleSrc]
      rcases ih with h | ⟨y, h⟩
      · exact ⟨v, by rw [h]⟩
      · exact ⟨v ++ ';' :: y, by rw [h]; simp⟩
    | styleKV d n v =>
      right
      simp only [styleSrc]
      rcases ih with h | ⟨y, h⟩
      · exact ⟨n ++ ':' :: v, by simp [h]⟩
      · exact ⟨n ++ ':' :: (v ++ ';' :: y), by rw [h]; simp⟩
    | plain d n v => simpa [styleSrc] using ih
    | flag n => simpa [styleSrc] using ih
    | boolDyn n b => simpa [styleSrc] using ih
    | cls d v => simpa [styleSrc] using ih
    | clsToggle n b => simpa [styleSrc] using ih
    | clsTuple n b => simpa [styleSrc] using ih

theorem dropWhile_snoc_not (p : Char → Bool) (c : Char) (hc : p c = false) :
    ∀ y : Str, (y ++ [c]).dropWhile p = y.dropWhile p ++ [c] := by
  intro y
  induction y with
  | nil => simp [List.dropWhile, hc]
  | cons x y ih =>
    simp only [List.cons_append, List.dropWhile_cons]
    split
    · exact ih
    · rfl

theorem dropWhile_idem (p : Char → Bool) : ∀ y : Str, (y.dropWhile p).dropWhile p = y.dropWhile p := by
  intro y
  induction y with
  | nil => rfl
  | cons x y ih =>
    simp only [List.dropWhile_cons]
    split
    · exact ih
    · next h => simp [h]

theorem semi_not_ws : isUniWs ';' = false := by decide

theorem trim_semi_end (y : Str) : trim (y ++ [';']) = (y ++ [';']).dropWhile isUniWs := by
  unfold trim
  rw [dropWhile_snoc_not isUniWs ';' semi_not_ws, List.reverse_append]
  simp [semi_not_ws]

theorem normStyle_trim (sb : Str) (h : sb = [] ∨ ∃ y, sb = y ++ [';']) : normStyle (trim sb) = normStyle sb := by
  rcases h with rfl | ⟨y, rfl⟩
  · rfl
  · unfold normStyle stylePieces
    rw [trim_semi_end, dropWhile_idem]

theorem normStyle_semi (v : Str) : normStyle (v ++ [';']) = normStyle v := by
  unfold normStyle stylePieces
  rw [dropWhile_snoc_not isUniWs ';' semi_not_ws, tok_snoc_sep _ ';' (by simp)]

/-! ### `normAttrs` over appended lists -/

theorem otherPart_append (a b : List (Str × Str)) : otherPart (a ++ b) = otherPart a ++ otherPart b := by
  induction a with
  | nil => rfl
  | cons x a ih => obtain ⟨n, v⟩ := x; simp [otherPart, ih]

theorem classPart_append (a b : List (Str × Str)) : classPart (a ++ b) = classPart a ++ classPart b := by
  induction a with
  | nil => rfl
  | cons x a ih => obtain ⟨n, v⟩ := x; simp [classPart, ih]

theorem stylePart_append (a b : List (Str × Str)) : stylePart (a ++ b) = stylePart a ++ stylePart b := by
  induction a with
  | nil => rfl
  | cons x a ih => obtain ⟨n, v⟩ := x; simp [stylePart, ih]

/-- a list without `class` / `style` entries is its own normal form -/
theorem parts_plain (l : List (Str × Str)) (h : ∀ a ∈ l, a.1 ≠ sClass ∧ a.1 ≠ sStyle) :
    otherPart l = l ∧ classPart l = [] ∧ stylePart l = [] := by
  induction l with
  | nil => simp [otherPart, classPart, stylePart]
  | cons x l ih =>
    obtain ⟨n, v⟩ := x
    have hx := h (n, v) (by simp)
    obtain ⟨h1, h2, h3⟩ := ih (fun a ha => h a (by simp [ha]))
    simp only at hx
    simp [otherPart, classPart, stylePart, hx.1, hx.2, h1, h2, h3]

end Leptos.Macro
