import LeptosModel.Model.Macro
import LeptosModel.Proofs.Html
/-! Helper lemmas for Theorems/C18.lean: tokens and trimming, attribute normal forms, the views the two
macro paths correspond to, and their structure. -/
set_option linter.unusedSimpArgs false
namespace Leptos.Macro
open Leptos.Html

/-! ### tokens -/

theorem tok_append_sep (sep : Char → Bool) (c : Char) (hc : sep c = true) (b : Str) :
    ∀ (a cur : Str), tok sep cur (a ++ c :: b) = tok sep cur a ++ tok sep [] b := by
  intro a
  induction a with
  | nil => intro cur; simp [tok, hc]
  | cons x a ih =>
    intro cur
    simp only [List.cons_append, tok]
    split
    · rw [ih, List.append_assoc]
    · rw [ih]

theorem tok_snoc_sep (sep : Char → Bool) (c : Char) (hc : sep c = true) (a cur : Str) :
    tok sep cur (a ++ [c]) = tok sep cur a := by
  rw [tok_append_sep sep c hc [] a cur]
  simp [tok, flush]

theorem tok_dropWhile (sep p : Char → Bool) :
    ∀ (s : Str), (∀ c ∈ s, p c = true → sep c = true) → tok sep [] (s.dropWhile p) = tok sep [] s := by
  intro s
  induction s with
  | nil => intro _; rfl
  | cons x s ih =>
    intro h
    simp only [List.dropWhile_cons]
    split
    · next hp =>
      have hs : sep x = true := h x (by simp) hp
      rw [ih (fun c hc => h c (by simp [hc]))]
      simp [tok, hs, flush]
    · rfl

theorem tok_rdropWhile (sep p : Char → Bool) :
    ∀ (r : Str), (∀ c ∈ r, p c = true → sep c = true) →
      tok sep [] (r.dropWhile p).reverse = tok sep [] r.reverse := by
  intro r
  induction r with
  | nil => intro _; rfl
  | cons x r ih =>
    intro h
    simp only [List.dropWhile_cons]
    split
    · next hp =>
      have hs : sep x = true := h x (by simp) hp
      rw [ih (fun c hc => h c (by simp [hc])), List.reverse_cons, tok_snoc_sep sep x hs]
    · rfl

theorem mem_dropWhile {p : Char → Bool} {c : Char} : ∀ {s : Str}, c ∈ s.dropWhile p → c ∈ s := by
  intro s
  induction s with
  | nil => simp
  | cons x s ih =>
    simp only [List.dropWhile_cons]
    split
    · intro h; exact List.mem_cons_of_mem _ (ih h)
    · exact id

theorem tok_trim (sep : Char → Bool) (s : Str) (h : ∀ c ∈ s, isUniWs c = true → sep c = true) :
    tok sep [] (trim s) = tok sep [] s := by
  unfold trim
  rw [tok_rdropWhile sep isUniWs _ (by
    intro c hc
    rw [List.mem_reverse] at hc
    exact h c (mem_dropWhile hc))]
  rw [List.reverse_reverse]
  exact tok_dropWhile sep isUniWs s h


/-! ### class buffers -/

theorem classSrc_builder (L : List TAttr) : classBuf (L.map builderAttr) = classSrc L := by
  induction L with
  | nil => rfl
  | cons a r ih =>
    cases a with
    | clsToggle n b => cases b <;> simp [builderAttr, classBuf, classSrc, ih]
    | clsTuple n b => cases b <;> simp [builderAttr, classBuf, classSrc, ih]
    | _ => simp [builderAttr, classBuf, classSrc, ih]

theorem trim_space (v : Str) : trim (' ' :: v) = trim v := by
  have : isUniWs ' ' = true := by decide
  simp [trim, List.dropWhile_cons, this]

/-! ### style buffers -/

theorem styleBuf_builder (L : List TAttr) : styleBuf (L.map builderAttr) = styleSrc L := by
  induction L with
  | nil => rfl
  | cons a r ih => cases a <;> simp [builderAttr, styleBuf, styleSrc, ih]

theorem styleSrc_end (L : List TAttr) : styleSrc L = [] ∨ ∃ y, styleSrc L = y ++ [';'] := by
  induction L with
  | nil => simp [styleSrc]
  | cons a r ih =>
    cases a with
    | style d v =>
      right
      simp only [styleSrc]
      rcases ih with h | ⟨y, h⟩
      · exact ⟨v, by rw [h]⟩
      · exact ⟨v ++ ';' :: y, by rw [h]; simp⟩
    | styleKV d n v =>
      right
      simp only [styleSrc]
      rcases ih with h | ⟨y, h⟩
      · exact ⟨n ++ ':' :: v, by simp [h]⟩
      · exact ⟨n ++ ':' :: (v ++ ';' :: y), by rw [h]; simp⟩
    | plain d n v => simpa [styleSrc] using ih
    | flag n => simpa [styleSrc] using ih
    | boolDyn n b => simpa [styleSrc] using ih
    | cls d v => simpa [styleSrc] using ih
    | clsToggle n b => simpa [styleSrc] using ih
    | clsTuple n b => simpa [styleSrc] using ih

theorem dropWhile_snoc_not (p : Char → Bool) (c : Char) (hc : p c = false) :
    ∀ y : Str, (y ++ [c]).dropWhile p = y.dropWhile p ++ [c] := by
  intro y
  induction y with
  | nil => simp [List.dropWhile, hc]
  | cons x y ih =>
    simp only [List.cons_append, List.dropWhile_cons]
    split
    · exact ih
    · rfl

theorem dropWhile_idem (p : Char → Bool) : ∀ y : Str, (y.dropWhile p).dropWhile p = y.dropWhile p := by
  intro y
  induction y with
  | nil => rfl
  | cons x y ih =>
    simp only [List.dropWhile_cons]
    split
    · exact ih
    · next h => simp [h]

theorem semi_not_ws : isUniWs ';' = false := by decide

theorem trim_semi_end (y : Str) : trim (y ++ [';']) = (y ++ [';']).dropWhile isUniWs := by
  unfold trim
  rw [dropWhile_snoc_not isUniWs ';' semi_not_ws, List.reverse_append]
  simp [semi_not_ws]

theorem normStyle_trim (sb : Str) (h : sb = [] ∨ ∃ y, sb = y ++ [';']) : normStyle (trim sb) = normStyle sb := by
  rcases h with rfl | ⟨y, rfl⟩
  · rfl
  · unfold normStyle stylePieces
    rw [trim_semi_end, dropWhile_idem]

theorem normStyle_semi (v : Str) : normStyle (v ++ [';']) = normStyle v := by
  unfold normStyle stylePieces
  rw [dropWhile_snoc_not isUniWs ';' semi_not_ws, tok_snoc_sep _ ';' (by simp)]

/-! ### `normAttrs` over appended lists -/

theorem otherPart_append (a b : List (Str × Str)) : otherPart (a ++ b) = otherPart a ++ otherPart b := by
  induction a with
  | nil => rfl
  | cons x a ih => obtain ⟨n, v⟩ := x; simp [otherPart, ih]

theorem classPart_append (a b : List (Str × Str)) : classPart (a ++ b) = classPart a ++ classPart b := by
  induction a with
  | nil => rfl
  | cons x a ih => obtain ⟨n, v⟩ := x; simp [classPart, ih]

theorem stylePart_append (a b : List (Str × Str)) : stylePart (a ++ b) = stylePart a ++ stylePart b := by
  induction a with
  | nil => rfl
  | cons x a ih => obtain ⟨n, v⟩ := x; simp [stylePart, ih]

/-- a list without `class` / `style` entries is its own normal form -/
theorem parts_plain (l : List (Str × Str)) (h : ∀ a ∈ l, a.1 ≠ sClass ∧ a.1 ≠ sStyle) :
    otherPart l = l ∧ classPart l = [] ∧ stylePart l = [] := by
  induction l with
  | nil => simp [otherPart, classPart, stylePart]
  | cons x l ih =>
    obtain ⟨n, v⟩ := x
    have hx := h (n, v) (by simp)
    obtain ⟨h1, h2, h3⟩ := ih (fun a ha => h a (by simp [ha]))
    simp only at hx
    simp [otherPart, classPart, stylePart, hx.1, hx.2, h1, h2, h3]


/-! ### well-formed attribute lists -/

def plainNameOK (n : Str) : Bool := attrNameOK n && n != sClass && n != sStyle

/-- names tokenizable and not `class`/`style`, values without NUL/CR -/
def tattrOK : TAttr → Bool
  | .plain _ n v => plainNameOK n && clean v
  | .flag n => plainNameOK n
  | .boolDyn n _ => plainNameOK n
  | .cls _ v => clean v
  | .style _ v => clean v
  | .clsToggle n _ => clean n
  | .clsTuple n _ => clean n
  | .styleKV _ n v => clean n && clean v

def plainNames : List TAttr → List Str
  | [] => []
  | .plain _ n _ :: r => n :: plainNames r
  | .flag n :: r => n :: plainNames r
  | .boolDyn n _ :: r => n :: plainNames r
  | _ :: r => plainNames r

def isCls : TAttr → Bool
  | .cls _ _ => true
  | _ => false

def isStyle : TAttr → Bool
  | .style _ _ => true
  | _ => false

/-- what the macro accepts on one element (as far as the grammar goes): distinct ordinary names, at most
one `class=` and one `style=` -/
def tattrsOK (attrs : List TAttr) : Bool :=
  attrs.all tattrOK && decide (plainNames attrs).Nodup &&
    decide ((attrs.filter isCls).length ≤ 1) && decide ((attrs.filter isStyle).length ≤ 1)

theorem sortKey_plain (d : Bool) (n v : Str) : sortKey (.plain d n v) = 1 := rfl
theorem sortKey_flag (n : Str) : sortKey (.flag n) = 1 := rfl
theorem sortKey_boolDyn (n : Str) (b : Bool) : sortKey (.boolDyn n b) = 1 := rfl
theorem sortKey_cls (d : Bool) (v : Str) : sortKey (.cls d v) = 0 := rfl
theorem sortKey_style (d : Bool) (v : Str) : sortKey (.style d v) = 0 := rfl
theorem sortKey_clsToggle (n : Str) (b : Bool) : sortKey (.clsToggle n b) = 1 := rfl
theorem sortKey_clsTuple (n : Str) (b : Bool) : sortKey (.clsTuple n b) = 2 := rfl
theorem sortKey_styleKV (d : Bool) (n v : Str) : sortKey (.styleKV d n v) = 1 := rfl

theorem plainFlat_append (a b : List Attr) : plainFlat (a ++ b) = plainFlat a ++ plainFlat b := by
  induction a with
  | nil => rfl
  | cons x a ih =>
    cases x with
    | bool n on => cases on <;> simp [plainFlat, ih]
    | _ => simp [plainFlat, ih]

theorem plainFlat_key0 (attrs : List TAttr) :
    plainFlat ((attrs.filter (fun a => sortKey a = 0)).map builderAttr) = [] := by
  induction attrs with
  | nil => rfl
  | cons a r ih => cases a <;> simp [List.filter_cons, sortKey_plain, sortKey_flag, sortKey_boolDyn, sortKey_cls, sortKey_style, sortKey_clsToggle, sortKey_clsTuple, sortKey_styleKV, builderAttr, plainFlat, ih]

theorem plainFlat_key2 (attrs : List TAttr) :
    plainFlat ((attrs.filter (fun a => sortKey a = 2)).map builderAttr) = [] := by
  induction attrs with
  | nil => rfl
  | cons a r ih => cases a <;> simp [List.filter_cons, sortKey_plain, sortKey_flag, sortKey_boolDyn, sortKey_cls, sortKey_style, sortKey_clsToggle, sortKey_clsTuple, sortKey_styleKV, builderAttr, plainFlat, ih]

theorem plainFlat_key1 (attrs : List TAttr) :
    plainFlat ((attrs.filter (fun a => sortKey a = 1)).map builderAttr) = plainDen attrs := by
  induction attrs with
  | nil => rfl
  | cons a r ih =>
    cases a with
    | boolDyn n b => cases b <;> simp [List.filter_cons, sortKey_plain, sortKey_flag, sortKey_boolDyn, sortKey_cls, sortKey_style, sortKey_clsToggle, sortKey_clsTuple, sortKey_styleKV, builderAttr, plainFlat, plainDen, ih]
    | _ => simp [List.filter_cons, sortKey_plain, sortKey_flag, sortKey_boolDyn, sortKey_cls, sortKey_style, sortKey_clsToggle, sortKey_clsTuple, sortKey_styleKV, builderAttr, plainFlat, plainDen, ih]

theorem plainFlat_builder (attrs : List TAttr) : plainFlat (builderAttrs attrs) = plainDen attrs := by
  simp [builderAttrs, sortAttrs, plainFlat_append, plainFlat_key0, plainFlat_key1, plainFlat_key2]

theorem mem_sortAttrs {a : TAttr} {attrs : List TAttr} (h : a ∈ sortAttrs attrs) : a ∈ attrs := by
  simp only [sortAttrs, List.mem_append, List.mem_filter] at h
  rcases h with (h | h) | h <;> exact h.1

theorem plainDen_names (attrs : List TAttr) : ((plainDen attrs).map (·.1)).Sublist (plainNames attrs) := by
  induction attrs with
  | nil => exact List.Sublist.slnil
  | cons a r ih =>
    cases a with
    | boolDyn n b =>
      cases b
      · simpa [plainDen, plainNames] using List.Sublist.cons n ih
      · simpa [plainDen, plainNames] using List.Sublist.cons_cons n ih
    | plain d n v => simpa [plainDen, plainNames] using List.Sublist.cons_cons n ih
    | flag n => simpa [plainDen, plainNames] using List.Sublist.cons_cons n ih
    | _ => simpa [plainDen, plainNames] using ih

theorem plainNames_ok (attrs : List TAttr) (h : attrs.all tattrOK = true) :
    ∀ n ∈ plainNames attrs, plainNameOK n = true := by
  induction attrs with
  | nil => simp [plainNames]
  | cons a r ih =>
    simp only [List.all_cons, Bool.and_eq_true] at h
    have ih' := ih h.2
    cases a <;> simp_all [plainNames, tattrOK]

theorem plainDen_ok (attrs : List TAttr) (h : attrs.all tattrOK = true) :
    ∀ a ∈ plainDen attrs, a.1 ≠ sClass ∧ a.1 ≠ sStyle := by
  intro a ha
  have hn : a.1 ∈ plainNames attrs := (plainDen_names attrs).subset (List.mem_map_of_mem (f := (·.1)) ha)
  have := plainNames_ok attrs h a.1 hn
  simp only [plainNameOK, Bool.and_eq_true, bne_iff_ne, ne_eq] at this
  exact ⟨this.1.2, this.2⟩

theorem sClass_ne_sStyle : sClass ≠ sStyle := by decide

/-- class attribute of the builder path, normalised -/
theorem classPart_builder (L : List TAttr) :
    classPart (if classBuf (L.map builderAttr) = [] then [] else [(sClass, trim (classBuf (L.map builderAttr)))]) =
      optAttr sClass (normClass (trim (classSrc L))) := by
  rw [classSrc_builder]
  split
  · next h => rw [h]; decide
  · simp [classPart]

theorem stylePart_builder (L : List TAttr) :
    stylePart (if styleBuf (L.map builderAttr) = [] then [] else [(sStyle, trim (styleBuf (L.map builderAttr)))]) =
      optAttr sStyle (normStyle (styleSrc L)) := by
  rw [styleBuf_builder]
  split
  · next h => simp [stylePart, h, optAttr, normStyle, stylePieces, tok, flush, joinSep]
  · simp only [stylePart, if_true, List.append_nil]
    rw [normStyle_trim _ (styleSrc_end L)]

/-- **attributes, builder path**: what tachys prints for the sorted builder attributes normalises to what
the template gives the element -/
theorem normAttrs_builder (attrs : List TAttr) (h : attrs.all tattrOK = true) :
    normAttrs (expectedAttrs (builderAttrs attrs)) = denAttrs attrs := by
  obtain ⟨p1, p2, p3⟩ := parts_plain (plainDen attrs) (plainDen_ok attrs h)
  have hc := classPart_builder (sortAttrs attrs)
  have hs := stylePart_builder (sortAttrs attrs)
  have hcs : stylePart (if classBuf (builderAttrs attrs) = [] then [] else [(sClass, trim (classBuf (builderAttrs attrs)))]) = [] := by
    split <;> simp [stylePart, sClass_ne_sStyle]
  have hco : otherPart (if classBuf (builderAttrs attrs) = [] then [] else [(sClass, trim (classBuf (builderAttrs attrs)))]) = [] := by
    split <;> simp [otherPart]
  have hsc : classPart (if styleBuf (builderAttrs attrs) = [] then [] else [(sStyle, trim (styleBuf (builderAttrs attrs)))]) = [] := by
    split <;> simp [classPart, sClass_ne_sStyle.symm]
  have hso : otherPart (if styleBuf (builderAttrs attrs) = [] then [] else [(sStyle, trim (styleBuf (builderAttrs attrs)))]) = [] := by
    split <;> simp [otherPart]
  unfold normAttrs expectedAttrs denAttrs
  simp only [otherPart_append, classPart_append, stylePart_append, plainFlat_builder, p1, p2, p3, hcs, hco, hsc, hso,
    List.append_nil, List.nil_append]
  unfold builderAttrs at *
  rw [hc, hs]

theorem attrClean_builder (a : TAttr) (h : tattrOK a = true) : attrClean (builderAttr a) = true := by
  cases a <;> simp_all [tattrOK, builderAttr, attrClean, plainNameOK]

theorem expectedNames_nodup (attrs : List TAttr) (h : tattrsOK attrs = true) :
    ((expectedAttrs (builderAttrs attrs)).map (·.1)).Nodup := by
  simp only [tattrsOK, Bool.and_eq_true, decide_eq_true_eq] at h
  obtain ⟨⟨⟨hall, hnd⟩, _⟩, _⟩ := h
  have hsub := plainDen_names attrs
  have hp : ((plainDen attrs).map (·.1)).Nodup := hnd.sublist hsub
  have hne := plainDen_ok attrs hall
  unfold expectedAttrs
  rw [plainFlat_builder]
  simp only [List.map_append]
  refine List.nodup_append.mpr ⟨List.nodup_append.mpr ⟨hp, ?_, ?_⟩, ?_, ?_⟩
  · split <;> simp
  · intro a ha b hb
    obtain ⟨x, hx, rfl⟩ := List.mem_map.mp ha
    split at hb
    · simp at hb
    · simp only [List.map_cons, List.map_nil, List.mem_singleton] at hb
      subst hb; exact (hne x hx).1
  · split <;> simp
  · intro a ha b hb
    split at hb
    · simp at hb
    · simp only [List.map_cons, List.map_nil, List.mem_singleton] at hb
      subst hb
      rcases List.mem_append.mp ha with ha | ha
      · obtain ⟨x, hx, rfl⟩ := List.mem_map.mp ha
        exact (hne x hx).2
      · split at ha
        · simp at ha
        · simp only [List.map_cons, List.map_nil, List.mem_singleton] at ha
          subst ha; exact sClass_ne_sStyle

theorem attrsOK_builder (attrs : List TAttr) (h : tattrsOK attrs = true) : attrsOK (builderAttrs attrs) = true := by
  have hnd := expectedNames_nodup attrs h
  simp only [tattrsOK, Bool.and_eq_true, decide_eq_true_eq] at h
  obtain ⟨⟨⟨hall, _⟩, _⟩, _⟩ := h
  simp only [attrsOK, Bool.and_eq_true, decide_eq_true_eq, List.all_eq_true]
  refine ⟨?_, hnd⟩
  intro b hb
  simp only [builderAttrs, List.mem_map] at hb
  obtain ⟨a, ha, rfl⟩ := hb
  exact attrClean_builder a (List.all_eq_true.mp hall a (mem_sortAttrs ha))


/-! ### attributes of the inert path, as a tachys view: `class`/`style` literals are printed in place,
like ordinary attributes -/

def inertAttrView : TAttr → Attr
  | .plain _ n v => .plain n v
  | .flag n => .bool n true
  | .boolDyn n b => .bool n b
  | .cls _ v => .plain sClass (trim v)
  | .style _ v => .plain sStyle v
  | .clsToggle n _ => .bool n false
  | .clsTuple n _ => .bool n false
  | .styleKV _ n _ => .bool n false

theorem classBuf_inert (attrs : List TAttr) : classBuf (attrs.map inertAttrView) = [] := by
  induction attrs with
  | nil => rfl
  | cons a r ih => cases a <;> simp [inertAttrView, classBuf, ih]

theorem styleBuf_inert (attrs : List TAttr) : styleBuf (attrs.map inertAttrView) = [] := by
  induction attrs with
  | nil => rfl
  | cons a r ih => cases a <;> simp [inertAttrView, styleBuf, ih]

theorem plainPart_inert (attrs : List TAttr) (hi : attrs.all attrInert = true) :
    plainPart (attrs.map inertAttrView) = inertAttrs attrs := by
  induction attrs with
  | nil => rfl
  | cons a r ih =>
    simp only [List.all_cons, Bool.and_eq_true] at hi
    have ih' := ih hi.2
    cases a with
    | plain d n v =>
      have : d = false := by simpa [attrInert] using hi.1
      subst this
      simp [inertAttrView, plainPart, inertAttrs, inertAttr, ih']
    | flag n => simp [inertAttrView, plainPart, inertAttrs, inertAttr, ih']
    | cls d v =>
      have : d = false := by simpa [attrInert] using hi.1
      subst this
      simp [inertAttrView, plainPart, inertAttrs, inertAttr, ih', sClassEq, sClass]
    | style d v =>
      have : d = false := by simpa [attrInert] using hi.1
      subst this
      simp [inertAttrView, plainPart, inertAttrs, inertAttr, ih', sStyle]
    | boolDyn n b => simp [attrInert] at hi
    | clsToggle n b => simp [attrInert] at hi
    | clsTuple n b => simp [attrInert] at hi
    | styleKV d n v => simp [attrInert] at hi

/-- **attributes, inert path (bytes)**: the macro-time attribute printer writes what tachys would write
for the same attributes taken as ordinary ones -/
theorem attrsHtml_inert (attrs : List TAttr) (hi : attrs.all attrInert = true) :
    attrsHtml (attrs.map inertAttrView) = inertAttrs attrs := by
  simp [attrsHtml, classBuf_inert, styleBuf_inert, plainPart_inert attrs hi]

theorem expectedAttrs_inert (attrs : List TAttr) :
    expectedAttrs (attrs.map inertAttrView) = plainFlat (attrs.map inertAttrView) := by
  simp [expectedAttrs, classBuf_inert, styleBuf_inert]

theorem classSrc_append (a b : List TAttr) : classSrc (a ++ b) = classSrc a ++ classSrc b := by
  induction a with
  | nil => rfl
  | cons x a ih => cases x <;> simp [classSrc, ih]

theorem styleSrc_append (a b : List TAttr) : styleSrc (a ++ b) = styleSrc a ++ styleSrc b := by
  induction a with
  | nil => rfl
  | cons x a ih => cases x <;> simp [styleSrc, ih]

theorem sort_inert (attrs : List TAttr) (hi : attrs.all attrInert = true) :
    classSrc (sortAttrs attrs) = classSrc attrs ∧ styleSrc (sortAttrs attrs) = styleSrc attrs := by
  have h0 : classSrc (attrs.filter (fun a => sortKey a = 0)) = classSrc attrs ∧
      styleSrc (attrs.filter (fun a => sortKey a = 0)) = styleSrc attrs ∧
      classSrc (attrs.filter (fun a => sortKey a = 1)) = [] ∧
      styleSrc (attrs.filter (fun a => sortKey a = 1)) = [] ∧
      classSrc (attrs.filter (fun a => sortKey a = 2)) = [] ∧
      styleSrc (attrs.filter (fun a => sortKey a = 2)) = [] := by
    induction attrs with
    | nil => simp [classSrc, styleSrc]
    | cons a r ih =>
      simp only [List.all_cons, Bool.and_eq_true] at hi
      obtain ⟨i1, i2, i3, i4, i5, i6⟩ := ih hi.2
      cases a <;>
        simp_all [List.filter_cons, sortKey_plain, sortKey_flag, sortKey_boolDyn, sortKey_cls, sortKey_style,
          sortKey_clsToggle, sortKey_clsTuple, sortKey_styleKV, classSrc, styleSrc, attrInert]
  obtain ⟨a1, a2, a3, a4, a5, a6⟩ := h0
  simp [sortAttrs, classSrc_append, styleSrc_append, a1, a2, a3, a4, a5, a6]

theorem no_cls (r : List TAttr) (hi : r.all attrInert = true) (hok : r.all tattrOK = true)
    (h : (r.filter isCls).length = 0) :
    classPart (plainFlat (r.map inertAttrView)) = [] ∧ classSrc r = [] := by
  induction r with
  | nil => simp [classPart, plainFlat, classSrc]
  | cons a r ih =>
    simp only [List.all_cons, Bool.and_eq_true] at hi hok
    cases a with
    | cls d v => simp [List.filter_cons, isCls] at h
    | plain d n v =>
      have hr : (r.filter isCls).length = 0 := by simpa [List.filter_cons, isCls] using h
      obtain ⟨h1, h2⟩ := ih hi.2 hok.2 hr
      have hn : n ≠ sClass := by
        have := hok.1; simp only [tattrOK, plainNameOK, Bool.and_eq_true, bne_iff_ne, ne_eq] at this; exact this.1.1.2
      simp [inertAttrView, plainFlat, classPart, classSrc, hn, h1, h2]
    | flag n =>
      have hr : (r.filter isCls).length = 0 := by simpa [List.filter_cons, isCls] using h
      obtain ⟨h1, h2⟩ := ih hi.2 hok.2 hr
      have hn : n ≠ sClass := by
        have := hok.1; simp only [tattrOK, plainNameOK, Bool.and_eq_true, bne_iff_ne, ne_eq] at this; exact this.1.2
      simp [inertAttrView, plainFlat, classPart, classSrc, hn, h1, h2]
    | style d v =>
      have hr : (r.filter isCls).length = 0 := by simpa [List.filter_cons, isCls] using h
      obtain ⟨h1, h2⟩ := ih hi.2 hok.2 hr
      simp [inertAttrView, plainFlat, classPart, classSrc, sClass_ne_sStyle.symm, h1, h2]
    | boolDyn n b => simp [attrInert] at hi
    | clsToggle n b => simp [attrInert] at hi
    | clsTuple n b => simp [attrInert] at hi
    | styleKV d n v => simp [attrInert] at hi

theorem no_style (r : List TAttr) (hi : r.all attrInert = true) (hok : r.all tattrOK = true)
    (h : (r.filter isStyle).length = 0) :
    stylePart (plainFlat (r.map inertAttrView)) = [] ∧ styleSrc r = [] := by
  induction r with
  | nil => simp [stylePart, plainFlat, styleSrc]
  | cons a r ih =>
    simp only [List.all_cons, Bool.and_eq_true] at hi hok
    cases a with
    | style d v => simp [List.filter_cons, isStyle] at h
    | plain d n v =>
      have hr : (r.filter isStyle).length = 0 := by simpa [List.filter_cons, isStyle] using h
      obtain ⟨h1, h2⟩ := ih hi.2 hok.2 hr
      have hn : n ≠ sStyle := by
        have := hok.1; simp only [tattrOK, plainNameOK, Bool.and_eq_true, bne_iff_ne, ne_eq] at this; exact this.1.2
      simp [inertAttrView, plainFlat, stylePart, styleSrc, hn, h1, h2]
    | flag n =>
      have hr : (r.filter isStyle).length = 0 := by simpa [List.filter_cons, isStyle] using h
      obtain ⟨h1, h2⟩ := ih hi.2 hok.2 hr
      have hn : n ≠ sStyle := by
        have := hok.1; simp only [tattrOK, plainNameOK, Bool.and_eq_true, bne_iff_ne, ne_eq] at this; exact this.2
      simp [inertAttrView, plainFlat, stylePart, styleSrc, hn, h1, h2]
    | cls d v =>
      have hr : (r.filter isStyle).length = 0 := by simpa [List.filter_cons, isStyle] using h
      obtain ⟨h1, h2⟩ := ih hi.2 hok.2 hr
      simp [inertAttrView, plainFlat, stylePart, styleSrc, sClass_ne_sStyle, h1, h2]
    | boolDyn n b => simp [attrInert] at hi
    | clsToggle n b => simp [attrInert] at hi
    | clsTuple n b => simp [attrInert] at hi
    | styleKV d n v => simp [attrInert] at hi

theorem classPart_inert (attrs : List TAttr) (hi : attrs.all attrInert = true) (hok : attrs.all tattrOK = true)
    (h : (attrs.filter isCls).length ≤ 1) :
    classPart (plainFlat (attrs.map inertAttrView)) = optAttr sClass (normClass (trim (classSrc attrs))) := by
  induction attrs with
  | nil => decide
  | cons a r ih =>
    simp only [List.all_cons, Bool.and_eq_true] at hi hok
    cases a with
    | cls d v =>
      have hr : (r.filter isCls).length = 0 := by
        simp only [List.filter_cons, isCls, if_true, List.length_cons] at h; omega
      obtain ⟨h1, h2⟩ := no_cls r hi.2 hok.2 hr
      simp [inertAttrView, plainFlat, classPart, classSrc, h1, h2, trim_space]
    | plain d n v =>
      have hr : (r.filter isCls).length ≤ 1 := by simpa [List.filter_cons, isCls] using h
      have hn : n ≠ sClass := by
        have := hok.1; simp only [tattrOK, plainNameOK, Bool.and_eq_true, bne_iff_ne, ne_eq] at this; exact this.1.1.2
      simp [inertAttrView, plainFlat, classPart, classSrc, hn, ih hi.2 hok.2 hr]
    | flag n =>
      have hr : (r.filter isCls).length ≤ 1 := by simpa [List.filter_cons, isCls] using h
      have hn : n ≠ sClass := by
        have := hok.1; simp only [tattrOK, plainNameOK, Bool.and_eq_true, bne_iff_ne, ne_eq] at this; exact this.1.2
      simp [inertAttrView, plainFlat, classPart, classSrc, hn, ih hi.2 hok.2 hr]
    | style d v =>
      have hr : (r.filter isCls).length ≤ 1 := by simpa [List.filter_cons, isCls] using h
      simp [inertAttrView, plainFlat, classPart, classSrc, sClass_ne_sStyle.symm, ih hi.2 hok.2 hr]
    | boolDyn n b => simp [attrInert] at hi
    | clsToggle n b => simp [attrInert] at hi
    | clsTuple n b => simp [attrInert] at hi
    | styleKV d n v => simp [attrInert] at hi

theorem normStyle_nil : normStyle [] = [] := by decide

theorem stylePart_inert (attrs : List TAttr) (hi : attrs.all attrInert = true) (hok : attrs.all tattrOK = true)
    (h : (attrs.filter isStyle).length ≤ 1) :
    stylePart (plainFlat (attrs.map inertAttrView)) = optAttr sStyle (normStyle (styleSrc attrs)) := by
  induction attrs with
  | nil => simp [stylePart, plainFlat, styleSrc, normStyle_nil, optAttr]
  | cons a r ih =>
    simp only [List.all_cons, Bool.and_eq_true] at hi hok
    cases a with
    | style d v =>
      have hr : (r.filter isStyle).length = 0 := by
        simp only [List.filter_cons, isStyle, if_true, List.length_cons] at h; omega
      obtain ⟨h1, h2⟩ := no_style r hi.2 hok.2 hr
      have := normStyle_semi v
      simp [inertAttrView, plainFlat, stylePart, styleSrc, h1, h2, this]
    | plain d n v =>
      have hr : (r.filter isStyle).length ≤ 1 := by simpa [List.filter_cons, isStyle] using h
      have hn : n ≠ sStyle := by
        have := hok.1; simp only [tattrOK, plainNameOK, Bool.and_eq_true, bne_iff_ne, ne_eq] at this; exact this.1.2
      simp [inertAttrView, plainFlat, stylePart, styleSrc, hn, ih hi.2 hok.2 hr]
    | flag n =>
      have hr : (r.filter isStyle).length ≤ 1 := by simpa [List.filter_cons, isStyle] using h
      have hn : n ≠ sStyle := by
        have := hok.1; simp only [tattrOK, plainNameOK, Bool.and_eq_true, bne_iff_ne, ne_eq] at this; exact this.2
      simp [inertAttrView, plainFlat, stylePart, styleSrc, hn, ih hi.2 hok.2 hr]
    | cls d v =>
      have hr : (r.filter isStyle).length ≤ 1 := by simpa [List.filter_cons, isStyle] using h
      simp [inertAttrView, plainFlat, stylePart, styleSrc, sClass_ne_sStyle, ih hi.2 hok.2 hr]
    | boolDyn n b => simp [attrInert] at hi
    | clsToggle n b => simp [attrInert] at hi
    | clsTuple n b => simp [attrInert] at hi
    | styleKV d n v => simp [attrInert] at hi

theorem otherPart_inert (attrs : List TAttr) (hi : attrs.all attrInert = true) (hok : attrs.all tattrOK = true) :
    otherPart (plainFlat (attrs.map inertAttrView)) = plainDen attrs := by
  induction attrs with
  | nil => rfl
  | cons a r ih =>
    simp only [List.all_cons, Bool.and_eq_true] at hi hok
    have ih' := ih hi.2 hok.2
    cases a with
    | plain d n v =>
      have := hok.1; simp only [tattrOK, plainNameOK, Bool.and_eq_true, bne_iff_ne, ne_eq] at this
      simp [inertAttrView, plainFlat, otherPart, plainDen, this.1.1.2, this.1.2, ih']
    | flag n =>
      have := hok.1; simp only [tattrOK, plainNameOK, Bool.and_eq_true, bne_iff_ne, ne_eq] at this
      simp [inertAttrView, plainFlat, otherPart, plainDen, this.1.2, this.2, ih']
    | cls d v => simp [inertAttrView, plainFlat, otherPart, plainDen, ih']
    | style d v => simp [inertAttrView, plainFlat, otherPart, plainDen, ih']
    | boolDyn n b => simp [attrInert] at hi
    | clsToggle n b => simp [attrInert] at hi
    | clsTuple n b => simp [attrInert] at hi
    | styleKV d n v => simp [attrInert] at hi

/-- **attributes, inert path (meaning)** -/
theorem normAttrs_inert (attrs : List TAttr) (hi : attrs.all attrInert = true) (h : tattrsOK attrs = true) :
    normAttrs (expectedAttrs (attrs.map inertAttrView)) = denAttrs attrs := by
  simp only [tattrsOK, Bool.and_eq_true, decide_eq_true_eq] at h
  obtain ⟨⟨⟨hok, _⟩, hc⟩, hs⟩ := h
  obtain ⟨s1, s2⟩ := sort_inert attrs hi
  rw [expectedAttrs_inert]
  unfold normAttrs denAttrs
  rw [otherPart_inert attrs hi hok, classPart_inert attrs hi hok hc, stylePart_inert attrs hi hok hs, s1, s2]


/-! ### the inert subtree as a tachys view: adjacent literals are one string (an empty one is a space) -/

def consTextNode (s : Str) : List Node → List Node
  | .text s' :: r => .text (s ++ s') :: r
  | r => if s = [] then r else .text s :: r

def inertKidsView : List Tmpl → List Node
  | [] => []
  | .text s :: ts => consTextNode (textDen true s) (inertKidsView ts)
  | .block s :: ts => consTextNode (textDen true s) (inertKidsView ts)
  | .elem tag attrs kids :: ts =>
    .elem tag (attrs.map inertAttrView) (if macroIsVoid tag then [] else inertKidsView kids) :: inertKidsView ts
  | .frag _ :: ts => inertKidsView ts
  | .comp _ :: ts => inertKidsView ts
  | .comment _ :: ts => inertKidsView ts
  | .doctype :: ts => inertKidsView ts
  | .unit :: ts => inertKidsView ts
  | .compA _ _ _ :: ts => inertKidsView ts

def inertView : Tmpl → Node
  | .elem tag attrs kids =>
    .elem tag (attrs.map inertAttrView) (if macroIsVoid tag then [] else inertKidsView kids)
  | .text s => .text s
  | .block s => .text s
  | .frag _ => .text []
  | .comp _ => .text []
  | .comment _ => .text []
  | .doctype => .text []
  | .unit => .text []
  | .compA _ _ _ => .text []


/-! ### well-formed templates (hypothesis of the main theorems) -/

def titleKidsT : List Tmpl → Bool
  | [.text s] => clean s
  | [.block s] => clean s
  | _ => false

mutual
/-- `anc`: tags of the open elements, innermost first.  Elements as in C06's `wfNode` (ordinary containers in
any nesting the tree builder accepts, void elements, raw-text elements without children, `<title>` with one
string), attribute lists the macro accepts, fragments and `<Wrap>` anywhere a `<section>` may stand; strings
without U+0000 / U+000D. -/
def wfT (anc : List Str) : Tmpl → Bool
  | .text s => clean s
  | .block s => clean s
  | .elem tag attrs kids =>
    tattrsOK attrs && nestOK tag anc &&
      ((genericOK tag && wfTs (tag :: anc) kids) || (voidOK tag && kids.isEmpty) ||
       (rawLike tag && kids.isEmpty) || (tag = tTitle && titleKidsT kids))
  | .frag kids => wfTs anc kids
  | .comp kids => nestOK sSection anc && wfTs (sSection :: anc) kids
  | .comment _ => true
  | .doctype => false
  | .unit => false
  | .compA _ _ _ => false
def wfTs (anc : List Str) : List Tmpl → Bool
  | [] => true
  | t :: ts => wfT anc t && wfTs anc ts
end

/-! ### tag facts -/

theorem macroVoid_split : macroVoid = voidTags.take 10 ++ sParam :: voidTags.drop 10 := by decide

theorem macroIsVoid_eq (t : Str) : macroIsVoid t = (isVoid t || t == sParam) := by
  have h1 : macroIsVoid t = true ↔ t ∈ macroVoid := by simp [macroIsVoid]
  have h2 : isVoid t = true ↔ t ∈ voidTags := by simp [isVoid]
  have h3 : t ∈ macroVoid ↔ (t ∈ voidTags ∨ t = sParam) := by
    rw [macroVoid_split]
    conv => rhs; rw [← List.take_append_drop 10 voidTags]
    simp only [List.mem_append, List.mem_cons]
    constructor
    · rintro (h | h | h)
      · exact Or.inl (Or.inl h)
      · exact Or.inr h
      · exact Or.inl (Or.inr h)
    · rintro ((h | h) | h)
      · exact Or.inl h
      · exact Or.inr (Or.inr h)
      · exact Or.inr (Or.inl h)
  cases hm : macroIsVoid t <;> cases hv : isVoid t <;> cases hp : (t == sParam) <;> simp_all

theorem macroEscapes_eq (t : Str) : macroEscapes t = escapeChildren t := by
  have : macroNoEscape.contains t = rawTags.contains t := by
    simp only [macroNoEscape, rawTags, List.contains_cons, List.contains_nil, Bool.or_false]
    cases (t == tScript) <;> cases (t == tStyle) <;> cases (t == tTextarea) <;> cases (t == tNoscript) <;> rfl
  unfold macroEscapes escapeChildren
  rw [this]

theorem macroEscapes_of {t : Str} (h : escapeChildren t = true) : macroEscapes t = true := by
  rw [macroEscapes_eq]; exact h

theorem generic_facts {tag : Str} (hg : genericOK tag = true) :
    isVoid tag = false ∧ escapeChildren tag = true ∧ macroIsVoid tag = false ∧ macroEscapes tag = true := by
  simp only [genericOK, Bool.and_eq_true, decide_eq_true_eq, Bool.not_eq_true', bne_iff_ne, ne_eq] at hg
  obtain ⟨⟨⟨⟨hkind, hnv⟩, hesc⟩, _⟩, _⟩ := hg
  have hp : tag ≠ sParam := by
    intro e; subst e; revert hkind; decide
  refine ⟨hnv, hesc, ?_, macroEscapes_of hesc⟩
  rw [macroIsVoid_eq, hnv]
  simpa using hp

theorem void_facts {tag : Str} (hv : voidOK tag = true) : isVoid tag = true ∧ macroIsVoid tag = true := by
  simp only [voidOK, Bool.and_eq_true, decide_eq_true_eq] at hv
  exact ⟨hv.1.2, by rw [macroIsVoid_eq, hv.1.2]; rfl⟩

theorem raw_facts {tag : Str} (hr : rawLike tag = true) : isVoid tag = false ∧ macroIsVoid tag = false := by
  rcases rawLike_cases hr with h | h | h | h | h <;> subst h <;> decide

theorem title_facts : isVoid tTitle = false ∧ escapeChildren tTitle = true ∧ macroIsVoid tTitle = false ∧
    macroEscapes tTitle = true ∧ rawLike tTitle = true := by decide

/-! ### `consTextNode` -/

def Good (X : List Node) : Prop := ∀ s R, X = .text s :: R → s ≠ []

theorem good_consText (s : Str) (X : List Node) (h : Good X) : Good (consTextNode s X) := by
  intro s1 R e
  cases X with
  | nil =>
    by_cases hs : s = []
    · simp [consTextNode, hs] at e
    · simp only [consTextNode, hs, if_false, List.cons.injEq, Node.text.injEq] at e
      rw [← e.1]; exact hs
  | cons x X' =>
    cases x with
    | text s' =>
      simp only [consTextNode, List.cons.injEq, Node.text.injEq] at e
      have := h s' X' rfl
      rw [← e.1]
      intro hh
      exact this (List.append_eq_nil_iff.mp hh).2
    | elem tag attrs kids =>
      by_cases hs : s = []
      · simp [consTextNode, hs] at e
      · simp only [consTextNode, hs, if_false, List.cons.injEq, Node.text.injEq] at e
        rw [← e.1]; exact hs

theorem good_inertKids : (ks : List Tmpl) → Good (inertKidsView ks)
  | [] => by intro s R e; simp [inertKidsView] at e
  | .text s :: ts => by simpa [inertKidsView] using good_consText (textDen true s) _ (good_inertKids ts)
  | .block s :: ts => by simpa [inertKidsView] using good_consText (textDen true s) _ (good_inertKids ts)
  | .elem tag attrs kids :: ts => by intro s R e; simp [inertKidsView] at e
  | .frag _ :: ts => by simpa [inertKidsView] using good_inertKids ts
  | .comp _ :: ts => by simpa [inertKidsView] using good_inertKids ts
  | .comment _ :: ts => by simpa [inertKidsView] using good_inertKids ts
  | .doctype :: ts => by simpa [inertKidsView] using good_inertKids ts
  | .unit :: ts => by simpa [inertKidsView] using good_inertKids ts
  | .compA _ _ _ :: ts => by simpa [inertKidsView] using good_inertKids ts

theorem escapeWith_append (tbl : List (Char × Str)) (a b : Str) :
    escapeWith tbl (a ++ b) = escapeWith tbl a ++ escapeWith tbl b := by
  induction a with
  | nil => rfl
  | cons c a ih => simp [escapeWith, ih]

/-- position only matters for a leading string -/
theorem kidsHtml_pos (X : List Node) (pos : Pos) (h : pos = .afterText → ∀ s R, X ≠ .text s :: R) :
    kidsHtml true pos X = kidsHtml true .firstChild X := by
  cases X with
  | nil => rfl
  | cons x X' =>
    cases x with
    | text s =>
      have hp : pos ≠ .afterText := fun e => h e s X' rfl
      simp [kidsHtml, nodeHtml, textHtml, hp]
    | elem tag attrs kids => simp [kidsHtml, nodeHtml]

theorem html_consText (s : Str) (X : List Node) (hg : Good X) :
    kidsHtml true .firstChild (consTextNode s X) = escapeText s ++ kidsHtml true .firstChild X := by
  cases X with
  | nil =>
    by_cases hs : s = []
    · simp [consTextNode, hs, kidsHtml, escapeText, escapeWith]
    · simp [consTextNode, hs, kidsHtml, nodeHtml, textHtml]
  | cons x X' =>
    cases x with
    | text s' =>
      have hs' : s' ≠ [] := hg s' X' rfl
      have hss : s ++ s' ≠ [] := fun hh => hs' (List.append_eq_nil_iff.mp hh).2
      simp [consTextNode, kidsHtml, nodeHtml, textHtml, hs', hss, escapeText, escapeWith_append, posAfter]
    | elem tag attrs kids =>
      by_cases hs : s = []
      · simp [consTextNode, hs, escapeText, escapeWith]
      · simp [consTextNode, hs, kidsHtml, nodeHtml, textHtml, posAfter]

/-- markers are dropped by normalisation, so the position is irrelevant for the normal form -/
theorem struct_pos (X : List Node) (pos pos' : Pos) (Q : List Tree) :
    normList (structKids pos X ++ Q) = normList (structKids pos' X ++ Q) := by
  cases X with
  | nil => rfl
  | cons x X' =>
    cases x with
    | text s =>
      by_cases h1 : pos = .afterText <;> by_cases h2 : pos' = .afterText <;>
        simp [structKids, structNode, h1, h2, normList, normNode, pushNorm]
    | elem tag attrs kids => simp [structKids, structNode]

theorem consText_nil (Z : List Tree) : consText [] Z = Z := by
  cases Z with
  | nil => rfl
  | cons z Z' => cases z <;> simp [consText]

theorem consText_consText (s s' : Str) (hs' : s' ≠ []) (Z : List Tree) :
    consText s (consText s' Z) = consText (s ++ s') Z := by
  cases Z with
  | nil => simp [consText, hs']
  | cons z Z' =>
    cases z with
    | text u => simp [consText]
    | comment c => simp [consText, hs']
    | elem t a k => simp [consText, hs']

theorem normList_text (s : Str) (R : List Tree) : normList (.text s :: R) = consText s (normList R) := by
  simp [normList, normNode, pushNorm]

theorem struct_consText (s : Str) (X : List Node) (Q : List Tree) (hg : Good X) :
    normList (structKids .firstChild (consTextNode s X) ++ Q) =
      consText s (normList (structKids .firstChild X ++ Q)) := by
  cases X with
  | nil =>
    by_cases hs : s = []
    · simp [consTextNode, hs, structKids, consText_nil]
    · simp [consTextNode, hs, structKids, structNode, normList_text]
  | cons x X' =>
    cases x with
    | text s' =>
      have hs' : s' ≠ [] := hg s' X' rfl
      have hss : s ++ s' ≠ [] := fun hh => hs' (List.append_eq_nil_iff.mp hh).2
      simp [consTextNode, structKids, structNode, hs', hss, normList_text, consText_consText s s' hs', posAfter]
    | elem tag attrs kids =>
      by_cases hs : s = []
      · simp [consTextNode, hs, consText_nil]
      · have := struct_pos (.elem tag attrs kids :: X') .afterText .firstChild Q
        simp [consTextNode, hs, structKids, structNode, normList_text, posAfter] at this ⊢

theorem wf_consText (s : Str) (X : List Node) (anc : List Str) (hs : clean s = true) (hx : wfKids anc X = true) :
    wfKids anc (consTextNode s X) = true := by
  cases X with
  | nil =>
    by_cases h : s = []
    · simp [consTextNode, h, wfKids]
    · simp [consTextNode, h, wfKids, wfNode, hs]
  | cons x X' =>
    cases x with
    | text s' =>
      simp only [wfKids, wfNode, Bool.and_eq_true] at hx
      simp [consTextNode, wfKids, wfNode, clean_append, hs, hx.1, hx.2]
    | elem tag attrs kids =>
      by_cases h : s = []
      · simpa [consTextNode, h] using hx
      · have e : consTextNode s (.elem tag attrs kids :: X') = .text s :: .elem tag attrs kids :: X' := by
          simp [consTextNode, h]
        rw [e, wfKids, Bool.and_eq_true]
        exact ⟨by simpa [wfNode] using hs, hx⟩


/-! ### the inert attribute list is a well-formed tachys attribute list -/

def inertNames (attrs : List TAttr) : List Str := (plainFlat (attrs.map inertAttrView)).map (·.1)

theorem mem_inertNames (r : List TAttr) (hi : r.all attrInert = true) (x : Str) (hx : x ∈ inertNames r) :
    x ∈ plainNames r ∨ (x = sClass ∧ 1 ≤ (r.filter isCls).length) ∨ (x = sStyle ∧ 1 ≤ (r.filter isStyle).length) := by
  induction r with
  | nil => simp [inertNames, plainFlat] at hx
  | cons a r ih =>
    simp only [List.all_cons, Bool.and_eq_true] at hi
    cases a with
    | plain d n v =>
      simp only [inertNames, List.map_cons, inertAttrView, plainFlat, List.mem_cons] at hx
      rcases hx with rfl | hx
      · simp [plainNames]
      · rcases ih hi.2 hx with h | h | h
        · exact Or.inl (by simp [plainNames, h])
        · exact Or.inr (Or.inl (by simpa [List.filter_cons, isCls] using h))
        · exact Or.inr (Or.inr (by simpa [List.filter_cons, isStyle] using h))
    | flag n =>
      simp only [inertNames, List.map_cons, inertAttrView, plainFlat, List.mem_cons] at hx
      rcases hx with rfl | hx
      · simp [plainNames]
      · rcases ih hi.2 hx with h | h | h
        · exact Or.inl (by simp [plainNames, h])
        · exact Or.inr (Or.inl (by simpa [List.filter_cons, isCls] using h))
        · exact Or.inr (Or.inr (by simpa [List.filter_cons, isStyle] using h))
    | cls d v =>
      simp only [inertNames, List.map_cons, inertAttrView, plainFlat, List.mem_cons] at hx
      rcases hx with rfl | hx
      · exact Or.inr (Or.inl ⟨rfl, by simp [List.filter_cons, isCls]⟩)
      · rcases ih hi.2 hx with h | h | h
        · exact Or.inl (by simpa [plainNames] using h)
        · exact Or.inr (Or.inl ⟨h.1, by simp [List.filter_cons, isCls]⟩)
        · exact Or.inr (Or.inr (by simpa [List.filter_cons, isStyle] using h))
    | style d v =>
      simp only [inertNames, List.map_cons, inertAttrView, plainFlat, List.mem_cons] at hx
      rcases hx with rfl | hx
      · exact Or.inr (Or.inr ⟨rfl, by simp [List.filter_cons, isStyle]⟩)
      · rcases ih hi.2 hx with h | h | h
        · exact Or.inl (by simpa [plainNames] using h)
        · exact Or.inr (Or.inl (by simpa [List.filter_cons, isCls] using h))
        · exact Or.inr (Or.inr ⟨h.1, by simp [List.filter_cons, isStyle]⟩)
    | boolDyn n b => simp [attrInert] at hi
    | clsToggle n b => simp [attrInert] at hi
    | clsTuple n b => simp [attrInert] at hi
    | styleKV d n v => simp [attrInert] at hi

theorem plainNameOK_not_class : plainNameOK sClass = false := by decide
theorem plainNameOK_not_style : plainNameOK sStyle = false := by decide

theorem inertNames_nodup (attrs : List TAttr) (hi : attrs.all attrInert = true) (hok : attrs.all tattrOK = true)
    (hnd : (plainNames attrs).Nodup) (hc : (attrs.filter isCls).length ≤ 1) (hs : (attrs.filter isStyle).length ≤ 1) :
    (inertNames attrs).Nodup := by
  induction attrs with
  | nil => simp [inertNames, plainFlat]
  | cons a r ih =>
    simp only [List.all_cons, Bool.and_eq_true] at hi hok
    have hpn := plainNames_ok r hok.2
    cases a with
    | plain d n v =>
      have hn := hok.1; simp only [tattrOK, plainNameOK, Bool.and_eq_true, bne_iff_ne, ne_eq] at hn
      simp only [plainNames, List.nodup_cons] at hnd
      have hc' : (r.filter isCls).length ≤ 1 := by simpa [List.filter_cons, isCls] using hc
      have hs' : (r.filter isStyle).length ≤ 1 := by simpa [List.filter_cons, isStyle] using hs
      have := ih hi.2 hok.2 hnd.2 hc' hs'
      simp only [inertNames, List.map_cons, inertAttrView, plainFlat, List.nodup_cons]
      refine ⟨?_, this⟩
      intro hx
      rcases mem_inertNames r hi.2 n hx with h | h | h
      · exact hnd.1 h
      · exact hn.1.1.2 h.1
      · exact hn.1.2 h.1
    | flag n =>
      have hn := hok.1; simp only [tattrOK, plainNameOK, Bool.and_eq_true, bne_iff_ne, ne_eq] at hn
      simp only [plainNames, List.nodup_cons] at hnd
      have hc' : (r.filter isCls).length ≤ 1 := by simpa [List.filter_cons, isCls] using hc
      have hs' : (r.filter isStyle).length ≤ 1 := by simpa [List.filter_cons, isStyle] using hs
      have := ih hi.2 hok.2 hnd.2 hc' hs'
      simp only [inertNames, List.map_cons, inertAttrView, plainFlat, List.nodup_cons]
      refine ⟨?_, this⟩
      intro hx
      rcases mem_inertNames r hi.2 n hx with h | h | h
      · exact hnd.1 h
      · exact hn.1.2 h.1
      · exact hn.2 h.1
    | cls d v =>
      simp only [plainNames] at hnd
      have hc' : (r.filter isCls).length = 0 := by
        simp only [List.filter_cons, isCls, if_true, List.length_cons] at hc; omega
      have hs' : (r.filter isStyle).length ≤ 1 := by simpa [List.filter_cons, isStyle] using hs
      have := ih hi.2 hok.2 hnd (by omega) hs'
      simp only [inertNames, List.map_cons, inertAttrView, plainFlat, List.nodup_cons]
      refine ⟨?_, this⟩
      intro hx
      rcases mem_inertNames r hi.2 sClass hx with h | h | h
      · have := hpn sClass h; rw [plainNameOK_not_class] at this; cases this
      · omega
      · exact sClass_ne_sStyle h.1
    | style d v =>
      simp only [plainNames] at hnd
      have hc' : (r.filter isCls).length ≤ 1 := by simpa [List.filter_cons, isCls] using hc
      have hs' : (r.filter isStyle).length = 0 := by
        simp only [List.filter_cons, isStyle, if_true, List.length_cons] at hs; omega
      have := ih hi.2 hok.2 hnd hc' (by omega)
      simp only [inertNames, List.map_cons, inertAttrView, plainFlat, List.nodup_cons]
      refine ⟨?_, this⟩
      intro hx
      rcases mem_inertNames r hi.2 sStyle hx with h | h | h
      · have := hpn sStyle h; rw [plainNameOK_not_style] at this; cases this
      · exact sClass_ne_sStyle h.1.symm
      · omega
    | boolDyn n b => simp [attrInert] at hi
    | clsToggle n b => simp [attrInert] at hi
    | clsTuple n b => simp [attrInert] at hi
    | styleKV d n v => simp [attrInert] at hi

theorem attrClean_inert (a : TAttr) (hi : attrInert a = true) (h : tattrOK a = true) :
    attrClean (inertAttrView a) = true := by
  cases a with
  | cls d v =>
    have hc : clean v = true := by simpa [tattrOK] using h
    have hn : attrNameOK sClass = true := by decide
    simp [inertAttrView, attrClean, hn, clean_trim v hc]
  | style d v =>
    have hc : clean v = true := by simpa [tattrOK] using h
    have hn : attrNameOK sStyle = true := by decide
    simp [inertAttrView, attrClean, hn, hc]
  | _ => simp_all [tattrOK, inertAttrView, attrClean, plainNameOK, attrInert]

theorem attrsOK_inert (attrs : List TAttr) (hi : attrs.all attrInert = true) (h : tattrsOK attrs = true) :
    attrsOK (attrs.map inertAttrView) = true := by
  simp only [tattrsOK, Bool.and_eq_true, decide_eq_true_eq] at h
  obtain ⟨⟨⟨hok, hnd⟩, hc⟩, hs⟩ := h
  simp only [attrsOK, Bool.and_eq_true, decide_eq_true_eq, List.all_eq_true]
  refine ⟨?_, ?_⟩
  · intro b hb
    obtain ⟨a, ha, rfl⟩ := List.mem_map.mp hb
    exact attrClean_inert a (List.all_eq_true.mp hi a ha) (List.all_eq_true.mp hok a ha)
  · rw [expectedAttrs_inert]
    exact inertNames_nodup attrs hi hok hnd hc hs

theorem innerBuf_inert (attrs : List TAttr) : innerBuf (attrs.map inertAttrView) = [] := by
  induction attrs with
  | nil => rfl
  | cons a r ih => cases a <;> simp [inertAttrView, innerBuf, ih]


/-! ### the inert printer against the inert view -/

theorem titleKidsT_cases {kids : List Tmpl} (h : titleKidsT kids = true) :
    ∃ s, (kids = [.text s] ∨ kids = [.block s]) ∧ clean s = true := by
  unfold titleKidsT at h
  split at h
  · next s => exact ⟨s, Or.inl rfl, h⟩
  · next s => exact ⟨s, Or.inr rfl, h⟩
  · cases h

theorem title_wfTs {kids : List Tmpl} (h : titleKidsT kids = true) (anc : List Str) :
    wfTs anc kids = true := by
  obtain ⟨s, hk, hc⟩ := titleKidsT_cases h
  rcases hk with rfl | rfl <;> simp [wfTs, wfT, hc]

theorem inert_text (s : Str) : inertNodeHtml true (.text s) = escapeText (textDen true s) := by
  cases s with
  | nil => decide
  | cons c cs => simp [inertNodeHtml, textDen]

theorem textDen_ne (s : Str) : textDen true s ≠ [] := by
  cases s <;> simp [textDen]

theorem textDen_eq (s : Str) : (if s = [] then [' '] else s) = textDen true s := by
  cases s <;> simp [textDen]

theorem clean_textDen (s : Str) (h : clean s = true) : clean (textDen true s) = true := by
  cases s with
  | nil => decide
  | cons c cs => simpa [textDen] using h

theorem nextChild_irrel (X : List Node) : kidsHtml true .nextChild X = kidsHtml true .firstChild X :=
  kidsHtml_pos X .nextChild (by intro h; cases h)

theorem textareaBody_nil : textareaBody true true [] = [] := by decide

/-- outside `<textarea>` (or with no children) the textarea case of the printers is the ordinary one -/
theorem inert_body_eq (tag : Str) (kids : List Tmpl) (h : tag ≠ tTextarea ∨ kids = []) :
    (if tag = tTextarea ∧ allLits kids = true then textareaBody true true (litConcat kids)
     else inertKidsHtml (macroEscapes tag) kids) = inertKidsHtml (macroEscapes tag) kids := by
  rcases h with h | rfl
  · simp [h]
  · split <;> simp [litConcat, inertKidsHtml, textareaBody_nil]

theorem elemBody_eq (tag : Str) (x : Str) (h : tag ≠ tTextarea ∨ x = []) : elemBody tag x = x := by
  rcases h with h | rfl
  · simp [elemBody, h]
  · unfold elemBody
    split
    · decide
    · rfl

theorem void_not_textarea {tag : Str} (h : isVoid tag = true) : tag ≠ tTextarea := by
  intro e; subst e; revert h; decide

theorem generic_not_textarea {tag : Str} (hg : genericOK tag = true) : tag ≠ tTextarea := by
  simp only [genericOK, Bool.and_eq_true, bne_iff_ne, ne_eq] at hg
  exact hg.2

/-- **inert path, bytes**: the macro-time printer writes exactly what tachys writes for the inert view -/
theorem inert_html : (ks : List Tmpl) → ∀ (anc : List Str), wfTs anc ks = true → inertKids ks = true →
    inertKidsHtml true ks = kidsHtml true .firstChild (inertKidsView ks)
  | [], _, _, _ => by simp [inertKidsHtml, inertKidsView, kidsHtml]
  | .text s :: ts, anc, hw, hi => by
    simp only [wfTs, wfT, Bool.and_eq_true] at hw
    simp only [inertKids, inertNode, Bool.true_and] at hi
    rw [inertKidsView, html_consText (textDen true s) _ (good_inertKids ts), ← inert_html ts anc hw.2 hi]
    simp [inertKidsHtml, inert_text]
  | .block s :: ts, _, _, hi => by simp [inertKids, inertNode] at hi
  | .frag k :: ts, _, _, hi => by simp [inertKids, inertNode] at hi
  | .comp k :: ts, _, _, hi => by simp [inertKids, inertNode] at hi
  | .comment _ :: ts, _, _, hi => by simp [inertKids, inertNode] at hi
  | .doctype :: ts, _, _, hi => by simp [inertKids, inertNode] at hi
  | .unit :: ts, _, _, hi => by simp [inertKids, inertNode] at hi
  | .compA _ _ _ :: ts, _, _, hi => by simp [inertKids, inertNode] at hi
  | .elem tag attrs kids :: ts, anc, hw, hi => by
    simp only [wfTs, wfT, Bool.and_eq_true, Bool.or_eq_true] at hw
    obtain ⟨⟨⟨hattrs, hnest⟩, hcase⟩, hts⟩ := hw
    simp only [inertKids, inertNode, Bool.and_eq_true] at hi
    obtain ⟨⟨hia, hik⟩, hits⟩ := hi
    have iht := inert_html ts anc hts hits
    have hA := attrsHtml_inert attrs hia
    have hI := innerBuf_inert attrs
    have key : ∀ (facts : isVoid tag = macroIsVoid tag) (hta : tag ≠ tTextarea ∨ kids = [])
        (body : macroIsVoid tag = false →
          inertKidsHtml (macroEscapes tag) kids = kidsHtml (escapeChildren tag) .firstChild (inertKidsView kids)),
        inertKidsHtml true (.elem tag attrs kids :: ts) =
          kidsHtml true .firstChild (inertKidsView (.elem tag attrs kids :: ts)) := by
      intro facts hta body
      simp only [inertKidsView, inertKidsHtml, inertNodeHtml, inert_body_eq tag kids hta, kidsHtml, nodeHtml, posAfter, hA, hI,
        nextChild_irrel, ← iht, facts, if_true]
      cases hv : macroIsVoid tag
      · simp [body hv]
      · simp
    rcases hcase with ((⟨hg, hkids⟩ | ⟨hv, hempty⟩) | ⟨hraw, hempty⟩) | ⟨htitle, htk⟩
    · obtain ⟨f1, f2, f3, f4⟩ := generic_facts hg
      have ihk := inert_html kids (tag :: anc) hkids hik
      exact key (by rw [f1, f3]) (Or.inl (generic_not_textarea hg)) (fun _ => by rw [f2, f4]; exact ihk)
    · obtain ⟨f1, f2⟩ := void_facts hv
      exact key (by rw [f1, f2]) (Or.inl (void_not_textarea f1)) (fun h => by rw [f2] at h; cases h)
    · have hk : kids = [] := by cases kids <;> simp_all
      subst hk
      obtain ⟨f1, f2⟩ := raw_facts hraw
      exact key (by rw [f1, f2]) (Or.inr rfl) (fun _ => by simp [inertKidsHtml, inertKidsView, kidsHtml])
    · simp only [decide_eq_true_eq] at htitle
      subst htitle
      obtain ⟨f1, f2, f3, f4, _⟩ := title_facts
      have ihk := inert_html kids (tTitle :: anc) (title_wfTs htk _) hik
      exact key (by rw [f1, f3]) (Or.inl (by decide)) (fun _ => by rw [f2, f4]; exact ihk)

/-- **inert path, meaning**: the structure of the inert view normalises to what the template denotes -/
theorem inert_struct : (ks : List Tmpl) → ∀ (anc : List Str), wfTs anc ks = true → inertKids ks = true →
    ∀ Q : List Tree, normList (structKids .firstChild (inertKidsView ks) ++ Q) = denKs true ks (normList Q)
  | [], _, _, _ => by intro Q; simp [inertKidsView, structKids, denKs]
  | .text s :: ts, anc, hw, hi => by
    intro Q
    simp only [wfTs, wfT, Bool.and_eq_true] at hw
    simp only [inertKids, inertNode, Bool.true_and] at hi
    rw [inertKidsView, struct_consText (textDen true s) _ Q (good_inertKids ts), inert_struct ts anc hw.2 hi Q]
    simp [denKs, denK]
  | .block s :: ts, _, _, hi => by simp [inertKids, inertNode] at hi
  | .frag k :: ts, _, _, hi => by simp [inertKids, inertNode] at hi
  | .comp k :: ts, _, _, hi => by simp [inertKids, inertNode] at hi
  | .comment _ :: ts, _, _, hi => by simp [inertKids, inertNode] at hi
  | .doctype :: ts, _, _, hi => by simp [inertKids, inertNode] at hi
  | .unit :: ts, _, _, hi => by simp [inertKids, inertNode] at hi
  | .compA _ _ _ :: ts, _, _, hi => by simp [inertKids, inertNode] at hi
  | .elem tag attrs kids :: ts, anc, hw, hi => by
    intro Q
    simp only [wfTs, wfT, Bool.and_eq_true, Bool.or_eq_true] at hw
    obtain ⟨⟨⟨hattrs, hnest⟩, hcase⟩, hts⟩ := hw
    simp only [inertKids, inertNode, Bool.and_eq_true] at hi
    obtain ⟨⟨hia, hik⟩, hits⟩ := hi
    have iht := inert_struct ts anc hts hits Q
    have hI := innerBuf_inert attrs
    have hN := normAttrs_inert attrs hia hattrs
    have htail := struct_pos (inertKidsView ts) .nextChild .firstChild Q
    have key : ∀ (facts : isVoid tag = macroIsVoid tag)
        (body : macroIsVoid tag = false →
          normList (if escapeChildren tag = true then structKids .firstChild (inertKidsView kids)
                    else textTree (rawText (inertKidsView kids))) = denKs (escapeChildren tag) kids []),
        normList (structKids .firstChild (inertKidsView (.elem tag attrs kids :: ts)) ++ Q) =
          denKs true (.elem tag attrs kids :: ts) (normList Q) := by
      intro facts body
      simp only [inertKidsView, structKids, structNode, posAfter, hI, if_true, List.cons_append, List.nil_append,
        normList, normNode, pushNorm, hN, htail, iht, denKs, denK, facts]
      cases hv : macroIsVoid tag
      · have := body hv
        simp only [Bool.false_eq_true, if_false] at this ⊢
        rw [this]
      · simp [normList]
    rcases hcase with ((⟨hg, hkids⟩ | ⟨hv, hempty⟩) | ⟨hraw, hempty⟩) | ⟨htitle, htk⟩
    · obtain ⟨f1, f2, f3, f4⟩ := generic_facts hg
      have ihk := inert_struct kids (tag :: anc) hkids hik []
      exact key (by rw [f1, f3]) (fun _ => by simpa [f2, normList] using ihk)
    · obtain ⟨f1, f2⟩ := void_facts hv
      exact key (by rw [f1, f2]) (fun h => by rw [f2] at h; cases h)
    · have hk : kids = [] := by cases kids <;> simp_all
      subst hk
      obtain ⟨f1, f2⟩ := raw_facts hraw
      exact key (by rw [f1, f2]) (fun _ => by
        cases escapeChildren tag <;> simp [inertKidsView, structKids, rawText, textTree, normList, denKs])
    · simp only [decide_eq_true_eq] at htitle
      subst htitle
      obtain ⟨f1, f2, f3, f4, _⟩ := title_facts
      have ihk := inert_struct kids (tTitle :: anc) (title_wfTs htk _) hik []
      exact key (by rw [f1, f3]) (fun _ => by simpa [f2, normList] using ihk)

theorem title_inertKids {kids : List Tmpl} (h : titleKidsT kids = true) (hi : inertKids kids = true) :
    titleKids (inertKidsView kids) = true := by
  obtain ⟨s, hk, hc⟩ := titleKidsT_cases h
  rcases hk with rfl | rfl
  · simp [inertKidsView, consTextNode, textDen_ne, titleKids, clean_textDen s hc]
  · simp [inertKids, inertNode] at hi

/-- **inert path, well-formedness**: the inert view is inside C06's proved class -/
theorem inert_wf : (ks : List Tmpl) → ∀ (anc : List Str), wfTs anc ks = true → inertKids ks = true →
    wfKids anc (inertKidsView ks) = true
  | [], _, _, _ => by simp [inertKidsView, wfKids]
  | .text s :: ts, anc, hw, hi => by
    simp only [wfTs, wfT, Bool.and_eq_true] at hw
    simp only [inertKids, inertNode, Bool.true_and] at hi
    rw [inertKidsView]
    exact wf_consText (textDen true s) _ anc (clean_textDen s hw.1) (inert_wf ts anc hw.2 hi)
  | .block s :: ts, _, _, hi => by simp [inertKids, inertNode] at hi
  | .frag k :: ts, _, _, hi => by simp [inertKids, inertNode] at hi
  | .comp k :: ts, _, _, hi => by simp [inertKids, inertNode] at hi
  | .comment _ :: ts, _, _, hi => by simp [inertKids, inertNode] at hi
  | .doctype :: ts, _, _, hi => by simp [inertKids, inertNode] at hi
  | .unit :: ts, _, _, hi => by simp [inertKids, inertNode] at hi
  | .compA _ _ _ :: ts, _, _, hi => by simp [inertKids, inertNode] at hi
  | .elem tag attrs kids :: ts, anc, hw, hi => by
    simp only [wfTs, wfT, Bool.and_eq_true, Bool.or_eq_true] at hw
    obtain ⟨⟨⟨hattrs, hnest⟩, hcase⟩, hts⟩ := hw
    simp only [inertKids, inertNode, Bool.and_eq_true] at hi
    obtain ⟨⟨hia, hik⟩, hits⟩ := hi
    have iht := inert_wf ts anc hts hits
    have hA := attrsOK_inert attrs hia hattrs
    simp only [inertKidsView, wfKids, wfNode, Bool.and_eq_true, Bool.or_eq_true, hA, hnest, iht, true_and, and_true]
    rcases hcase with ((⟨hg, hkids⟩ | ⟨hv, hempty⟩) | ⟨hraw, hempty⟩) | ⟨htitle, htk⟩
    · obtain ⟨f1, f2, f3, f4⟩ := generic_facts hg
      have ihk := inert_wf kids (tag :: anc) hkids hik
      exact Or.inl (Or.inl (Or.inl ⟨hg, by simpa [f3] using ihk⟩))
    · obtain ⟨f1, f2⟩ := void_facts hv
      exact Or.inl (Or.inl (Or.inr ⟨hv, by simp [f2]⟩))
    · have hk : kids = [] := by cases kids <;> simp_all
      subst hk
      exact Or.inl (Or.inr ⟨hraw, by simp [inertKidsView]⟩)
    · simp only [decide_eq_true_eq] at htitle
      subst htitle
      obtain ⟨f1, f2, f3, f4, _⟩ := title_facts
      exact Or.inr ⟨by simp, by simpa [f3] using title_inertKids htk hik⟩


/-! ### the view a template expands to: `ui = false` the builder path alone, `ui = true` with the inert
subtrees replaced by their inert views -/

mutual
def viewOf (ui top : Bool) : Tmpl → List Node
  | .text s => [.text s]
  | .block s => [.text s]
  | .elem tag attrs kids =>
    if ui && (!top && isInert (.elem tag attrs kids)) then [inertView (.elem tag attrs kids)]
    else [.elem tag (builderAttrs attrs) (if macroIsVoid tag then [] else viewKids ui false kids)]
  | .frag kids => viewKids ui true kids
  | .comp kids => [.elem sSection [] (viewKids ui true kids)]
  | .comment _ => []
  | .doctype => []
  | .unit => []
  | .compA card attrs kids => [compNode card (attrs.map builderAttr) (viewKids ui true kids)]
def viewKids (ui top : Bool) : List Tmpl → List Node
  | [] => []
  | t :: ts => viewOf ui top t ++ viewKids ui top ts
end

mutual
theorem builderView_eq : (t : Tmpl) → ∀ top, builderView t = viewOf false top t
  | .text s, _ => by simp [builderView, viewOf]
  | .block s, _ => by simp [builderView, viewOf]
  | .elem tag attrs kids, _ => by simp [builderView, viewOf, builderKids_eq kids false]
  | .frag kids, _ => by simp [builderView, viewOf, builderKids_eq kids true]
  | .comp kids, _ => by simp [builderView, viewOf, builderKids_eq kids true]
  | .comment _, _ => by simp [builderView, viewOf]
  | .doctype, _ => by simp [builderView, viewOf]
  | .unit, _ => by simp [builderView, viewOf]
  | .compA card attrs kids, _ => by simp [builderView, viewOf, builderKids_eq kids true]
theorem builderKids_eq : (ts : List Tmpl) → ∀ top, builderKids ts = viewKids false top ts
  | [], _ => by simp [builderKids, viewKids]
  | t :: ts, top => by simp [builderKids, viewKids, builderView_eq t top, builderKids_eq ts top]
end

theorem wfKids_append (anc : List Str) (A B : List Node) :
    wfKids anc (A ++ B) = (wfKids anc A && wfKids anc B) := by
  induction A with
  | nil => simp [wfKids]
  | cons a A ih => simp [wfKids, ih, Bool.and_assoc]

theorem structKids_append (A B : List Node) : ∀ pos, ∃ pos', structKids pos (A ++ B) = structKids pos A ++ structKids pos' B := by
  induction A with
  | nil => intro pos; exact ⟨pos, by simp [structKids]⟩
  | cons a A ih =>
    intro pos
    obtain ⟨p, hp⟩ := ih (posAfter a)
    exact ⟨p, by simp [structKids, hp]⟩

theorem inertView_single (tag : Str) (attrs : List TAttr) (kids : List Tmpl) :
    inertKidsView [.elem tag attrs kids] = [inertView (.elem tag attrs kids)] := by
  simp [inertKidsView, inertView]

theorem inertNode_of_isInert {tag : Str} {attrs : List TAttr} {kids : List Tmpl}
    (h : isInert (.elem tag attrs kids) = true) : inertKids [.elem tag attrs kids] = true := by
  simp only [isInert, Bool.and_eq_true] at h
  simp [inertKids, h.2]

theorem genericOK_section : genericOK sSection = true := by decide
theorem attrsOK_nil : attrsOK [] = true := by decide

mutual
/-- **well-formedness**: both views of a well-formed template are inside C06's proved class -/
theorem wf_view : (t : Tmpl) → ∀ (ui top : Bool) (anc : List Str), wfT anc t = true →
    wfKids anc (viewOf ui top t) = true
  | .text s, _, _, _, h => by
    simp only [wfT] at h
    simp [viewOf, wfKids, wfNode, h]
  | .block s, _, _, _, h => by
    simp only [wfT] at h
    simp [viewOf, wfKids, wfNode, h]
  | .elem tag attrs kids, ui, top, anc, h => by
    by_cases hb : (ui && (!top && isInert (.elem tag attrs kids))) = true
    · have hi : isInert (.elem tag attrs kids) = true := by
        simp only [Bool.and_eq_true] at hb; exact hb.2.2
      have hw : wfTs anc [.elem tag attrs kids] = true := by
        simp only [wfTs, Bool.and_true]; exact h
      have := inert_wf [.elem tag attrs kids] anc hw (inertNode_of_isInert hi)
      rw [inertView_single] at this
      simpa [viewOf, hb] using this
    · simp only [wfT, Bool.and_eq_true, Bool.or_eq_true] at h
      obtain ⟨⟨hattrs, hnest⟩, hcase⟩ := h
      have hA := attrsOK_builder attrs hattrs
      simp only [viewOf, hb, if_false, wfKids, wfNode, Bool.and_eq_true, Bool.or_eq_true, hA, hnest, true_and, and_true,
        Bool.false_eq_true]
      rcases hcase with ((⟨hg, hkids⟩ | ⟨hv, hempty⟩) | ⟨hraw, hempty⟩) | ⟨htitle, htk⟩
      · obtain ⟨f1, f2, f3, f4⟩ := generic_facts hg
        have ihk := wf_viewKids kids ui false (tag :: anc) hkids
        exact Or.inl (Or.inl (Or.inl ⟨hg, by simpa [f3] using ihk⟩))
      · obtain ⟨f1, f2⟩ := void_facts hv
        exact Or.inl (Or.inl (Or.inr ⟨hv, by simp [f2]⟩))
      · have hk : kids = [] := by cases kids <;> simp_all
        subst hk
        exact Or.inl (Or.inr ⟨hraw, by simp [viewKids]⟩)
      · simp only [decide_eq_true_eq] at htitle
        subst htitle
        obtain ⟨f1, f2, f3, f4, _⟩ := title_facts
        obtain ⟨s, hk, hc⟩ := titleKidsT_cases htk
        refine Or.inr ⟨by simp, ?_⟩
        rcases hk with rfl | rfl <;> simp [f3, viewKids, viewOf, titleKids, hc]
  | .frag kids, ui, top, anc, h => by
    simp only [wfT] at h
    simpa [viewOf] using wf_viewKids kids ui true anc h
  | .comp kids, ui, top, anc, h => by
    simp only [wfT, Bool.and_eq_true] at h
    have ihk := wf_viewKids kids ui true (sSection :: anc) h.2
    simp [viewOf, wfKids, wfNode, attrsOK_nil, h.1, genericOK_section, ihk]
  | .comment _, _, _, _, _ => by simp [viewOf, wfKids]
  | .doctype, _, _, _, h => by simp [wfT] at h
  | .unit, _, _, _, h => by simp [wfT] at h
  | .compA _ _ _, _, _, _, h => by simp [wfT] at h
theorem wf_viewKids : (ts : List Tmpl) → ∀ (ui top : Bool) (anc : List Str), wfTs anc ts = true →
    wfKids anc (viewKids ui top ts) = true
  | [], _, _, _, _ => by simp [viewKids, wfKids]
  | t :: ts, ui, top, anc, h => by
    simp only [wfTs, Bool.and_eq_true] at h
    simp [viewKids, wfKids_append, wf_view t ui top anc h.1, wf_viewKids ts ui top anc h.2]
end

theorem normAttrs_nil : normAttrs (expectedAttrs []) = [] := by decide
theorem section_facts : isVoid sSection = false ∧ escapeChildren sSection = true := by decide

mutual
/-- **meaning**: the structure of either view normalises to what the template denotes -/
theorem struct_view : (t : Tmpl) → ∀ (ui top : Bool) (anc : List Str), wfT anc t = true →
    ∀ (pos : Pos) (Q : List Tree), normList (structKids pos (viewOf ui top t) ++ Q) = denK true t (normList Q)
  | .text s, _, _, _, h => by
    intro pos Q
    by_cases hp : pos = .afterText <;>
      simp [viewOf, structKids, structNode, hp, normList, normNode, pushNorm, denK, textDen_eq]
  | .block s, _, _, _, h => by
    intro pos Q
    by_cases hp : pos = .afterText <;>
      simp [viewOf, structKids, structNode, hp, normList, normNode, pushNorm, denK, textDen_eq]
  | .elem tag attrs kids, ui, top, anc, h => by
    intro pos Q
    by_cases hb : (ui && (!top && isInert (.elem tag attrs kids))) = true
    · have hi : isInert (.elem tag attrs kids) = true := by
        simp only [Bool.and_eq_true] at hb; exact hb.2.2
      have hw : wfTs anc [.elem tag attrs kids] = true := by
        simp only [wfTs, Bool.and_true]; exact h
      have := inert_struct [.elem tag attrs kids] anc hw (inertNode_of_isInert hi) Q
      rw [inertView_single] at this
      rw [struct_pos _ pos .firstChild Q]
      simpa [viewOf, hb, denKs] using this
    · simp only [wfT, Bool.and_eq_true, Bool.or_eq_true] at h
      obtain ⟨⟨hattrs, hnest⟩, hcase⟩ := h
      have hA := attrsOK_builder attrs hattrs
      have hI : innerBuf (builderAttrs attrs) = [] := by
        simp only [attrsOK, Bool.and_eq_true] at hA
        exact innerBuf_nil _ hA.1
      have hok : attrs.all tattrOK = true := by
        simp only [tattrsOK, Bool.and_eq_true] at hattrs; exact hattrs.1.1.1
      have hN := normAttrs_builder attrs hok
      have key : ∀ (facts : isVoid tag = macroIsVoid tag)
          (body : macroIsVoid tag = false →
            normList (if escapeChildren tag = true then structKids .firstChild (viewKids ui false kids)
                      else textTree (rawText (viewKids ui false kids))) = denKs (escapeChildren tag) kids []),
          normList (structKids pos (viewOf ui top (.elem tag attrs kids)) ++ Q) =
            denK true (.elem tag attrs kids) (normList Q) := by
        intro facts body
        simp only [viewOf, hb, if_false, structKids, structNode, hI, if_true, List.cons_append, List.nil_append,
          List.append_nil, normList, normNode, pushNorm, hN, denK, facts, Bool.false_eq_true]
        cases hv : macroIsVoid tag
        · have := body hv
          simp only [Bool.false_eq_true, if_false] at this ⊢
          rw [this]
        · simp [normList]
      rcases hcase with ((⟨hg, hkids⟩ | ⟨hv, hempty⟩) | ⟨hraw, hempty⟩) | ⟨htitle, htk⟩
      · obtain ⟨f1, f2, f3, f4⟩ := generic_facts hg
        have ihk := struct_viewKids kids ui false (tag :: anc) hkids .firstChild []
        exact key (by rw [f1, f3]) (fun _ => by simpa [f2, normList] using ihk)
      · obtain ⟨f1, f2⟩ := void_facts hv
        exact key (by rw [f1, f2]) (fun h => by rw [f2] at h; cases h)
      · have hk : kids = [] := by cases kids <;> simp_all
        subst hk
        obtain ⟨f1, f2⟩ := raw_facts hraw
        exact key (by rw [f1, f2]) (fun _ => by
          cases escapeChildren tag <;> simp [viewKids, structKids, rawText, textTree, normList, denKs])
      · simp only [decide_eq_true_eq] at htitle
        subst htitle
        obtain ⟨f1, f2, f3, f4, _⟩ := title_facts
        have ihk := struct_viewKids kids ui false (tTitle :: anc) (title_wfTs htk _) .firstChild []
        exact key (by rw [f1, f3]) (fun _ => by simpa [f2, normList] using ihk)
  | .frag kids, ui, top, anc, h => by
    intro pos Q
    simp only [wfT] at h
    simpa [viewOf, denK] using struct_viewKids kids ui true anc h pos Q
  | .comp kids, ui, top, anc, h => by
    intro pos Q
    simp only [wfT, Bool.and_eq_true] at h
    have ihk := struct_viewKids kids ui true (sSection :: anc) h.2 .firstChild []
    obtain ⟨f1, f2⟩ := section_facts
    have : innerBuf ([] : List Attr) = [] := rfl
    simp only [List.append_nil, normList] at ihk
    simp [viewOf, structKids, structNode, f1, f2, this, normList, normNode, pushNorm, normAttrs_nil, denK, ihk]
  | .comment _, _, _, _, _ => by intro pos Q; simp [viewOf, structKids, denK]
  | .doctype, _, _, _, h => by simp [wfT] at h
  | .unit, _, _, _, h => by simp [wfT] at h
  | .compA _ _ _, _, _, _, h => by simp [wfT] at h
theorem struct_viewKids : (ts : List Tmpl) → ∀ (ui top : Bool) (anc : List Str), wfTs anc ts = true →
    ∀ (pos : Pos) (Q : List Tree), normList (structKids pos (viewKids ui top ts) ++ Q) = denKs true ts (normList Q)
  | [], _, _, _, _ => by intro pos Q; simp [viewKids, structKids, denKs]
  | t :: ts, ui, top, anc, h => by
    intro pos Q
    simp only [wfTs, Bool.and_eq_true] at h
    obtain ⟨p, hp⟩ := structKids_append (viewOf ui top t) (viewKids ui top ts) pos
    rw [viewKids, hp, List.append_assoc, struct_view t ui top anc h.1 pos, struct_viewKids ts ui top anc h.2 p Q]
    simp [denKs]
end


/-! ### bytes: the expansion (with `InertElement`s) prints what tachys prints for the mixed view -/

inductive Rel : List Exp → List Node → Prop
  | nil : Rel [] []
  | cons {e : Exp} {n : Node} {es : List Exp} {ns : List Node} :
      (∀ pos, expHtml true pos e = nodeHtml true pos n) → expPosAfter e = posAfter n → Rel es ns →
      Rel (e :: es) (n :: ns)

theorem Rel.append {a : List Exp} {b : List Node} {c : List Exp} {d : List Node} (h1 : Rel a b) (h2 : Rel c d) :
    Rel (a ++ c) (b ++ d) := by
  induction h1 with
  | nil => simpa using h2
  | cons he hp _ ih => exact Rel.cons he hp ih

theorem Rel.html {es : List Exp} {ns : List Node} (h : Rel es ns) :
    ∀ pos, expKidsHtml true pos es = kidsHtml true pos ns := by
  induction h with
  | nil => intro pos; simp [expKidsHtml, kidsHtml]
  | cons he hp _ ih => intro pos; simp [expKidsHtml, kidsHtml, he, hp, ih]

theorem Rel.single {e : Exp} {n : Node} (he : ∀ pos, expHtml true pos e = nodeHtml true pos n)
    (hp : expPosAfter e = posAfter n) : Rel [e] [n] := Rel.cons he hp Rel.nil

mutual
theorem rel_view : (t : Tmpl) → ∀ (top : Bool) (anc : List Str), wfT anc t = true →
    Rel (expand top t) (viewOf true top t)
  | .text s, _, _, _ => by
    simp only [expand, viewOf]
    exact Rel.single (by intro pos; simp [expHtml, nodeHtml]) rfl
  | .block s, _, _, _ => by
    simp only [expand, viewOf]
    exact Rel.single (by intro pos; simp [expHtml, nodeHtml]) rfl
  | .elem tag attrs kids, top, anc, h => by
    by_cases hb : (!top && isInert (.elem tag attrs kids)) = true
    · have hi : isInert (.elem tag attrs kids) = true := by
        simp only [Bool.and_eq_true] at hb; exact hb.2
      have hw : wfTs anc [.elem tag attrs kids] = true := by
        simp only [wfTs, Bool.and_true]; exact h
      have := inert_html [.elem tag attrs kids] anc hw (inertNode_of_isInert hi)
      rw [inertView_single] at this
      simp only [expand, viewOf, hb, if_true, Bool.true_and]
      refine Rel.single ?_ (by simp [expPosAfter, inertView, posAfter])
      intro pos
      simp only [inertKidsHtml, kidsHtml, List.append_nil] at this
      simp only [expHtml, inertHtml, this]
      simp [inertView, nodeHtml]
    · simp only [wfT, Bool.and_eq_true, Bool.or_eq_true] at h
      obtain ⟨⟨hattrs, hnest⟩, hcase⟩ := h
      have hA := attrsOK_builder attrs hattrs
      have hI : innerBuf (builderAttrs attrs) = [] := by
        simp only [attrsOK, Bool.and_eq_true] at hA
        exact innerBuf_nil _ hA.1
      have key : ∀ (hta : tag ≠ tTextarea ∨ kids = []) (body : isVoid tag = false →
            expKidsHtml (escapeChildren tag) .firstChild (if macroIsVoid tag = true then [] else expandKids false kids) =
              kidsHtml (escapeChildren tag) .firstChild (if macroIsVoid tag = true then [] else viewKids true false kids)),
          Rel (expand top (.elem tag attrs kids)) (viewOf true top (.elem tag attrs kids)) := by
        intro hta body
        have heb : ∀ x : Str, (kids = [] → x = []) → elemBody tag x = x := fun x hx =>
          elemBody_eq tag x (hta.elim Or.inl (fun hk => Or.inr (hx hk)))
        simp only [expand, viewOf, hb, Bool.true_and, if_false, Bool.false_eq_true]
        refine Rel.single ?_ rfl
        intro pos
        simp only [expHtml, nodeHtml, hI, if_true]
        cases hv : isVoid tag
        · rw [heb _ (by intro hk; subst hk; split <;> simp [expandKids, expKidsHtml])]
          simp [body hv]
        · simp
      rcases hcase with ((⟨hg, hkids⟩ | ⟨hv, hempty⟩) | ⟨hraw, hempty⟩) | ⟨htitle, htk⟩
      · obtain ⟨f1, f2, f3, f4⟩ := generic_facts hg
        have ihk := (rel_viewKids kids false (tag :: anc) hkids).html .firstChild
        exact key (Or.inl (generic_not_textarea hg)) (fun _ => by simpa [f2, f3] using ihk)
      · obtain ⟨f1, f2⟩ := void_facts hv
        exact key (Or.inl (void_not_textarea f1)) (fun h => by rw [f1] at h; cases h)
      · have hk : kids = [] := by cases kids <;> simp_all
        subst hk
        exact key (Or.inr rfl) (fun _ => by simp [expandKids, viewKids, expKidsHtml, kidsHtml])
      · simp only [decide_eq_true_eq] at htitle
        subst htitle
        obtain ⟨f1, f2, f3, f4, _⟩ := title_facts
        have ihk := (rel_viewKids kids false (tTitle :: anc) (title_wfTs htk _)).html .firstChild
        exact key (Or.inl (by decide)) (fun _ => by simpa [f2, f3] using ihk)
  | .frag kids, top, anc, h => by
    simp only [wfT] at h
    simpa [expand, viewOf] using rel_viewKids kids true anc h
  | .comp kids, top, anc, h => by
    simp only [wfT, Bool.and_eq_true] at h
    have ihk := (rel_viewKids kids true (sSection :: anc) h.2).html .firstChild
    obtain ⟨f1, f2⟩ := section_facts
    simp only [expand, viewOf]
    refine Rel.single ?_ rfl
    intro pos
    have : innerBuf ([] : List Attr) = [] := rfl
    have hs : sSection ≠ tTextarea := by decide
    simp [expHtml, nodeHtml, f1, f2, this, ihk, elemBody_eq sSection _ (Or.inl hs)]
  | .comment _, _, _, _ => by simp only [expand, viewOf]; exact Rel.nil
  | .doctype, _, _, h => by simp [wfT] at h
  | .unit, _, _, h => by simp [wfT] at h
  | .compA _ _ _, _, _, h => by simp [wfT] at h
theorem rel_viewKids : (ts : List Tmpl) → ∀ (top : Bool) (anc : List Str), wfTs anc ts = true →
    Rel (expandKids top ts) (viewKids true top ts)
  | [], _, _, _ => by simp only [expandKids, viewKids]; exact Rel.nil
  | t :: ts, top, anc, h => by
    simp only [wfTs, Bool.and_eq_true] at h
    simp only [expandKids, viewKids]
    exact (rel_view t top anc h.1).append (rel_viewKids ts top anc h.2)
end

/-- `view!{…}.to_html()` prints what tachys prints for the mixed view -/
theorem macroHtml_eq (ts : List Tmpl) (h : wfTs [[]] ts = true) :
    macroHtml ts = toHtml (viewKids true true ts) := by
  unfold macroHtml toHtml
  exact (rel_viewKids ts true [[]] h).html .firstChild


/-! ### the remaining finding class lies outside the well-formedness hypothesis -/

theorem generic_not_title {tag : Str} (hg : genericOK tag = true) : tag ≠ tTitle := by
  simp only [genericOK, Bool.and_eq_true, decide_eq_true_eq] at hg
  have hk := hg.1.1.1.1
  intro e; subst e; revert hk; decide

mutual
theorem seen_ok : (t : Tmpl) → ∀ (top esc : Bool) (anc : List Str), wfT anc t = true →
    (seenNode top esc t).all (fun s => !s.rawMarker) = true
  | .text s, _, _, _, _ => by simp [seenNode, Seen.rawMarker]
  | .block s, _, _, _, _ => by simp [seenNode, Seen.rawMarker]
  | .elem tag attrs kids, top, esc, anc, h => by
    by_cases hb : (!top && isInert (.elem tag attrs kids)) = true
    · simp [seenNode, hb, Seen.rawMarker]
    · simp only [wfT, Bool.and_eq_true, Bool.or_eq_true] at h
      obtain ⟨_, hcase⟩ := h
      have key : ∀ (hm : ((!escapeChildren tag || decide (tag = tTitle)) && adjacentTexts kids) = false)
          (body : (seenKids false (escapeChildren tag) kids).all (fun s => !s.rawMarker) = true),
          (seenNode top esc (.elem tag attrs kids)).all (fun s => !s.rawMarker) = true := by
        intro hm body
        simp only [seenNode, hb, if_false, List.all_cons, Bool.and_eq_true, Bool.false_eq_true]
        refine ⟨by simp [Seen.rawMarker, hm], ?_⟩
        cases hv : macroIsVoid tag
        · simpa using body
        · simp
      rcases hcase with ((⟨hg, hkids⟩ | ⟨hv, hempty⟩) | ⟨hraw, hempty⟩) | ⟨htitle, htk⟩
      · obtain ⟨f1, f2, f3, f4⟩ := generic_facts hg
        exact key (by simp [f2, generic_not_title hg]) (seen_ok_kids kids false _ (tag :: anc) hkids)
      · have hk : kids = [] := by cases kids <;> simp_all
        subst hk
        exact key (by simp [adjacentTexts]) (by simp [seenKids])
      · have hk : kids = [] := by cases kids <;> simp_all
        subst hk
        exact key (by simp [adjacentTexts]) (by simp [seenKids])
      · simp only [decide_eq_true_eq] at htitle
        subst htitle
        obtain ⟨s, hk, _⟩ := titleKidsT_cases htk
        exact key (by rcases hk with rfl | rfl <;> simp [adjacentTexts])
          (seen_ok_kids kids false _ (tTitle :: anc) (title_wfTs htk (tTitle :: anc)))
  | .frag kids, top, esc, anc, h => by
    simp only [wfT] at h
    simpa [seenNode] using seen_ok_kids kids true esc anc h
  | .comp kids, top, esc, anc, h => by
    simp only [wfT, Bool.and_eq_true] at h
    have ih := seen_ok_kids kids true true _ h.2
    have e : escapeChildren sSection = true := by decide
    have t : sSection ≠ tTitle := by decide
    have hd : (Seen.belem sSection [] kids).rawMarker = false := by simp [Seen.rawMarker, e, t]
    simp only [seenNode, List.all_cons, Bool.and_eq_true, hd, Bool.not_false, true_and]
    exact ih
  | .comment _, _, _, _, _ => by simp [seenNode]
  | .doctype, _, _, _, _ => by simp [seenNode]
  | .unit, _, _, _, _ => by simp [seenNode]
  | .compA _ _ _, _, _, _, h => by simp [wfT] at h
theorem seen_ok_kids : (ts : List Tmpl) → ∀ (top esc : Bool) (anc : List Str), wfTs anc ts = true →
    (seenKids top esc ts).all (fun s => !s.rawMarker) = true
  | [], _, _, _, _ => by simp [seenKids]
  | t :: ts, top, esc, anc, h => by
    simp only [wfTs, Bool.and_eq_true] at h
    simp only [seenKids, List.all_append, Bool.and_eq_true]
    exact ⟨seen_ok t top esc anc h.1, seen_ok_kids ts top esc anc h.2⟩
end

/-- `C06_structure_preserved` (Theorems/C06.lean), re-derived here from the same lemma `run_kids` so that the
C18 theorems depend on C06's proofs but not on the evaluation of C06's witnesses -/
theorem structure_preserved (v : List Node) (h : wfKids [[]] v = true) :
    parse (toHtml v) = some (structureOf v) := by
  have := run_kids v rootFrame [] .firstChild h (by decide) (by decide)
  unfold parse initState toHtml
  rw [this]
  simp [finish, rootFrame, structureOf]

end Leptos.Macro
