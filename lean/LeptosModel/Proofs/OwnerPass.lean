import LeptosModel.Proofs.OwnerArena
/-!
# Proofs/OwnerPass — the cleanup machine terminates; invariant lifting (C08)
-/
namespace Leptos.Owner

/-! ## weights -/

@[simp] theorem framesW_nil : framesW [] = 0 := rfl
@[simp] theorem framesW_cons (f : Frame) (fs : List Frame) : framesW (f :: fs) = frameW f + framesW fs := by
  simp [framesW]
@[simp] theorem framesW_append (a b : List Frame) : framesW (a ++ b) = framesW a + framesW b := by
  simp [framesW]

theorem framesW_visit (l : List Nat) (late : Bool) : framesW (l.map (Frame.visit · late)) = l.length := by
  induction l with
  | nil => rfl
  | cons a l ih => simp [ih, frameW]; omega

theorem framesW_run (l : List Cleanup) (o : Nat) (late : Bool) :
    framesW (l.map (Frame.run · o late)) = (l.map cleanupW).sum := by
  induction l with
  | nil => rfl
  | cons a l ih => simp [ih, frameW]

theorem framesW_remove (l : List Key) (late : Bool) : framesW (l.map (Frame.remove · late)) = 2 * l.length := by
  induction l with
  | nil => rfl
  | cons a l ih => simp [ih, frameW]; omega

theorem framesW_expand (r : OwnerRec) (o : Nat) (late : Bool) : framesW (expand r o late) = ownerW r := by
  simp [expand, framesW_visit, framesW_run, framesW_remove, ownerW]

theorem frameW_pos (f : Frame) : 1 ≤ frameW f := by
  cases f <;> simp [frameW, cleanupW]
  split <;> omega

theorem ownersW_set {l : List OwnerRec} {o : Nat} {r : OwnerRec} (h : l[o]? = some r) (r' : OwnerRec) :
    ownersW (l.set o r') + ownerW r = ownersW l + ownerW r' := by
  induction l generalizing o with
  | nil => simp at h
  | cons a l ih =>
    cases o with
    | zero =>
      simp at h; subst h
      simp [ownersW]; omega
    | succ o =>
      simp at h
      have := ih h
      simp [ownersW] at this ⊢; omega

@[simp] theorem ownersW_append (a b : List OwnerRec) : ownersW (a ++ b) = ownersW a + ownersW b := by
  simp [ownersW]

theorem ownersW_modOwner (st : Core) (o : Nat) (f : OwnerRec → OwnerRec) (n : Nat)
    (hf : ∀ r, ownerW (f r) ≤ ownerW r + n) :
    ownersW (st.modOwner o f).owners ≤ ownersW st.owners + n := by
  unfold Core.modOwner
  split
  · next r hr =>
    have := ownersW_set hr (f r)
    have := hf r
    simp only [Core.setOwner]; omega
  · omega

theorem ownersW_regCleanup (st : Core) (tag : Nat) :
    ownersW (regCleanup st tag false none).owners ≤ ownersW st.owners + 1 := by
  unfold regCleanup
  simp only
  split
  · apply ownersW_modOwner
    intro r; simp [ownerW, cleanupW]; omega
  · simp

theorem ownersW_newItem (st : Core) (v : Val) :
    ownersW (newItem st v).1.owners ≤ ownersW st.owners + 2 := by
  unfold newItem
  simp only
  split
  · apply ownersW_modOwner
    intro r; simp [ownerW]; omega
  · simp

theorem ownersW_newStored (st : Core) (v : Int) :
    ownersW (newStored st v).owners ≤ ownersW st.owners + 2 := by
  unfold newStored
  exact ownersW_newItem st _

/-- every machine step strictly decreases the potential -/
theorem step_decr (st : Core) (f : Frame) (fs : List Frame) :
    potential (stepFrame st f).1 ((stepFrame st f).2 ++ fs) < potential st (f :: fs) := by
  unfold potential
  cases f with
  | visit o late =>
    simp only [stepFrame]
    split
    · next r hr =>
      split
      · have h := ownersW_set hr (clearedRec r)
        simp only [Core.setOwner, framesW_append, framesW_expand, framesW_cons, frameW]
        have h0 : ownerW (clearedRec r) = 0 := by simp [ownerW, clearedRec]
        omega
      · simp [frameW]
    · simp [frameW]
  | drop o late =>
    simp only [stepFrame]
    split
    · next r hr =>
      have h := ownersW_set hr (deadRec r)
      simp only [Core.setOwner, framesW_append, framesW_expand, framesW_cons, frameW]
      have h0 : ownerW (deadRec r) = 0 := by simp [ownerW, deadRec]
      omega
    · simp [frameW]
  | run c ow late =>
    have hcf : framesW (closureFrames st.cur c) ≤ if c.drops.isSome then 1 else 0 := by
      unfold closureFrames
      cases c.drops with
      | none => simp [frameW]
      | some ow => simp only []; split <;> simp [frameW]
    by_cases hn : c.nested = true
    · have h1 := ownersW_regCleanup (logEv st (Ev.c c.tag c.cid ow late)) (c.tag + 100)
      have h2 := ownersW_newStored (regCleanup (logEv st (Ev.c c.tag c.cid ow late)) (c.tag + 100) false none) c.tag
      simp only [stepFrame, hn, if_true, framesW_append, framesW_cons, frameW, cleanupW]
      have e1 : (logEv st (Ev.c c.tag c.cid ow late)).owners = st.owners := rfl
      rw [e1] at h1
      omega
    · simp only [stepFrame, hn, if_false, Bool.false_eq_true, framesW_append, framesW_cons, frameW, cleanupW]
      have e1 : (logEv st (Ev.c c.tag c.cid ow late)).owners = st.owners := rfl
      rw [e1]
      omega
  | remove k late =>
    simp only [stepFrame]
    have : framesW (dropFrames (st.arena.remove k).2) ≤ 1 := by
      unfold dropFrames; split <;> simp [frameW]
    simp [frameW]; omega

theorem potential_ge_length (st : Core) (fs : List Frame) : fs.length ≤ potential st fs := by
  unfold potential
  induction fs with
  | nil => simp
  | cons f fs ih =>
    have := frameW_pos f
    simp; omega

/-- enough fuel ⇒ the pass runs to completion -/
theorem runFrames_complete (n : Nat) (st : Core) (fs : List Frame) (h : potential st fs ≤ n) :
    (runFrames n st fs).2 = [] := by
  induction n generalizing st fs with
  | zero =>
    have := potential_ge_length st fs
    have : fs = [] := List.eq_nil_of_length_eq_zero (by omega)
    subst this; rfl
  | succ n ih =>
    cases fs with
    | nil => rfl
    | cons f fs =>
      simp only [runFrames]
      apply ih
      have := step_decr st f fs
      omega

/-- lifting a step invariant over a whole run -/
theorem runFrames_inv (P : Core → List Frame → Prop)
    (hstep : ∀ st f fs, P st (f :: fs) → P (stepFrame st f).1 ((stepFrame st f).2 ++ fs))
    (n : Nat) (st : Core) (fs : List Frame) (h : P st fs) :
    P (runFrames n st fs).1 (runFrames n st fs).2 := by
  induction n generalizing st fs with
  | zero => exact h
  | succ n ih =>
    cases fs with
    | nil => exact h
    | cons f fs =>
      simp only [runFrames]
      exact ih _ _ (hstep st f fs h)

/-- a step invariant holds after a completed pass, with the stack empty -/
theorem runPass_inv (P : Core → List Frame → Prop)
    (hstep : ∀ st f fs, P st (f :: fs) → P (stepFrame st f).1 ((stepFrame st f).2 ++ fs))
    (st : Core) (fs : List Frame) (h : P st fs) : P (runPass st fs) [] := by
  have h1 := runFrames_inv P hstep (potential st fs) st fs h
  have h2 := runFrames_complete (potential st fs) st fs (Nat.le_refl _)
  rw [h2] at h1
  exact h1

end Leptos.Owner
