import LeptosModel.Model.Stream
/-! Proofs/StreamStr — substring search (`splitFirst`, `splitLast`) on texts assembled from pieces.

`Free P s`: the pattern `P` does not occur in `s`.  Patterns of interest start with `<`, contain no other `<` and
contain `>` at most as their last character (`LtPat`); pieces are *tag-closed* (after the last `<` there is a `>`),
so an occurrence that starts inside a piece ends inside it (`occ_in_closed`). -/
namespace Leptos.Stream

/-! ### `splitFirst` and decompositions -/

theorem isPrefixOf_iff {P s : Str} : P.isPrefixOf s = true ↔ ∃ t, s = P ++ t := by
  rw [List.isPrefixOf_iff_prefix]
  constructor
  · rintro ⟨t, rfl⟩; exact ⟨t, rfl⟩
  · rintro ⟨t, rfl⟩; exact ⟨t, rfl⟩

/-- `P` does not occur in `s` -/
def Free (P s : Str) : Prop := ∀ a b, s ≠ a ++ P ++ b

theorem splitFirst_some {P : Str} : ∀ {s a b : Str}, splitFirst P s = some (a, b) →
    s = a ++ P ++ b ∧ ∀ a' b', s = a' ++ P ++ b' → a.length ≤ a'.length := by
  intro s
  induction s with
  | nil =>
    intro a b h
    simp only [splitFirst] at h
    split at h
    · rename_i hp
      simp at hp h
      obtain ⟨rfl, rfl⟩ := h
      subst hp
      exact ⟨rfl, fun _ _ _ => Nat.zero_le _⟩
    · cases h
  | cons c s ih =>
    intro a b h
    simp only [splitFirst] at h
    split at h
    · rename_i hp
      simp at h
      obtain ⟨rfl, rfl⟩ := h
      obtain ⟨t, ht⟩ := isPrefixOf_iff.1 hp
      refine ⟨?_, fun _ _ _ => Nat.zero_le _⟩
      rw [ht]; simp
    · rename_i hp
      split at h
      · rename_i a0 b0 h0
        simp at h
        obtain ⟨rfl, rfl⟩ := h
        obtain ⟨h1, h2⟩ := ih h0
        refine ⟨by rw [h1]; simp, ?_⟩
        intro a' b' he
        cases a' with
        | nil =>
          exfalso
          apply hp
          exact isPrefixOf_iff.2 ⟨b', by simpa using he⟩
        | cons c' a' =>
          simp only [List.cons_append, List.cons.injEq] at he
          have := h2 a' b' (by simpa using he.2)
          simp; omega
      · cases h

theorem splitFirst_none {P s : Str} : splitFirst P s = none ↔ Free P s := by
  induction s with
  | nil =>
    simp only [splitFirst]
    constructor
    · intro h a b he
      split at h
      · cases h
      · rename_i hp
        apply hp
        have : a = [] ∧ P = [] ∧ b = [] := by
          have := congrArg List.length he; simp at this
          refine ⟨List.length_eq_zero_iff.1 (by omega), List.length_eq_zero_iff.1 (by omega), List.length_eq_zero_iff.1 (by omega)⟩
        simp [this.2.1]
    · intro h
      split
      · rename_i hp
        exfalso
        simp at hp
        exact h [] [] (by simp [hp])
      · rfl
  | cons c s ih =>
    simp only [splitFirst]
    constructor
    · intro h a b he
      split at h
      · cases h
      · rename_i hp
        split at h
        · cases h
        · rename_i h0
          cases a with
          | nil => exact hp (isPrefixOf_iff.2 ⟨b, by simpa using he⟩)
          | cons c' a' =>
            simp only [List.cons_append, List.cons.injEq] at he
            exact ih.1 h0 a' b (by simpa using he.2)
    · intro h
      split
      · rename_i hp
        obtain ⟨t, ht⟩ := isPrefixOf_iff.1 hp
        exact absurd (by rw [ht]; simp) (h [] t)
      · have : Free P s := fun a b he => h (c :: a) b (by rw [he]; simp)
        rw [ih.2 this]

/-- the decomposition with the shortest left part is what `splitFirst` returns -/
theorem splitFirst_eq {P s a b : Str} (he : s = a ++ P ++ b)
    (hmin : ∀ a' b', s = a' ++ P ++ b' → a.length ≤ a'.length) : splitFirst P s = some (a, b) := by
  cases h : splitFirst P s with
  | none => exact absurd he (splitFirst_none.1 h a b)
  | some r =>
    obtain ⟨a0, b0⟩ := r
    obtain ⟨h1, h2⟩ := splitFirst_some h
    have hl : a0.length = a.length := Nat.le_antisymm (h2 a b he) (hmin a0 b0 h1)
    have : a0 = a ∧ P ++ b0 = P ++ b := by
      have := he ▸ h1
      simp only [List.append_assoc] at this
      exact List.append_inj this.symm hl
    rw [this.1, List.append_cancel_left this.2]

theorem contains_of_occ {P s a b : Str} (he : s = a ++ P ++ b) : contains P s = true := by
  unfold contains
  cases h : splitFirst P s with
  | none => exact absurd he (splitFirst_none.1 h a b)
  | some r => rfl

theorem free_of_not_contains {P s : Str} (h : contains P s = false) : Free P s := by
  unfold contains at h
  cases h' : splitFirst P s with
  | none => exact splitFirst_none.1 h'
  | some r => simp [h'] at h

/-- a pattern whose prefix does not occur does not occur -/
theorem Free.of_prefix {Q R s : Str} (h : Free Q s) : Free (Q ++ R) s := by
  intro a b he
  exact h a (R ++ b) (by rw [he]; simp)

/-! ### `splitLast` -/

theorem splitLast_eq {P s a b : Str} (he : s = a ++ P ++ b)
    (hmax : ∀ a' b', s = a' ++ P ++ b' → b.length ≤ b'.length) : splitLast P s = some (a, b) := by
  unfold splitLast
  have : splitFirst P.reverse s.reverse = some (b.reverse, a.reverse) := by
    apply splitFirst_eq
    · rw [he]; simp
    · intro a' b' he'
      have := congrArg List.reverse he'
      simp only [List.reverse_reverse, List.reverse_append] at this
      have := hmax b'.reverse a'.reverse (by rw [this]; simp)
      simpa using this
  rw [this]; simp

theorem splitLast_none {P s : Str} (h : Free P s) : splitLast P s = none := by
  unfold splitLast
  have : splitFirst P.reverse s.reverse = none := by
    rw [splitFirst_none]
    intro a b he
    have := congrArg List.reverse he
    simp only [List.reverse_reverse, List.reverse_append] at this
    exact h b.reverse a.reverse (by rw [this]; simp)
  rw [this]

/-- if the occurrence is unique, first and last occurrence coincide -/
theorem split_unique {P s a b : Str} (he : s = a ++ P ++ b)
    (huniq : ∀ a' b', s = a' ++ P ++ b' → a' = a) :
    splitFirst P s = some (a, b) ∧ splitLast P s = some (a, b) := by
  refine ⟨splitFirst_eq he ?_, splitLast_eq he ?_⟩
  · intro a' b' he'; rw [huniq a' b' he']; exact Nat.le_refl _
  · intro a' b' he'
    have ha := huniq a' b' he'
    subst ha
    have := he ▸ he'
    simp only [List.append_assoc] at this
    have := List.append_cancel_left (List.append_cancel_left this)
    rw [this]; exact Nat.le_refl _


/-! ### tag-closed pieces and `<`-headed patterns -/

/-- `tagState o s`: is a `<` still open after reading `s` (starting in state `o`) -/
def tagState : Bool → Str → Bool
  | o, [] => o
  | o, c :: s => tagState (if c = '<' then true else if c = '>' then false else o) s

/-- every `<` of `s` is followed by a later `>` -/
def tagClosed (s : Str) : Bool := !tagState false s

theorem tagState_append (o : Bool) (x y : Str) : tagState o (x ++ y) = tagState (tagState o x) y := by
  induction x generalizing o with
  | nil => rfl
  | cons c x ih => simp [tagState, ih]

theorem tagClosed_append {x y : Str} (hx : tagClosed x = true) (hy : tagClosed y = true) : tagClosed (x ++ y) = true := by
  unfold tagClosed at *
  rw [tagState_append]
  simp only [Bool.not_eq_true'] at hx
  rw [hx]; exact hy

/-- an open `<` that gets closed: there is a first `>` -/
theorem first_gt_of_closed : ∀ (s : Str), tagState true s = false → ∃ u w, s = u ++ '>' :: w ∧ '>' ∉ u := by
  intro s
  induction s with
  | nil => intro h; simp [tagState] at h
  | cons c s ih =>
    intro h
    by_cases hc : c = '>'
    · subst hc; exact ⟨[], s, rfl, by simp⟩
    · have : tagState true s = false := by
        simp only [tagState] at h
        by_cases hl : c = '<'
        · simpa [hl] using h
        · simpa [hl, hc] using h
      obtain ⟨u, w, rfl, hu⟩ := ih this
      exact ⟨c :: u, w, rfl, by simp [hu, Ne.symm hc]⟩

theorem append_split {x y a z : Str} (h : x ++ y = a ++ z) :
    (∃ c, a = x ++ c ∧ y = c ++ z) ∨ (∃ c, x = a ++ c ∧ z = c ++ y) :=
  List.append_eq_append_iff.1 h

/-- a pattern `<r`: no further `<`, and `>` at most as its last character -/
def LtPat (P : Str) : Prop :=
  ∃ r, P = '<' :: r ∧ '<' ∉ r ∧ ∀ u r', r = u ++ '>' :: r' → r' = []

/-- an occurrence that starts inside a tag-closed piece ends inside it -/
theorem occ_in_closed {P x y a b : Str} (hP : LtPat P) (hx : tagClosed x = true) (he : x ++ y = a ++ P ++ b)
    (hl : a.length < x.length) : ∃ b', x = a ++ P ++ b' := by
  obtain ⟨r, rfl, hnl, hgt⟩ := hP
  have he' : x ++ y = a ++ ('<' :: r ++ b) := by rw [he]; simp
  obtain ⟨x2, hx2, hxy⟩ : ∃ x2, x = a ++ x2 ∧ '<' :: r ++ b = x2 ++ y := by
    rcases append_split he' with ⟨c, h1, _⟩ | ⟨c, h1, h2⟩
    · exfalso; rw [h1] at hl; simp at hl; omega
    · exact ⟨c, h1, h2⟩
  cases x2 with
  | nil => exfalso; rw [hx2] at hl; simp at hl
  | cons c x3 =>
    simp only [List.cons_append, List.cons.injEq] at hxy
    obtain ⟨rfl, hxy⟩ := hxy
    have hcl : tagState true x3 = false := by
      unfold tagClosed at hx
      rw [hx2, tagState_append] at hx
      simpa [tagState] using hx
    obtain ⟨u, w, rfl, hu⟩ := first_gt_of_closed x3 hcl
    have h3 : r ++ b = u ++ ('>' :: (w ++ y)) := by simpa using hxy
    rcases append_split h3 with ⟨c, h1, h2⟩ | ⟨c, h1, h2⟩
    · -- u = r ++ c: the pattern ends before the first '>'
      exact ⟨c ++ '>' :: w, by rw [hx2, h1]; simp⟩
    · -- r = u ++ c
      cases c with
      | nil =>
        simp at h1
        subst h1
        exact ⟨'>' :: w, by rw [hx2]; simp⟩
      | cons d c =>
        simp only [List.cons_append, List.cons.injEq] at h2
        obtain ⟨rfl, _⟩ := h2
        have := hgt u c h1
        subst this
        exact ⟨w, by rw [hx2, h1]; simp⟩

/-- an occurrence in `x ++ y` that does not start inside `x` lies in `y` -/
theorem occ_right {P x y a b : Str} (he : x ++ y = a ++ P ++ b) (hl : ¬ a.length < x.length) :
    ∃ c, a = x ++ c ∧ y = c ++ P ++ b := by
  have he' : x ++ y = a ++ (P ++ b) := by rw [he]; simp
  rcases append_split he' with ⟨c, h1, h2⟩ | ⟨c, h1, h2⟩
  · exact ⟨c, h1, by rw [h2]; simp⟩
  · have : c = [] := by
      have := congrArg List.length h1; simp at this
      exact List.length_eq_zero_iff.1 (by omega)
    subst this
    simp at h1 h2
    exact ⟨[], by simp [h1], by rw [← h2]; simp⟩

theorem Free.append {P x y : Str} (hP : LtPat P) (hx : tagClosed x = true) (fx : Free P x) (fy : Free P y) :
    Free P (x ++ y) := by
  intro a b he
  by_cases hl : a.length < x.length
  · obtain ⟨b', hb'⟩ := occ_in_closed hP hx he hl
    exact fx a b' hb'
  · obtain ⟨c, _, hc⟩ := occ_right he hl
    exact fy c b hc

/-- searching past a tag-closed piece in which the pattern does not occur -/
theorem splitFirst_skip {P x y : Str} (hP : LtPat P) (hx : tagClosed x = true) (fx : Free P x) :
    splitFirst P (x ++ y) = (splitFirst P y).map (fun r => (x ++ r.1, r.2)) := by
  cases h : splitFirst P y with
  | none =>
    simp only [Option.map_none]
    exact splitFirst_none.2 (Free.append hP hx fx (splitFirst_none.1 h))
  | some r =>
    obtain ⟨a0, b0⟩ := r
    obtain ⟨h1, h2⟩ := splitFirst_some h
    simp only [Option.map_some]
    apply splitFirst_eq
    · rw [h1]; simp
    · intro a' b' he
      by_cases hl : a'.length < x.length
      · obtain ⟨b'', hb''⟩ := occ_in_closed hP hx he hl
        exact absurd hb'' (fx a' b'')
      · obtain ⟨c, hc1, hc2⟩ := occ_right he hl
        have := h2 c b' hc2
        rw [hc1]; simp; omega

/-- the occurrence in `a ++ P ++ b` is the only one -/
theorem occ_unique {P a b : Str} (hP : LtPat P) (ha : tagClosed a = true) (fa : Free P a) (fb : Free P b) :
    ∀ a' b', a ++ P ++ b = a' ++ P ++ b' → a' = a := by
  intro a' b' he
  have he' : a ++ (P ++ b) = a' ++ P ++ b' := by rw [← he]; simp
  by_cases hl : a'.length < a.length
  · obtain ⟨b'', hb''⟩ := occ_in_closed hP ha he' hl
    exact absurd hb'' (fa a' b'')
  · obtain ⟨c, hc1, hc2⟩ := occ_right he' hl
    -- P ++ b = c ++ P ++ b'
    cases c with
    | nil => simpa using hc1
    | cons d c =>
      exfalso
      obtain ⟨r, rfl, hnl, hgt⟩ := hP
      simp only [List.cons_append, List.cons.injEq] at hc2
      obtain ⟨rfl, hc2⟩ := hc2
      -- r ++ b = c ++ '<' :: r ++ b'
      have hc3 : r ++ b = c ++ ('<' :: r ++ b') := by simpa using hc2
      rcases append_split hc3 with ⟨e, g1, g2⟩ | ⟨e, g1, g2⟩
      · -- c = r ++ e: the second occurrence lies in b
        exact fb e b' (by rw [g2]; simp)
      · -- r = c ++ e
        cases e with
        | nil =>
          simp at g2
          exact fb [] b' (by rw [← g2]; simp)
        | cons f e =>
          simp only [List.cons_append, List.cons.injEq] at g2
          obtain ⟨rfl, _⟩ := g2
          exact hnl (by rw [g1]; simp)

/-- a pattern whose first character does not occur in `x` -/
theorem splitFirst_head_notin {P x y : Str} {p0 : Char} {P' : Str} (hP : P = p0 :: P') (hx : p0 ∉ x) :
    splitFirst P (x ++ P ++ y) = some (x, y) := by
  apply splitFirst_eq rfl
  intro a' b' he
  by_cases hl : a'.length < x.length
  · exfalso
    have he' : x ++ (P ++ y) = a' ++ (P ++ b') := by simpa using he
    rcases append_split he' with ⟨c, h1, _⟩ | ⟨c, h1, h2⟩
    · rw [h1] at hl; simp at hl; omega
    · cases c with
      | nil => rw [h1] at hl; simp at hl
      | cons d c =>
        rw [hP] at h2
        simp only [List.cons_append, List.cons.injEq] at h2
        exact hx (by rw [h1, ← h2.1]; simp)
  · omega

/-! ### id strings -/

/-- characters of a marker id: digits and `-` -/
def IdChars (m : Str) : Prop := ∀ c ∈ m, c.isDigit = true ∨ c = '-'

theorem idChars_natStr (n : Nat) : IdChars (natStr n) := by
  intro c hc
  unfold natStr at hc
  rw [Nat.toList_repr] at hc
  exact Or.inl (Nat.isDigit_of_mem_toDigits (by decide) (by decide) hc)

theorem idChars_pieces : ∀ (I : List Nat), IdChars (piecesStr I)
  | [] => by intro c hc; simp [piecesStr] at hc
  | p :: ps => by
    intro c hc
    simp only [piecesStr, List.mem_append, List.mem_cons] at hc
    rcases hc with hc | hc | hc
    · exact idChars_natStr p c hc
    · exact Or.inr hc
    · exact idChars_pieces ps c hc

theorem IdChars.not_mem {m : Str} (h : IdChars m) {c : Char} (hd : c.isDigit = false) (hc : c ≠ '-') : c ∉ m := by
  intro hm
  rcases h c hm with h | h
  · rw [h] at hd; cases hd
  · exact hc h

/-- two texts that agree up to their first character outside an alphabet -/
theorem first_sep {A : Char → Prop} : ∀ {x y u v : Str} {p q : Char}, (∀ c ∈ x, A c) → (∀ c ∈ y, A c) → ¬ A p → ¬ A q →
    x ++ p :: u = y ++ q :: v → x = y ∧ p = q ∧ u = v := by
  intro x
  induction x with
  | nil =>
    intro y u v p q _ hy hp _ he
    cases y with
    | nil => simp at he; exact ⟨rfl, he.1, he.2⟩
    | cons d y =>
      simp at he
      exact absurd (he.1 ▸ hy d (by simp)) hp
  | cons c x ih =>
    intro y u v p q hx hy hp hq he
    cases y with
    | nil =>
      simp at he
      exact absurd (he.1 ▸ hx c (by simp)) hq
    | cons d y =>
      simp only [List.cons_append, List.cons.injEq] at he
      obtain ⟨h1, h2, h3⟩ := ih (fun c hc => hx c (by simp [hc])) (fun c hc => hy c (by simp [hc])) hp hq he.2
      exact ⟨by rw [he.1, h1], h2, h3⟩

theorem natStr_inj {a b : Nat} (h : natStr a = natStr b) : a = b := by
  unfold natStr at h
  rw [Nat.toList_repr, Nat.toList_repr] at h
  have := congrArg (fun l => Nat.ofDigitChars 10 l 0) h
  simpa [Nat.ofDigitChars_ten_toDigits] using this

theorem pieces_inj : ∀ {I J : List Nat}, piecesStr I = piecesStr J → I = J
  | [], [] => fun _ => rfl
  | [], q :: qs => by
    intro h
    simp only [piecesStr] at h
    have := congrArg List.length h
    simp at this
  | p :: ps, [] => by
    intro h
    simp only [piecesStr] at h
    have := congrArg List.length h
    simp at this
  | p :: ps, q :: qs => by
    intro h
    simp only [piecesStr] at h
    have hA : ∀ n, ∀ c ∈ natStr n, c.isDigit = true := by
      intro n c hc
      unfold natStr at hc
      rw [Nat.toList_repr] at hc
      exact Nat.isDigit_of_mem_toDigits (by decide) (by decide) hc
    obtain ⟨h1, _, h3⟩ := first_sep (A := fun c => c.isDigit = true) (hA p) (hA q) (by decide) (by decide) h
    rw [natStr_inj h1, pieces_inj h3]


/-! ### the concrete patterns -/

theorem tagState_snoc_gt (o : Bool) (s : Str) : tagState o (s ++ ['>']) = false := by
  rw [tagState_append]; simp [tagState]

theorem ltPat_gt {r0 : Str} (h1 : '<' ∉ r0) (h2 : '>' ∉ r0) : LtPat ('<' :: (r0 ++ ['>'])) := by
  refine ⟨r0 ++ ['>'], rfl, by simp [h1], ?_⟩
  intro u r' he
  rcases append_split he with ⟨c, g1, g2⟩ | ⟨c, g1, g2⟩
  · cases c with
    | nil => simp at g2; exact g2
    | cons d c =>
      exfalso
      have hl := congrArg List.length g2
      simp at hl
  · cases c with
    | nil => simp at g2; exact g2
    | cons d c =>
      exfalso
      simp only [List.cons_append, List.cons.injEq] at g2
      exact h2 (by rw [g1, ← g2.1]; simp)

theorem ltPat_noGt {r : Str} (h1 : '<' ∉ r) (h2 : '>' ∉ r) : LtPat ('<' :: r) := by
  refine ⟨r, rfl, h1, ?_⟩
  intro u r' he
  exact absurd (he ▸ (by simp : '>' ∈ u ++ '>' :: r')) h2

def tplOpen : Str := "<template id=\"".toList
def tplClose : Str := "</template>".toList
def scriptClose : Str := "</script>".toList
def markPre : Str := "<!--s-".toList

theorem opening_eq (m : Str) : opening m = '<' :: (("!--s-".toList ++ m ++ "o--".toList) ++ ['>']) := by
  simp [opening]
theorem closing_eq (m : Str) : closing m = '<' :: (("!--s-".toList ++ m ++ "c--".toList) ++ ['>']) := by
  simp [closing]

theorem IdChars.lt {m : Str} (h : IdChars m) : '<' ∉ m := h.not_mem (by decide) (by decide)
theorem IdChars.gt {m : Str} (h : IdChars m) : '>' ∉ m := h.not_mem (by decide) (by decide)

theorem ltPat_opening {m : Str} (h : IdChars m) : LtPat (opening m) := by
  rw [opening_eq]; exact ltPat_gt (by simp [h.lt]) (by simp [h.gt])
theorem ltPat_closing {m : Str} (h : IdChars m) : LtPat (closing m) := by
  rw [closing_eq]; exact ltPat_gt (by simp [h.lt]) (by simp [h.gt])
theorem ltPat_tplOpen : LtPat tplOpen := ltPat_noGt (r := "template id=\"".toList) (by decide) (by decide)
theorem ltPat_tplClose : LtPat tplClose := ltPat_gt (r0 := "/template".toList) (by decide) (by decide)
theorem ltPat_scriptClose : LtPat scriptClose := ltPat_gt (r0 := "/script".toList) (by decide) (by decide)

theorem tagClosed_opening (m : Str) : tagClosed (opening m) = true := by
  unfold tagClosed; rw [opening_eq, ← List.cons_append, tagState_snoc_gt]; rfl
theorem tagClosed_closing (m : Str) : tagClosed (closing m) = true := by
  unfold tagClosed; rw [closing_eq, ← List.cons_append, tagState_snoc_gt]; rfl

/-- in a text with a single `<` (its first character) a `<`-headed pattern can only occur as a prefix -/
theorem free_single {P s t r : Str} (hs : s = '<' :: t) (ht : '<' ∉ t) (hP : P = '<' :: r)
    (hn : ∀ b, s ≠ P ++ b) : Free P s := by
  intro a b he
  cases a with
  | nil => exact hn b (by simpa using he)
  | cons c a =>
    rw [hs, hP] at he
    simp only [List.cons_append, List.cons.injEq] at he
    exact ht (by rw [he.2]; simp)

theorem opening_single (m : Str) (h : IdChars m) : ∃ t, opening m = '<' :: t ∧ '<' ∉ t :=
  ⟨_, opening_eq m, by simp [h.lt]⟩
theorem closing_single (m : Str) (h : IdChars m) : ∃ t, closing m = '<' :: t ∧ '<' ∉ t :=
  ⟨_, closing_eq m, by simp [h.lt]⟩

/-- marker strings with different ids, or of different kinds, are not prefixes of one another -/
theorem marker_not_prefix {m m' : Str} (hm : IdChars m) (hm' : IdChars m') {k k' : Char} {tl tl' : Str}
    (hk : k.isDigit = false ∧ k ≠ '-') (hk' : k'.isDigit = false ∧ k' ≠ '-') (hne : m ≠ m' ∨ k ≠ k') (b : Str) :
    markPre ++ m' ++ k' :: tl' ≠ (markPre ++ m ++ k :: tl) ++ b := by
  intro he
  have he' : m' ++ k' :: tl' = m ++ k :: (tl ++ b) := by
    have : markPre ++ (m' ++ k' :: tl') = markPre ++ (m ++ k :: (tl ++ b)) := by simpa using he
    exact List.append_cancel_left this
  have := first_sep (A := fun c => c.isDigit = true ∨ c = '-') hm' hm
    (by simp [hk'.1, hk'.2]) (by simp [hk.1, hk.2]) he'
  rcases hne with hne | hne
  · exact hne this.1.symm
  · exact hne this.2.1.symm

theorem opening_form (m : Str) : opening m = markPre ++ m ++ 'o' :: "-->".toList := by simp [opening, markPre]
theorem closing_form (m : Str) : closing m = markPre ++ m ++ 'c' :: "-->".toList := by simp [closing, markPre]

theorem free_opening_opening {m m' : Str} (hm : IdChars m) (hm' : IdChars m') (hne : m ≠ m') :
    Free (opening m) (opening m') := by
  obtain ⟨t, ht, hnt⟩ := opening_single m' hm'
  refine free_single ht hnt (opening_eq m) ?_
  intro b
  rw [opening_form, opening_form]
  exact marker_not_prefix hm hm' (by decide) (by decide) (Or.inl hne) b

theorem free_opening_closing {m m' : Str} (hm : IdChars m) (hm' : IdChars m') : Free (opening m) (closing m') := by
  obtain ⟨t, ht, hnt⟩ := closing_single m' hm'
  refine free_single ht hnt (opening_eq m) ?_
  intro b
  rw [opening_form, closing_form]
  exact marker_not_prefix hm hm' (by decide) (by decide) (Or.inr (by decide)) b

theorem free_closing_opening {m m' : Str} (hm : IdChars m) (hm' : IdChars m') : Free (closing m) (opening m') := by
  obtain ⟨t, ht, hnt⟩ := opening_single m' hm'
  refine free_single ht hnt (closing_eq m) ?_
  intro b
  rw [opening_form, closing_form]
  exact marker_not_prefix hm hm' (by decide) (by decide) (Or.inr (by decide)) b

theorem free_closing_closing {m m' : Str} (hm : IdChars m) (hm' : IdChars m') (hne : m ≠ m') :
    Free (closing m) (closing m') := by
  obtain ⟨t, ht, hnt⟩ := closing_single m' hm'
  refine free_single ht hnt (closing_eq m) ?_
  intro b
  rw [closing_form, closing_form]
  exact marker_not_prefix hm hm' (by decide) (by decide) (Or.inl hne) b

/-- patterns whose second character is not `!` do not occur in a marker -/
theorem free_other_marker {P r : Str} {d : Char} (hP : P = '<' :: d :: r) (hd : d ≠ '!') (s : Str)
    (hs : (∃ m, IdChars m ∧ s = opening m) ∨ (∃ m, IdChars m ∧ s = closing m)) : Free P s := by
  rcases hs with ⟨m, hm, rfl⟩ | ⟨m, hm, rfl⟩
  · obtain ⟨t, ht, hnt⟩ := opening_single m hm
    refine free_single ht hnt (r := d :: r) hP ?_
    intro b he
    rw [opening_eq, hP] at he
    simp at he
    exact hd he.1.symm
  · obtain ⟨t, ht, hnt⟩ := closing_single m hm
    refine free_single ht hnt (r := d :: r) hP ?_
    intro b he
    rw [closing_eq, hP] at he
    simp at he
    exact hd he.1.symm

/-- the found pattern right at the front -/
theorem splitFirst_here (P y : Str) (_hP : P ≠ []) : splitFirst P (P ++ y) = some ([], y) := by
  apply splitFirst_eq (a := []) (by simp)
  intro _ _ _; exact Nat.zero_le _

/-- skip a tag-closed piece free of the pattern, then find it -/
theorem splitFirst_after {P x y : Str} (hP : LtPat P) (hx : tagClosed x = true) (fx : Free P x) :
    splitFirst P (x ++ P ++ y) = some (x, y) := by
  have hne : P ≠ [] := by obtain ⟨r, rfl, _⟩ := hP; simp
  rw [List.append_assoc, splitFirst_skip hP hx fx, splitFirst_here P y hne]
  simp

end Leptos.Stream
