import LeptosModel.Proofs.KeyedStorage
/-!
# `apply_diff (diff from to)` in closed form (C11)
-/
namespace Leptos.Keyed

theorem nextMounted_eq_none {st : List (Option Item)} {n : Nat} :
    nextMounted st n = none ↔ ∀ j, n ≤ j → itemAt st j = none := by
  unfold nextMounted
  rw [List.findSome?_eq_none_iff]
  constructor
  · intro h j hj
    unfold itemAt
    cases hx : st[j]? with
    | none => rfl
    | some x =>
      have : x ∈ st.drop n := by
        apply List.mem_iff_getElem?.mpr
        exact ⟨j - n, by rw [List.getElem?_drop]; rw [← hx]; congr 1; omega⟩
      simpa using h x this
  · intro h x hx
    obtain ⟨j, hj⟩ := List.mem_iff_getElem?.mp hx
    rw [List.getElem?_drop] at hj
    have := h (n + j) (by omega)
    simp only [itemAt, hj] at this
    simpa using this

/-- `Append` additions at increasing indices behind which nothing is mounted do what `Normal` ones do -/
theorem addFold_append (bs : Nat) (marker : NodeId) (to : List Key) (ats : List Nat) : ∀ (w : World),
    ats.Pairwise (· < ·) → (∀ a ∈ ats, a ≤ w.storage.length ∧ ∀ j, a ≤ j → itemAt w.storage j = none) →
    (ats.map fun i => ({ at_ := i, mode := .append } : DiffOpAdd)).foldl (addStep bs marker to) w =
    (ats.map fun i => ({ at_ := i, mode := .normal } : DiffOpAdd)).foldl (addStep bs marker to) w := by
  induction ats with
  | nil => intro w _ _; rfl
  | cons a ats ih =>
    intro w hsorted h
    simp only [List.pairwise_cons] at hsorted
    obtain ⟨hle, hnone⟩ := h a (by simp)
    have hstep := addStep_append bs marker to w { at_ := a, mode := .normal }
      (nextMounted_eq_none.mpr hnone) hle
    simp only [List.map_cons, List.foldl_cons]
    rw [hstep]
    apply ih _ hsorted.2
    intro a' ha'
    have hlt := hsorted.1 a' ha'
    obtain ⟨hle', hnone'⟩ := h a' (by simp [ha'])
    -- the step stores at `a < a'` or (on a panic) leaves the storage alone
    have hst : ∀ j, a < j →
        itemAt (addStep bs marker to w { at_ := a, mode := .normal }).storage j = itemAt w.storage j ∧
        (addStep bs marker to w { at_ := a, mode := .normal }).storage.length = w.storage.length := by
      intro j hj
      unfold addStep
      cases hk : to[a]? with
      | none => simp [World.panicked]
      | some k =>
        simp only [buildItem]
        rw [placeItem_eq _ marker a _ (by simpa using hle)]
        simp only [World.store]
        split
        · exact ⟨itemAt_set_ne (by omega), by simp⟩
        · simp [World.panicked]
    refine ⟨by rw [(hst a' hlt).2]; exact hle', ?_⟩
    intro j hj
    rw [(hst j (by omega)).1]
    exact hnone' j hj

theorem pipeline_append_eq_normal (bs : Nat) (marker : NodeId) (to : List Key) (n : Nat) (w : World)
    (hw : w.storage = []) :
    pipeline bs marker to [] [] ((List.range n).map fun i => { at_ := i, mode := .append }) n w =
    pipeline bs marker to [] [] ((List.range n).map fun i => { at_ := i, mode := .normal }) n w := by
  unfold pipeline
  simp only [List.foldl_nil, List.zip_nil_left, hw, List.nil_append]
  rw [addFold_append]
  · exact List.pairwise_lt_range
  · intro a ha
    rw [List.mem_range] at ha
    refine ⟨by simpa using Nat.le_of_lt ha, ?_⟩
    intro j _
    simp [itemAt, List.getElem?_replicate]
    split <;> rfl

section
variable {f t : List Key} {old : List Item} {rem : List Nat} {U : List DiffOpMove} {ads : List DiffOpAdd}

/-- closed form of the pipeline in the context of one rebuild -/
theorem Ctx.pipeline_closed (c : Ctx f t old rem U ads) (hn : ∀ a ∈ ads, a.mode = .normal)
    (bs : Nat) (marker : NodeId) (w : World) (hw : w.storage = old.map some) :
    pipeline bs marker t rem U ads ads.length w =
      { kids := (placeAll marker (placements bs t w rem U ads)
          (kids1 w rem, storage4 w.storage rem U ads.length)).1,
        storage := (storage7 old rem U ads bs t w.next).filter Option.isSome,
        next := w.next + bs * ads.length,
        log := { w.log with
          unmounts := w.log.unmounts ++ (rem.filterMap (itemAt w.storage)).map (·.key),
          setIndex := w.log.setIndex ++ ndCalls (movedWith w.storage rem U) ++ dCalls (movedWith w.storage rem U),
          builds := w.log.builds ++ ads.map fun a => (t[a.at_]?.getD 0, a.at_) } } := by
  have hlen : w.storage.length = f.length := by rw [hw, List.length_map, c.old_length]
  rw [pipeline_eq bs marker t rem U ads ads.length w c.sp.rem_nodup ?_ (c.sp.from_nodup c.ht) ?_ ?_ ?_ ?_]
  · congr 1
    rw [placeAll_storage, storage7, placements, hw]
  · intro a ha
    obtain ⟨k, hk, _⟩ := isRem_iff.mp (c.sp.mem_rem.mp ha)
    obtain ⟨it, hit, _⟩ := c.old_get hk
    exact ⟨it, by rw [hw, itemAt_map_some, hit]⟩
  · intro m hm
    rw [hlen]; exact c.from_lt hm
  · intro m hm
    have := c.to_lt hm; have := c.length_le; omega
  · intro mc hmc
    rw [hw, c.movedWith_eq] at hmc
    obtain ⟨m, hm, rfl⟩ := List.mem_map.mp hmc
    have := c.from_lt hm
    simp only
    rw [List.getElem?_eq_getElem (by rw [c.old_length]; exact this)]
    rfl
  · intro a ha
    have h1 := c.at_lt ha; have h2 := c.length_le
    exact ⟨hn a ha, h1, by omega⟩

end

/-- for a non-empty new sequence, `apply_diff (diff from to)` is the pipeline over command lists that
satisfy `Spec`, all additions being `Normal` ones -/
theorem applyDiff_spec (D : List Key → List Key → Diff) (hD : DiffLike D)
    (f t : List Key) (old : List Item) (hf : f.Nodup) (ht : t.Nodup)
    (hold : old.map (·.key) = f) (hne : t ≠ []) (bs : Nat) (marker : NodeId) (w : World)
    (hw : w.storage = old.map some) :
    ∃ rem U ads, Ctx f t old rem U ads ∧ (∀ a ∈ ads, a.mode = .normal) ∧
      U = (unpackMoves (D f t)).1 ∧
      applyDiff bs marker (D f t) t w = pipeline bs marker t rem U ads ads.length w := by
  by_cases hfe : f = []
  · subst hfe
    obtain ⟨hc, hr, hu, ha, hl⟩ := hD.from_nil t hne
    refine ⟨[], [], (List.range t.length).map fun i => { at_ := i, mode := .normal }, ?_, ?_, ?_, ?_⟩
    · refine ⟨hf, ht, hold, ⟨?_, ?_, ?_⟩⟩
      · symm; rw [List.filter_eq_nil_iff]; intro i _; simp [isRem]
      · simp only [List.map_map, Function.comp_def, List.map_id', List.length_nil, Nat.zero_max]
        symm; rw [List.filter_eq_self]
        intro i hi
        rw [List.mem_range] at hi
        rw [isAdd_iff]
        exact ⟨t[i], List.getElem?_eq_getElem hi, by simp⟩
      · symm; simp only [List.map_nil]
        rw [List.filterMap_eq_nil_iff]; intro i _; simp [mvPair]
    · intro a ha'
      obtain ⟨i, _, rfl⟩ := List.mem_map.mp ha'
      rfl
    · exact hu.symm
    · rw [applyDiff_eq_pipeline _ _ _ _ _ hc, hr, hu, ha, hl]
      have : old = [] := by cases old <;> simp_all
      subst this
      have := pipeline_append_eq_normal bs marker t t.length w (by simpa using hw)
      simpa using this
  · obtain ⟨hc, hs, hl, hn⟩ := hD.general f t hfe hne
    refine ⟨_, _, _, ⟨hf, ht, hold, hs⟩, hn, rfl, ?_⟩
    rw [applyDiff_eq_pipeline _ _ _ _ _ hc, hl]

end Leptos.Keyed
