import LeptosModel.Proofs.ReactiveLog
/-!
# Proofs/ReactiveGlitch — no glitch: the whole log is consistent with the signal environment

`StateGF p s0 s`: the log written between `s0` and `s` is `GlitchFree` from the signal values of `s0`
to those of `s` — the environment changes only at `set i` events (and only at `i`), and every
`rdv self x v` event (tracked read by an effect body or by a memo body pulled on its behalf) carries
the from-scratch value of `x` for the environment current at that position of the log.
-/
namespace Leptos.Reactive

theorem plain_ran (i : Nat) : PlainEv (.ran i) := ⟨fun _ _ _ h => (by cases h), fun _ h => (by cases h)⟩
theorem plain_unjust (i : Nat) : PlainEv (.unjust i) := ⟨fun _ _ _ h => (by cases h), fun _ h => (by cases h)⟩
theorem plain_woke (i : Nat) : PlainEv (.woke i) := ⟨fun _ _ _ h => (by cases h), fun _ h => (by cases h)⟩

theorem StateGF.of_nodes {p : Prog} {s0 s s' : State} (h : StateGF p s0 s) (hn : s'.nodes = s.nodes)
    (hl : s'.log = s.log) : StateGF p s0 s' := by
  have g : ∀ i, s'.get i = s.get i := by intro i; simp only [State.get, hn]
  exact h.trans (StateGF.of_eq hl (SigEq.of_val (fun i _ _ => by rw [g])))

theorem StateGF.emit {p : Prog} {s0 s : State} (h : StateGF p s0 s) (ev : Ev) (hev : PlainEv ev) :
    StateGF p s0 (s.emit ev) :=
  h.trans (StateGF.of_plain (LogExt.emit hev) (SigEq.refl _ _))

/-- updating a node that is not a signal, or without touching `val` -/
theorem StateGF.upd {p : Prog} {s0 s : State} (h : StateGF p s0 s) (i : Nat) (g : Node → Node)
    (hg : (∀ v, p[i]? ≠ some (.sig v)) ∨ ∀ n, (g n).val = n.val) : StateGF p s0 (s.upd i g) := by
  refine h.trans (StateGF.of_eq rfl (SigEq.of_val (fun j v hd => ?_)))
  rw [State.get_upd]
  split
  · next hc =>
    obtain ⟨rfl, _⟩ := hc
    rcases hg with hg | hg
    · exact absurd hd (hg v)
    · exact hg _
  · rfl

theorem StateGF.store {p : Prog} {s0 s8 : State} {g : Node → Node} (h : StateGF p s0 s8) (e' : Nat)
    (hns : ∀ v, p[e']? ≠ some (.sig v)) : StateGF p s0 (({ s8 with obs := none } : State).upd e' g) :=
  (h.of_nodes (s' := { s8 with obs := none }) rfl rfl).upd e' g (.inl hns)

theorem InvR.eff_not_sig {p : Prog} {s : State} (h : InvR p s) {e : Nat} (hk : (s.get e).kind = .eff) :
    ∀ v, p[e]? ≠ some (.sig v) := by
  intro v hd
  have := h.kind e _ hd
  rw [hk] at this; cases this

theorem StateGF.of_track {p : Prog} {s0 s s1 : State} {m x : Nat} (h : StateGF p s0 s)
    (t : TrackPost s s1 m x) : StateGF p s0 s1 :=
  h.trans (StateGF.of_eq t.log (SigEq.of_val (fun i _ _ => t.val i)))

theorem StateGF.of_clear {p : Prog} {s0 s s2 : State} {m : Nat} (h : StateGF p s0 s)
    (t : ClearPost s s2 m) : StateGF p s0 s2 := by
  refine h.trans (StateGF.of_eq t.log (SigEq.of_val (fun i _ _ => ?_)))
  by_cases hi : i = m
  · subst hi; rw [t.gm]
  · rw [t.go i hi]

theorem StateGF.of_noteRun {p : Prog} {s0 s : State} (h : StateGF p s0 s) (id : Nat) :
    StateGF p s0 (noteRun s id) := by
  unfold noteRun
  simp only
  split
  · apply StateGF.emit _ _ (plain_ran id)
    exact StateGF.upd h id _ (.inr fun _ => rfl)
  · apply StateGF.emit _ _ (plain_ran id)
    exact StateGF.upd (h.emit _ (plain_unjust id)) id _ (.inr fun _ => rfl)

/-! ## the body of an effect -/

section
variable {p : Prog} (hwf : WF p = true) (htr : MemoTracked p)
include hwf htr

theorem hreadG {u : State → Nat → State × Bool} {f : Nat} (hu : UpdOK p u f)
    {e' : Nat} (s0 : State) (hef : e' ≤ f) (s : State) (x : Nat) (h : InvR p s)
    (hl : EffLoc s e') (hq : StateGF p s0 s) (hx : x < e') (hkx : (s.get x).kind ≠ .eff) :
    StateGF p s0 (((readNode u s x).1.upd e' fun n =>
        { n with seen := n.seen ++ [(x, (readNode u s x).2, ((readNode u s x).1.get x).ver)] }).emit
          (.rdv e' x (readNode u s x).2)) := by
  obtain ⟨s1, s2, v, ch, hrd, t, h1, up, hc, hv⟩ := readEff_cases hu hef h hl hx hkx
  rw [hrd]
  simp only
  have g2 : StateGF p s0 s2 := (hq.of_track t).trans (up.gf hwf htr)
  have he : e' < s.nodes.length := s.lt_of_running hl.running
  have hxp : x < p.length := by rw [← h.len]; omega
  have hk2 : (s2.get x).kind ≠ .eff := by rw [up.frame.kind, t.kind]; exact hkx
  have hcc := up.inv.clean_correct hwf htr x hxp hk2 hc
  rw [hv] at hcc
  refine g2.trans ⟨[.rdv e' x v], rfl, .rdv (Option.some.inj hcc).symm (.nil (SigEq.of_val (fun j _ _ => ?_)))⟩
  rw [State.emit_get, State.get_upd]
  split <;> rfl

theorem hureadG {u : State → Nat → State × Bool} {f : Nat} (hu : UpdOK p u f)
    {e' : Nat} (s0 : State) (hef : e' ≤ f) (s : State) (x : Nat) (h : InvR p s)
    (hl : EffLoc s e') (hq : StateGF p s0 s) (hx : x < e') (hkx : (s.get x).kind ≠ .eff) :
    StateGF p s0 ({ (readNode u { s with obs := none } x).1 with obs := s.obs }) := by
  obtain ⟨s2, v, ch, hrd, up⟩ := readEffU_cases hu hef h hl hx hkx
  rw [hrd]
  simp only
  have q1 : StateGF p s0 ({ s with obs := none } : State) := hq.of_nodes rfl rfl
  exact (q1.trans (up.gf hwf htr)).of_nodes rfl rfl

omit hwf htr in
theorem hwriteG {e' : Nat} (s0 : State) (F : Nat) (hF : p.length ≤ F) (s : State) (x : Nat)
    (v0 v : Int) (h : InvR p s) (_hl : EffLoc s e') (hq : StateGF p s0 s) (hx : p[x]? = some (.sig v0)) :
    StateGF p s0 (setSignal F s x v) := by
  obtain ⟨_, sp⟩ := setSignal_inv h hx v (f := F) (by rw [h.len]; exact hF)
  exact hq.trans (sp.gf p)

/-! ## the effect task -/

omit hwf htr in
theorem effStart_G {e' : Nat} {s0 s : State} (hq : Quiet p s) (hk : (s.get e').kind = .eff)
    (h : StateGF p s0 s) : StateGF p s0 (effStart s e') := by
  have he : e' < s.nodes.length := s.lt_of_kind_ne (by rw [hk]; simp)
  have q1 := hq.updEff hk (fun n => { n with first := false }) hk rfl rfl (fun _ hx => hx)
    (Nat.le_refl _) (hq.idle e')
  have l1 : StateGF p s0 (s.upd e' fun n => { n with first := false }) := h.upd e' _ (.inr fun _ => rfl)
  unfold effStart
  generalize hs1 : (s.upd e' fun n => { n with first := false }) = s1 at q1 l1
  have he1 : e' < s1.nodes.length := by subst hs1; simpa using he
  have t := clearSources_post (s := s1) (m := e') q1.inv.nodup
    (fun i hni hc => hni ((q1.inv.edge i e').1 hc))
    (fun hc => Nat.lt_irrefl e' (q1.inv.srcLt e' e' hc)) he1
  exact ((l1.of_clear t).of_noteRun e').of_nodes rfl rfl

theorem effRun_specG {f : Nat} (hu : UpdOK p (upd p f) f) (hf : p.length < f)
    (hpe : EffOKU p) {e' : Nat} {s0 s : State} (hq : Quiet p s) (hk : (s.get e').kind = .eff)
    (h : StateGF p s0 s) : StateGF p s0 (effRun p f s e' none) := by
  have he : e' < s.nodes.length := s.lt_of_kind_ne (by rw [hk]; simp)
  have hep : e' < p.length := by rw [← hq.inv.len]; exact he
  obtain ⟨h4, l4⟩ := effStart_spec hq hk
  have q4 := effStart_G hq hk h
  obtain ⟨b, hb⟩ : ∃ b, p[e']? = some (.eff b) := by
    have hd' : p[e']? = some p[e'] := List.getElem?_eq_getElem hep
    have := hq.inv.kind e' _ hd'
    rw [hk] at this
    cases hp : p[e'] with
    | eff b => exact ⟨b, by rw [hd', hp]⟩
    | sig v => rw [hp] at this; cases this
    | memo b => rw [hp] at this; cases this
  have hbody := hpe e' b hb
  have hbo : bodyOf p e' = b := by simp only [bodyOf, hb]
  have evq := evalEff_gen hu (e := e') (by omega) f (by omega) (fun s => StateGF p s0 s)
    (fun s x h' hl' hq' hx hkx => hreadG hwf htr hu s0 (by omega) s x h' hl' hq' hx hkx)
    (fun s x h' hl' hq' hx hkx => hureadG hwf htr hu s0 (by omega) s x h' hl' hq' hx hkx)
    (fun s x v0 v h' hl' hq' hx => hwriteG s0 f (by omega) s x v0 v h' hl' hq' hx)
    (bodyOf p e') (effStart s e') h4 l4 q4
    (by rw [hbo]; exact hbody.1) (by rw [hbo]; exact hbody.2)
  rw [effRun_eq]
  exact evq.store e' (hq.inv.eff_not_sig hk)

theorem walk_specG {u : State → Nat → State × Bool} {f : Nat} (hu : UpdOK p u f)
    {s0 : State} (self : Nat) : ∀ (l : List Nat) (s : State), (∀ x ∈ l, x < f) → Quiet p s →
      StateGF p s0 s → StateGF p s0 (anySrc u false self l s).1
  | [], _, _, _, h => h
  | x :: l, s, hl, hq, h => by
    have up := hu s x hq.inv (hl x List.mem_cons_self) (hq.idle x)
      (fun r hr => by rw [hq.idle r] at hr; cases hr)
    unfold anySrc
    generalize u s x = r at up
    obtain ⟨s1, ch⟩ := r
    have q1 : Quiet p s1 := ⟨up.inv, fun i => (up.running i).trans (hq.idle i)⟩
    have l1 : StateGF p s0 s1 := h.trans (up.gf hwf htr)
    simp only
    split
    · exact l1
    · exact walk_specG hu self l s1 (fun y hy => hl y (List.mem_cons_of_mem _ hy)) q1 l1

theorem effUpdate_specG {f : Nat} (hu : UpdOK p (upd p f) f) (hf : p.length ≤ f)
    {e' : Nat} {s0 s : State} (hq : Quiet p s) (hk : (s.get e').kind = .eff) (h : StateGF p s0 s) :
    StateGF p s0 ({ (effUpdate p f { s with obs := some e' } e').1 with obs := none }) := by
  have hobs := hq.obs
  cases hd : (s.get e').dirty with
  | true =>
    rw [effUpdate_dirty p f { s with obs := some e' } e' hd]
    have e1 : ({ (({ s with obs := some e' } : State).upd e' fun n => { n with dirty := false }) with
        obs := none } : State) = ({ s with obs := none } : State).upd e' fun n => { n with dirty := false } := rfl
    simp only
    rw [e1, State.setObs_none_eq hobs]
    exact h.upd e' _ (.inr fun _ => rfl)
  | false =>
    rw [effUpdate_clean p f { s with obs := some e' } e' hd]
    have e0 : ({ ({ s with obs := some e' } : State) with obs := none } : State) = s :=
      State.setObs_none_eq hobs
    simp only [State.setObs_get]
    rw [e0]
    have hw := walk_spec hu e' (s.get e').sources s (fun x hx => by
      have := hq.inv.srcLt e' x hx
      have := hq.inv.len
      have := s.lt_of_kind_ne (i := e') (by rw [hk]; simp)
      omega) hq
    have lw := walk_specG hwf htr hu (s0 := s0) e' (s.get e').sources s (fun x hx => by
      have := hq.inv.srcLt e' x hx
      have := hq.inv.len
      have := s.lt_of_kind_ne (i := e') (by rw [hk]; simp)
      omega) hq h
    generalize anySrc (upd p f) false e' (s.get e').sources s = r at hw lw
    obtain ⟨s2, any⟩ := r
    simp only at hw lw ⊢
    have e1 : ({ (({ s2 with obs := some e' } : State).upd e' fun n => { n with dirty := false }) with
        obs := none } : State) = ({ s2 with obs := none } : State).upd e' fun n => { n with dirty := false } := rfl
    rw [e1, State.setObs_none_eq hw.1.obs]
    exact lw.upd e' _ (.inr fun _ => rfl)

theorem effLoop_specG {f : Nat} (hu : UpdOK p (upd p f) f) (hf : p.length < f)
    (hpe : EffOKU p) {s0 : State} (e' : Nat) : ∀ (k : Nat) (s : State), TopJ p s →
      (s.get e').kind = .eff → StateGF p s0 s → StateGF p s0 (effLoop p f k s e')
  | 0, _, _, _, h => h
  | k + 1, s, ht, hk, h => by
    rw [effLoop_succ]
    split
    · exact h
    · obtain ⟨q1, hk1⟩ := ht.flagEff' hk (fun n => { n with chan := false })
        (fun _ => ⟨rfl, rfl, rfl, rfl, rfl, rfl, rfl, rfl, rfl⟩)
      have l1 : StateGF p s0 (s.upd e' fun n => { n with chan := false }) :=
        h.upd e' _ (.inr fun _ => rfl)
      simp only
      generalize (s.upd e' fun n => { n with chan := false }) = s1 at q1 hk1 l1
      split
      · exact effLoop_specG hu hf hpe e' k s1 q1 hk1 l1
      · obtain ⟨q3, hk3, hd3, hw3⟩ := effUpdate_specJ hu (by omega) q1 hk1
        have l3 := effUpdate_specG hwf htr hu (by omega) q1.quiet hk1 l1
        rw [q1.quiet.obs]
        generalize effUpdate p f { s1 with obs := some e' } e' = r at q3 hk3 hd3 hw3 l3
        obtain ⟨s2, need⟩ := r
        simp only at q3 hk3 hd3 hw3 l3 ⊢
        have hk3' : (({ s2 with obs := none } : State).get e').kind = .eff := hk3
        split
        · next hc =>
          have hj : (({ s2 with obs := none } : State).get e').runs ≠ 0 →
              ∃ z ∈ (({ s2 with obs := none } : State).get e').seen,
                (({ s2 with obs := none } : State).get z.1).ver ≠ z.2.2 := by
            intro hruns
            by_cases hn : need = true
            · exact hw3 hn hruns
            · have hfirst : (({ s2 with obs := none } : State).get e').first = true := by
                simp only [Bool.or_eq_true] at hc
                rcases hc with hc | hc
                · exact absurd hc hn
                · exact hc
              exact absurd ((q3.effJ e' hk3' (q3.quiet.idle e')).firstJ hfirst) hruns
          obtain ⟨q4, hk4⟩ := effRun_specJ hu hf hpe q3 hk3' hd3 hj
          have l4 := effRun_specG hwf htr hu hf hpe q3.quiet hk3' l3
          exact effLoop_specG hu hf hpe e' k _ q4 hk4 l4
        · exact effLoop_specG hu hf hpe e' k _ q3 hk3' l3

theorem pollEff_specG (hp : MemoOK p) (hpe : EffOKU p) {e' : Nat} {s0 s : State}
    (ht : TopJ p s) (hk : (s.get e').kind = .eff) (h : StateGF p s0 s) : StateGF p s0 (pollEff p s e') := by
  unfold pollEff
  obtain ⟨q1, hk1⟩ := ht.flagEff' hk (fun n => { n with woken := false })
    (fun _ => ⟨rfl, rfl, rfl, rfl, rfl, rfl, rfl, rfl, rfl⟩)
  have l1 : StateGF p s0 (s.upd e' fun n => { n with woken := false }) := h.upd e' _ (.inr fun _ => rfl)
  simp only
  split
  · exact l1.upd e' _ (.inr fun _ => rfl)
  · exact effLoop_specG hwf htr (upd_ok hp (fuelFor p)) (by simp [fuelFor]) hpe e' 64 _ q1 hk1 l1

theorem pollNth_specG (hp : MemoOK p) (hpe : EffOKU p) {s0 s : State} (ht : TopJ p s)
    (h : StateGF p s0 s) (i : Nat) : StateGF p s0 (pollNth p s i) := by
  unfold pollNth
  simp only
  split
  · exact h
  · next hne =>
    apply pollEff_specG hwf htr hp hpe ht _ h
    apply ready_kind
    have hpos : 0 < (ready s).length := by
      cases hr : ready s with
      | nil => rw [hr] at hne; simp at hne
      | cons a l => simp
    have hlt : i % (ready s).length < (ready s).length := Nat.mod_lt _ hpos
    rw [List.getD_eq_getElem?_getD, List.getElem?_eq_getElem hlt]
    exact List.getElem_mem hlt

theorem runIdle_specG (hp : MemoOK p) (hpe : EffOKU p) {s0 : State} :
    ∀ (k : Nat) (s : State), TopJ p s → StateGF p s0 s → StateGF p s0 (runIdle p k s)
  | 0, _, _, h => h
  | k + 1, s, ht, h => by
    unfold runIdle
    split
    · exact h
    · exact runIdle_specG hp hpe k _ (pollNth_specJ hp hpe ht 0) (pollNth_specG hwf htr hp hpe ht h 0)

theorem step_specG (hp : MemoOK p) (hpe : EffOKU p) {s0 s : State}
    (ht : TopJ p s) (h : StateGF p s0 s) (o : Op) : StateGF p s0 (step p s o).1 := by
  cases o with
  | set id v =>
    simp only [step]
    split
    · next v0 hx =>
      have hf : s.nodes.length ≤ fuelFor p := by rw [ht.quiet.inv.len]; simp [fuelFor]
      obtain ⟨_, sp⟩ := setSignal_inv ht.quiet.inv hx v hf
      exact h.trans (sp.gf p)
    · exact h
  | read m =>
    simp only [step]
    have htrack : track s m = s := by unfold track; rw [ht.quiet.obs]
    unfold readNode
    rw [htrack]
    simp only
    cases hk : (s.get m).kind with
    | eff => exact h
    | sig => exact h
    | memo =>
      simp only
      have hm : m < p.length := ht.quiet.inv.memo_lt hk
      have post := upd_ok hp (fuelFor p) s m ht.quiet.inv (by simp only [fuelFor]; omega) (ht.quiet.idle m)
        (fun r hr => by rw [ht.quiet.idle r] at hr; cases hr)
      exact h.trans (post.gf hwf htr)
  | poll i => exact pollNth_specG hwf htr hp hpe ht h i
  | idle => exact runIdle_specG hwf htr hp hpe 256 s ht h
  | pause e'' =>
    simp only [step]
    split
    · exact h.upd e'' _ (.inr fun _ => rfl)
    · exact h
  | resume e'' =>
    simp only [step]
    split
    · exact h.upd e'' _ (.inr fun _ => rfl)
    · exact h
  | dispose e'' =>
    simp only [step]
    split
    · have q := h.upd e'' (fun n => { n with alive := false, woken := true }) (.inr fun _ => rfl)
      split
      · exact q.emit _ (plain_woke e'')
      · exact q
    · exact h

/-- every step of the model writes a glitch-free piece of log -/
theorem step_glitchFree (ops : List Op) (o : Op) :
    StateGF p (run p ops) (step p (run p ops) o).1 :=
  step_specG hwf htr (memoOK_of_wf hwf) (effOKU_of_wf hwf)
    (run_topJ (memoOK_of_wf hwf) (effOKU_of_wf hwf) ops) (StateGF.refl p _) o

/-- the whole log of a run is glitch-free, from the initial signal values to the final ones -/
theorem run_glitchFree (ops : List Op) : StateGF p (initState p) (run p ops) := by
  have hp := memoOK_of_wf hwf
  have hpe := effOKU_of_wf hwf
  unfold run
  suffices ∀ s, TopJ p s → StateGF p (initState p) s →
      StateGF p (initState p) (ops.foldl (fun s o => (step p s o).1) s) from
    this _ (init_topJ p) (StateGF.refl p _)
  induction ops with
  | nil => intro s _ h; exact h
  | cons o ops ih => intro s ht h; exact ih _ (step_topJ hp hpe ht o) (step_specG hwf htr hp hpe ht h o)

end

end Leptos.Reactive
