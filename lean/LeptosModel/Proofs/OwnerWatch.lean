import LeptosModel.Proofs.OwnerRerun
/-!
# Proofs/OwnerWatch — after the repair of F-C08-2 a `watch` handler always runs under an owner (C08)

`W a st` : the ghost flag `watchHit` and the configuration `legacyWatch` are the same in `st` as in
`a`.  Every function of the reactive layer keeps `W` when `legacyWatch = false`: the only place that
can raise the flag is a handler token executed with an empty owner stack, and `runHandlerNew`
pushes the effect's owner before the first token.
-/
namespace Leptos.Owner

structure W (a st : St) : Prop where
  hit : st.watchHit = a.watchHit
  leg : st.legacyWatch = a.legacyWatch

theorem W.refl (a : St) : W a a := ⟨rfl, rfl⟩

theorem W.same {a st st' : St} (h : W a st) (h1 : st'.watchHit = st.watchHit)
    (h2 : st'.legacyWatch = st.legacyWatch) : W a st' := ⟨h1.trans h.hit, h2.trans h.leg⟩

theorem W.lift {a st : St} (h : W a st) (f : Core → Core) : W a (st.lift f) := h.same rfl rfl

theorem w_foldl {α} (f : St → α → St) (hf : ∀ a st x, W a st → W a (f st x)) (l : List α) {a st : St}
    (h : W a st) : W a (l.foldl f st) := by
  induction l generalizing st with
  | nil => exact h
  | cons x l ih => exact ih (hf a st x h)

theorem w_addSource {a st : St} (h : W a st) (me : Sub) (s : Nat) : W a (addSource st me s) := by
  unfold addSource
  split
  · split
    · exact h.same rfl rfl
    · exact h
  · split
    · exact h.same rfl rfl
    · exact h

theorem w_readSig {a st : St} (h : W a st) (s : Nat) : W a (readSig st s) := by
  unfold readSig
  split
  · split
    · simp only
      split
      · split
        · refine w_addSource ?_ _ _
          exact h.same rfl rfl
        · exact h.same rfl rfl
      · exact h.same rfl rfl
    · exact h
  · exact h

theorem w_newEffect {a st : St} (h : W a st) (b : Nat) (k : EffKind) : W a (newEffect st b k) := by
  unfold newEffect; exact h.same rfl rfl
theorem w_newMemo {a st : St} (h : W a st) (b : Nat) : W a (newMemo st b) := by
  unfold newMemo; exact h.same rfl rfl
theorem w_newSignal {a st : St} (h : W a st) (v : Int) : W a (newSignal st v) := by
  unfold newSignal; exact h.same rfl rfl
theorem w_newOwnerHandle {a st : St} (h : W a st) : W a (newOwnerHandle st) := by
  unfold newOwnerHandle; exact h.same rfl rfl

def Wex (ex : St → BOp → St) : Prop := ∀ (a st : St) (op : BOp), W a st → W a (ex st op)

theorem w_runScoped {ex : St → BOp → St} (hex : Wex ex) {a st : St} (h : W a st) (e o b : Nat) :
    W a (runScoped ex st e o b) := by
  unfold runScoped
  simp only
  have key : ∀ (body : List BOp) (S0 : St), W a S0 → ∀ S1 : St,
      S1.watchHit = (List.foldl ex S0 body).watchHit → S1.legacyWatch = (List.foldl ex S0 body).legacyWatch →
      W a S1 := fun body S0 h0 S1 h1 h2 => (w_foldl _ hex body h0).same h1 h2
  refine key _ _ ?_ _ rfl rfl
  exact h.same rfl rfl

theorem w_pushEager {a st : St} (h : W a st) (b : Nat) (k : EffKind) : W a (pushEager st b k) := by
  unfold pushEager; exact h.same rfl rfl
theorem w_addTask {a st : St} (h : W a st) (e : Nat) : W a (addTask st e) := h.same rfl rfl
theorem w_finishAsync {a st : St} (h : W a st) (e : Nat) : W a (finishAsync st e) := by
  unfold finishAsync
  simp only
  split <;> exact h.same rfl rfl

theorem w_newRender {ex : St → BOp → St} (hex : Wex ex) {a st : St} (h : W a st) (b : Nat) :
    W a (newRender ex st b) := by
  unfold newRender
  exact w_addTask (w_runScoped hex (w_pushEager h _ _) _ _ _) _

theorem w_newAsync {ex : St → BOp → St} (hex : Wex ex) {a st : St} (h : W a st) (b : Nat) :
    W a (newAsync ex st b) := by
  unfold newAsync
  have h1 : W a (setMutDepth (pushEager st b EffKind.async) st.mutDepth) :=
    W.same (st := pushEager st b EffKind.async) (w_pushEager h _ _) rfl rfl
  have h2 := w_runScoped hex h1 st.effs.length (eagerOwner st) b
  refine w_finishAsync (w_addTask ?_ _) _
  exact W.same h2 rfl rfl

theorem w_releaseOwner {a st : St} (h : W a st) (o : Nat) : W a (releaseOwner st o) := by
  unfold releaseOwner
  split
  · exact h
  · exact h.lift _

theorem w_immEnd {a st : St} (h : W a st) (e rc : Nat) : W a (immEnd st e rc) := by
  unfold immEnd
  split
  · exact h
  · exact h.same rfl rfl

theorem w_immRelease {a st : St} (h : W a st) (e : Nat) : W a (immRelease st e) := by
  unfold immRelease
  split
  · split
    · exact w_releaseOwner h _
    · exact h
  · exact h

theorem w_immUpdate {ex : St → BOp → St} (hex : Wex ex) {a st : St} (h : W a st) (e : Nat) :
    W a (immUpdate ex st e) := by
  unfold immUpdate
  split
  · exact h
  · next er _ =>
    split
    · exact h
    · simp only
      refine w_immRelease (w_immEnd ?_ _ _) _
      refine W.same (st := runScoped ex _ e er.owner er.body) (w_runScoped hex ?_ _ _ _) rfl rfl
      exact W.same (st := immBegin st e er) (h.same rfl rfl) rfl rfl

theorem w_immScope {a st : St} (h : W a st) (e : Nat) : W a (immScope st e) := by
  unfold immScope
  split
  · exact h
  · split
    · exact h.same rfl rfl
    · refine w_releaseOwner ?_ _
      exact h.same rfl rfl

theorem w_newImm {ex : St → BOp → St} (hex : Wex ex) {a st : St} (h : W a st) (b : Nat) (sc mutf : Bool) :
    W a (newImm ex st b sc mutf) := by
  unfold newImm
  simp only
  split
  · exact w_immScope (w_immUpdate hex (w_pushEager h _ _) _) _
  · exact w_immUpdate hex (w_pushEager h _ _) _

theorem w_markSub {ex : St → BOp → St} (hex : Wex ex) (a st : St) (s : Sub) (h : W a st) :
    W a (markSub ex st s) := by
  unfold markSub
  split
  · split
    · split
      · split
        · refine w_immUpdate hex ?_ _
          exact h.same rfl rfl
        · exact h.same rfl rfl
      · exact h
    · exact h
  · split
    · split
      · exact h.same rfl rfl
      · exact h
    · exact h

theorem w_setSig {ex : St → BOp → St} (hex : Wex ex) {a st : St} (h : W a st) (s : Nat) (v : Int) :
    W a (setSig ex st s v) := by
  unfold setSig
  split
  · split
    · exact w_foldl _ (w_markSub hex) _ (h.same rfl rfl)
    · exact h
  · exact h

theorem w_writeSig {ex : St → BOp → St} (hex : Wex ex) {a st : St} (h : W a st) (s v : Nat) :
    W a (writeSig ex st s v) := by
  unfold writeSig
  split
  · exact h
  · split
    · split
      · exact w_setSig hex h _ _
      · exact h
    · exact h

theorem w_newTask {a st : St} (h : W a st) (b : Nat) (cancel : Bool) : W a (newTask st b cancel) := by
  unfold newTask; exact h.same rfl rfl

theorem w_runMemo {ex : St → BOp → St} (hex : Wex ex) {a st : St} (h : W a st) (m : Nat) :
    W a (runMemo ex st m) := by
  unfold runMemo
  split
  · exact h
  · next mr _ =>
    simp only
    have key : ∀ (body : List BOp) (S0 : St), W a S0 → ∀ S1 : St,
        S1.watchHit = (List.foldl ex S0 body).watchHit → S1.legacyWatch = (List.foldl ex S0 body).legacyWatch →
        W a S1 := fun body S0 h0 S1 h1 h2 => (w_foldl _ hex body h0).same h1 h2
    split
    · refine key _ _ ?_ _ rfl rfl
      exact h.same rfl rfl
    · refine key _ _ ?_ _ rfl rfl
      exact h.same rfl rfl

theorem w_getMemo {ex : St → BOp → St} (hex : Wex ex) {a st : St} (h : W a st) (m : Nat) :
    W a (getMemo ex st m) := by
  unfold getMemo
  split
  · simp only
    have key : ∀ S1 : St, W a S1 → ∀ v x, W a (St.lift { S1 with acc := x } (logEv · (Ev.g m v))) :=
      fun S1 h1 v x => h1.same rfl rfl
    apply key
    split
    · split
      · exact w_runMemo hex h _
      · exact h
    · exact h
  · exact h.lift _

theorem w_execWith {ex : St → BOp → St} (hex : Wex ex) : Wex (execWith ex) := by
  intro a st op h
  cases op with
  | read s => exact w_readSig h s
  | get m =>
    simp only [execWith]
    split
    · exact h
    · exact w_getMemo hex h _
  | cleanup tag => exact h.same rfl rfl
  | nested tag => exact h.same rfl rfl
  | item v => exact h.same rfl rfl
  | sig v => exact w_newSignal h v
  | provide ty v => exact h.same rfl rfl
  | use ty => exact h.same rfl rfl
  | take ty => exact h.same rfl rfl
  | update ty d => exact h.same rfl rfl
  | effect b => exact w_newEffect h b _
  | memo b => exact w_newMemo h b
  | newOwner => exact w_newOwnerHandle h
  | watch b hb imm => exact w_newEffect h b _
  | render b => exact w_newRender hex h b
  | async b => exact w_newAsync hex h b
  | imm b sc mutf => exact w_newImm hex h b sc mutf
  | write s v => exact w_writeSig hex h s v
  | spawn b cancel =>
    simp only [execWith]
    split
    · exact h
    · exact w_newTask h b cancel

theorem w_exec (f : Nat) : Wex (exec f) := by
  induction f with
  | zero =>
    intro a st op h
    simp only [exec]
    exact w_execWith (fun _ _ _ h => h) a st op h
  | succ n ih =>
    intro a st op h
    simp only [exec]
    exact w_execWith ih a st op h

theorem w_execBOp (a st : St) (op : BOp) (h : W a st) : W a (execBOp st op) := w_exec _ a st op h

/-! ### handler tokens under a non-empty owner stack -/

theorem addSource_toCore (st : St) (me : Sub) (s : Nat) : (addSource st me s).toCore = st.toCore := by
  unfold addSource
  split
  · split <;> rfl
  · split <;> rfl

theorem readSig_toCore (st : St) (s : Nat) : (readSig st s).toCore = st.toCore := by
  unfold readSig
  split
  · split
    · simp only
      split
      · split
        · rw [addSource_toCore]
        · rfl
      · rfl
    · rfl
  · rfl

theorem useCtx_cur (c : Core) (ty : Nat) : (useCtx c ty).cur = c.cur := by
  unfold useCtx; split <;> rfl

theorem newStored_cur (c : Core) (v : Int) : (newStored c v).cur = c.cur := by
  unfold newStored; exact newItem_cur c _

theorem w_execHandlerTok {a st : St} (h : W a st) (hc : st.cur ≠ []) (op : BOp) :
    W a (execHandlerTok st op) ∧ (execHandlerTok st op).cur ≠ [] := by
  have hne : st.cur.isEmpty = false := by
    cases hcur : st.cur with
    | nil => exact absurd hcur hc
    | cons _ _ => rfl
  cases op with
  | read s =>
    refine ⟨w_readSig h s, ?_⟩
    show (readSig st s).toCore.cur ≠ []
    rw [readSig_toCore]; exact hc
  | cleanup tag =>
    refine ⟨h.same (by simp [execHandlerTok, hne]) rfl, ?_⟩
    show (regCleanup st.toCore tag false none).cur ≠ []
    rw [(regCleanup_spec st.toCore tag false none).2.2]; exact hc
  | item v =>
    refine ⟨h.same (by simp [execHandlerTok, hne]) rfl, ?_⟩
    show (newStored st.toCore v).cur ≠ []
    rw [newStored_cur]; exact hc
  | sig v =>
    refine ⟨h.same (by simp [execHandlerTok, hne]) rfl, ?_⟩
    show (newItem st.toCore _).1.cur ≠ []
    rw [newItem_cur]; exact hc
  | use ty =>
    refine ⟨h.same (by simp [execHandlerTok, hne]) rfl, ?_⟩
    show (useCtx st.toCore ty).cur ≠ []
    rw [useCtx_cur]; exact hc
  | get m => exact ⟨h, hc⟩
  | nested tag => exact ⟨h, hc⟩
  | provide ty v => exact ⟨h, hc⟩
  | take ty => exact ⟨h, hc⟩
  | update ty d => exact ⟨h, hc⟩
  | effect b => exact ⟨h, hc⟩
  | memo b => exact ⟨h, hc⟩
  | newOwner => exact ⟨h, hc⟩
  | watch b hb imm => exact ⟨h, hc⟩
  | render b => exact ⟨h, hc⟩
  | async b => exact ⟨h, hc⟩
  | imm b sc mutf => exact ⟨h, hc⟩
  | write s v => exact ⟨h, hc⟩
  | spawn b cancel => exact ⟨h, hc⟩

theorem w_handlerFold (body : List BOp) {a st : St} (h : W a st) (hc : st.cur ≠ []) :
    W a (body.foldl execHandlerTok st) := by
  induction body generalizing st with
  | nil => exact h
  | cons op rest ih =>
    obtain ⟨h1, h2⟩ := w_execHandlerTok h hc op
    exact ih h1 h2

theorem w_runHandlerNew {a st : St} (h : W a st) (e o hb : Nat) : W a (runHandlerNew st e o hb) := by
  unfold runHandlerNew
  simp only
  have key : ∀ (body : List BOp) (S0 : St), W a S0 → S0.cur ≠ [] → ∀ S1 : St,
      S1.watchHit = (List.foldl execHandlerTok S0 body).watchHit →
      S1.legacyWatch = (List.foldl execHandlerTok S0 body).legacyWatch → W a S1 :=
    fun body S0 h0 hc S1 h1 h2 => (w_handlerFold body h0 hc).same h1 h2
  refine key _ _ ?_ ?_ _ rfl rfl
  · exact h.same rfl rfl
  · show o :: st.cur ≠ []
    exact List.cons_ne_nil _ _

theorem w_runHandler {a st : St} (ha : a.legacyWatch = false) (h : W a st) (e o hb : Nat) :
    W a (runHandler st e o hb) := by
  unfold runHandler
  have : st.legacyWatch = false := h.leg.trans ha
  simp only [this, Bool.false_eq_true, if_false]
  exact w_runHandlerNew h e o hb

theorem w_endTask {a st : St} (h : W a st) (e : Nat) : W a (endTask st e) := by
  unfold endTask
  split
  · refine w_releaseOwner ?_ _
    exact h.same rfl rfl
  · exact h

theorem w_prepRun {a st : St} (h : W a st) (e : Nat) (er : EffRec) : W a (prepRun st e er) := by
  unfold prepRun
  simp only
  split <;> exact h.same rfl rfl

theorem w_afterRun {a st : St} (ha : a.legacyWatch = false) (h : W a st) (e : Nat) (er : EffRec) :
    W a (afterRun st e er) := by
  unfold afterRun
  split
  · split
    · exact w_runHandler ha h _ _ _
    · exact h
  · exact h

theorem w_runEffect {a st : St} (ha : a.legacyWatch = false) (h : W a st) (e : Nat) (er : EffRec) :
    W a (runEffect st e er) := by
  unfold runEffect
  exact w_afterRun ha (w_runScoped w_execBOp (w_prepRun h _ _) _ _ _) _ _

theorem w_runSeg {ex : St → BOp → St} (hex : Wex ex) {a st : St} (h : W a st) (e : Nat) (er : EffRec) :
    W a (runSeg ex st e er) := by
  unfold runSeg
  simp only
  have key : ∀ (body : List BOp) (S0 : St), W a S0 → ∀ S1 : St,
      S1.watchHit = (List.foldl ex S0 body).watchHit → S1.legacyWatch = (List.foldl ex S0 body).legacyWatch →
      W a S1 := fun body S0 h0 S1 h1 h2 => (w_foldl _ hex body h0).same h1 h2
  refine key _ _ ?_ _ rfl rfl
  exact h.same rfl rfl

theorem w_finishTask {a st : St} (h : W a st) (e : Nat) : W a (finishTask st e) := by
  unfold finishTask
  split
  · refine w_releaseOwner ?_ _
    exact h.same rfl rfl
  · exact h

theorem w_afterSeg {a st : St} (h : W a st) (e : Nat) : W a (afterSeg st e) := by
  unfold afterSeg
  split
  · split
    · exact w_finishTask h _
    · exact h.same rfl rfl
  · exact h

theorem w_pollTask {a st : St} (h : W a st) (e : Nat) (er : EffRec) : W a (pollTask st e er) := by
  unfold pollTask
  split
  · exact w_finishTask h _
  · refine w_afterSeg (w_runSeg w_execBOp ?_ _ _) _
    exact h.same rfl rfl

theorem w_pollIter {a st : St} (ha : a.legacyWatch = false) (h : W a st) (e : Nat) : W a (pollIter st e) := by
  unfold pollIter
  split
  · exact h
  · split
    · exact h
    · split
      · exact w_pollTask h _ _
      · split
        · exact w_endTask h _
        · split
          · exact h.same rfl rfl
          · split
            · exact h.same rfl rfl
            · split
              · exact w_endTask (w_runEffect ha h _ _) _
              · exact w_runEffect ha h _ _

theorem w_rewake {a st : St} (h : W a st) (e : Nat) : W a (rewake st e) := by
  unfold rewake
  split
  · exact h.same rfl rfl
  · exact h

theorem w_pollLoop (n : Nat) {a st : St} (ha : a.legacyWatch = false) (h : W a st) (e : Nat) :
    W a (pollLoop n st e) := by
  induction n generalizing st with
  | zero => exact h
  | succ n ih =>
    simp only [pollLoop]
    split
    · exact w_rewake (ih (w_pollIter ha h e)) e
    · exact w_pollIter ha h e

theorem w_pollEff {a st : St} (ha : a.legacyWatch = false) (h : W a st) (e : Nat) : W a (pollEff st e) :=
  w_pollLoop _ ha h e

theorem w_pollNth {a st : St} (ha : a.legacyWatch = false) (h : W a st) (i : Nat) : W a (pollNth st i) := by
  unfold pollNth
  simp only
  split
  · exact w_pollEff ha h _
  · exact h

theorem w_runIdle (n : Nat) {a st : St} (ha : a.legacyWatch = false) (h : W a st) : W a (runIdle n st) := by
  induction n generalizing st with
  | zero => exact h
  | succ n ih =>
    simp only [runIdle]
    split
    · exact h
    · exact ih (w_pollNth ha h _)

theorem w_dropHandle (a st : St) (hd : Nat) (h : W a st) : W a (dropHandle st hd) := by
  unfold dropHandle
  split
  · refine w_releaseOwner ?_ _
    exact h.same rfl rfl
  · exact h

theorem w_runWc {a st : St} (h : W a st) (o b : Nat) : W a (runWc st o b) := by
  unfold runWc
  simp only
  have key : ∀ (body : List BOp) (S0 : St), W a S0 → ∀ S1 : St,
      S1.watchHit = (List.foldl execBOp S0 body).watchHit →
      S1.legacyWatch = (List.foldl execBOp S0 body).legacyWatch → W a S1 :=
    fun body S0 h0 S1 h1 h2 => (w_foldl _ w_execBOp body h0).same h1 h2
  refine key _ _ ?_ _ rfl rfl
  exact h.same rfl rfl

theorem w_disposeEff {a st st' : St} (h : W a st) {i : Nat} (hd : disposeEff st i = some st') : W a st' := by
  unfold disposeEff at hd
  split at hd
  · split at hd
    · simp only [Option.some.injEq] at hd; subst hd; exact h.same rfl rfl
    · split at hd
      · cases hd
      · split at hd
        · simp only [Option.some.injEq] at hd; subst hd
          refine w_releaseOwner ?_ _
          exact h.same rfl rfl
        · simp only [Option.some.injEq] at hd; subst hd; exact h.same rfl rfl
  · cases hd

theorem w_stepOp {a st st' : St} {op : Op} (ha : a.legacyWatch = false) (h : W a st)
    (hop : stepOp st op = some st') : W a st' := by
  cases op with
  | body b => simp only [stepOp, Option.some.injEq] at hop; subst hop; exact h.same rfl rfl
  | act ins x =>
    simp only [stepOp] at hop
    split at hop
    · cases hop
    · next os _ =>
      have h1 : W a (st.lift (pushAll · os)) := h.lift _
      cases x with
      | x b =>
        simp only [Option.map_some, Option.some.injEq] at hop; subst hop
        exact (w_execBOp a _ b h1).lift _
      | cleanup hh =>
        simp only at hop
        split at hop
        · simp only [Option.map_some, Option.some.injEq] at hop; subst hop
          exact (h1.lift _).lift _
        · simp at hop
      | wc hh b =>
        simp only at hop
        split at hop
        · next o _ =>
          simp only [Option.map_some, Option.some.injEq] at hop; subst hop
          exact (w_runWc h1 o b).lift _
        · simp at hop
  | child hh =>
    simp only [stepOp] at hop
    split at hop
    · simp only [Option.some.injEq] at hop; subst hop; exact h.same rfl rfl
    · cases hop
  | drop hh =>
    simp only [stepOp] at hop
    split at hop
    · simp only [Option.some.injEq] at hop; subst hop; exact w_dropHandle _ _ _ h
    · cases hop
  | dispose k i =>
    cases k with
    | e => simp only [stepOp] at hop; exact w_disposeEff h hop
    | i =>
      simp only [stepOp] at hop
      split at hop
      · simp only [Option.some.injEq] at hop; subst hop; exact h.lift _
      · cases hop
    | s =>
      simp only [stepOp] at hop
      split at hop
      · simp only [Option.some.injEq] at hop; subst hop; exact h.lift _
      · cases hop
    | m =>
      simp only [stepOp] at hop
      split at hop
      · simp only [Option.some.injEq] at hop; subst hop; exact h.lift _
      · cases hop
  | set s v =>
    simp only [stepOp] at hop
    split at hop
    · simp only [Option.some.injEq] at hop; subst hop; exact w_setSig w_execBOp h _ _
    · cases hop
  | pause hh =>
    simp only [stepOp] at hop
    split at hop
    · simp only [Option.some.injEq] at hop; subst hop; exact h.lift _
    · cases hop
  | resume hh =>
    simp only [stepOp] at hop
    split at hop
    · simp only [Option.some.injEq] at hop; subst hop; exact h.lift _
    · cases hop
  | poll i => simp only [stepOp, Option.some.injEq] at hop; subst hop; exact w_pollNth ha h _
  | idle => simp only [stepOp, Option.some.injEq] at hop; subst hop; exact w_runIdle _ ha h
  | «end» =>
    simp only [stepOp, Option.some.injEq] at hop; subst hop
    exact w_runIdle _ ha (w_foldl _ w_dropHandle _ h)

theorem w_runOps {a st : St} (ha : a.legacyWatch = false) (h : W a st) (ops : List Op) :
    W a (runOps st ops) := by
  induction ops generalizing st with
  | nil => exact h
  | cons op rest ih =>
    simp only [runOps]
    cases hop : stepOp st op with
    | none => simpa using ih h
    | some st' => simpa using ih (w_stepOp ha h hop)

end Leptos.Owner
