/-!
# Model/Stream — the `StreamBuilder` state machine of tachys (C07)

Strings are `Str = List Char` (same convention as Model/Html).  Everything is total, computable
and structurally recursive (the self-recursion of `poll_next` takes a fuel argument; `fuelFor`
computes a sufficient amount, Theorems/C07 proves it sufficient).

## Source map (tachys/src/ssr/mod.rs unless stated otherwise)
* `Builder`                — `struct StreamBuilder {sync_buf, chunks, pending, pending_ooo, id}`
* `Chunk`                  — `enum StreamChunk {Sync, Async{chunks}, OutOfOrder{chunks}}`; a future is represented
                              by *what it will do once it is ready* (`PendAsync`/`PendOoo`: the captured id and
                              the builder program of the sub-builder) plus `Fut`, the condition under which the
                              environment makes it ready.
* `Builder.pushSync`       — `push_sync`
* `Builder.pushAsync`      — `push_async` (flushes `sync_buf` first)
* `Builder.takeChunks`     — `take_chunks`
* `Builder.append`         — `append` after the repairs fix-c07-2/3: `self.sync_buf` is flushed into `chunks` first when
                              `other` holds an in-order chunk (any chunk that is not `OutOfOrder`), then `other.chunks`
                              and `other.sync_buf` are appended, and `other.id` (its `next_id()` state) is taken over.
                              `Builder.appendOld` is the code before the repairs (no flush: F-C07-2; id dropped: F-C07-3).
* `Builder.finish`         — `finish`
* `Builder.nextId`/`childId`/`writeMarker` — `next_id`, `child_id`, `write_chunk_marker`
* `Builder.pushFallback`   — `push_fallback` (the fallback view is already rendered to a string)
* `Builder.pushOoo`        — `push_async_out_of_order_with_nonce` (no flush; captures `clone_id()`)
* `resolveOoo`             — the `async move` block inside `push_async_out_of_order_with_nonce`
                              (sub-builder `new(id)`, id string from the pieces, `id.push(0)`, `replace = view.is_some()`,
                              `finish().take_chunks()`)
* `resolveAsync`           — the `async move` block of `Suspend`/`SuspenseBoundary::to_html_async_with_buf::<false>`
                              (tachys/src/reactive_graph/suspense.rs, leptos/src/suspense_component.rs):
                              `StreamBuilder::new(id)`, render, `finish().take_chunks()`
* `pushStart`, `pushEnd`   — `OooChunk::push_start`, `OooChunk::push_end_with_nonce` (the inline script text verbatim)
* `pollStep` / `pollNext`  — `impl Stream for StreamBuilder :: poll_next`, branch for branch.  Every `self.poll_next(cx)` of
                              the source is a tail call, so one activation is `pollStep` (`Step.ret` = return,
                              `Step.cont` = call again on the new state; `oooReadyStep` = the `Poll::Ready(OooChunk{..})` arm,
                              `yieldStep` = "yield `sync_buf` if non-empty") and `pollNext fuel` iterates it:
    - `pending` set: poll it; ready ⇒ `for chunk in chunks.into_iter().rev() { chunks.push_front(chunk) }`
      (`pushFrontAll`), recurse;
    - `chunks.pop_front()`:
        `None`      ⇒ `pending_ooo.pop_front()`: ready ⇒ look for the opening marker **in `sync_buf`**:
                        found ⇒ in-place replacement (`spliceInPlace`: `.rev()` iteration, sync chunks appended in
                        that (reversed) order, other chunks `held.push_front` then `chunks.push_front` one by one;
                        `replace = false` keeps the fallback text — fix-c07-5, `inPlaceBufOld` is the old text);
                        not found ⇒ `push_start`, `.rev()` iteration appending sync chunks / `push_front` of the
                        others (`spliceTemplate`; loop body of both = `spliceFn`), `push_end_with_nonce`; recurse.
                        not ready ⇒ `push_back` (rotation), yield `sync_buf` if non-empty else `Pending`;
                        no pending ooo ⇒ yield `sync_buf` if non-empty else `Ready(None)`;
        `Sync(v)`   ⇒ append, then the coalescing `loop` (`coalesce`: stops at an `Async` which is pushed back,
                        or at an `OutOfOrder` which is moved to `pending_ooo`), recurse;
        `Async`     ⇒ becomes `pending`; yield `sync_buf` if non-empty else recurse;
        `OutOfOrder`⇒ `pending_ooo.push_back`; yield `sync_buf` if non-empty else recurse.
      `find(&closing).unwrap()` and the `end - start` subtraction are modelled by `Poll.panic`.
* `Op` (builder programs)  — what a view does to a `StreamBuilder` in `to_html_async_with_buf`: `sync` = `push_sync`/
                              `with_buf`, `async` = `push_async`, `fallback`+`ooo` = `push_fallback` +
                              `push_async_out_of_order(_with_nonce)`, `nextId` = `next_id`,
                              `sub` = leptos/src/error_boundary.rs (`StreamBuilder::new(buf.clone_id())`, render children,
                              `buf.append(new_buf)`), `ite` = `fut.now_or_never()` in `Suspend::to_html_async_with_buf`,
                              `finish` = `*buf = mem::take(buf).finish()` in the middle of a program (API use only).
* `View`, `compile`        — the view grammar of the correspondence harness and the rules of
                              `to_html_async_with_buf::<OUT_OF_ORDER>` for it:
                              element/tuple/`Vec` (tachys/src/html/element/mod.rs, view/tuples.rs, view/iterators.rs) are
                              `raw`/`seq`; `Suspend` (suspense.rs: `now_or_never`, `use_context::<SuspenseContext>()`,
                              `next_id`, fallback `()` = `<!>`); `Suspense`/`Transition`/`Await`
                              (leptos/src/suspense_component.rs, transition.rs, await_.rs: `next_id`, future =
                              tasks-empty effect then `children.resolve()`; a `LocalResource` read under the boundary
                              fires its `LocalResourceNotifier`: at once (`localNow`: the fallback is rendered in place)
                              or after a future (`localWait`: the view future resolves to `None`, `replace = false`);
                              server resources read synchronously (`resRead`) or awaited in a `Suspend` (`resSuspend`)
                              are tasks the boundary waits for — if it sees them while it walks its children
                              (`dry_resolve`): `compileA` carries the resources that had loaded by then (`was`,
                              `iteTree` over `guardsOf`), a read first evaluated during `children.resolve()` is late
                              (F-C07-6, `noLate`)); `ErrorBoundary`.  Islands (`Island`, `IslandChildren`), branch
                              markers (`to_html_stream_*_branching`) and a provided nonce are text / the `nonce`
                              argument of `suspense` as far as the stream goes: Driver/C07 `parseViews`.
* `applyScripts`           — the browser side of out-of-order streaming, as the emitted script does it:
                              a `<template id="{id}f">` … `</template><script…>…</script>` block is taken out of the
                              text; `open`/`close` are the **last** comments `s-{id}o` / `s-{id}c` of the document so
                              far; `tpl = getElementById` = the **first** template with that id; `replace` ⇒ the range
                              from before `open` to before `close` is deleted (a collapsed range if `close` precedes
                              `open`), the template content inserted before `close`, `close` removed; otherwise both
                              comments are removed.  A missing comment makes `setStartBefore(undefined)` throw: no change.
                              String level: markers are assumed to be siblings (a range is a substring) and the inert
                              `<template>`/`<script>` elements, which stay in the real DOM, are dropped from the text.

Environment: `Env.done` = base futures (oneshot channels) completed so far, `Env.now` = number of the current
`poll_next` call.  `Fut.tick` marks a future that also needs one executor turn after its creation (the
`Effect::new_isomorphic` of `SuspenseBoundary`, the task of a resource): the harness drains the executor
between stream polls, so such a future is ready from the poll *after* the one that created it.

Not modelled: `u16` overflow of `next_id`, `mark_branches`, `extra_attrs`, `Position`.
-/
namespace Leptos.Stream

abbrev Str := List Char
abbrev FId := Nat
abbrev Id := Option (List Nat)

/-! ## strings -/

/-- `str::find` + `split_at`: the text before the first occurrence of `pat` and the text after it -/
def splitFirst (pat : Str) : Str → Option (Str × Str)
  | [] => if pat.isEmpty then some ([], []) else none
  | c :: s =>
    if pat.isPrefixOf (c :: s) then some ([], (c :: s).drop pat.length)
    else match splitFirst pat s with
      | some (a, b) => some (c :: a, b)
      | none => none

/-- `str::rfind`-style split (the last occurrence) -/
def splitLast (pat : Str) (s : Str) : Option (Str × Str) :=
  match splitFirst pat.reverse s.reverse with
  | some (a, b) => some (b.reverse, a.reverse)
  | none => none

def contains (pat s : Str) : Bool := (splitFirst pat s).isSome

def natStr (n : Nat) : Str := (Nat.repr n).toList

/-- `for piece in ids { write!("{}-", piece) }` -/
def piecesStr : List Nat → Str
  | [] => []
  | p :: ps => natStr p ++ '-' :: piecesStr ps

def idStr : Id → Str
  | none => []
  | some ids => piecesStr ids

def opening (id : Str) : Str := "<!--s-".toList ++ id ++ "o-->".toList
def closing (id : Str) : Str := "<!--s-".toList ++ id ++ "c-->".toList

def pushStart (id : Str) : Str := "<template id=\"".toList ++ id ++ "f\">".toList

def scriptHead : Str :=
  "\";let open = undefined;let close = undefined;let walker = document.createTreeWalker(document.body, NodeFilter.SHOW_COMMENT);while(walker.nextNode()) {if(walker.currentNode.textContent == `s-${id}o`){ open=walker.currentNode; } else if(walker.currentNode.textContent == `s-${id}c`) { close = walker.currentNode;}}let range = new Range(); range.setStartBefore(open); range.setEndBefore(close);".toList
def scriptReplace : Str :=
  "range.deleteContents(); let tpl = document.getElementById(`${id}f`); close.parentNode.insertBefore(tpl.content.cloneNode(true), close);close.remove();".toList
def scriptKeep : Str := "close.remove();open.remove();".toList

def pushEnd (replace : Bool) (id : Str) (nonce : Option Str) : Str :=
  "</template>".toList ++
  (match nonce with
   | some n => "<script nonce=\"".toList ++ n ++ "\">(function() { let id = \"".toList
   | none => "<script>(function() { let id = \"".toList) ++
  id ++ scriptHead ++ (if replace then scriptReplace else scriptKeep) ++ "})()</script>".toList

/-! ## futures, programs, chunks -/

/-- when the environment makes a future ready: all `deps` completed, and (if `tick`) one executor turn
    after its creation; `started`: only once the executor has run at all (the tasks spawned before the first render
    — the loaders of the resources — have not run while the view is first rendered) -/
structure Fut where
  deps : List FId
  tick : Bool
  started : Bool := false
  deriving DecidableEq, Repr, Inhabited

structure Env where
  done : List FId
  now : Nat
  deriving Repr

def Fut.ready (env : Env) (fut : Fut) (born : Nat) : Bool :=
  fut.deps.all (fun d => env.done.contains d) && (!fut.tick || born < env.now) && (!fut.started || 0 < env.now)

/-- a builder program: the calls a view makes on a `StreamBuilder` -/
inductive Op where
  | sync (s : Str)
  | async (fut : Fut) (body : List Op)
  | fallback (s : Str)
  | ooo (fut : Fut) (replace : Bool) (body : List Op) (nonce : Option Str)
  | nextId
  | sub (body : List Op)
  | ite (fut : Fut) (t e : List Op)
  | finish
  deriving Repr, Inhabited

structure PendAsync where
  fut : Fut
  born : Nat
  id : Id
  body : List Op
  deriving Repr, Inhabited

structure PendOoo where
  fut : Fut
  born : Nat
  id : Id
  replace : Bool
  body : List Op
  nonce : Option Str
  deriving Repr, Inhabited

inductive Chunk where
  | sync (s : Str)
  | async (p : PendAsync)
  | ooo (p : PendOoo)
  deriving Repr, Inhabited

structure OooChunk where
  id : Str
  chunks : List Chunk
  replace : Bool
  nonce : Option Str

structure Builder where
  syncBuf : Str := []
  chunks : List Chunk := []
  pending : Option PendAsync := none
  pendingOoo : List PendOoo := []
  id : Id := none
  deriving Repr, Inhabited

def Chunk.isOoo : Chunk → Bool
  | Chunk.ooo _ => true
  | _ => false

namespace Builder

def new (id : Id) : Builder := { id := id }

def pushSync (b : Builder) (s : Str) : Builder := { b with syncBuf := b.syncBuf ++ s }

/-- `let sync = mem::take(&mut self.sync_buf); if !sync.is_empty() { chunks.push_back(Sync(sync)) }` -/
def flushed (b : Builder) : List Chunk :=
  if b.syncBuf.isEmpty then b.chunks else b.chunks ++ [Chunk.sync b.syncBuf]

def pushAsync (b : Builder) (p : PendAsync) : Builder :=
  { b with syncBuf := [], chunks := b.flushed ++ [Chunk.async p] }

def takeChunks (b : Builder) : List Chunk := b.flushed

/-- `append` before fix-c07-2 / fix-c07-3 -/
def appendOld (b other : Builder) : Builder :=
  { b with chunks := b.chunks ++ other.chunks, syncBuf := b.syncBuf ++ other.syncBuf }

def append (b other : Builder) : Builder :=
  let b := if other.chunks.any (fun c => !c.isOoo) then { b with syncBuf := [], chunks := b.flushed } else b
  { b with chunks := b.chunks ++ other.chunks, syncBuf := b.syncBuf ++ other.syncBuf,
           id := if other.id.isSome then other.id else b.id }

/-- `finish`: the rest of `sync_buf` is merged into a trailing `Sync` chunk or pushed as a new one -/
def finishChunks : List Chunk → Str → List Chunk
  | [], rest => [Chunk.sync rest]
  | [Chunk.sync buf], rest => [Chunk.sync (buf ++ rest)]
  | [c], rest => [c, Chunk.sync rest]
  | c :: c' :: cs, rest => c :: finishChunks (c' :: cs) rest

def finish (b : Builder) : Builder :=
  if b.syncBuf.isEmpty then b
  else { b with syncBuf := [], chunks := finishChunks b.chunks b.syncBuf }

/-- `if let Some(last) = ids.last_mut() { *last += 1 }` -/
def bumpLast : List Nat → List Nat
  | [] => []
  | [n] => [n + 1]
  | n :: m :: r => n :: bumpLast (m :: r)

def nextId (b : Builder) : Builder := { b with id := b.id.map bumpLast }

def childId (b : Builder) : Id := b.id.map (· ++ [0])

def writeMarker (b : Builder) (open_ : Bool) : Builder :=
  match b.id with
  | none => b
  | some ids =>
    { b with syncBuf := b.syncBuf ++ "<!--s-".toList ++ piecesStr ids ++ (if open_ then "o-->".toList else "c-->".toList) }

def pushFallback (b : Builder) (s : Str) : Builder :=
  let b := b.writeMarker true
  let b := { b with syncBuf := b.syncBuf ++ s }
  b.writeMarker false

def pushOoo (b : Builder) (p : PendOoo) : Builder := { b with chunks := b.chunks ++ [Chunk.ooo p] }

end Builder

/-! ## running a program against a builder -/

mutual
def execOp (env : Env) : Op → Builder → Builder
  | .sync s, b => b.pushSync s
  | .async fut body, b => b.pushAsync { fut := fut, born := env.now, id := b.id, body := body }
  | .fallback s, b => b.pushFallback s
  | .ooo fut replace body nonce, b =>
    b.pushOoo { fut := fut, born := env.now, id := b.id, replace := replace, body := body, nonce := nonce }
  | .nextId, b => b.nextId
  | .sub body, b => b.append (execOps env body (Builder.new b.id))
  | .ite fut t e, b => if fut.ready env env.now then execOps env t b else execOps env e b
  | .finish, b => b.finish
def execOps (env : Env) : List Op → Builder → Builder
  | [], b => b
  | o :: os, b => execOps env os (execOp env o b)
end

/-- the future pushed by `push_async`, once ready -/
def resolveAsync (env : Env) (p : PendAsync) : List Chunk :=
  ((execOps env p.body (Builder.new p.id)).finish).takeChunks

/-- the future pushed by `push_async_out_of_order_with_nonce`, once ready -/
def resolveOoo (env : Env) (p : PendOoo) : OooChunk :=
  let sub := Builder.new p.id
  let idS := idStr sub.id
  let sub := { sub with id := sub.id.map (· ++ [0]) }
  let sub := if p.replace then execOps env p.body sub else sub
  { id := idS, chunks := sub.finish.takeChunks, replace := p.replace, nonce := p.nonce }

/-! ## `poll_next` -/

inductive Poll where
  | pending
  | item (s : Str)
  | done
  | panic
  | stuck
  deriving Repr, DecidableEq, Inhabited

/-- `for chunk in xs.into_iter().rev() { deque.push_front(chunk) }` -/
def pushFrontAll (xs : List Chunk) (deque : List Chunk) : List Chunk :=
  xs.reverse.foldl (fun d c => c :: d) deque

/-- the coalescing `loop` after a `Sync` chunk was popped -/
def coalesce : Str → List Chunk → List PendOoo → Str × List Chunk × List PendOoo
  | buf, [], po => (buf, [], po)
  | buf, Chunk.async p :: cs, po => (buf, Chunk.async p :: cs, po)
  | buf, Chunk.ooo p :: cs, po => (buf, cs, po ++ [p])
  | buf, Chunk.sync s :: cs, po => coalesce (buf ++ s) cs po

/-- the body of both `for chunk in chunks.rev()` loops: a `Sync` chunk is appended to the text,
    any other chunk is `push_front`ed -/
def spliceFn (acc : Str × List Chunk) (c : Chunk) : Str × List Chunk :=
  match c with
  | Chunk.sync r => (acc.1 ++ r, acc.2)
  | c => (acc.1, c :: acc.2)

/-- marker found: `for chunk in chunks.rev() { Sync ⇒ buf.push_str, other ⇒ held.push_front }` -/
def spliceInPlace (chunks : List Chunk) : Str × List Chunk :=
  chunks.reverse.foldl spliceFn ([], [])

/-- marker not found: `for chunk in chunks.rev() { Sync ⇒ sync_buf.push_str, other ⇒ this.chunks.push_front }` -/
def spliceTemplate (chunks : List Chunk) (buf : Str) (deque : List Chunk) : Str × List Chunk :=
  chunks.reverse.foldl spliceFn (buf, deque)

/-- what one activation of `poll_next` does: return (`ret`) or call itself again on the new state (`cont`);
    every `self.poll_next(cx)` of the source is a tail call -/
inductive Step where
  | ret (p : Poll) (b : Builder)
  | cont (b : Builder)

def yieldStep (b : Builder) (ifEmpty : Poll) : Step :=
  if b.syncBuf.isEmpty then Step.ret ifEmpty b else Step.ret (Poll.item b.syncBuf) { b with syncBuf := [] }

/-- the in-place branch before fix-c07-5: `replace` was not consulted, the fallback was always deleted -/
def inPlaceBufOld (before syncs after : Str) : Str := before ++ syncs ++ after

/-- `pending_ooo.pop_front()` returned a ready future `p` (already removed from `b.pendingOoo`).
    In place (fix-c07-5): `buf = before; if !replace { buf += replaced[opening.len()..end - start] }` — a `None` view
    keeps its fallback and loses only the markers, as in the inline script (that slice panics when the closing
    marker starts inside the opening one). -/
def oooReadyStep (env : Env) (b : Builder) (p : PendOoo) : Step :=
  let r := resolveOoo env p
  match splitFirst (opening r.id) b.syncBuf with
  | some (before, _) =>
    match splitFirst (closing r.id) b.syncBuf with
    | none => Step.ret Poll.panic b
    | some (beforeC, after) =>
      if beforeC.length < before.length then Step.ret Poll.panic b
      else if !r.replace && beforeC.length < before.length + (opening r.id).length then Step.ret Poll.panic b
      else
        let kept := if r.replace then [] else beforeC.drop (before.length + (opening r.id).length)
        let sh := spliceInPlace r.chunks
        Step.cont { b with syncBuf := before ++ kept ++ sh.1 ++ after,
                           chunks := sh.2.foldl (fun d c => c :: d) b.chunks }
  | none =>
    let bd := spliceTemplate r.chunks (b.syncBuf ++ pushStart r.id) b.chunks
    Step.cont { b with syncBuf := bd.1 ++ pushEnd r.replace r.id r.nonce, chunks := bd.2 }

def pollStep (env : Env) (b : Builder) : Step :=
  match b.pending with
  | some p =>
    if p.fut.ready env p.born then
      Step.cont { b with pending := none, chunks := pushFrontAll (resolveAsync env p) b.chunks }
    else Step.ret Poll.pending b
  | none =>
    match b.chunks with
    | [] =>
      match b.pendingOoo with
      | p :: rest =>
        if p.fut.ready env p.born then oooReadyStep env { b with pendingOoo := rest } p
        else yieldStep { b with pendingOoo := rest ++ [p] } Poll.pending
      | [] => yieldStep b Poll.done
    | Chunk.sync v :: cs =>
      let r := coalesce (b.syncBuf ++ v) cs b.pendingOoo
      Step.cont { b with syncBuf := r.1, chunks := r.2.1, pendingOoo := r.2.2 }
    | Chunk.async p :: cs =>
      let b := { b with chunks := cs, pending := some p }
      if b.syncBuf.isEmpty then Step.cont b else Step.ret (Poll.item b.syncBuf) { b with syncBuf := [] }
    | Chunk.ooo p :: cs =>
      let b := { b with chunks := cs, pendingOoo := b.pendingOoo ++ [p] }
      if b.syncBuf.isEmpty then Step.cont b else Step.ret (Poll.item b.syncBuf) { b with syncBuf := [] }

def pollNext : Nat → Env → Builder → Poll × Builder
  | 0, _, b => (Poll.stuck, b)
  | fuel + 1, env, b =>
    match pollStep env b with
    | Step.ret p b' => (p, b')
    | Step.cont b' => pollNext fuel env b'

/-! ## fuel -/

mutual
def opSize : Op → Nat
  | .sync _ => 1
  | .async _ body => 4 + opsSize body
  | .fallback _ => 1
  | .ooo _ _ body _ => 4 + opsSize body
  | .nextId => 1
  | .sub body => 1 + opsSize body
  | .ite _ t e => 1 + opsSize t + opsSize e
  | .finish => 1
def opsSize : List Op → Nat
  | [] => 0
  | o :: os => opSize o + opsSize os
end

def chunkSize : Chunk → Nat
  | .sync _ => 2
  | .async p => 2 * opsSize p.body + 5
  | .ooo p => 2 * opsSize p.body + 5

/-- an upper bound on the recursion depth of one `poll_next` call -/
def Builder.fuelFor (b : Builder) : Nat :=
  (b.chunks.map chunkSize).sum
  + (match b.pending with | some p => 2 * opsSize p.body + 4 | none => 0)
  + (b.pendingOoo.map (fun p => 2 * opsSize p.body + 4)).sum + 2

/-! ## streams: a schedule is, per `poll_next` call, the base futures completed just before it -/

structure Run where
  b : Builder
  done : List FId := []
  now : Nat := 0
  out : List Poll := []
  dead : Bool := false

/-- one `poll_next` call after the futures `newly` completed -/
def Run.poll (r : Run) (newly : List FId) : Run :=
  let done := r.done ++ newly
  if r.dead then { r with done := done, out := r.out ++ [Poll.panic] } else
  let env : Env := { done := done, now := r.now + 1 }
  let (p, b) := pollNext r.b.fuelFor env r.b
  { b := b, done := done, now := r.now + 1, out := r.out ++ [p], dead := p == Poll.panic || p == Poll.stuck }

def Run.polls (r : Run) : List (List FId) → Run
  | [] => r
  | n :: ns => (r.poll n).polls ns

/-- poll with nothing new until `done` (at most `n` times) -/
def Run.drain (r : Run) : Nat → Run
  | 0 => r
  | n + 1 =>
    match r.out.getLast? with
    | some Poll.done => r
    | some Poll.panic => r
    | some Poll.stuck => r
    | _ => (r.poll []).drain n

def itemsOf : List Poll → Str
  | [] => []
  | Poll.item s :: ps => s ++ itemsOf ps
  | _ :: ps => itemsOf ps

/-- `view.to_html_stream_in_order()` / `to_html_stream_out_of_order()` (tachys/src/view/mod.rs):
    `StreamBuilder::with_capacity(_, None | Some(vec![0]))`, render, `finish()`; rendering happens before the
    first poll (`now = 0`) with nothing completed unless `done0` says so -/
def startStream (ooo : Bool) (done0 : List FId) (prog : List Op) : Run :=
  let b := Builder.new (if ooo then some [0] else none)
  { b := (execOps { done := done0, now := 0 } prog b).finish, done := done0 }

/-! ## the client side of out-of-order streaming -/

def removeFirst (pat s : Str) : Str :=
  match splitFirst pat s with
  | some (a, b) => a ++ b
  | none => s

/-- what one inline script does to the document text `dom` -/
def applyOne (dom id : Str) (replace : Bool) (tpl : Option Str) : Str :=
  match splitLast (opening id) dom, splitLast (closing id) dom with
  | some (beforeO, _), some (beforeC, afterC) =>
    if replace then
      match tpl with
      | none => dom   -- `tpl.content` of `null` throws after `deleteContents()`; not reachable: the template precedes its script
      | some content =>
        if beforeC.length < beforeO.length then beforeC ++ content ++ afterC
        else beforeO ++ content ++ afterC
    else
      -- close.remove(); open.remove()
      let dom := beforeC ++ afterC
      match splitLast (opening id) dom with
      | some (a, b) => a ++ b
      | none => dom
  | _, _ => dom

def lookupTpl (id : Str) : List (Str × Str) → Option Str
  | [] => none
  | (k, v) :: r => if k == id then some v else lookupTpl id r

/-- `let id = "…"` of a script body -/
def scriptId (script : Str) : Option Str :=
  match splitFirst "let id = \"".toList script with
  | some (_, rest) => (splitFirst "\"".toList rest).map (·.1)
  | none => none

/-- process the stream text left to right; `fuel` bounds the number of template blocks -/
def applyScriptsAux : Nat → Str → List (Str × Str) → Str → Str
  | 0, dom, _, input => dom ++ input
  | fuel + 1, dom, tpls, input =>
    match splitFirst "<template id=\"".toList input with
    | none => dom ++ input
    | some (pre, rest) =>
      match splitFirst "\">".toList rest with
      | none => dom ++ input
      | some (tid, rest2) =>
        match splitFirst "</template>".toList rest2 with
        | none => dom ++ input
        | some (content, rest3) =>
          match splitFirst "</script>".toList rest3 with
          | none => dom ++ input
          | some (script, rest4) =>
            let tpls := tpls ++ [(tid, content)]
            let dom := dom ++ pre
            match scriptId script with
            | none => applyScriptsAux fuel dom tpls rest4
            | some id =>
              let replace := contains "range.deleteContents()".toList script
              applyScriptsAux fuel (applyOne dom id replace (lookupTpl (id ++ ['f']) tpls)) tpls rest4

def applyScripts (s : Str) : Str := applyScriptsAux s.length [] [] s

/-! ## documents: what the fully resolved program renders to -/

mutual
/-- in-order reading: every future's body in place -/
def docOp : Op → Str
  | .sync s => s
  | .async _ body => docOps body
  | .fallback s => s
  | .ooo _ _ _ _ => []
  | .nextId => []
  | .sub body => docOps body
  | .ite _ t _ => docOps t
  | .finish => []
def docOps : List Op → Str
  | [] => []
  | o :: os => docOp o ++ docOps os
end

mutual
/-- out-of-order reading: a `fallback` directly followed by its `ooo` is replaced by the body
    (or stays, without markers, when `replace = false`) -/
def oooDocOp : Op → Str
  | .sync s => s
  | .async _ body => oooDocOps body
  | .fallback s => s
  | .ooo _ _ _ _ => []
  | .nextId => []
  | .sub body => oooDocOps body
  | .ite _ t _ => oooDocOps t
  | .finish => []
def oooDocOps : List Op → Str
  | [] => []
  | .fallback s :: .ooo _ replace body _ :: os => (if replace then oooDocOps body else s) ++ oooDocOps os
  | o :: os => oooDocOp o ++ oooDocOps os
end

/-! ## views (the correspondence grammar) and their rendering rules -/

inductive View where
  | raw (s : Str)
  | seq (vs : List View)
  | suspend (f : FId) (v : View)
  | suspense (fb : Str) (nonce : Option Str) (vs : List View)
  | eb (vs : List View)
  /-- `Suspend::new(async { res.await; v })` awaiting a server resource (`OnceResource`/`Resource`/`AsyncDerived`) -/
  | resSuspend (f : FId) (v : View)
  /-- `move || res.get().map(|_| v)`: a server resource read synchronously (meant for the children of a boundary) -/
  | resRead (once : Bool) (f : FId) (v : View)
  /-- a `LocalResource` read synchronously, or awaited first thing in a `Suspend`, by the children of a boundary:
      the boundary's `LocalResourceNotifier` fires during `children.dry_resolve()` -/
  | localRead
  /-- `Suspend::new(async { rx_f.await; local.await; … })`: the notifier fires once `f` has completed -/
  | localAwait (f : FId)
  deriving Repr, Inhabited

/-- where a view is rendered: outside every `Suspense` (`top`), as the children a `Suspense` walks and then resolves
    (`direct`), or inside the output of a `Suspend` / of a resource read among them (`nested`: since fix-c07-4
    `children.resolve()` resolves every `Suspend` there too, but a *synchronous* resource read there is evaluated for
    the first time during that resolution — F-C07-6).  `compileOld` is the code before fix-c07-4. -/
inductive Ctx where
  | top | direct | nested
  deriving DecidableEq, Repr

mutual
/-- the base futures a `Suspense` waits for: the server resources its children read while it walks them
    (`dry_resolve`; `late = false`) and every `Suspend` that `children.resolve()` meets.  A resource read that is first
    evaluated during that resolution (`late = true`) registers its task too late — the boundary does not wait for it
    (F-C07-6); its output is taken to be synchronous.  A read is late when it sits in the output of a `Suspend`
    (`Suspend::dry_resolve` polls the future but does not walk its output) or in the `.map` output of another read whose
    resource had not loaded when the boundary walked its children (`was`: the futures that had completed by then —
    `Option::dry_resolve` walks a `Some`). -/
def depsOf (was : List FId) : Bool → View → List FId
  | _, .raw _ => []
  | late, .seq vs => depsOfL was late vs
  | _, .suspend f v => f :: depsOf was true v
  | _, .suspense _ _ _ => []
  | late, .eb vs => depsOfL was late vs
  | _, .resSuspend f v => f :: depsOf was true v
  | false, .resRead once f v => f :: depsOf was (!was.contains f) v
  | true, .resRead _ _ _ => []
  | _, .localRead => []
  | _, .localAwait _ => []
def depsOfL (was : List FId) : Bool → List View → List FId
  | _, [] => []
  | late, v :: vs => depsOf was late v ++ depsOfL was late vs
end

def directDeps (v : View) : List FId := depsOf [] false v
def directDepsL (vs : List View) : List FId := depsOfL [] false vs

mutual
/-- a synchronous server-resource read somewhere in the part of the view one boundary is responsible for -/
def hasRead : View → Bool
  | .raw _ => false
  | .seq vs => hasReadL vs
  | .suspend _ v => hasRead v
  | .suspense _ _ _ => false
  | .eb vs => hasReadL vs
  | .resSuspend _ v => hasRead v
  | .resRead _ _ _ => true
  | .localRead => false
  | .localAwait _ => false
def hasReadL : List View → Bool
  | [] => false
  | v :: vs => hasRead v || hasReadL vs
end

mutual
/-- the resources whose state, at the moment the boundary walks its children, decides which reads it sees: those read
    in walked position whose `.map` output reads again -/
def guardsOf : View → List (FId × Bool)
  | .raw _ => []
  | .seq vs => guardsOfL vs
  | .suspend _ _ => []
  | .suspense _ _ _ => []
  | .eb vs => guardsOfL vs
  | .resSuspend _ _ => []
  | .resRead once f v => (if hasRead v then [(f, once)] else []) ++ guardsOf v
  | .localRead => []
  | .localAwait _ => []
def guardsOfL : List View → List (FId × Bool)
  | [] => []
  | v :: vs => guardsOf v ++ guardsOfL vs
end

/-- branch on which of the resources `gs` have loaded now (`k` gets those that have, added to `was`).  A `Resource` /
    `AsyncDerived` polls its future once where it is created, so it has loaded if its future had completed by then; the
    loader of an `OnceResource` is a spawned task: it has loaded only if the executor has run since (`started`). -/
def iteTree : List (FId × Bool) → List FId → (List FId → List Op) → List Op
  | [], was, k => k was
  | (g, once) :: gs, was, k =>
    [Op.ite { deps := [g], tick := false, started := once } (iteTree gs (g :: was) k) (iteTree gs was k)]

mutual
/-- a `LocalResource` is read while the boundary walks its children (`dry_resolve`): the boundary renders its
    fallback at once (`Some(None) => Either::Left(self.fallback)`, leptos/src/suspense_component.rs) -/
def localNow : View → Bool
  | .raw _ => false
  | .seq vs => localNowL vs
  | .suspend _ _ => false
  | .suspense _ _ _ => false
  | .eb vs => localNowL vs
  | .resSuspend _ _ => false
  | .resRead _ _ _ => false
  | .localRead => true
  | .localAwait _ => false
def localNowL : List View → Bool
  | [] => false
  | v :: vs => localNow v || localNowL vs
end

mutual
/-- the future after which a `LocalResource` is awaited by a child `Suspend` (the first one) -/
def localWait : View → Option FId
  | .raw _ => none
  | .seq vs => localWaitL vs
  | .suspend _ _ => none
  | .suspense _ _ _ => none
  | .eb vs => localWaitL vs
  | .resSuspend _ _ => none
  | .resRead _ _ _ => none
  | .localRead => none
  | .localAwait f => some f
def localWaitL : List View → Option FId
  | [] => none
  | v :: vs => match localWait v with
    | some f => some f
    | none => localWaitL vs
end

mutual
/-- `was`: the futures that had completed when the innermost enclosing boundary walked its children -/
def compileA (ooo : Bool) : List FId → Ctx → View → List Op
  | _, _, .raw s => [Op.sync s]
  | was, c, .seq vs => compileAL ooo was c vs
  | was, .top, .suspend f v =>
    let fut : Fut := { deps := [f], tick := false }
    [Op.ite fut (compileA ooo was .top v)
      (Op.nextId ::
        (if ooo then [Op.fallback "<!>".toList, Op.ooo fut true (compileA ooo was .top v) none]
         else [Op.async fut (compileA ooo was .top v)]))]
  | was, .direct, .suspend _ v => compileA ooo was .nested v
  | was, .nested, .suspend _ v => compileA ooo was .nested v
  | _, _, .suspense fb nonce vs =>
    if localNowL vs then
      -- `fut.now_or_never()` is `Some(None)`: the fallback is rendered in place, nothing is streamed
      [Op.nextId, Op.sync fb]
    else match localWaitL vs with
    | some f =>
      -- the boundary's future resolves to `None` once `f` has completed: the fallback stays
      let fut : Fut := { deps := [f], tick := true }
      Op.nextId ::
        (if ooo then [Op.fallback fb, Op.ooo fut false [] nonce]
         else [Op.async fut [Op.sync fb]])
    | none =>
      iteTree (guardsOfL vs) [] fun was' =>
        let fut : Fut := { deps := depsOfL was' false vs, tick := true }
        Op.nextId ::
          (if ooo then [Op.fallback fb, Op.ooo fut true (compileAL ooo was' .direct vs) nonce]
           else [Op.async fut (compileAL ooo was' .direct vs)])
  | was, c, .eb vs => [Op.sub (compileAL ooo was c vs)]
  | was, .top, .resSuspend f v =>
    -- the resource's task has to run before the future can be ready: `tick`
    let fut : Fut := { deps := [f], tick := true }
    [Op.ite fut (compileA ooo was .top v)
      (Op.nextId ::
        (if ooo then [Op.fallback "<!>".toList, Op.ooo fut true (compileA ooo was .top v) none]
         else [Op.async fut (compileA ooo was .top v)]))]
  | was, .direct, .resSuspend _ v => compileA ooo was .nested v
  | was, .nested, .resSuspend _ v => compileA ooo was .nested v
  | was, .top, .resRead _ _ v => compileA ooo was .top v
  | was, .direct, .resRead once f v => compileA ooo was (if was.contains f then .direct else .nested) v
  | was, .nested, .resRead once f v =>
    -- F-C07-6: first evaluated while the boundary resolves its children: `res.get()` is `None` unless the
    -- resource has loaded by then, nobody waits for it, `None` renders as `<!>`
    [Op.ite { deps := [f], tick := false } (compileA ooo was .nested v) [Op.sync "<!>".toList]]
  | _, _, .localRead => []
  | _, _, .localAwait _ => []
def compileAL (ooo : Bool) : List FId → Ctx → List View → List Op
  | _, _, [] => []
  | was, c, v :: vs => compileA ooo was c v ++ compileAL ooo was c vs
end

def compile (ooo : Bool) (c : Ctx) (v : View) : List Op := compileA ooo [] c v
def compileL (ooo : Bool) (c : Ctx) (vs : List View) : List Op := compileAL ooo [] c vs

/-! `noLate c v`: no server resource is read *synchronously for the first time while the boundary resolves its children*
    (a `resRead` inside the output of a `Suspend` or of another read, under a `Suspense`): such a read registers its
    task after the boundary stopped collecting them, so nobody waits for it and what is rendered depends on whether
    the resource had loaded by then (F-C07-6, class `sync-read-late`; `C07_late_read_witness`) -/
mutual
def noLate : Ctx → View → Bool
  | _, .raw _ => true
  | c, .seq vs => noLateL c vs
  | .top, .suspend _ v => noLate .top v
  | .direct, .suspend _ v => noLate .nested v
  | .nested, .suspend _ v => noLate .nested v
  | _, .suspense _ _ vs => noLateL .direct vs
  | c, .eb vs => noLateL c vs
  | .top, .resSuspend _ v => noLate .top v
  | .direct, .resSuspend _ v => noLate .nested v
  | .nested, .resSuspend _ v => noLate .nested v
  | .top, .resRead _ _ v => noLate .top v
  | .direct, .resRead _ _ v => noLate .nested v
  | .nested, .resRead _ _ _ => false
  | _, .localRead => true
  | _, .localAwait _ => true
def noLateL : Ctx → List View → Bool
  | _, [] => true
  | c, v :: vs => noLate c v && noLateL c vs
end

/-! before fix-c07-4: `Suspend::resolve` did not resolve its output, so a `Suspense` waited only for its direct
    `Suspend`s and a `Suspend` in their output that was still pending rendered nothing (F-C07-4) -/
mutual
def directDepsOld : View → List FId
  | .raw _ => []
  | .seq vs => directDepsOldL vs
  | .suspend f _ => [f]
  | .suspense _ _ _ => []
  | .eb vs => directDepsOldL vs
  | .resSuspend f _ => [f]
  | .resRead once f v => f :: directDepsOld v
  | .localRead => []
  | .localAwait _ => []
def directDepsOldL : List View → List FId
  | [] => []
  | v :: vs => directDepsOld v ++ directDepsOldL vs
end

mutual
def compileOld (ooo : Bool) : Ctx → View → List Op
  | _, .raw s => [Op.sync s]
  | c, .seq vs => compileOldL ooo c vs
  | .top, .suspend f v =>
    let fut : Fut := { deps := [f], tick := false }
    [Op.ite fut (compileOld ooo .top v)
      (Op.nextId ::
        (if ooo then [Op.fallback "<!>".toList, Op.ooo fut true (compileOld ooo .top v) none]
         else [Op.async fut (compileOld ooo .top v)]))]
  | .direct, .suspend _ v => compileOld ooo .nested v
  | .nested, .suspend f v => [Op.ite { deps := [f], tick := false } (compileOld ooo .nested v) []]
  | _, .suspense fb nonce vs =>
    let fut : Fut := { deps := directDepsOldL vs, tick := true }
    Op.nextId ::
      (if ooo then [Op.fallback fb, Op.ooo fut true (compileOldL ooo .direct vs) nonce]
       else [Op.async fut (compileOldL ooo .direct vs)])
  | c, .eb vs => [Op.sub (compileOldL ooo c vs)]
  | .top, .resSuspend f v =>
    let fut : Fut := { deps := [f], tick := true }
    [Op.ite fut (compileOld ooo .top v)
      (Op.nextId ::
        (if ooo then [Op.fallback "<!>".toList, Op.ooo fut true (compileOld ooo .top v) none]
         else [Op.async fut (compileOld ooo .top v)]))]
  | .direct, .resSuspend _ v => compileOld ooo .nested v
  | .nested, .resSuspend f v => [Op.ite { deps := [f], tick := true } (compileOld ooo .nested v) []]
  | c, .resRead _ _ v => compileOld ooo c v
  | _, .localRead => []
  | _, .localAwait _ => []
def compileOldL (ooo : Bool) : Ctx → List View → List Op
  | _, [] => []
  | c, v :: vs => compileOld ooo c v ++ compileOldL ooo c vs
end

mutual
/-- the fully resolved synchronous render of a view -/
def viewDoc : View → Str
  | .raw s => s
  | .seq vs => viewDocL vs
  | .suspend _ v => viewDoc v
  | .suspense fb _ vs =>
    -- a boundary that reads a local resource keeps its fallback on the server
    if localNowL vs || (localWaitL vs).isSome then fb else viewDocL vs
  | .eb vs => viewDocL vs
  | .resSuspend _ v => viewDoc v
  | .resRead _ _ v => viewDoc v
  | .localRead => []
  | .localAwait _ => []
def viewDocL : List View → Str
  | [] => []
  | v :: vs => viewDoc v ++ viewDocL vs
end

end Leptos.Stream
