/-!
# Action — `ArcAction` / `Action` and `ArcMultiAction` / `MultiAction` as state machines (C17)

Executable model (core Lean only) of ONE action on the harness-controlled executor
(`hx_common::sched`).  Every function mirrors a piece of the Rust code:

| model                              | Rust (reactive_graph/src/actions/…)                                                  |
|------------------------------------|--------------------------------------------------------------------------------------|
| `State.inFlight/input/value/version/dispatched` | the five fields of `ArcAction` (action.rs); `dispatched` is never written by the code, so `is_latest` is always true — kept as a field so that a change there shows up |
| `State.tasks`                      | the executor's task table (`sched::TABLE`): one task per `dispatch`, in spawn order    |
| `Task.fut`                         | the `oneshot::Receiver` inside the dispatched future (`pending` until the harness sends) |
| `Task.chan`                        | the abort channel of `ActionAbortHandle`: `armed` (handle held), `fired` (`abort()` called), `dropped` (handle dropped without abort: `abort_rx.is_terminated()`, `select!` skips that arm) |
| `Task.woken/done`                  | `sched::Task.flag` / `.done`                                                         |
| `dispatchStep`                     | `ArcAction::dispatch` / `dispatch_local` synchronous part (`in_flight += 1`, `current_version = dispatched`, `input = Some`) + `spawn` (new task, woken) |
| `abortStep` / `dropStep`           | `ActionAbortHandle::abort` (`Sender::send` + drop ⇒ wake) / dropping the handle (`drop_tx` ⇒ wake) |
| `readyStep`                        | the harness completes the dispatched future's `oneshot` (wake)                        |
| `pollTask` → `abortArm` / `futArm` / park | one poll of the spawned `async move { select_biased! { _ = abort_rx => …, result = fut => … }; if in_flight == 0 { input = None } }` (abort arm first) |
| `pollTaskOld`, `pollStepOld`, `stepOld`, `runOld` | the same task before the repair `fix: ActionAbortHandle::abort() takes priority …` (F-C17-1): unbiased `select!`, kept for the regression witness |
| `clearStep`                        | `ArcAction::clear` (`value = None`, nothing else); `Action::clear` is `try_with_value`: silently nothing once the arena handle is disposed |
| `suppressStep`, `State.suppress`   | `diagnostics::suppress_resource_load(b)` / `is_suppressing_resource_load()`: while set, `dispatch` does nothing at all (no task, no `in_flight`, no `input`; the returned abort handle is inert) |
| `disposeStep`, `State.disposed`    | the arena handle `Action` is disposed (`Dispose::dispose` or clean-up of the owner it was created under). `dispatch` through the handle then panics before touching anything (`unwrap_signal!`), `clear` does nothing; the spawned tasks own `Arc` clones of the signals and run on, observable through signals (`version()`, `value()`, …) obtained earlier under an owner that is still alive. An `ArcAction` is not affected by owner clean-up (the driver maps `cleanup` on `Arc` kinds to no event). |
| `readyList`, `pollStep`            | `sched::ready()`, `sched::poll_nth_ready(j)` (index modulo the length)                 |
| `State.pending`                    | `ArcAction::pending` = `Memo(in_flight > 0)`                                          |
| `M.*`                              | `ArcMultiAction::dispatch` / `dispatch_sync`, `ArcSubmission::cancel`, the spawned `async move { fut.await; … }` (multi_action.rs); `M.State.suppress` as above (`dispatch_sync` is not suppressed); `M.State.disposed`: `MultiAction::dispatch/dispatch_sync` are `try_with_value`, silently nothing after disposal |
| `State.eager`, `eagerStep`        | the executor: deferred (`spawn` only queues the task: `hx_common::sched`) or EAGER (`spawn` polls the new task once inline, before `dispatch()` returns: hx-c17's `esched`); in eager mode `dispatchStep` = synchronous part, spawn, first poll |
| `dispatchReadyStep`                | a dispatch whose future is already resolved when it is first polled |
| `Hook`, `fireVersion`, `fireValue`, `hookDispatch` | a synchronous observer (`ImmediateEffect`) of `version()` / `value()` that dispatches again (bounded by `budget`): it runs INSIDE `version.update(..)` / `value.update(..)` of the completion arm (after `in_flight -= 1`, before the tail `if in_flight == 0 { input = None }`) and inside `clear` — re-entrant dispatch; in eager mode the nested task is polled inline too (its future is pending: it parks) |
| (driver) `dispatchl`               | `dispatch_local`: same body as `dispatch` except `Executor::spawn_local`; same model event |
| (driver) kinds `server-*`          | `leptos_server::{ArcServerAction, ServerAction, ArcServerMultiAction, ServerMultiAction}`: `ArcAction::new_with_value(err, |i| S::run_on_client(i.clone()))` + `Deref`; the initial value is `Some(Err(decode_err(e)))` iff a `ServerActionError` context with `path == S::PATH` exists — same model with `init (some e)` / `init none` |

`select_biased!` looks at its arms in source order: the abort arm first.  When the abort message
and the future's result are both available at the same poll, the abort arm runs (deterministic).
Before the repair the code used the unbiased `futures::select!` (random order): either arm could
run; `pollTaskOld` keeps that behaviour with an explicit choice bit `futFirst`.

Ghost fields (never read by the algorithm, used by the theorems and the oracle):
`Task.outcome`, `Task.abortFirst`, `State.initVal`, `State.lastInput`, `State.log`;
multi-action: `M.Task.input`, `M.Task.canceledEarly`, `M.State.nsync`.
-/
namespace Leptos.Action

abbrev Val := Nat

/-- state of the dispatched future (the harness-owned oneshot behind it) -/
inductive Fut where
  | pending
  | ready (v : Val)
deriving DecidableEq, Repr

/-- state of the abort channel of one dispatch -/
inductive Chan where
  | armed
  | fired
  | dropped
deriving DecidableEq, Repr

/-- ghost: which `select!` arm of the task ran -/
inductive Outcome where
  | running
  | completed (v : Val)
  | aborted
deriving DecidableEq, Repr

structure Task where
  fut : Fut := .pending
  chan : Chan := .armed
  /-- `current_version` captured at dispatch -/
  curVersion : Nat := 0
  woken : Bool := true
  done : Bool := false
  /-- ghost -/
  outcome : Outcome := .running
  /-- ghost: `abort()` was called while the future was still pending -/
  abortFirst : Bool := false
deriving DecidableEq, Repr

/-- ghost log of writes to `value` -/
inductive Write where
  | completed (k : Nat) (v : Val)
  | cleared
deriving DecidableEq, Repr

/-- an `ImmediateEffect` that dispatches `input` again each time its signal is written, `budget` times -/
structure Hook where
  budget : Nat := 0
  input : Val := 0
deriving DecidableEq, Repr

inductive Trigger where
  | version
  | value
deriving DecidableEq, Repr

structure State where
  inFlight : Nat := 0
  input : Option Val := none
  value : Option Val := none
  version : Nat := 0
  dispatched : Nat := 0
  tasks : List Task := []
  /-- `SUPPRESS_RESOURCE_LOAD` -/
  suppress : Bool := false
  /-- the arena handle is gone -/
  disposed : Bool := false
  /-- the executor polls a task inline when it is spawned -/
  eager : Bool := false
  /-- synchronous observers that re-dispatch: of `version`, of `value` (budget 0 = none) -/
  hookVersion : Hook := {}
  hookValue : Hook := {}
  /-- ghost: `new_with_value` argument -/
  initVal : Option Val := none
  /-- ghost: input of the most recent dispatch -/
  lastInput : Option Val := none
  /-- ghost: writes to `value`, oldest first -/
  log : List Write := []
deriving DecidableEq, Repr

inductive Event where
  | dispatch (i : Val)
  | abort (k : Nat)
  | dropHandle (k : Nat)
  | ready (k : Nat) (v : Val)
  /-- poll the `j mod len`-th entry of the ready list -/
  | poll (j : Nat)
  | clear
  | suppress (b : Bool)
  | dispose
  /-- switch the executor between deferred and eager spawning -/
  | eager (b : Bool)
  /-- dispatch with a future that is already resolved (to `v`) when first polled -/
  | dispatchReady (i : Val) (v : Val)
  /-- install (replace) the re-dispatching observer of `version` / `value` -/
  | hook (tr : Trigger) (budget : Nat) (input : Val)
deriving DecidableEq, Repr

def modifyAt {α : Type} (f : α → α) : List α → Nat → List α
  | [], _ => []
  | a :: as, 0 => f a :: as
  | a :: as, k + 1 => a :: modifyAt f as k

/-- `ArcAction::new_with_value(v0, …)` -/
def init (v0 : Option Val := none) : State := { value := v0, initVal := v0 }

def State.pending (s : State) : Bool := decide (0 < s.inFlight)

/-- ids of live woken tasks from position `i` on, in spawn order -/
def readyFrom : Nat → List Task → List Nat
  | _, [] => []
  | i, t :: ts => if !t.done && t.woken then i :: readyFrom (i + 1) ts else readyFrom (i + 1) ts

def readyList (s : State) : List Nat := readyFrom 0 s.tasks

def State.idle (s : State) : Bool := (readyList s).isEmpty

/-- `ArcAction::dispatch` proper: `in_flight += 1`, `current_version = dispatched`, `input = Some`, spawn -/
def dispatchCore (s : State) (i : Val) : State :=
  { s with
    inFlight := s.inFlight + 1
    input := some i
    lastInput := some i
    tasks := s.tasks ++ [{ curVersion := s.dispatched }] }

/-- a poll that finds neither the abort message nor a result: the task parks -/
def parkTask (s : State) (id : Nat) : State :=
  { s with tasks := modifyAt (fun t => { t with woken := false }) s.tasks id }

/-- the dispatch a synchronous observer makes from inside a signal write: `dispatch` proper (nothing
while suppressed); under the eager executor the new task (its future is pending) is polled inline and parks -/
def hookDispatch (s : State) (i : Val) : State :=
  if s.suppress then s
  else if s.eager then parkTask (dispatchCore s i) s.tasks.length else dispatchCore s i

/-- `version.update(..)` notifies the observer of `version` (not through a disposed handle: the
harness's observer checks that itself) -/
def fireVersion (s : State) : State :=
  if s.disposed then s
  else match s.hookVersion.budget with
    | 0 => s
    | n + 1 => hookDispatch { s with hookVersion := { s.hookVersion with budget := n } } s.hookVersion.input

/-- `value.update(..)` / the write guard of `clear` notifies the observer of `value` -/
def fireValue (s : State) : State :=
  if s.disposed then s
  else match s.hookValue.budget with
    | 0 => s
    | n + 1 => hookDispatch { s with hookValue := { s.hookValue with budget := n } } s.hookValue.input

/-- `ActionAbortHandle::abort` on the handle of dispatch `k` (a handle can be used once;
after the task finished the receiver is gone and `send` fails silently) -/
def abortStep (s : State) (k : Nat) : State :=
  { s with tasks := modifyAt (fun t =>
      if t.chan = .armed then
        if t.done then { t with chan := .dropped }
        else { t with chan := .fired, woken := true, abortFirst := decide (t.fut = .pending) }
      else t) s.tasks k }

/-- dropping the handle of dispatch `k` without aborting -/
def dropStep (s : State) (k : Nat) : State :=
  { s with tasks := modifyAt (fun t =>
      if t.chan = .armed then
        if t.done then { t with chan := .dropped }
        else { t with chan := .dropped, woken := true }
      else t) s.tasks k }

/-- the harness resolves the future of dispatch `k` with `v` -/
def readyStep (s : State) (k : Nat) (v : Val) : State :=
  { s with tasks := modifyAt (fun t =>
      if t.done then t
      else match t.fut with
        | .pending => { t with fut := .ready v, woken := true }
        | .ready _ => t) s.tasks k }

/-- `if in_flight.get_untracked() == 0 { input = None }` -/
def clearInputIfIdle (s : State) : State :=
  if s.inFlight = 0 then { s with input := none } else s

/-- `_ = abort_rx => in_flight -= 1` (saturating), then the tail of the task -/
def abortArm (s : State) (id : Nat) : State :=
  clearInputIfIdle
    { s with
      inFlight := s.inFlight - 1
      tasks := modifyAt (fun t => { t with woken := false, done := true, outcome := .aborted }) s.tasks id }

/-- `result = fut => { in_flight -= 1; if is_latest { version += 1; value = Some(result) } }`,
then the tail of the task -/
def futArm (s : State) (id : Nat) (t : Task) (v : Val) : State :=
  let isLatest := decide (s.dispatched ≤ t.curVersion)
  let s1 : State :=
    { s with
      inFlight := s.inFlight - 1
      tasks := modifyAt (fun t => { t with woken := false, done := true, outcome := .completed v }) s.tasks id }
  if isLatest then
    -- `version.update(|n| *n += 1)`: observers of `version` run here
    let s2 := fireVersion { s1 with version := s1.version + 1 }
    -- `value.update(|n| **n = Some(result))`: observers of `value` run here
    let s3 := fireValue { s2 with value := some v, log := s2.log ++ [.completed id v] }
    clearInputIfIdle s3
  else clearInputIfIdle s1

/-- one poll of task `id`: `select_biased!` checks the abort arm first, then the future -/
def pollTask (s : State) (id : Nat) : State :=
  match s.tasks[id]? with
  | none => s
  | some t =>
    if t.done then s
    else if t.chan = .fired then abortArm s id
    else
      match t.fut with
      | .ready v => futArm s id t v
      | .pending => parkTask s id

/-- synchronous part of `dispatch` + `spawn`; nothing happens while resource loading is suppressed
(`if !is_suppressing_resource_load() { … }`) or through a disposed arena handle (`try_get_value()`
is `None`: the call panics before touching the action). Under the eager executor `spawn` polls the
new task once before `dispatch` returns. -/
def dispatchStep (s : State) (i : Val) : State :=
  if s.suppress || s.disposed then s
  else if s.eager then pollTask (dispatchCore s i) s.tasks.length else dispatchCore s i

/-- the same with a future that is already resolved -/
def dispatchReadyStep (s : State) (i : Val) (v : Val) : State :=
  if s.suppress || s.disposed then s
  else
    let s' := readyStep (dispatchCore s i) s.tasks.length v
    if s.eager then pollTask s' s.tasks.length else s'

/-- `sched::poll_nth_ready(j)` -/
def pollStep (s : State) (j : Nat) : State :=
  let r := readyList s
  match r[j % r.length]? with
  | none => s
  | some id => pollTask s id

def clearCore (s : State) : State :=
  fireValue { s with value := none, log := s.log ++ [.cleared] }

/-- `ArcAction::clear`; `Action::clear` = `inner.try_with_value(|inner| inner.clear())` does nothing
once the handle is disposed -/
def clearStep (s : State) : State :=
  if s.disposed then s else clearCore s

def suppressStep (s : State) (b : Bool) : State := { s with suppress := b }

def disposeStep (s : State) : State := { s with disposed := true }

def eagerStep (s : State) (b : Bool) : State := { s with eager := b }

def hookStep (s : State) (tr : Trigger) (budget : Nat) (input : Val) : State :=
  match tr with
  | .version => { s with hookVersion := { budget := budget, input := input } }
  | .value => { s with hookValue := { budget := budget, input := input } }

def step (s : State) : Event → State
  | .dispatch i => dispatchStep s i
  | .abort k => abortStep s k
  | .dropHandle k => dropStep s k
  | .ready k v => readyStep s k v
  | .poll j => pollStep s j
  | .clear => clearStep s
  | .suppress b => suppressStep s b
  | .dispose => disposeStep s
  | .eager b => eagerStep s b
  | .dispatchReady i v => dispatchReadyStep s i v
  | .hook tr b i => hookStep s tr b i

def run (s : State) (evs : List Event) : State := evs.foldl step s

/-- FIFO polling (`sched::run_until_idle`); `fuel` bounds the number of polls (a poll un-wakes its
task and nothing inside wakes one, so `tasks.length` is enough) -/
def runIdle : Nat → State → State
  | 0, s => s
  | n + 1, s => if s.idle then s else runIdle n (pollStep s 0)

/-! ## the code before the repair of F-C17-1 (unbiased `select!`), kept for the regression witness -/

/-- one poll of task `id` under `futures::select!`: when both arms are ready, `futFirst` says which
one the random shuffle put first -/
def pollTaskOld (s : State) (id : Nat) (futFirst : Bool) : State :=
  match s.tasks[id]? with
  | none => s
  | some t =>
    if t.done then s
    else
      match t.fut, decide (t.chan = .fired) with
      | .ready v, true => if futFirst then futArm s id t v else abortArm s id
      | .ready v, false => futArm s id t v
      | .pending, true => abortArm s id
      | .pending, false => parkTask s id

def pollStepOld (s : State) (j : Nat) (futFirst : Bool) : State :=
  let r := readyList s
  match r[j % r.length]? with
  | none => s
  | some id => pollTaskOld s id futFirst

/-- an event of the old code comes with the outcome of the shuffle (only read by `poll`) -/
def stepOld (s : State) (e : Event) (futFirst : Bool) : State :=
  match e with
  | .poll j => pollStepOld s j futFirst
  | e => step s e

def runOld (s : State) (evs : List (Event × Bool)) : State :=
  evs.foldl (fun s e => stepOld s e.1 e.2) s

/-! ## the property's reference values, computed from the ghost record -/

def countP {α : Type} (p : α → Bool) : List α → Nat
  | [] => 0
  | a :: as => (if p a then 1 else 0) + countP p as

def Task.unfinished (t : Task) : Bool := t.outcome = .running
def Task.completed (t : Task) : Bool := match t.outcome with | .completed _ => true | _ => false

/-- value after a sequence of writes (oldest first) starting from `v0` -/
def lastWrite (v0 : Option Val) : List Write → Option Val
  | [] => v0
  | .completed _ v :: ws => lastWrite (some v) ws
  | .cleared :: ws => lastWrite none ws

def specPending (s : State) : Bool := s.tasks.any Task.unfinished
def specVersion (s : State) : Nat := countP Task.completed s.tasks
def specValue (s : State) : Option Val := lastWrite s.initVal s.log
def specInput (s : State) : Option Val := if specPending s then s.lastInput else none

/-- a dispatch whose `abort()` preceded its future's completion nevertheless wrote -/
def abortRaceLost (s : State) : Bool := s.tasks.any fun t => t.abortFirst && t.completed

/-- at an idle point every unfinished dispatch has neither been resolved nor aborted -/
def idleUntouched (s : State) : Bool :=
  s.tasks.all fun t => !t.unfinished || (decide (t.fut = .pending) && decide (t.chan ≠ .fired))

/-- the oracle of the property on a model state: `none` = ok, `some class` = fails -/
def oracle (s : State) : Option String :=
  if s.pending ≠ specPending s then some "pending"
  else if s.version ≠ specVersion s then some "version"
  else if s.value ≠ specValue s then some "value"
  else if s.input ≠ specInput s then some "input"
  else if abortRaceLost s then some "abort-race"
  else if s.idle && !idleUntouched s then some "idle-unfinished"
  else none

/-! ## multi-action -/
namespace M

structure Sub where
  input : Option Val
  value : Option Val
  pending : Bool
  canceled : Bool
deriving DecidableEq, Repr

/-- what can happen to one submission record -/
inductive SubEv where
  | cancel
  | resolve (v : Val)
deriving DecidableEq, Repr

/-- `ArcSubmission::cancel` / the tail of the spawned task, on one record -/
def Sub.step (r : Sub) : SubEv → Sub
  | .cancel => { r with canceled := true }
  | .resolve v =>
    { input := none, value := if r.canceled then r.value else some v, pending := false, canceled := r.canceled }

structure Task where
  /-- index of the submission this task owns -/
  sub : Nat
  fut : Fut := .pending
  woken : Bool := true
  done : Bool := false
  /-- ghost -/
  input : Val := 0
  /-- ghost: `cancel` was called on the submission before the task finished -/
  canceledEarly : Bool := false
deriving DecidableEq, Repr

structure State where
  version : Nat := 0
  subs : List Sub := []
  tasks : List Task := []
  /-- ghost: number of `dispatch_sync` calls -/
  nsync : Nat := 0
  suppress : Bool := false
  disposed : Bool := false
  eager : Bool := false
deriving DecidableEq, Repr

inductive Event where
  | dispatch (i : Val)
  | dispatchSync (v : Val)
  | cancel (s : Nat)
  | ready (t : Nat) (v : Val)
  | poll (j : Nat)
  | suppress (b : Bool)
  | dispose
  | eager (b : Bool)
  | dispatchReady (i : Val) (v : Val)
deriving DecidableEq, Repr

def init : State := {}

def readyFrom : Nat → List Task → List Nat
  | _, [] => []
  | i, t :: ts => if !t.done && t.woken then i :: readyFrom (i + 1) ts else readyFrom (i + 1) ts

def readyList (s : State) : List Nat := readyFrom 0 s.tasks

def State.idle (s : State) : Bool := (readyList s).isEmpty

def dispatchCore (s : State) (i : Val) : State :=
  { s with
    subs := s.subs ++ [{ input := some i, value := none, pending := true, canceled := false }]
    tasks := s.tasks ++ [{ sub := s.subs.length, input := i }] }

def dispatchSyncCore (s : State) (v : Val) : State :=
  { s with
    subs := s.subs ++ [{ input := none, value := some v, pending := false, canceled := false }]
    version := s.version + 1
    nsync := s.nsync + 1 }

/-- `ArcMultiAction::dispatch_sync` (not subject to suppression; nothing once disposed) -/
def dispatchSyncStep (s : State) (v : Val) : State :=
  if s.disposed then s else dispatchSyncCore s v

def cancelStep (s : State) (k : Nat) : State :=
  { s with
    subs := modifyAt (Sub.step · .cancel) s.subs k
    tasks := s.tasks.map fun t => if t.sub = k ∧ t.done = false then { t with canceledEarly := true } else t }

def readyStep (s : State) (k : Nat) (v : Val) : State :=
  { s with tasks := modifyAt (fun t =>
      if t.done then t
      else match t.fut with
        | .pending => { t with fut := .ready v, woken := true }
        | .ready _ => t) s.tasks k }

/-- one poll of `async move { let v = fut.await; if !canceled { value = Some(v) }; input = None;
pending = false; version += 1 }` -/
def pollTask (s : State) (id : Nat) : State :=
  match s.tasks[id]? with
  | none => s
  | some t =>
    if t.done then s
    else match t.fut with
      | .pending => { s with tasks := modifyAt (fun t => { t with woken := false }) s.tasks id }
      | .ready v =>
        { s with
          subs := modifyAt (Sub.step · (.resolve v)) s.subs t.sub
          version := s.version + 1
          tasks := modifyAt (fun t => { t with woken := false, done := true }) s.tasks id }

/-- `ArcMultiAction::dispatch` (nothing while suppressed; `MultiAction::dispatch` is `try_with_value`:
nothing once disposed); the eager executor polls the new task inline -/
def dispatchStep (s : State) (i : Val) : State :=
  if s.suppress || s.disposed then s
  else if s.eager then pollTask (dispatchCore s i) s.tasks.length else dispatchCore s i

def dispatchReadyStep (s : State) (i : Val) (v : Val) : State :=
  if s.suppress || s.disposed then s
  else
    let s' := readyStep (dispatchCore s i) s.tasks.length v
    if s.eager then pollTask s' s.tasks.length else s'

def pollStep (s : State) (j : Nat) : State :=
  let r := readyList s
  match r[j % r.length]? with
  | none => s
  | some id => pollTask s id

def step (s : State) : Event → State
  | .dispatch i => dispatchStep s i
  | .dispatchReady i v => dispatchReadyStep s i v
  | .eager b => { s with eager := b }
  | .dispatchSync v => dispatchSyncStep s v
  | .cancel k => cancelStep s k
  | .ready k v => readyStep s k v
  | .poll j => pollStep s j
  | .suppress b => { s with suppress := b }
  | .dispose => { s with disposed := true }

def run (s : State) (evs : List Event) : State := evs.foldl step s

def runIdle : Nat → State → State
  | 0, s => s
  | n + 1, s => if s.idle then s else runIdle n (pollStep s 0)

/-- the submission an event acts on, with the record-level event (none: no existing record changes) -/
def target (s : State) : Event → Option (Nat × SubEv)
  | .cancel k => some (k, .cancel)
  | .poll j =>
    let r := readyList s
    match r[j % r.length]? with
    | none => none
    | some id =>
      match s.tasks[id]? with
      | none => none
      | some t => if t.done then none else
        match t.fut with
        | .pending => none
        | .ready v => some (t.sub, .resolve v)
  | _ => none

/-- the record the property expects for the submission of task `t` -/
def specSub (t : Task) (r : Sub) : Bool :=
  if t.done then
    r.input = none && !r.pending && (!t.canceledEarly || r.canceled) &&
      (match t.fut with
       | .ready v => r.value = (if t.canceledEarly then none else some v)
       | .pending => false)
  else r.input = some t.input && r.value = none && r.pending && r.canceled = t.canceledEarly

def oracle (s : State) : Option String :=
  if s.version ≠ s.nsync + countP (·.done) s.tasks then some "multi-version"
  else if !(s.tasks.all fun t => match s.subs[t.sub]? with | some r => specSub t r | none => false) then
    some "multi-record"
  else none

end M

end Leptos.Action
