/-!
# Wire — helpers shared by all line-protocol drivers (core Lean only)

Bytes travel as lower-case hex (`-` for the empty string) so that no operation
line ever contains a space, a newline or a non-ASCII byte of payload.
-/
namespace Leptos.Wire

def hexDigit (n : Nat) : Char :=
  if n < 10 then Char.ofNat (48 + n) else Char.ofNat (87 + n)

def hexOfBytes (bs : List Nat) : String :=
  if bs.isEmpty then "-" else
  String.ofList (bs.flatMap fun b => [hexDigit (b / 16 % 16), hexDigit (b % 16)])

def hexVal? (c : Char) : Option Nat :=
  let n := c.toNat
  if 48 ≤ n ∧ n ≤ 57 then some (n - 48)
  else if 97 ≤ n ∧ n ≤ 102 then some (n - 87)
  else if 65 ≤ n ∧ n ≤ 70 then some (n - 55)
  else none

def bytesOfHexChars : List Char → Option (List Nat)
  | [] => some []
  | [_] => none
  | h :: l :: rest =>
    match hexVal? h, hexVal? l, bytesOfHexChars rest with
    | some a, some b, some r => some ((a * 16 + b) :: r)
    | _, _, _ => none

def bytesOfHex (s : String) : Option (List Nat) :=
  if s == "-" then some [] else bytesOfHexChars s.toList

def words (line : String) : List String :=
  (line.trimAscii.toString.splitOn " ").filter (· ≠ "")

/-- UTF-8 encoding of one scalar value (surrogates are not produced by callers). -/
def utf8EncodeChar (c : Nat) : List Nat :=
  if c < 0x80 then [c]
  else if c < 0x800 then [0xC0 + c / 64, 0x80 + c % 64]
  else if c < 0x10000 then [0xE0 + c / 4096, 0x80 + c / 64 % 64, 0x80 + c % 64]
  else [0xF0 + c / 262144, 0x80 + c / 4096 % 64, 0x80 + c / 64 % 64, 0x80 + c % 64]

def natList (ns : List Nat) : String :=
  "[" ++ ",".intercalate (ns.map toString) ++ "]"

/-- Run `step` over all stdin lines, threading a state, printing one line per line. -/
partial def loop {σ : Type} (h : IO.FS.Stream) (out : IO.FS.Stream)
    (step : σ → String → σ × String) (s : σ) : IO Unit := do
  let line ← h.getLine
  if line.isEmpty then return ()
  let (s', o) := step s line
  out.putStrLn o
  loop h out step s'

def runDriver {σ : Type} (step : σ → String → σ × String) (init : σ) : IO Unit := do
  let i ← IO.getStdin
  let o ← IO.getStdout
  loop i o step init
  o.flush

end Leptos.Wire
