import LeptosModel.Model.RView
/-!
# Model/SView — `<Suspense>` / `<Transition>` over resources, at idle points (C04)

What a mounted view with suspense boundaries shows **once the executor has nothing left to run**, as a
function of the current values of the signals, the state of the resources and (for `<Transition>`) whether
the boundary has already been through its first pending episode.  This is the specification level: the
poll-by-poll behaviour of `AsyncDerived`, `Suspend` and the boundary's render effect is C10's subject
(`Model/Async.lean`: fetches of one derived are serialised; a write that arrives while a fetch is in flight
makes the derived fetch again as soon as that fetch has returned) and is not re-modelled here.

| here                  | Rust                                                                                   |
|-----------------------|----------------------------------------------------------------------------------------|
| `Res`                 | `AsyncDerived::new(move || { let v = body(signals); async move { gate.await; v } })`: `pending` = a fetch is in flight (`loading`), `cap` = the value that fetch captured, `again` = a tracked signal was written since it started, `tracked` = the signals its fetchers have read so far (sources are never cleared), `last` = the value of the last fetch that was not superseded on return (what every `Suspend` over the resource last resolved to) |
| `SSt.set`             | `RwSignal::set` then idle: a resource that tracks the signal starts a fetch, or — with one in flight — is marked to fetch again |
| `SSt.resolve`         | the harness completes the fetch in flight: its value is published, unless the resource is marked to fetch again: then nobody gets to see the value (the derived starts the next fetch in the same poll, every `Suspend` that re-awaits finds it loading) |
| `SV.sus`              | leptos `Suspense` (leptos/src/suspense_component.rs): `SuspenseBoundary<false>` = `RenderEffect` over `none_pending` switching an `EitherKeepAlive { children, fallback }` (tachys/src/view/either.rs); pending = some `Suspend` built below it (and not below a boundary of its own) awaits a resource that is loading (`SuspenseContext::task_id`) |
| `SV.tra`              | leptos `Transition` = `SuspenseBoundary<true>`: `show_b = !none_pending && nth_run < 2`: the fallback is shown during the FIRST pending episode only (`phase`: 0 = none yet, 1 = in it, 2 = over); afterwards the children stay, every `Suspend` showing what it last resolved to |
| `SSt.settle`          | the boundaries' render effects have seen the current state (only a `<Transition>` keeps something from it: `phase`) |
| `SOp`, `SSt.step`, `SProg.run` | a history: writes and completions, the executor running to idle after each |
| `renderLoaded`        | the view with every boundary transparent and every leaf at the value its fetcher gives for the current signals |
| `SV.lw sel`           | `move || { let g = gates[sel mod 4].clone(); Suspend::new(async move { g.wait().await.to_string() }) }`: a `Suspend` over a plain future that the closure picks by a signal (no `AsyncDerived` in between); gate `g` resolves to `g` once the harness has opened it (`SSt.openGate`).  What such a leaf shows while the gate it now selects is still closed depends on the polling order (it may or may not have shown a load that was superseded since): the DOM is OBSERVED only at idle points where every live `lw` leaf selects an open gate (`lwClosed = false`); there it shows that gate's value |
| `SV.aw rid`           | `move || Suspend::new(async move { resource.await.to_string() })` (tachys/src/reactive_graph/suspense.rs) |

The class (checked by the harness and the driver): resources read signals only; `aw` leaves sit below a
boundary; a `<Transition>` sits at a place that exists for as long as the view is mounted and has neither
branches nor rows below it (so its `Suspend` leaves live as long as it does); no component-local state, no
error boundaries; the executor runs to idle after every operation.
-/
namespace Leptos.SView
open Leptos.Reactive (Expr Prog NodeDef)
open Leptos.RView (Attr Tok Txt AOut listAt renderAttrL)

inductive SV where
  | text (s : String)
  | unit
  | elem (tag : String) (attrs : List Attr) (kid : SV)
  | seq (a b : SV)
  | dynText (e : Expr)
  | either (c : Expr) (a b : SV)
  | show (c : Expr) (a b : SV)
  | forKeyed (sel : Expr) (lists : List (List Nat))
  | forRows (sel : Expr) (lists : List (List Nat)) (row : SV)
  | sus (kid : SV)
  | tra (i : Nat) (kid : SV)
  | aw (rid : Nat)
  | lw (sel : Expr)
  deriving Repr, Inhabited

structure Res where
  body : Expr
  cap : Int := 0
  pending : Bool := true
  again : Bool := false
  tracked : List Nat := []
  last : Option Int := none
  deriving Repr, Inhabited

structure SSt where
  defs : Prog := []
  /-- current values of the signals (by node id; memos are computed from scratch) -/
  sigs : Nat → Int := fun _ => 0
  res : List Res := []
  /-- per `<Transition>` (numbered in document order): 0 = no pending episode yet, 1 = in the first one, 2 = it is over -/
  phase : List Nat := []
  view : Option SV := none
  disposed : Bool := false
  /-- the four gates of the `lw` leaves: opened or not -/
  gates : List Bool := [false, false, false, false]
  deriving Inhabited

/-- from-scratch values of all nodes -/
def SSt.env (st : SSt) : Nat → Int := fun i => Reactive.scratch st.defs st.sigs (Reactive.fuelFor st.defs) i

/-- the signals an evaluation of the expression reads (the branch of an `ite` that is taken) -/
def readsDyn (ρ : Nat → Int) : Expr → List Nat
  | .lit _ => []
  | .rd _ i => [i]
  | .add a b => readsDyn ρ a ++ readsDyn ρ b
  | .mulc _ a => readsDyn ρ a
  | .ite c t e => readsDyn ρ c ++ (if Reactive.evalPure ρ c != 0 then readsDyn ρ t else readsDyn ρ e)
  | .seq a b => readsDyn ρ a ++ readsDyn ρ b
  | .wr _ a => readsDyn ρ a

/-- a fetch starts now: the fetcher reads the signals; the derived's task does not clear its sources between
fetches (`spawn_derived!`, arc_async_derived.rs), so a signal read by an EARLIER fetch stays tracked -/
def Res.start (r : Res) (ρ : Nat → Int) : Res :=
  { r with cap := Reactive.evalPure ρ r.body, pending := true, again := false,
           tracked := r.tracked ++ (readsDyn ρ r.body).filter (!r.tracked.contains ·) }

def SSt.addRes (st : SSt) (body : Expr) : SSt :=
  { st with res := st.res ++ [({ body := body } : Res).start st.env] }

def setAt (f : Nat → Int) (id : Nat) (v : Int) : Nat → Int := fun i => if i = id then v else f i

/-- `RwSignal::set` (and the executor runs to idle) -/
def SSt.set (st : SSt) (id : Nat) (v : Int) : SSt :=
  let st := { st with sigs := setAt st.sigs id v }
  { st with res := st.res.map fun r =>
      if r.tracked.contains id then (if r.pending then { r with again := true } else r.start st.env) else r }

/-- the fetch in flight of resource `rid` completes -/
def SSt.resolve (st : SSt) (rid : Nat) : SSt :=
  { st with res := (List.range st.res.length).zip st.res |>.map fun (i, r) =>
      if i == rid && r.pending then
        (if r.again then r.start st.env else { r with pending := false, last := some r.cap })
      else r }

def gateIx (v : Int) : Nat := RView.forIndex v 4

def SSt.gateOpen (st : SSt) (g : Nat) : Bool := st.gates.getD g false

def SSt.openGate (st : SSt) (g : Nat) : SSt :=
  { st with gates := (List.range st.gates.length).map fun i => if i == g then true else st.gates.getD i false }

def SSt.isPending (st : SSt) (rid : Nat) : Bool := ((st.res[rid]?).map (·.pending)).getD false
def SSt.lastOf (st : SSt) (rid : Nat) : Int := (((st.res[rid]?).bind (·.last))).getD 0

/-- some `Suspend` that is alive below this view, and not below a boundary of its own, awaits a loading resource -/
def pendingIn (st : SSt) : SV → Int → Bool
  | .text _, _ => false
  | .unit, _ => false
  | .elem _ _ kid, key => pendingIn st kid key
  | .seq a b, key => pendingIn st a key || pendingIn st b key
  | .dynText _, _ => false
  | .either c a b, key =>
    if Reactive.evalPure st.env (c.valued [] key) != 0 then pendingIn st a 0 else pendingIn st b 0
  | .show c a b, key =>
    if Reactive.evalPure st.env (c.valued [] key) != 0 then pendingIn st a 0 else pendingIn st b 0
  | .forKeyed _ _, _ => false
  | .forRows sel lists row, key =>
    (listAt lists (Reactive.evalPure st.env (sel.valued [] key))).any fun (k : Nat) => pendingIn st row (k : Int)
  | .sus _, _ => false
  | .tra _ _, _ => false
  | .aw rid, _ => st.isPending rid
  | .lw sel, key => !st.gateOpen (gateIx (Reactive.evalPure st.env (sel.valued [] key)))

/-- what the DOM shows at an idle point -/
def renderS (st : SSt) : SV → Int → List Tok
  | .text s, _ => [.text (.lit s)]
  | .unit, _ => [.comment]
  | .elem tag attrs kid, key =>
    [.open tag (attrs.map (renderAttrL st.env [] key))] ++ renderS st kid key ++ [.close]
  | .seq a b, key => renderS st a key ++ renderS st b key
  | .dynText x, key => [.text (.int (Reactive.evalPure st.env (x.valued [] key)))]
  | .either c a b, key =>
    if Reactive.evalPure st.env (c.valued [] key) != 0 then renderS st a 0 else renderS st b 0
  | .show c a b, key =>
    if Reactive.evalPure st.env (c.valued [] key) != 0 then renderS st a 0 else renderS st b 0
  | .forKeyed sel lists, key =>
    (listAt lists (Reactive.evalPure st.env (sel.valued [] key))).flatMap RView.rowTree ++ [.comment]
  | .forRows sel lists row, key =>
    (listAt lists (Reactive.evalPure st.env (sel.valued [] key))).flatMap
      (fun (k : Nat) => [.open "li" [], .text (.lit (toString k))] ++ renderS st row (k : Int) ++ [.close])
      ++ [.comment]
  | .sus kid, key => if pendingIn st kid key then [.text (.lit "wait")] else renderS st kid key
  | .tra i kid, key => if st.phase.getD i 0 == 1 then [.text (.lit "wait")] else renderS st kid key
  | .aw rid, _ => [.text (.int (st.lastOf rid))]
  | .lw sel, key => [.text (.int (gateIx (Reactive.evalPure st.env (sel.valued [] key)) : Nat))]

/-- some live `lw` leaf (below a boundary or not) selects a gate that is still closed: the DOM is not observed -/
def lwClosed (st : SSt) : SV → Int → Bool
  | .elem _ _ kid, key => lwClosed st kid key
  | .seq a b, key => lwClosed st a key || lwClosed st b key
  | .either c a b, key =>
    if Reactive.evalPure st.env (c.valued [] key) != 0 then lwClosed st a 0 else lwClosed st b 0
  | .show c a b, key =>
    if Reactive.evalPure st.env (c.valued [] key) != 0 then lwClosed st a 0 else lwClosed st b 0
  | .forRows sel lists row, key =>
    (listAt lists (Reactive.evalPure st.env (sel.valued [] key))).any fun (k : Nat) => lwClosed st row (k : Int)
  | .sus kid, key => lwClosed st kid key
  | .tra _ kid, key => lwClosed st kid key
  | .lw sel, key => !st.gateOpen (gateIx (Reactive.evalPure st.env (sel.valued [] key)))
  | _, _ => false

/-- the `<Transition>`s of a view with the views below them (they sit at fixed places: no branch, no row above) -/
def transitions : SV → List (Nat × SV)
  | .elem _ _ kid => transitions kid
  | .seq a b => transitions a ++ transitions b
  | .sus kid => transitions kid
  | .tra i kid => (i, kid) :: transitions kid
  | _ => []

/-- the boundary's effect has seen whether something below it is pending: a `<Transition>` enters its first pending
episode, or leaves it -/
def nextPhase (ph : Nat) (p : Bool) : Nat :=
  if ph == 0 && p then 1 else if ph == 1 && !p then 2 else ph

def phaseAt (st : SSt) (v : SV) (i : Nat) : Nat :=
  match (transitions v).find? (·.1 == i) with
  | some (_, kid) => nextPhase (st.phase.getD i 0) (pendingIn st kid 0)
  | none => st.phase.getD i 0

def SSt.settle (st : SSt) : SSt :=
  match st.view with
  | some v => { st with phase := (List.range st.phase.length).map (phaseAt st v) }
  | none => st

def countTra : SV → Nat
  | .elem _ _ kid => countTra kid
  | .seq a b => countTra a + countTra b
  | .either _ a b => countTra a + countTra b
  | .show _ a b => countTra a + countTra b
  | .forRows _ _ row => countTra row
  | .sus kid => countTra kid
  | .tra _ kid => 1 + countTra kid
  | _ => 0

def SSt.mount (st : SSt) (v : SV) : SSt :=
  SSt.settle { st with view := some v, phase := List.replicate (countTra v) 0 }

def SSt.dom (st : SSt) : List Tok :=
  if st.disposed then [] else
  match st.view with
  | some v => renderS st v 0
  | none => []



/-! ## operations -/

inductive SOp where
  | set (id : Nat) (v : Int)
  | resolve (rid : Nat)
  | openGate (g : Nat)
  deriving Repr, Inhabited

/-- an operation, then the executor runs to idle -/
def SSt.step (st : SSt) : SOp → SSt
  | .set id v => (st.set id v).settle
  | .resolve rid => (st.resolve rid).settle
  | .openGate g => (st.openGate g).settle

/-- signals and memos, the resources' fetchers, the resources completed before the mount, the view -/
structure SProg where
  defs : Prog
  bodies : List Expr
  pre : List Nat
  view : SV
  deriving Inhabited

def initS (defs : Prog) : SSt :=
  { defs := defs, sigs := fun i => match defs[i]? with | some (.sig v) => v | _ => 0 }

def SProg.start (p : SProg) : SSt :=
  (p.pre.foldl SSt.resolve (p.bodies.foldl SSt.addRes (initS p.defs))).mount p.view

def SProg.run (p : SProg) (ops : List SOp) : SSt := ops.foldl SSt.step p.start

def sigsOnly (defs : Prog) : Expr → Bool
  | .lit _ => true
  | .rd _ i => match defs[i]? with | some (.sig _) => true | _ => false
  | .add a b => sigsOnly defs a && sigsOnly defs b
  | .mulc _ a => sigsOnly defs a
  | .ite c t e => sigsOnly defs c && sigsOnly defs t && sigsOnly defs e
  | .seq _ _ => false
  | .wr _ _ => false

/-- what the view shows when everything has loaded: boundaries are transparent, a leaf shows the value of its
resource's fetcher for the current signals -/
def renderLoaded (st : SSt) : SV → Int → List Tok
  | .text s, _ => [.text (.lit s)]
  | .unit, _ => [.comment]
  | .elem tag attrs kid, key =>
    [.open tag (attrs.map (renderAttrL st.env [] key))] ++ renderLoaded st kid key ++ [.close]
  | .seq a b, key => renderLoaded st a key ++ renderLoaded st b key
  | .dynText x, key => [.text (.int (Reactive.evalPure st.env (x.valued [] key)))]
  | .either c a b, key =>
    if Reactive.evalPure st.env (c.valued [] key) != 0 then renderLoaded st a 0 else renderLoaded st b 0
  | .show c a b, key =>
    if Reactive.evalPure st.env (c.valued [] key) != 0 then renderLoaded st a 0 else renderLoaded st b 0
  | .forKeyed sel lists, key =>
    (listAt lists (Reactive.evalPure st.env (sel.valued [] key))).flatMap RView.rowTree ++ [.comment]
  | .forRows sel lists row, key =>
    (listAt lists (Reactive.evalPure st.env (sel.valued [] key))).flatMap
      (fun (k : Nat) => [.open "li" [], .text (.lit (toString k))] ++ renderLoaded st row (k : Int) ++ [.close])
      ++ [.comment]
  | .sus kid, key => renderLoaded st kid key
  | .tra _ kid, key => renderLoaded st kid key
  | .aw rid, _ => [.text (.int (((st.res[rid]?).map fun r => Reactive.evalPure st.env r.body).getD 0))]
  | .lw sel, key => [.text (.int (gateIx (Reactive.evalPure st.env (sel.valued [] key)) : Nat))]


end Leptos.SView
