import LeptosModel.Model.Reactive

/-! Desugaring of `Selector::new_with_fn(src, |k, v| v == k || v == k + 1)` (op `selc`) into model
expressions. Kept apart from `Model/ReactiveDriver.lean` so that `Theorems/C02.lean` can state what
these expressions denote (`selcFlag_eval`, `C02_selc_desugar_guard`) about the very definitions the
driver runs. -/

namespace Leptos.Reactive

/-- `selc`: 1 if `x = j` or `x = j + 1` -/
def selcFlag (x : Expr) (j : Nat) : Expr :=
  .add (.ite (.add x (.lit (-(Int.ofNat j)))) (.lit 0) (.lit 1))
       (.ite (.add x (.lit (-(Int.ofNat j) - 1))) (.lit 0) (.lit 1))

def selcStep (e : Expr) (t p j : Nat) : Expr :=
  .ite (.add e (.mulc (-1) (.rd false p)))
    (.ite (.add (selcFlag e j) (selcFlag (.rd false p) j)) (.wr t (selcFlag e j)) (.lit 0))
    (.lit 0)

/-- body of the render effect a `selc` selector desugars to (`p` = hidden node holding the previous value) -/
def selcBody (e : Expr) (first k : Nat) : Expr :=
  (List.range k).foldr (fun j acc => .seq (selcStep e (first + j) (first + k) j) acc) (.wr (first + k) e)

end Leptos.Reactive
