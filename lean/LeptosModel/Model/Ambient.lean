/-!
# Ambient — the thread-local "ambient" state of reactive_graph and its wrapper discipline (C20)

Executable model (core Lean only, structurally recursive) of how code running on behalf of one
server render finds *its* owner / observer / arena although all of them live in thread-locals that
every request on the thread shares.

| model                         | Rust                                                                                          |
|-------------------------------|-----------------------------------------------------------------------------------------------|
| `Amb.owner`                   | `thread_local! OWNER` (reactive_graph/src/owner.rs)                                            |
| `Amb.observer`                | `thread_local! OBSERVER` (reactive_graph/src/graph/subscriber.rs)                              |
| `Amb.arena`                   | `thread_local! MAP` under `sandboxed-arenas`; the one `static MAP` otherwise (owner/arena.rs): a world in which every owner has arena `0` is the global-arena configuration |
| `World.owners`                | the owner forest: `OwnerInner.parent`, `OwnerInner.arena`; `req` = which request's root it hangs under (`Owner::new_root` per request in `build_response`, integrations/utils/src/lib.rs) |
| shared context                | a request's `SsrSharedContext` (hydration data, `SerializedDataId`s) is a field of its root `Owner` inherited by every child (`Owner::shared_context`, `Owner::current_shared_context()`): "whose shared context" = `reqOf` of the observed owner; `build_response`'s `chunks` closure captures it under the root = a `Step.enter root` |
| `CtxEntry`, `lookupCtx`, `useContext` | `OwnerInner.contexts`, `Owner::use_context` walking `parent` links (owner/context.rs)   |
| `Simple.provide`              | `provide_context` on the current owner                                                         |
| `Simple.alloc`, `Item`        | `ArenaItem::new`: insert into the current arena, `Owner::register` with the current owner (slotmap keys are unique per arena — modelled, not verified, by giving every item its own list cell) |
| `Simple.readCtx/readAmb`      | a leaf of a view program reporting what `use_context` / `Owner::current` / `Observer::get` / the arena show |
| `Step.withOwner`              | `Owner::with`: replaces OWNER, **sets** the arena (`Arena::set`), runs the closure, restores OWNER — the arena is NOT restored (as in the code) |
| `Step.withObserver`           | `WithObserver::with_observer` (`SetObserverOnDrop` restores)                                   |
| `Step.enter o ob body`        | `owner.with(|| ob.with_observer(|| body))` inline in a task that is itself NOT wrapped: how the spawned task of an `ArcAsyncDerived` (Resource, AsyncDerived: `spawn_derived!`) runs every (re-)run of the fetcher — the sync part under `owner.with_cleanup(|| subscriber.with_observer(|| ScopedFuture::new(fun())))`, each poll of the async part through that `ScopedFuture` — and how `Effect::new_isomorphic` runs its body |
| `Step.cleanupFns o body`      | the `on_cleanup` functions of owner `o` run by `Owner::cleanup()`, by the `with_cleanup` of a memo / effect re-run, or by the drop of the owner: `Cleanup::cleanup` / `Drop for OwnerInner` hold `Arena::enter(&self.arena)` (fix-c20-4): the owner's own ARENA is current for the functions and the previous one is restored; OWNER and OBSERVER are whatever they were |
| `Step.setRoot` / `Step.unset` | `Owner::new_root` → `Owner::set` (permanent) / `Owner::unset` (clears OWNER only if it is this owner) |
| `Step.yield`                  | an `.await` that returns `Pending`: the poll ends                                               |
| `Step.spawn wr sb p`          | a spawn site: `wr` = the future is wrapped in `ScopedFuture::new` (captures `Owner::current()` and `Observer::get()`), `sb` = in `Sandboxed::new` (captures the arena); e.g. `spawn_local_scoped` = (true,true), `reactive_graph::spawn` = (false,true), a bare `Executor::spawn` = (false,false) |
|                               | after the repairs (hooks/fix-c20-1/3/4): `ArcAction::dispatch` = (true,true) (it was (false,true): F-C20-3); the chunk futures of a `Suspend` outside `Suspense` render their view under the captured owner = `withOwner` (they were unwrapped tasks: F-C20-1/2); `Owner` drop/cleanup runs under the owner's own arena and restores the previous one (`Arena::enter`; it ran under the ambient arena: F-C20-4). The table of real call sites is `Driver/C20.lean` (`compile`, field `old` = the table before the repairs) |
| `Task`                        | a spawned future / a chunk future polled by the response stream                                 |
| `enterAmb` / `exitAmb`        | `Sandboxed::poll` (`Arena::set(captured)`), then `ScopedFuture::poll` = `owner.with(|| observer.with_observer(|| fut.poll(cx)))`; on exit OWNER/OBSERVER are restored, the arena stays |
| `pollTask`, `run`             | the executor polling one task; an interleaving is the list of task indices polled                |
| `cleanupRoot`                 | `Owner::cleanup` / `Drop for OwnerInner` of a root: removes the arena items registered with the owners of its tree (from each owner's own arena), drops their contexts |

WHICH sites of the real code are wrapped (`wrapped`/`sandboxed` flags of each task, the owner a
`withOwner` names) is an INPUT of this model: it is modelled, not verified.  The correspondence
harness (harness/hx-c20) is what checks the real call sites.

Not modelled: `ScopedFuture::new` when there is no current owner (`unwrap_or_default()` makes a
fresh detached owner; the model installs `none`).
-/
namespace Leptos.Ambient

abbrev Req := Nat
abbrev OwnerId := Nat
abbrev ArenaId := Nat
abbrev Id := Nat

/-- the three thread-locals -/
structure Amb where
  owner : Option OwnerId := none
  observer : Option Id := none
  arena : Option ArenaId := none
deriving DecidableEq, Repr

structure OwnerInfo where
  req : Req
  parent : Option OwnerId
  arena : ArenaId
deriving DecidableEq, Repr

/-- a leaf action that does not change the ambient state -/
inductive Simple where
  | readCtx (leaf : Nat)
  | readAmb (leaf : Nat)
  | provide (v : Nat)
  | alloc
deriving DecidableEq, Repr

inductive Step where
  | simple (s : Simple)
  | withOwner (o : OwnerId) (body : List Simple)
  | withObserver (ob : Option Id) (body : List Simple)
  | enter (o : OwnerId) (ob : Option Id) (body : List Simple)
  | cleanupFns (o : OwnerId) (body : List Simple)
  | setRoot (o : OwnerId)
  | unset (o : OwnerId)
  | yield
  | spawn (wrapped sandboxed : Bool) (prog : Nat)
deriving DecidableEq, Repr

/-- the static part: owner forest (`OwnerId` = index) and the bodies of spawnable futures, each
tagged with the request whose code it is -/
structure World where
  owners : List OwnerInfo
  progs : List (Req × List Step)
deriving Repr

def World.reqOf (w : World) (o : OwnerId) : Option Req := (w.owners[o]?).map (·.req)
def World.arenaOf (w : World) (o : OwnerId) : Option ArenaId := (w.owners[o]?).map (·.arena)
def World.parentOf (w : World) (o : OwnerId) : Option OwnerId := (w.owners[o]?).bind (·.parent)

structure CtxEntry where
  owner : OwnerId
  val : Nat
deriving DecidableEq, Repr

structure Item where
  arena : Option ArenaId
  owner : Option OwnerId
deriving DecidableEq, Repr

/-- what a leaf saw -/
structure Obs where
  req : Req
  leaf : Nat
  owner : Option OwnerId
  observer : Option Id
  arena : Option ArenaId
  /-- the context entry `use_context` found (owner it was provided on, value) -/
  ctx : Option CtxEntry
deriving DecidableEq, Repr

structure Task where
  req : Req
  captured : Amb
  wrapped : Bool
  sandboxed : Bool
  steps : List Step
deriving DecidableEq, Repr

/-- the mutable stores a poll can touch -/
structure Mem where
  ctx : List CtxEntry := []
  items : List Item := []
  log : List Obs := []
deriving DecidableEq, Repr

structure State where
  amb : Amb := {}
  mem : Mem := {}
  tasks : List Task := []
deriving DecidableEq, Repr

/-- `use_context` from owner `o`: nearest entry walking up the parents (`fuel` = forest height bound) -/
def lookupCtx (w : World) (ctx : List CtxEntry) : Nat → OwnerId → Option CtxEntry
  | 0, _ => none
  | fuel + 1, o =>
    match ctx.find? (fun e => e.owner == o) with
    | some e => some e
    | none =>
      match w.parentOf o with
      | some p => lookupCtx w ctx fuel p
      | none => none

def useContext (w : World) (ctx : List CtxEntry) (a : Amb) : Option CtxEntry :=
  match a.owner with
  | some o => lookupCtx w ctx (w.owners.length + 1) o
  | none => none

def runSimple (w : World) (r : Req) (a : Amb) (m : Mem) : Simple → Mem
  | .readCtx l =>
    { m with log := m.log ++ [{ req := r, leaf := l, owner := a.owner, observer := a.observer,
                                arena := a.arena, ctx := useContext w m.ctx a }] }
  | .readAmb l =>
    { m with log := m.log ++ [{ req := r, leaf := l, owner := a.owner, observer := a.observer,
                                arena := a.arena, ctx := none }] }
  | .provide v =>
    match a.owner with
    | some o => { m with ctx := { owner := o, val := v } :: m.ctx }
    | none => m
  | .alloc => { m with items := m.items ++ [{ arena := a.arena, owner := a.owner }] }

def runBody (w : World) (r : Req) (a : Amb) (m : Mem) (body : List Simple) : Mem :=
  body.foldl (runSimple w r a) m

/-- `Arena::set(&owner.arena)` as done by `Owner::with` / `Owner::set` -/
def arenaAfterSet (w : World) (o : OwnerId) (cur : Option ArenaId) : Option ArenaId :=
  match w.arenaOf o with
  | some x => some x
  | none => cur

/-- the task created by a spawn site: it captures the ambient state of the spawning code -/
def spawnTask (w : World) (r : Req) (a : Amb) (wr sb : Bool) (p : Nat) : Task :=
  { req := r, captured := a, wrapped := wr, sandboxed := sb
    steps := match w.progs[p]? with
      | some e => e.2
      | none => [] }

/-- run the steps of one poll up to (and consuming) the next `yield`;
returns the ambient state at the end, the stores, the tasks spawned, the remaining steps -/
def runSteps (w : World) (r : Req) : Amb → Mem → List Task → List Step → Amb × Mem × List Task × List Step
  | a, m, sp, [] => (a, m, sp, [])
  | a, m, sp, .yield :: rest => (a, m, sp, rest)
  | a, m, sp, .simple s :: rest => runSteps w r a (runSimple w r a m s) sp rest
  | a, m, sp, .withOwner o body :: rest =>
    let inner : Amb := { a with owner := some o, arena := arenaAfterSet w o a.arena }
    -- OWNER restored, arena left as set
    runSteps w r { a with arena := inner.arena } (runBody w r inner m body) sp rest
  | a, m, sp, .withObserver ob body :: rest =>
    runSteps w r a (runBody w r { a with observer := ob } m body) sp rest
  | a, m, sp, .enter o ob body :: rest =>
    let inner : Amb := { owner := some o, observer := ob, arena := arenaAfterSet w o a.arena }
    runSteps w r { a with arena := inner.arena } (runBody w r inner m body) sp rest
  | a, m, sp, .cleanupFns o body :: rest =>
    -- `Arena::enter(&owner.arena)`: the arena only, and the previous one comes back afterwards
    runSteps w r a (runBody w r { a with arena := arenaAfterSet w o a.arena } m body) sp rest
  | a, m, sp, .setRoot o :: rest =>
    runSteps w r { a with owner := some o, arena := arenaAfterSet w o a.arena } m sp rest
  | a, m, sp, .unset o :: rest =>
    runSteps w r (if a.owner = some o then { a with owner := none } else a) m sp rest
  | a, m, sp, .spawn wr sb p :: rest =>
    runSteps w r a m (sp ++ [spawnTask w r a wr sb p]) rest

/-- ambient state installed for the duration of a poll of `t`, given what the previous poll left (`a0`) -/
def enterAmb (w : World) (t : Task) (a0 : Amb) : Amb :=
  let sandboxArena := if t.sandboxed then t.captured.arena else a0.arena
  if t.wrapped then
    { owner := t.captured.owner
      observer := t.captured.observer
      arena := match t.captured.owner with
        | some o => arenaAfterSet w o sandboxArena
        | none => sandboxArena }
  else
    { a0 with arena := sandboxArena }

/-- ambient state left behind after the poll: a wrapped task restores OWNER and OBSERVER -/
def exitAmb (t : Task) (a0 a1 : Amb) : Amb :=
  if t.wrapped then { owner := a0.owner, observer := a0.observer, arena := a1.arena } else a1

def pollTask (w : World) (s : State) (i : Nat) : State :=
  match s.tasks[i]? with
  | none => s
  | some t =>
    match runSteps w t.req (enterAmb w t s.amb) s.mem [] t.steps with
    | (a1, m1, sp, rest) =>
      { amb := exitAmb t s.amb a1
        mem := m1
        tasks := s.tasks.set i { t with steps := rest } ++ sp }

/-- an interleaving: which task is polled next (an index that names no task is a no-op) -/
def run (w : World) (s : State) : List Nat → State
  | [] => s
  | i :: is => run w (pollTask w s i) is

/-- ready list of the controlled executor: tasks with something left to do -/
def readyIdx (s : State) : List Nat :=
  (List.range s.tasks.length).filter fun i =>
    match s.tasks[i]? with
    | some t => !t.steps.isEmpty
    | none => false

/-- `sched::poll_nth_ready`: index into the ready list, modulo its length -/
def pollNthReady (w : World) (s : State) (n : Nat) : State :=
  let rd := readyIdx s
  match rd[n % rd.length]? with
  | some i => pollTask w s i
  | none => s

/-! ## projections used by the non-interference statement -/

def memOf (w : World) (r : Req) (m : Mem) : Mem :=
  { ctx := m.ctx.filter fun e => w.reqOf e.owner == some r
    items := m.items.filter fun it => it.owner.bind w.reqOf == some r
    log := m.log.filter fun ob => ob.req == r }

/-- the part of the system that belongs to request `r`, as a system of its own ("rendered alone") -/
def view (w : World) (r : Req) (s : State) : State :=
  { amb := {}, mem := memOf w r s.mem, tasks := s.tasks.filter fun t => t.req == r }

def localIdx (r : Req) (tasks : List Task) (i : Nat) : Nat :=
  (tasks.take i).countP fun t => t.req == r

/-- the same relative order of `r`'s own polls, as indices into `r`'s own task list -/
def projSched (w : World) (r : Req) : State → List Nat → List Nat
  | _, [] => []
  | s, i :: is =>
    match s.tasks[i]? with
    | some t =>
      if t.req == r then localIdx r s.tasks i :: projSched w r (pollTask w s i) is
      else projSched w r (pollTask w s i) is
    | none => projSched w r s is

/-! ## disposal -/

/-- is `o` in the tree below `root` (walking up at most `fuel` parents)? -/
def inSubtree (w : World) (root : OwnerId) : Nat → OwnerId → Bool
  | 0, o => o == root
  | fuel + 1, o =>
    o == root ||
      match w.parentOf o with
      | some p => inSubtree w root fuel p
      | none => false

def World.under (w : World) (root o : OwnerId) : Bool := inSubtree w root w.owners.length o

/-- `Owner::cleanup` of a root: every arena item registered with an owner of the tree is removed from
that owner's own arena; the contexts of the tree's owners are dropped -/
def cleanupRoot (w : World) (root : OwnerId) (m : Mem) : Mem :=
  { m with
    items := m.items.filter fun it =>
      match it.owner with
      | some o => !(w.under root o && it.arena == w.arenaOf o)
      | none => true
    ctx := m.ctx.filter fun e => !w.under root e.owner }

end Leptos.Ambient
