import LeptosModel.Model.Wire
import LeptosModel.Model.Reactive
import LeptosModel.Model.ReactiveSel
/-!
Line-protocol driver shared by C01 / C09 / C02 (op grammar: harness/hx-c01/src/lib.rs).
The three properties observe different things of the same run:
C01 the values returned by reads, C09 how often each body ran, C02 what each effect
run read, the ready list, and whether effects are up to date at idle points.

Ops that exist for the implementation's API surface only and are desugared HERE into the constructs
of `Model/Reactive.lean` (the model and its theorems are untouched):

* `acc <n>` — which accessor (`get` / `with` / `read` / `get_untracked` / `with_untracked` /
  `read_untracked` / `try_get_untracked`, `set` / `update` / `write` / `try_set`), which memo constructor
  (`new` / `new_owning` / `new_with_compare(_, !=)`) and which signal family (`RwSignal` or the
  `ReadSignal`/`WriteSignal` pair) each site uses: all of them are the same `rd` / `wr` / `memo` / `sig`
  of the model.  Echo `ok`.
* `memoc <k> <expr>` — a memo built with the coarse comparator `a.div_euclid(k) != b.div_euclid(k)`.
  A comparator is seen by the memo's SUBSCRIBERS only (it decides whether they are marked dirty and what
  `update_if_necessary` reports to them); the stored value is always the freshly computed one and the
  memo's own runs are triggered by its sources only.  The driver therefore admits `memoc` nodes as
  LEAVES only (a later def that reads one is `bad-op`, on both sides) and maps a leaf `memoc k e` to the
  model's `memo e`: with no subscriber the two are observationally identical for reads (C01), run counts
  (C09: the `changed` flag of a node without subscribers reaches nobody) and wake-ups (C02).
* `sel <K> <expr>` — `reactive_graph::computed::Selector::new(move || expr)`: K+1 consecutive node ids, the
  key nodes 0..K-1 and the selector node.  selector.rs: a `RenderEffect::new_isomorphic` stores
  `v = source()` and, when `v` changed, notifies the per-key trigger (an `ArcRwSignal<bool>` that is only
  ever tracked and notified) of the old and of the new key; `selected(k)` tracks key k's trigger and
  answers `k == v`.  Desugaring: key node j is a `sig` node `t_j` holding `(j == v)` as 0/1 (reading it =
  `track` + value, exactly `selected(&j) as i64`), the selector node is a render effect (`reff`) with body
  `seq step_0 (… (seq step_{K-1} expr))`, `step_j = ite (flag_j(expr) - U t_j) (wr t_j (ite (U t_j) 0 1)) 0`,
  `flag_j(e) = ite (e - j) 0 1`: it writes (= notifies, `setSignal`) exactly the keys whose flag flips, i.e.
  the old and the new key; a trigger nobody subscribed to is written without effect.  All `t_j` start at 0; the
  creation run (render effects run at creation) sets the initially selected one.
  `expr` has no binder in the model's `Expr`, so the body evaluates it K+1 times; nothing the body writes is
  read by `expr` (`t_j` are above every id `expr` reads) and memos read by `expr` are clean after its first
  evaluation, so the K+1 evaluations read the same values and run nothing again.  Two observables are printed
  in a canonical form that hides what differs: `eruns=` shows a selector run's tracked reads once (the
  first 1/(K+1) of the `rdv` events of that run); in `woke=` the wake-ups made by one selector run's key writes
  are sorted (the real code walks a hash map of keys: the order between the old key's and the new key's readers
  is unspecified; the order among the readers of ONE key is the subscription order on both sides and is kept by
  the sort only up to node id, which the harness-side wake-order oracle does not rely on).
  Not admitted: `set` / `wr` on a key node, `pause` / `resume` / `dispose` on a selector node, reading a
  selector node (all `bad-op`); `pauseall` / `resumeall` reach the selector like every effect.
  The selector body's `U t_j` reads are not counted as untracked reads of the program (`untrackedFreeD`).
* `memoh <expr>` — leaf memo with the asymmetric comparator `new > old`: as `memoc`.
* `wrap 3|4|5` — reads (and for 3 also writes) through `MappedSignal` / `MaybeSignal` / `MaybeProp`: transparent.
* `ssig a b` / `slice f g s` / `sset <slice> v` — an `RwSignal` holding a struct of two fields and `create_slice`
  (`create_read_slice` = `Memo::new(move |_| signal.with(getter))`, `create_write_slice` = `signal.update(..)`).
  Desugaring: the struct signal is two `sig` nodes (its fields), a slice whose getter shows field g is the memo
  `seq R<other field> R<field g>` - subscribed to BOTH fields, as the real memo is subscribed to the whole signal, so a
  write to either field marks it dirty and it recomputes (run counts agree) while its value only follows field g
  (equality cut-off agrees).  `sset <slice> v` = `set <field s> v`.  Because only slices subscribe to field nodes and
  every slice subscribes to both, the subscriber list of each field equals the real signal's.  Field nodes cannot be
  read or written by other bodies (`bad-op`): a direct reader would subscribe to one field only.
* `weff|wieff|wseff|wsieff [h<id>] <expr>` — `Effect::watch` / `watch_sync`; the handler's read of signal `<id>` is by
  contract untracked and its value goes nowhere: dropped (after checking that `<id>` is a plain signal).
* `rieff` — `RenderEffect::new_isomorphic`: as `reff`.
* `drop <memo>` — dispose / drop a memo that no node reads (checked; it also becomes a leaf): the real memo stays
  behind as a dead entry in its sources' subscriber lists; the model's node simply is never read again.
* `scope` / `endscope` / `cleanupscope <k>` — a child owner; signals and memos defined inside it are created in the
  reference-counted flavour (ArcRwSignal, ArcMemo, ArcSignal wrappers), which by contract outlive the owner they were
  created under.  The model has no owners for signals and memos: scopes are transparent (`cleanupscope` is a step that
  changes nothing).  Only `sig` / `memo` / `memoc` / `memoh` may be defined inside a scope; scopes do not nest.
* `disposew <id>` — a fresh `Signal::from(node)` wrapper is created and disposed: a wrapper is a handle, not the
  node; nothing changes.
* `onclr <sig>` — the cleanup callbacks read a signal: a cleanup is not the body, nobody is subscribed: `ok`.
* `setun <id> <v>` — `update_untracked` / `write_untracked` followed by an explicit `notify()`: the model's `set`.
* `wrap 6` — `Signal<Option<T>>::from(Signal<T>)`: transparent like the other wrappers.
* `memof <sig>` — `ArcMemo::from(signal)` = `ArcMemo::new(move |_| signal.get())`: the memo `R<sig>`.  The harness
  cannot count the runs of a closure it did not write, so `memof` nodes are left out of `runs=` on both sides.
* `selc <K> <expr>` — `Selector::new_with_fn(source, f)` with the non-equality comparator `f(key, v) = (v = key ∨
  v = key + 1)`.  selector.rs: when the stored value changes from `prev` to `next`, EVERY registered key with
  `f(key, next) ∨ f(key, prev)` is notified (whether or not its answer flips); `selected(k)` tracks key k's trigger and
  answers `f(k, v)`.  Desugaring: K key `sig` nodes `t_j` holding `f(j, v)`, one hidden `sig` node `p` holding the
  previous value (−1000 = none; not readable, not writable), and a render effect with body
  `seq step_0 (… (seq step_{K-1} (wr p expr)))`,
  `step_j = ite (expr − U p) (ite (flag_j(expr) + flag_j(U p)) (wr t_j flag_j(expr)) 0) 0`,
  `flag_j(x) = (ite (x − j) 0 1) + (ite (x − j − 1) 0 1)`: a write notifies (`setSignal` always does), so exactly the keys
  the real scan notifies are notified.  The body evaluates `expr` a varying number of times, so `eruns=` lists a `selc`
  selector's runs WITHOUT the values read (both sides).  Everything else as for `sel`.
* `oncl` — every effect run registers one `on_cleanup`; C02 lines then end in ` cl=<node>:<calls>,…` = for every effect,
  one call per run of this op that superseded an earlier run, plus one when it is disposed after having run.
* `imeff <expr>` — `ImmediateEffect::new`: no task; the real effect runs inside the notification that reaches it.
  Desugaring: an `eff` node that runs at creation and is polled to completion after every primitive step (`set`, each
  single poll - `idle` is iterated here -, reads, creations) that leaves it woken; it never shows in `ready=` / `woke=`.
  This equals the real behaviour only when one write changes at most one of the nodes the effect reads directly; the
  driver (and the harness) therefore admit an `imeff` body only if it has no write, no untracked read, its directly
  read nodes are signals or memos over signals only (depth ≤ 1) and have pairwise disjoint signal ancestors, none of
  them a selector key (`immOk`); otherwise `bad-op`.  Outside that class the unchanged code runs the effect (and, through
  longer memo chains, a memo) twice per change and lets it see new + old values: real behaviour, demonstrated by
  hooks/imm-glitch-demo, that the model cannot reproduce without running effects inside notifications.
  In `eruns=` the runs of immediate effects are listed after the others, by node id.
-/
namespace Leptos.Reactive
open Leptos.Wire

inductive Mode where | c01 | c09 | c02 deriving BEq

structure DState where
  prog : Prog := []
  s : State := {}
  /-- (effect, its run count when it was last paused): an effect that has not run since it was paused is
  excused from the convergence oracle (changes made during a pause are documented as not replayed) -/
  pausedAt : List (Nat × Nat) := []
  /-- memoc nodes (leaves) -/
  leaves : List Nat := []
  /-- key nodes of selectors (`sig` nodes of the desugaring) -/
  keys : List Nat := []
  /-- (selector node, number of keys, source expression) -/
  sels : List (Nat × Nat × Expr) := []
  /-- field nodes of struct signals -/
  fields : List Nat := []
  /-- (slice node, field node its setter writes) -/
  slices : List (Nat × Nat) := []
  /-- immediate effects -/
  imms : List Nat := []
  oncl : Bool := false
  /-- dropped memos -/
  dropped : List Nat := []
  /-- scopes: currently inside one; number opened; cleaned up -/
  inScope : Bool := false
  nScopes : Nat := 0
  cleaned : List Nat := []
  /-- `memof` nodes -/
  froms : List Nat := []
  /-- selector nodes made by `selc` -/
  selcs : List Nat := []
  /-- run counts and liveness when the current op started (for `cl=`) -/
  runs0 : List Nat := []
  alive0 : List Bool := []

def parseInt (t : String) : Option Int :=
  if t.startsWith "-" then (t.drop 1).toNat?.map fun n => -(Int.ofNat n) else t.toNat?.map Int.ofNat

/-- prefix parser; fuel = number of tokens -/
def parseExpr : Nat → List String → Option (Expr × List String)
  | 0, _ => none
  | _ + 1, [] => none
  | f + 1, t :: rest =>
    if t == "add" then do
      let (a, r) ← parseExpr f rest
      let (b, r) ← parseExpr f r
      pure (.add a b, r)
    else if t == "unt" then
      -- one `untrack` scope in the implementation; every read inside is already written `U<id>`
      parseExpr f rest
    else if t == "seq" then do
      let (a, r) ← parseExpr f rest
      let (b, r) ← parseExpr f r
      pure (.seq a b, r)
    else if t == "ite" then do
      let (c, r) ← parseExpr f rest
      let (a, r) ← parseExpr f r
      let (b, r) ← parseExpr f r
      pure (.ite c a b, r)
    else if t == "mulc" then
      match rest with
      | k :: r => do
        let k ← parseInt k
        let (a, r) ← parseExpr f r
        pure (.mulc k a, r)
      | [] => none
    else if t == "wr" then
      match rest with
      | i :: r => do
        let i ← i.toNat?
        let (a, r) ← parseExpr f r
        pure (.wr i a, r)
      | [] => none
    else if t.startsWith "L" then (parseInt (t.drop 1).toString).map fun n => (.lit n, rest)
    else if t.startsWith "R" then ((t.drop 1).toString.toNat?).map fun n => (.rd true n, rest)
    else if t.startsWith "U" then ((t.drop 1).toString.toNat?).map fun n => (.rd false n, rest)
    else none

def parseBody (toks : List String) : Option Expr :=
  match parseExpr (toks.length + 1) toks with
  | some (e, []) => some e
  | _ => none

def showIds (l : List Nat) : String := natList l

/-- does the expression read (tracked or not) a node of `l`? -/
def Expr.readsAny (l : List Nat) : Expr → Bool
  | .lit _ => false
  | .rd _ id => l.contains id
  | .add a b => a.readsAny l || b.readsAny l
  | .mulc _ a => a.readsAny l
  | .ite c t e => c.readsAny l || t.readsAny l || e.readsAny l
  | .seq a b => a.readsAny l || b.readsAny l
  | .wr _ a => a.readsAny l

def Expr.writesAny (l : List Nat) : Expr → Bool
  | .lit _ => false
  | .rd _ _ => false
  | .add a b => a.writesAny l || b.writesAny l
  | .mulc _ a => a.writesAny l
  | .ite c t e => c.writesAny l || t.writesAny l || e.writesAny l
  | .seq a b => a.writesAny l || b.writesAny l
  | .wr id a => l.contains id || a.writesAny l

/-- `flag_j(e)`: 1 if `e = j`, else 0 -/
def selFlag (e : Expr) (j : Nat) : Expr := .ite (.add e (.lit (-(Int.ofNat j)))) (.lit 0) (.lit 1)

/-- flip key node `t` (key j) when its flag differs from `flag_j(e)` -/
def selStep (e : Expr) (t j : Nat) : Expr :=
  .ite (.add (selFlag e j) (.mulc (-1) (.rd false t))) (.wr t (.ite (.rd false t) (.lit 0) (.lit 1))) (.lit 0)

/-- body of the render effect a selector desugars to -/
def selBody (e : Expr) (first k : Nat) : Expr :=
  (List.range k).foldr (fun j acc => .seq (selStep e (first + j) j) acc) e

/-- nodes read directly (no duplicates) -/
def Expr.directReads : Expr → List Nat
  | .lit _ => []
  | .rd _ id => [id]
  | .add a b => (a.directReads ++ b.directReads).eraseDups
  | .mulc _ a => a.directReads
  | .ite c t e => (c.directReads ++ t.directReads ++ e.directReads).eraseDups
  | .seq a b => (a.directReads ++ b.directReads).eraseDups
  | .wr _ a => a.directReads

/-- signal ancestors of a node, through every read of memo bodies -/
def ancestors (p : Prog) : Nat → Nat → List Nat
  | 0, _ => []
  | f + 1, id =>
    match p[id]? with
    | some (.sig _) => [id]
    | some (.memo b) => (b.directReads.flatMap (ancestors p f)).eraseDups
    | some (.eff b) => (b.directReads.flatMap (ancestors p f)).eraseDups
    | none => []

def pairwiseDisjoint : List (List Nat) → Bool
  | [] => true
  | x :: rest => rest.all (fun y => !(x.any y.contains)) && pairwiseDisjoint rest

/-- body admitted for an immediate effect (see the header) -/
def immOk (p : Prog) (keys : List Nat) (b : Expr) : Bool :=
  let anc := b.directReads.map (ancestors p (p.length + 1))
  -- depth ≤ 1: a directly read memo reads signals only
  let shallow := b.directReads.all fun r =>
    match p[r]? with
    | some (.memo mb) => mb.directReads.all fun x => (match p[x]? with | some (.sig _) => !keys.contains x | _ => false)
    | some (.sig _) => true
    | _ => false
  b.noWrite && b.noUntracked && !(b.directReads.any keys.contains) && shallow && pairwiseDisjoint anc

def insertSorted (x : Nat) : List Nat → List Nat
  | [] => [x]
  | y :: ys => if x ≤ y then x :: y :: ys else y :: insertSorted x ys

def sortNat (l : List Nat) : List Nat := l.foldr insertSorted []

/-- `Current(id)`: the last run of `id` saw exactly the values its tracked inputs have now -/
def current : Nat → State → Nat → Bool
  | 0, _, _ => false
  | f + 1, s, id =>
    let n := s.get id
    match n.kind with
    | .sig => true
    | _ =>
      n.runs != 0 && n.seen.all fun (x, v, _) =>
        match (s.get x).kind with
        | .sig => (s.get x).val == some v
        | _ => current f s x && (s.get x).val == some v

def untrackedFree (p : Prog) : Bool :=
  p.all fun d => match d with | .sig _ => true | .memo b => b.noUntracked | .eff b => b.noUntracked

/-- as `untrackedFree`, a selector node counting with its source expression (not with the desugared body) -/
def untrackedFreeD (p : Prog) (sels : List (Nat × Nat × Expr)) : Bool :=
  (List.range p.length).all fun i =>
    match sels.find? (fun (x : Nat × Nat × Expr) => x.1 == i) with
    | some (_, _, src) => src.noUntracked
    | none => match p[i]? with | some (.memo b) => b.noUntracked | some (.eff b) => b.noUntracked | _ => true

def countRuns (log : List Ev) (n : Nat) : List (Nat × Nat) :=
  (List.range n).filterMap fun i =>
    let c := (log.filter fun e => e == .ran i).length
    if c == 0 then none else some (i, c)

def firstUnjust (log : List Ev) : Option Nat :=
  log.findSome? fun e => match e with | .unjust i => some i | _ => none

/-- effect runs of one op: `e:v1,v2;e:v…` from the ghost log -/
def effectRuns (p : Prog) (sels : List (Nat × Nat × Expr)) (selcs imms : List Nat) (log : List Ev) : String :=
  let isEff (i : Nat) : Bool := match p[i]? with | some (.eff _) => true | _ => false
  -- fold: current list of (effect, reads) in order
  let runs : List (Nat × List Int) := log.foldl (fun acc e =>
    match e with
    | .ran i => if isEff i then acc ++ [(i, [])] else acc
    | .rdv self _ v =>
      if isEff self then
        match acc.reverse with
        | (i, vs) :: restRev => if i == self then (restRev.reverse ++ [(i, vs ++ [v])]) else acc
        | [] => acc
      else acc
    | _ => acc) []
  -- a selector run evaluates its source K+1 times with the same reads: show them once
  let runs : List (Nat × List Int) := runs.map fun ((i, vs) : Nat × List Int) =>
    match sels.find? (fun (x : Nat × Nat × Expr) => x.1 == i) with
    | some (_, k, _) => if selcs.contains i then (i, []) else (i, vs.take (vs.length / (k + 1)))
    | none => (i, vs)
  -- immediate effects after the others, by node id
  let runs := runs.filter (fun x => !imms.contains x.1) ++
    (imms.flatMap fun i => runs.filter (fun x => x.1 == i))
  ";".intercalate (runs.map fun (i, vs) => s!"{i}:" ++ ",".intercalate (vs.map toString))

/-- does node `x` (by the tracked reads of its last run) depend on signal `sig`? -/
def dependsOn : Nat → State → Nat → Nat → Bool
  | 0, _, _, _ => false
  | f + 1, s, x, sig =>
    x == sig || ((s.get x).kind != .sig && (s.get x).seen.any fun (y, _, _) => dependsOn f s y sig)

/-- wake-ups in order; those made by the key writes of one selector run (a maximal stretch of the log that
starts at a write of a key node and contains no `ran` and no write of another signal) are sorted -/
def wokeList (keys imms : List Nat) (log : List Ev) : List Nat :=
  let (out, seg, _) := log.foldl (fun (acc : List Nat × List Nat × Bool) e =>
    let (out, seg, open_) := acc
    match e with
    | .woke i =>
      -- an immediate effect has no task
      if imms.contains i then acc else
      if open_ then (out, seg ++ [i], open_) else (out ++ [i], seg, open_)
    | .set x => if keys.contains x then (out, seg, true) else (out ++ sortNat seg, [], false)
    | .ran _ => (out ++ sortNat seg, [], false)
    | _ => acc) ([], [], false)
  out ++ sortNat seg

def idleVerdict (p : Prog) (sels : List (Nat × Nat × Expr)) (s : State) (pausedAt : List (Nat × Nat)) : Option String :=
  if !(ready s).isEmpty || !untrackedFreeD p sels then none else
  -- disposed effects need not be current; effects that are or were paused are excused (changes made
  -- during a pause are documented as not replayed) — the driver tracks that in `everPaused` = `first` reuse is avoided:
  let effs := (List.range p.length).filter fun i =>
    (match p[i]? with | some (.eff _) => true | _ => false) && (s.get i).alive && !(s.get i).paused
      && !(pausedAt.any fun (e, r) => e == i && (s.get i).runs == r)
  let bad := effs.findSome? fun e =>
    let n := s.get e
    if n.runs == 0 then some "fail never-ran"
    else if n.seen.any (fun (x, v, _) => specVal p s x != v) then
      -- an effect whose own body writes a signal is a feedback loop when the write reaches something it read
      -- (class of F-C02-2); a read-only effect that is stale is the plain class
      -- (a selector's key writes are not read by its source: never a feedback loop)
      if (bodyOf p e).noWrite || sels.any (fun (x : Nat × Nat × Expr) => x.1 == e) then some "fail stale-effect" else some "fail self-feedback-stale"
    else none
  some (bad.getD "ok")

/-- `cl=`: per effect, the runs of this op that superseded an earlier run, plus its disposal after it had run -/
def cleanupCalls (d : DState) : String :=
  let items : List String := (List.range d.prog.length).filterMap fun (e : Nat) =>
    match d.prog[e]? with
    | some (NodeDef.eff _) =>
      let ran := (d.s.log.filter fun ev => ev == Ev.ran e).length
      let r0 := d.runs0.getD e 0
      let reruns := if r0 == 0 then ran - 1 else ran
      let disposed := if d.alive0.getD e true && !(d.s.get e).alive && (d.s.get e).runs != 0 then 1 else 0
      let n := reruns + disposed
      if n == 0 then none else some s!"{e}:{n}"
    | _ => none
  ",".intercalate items

def afterOp (m : Mode) (d : DState) (read : Option (Nat × Int)) : String :=
  let s := d.s
  match m with
  | .c01 =>
    match read with
    | some (id, v) =>
      let verdict :=
        if !current (fuelFor d.prog) s id then "fail not-current"
        else if untrackedFreeD d.prog d.sels && v != specVal d.prog s id then "fail not-scratch"
        else "ok"
      s!"{v} ## {verdict}"
    | none => "ok"
  | .c09 =>
    let runs := (countRuns s.log d.prog.length).filter fun x => !d.froms.contains x.1
    let verdict := match firstUnjust s.log with
      | some _ => "fail unjustified-run"
      | none => "ok"
    "runs=" ++ ",".intercalate (runs.map fun (i, c) => s!"{i}:{c}") ++ " ## " ++ verdict
  | .c02 =>
    let base := "eruns=" ++ effectRuns d.prog d.sels d.selcs d.imms s.log ++ " woke=" ++ showIds (wokeList d.keys d.imms s.log) ++ " ready=" ++ showIds (ready s)
    let base := if d.oncl then base ++ " cl=" ++ cleanupCalls d else base
    match idleVerdict d.prog d.sels s d.pausedAt with
    | some v => base ++ " ## " ++ v
    | none => base

def clearLog (d : DState) : DState :=
  { d with s := { d.s with log := [] }, runs0 := d.s.nodes.map (·.runs), alive0 := d.s.nodes.map (·.alive) }

/-- Run every woken immediate effect to completion, in the order in which they were notified (the order of their
`woke` events in the log from position `pos` on): the real effects run inside the notifications, so the memos they
pull re-subscribe to their sources in that order.  A run can recompute a memo another immediate effect reads: its
notification is appended to the log and found later. -/
def flushImm (p : Prog) (imms : List Nat) : Nat → Nat → State → State
  | 0, _, s => s
  | k + 1, pos, s =>
    let evs := s.log.drop pos
    let hit := evs.zipIdx.findSome? fun (e, j) =>
      match e with
      | .woke i => if imms.contains i && (s.get i).woken then some (i, j) else none
      | _ => none
    match hit with
    | some (i, j) => flushImm p imms k (pos + j + 1) (pollEff p s i)
    | none =>
      -- (woken without a fresh `woke` event cannot happen: immediate effects are never left woken)
      match imms.find? (fun i => (s.get i).woken) with
      | some i => flushImm p imms k pos (pollEff p s i)
      | none => s

def flush (d : DState) : DState :=
  if d.imms.isEmpty then d else { d with s := flushImm d.prog d.imms 64 0 d.s }

/-- `idle` with immediate effects: FIFO polls, flushing after each -/
def idleImm (p : Prog) (imms : List Nat) : Nat → State → State
  | 0, s => s
  | k + 1, s =>
    if (ready s).isEmpty then s else
    let pos := s.log.length
    idleImm p imms k (flushImm p imms 64 pos (pollNth p s 0))

/-- `Effect::new_sync`, `Effect::new_isomorphic` and `Effect::watch` (the body being the dependency function, the handler
reading nothing) share the task loop and `EffectInner` of `Effect::new`: for the model they are `eff` nodes. -/
def normKw (ws : List String) : List String :=
  match ws with
  | kw :: rest =>
    if kw == "seff" || kw == "ieff" || kw == "weff" || kw == "wieff" || kw == "wseff" || kw == "wsieff" then "eff" :: rest
    else if kw == "rieff" then "reff" :: rest
    else ws
  | [] => []

/-- a new body may not read a memoc / memoh leaf or a field node and may not write a key or field node -/
def okBody (d : DState) (b : Expr) : Bool :=
  !b.readsAny (d.leaves ++ d.fields) && !b.writesAny (d.keys ++ d.fields)

/-- watch kinds: drop the optional `h<id>` (the signal the handler reads) after checking it is a plain signal -/
def stripHandler (d : DState) (ws : List String) : List String :=
  match ws with
  | kw :: t :: rest =>
    if (kw == "weff" || kw == "wieff" || kw == "wseff" || kw == "wsieff") && t.startsWith "h" then
      match (t.drop 1).toString.toNat? with
      | some h =>
        match d.prog[h]? with
        | some (.sig _) => if d.keys.contains h || d.fields.contains h then ["bad-op"] else kw :: rest
        | _ => ["bad-op"]
      | none => ["bad-op"]
    else ws
  | _ => ws

def addNode (d : DState) (nd : NodeDef) : DState :=
  { d with prog := d.prog ++ [nd], s := { d.s with nodes := d.s.nodes ++ [initNode nd] } }

/-- `set id v` on a signal node -/
def doSet (m : Mode) (d : DState) (id : Nat) (v : Int) : DState × String :=
  let d := clearLog d
  -- the pause excuse covers only changes made during the pause
  let d := { d with pausedAt := d.pausedAt.filter fun (e, _) =>
    !(!(d.s.get e).paused && dependsOn (fuelFor d.prog) d.s e id) }
  let d := flush { d with s := (step d.prog d.s (.set id v)).1 }
  (d, afterOp m d none)

/-- inside a scope only signals and memos can be defined -/
def scopeGuard (d : DState) (ws : List String) : List String :=
  match ws with
  | kw :: _ =>
    if d.inScope && (kw == "selc" || kw == "memof" || kw == "ssig" || kw == "slice" || kw == "sel" || kw == "eff" || kw == "reff" || kw == "imeff")
    then ["bad-op"] else ws
  | [] => ws

def stepLine (m : Mode) (d : DState) (line : String) : DState × String :=
  match scopeGuard d (normKw (stripHandler d (words line))) with
  | ["case", n] => ({}, s!"case {n}")
  | ["mode", _] => (d, "ok")
  | ["wrap", _] => (d, "ok")   -- reads go through Signal::from / Signal::derive: transparent for the model
  | ["acc", n] => (d, if n.toNat?.isSome then "ok" else "bad-op")   -- accessor / constructor variety: transparent
  | ["ssig", a, b] =>
    match parseInt a, parseInt b with
    | some a, some b =>
      let first := d.prog.length
      let d := addNode (addNode d (.sig a)) (.sig b)
      let d := { d with fields := d.fields ++ [first, first + 1] }
      (d, if m == .c02 then "ok ready=" ++ showIds (ready d.s) else "ok")
    | _, _ => (d, "bad-op")
  | ["slice", f, g, st] =>
    match f.toNat?, g.toNat?, st.toNat? with
    | some f, some g, some st =>
      -- `f` is the FIRST field node of a struct signal
      let isFirst := (d.fields.zipIdx.any fun (x, i) => x == f && i % 2 == 0)
      if isFirst && g ≤ 1 && st ≤ 1 then
        let id := d.prog.length
        let d := addNode d (.memo (.seq (.rd true (f + 1 - g)) (.rd true (f + g))))
        let d := { d with slices := d.slices ++ [(id, f + st)] }
        (d, if m == .c02 then "ok ready=" ++ showIds (ready d.s) else "ok")
      else (d, "bad-op")
    | _, _, _ => (d, "bad-op")
  | ["drop", id] =>
    match id.toNat? with
    | some id =>
      let isMemo := match d.prog[id]? with | some (.memo _) => true | _ => false
      let readBy := d.prog.any fun nd => match nd with
        | .memo b => b.readsAny [id] | .eff b => b.readsAny [id] | .sig _ => false
      if isMemo && !(d.slices.any fun (x : Nat × Nat) => x.1 == id) && !d.dropped.contains id && !readBy then
        let d := clearLog { d with leaves := d.leaves ++ [id], dropped := d.dropped ++ [id] }
        (d, afterOp m d none)
      else (d, "bad-op")
    | none => (d, "bad-op")
  | ["memof", sg] =>
    match sg.toNat? with
    | some sg =>
      match (if d.keys.contains sg || d.fields.contains sg then none else d.prog[sg]?) with
      | some (.sig _) =>
        let d := { d with froms := d.froms ++ [d.prog.length] }
        let d := addNode d (.memo (.rd true sg))
        (d, if m == .c02 then "ok ready=" ++ showIds (ready d.s) else "ok")
      | _ => (d, "bad-op")
    | none => (d, "bad-op")
  | ["onclr", sg] =>
    match sg.toNat? with
    | some sg =>
      match d.prog[sg]? with
      | some (.sig _) => if d.keys.contains sg || d.fields.contains sg then (d, "bad-op") else (d, "ok")
      | _ => (d, "bad-op")
    | none => (d, "bad-op")
  | ["setun", id, v] =>
    match id.toNat?, parseInt v with
    | some id, some v =>
      match (if d.keys.contains id || d.fields.contains id then none else d.prog[id]?) with
      | some (.sig _) => doSet m d id v
      | _ => (d, "bad-op")
    | _, _ => (d, "bad-op")
  | ["sset", id, v] =>
    match id.toNat?, parseInt v with
    | some id, some v =>
      match d.slices.find? (fun (x : Nat × Nat) => x.1 == id) with
      | some (_, target) => doSet m d target v
      | none => (d, "bad-op")
    | _, _ => (d, "bad-op")
  | "memoh" :: toks =>
    match parseBody toks with
    | some b =>
      if wfNode d.prog d.prog.length (.memo b) && okBody d b then
        let d := { d with leaves := d.leaves ++ [d.prog.length] }
        let d := addNode d (.memo b)
        (d, if m == .c02 then "ok ready=" ++ showIds (ready d.s) else "ok")
      else (d, "bad-op")
    | none => (d, "bad-op")
  | "imeff" :: toks =>
    match parseBody toks with
    | some b =>
      if wfNode d.prog d.prog.length (.eff b) && okBody d b && immOk d.prog d.keys b then
        let e := d.prog.length
        let d := addNode d (.eff b)
        let d := clearLog d
        -- runs at creation; no task: never woken between steps
        let s := initRenderEffect d.prog d.s e
        let d := flush { d with s := s.upd e fun n => { n with woken := false }, imms := d.imms ++ [e] }
        (d, if m == .c02 then "ok " ++ afterOp m d none else if m == .c09 then afterOp m d none else "ok")
      else (d, "bad-op")
    | none => (d, "bad-op")
  | "memoc" :: k :: toks =>
    match parseInt k, parseBody toks with
    | some k, some b =>
      if 2 ≤ k && k ≤ 9 && wfNode d.prog d.prog.length (.memo b) && okBody d b then
        let d := { d with leaves := d.leaves ++ [d.prog.length] }
        let d := { d with prog := d.prog ++ [.memo b], s := { d.s with nodes := d.s.nodes ++ [initNode (.memo b)] } }
        (d, if m == .c02 then "ok ready=" ++ showIds (ready d.s) else "ok")
      else (d, "bad-op")
    | _, _ => (d, "bad-op")
  | "selc" :: k :: toks =>
    match k.toNat?, parseBody toks with
    | some k, some src =>
      let first := d.prog.length
      if 2 ≤ k && k ≤ 8 && wfNode d.prog first (.memo src) && okBody d src then
        let hidden := first + k
        let node := first + k + 1
        let keyDefs := List.replicate k (NodeDef.sig 0) ++ [NodeDef.sig (-1000)]
        let body := selcBody src first k
        let d := { d with
          prog := d.prog ++ keyDefs ++ [.eff body],
          s := { d.s with nodes := d.s.nodes ++ keyDefs.map initNode ++ [initNode (.eff body)] },
          keys := d.keys ++ (List.range (k + 1)).map (first + ·),
          leaves := d.leaves ++ [hidden],
          dropped := d.dropped ++ [hidden],
          sels := d.sels ++ [(node, k, src)],
          selcs := d.selcs ++ [node] }
        let d := clearLog d
        let d := flush { d with s := initRenderEffect d.prog d.s node }
        (d, if m == .c02 then "ok " ++ afterOp m d none else if m == .c09 then afterOp m d none else "ok")
      else (d, "bad-op")
    | _, _ => (d, "bad-op")
  | "sel" :: k :: toks =>
    match k.toNat?, parseBody toks with
    | some k, some src =>
      let first := d.prog.length
      if 1 ≤ k && k ≤ 8 && wfNode d.prog first (.memo src) && okBody d src then
        let node := first + k
        let keyDefs := List.replicate k (NodeDef.sig 0)
        let body := selBody src first k
        let d := { d with
          prog := d.prog ++ keyDefs ++ [.eff body],
          s := { d.s with nodes := d.s.nodes ++ keyDefs.map initNode ++ [initNode (.eff body)] },
          keys := d.keys ++ (List.range k).map (first + ·),
          sels := d.sels ++ [(node, k, src)] }
        let d := clearLog d
        let d := flush { d with s := initRenderEffect d.prog d.s node }
        (d, if m == .c02 then "ok " ++ afterOp m d none else if m == .c09 then afterOp m d none else "ok")
      else (d, "bad-op")
    | _, _ => (d, "bad-op")
  | ["cleanupscope", k] =>
    match k.toNat? with
    | some k =>
      if k < d.nScopes && !d.cleaned.contains k && !(d.inScope && k + 1 == d.nScopes) then
        let d := clearLog { d with cleaned := d.cleaned ++ [k] }
        (d, afterOp m d none)
      else (d, "bad-op")
    | none => (d, "bad-op")
  | ["disposew", id] =>
    match id.toNat? with
    | some id =>
      let ok := !d.dropped.contains id && !d.fields.contains id && !d.keys.contains id &&
        !(d.slices.any fun (x : Nat × Nat) => x.1 == id) &&
        (match d.prog[id]? with | some (.sig _) => true | some (.memo _) => true | _ => false)
      if ok then
        let d := clearLog d
        (d, afterOp m d none)
      else (d, "bad-op")
    | none => (d, "bad-op")
  | [op] =>
    if op == "oncl" then ({ d with oncl := true }, "ok")
    else if op == "scope" then
      if d.inScope then (d, "bad-op") else ({ d with inScope := true, nScopes := d.nScopes + 1 }, "ok")
    else if op == "endscope" then
      if d.inScope then ({ d with inScope := false }, "ok") else (d, "bad-op")
    else if op == "pauseall" || op == "resumeall" then
      -- `Owner::pause` / `resume` on the root owner reaches every effect's owner
      let d := clearLog d
      let effs := (List.range d.prog.length).filter fun i =>
        (match d.prog[i]? with | some (.eff _) => true | _ => false) && (d.s.get i).alive
      let s := effs.foldl (fun s e =>
        (step d.prog s (if op == "pauseall" then Op.pause e else Op.resume e)).1) d.s
      let pausedAt := if op == "pauseall" then
          effs.map (fun e => (e, (s.get e).runs)) ++ d.pausedAt.filter (fun x => !effs.contains x.1)
        else d.pausedAt
      let d := { d with s := s, pausedAt := pausedAt }
      (d, afterOp m d none)
    else if op == "idle" then
      let d := clearLog d
      let d := if d.imms.isEmpty then { d with s := (step d.prog d.s .idle).1 }
               else { d with s := idleImm d.prog d.imms 256 d.s }
      (d, afterOp m d none)
    else (d, "bad-op")
  | "sig" :: [v] =>
    match parseInt v with
    | some v =>
      let d := { d with prog := d.prog ++ [.sig v], s := { d.s with nodes := d.s.nodes ++ [initNode (.sig v)] } }
      (d, if m == .c02 then "ok ready=" ++ showIds (ready d.s) else "ok")
    | none => (d, "bad-op")
  | "memo" :: toks =>
    match parseBody toks with
    | some b =>
      if wfNode d.prog d.prog.length (.memo b) && okBody d b then
        let d := { d with prog := d.prog ++ [.memo b], s := { d.s with nodes := d.s.nodes ++ [initNode (.memo b)] } }
        (d, if m == .c02 then "ok ready=" ++ showIds (ready d.s) else "ok")
      else (d, "bad-op")
    | none => (d, "bad-op")
  | "eff" :: toks =>
    match parseBody toks with
    | some b =>
      if wfNode d.prog d.prog.length (.eff b) && okBody d b then
        let d := { d with prog := d.prog ++ [.eff b], s := { d.s with nodes := d.s.nodes ++ [initNode (.eff b)] } }
        (d, if m == .c02 then "ok ready=" ++ showIds (ready d.s) else "ok")
      else (d, "bad-op")
    | none => (d, "bad-op")
  | "reff" :: toks =>
    match parseBody toks with
    | some b =>
      if wfNode d.prog d.prog.length (.eff b) && okBody d b then
        let e := d.prog.length
        let d := { d with prog := d.prog ++ [.eff b], s := { d.s with nodes := d.s.nodes ++ [initNode (.eff b)] } }
        let d := clearLog d
        let d := flush { d with s := initRenderEffect d.prog d.s e }
        (d, if m == .c02 then "ok " ++ afterOp m d none else if m == .c09 then afterOp m d none else "ok")
      else (d, "bad-op")
    | none => (d, "bad-op")
  | ["set", id, v] =>
    match id.toNat?, parseInt v with
    | some id, some v =>
      match (if d.keys.contains id then none else d.prog[id]?) with
      | some (.sig _) => doSet m d id v
      | _ => (d, "bad-op")
    | _, _ => (d, "bad-op")
  | ["read", id] =>
    match id.toNat? with
    | some id =>
      match (if d.dropped.contains id then none else d.prog[id]?) with
      | some (.sig _) | some (.memo _) =>
        let d := clearLog d
        let (s, v) := step d.prog d.s (.read id)
        let d := flush { d with s := s }
        (d, afterOp m d (some (id, v.getD 0)))
      | _ => (d, "bad-op")
    | none => (d, "bad-op")
  | ["poll", i] =>
    match i.toNat? with
    | some i =>
      let d := clearLog d
      let r := ready d.s
      let polled := if r.isEmpty then "none" else toString (r.getD (i % r.length) 0)
      let d := flush { d with s := (step d.prog d.s (.poll i)).1 }
      (d, (if m == .c02 then s!"polled={polled} " else "") ++ afterOp m d none)
    | none => (d, "bad-op")
  | [op, e] =>
    if op == "pause" || op == "resume" || op == "dispose" then
      match e.toNat? with
      | some e =>
        match (if d.sels.any (fun (x : Nat × Nat × Expr) => x.1 == e) || d.imms.contains e then none else d.prog[e]?) with
        | some (.eff _) =>
          let d := clearLog d
          let o : Op := if op == "pause" then .pause e else if op == "resume" then .resume e else .dispose e
          let d := flush { d with s := (step d.prog d.s o).1 }
          let d := if op == "pause" then
              { d with pausedAt := (e, (d.s.get e).runs) :: d.pausedAt.filter (fun x => x.1 != e) } else d
          (d, afterOp m d none)
        | _ => (d, "bad-op")
      | none => (d, "bad-op")
    else (d, "bad-op")
  | _ => (d, "bad-op")

end Leptos.Reactive
