/-!
# Router — executable model of leptos_router's path matching and of the flat route table (C14)

Paths, segment texts and parameter names are `List Char` everywhere.  Rust works with byte
offsets into `&str`; the model keeps `List Char` and does the *byte* arithmetic explicitly
(`Char.utf8Size`, `splitBytes`), so that a slice that is not on a character boundary is the
model outcome `panic` — exactly what `str::split_at` / `&path[a..b]` do.

Rust function (file under /repo/router/src/matching unless said otherwise) ↦ model function

* `StaticSegment::test` (horizontal/static_segment.rs) ↦ `staticLoop`, `staticTest`
* `ParamSegment::test`, `OptionalParamSegment::test`, `WildcardSegment::test`
  (horizontal/param_segments.rs) ↦ `scanSeg`, `paramScan`, `paramTest`, `optTest`, `splatTest`
* `impl PossibleRouteMatch for ()`, `(A,)`, and the `tuples!` macro incl. the `include_optionals`
  back-off loop (horizontal/tuples.rs, static_segment.rs) ↦ `Seg.optional`, `Seg.test`, `passFields`, `backoff`
* `generate_path` of segments and tuples ↦ `Seg.gen`
* `NestedRoute::match_nested` (nested/mod.rs: children on `remaining`, optional-parent fallback on
  the full path, `trim_end_matches` + re-test + `unwrap`, `remaining ∈ {"", "/"}`) ↦ `matchNested`, `trimEnd`
* `MatchNestedRoutes for (A,)/(A,B)/(A,…)/StaticVec` (nested/tuples.rs: first child that matches
  wins) ↦ `matchChildren`
* `RouteDefs::match_route` (mod.rs: base stripping, final `remaining` check) ↦ `stripBase`, `matchRoute`
* `NestedRoute::generate_routes`, tuple `generate_routes`, `RouteDefs::generate_routes` + the
  base prefix added in nested_router.rs/flat_router.rs ↦ `Route.gen`, `genList`, `flatRoutes`
* `NestedRoute::ssr_mode(..)`, `SsrMode` and its derived `Ord` (ssr_mode.rs; `StaticRoute::cmp` is
  always `Equal`, static_routes.rs), and the mode / methods / regenerate part of
  `NestedRoute::generate_routes` (`if child.ssr_mode > ssr_mode`) ↦ `Mode`, `Mode.rank`, `pickMode`,
  `RouteM`, `RouteM.genM`, `genMList`, `GenRoute`; the definition tree without the modes ↦ `RouteM.erase`
* `ExpandOptionals::expand_optionals` (path_segment.rs, the worklist with `pop`) ↦ `firstOpt`,
  `expandLoop`, `expandOptionals`; its recursive specification ↦ `expandSpec`
* `StaticPath::into_paths` (../static_routes.rs, one value per parameter) ↦ `buildPath`
* integrations/axum `to_axum_path` + `into_route_listing` (`"" ↦ "/"`) ↦ `joinAxum`, `patternTokens`
* the independent flat matcher (DESIGN §7 C14: split on `/`, static tokens equal, param token
  non-empty, splat takes the rest) ↦ `tokMatch`, `flatMatchStrict`, `flatMatch` (= one trailing `/`
  of the path insignificant)

The code is modelled as it is, remaining defects included (the optional-parent fallback, the
prefix-only back-off of optionals, nested tuples counted as one optional field, `"/"` parents).

`Seg.test`, `passFields`, `matchNested`, `matchChildren`, `stripBase`, `matchRoute` take a version
`k : Ver`: `.cur` is the Rust code as it is now (after the `fix:` commits fix-c14-1..5: static
segments end at a segment boundary, param segments no longer swallow a character, the base matches
whole segments, the optional fallback no longer unwraps and re-parses the parent on the empty prefix); `.old` is the code before these repairs (kept
for the regression witnesses); `.aligned` is the *segment-aligned variant* of `.cur` (an atom is only
tested at the end of the path or in front of a `/`; the base is one aligned static prefix).  That
variant exists only to state the decidable input class `SegmentAligned d path := matchRoute .cur d
path = matchRoute .aligned d path`.  The last section (`judge`, `Kind`, `Class`, `classify`) is the property's
oracle and the known-finding classes, shared by the driver and the theorems.
-/
namespace Leptos.Router

abbrev Path := List Char
abbrev Params := List (List Char × List Char)

/-- which code is modelled: `old` = the router before the `fix:` commits fix-c14-1..5 (kept for the
regression witnesses), `cur` = the code as it is now, `aligned` = `cur` with every atom tested only at a
segment boundary (used to state the input class `SegmentAligned`) -/
inductive Ver where
  | old
  | cur
  | aligned
  deriving Repr, DecidableEq

/-- the four repairs are in (`cur`, `aligned`) -/
def Ver.fixed : Ver → Bool
  | .old => false
  | _ => true

/-- outcome of a Rust call that returns `Option` and may panic -/
inductive Out (α : Type) where
  | panic
  | none
  | some (a : α)
  deriving Repr, DecidableEq

/-- `PartialPathMatch` -/
structure PM where
  matched : Path
  remaining : Path
  params : Params
  deriving Repr, DecidableEq

/-- `str::len` -/
def bytes : Path → Nat
  | [] => 0
  | c :: cs => c.utf8Size + bytes cs

/-- `str::split_at(n)`; `none` = panic (index inside a character or past the end) -/
def splitBytes : Path → Nat → Option (Path × Path)
  | p, 0 => some ([], p)
  | [], _ + 1 => none
  | c :: cs, n + 1 =>
    if c.utf8Size ≤ n + 1 then
      match splitBytes cs (n + 1 - c.utf8Size) with
      | some (a, b) => some (c :: a, b)
      | none => none
    else none

/-- `&path[a..b]` -/
def sliceBytes (p : Path) (a b : Nat) : Option Path :=
  if a ≤ b then
    match splitBytes p a with
    | some (_, r) => (splitBytes r (b - a)).map (·.1)
    | none => none
  else none

/-! ## segments -/

/-- the `for char in test` loop of `StaticSegment::test` followed by `this.next().is_some()`;
`none` = `return None`, `some (has_matched, matched_len)` otherwise.  `strict` (fix-c14-1): when the
segment's text is used up and the path goes on with a character other than `/`, no match. -/
def staticLoop (strict : Bool) : (this test : Path) → Bool → Nat → Option (Bool × Nat)
  | this, [], hm, ml => if this.isEmpty then some (hm, ml) else none
  | [], c :: _, hm, ml => if strict ∧ c ≠ '/' then none else some (hm, ml)
  | n :: this, c :: test, _, ml =>
    if c = '/' then none
    else if c = n then staticLoop strict this test true (ml + c.utf8Size)
    else none

/-- `fixed = false`: before fix-c14-1 (the loop just stopped when the segment's text ran out);
`""` and `"/"` have no text of their own and are exempt from the boundary check -/
def staticTest (fixed : Bool) (s : Path) (path : Path) : Out PM :=
  let hm0 := s.isEmpty || s == ['/']
  let strict := fixed && !hm0
  let r :=
    match path with
    | c :: t =>
      if c = '/' then
        staticLoop strict (if s.head? = some '/' ∨ s.isEmpty then s.tail else s) t hm0 (if s.isEmpty then 0 else 1)
      else staticLoop strict s path hm0 0
    | [] => staticLoop strict s path hm0 0
  match r with
  | none => .none
  | some (hm, ml) =>
    match splitBytes path ml with
    | none => .panic
    | some (m, rest) => if hm then .some ⟨m, rest, []⟩ else .none

/-- bytes up to (not including) the first `/` -/
def scanSeg : Path → Nat
  | [] => 0
  | c :: cs => if c = '/' then 0 else c.utf8Size + scanSeg cs

/-- `(matched_len, param_offset, param_len)` of Param/OptionalParam.  Before fix-c14-2
(`fixed = false`) the first character was consumed by `test.next()` whatever it was and only counted
when it was `/`; now it is only consumed when it is `/` (`peek`). -/
def paramScan (fixed : Bool) : Path → Nat × Nat × Nat
  | [] => (0, 0, 0)
  | c :: rest =>
    if c = '/' then (1 + scanSeg rest, 1, scanSeg rest)
    else if fixed then (scanSeg (c :: rest), 0, scanSeg (c :: rest))
    else (scanSeg rest, 0, scanSeg rest)

def startsSlash : Path → Bool
  | c :: _ => c = '/'
  | [] => false

def paramTest (fixed : Bool) (name : List Char) (path : Path) : Out PM :=
  let (ml, off, pl) := paramScan fixed path
  if ml = 0 ∨ (ml = 1 ∧ startsSlash path) then .none
  else
    match splitBytes path ml, sliceBytes path off (pl + off) with
    | some (m, r), some v => .some ⟨m, r, [(name, v)]⟩
    | _, _ => .panic

def optTest (fixed : Bool) (name : List Char) (path : Path) : Out PM :=
  let (ml0, off, pl) := paramScan fixed path
  let ml := if ml0 = 1 ∧ startsSlash path then 0 else ml0
  match splitBytes path ml with
  | none => .panic
  | some (m, r) =>
    if ml > 0 then
      match sliceBytes path off (pl + off) with
      | some v => .some ⟨m, r, [(name, v)]⟩
      | none => .panic
    else .some ⟨m, r, []⟩

def splatScan (fixed : Bool) : Path → Nat × Nat × Nat
  | [] => (0, 0, 0)
  | c :: rest =>
    if c = '/' then (1 + bytes rest, 1, bytes rest)
    else if fixed then (bytes (c :: rest), 0, bytes (c :: rest))
    else (bytes rest, 0, bytes rest)

def splatTest (fixed : Bool) (name : List Char) (path : Path) : Out PM :=
  let (ml, off, pl) := splatScan fixed path
  match splitBytes path ml, sliceBytes path off (pl + off) with
  | some (m, r), some v => .some ⟨m, r, [(name, v)]⟩
  | _, _ => .panic

/-- a route's segments: an atom or a (possibly nested) tuple of segments; `tup []` is `()` -/
inductive Seg where
  | st (s : List Char)
  | param (n : List Char)
  | opt (n : List Char)
  | splat (n : List Char)
  | tup (l : List Seg)
  deriving Repr

mutual
/-- `PossibleRouteMatch::optional` -/
def Seg.optional : Seg → Bool
  | .st _ => false
  | .param _ => false
  | .opt _ => true
  | .splat _ => false
  | .tup l => anyOptional l
def anyOptional : List Seg → Bool
  | [] => false
  | a :: r => a.optional || anyOptional r
end

/-- number of optional *fields* (a nested tuple with an optional inside counts once) -/
def countOpt : List Seg → Nat
  | [] => 0
  | a :: r => (if a.optional then 1 else 0) + countOpt r

/-- result of one iteration of the `loop` in the tuple `test` -/
inductive Pass where
  | fail
  | panic
  | retry
  | done (r : Path) (ml : Nat) (p : Params)
  deriving Repr

/-- the `loop { … include_optionals -= 1; continue }`: every iteration restarts from scratch, so it is
a function of `include_optionals` alone -/
def backoff (f : Nat → Pass) : Nat → Pass
  | 0 => f 0
  | n + 1 =>
    match f (n + 1) with
    | .retry => backoff f n
    | r => r

/-- `true` when a segment test may start here: always, except in the *segment-aligned* variant
(`k = .aligned`): there only at the end of the path or in front of a `/`. -/
def startOk (k : Ver) (path : Path) : Bool := k != .aligned || path.isEmpty || startsSlash path

mutual
/-- `PossibleRouteMatch::test`.  `k = .cur`: the code as it is.  `k = .old`: before the repairs.
`k = .aligned`: the segment-aligned variant used to *classify* inputs (`SegmentAligned`). -/
def Seg.test (k : Ver) : Seg → Path → Out PM
  | .st s, path => if startOk k path then staticTest k.fixed s path else .none
  | .param n, path => if startOk k path then paramTest k.fixed n path else .none
  | .opt n, path => if startOk k path then optTest k.fixed n path else .none
  | .splat n, path => if startOk k path then splatTest k.fixed n path else .none
  | .tup [], path => .some ⟨[], path, []⟩
  | .tup [a], path =>
    match a.test k path with
    | .some m =>
      match splitBytes path (bytes m.matched) with
      | some (pre, _) => .some ⟨pre, m.remaining, m.params⟩
      | none => .panic
    | .none => .none
    | .panic => .panic
  | .tup (a :: b :: l), path =>
    match backoff (fun inc => passFields k (a :: b :: l) true inc 0 path 0 []) (countOpt (a :: b :: l)) with
    | .done r ml p =>
      match splitBytes path ml with
      | some (pre, _) => .some ⟨pre, r, p⟩
      | none => .panic
    | .panic => .panic
    | _ => .none
/-- the body of the tuple loop from field `ty` on (`first = true` for `$first`) -/
def passFields (k : Ver) : List Seg → Bool → Nat → Nat → Path → Nat → Params → Pass
  | [], _, _, _, r, ml, p => .done r ml p
  | ty :: tys, first, inc, nth, r, ml, p =>
    let nth' := if ty.optional then nth + 1 else nth
    if !ty.optional || nth' ≤ inc then
      match ty.test k r with
      | .panic => .panic
      | .none =>
        if first then .fail
        else if ty.optional then .fail
        else if inc = 0 then .fail
        else .retry
      | .some m => passFields k tys false inc nth' m.remaining (ml + bytes m.matched) (p ++ m.params)
    else passFields k tys false inc nth' r ml p
end

/-- `PathSegment` without `Unit` -/
inductive FSeg where
  | st (s : List Char)
  | param (n : List Char)
  | opt (n : List Char)
  | splat (n : List Char)
  deriving Repr, DecidableEq

mutual
/-- `generate_path` -/
def Seg.gen : Seg → List FSeg
  | .st s => [.st s]
  | .param n => [.param n]
  | .opt n => [.opt n]
  | .splat n => [.splat n]
  | .tup l => genSegs l
def genSegs : List Seg → List FSeg
  | [] => []
  | a :: r => a.gen ++ genSegs r
end

/-! ## nested routes -/

inductive Route where
  | mk (segs : Seg) (children : List Route)
  deriving Repr

/-- what `match_route` hands back, flattened: per nesting level the position of the matched
route among its siblings and its own `matched` string; all params in order -/
structure NMatch where
  chain : List (Nat × Path)
  params : Params
  deriving Repr, DecidableEq

inductive NOut where
  | panic
  | none
  | some (m : NMatch) (remaining : Path)
  deriving Repr, DecidableEq

def isSuffix (suf p : Path) : Bool := suf.length ≤ p.length && p.drop (p.length - suf.length) == suf

/-- `str::trim_end_matches(pat)`: strip the suffix repeatedly (an empty pattern strips nothing) -/
def trimEndFuel (pat : Path) : Nat → Path → Path
  | 0, p => p
  | f + 1, p => if !pat.isEmpty && isSuffix pat p then trimEndFuel pat f (p.take (p.length - pat.length)) else p

def trimEnd (pat p : Path) : Path := trimEndFuel pat p.length p

def complete (remaining : Path) : Bool := remaining.isEmpty || remaining == ['/']

def finish (pos : Nat) (matched : Path) (params : Params) (inner : Option NMatch) (remaining : Path) : NOut :=
  if complete remaining then
    match inner with
    | some i => .some ⟨(pos, matched) :: i.chain, params ++ i.params⟩ remaining
    | none => .some ⟨[(pos, matched)], params⟩ remaining
  else .none

def innerMatched (m : NMatch) : Path :=
  match m.chain with
  | (_, s) :: _ => s
  | [] => []

mutual
/-- `NestedRoute::match_nested`; `pos` = index of this route among its siblings -/
def matchNested (k : Ver) : Route → Nat → Path → NOut
  | .mk segs children, pos, path =>
    match segs.test k path with
    | .panic => .panic
    | .none => .none
    | .some pm =>
      if children.isEmpty then finish pos pm.matched pm.params none pm.remaining
      else
        match matchChildren k children 0 pm.remaining with
        | .panic => .panic
        | .some inner rem => finish pos pm.matched pm.params (some inner) rem
        | .none =>
          if segs.optional then
            -- the parent was optional: re-match the children against the full path …
            match matchChildren k children 0 path with
            | .panic => .panic
            | .none => .none
            | .some inner rem =>
              -- … and re-parse the parent's params on what is left in front: nothing, the children
              -- were matched from the start of `path` (fix-c14-5; before, `trim_end_matches` of the
              -- child's own `matched` ++ `remaining`, which ignores grandchildren)
              -- (`unwrap()` before fix-c14-4, `?` now)
              match segs.test k (if k.fixed then [] else trimEnd (innerMatched inner ++ rem) path) with
              | .some np => finish pos pm.matched np.params (some inner) rem
              | .none => if k.fixed then .none else .panic
              | .panic => .panic
          else .none
/-- sibling containers: the first child whose `match_nested` succeeds wins -/
def matchChildren (k : Ver) : List Route → Nat → Path → NOut
  | [], _, _ => .none
  | c :: cs, i, path =>
    match matchNested k c i path with
    | .panic => .panic
    | .some m rem => .some m rem
    | .none => matchChildren k cs (i + 1) path
end

structure Defs where
  base : Option Path
  tops : List Route
  deriving Repr

def dropSlashes : Path → Path
  | [] => []
  | c :: cs => if c = '/' then dropSlashes cs else c :: cs

def stripPrefix : Path → Path → Option Path
  | [], p => some p
  | _ :: _, [] => none
  | b :: bs, c :: cs => if b = c then stripPrefix bs cs else none

def dropOneSlash : Path → Path
  | [] => []
  | c :: cs => if c = '/' then cs else c :: cs

/-- the base handling at the top of `RouteDefs::match_route`.  `.old`: all leading slashes of the
path trimmed, any remainder accepted.  `.cur` (fix-c14-3): one leading slash, and a non-empty base must
be followed by `/` or the end.  `.aligned`: the base is one static prefix ending at a boundary. -/
def stripBase (k : Ver) (base : Option Path) (path : Path) : Option Path :=
  match base with
  | none => some path
  | some b =>
    match k with
    | .aligned =>
      (match stripPrefix b path with
       | some r => if r.isEmpty || startsSlash r then some r else none
       | none => none)
    | .old => if startsSlash b then stripPrefix (dropSlashes b) (dropSlashes path) else stripPrefix b path
    | .cur =>
      let b' := if startsSlash b then dropSlashes b else b
      let p' := if startsSlash b then dropOneSlash path else path
      (match stripPrefix b' p' with
       | some r => if b'.isEmpty || r.isEmpty || startsSlash r then some r else none
       | none => none)

/-- `RouteDefs::match_route` (`k = .cur`) -/
def matchRoute (k : Ver) (d : Defs) (path : Path) : Out NMatch :=
  match stripBase k d.base path with
  | none => .none
  | some p =>
    match matchChildren k d.tops 0 p with
    | .panic => .panic
    | .none => .none
    | .some m rem => if complete rem then .some m else .none

/-! ## the flat route table -/

mutual
/-- `NestedRoute::generate_routes` -/
def Route.gen : Route → List (List FSeg)
  | .mk segs children => if children.isEmpty then [segs.gen] else prefixAll segs.gen (genList children)
/-- tuple / `StaticVec` `generate_routes`: concatenation in declaration order -/
def genList : List Route → List (List FSeg)
  | [] => []
  | c :: cs => c.gen ++ genList cs
/-- not recursive; lives here only so that `Route.gen` can use it -/
def prefixAll (pre : List FSeg) : List (List FSeg) → List (List FSeg)
  | [] => []
  | r :: rs => (pre ++ r) :: prefixAll pre rs
end

def withBase (base : Option Path) (r : List FSeg) : List FSeg :=
  match base with
  | none => r
  | some b => .st b :: r

/-- what the routers register (`RouteList`): base as a leading static segment -/
def flatRoutes (d : Defs) : List (List FSeg) := (genList d.tops).map (withBase d.base)

def FSeg.isOpt : FSeg → Bool
  | .opt _ => true
  | _ => false

/-- split at the first `OptionalParam`: `(before, name, after)` -/
def firstOpt : List FSeg → Option (List FSeg × List Char × List FSeg)
  | [] => none
  | .opt n :: rest => some ([], n, rest)
  | s :: rest =>
    match firstOpt rest with
    | some (a, n, b) => some (s :: a, n, b)
    | none => none

/-- the `while let Some(next_to_check) = segments.pop()` loop; the head of `stack` is the top.
`unit_variant` is pushed first, `param_variant` second, so the param variant is popped first. -/
def expandLoop : Nat → List (List FSeg) → List (List FSeg) → List (List FSeg)
  | 0, _, checked => checked
  | _ + 1, [], checked => checked
  | f + 1, top :: stack, checked =>
    match firstOpt top with
    | some (a, n, b) => expandLoop f ((a ++ .param n :: b) :: (a ++ b) :: stack) checked
    | none => expandLoop f stack (checked ++ [top])

def countOptF : List FSeg → Nat
  | [] => 0
  | s :: r => (if s.isOpt then 1 else 0) + countOptF r

/-- `ExpandOptionals::expand_optionals` (fuel = an upper bound of the number of pops, see
`C14_expand_optionals`) -/
def expandOptionals (segs : List FSeg) : List (List FSeg) :=
  expandLoop (2 ^ (countOptF segs + 1)) [segs] []

/-- recursive specification of the same list, in the same order -/
def expandSpec : List FSeg → List (List FSeg)
  | [] => [[]]
  | .opt n :: rest => (expandSpec rest).map (.param n :: ·) ++ expandSpec rest
  | s :: rest => (expandSpec rest).map (s :: ·)

/-- `StaticPath::into_paths` with exactly one value per Param/Splat, in order; `none` when the
values run out (the Rust code then produces no path) or on `OptionalParam` (`todo!()`) -/
def buildPath : List FSeg → List Path → Option Path
  | [], _ => some []
  | .st s :: rest, vals =>
    (buildPath rest vals).map fun p => (if startsSlash s || s.isEmpty then s else '/' :: s) ++ p
  | .param _ :: rest, v :: vals =>
    (buildPath rest vals).map fun p => (if startsSlash v then v else '/' :: v) ++ p
  | .splat _ :: rest, v :: vals =>
    (buildPath rest vals).map fun p => (if startsSlash v then v else '/' :: v) ++ p
  | _, _ => none

/-! ## the independent flat matcher -/

/-- characters of the pattern the server registers -/
inductive PChar where
  | lit (c : Char)
  | par (n : List Char)
  | spl (n : List Char)
  deriving Repr, DecidableEq

def FSeg.raw : FSeg → List Char
  | .st s => s
  | .param n => n
  | .opt n => n
  | .splat n => n

/-- integrations/axum `to_axum_path` -/
def joinAxum : List FSeg → List PChar
  | [] => []
  | s :: rest =>
    (if !s.raw.isEmpty && !startsSlash s.raw then [PChar.lit '/'] else []) ++
    (match s with
     | .st t => t.map PChar.lit
     | .param n => [PChar.par n]
     | .splat n => [PChar.spl n]
     | .opt _ => []) ++
    joinAxum rest

inductive Tok where
  | lit (s : Path)
  | par (n : List Char)
  | spl (n : List Char)
  | bad
  deriving Repr, DecidableEq

/-- split on `/` (always non-empty) -/
def splitP : List PChar → List (List PChar)
  | [] => [[]]
  | c :: cs =>
    match splitP cs with
    | [] => [[c]]
    | h :: t => if c = .lit '/' then [] :: h :: t else (c :: h) :: t

def litsOf : List PChar → Option Path
  | [] => some []
  | .lit c :: r => (litsOf r).map (c :: ·)
  | _ :: _ => none

def toTok : List PChar → Tok
  | [.par n] => .par n
  | [.spl n] => .spl n
  | cs =>
    match litsOf cs with
    | some s => .lit s
    | none => .bad

/-- the registered pattern as `/`-separated tokens (`""` is registered as `"/"`) -/
def patternTokens (segs : List FSeg) : Option (List Tok) :=
  match joinAxum segs with
  | [] => some [.lit []]
  | c :: rest => if c = .lit '/' then some ((splitP rest).map toTok) else none

/-- split on `/` (always non-empty) -/
def splitSlash : Path → List Path
  | [] => [[]]
  | c :: cs =>
    match splitSlash cs with
    | [] => [[c]]
    | h :: t => if c = '/' then [] :: h :: t else (c :: h) :: t

def joinSlash : List Path → Path
  | [] => []
  | [t] => t
  | t :: ts => t ++ '/' :: joinSlash ts

def tokMatch : List Tok → List Path → Option Params
  | [], [] => some []
  | [], _ :: _ => none
  | .spl n :: _, ts => some [(n, joinSlash ts)]
  | .lit s :: ps, t :: ts => if s = t then tokMatch ps ts else none
  | .par n :: ps, t :: ts => if t.isEmpty then none else (tokMatch ps ts).map ((n, t) :: ·)
  | _, _ => none

/-- the flat route as the server's table would match it, no tolerance -/
def flatMatchStrict (segs : List FSeg) (path : Path) : Option Params :=
  match patternTokens segs, path with
  | some pat, c :: rest => if c = '/' then tokMatch pat (splitSlash rest) else none
  | _, _ => none

def endsSlash : Path → Bool
  | [] => false
  | [c] => c = '/'
  | _ :: cs => endsSlash cs

/-- the same with the last token dropped when the path ends in `/` and is not `/` itself -/
def flatMatchTrim (segs : List FSeg) (path : Path) : Option Params :=
  match patternTokens segs, path with
  | some pat, c :: rest =>
    if c = '/' ∧ !rest.isEmpty ∧ endsSlash rest then tokMatch pat (splitSlash rest).dropLast else none
  | _, _ => none

/-- DESIGN §7 C14 `flatMatch`: one trailing `/` on the path is insignificant -/
def flatMatch (segs : List FSeg) (path : Path) : Option Params :=
  match flatMatchStrict segs path with
  | some p => some p
  | none => flatMatchTrim segs path

/-- expanded flat routes of every top-level definition, as registered (base in front) -/
def expandedPerDef (d : Defs) : List (List (List FSeg)) :=
  d.tops.map fun t => (t.gen.map (withBase d.base)).flatMap expandOptionals

def anyStrict (fs : List (List FSeg)) (path : Path) : Bool := fs.any fun f => (flatMatchStrict f path).isSome

/-- all parameter assignments under which a definition's table entries accept the path (lenient) -/
def lenientParams (fs : List (List FSeg)) (path : Path) : List Params :=
  fs.flatMap fun f => (flatMatchStrict f path).toList ++ (flatMatchTrim f path).toList

def firstStrict : List (List (List FSeg)) → Path → Nat → Option Nat
  | [], _, _ => none
  | d :: ds, path, i => if anyStrict d path then some i else firstStrict ds path (i + 1)

/-- how the oracle fails -/
inductive Kind where
  | panic          -- the router panics
  | flatOnly       -- a registered route accepts the path (strictly), the router does not
  | routerOnly     -- the router matches, no registered route of the winning definition accepts the path
  | winner         -- an earlier definition's registered route accepts the path (strictly)
  | params         -- the params differ from every assignment the winning definition's table entries give
  | winnerUnknown
  deriving Repr, DecidableEq

/-- the property's oracle on one (route table, path, router outcome): `none` = holds.
Required: strict table match ⇒ the router matches; the router matches ⇒ a table entry of the
winning definition accepts the path (one trailing `/` tolerated) with the same params, and no
earlier definition has a strict table match; no panic. -/
def judge (d : Defs) (path : Path) (got : Out NMatch) : Option Kind :=
  let per := expandedPerDef d
  let sf := firstStrict per path 0
  match got with
  | .panic => some .panic
  | .none => if sf.isSome then some .flatOnly else none
  | .some m =>
    match m.chain with
    | [] => some .winnerUnknown
    | (i, _) :: _ =>
      match per[i]? with
      | none => some .winnerUnknown
      | some fs =>
        let all := lenientParams fs path
        if all.isEmpty then some .routerOnly
        else if (match sf with | some j => decide (j < i) | none => false) then some .winner
        else if !all.contains m.params then some .params
        else none

/-! ## input classes (decidable; the known-finding classes are named after them) -/

/-- `SegmentAligned`: on this input the router as it is behaves like its segment-aligned variant -/
def SegmentAligned (d : Defs) (path : Path) : Prop := matchRoute .cur d path = matchRoute .aligned d path

instance (d : Defs) (path : Path) : Decidable (SegmentAligned d path) := by
  unfold SegmentAligned; exact inferInstance

/-- an atom that has to be there: anything but an optional param -/
def FSeg.mandatory : FSeg → Bool
  | .opt _ => false
  | _ => true

mutual
/-- a route with children whose own segments contain an optional param *and* something mandatory
(a parent that consists of optional params only is what the optional-parent fallback is made for) -/
def Route.hasOptParent : Route → Bool
  | .mk segs children =>
    (!children.isEmpty && segs.optional && segs.gen.any FSeg.mandatory) || anyOptParent children
def anyOptParent : List Route → Bool
  | [] => false
  | c :: cs => c.hasOptParent || anyOptParent cs
end

/-- an optional atom, possibly wrapped in 1-tuples -/
def Seg.optAtomish : Seg → Bool
  | .opt _ => true
  | .tup [a] => a.optAtomish
  | _ => false

mutual
/-- some field of a tuple of ≥ 2 fields is optional without being an optional atom: the tuple
back-off then skips or keeps that whole inner tuple, which `generate_path` flattens away -/
def Seg.innerOptTuple : Seg → Bool
  | .tup [a] => a.innerOptTuple
  | .tup (a :: b :: l) => innerOptFields (a :: b :: l)
  | _ => false
def innerOptFields : List Seg → Bool
  | [] => false
  | f :: r => (f.optional && !f.optAtomish) || f.innerOptTuple || innerOptFields r
end

mutual
def Route.hasInnerOptTuple : Route → Bool
  | .mk segs children => segs.innerOptTuple || anyInnerOptTuple children
def anyInnerOptTuple : List Route → Bool
  | [] => false
  | c :: cs => c.hasInnerOptTuple || anyInnerOptTuple cs
end

/-- the optional fields of a tuple form one block: non-optional fields, optional fields, non-optional fields -/
def inBlock : List Seg → Bool
  | [] => true
  | o :: r => if o.optional then inBlock r else !anyOptional (o :: r)

def fieldsBlock : List Seg → Bool
  | [] => true
  | a :: r => if a.optional then inBlock r else fieldsBlock r

def Seg.optBlock : Seg → Bool
  | .tup [a] => a.optBlock
  | .tup (a :: b :: l) => fieldsBlock (a :: b :: l)
  | _ => true

mutual
/-- the class `optional-backoff-order` in its exact form: a leaf route whose optional params do not form
one block of direct fields (the tuple back-off only ever keeps a prefix of the optionals), or a route with
children that has two or more optional params -/
def Route.hasSplitOpt : Route → Bool
  | .mk segs children =>
    (if children.isEmpty then !segs.optBlock else decide (countOptF segs.gen ≥ 2)) || anySplitOpt children
def anySplitOpt : List Route → Bool
  | [] => false
  | c :: cs => c.hasSplitOpt || anySplitOpt cs
end

mutual
/-- a route whose own segments contain two or more optional params: the tuple back-off keeps a
*prefix* of the optionals, so "skip the first, keep the second" is never tried -/
def Route.hasMultiOpt : Route → Bool
  | .mk segs children => decide (countOptF segs.gen ≥ 2) || anyMultiOpt children
def anyMultiOpt : List Route → Bool
  | [] => false
  | c :: cs => c.hasMultiOpt || anyMultiOpt cs
end

def notSlash : FSeg → Bool
  | .st s => decide (s ≠ ['/'])
  | _ => true

mutual
/-- no route has a `"/"` static segment -/
def Route.noSlashSeg : Route → Bool
  | .mk segs children => segs.gen.all notSlash && noSlashSegList children
def noSlashSegList : List Route → Bool
  | [] => true
  | c :: cs => c.noSlashSeg && noSlashSegList cs
end

/-- a static `"/"` segment followed by another segment in some registered route -/
def slashThenMore : List FSeg → Bool
  | [] => false
  | s :: rest => (s == .st ['/'] && !rest.isEmpty) || slashThenMore rest

def hasSlashSeg (d : Defs) : Bool := (flatRoutes d).any slashThenMore

def baseSlashes (d : Defs) (path : Path) : Bool :=
  match d.base, path with
  | some b, c1 :: c2 :: _ => startsSlash b && c1 = '/' && c2 = '/'
  | _, _ => false

/-- known-finding classes (the word after `fail` in the model driver's verdict).  The classes
`static-prefix`, `unaligned-panic`, `base-slashes`, `optional-fallback-unwrap`,
`optional-fallback-params`, `optional-fallback-overmatch` are gone with fix-c14-1..5: such a failure is now `unclassified`, i.e. a violation. -/
inductive Class where
  | slashParent
  | optionalParent | optionalBackoffOrder | nestedOptionalTuple
  | unclassified (k : Kind)
  deriving Repr, DecidableEq

/-- the class a failing verdict `kind` (= `judge d path (matchRoute .cur d path)`) is filed under;
first that applies.  Every class is a decidable predicate of the input `(d, path)`. -/
def classify (d : Defs) (path : Path) (kind : Kind) : Class :=
  let aligned := decide (SegmentAligned d path)
  let unaligned : Class := if !noSlashSegList d.tops then .slashParent else .unclassified kind
  match kind with
  | .panic => .unclassified kind
  | .routerOnly =>
    if !aligned then unaligned
    else if anyInnerOptTuple d.tops then .nestedOptionalTuple
    else .unclassified kind
  | .flatOnly | .winner =>
    if anyOptParent d.tops then .optionalParent
    else if anySplitOpt d.tops then .optionalBackoffOrder
    else if anyInnerOptTuple d.tops then .nestedOptionalTuple
    else .unclassified kind
  | .params =>
    if !aligned then unaligned
    else if anyInnerOptTuple d.tops then .nestedOptionalTuple
    else .unclassified kind
  | .winnerUnknown => .unclassified kind

/-! ## `.ssr_mode(..)`: the modes in the generated table

`NestedRoute::new` sets `SsrMode::default()` = `OutOfOrder` and `methods = {Get}`; `.ssr_mode(m)` (only
available before `.child(..)`) replaces the mode.  `generate_routes` lists one entry per root-to-leaf
chain: segments concatenated, methods united, the regeneration fns of the chain's `Static` routes in
order, and the mode of a chain = `if child.ssr_mode > ssr_mode { child.ssr_mode } else { ssr_mode }`
with the derived order `OutOfOrder < PartiallyBlocked < InOrder < Async < Static(_)`, two `Static`
being equal (`StaticRoute::cmp` is constantly `Equal`) — so the parent's `StaticRoute` is kept.

The matcher never looks at the mode, so a definition tree with modes (`RouteM`) is matched as its
erasure (`RouteM.erase : Route`). -/

/-- `SsrMode`; a `Static` mode carries the identity of its `StaticRoute` (the preorder index of the
route it was given to) and whether that `StaticRoute` has a regeneration fn -/
inductive Mode where
  | outOfOrder | partiallyBlocked | inOrder | async
  | static (id : Nat) (regen : Bool)
  deriving Repr, DecidableEq

/-- the derived `Ord` of `SsrMode`: variant order, all `Static(_)` equal -/
def Mode.rank : Mode → Nat
  | .outOfOrder => 0
  | .partiallyBlocked => 1
  | .inOrder => 2
  | .async => 3
  | .static _ _ => 4

/-- `if child.ssr_mode > ssr_mode { child.ssr_mode } else { ssr_mode }` -/
def pickMode (parent child : Mode) : Mode :=
  if child.rank > parent.rank then child else parent

/-- `match &ssr_mode { Static(data) => data.regenerate.., _ => None }` as a list -/
def Mode.ownRegen : Mode → List Nat
  | .static id true => [id]
  | _ => []

inductive Method where
  | get | post | put | delete | patch
  deriving Repr, DecidableEq

/-- `HashSet::extend`, as a duplicate-free list -/
def unionMethods (a b : List Method) : List Method :=
  a ++ b.filter fun m => !a.contains m

/-- `GeneratedRouteData` -/
structure GenRoute where
  segments : List FSeg
  mode : Mode
  methods : List Method
  regen : List Nat
  deriving Repr, DecidableEq

/-- a route definition with its `.ssr_mode(..)` -/
inductive RouteM where
  | mk (segs : Seg) (mode : Mode) (children : List RouteM)
  deriving Repr

mutual
/-- the definition tree the matcher sees -/
def RouteM.erase : RouteM → Route
  | .mk segs _ children => .mk segs (eraseList children)
def eraseList : List RouteM → List Route
  | [] => []
  | c :: cs => c.erase :: eraseList cs
end

/-- one entry of a child's table seen from the parent (the body of the `flat_map` in
`NestedRoute::generate_routes`) -/
def combine (segs : List FSeg) (mode : Mode) (c : GenRoute) : GenRoute :=
  { segments := segs ++ c.segments
    mode := pickMode mode c.mode
    methods := unionMethods [.get] c.methods
    regen := mode.ownRegen ++ c.regen }

def combineAll (segs : List FSeg) (mode : Mode) : List GenRoute → List GenRoute
  | [] => []
  | c :: cs => combine segs mode c :: combineAll segs mode cs

mutual
/-- `NestedRoute::generate_routes` with all four fields of `GeneratedRouteData` -/
def RouteM.genM : RouteM → List GenRoute
  | .mk segs mode children =>
    if children.isEmpty then [⟨segs.gen, mode, [.get], mode.ownRegen⟩]
    else combineAll segs.gen mode (genMList children)
def genMList : List RouteM → List GenRoute
  | [] => []
  | c :: cs => c.genM ++ genMList cs
end

structure DefsM where
  base : Option Path
  tops : List RouteM
  deriving Repr

def DefsM.erase (d : DefsM) : Defs := ⟨d.base, eraseList d.tops⟩

/-- the registered table with its modes: base as a leading static segment of every entry -/
def flatRoutesM (d : DefsM) : List GenRoute :=
  (genMList d.tops).map fun g => { g with segments := withBase d.base g.segments }

mutual
/-- the modes along every root-to-leaf chain, in table order (specification side) -/
def RouteM.trails : RouteM → List (List Mode)
  | .mk _ mode children =>
    if children.isEmpty then [[mode]] else consAll mode (trailsList children)
def trailsList : List RouteM → List (List Mode)
  | [] => []
  | c :: cs => c.trails ++ trailsList cs
def consAll (m : Mode) : List (List Mode) → List (List Mode)
  | [] => []
  | t :: ts => (m :: t) :: consAll m ts
end

def maxRank : List Mode → Nat
  | [] => 0
  | m :: ms => Nat.max m.rank (maxRank ms)

/-- the first mode of the chain that is as strict as any (root first) -/
def firstStrictest (t : List Mode) : Mode :=
  (t.find? fun m => m.rank == maxRank t).getD .outOfOrder

/-- the regeneration fns of a chain -/
def trailRegen : List Mode → List Nat
  | [] => []
  | m :: ms => m.ownRegen ++ trailRegen ms

end Leptos.Router
