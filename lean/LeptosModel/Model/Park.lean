/-!
# Park — cross-thread wake-up and lock protocols of `reactive_graph` as atomic-step programs (C19)

Each party (thread) is a small program of ATOMIC steps; one step is exactly the code between two
yield points of the verification hook (`hooks/yield_points.patch`, `reactive_graph::verif_hooks`)
or harness-level yield points (`h:*`, placed between whole API calls).  An interleaving is a
`List ThreadId`; entry `t` runs the next step of party `t`; an entry for a party that is finished,
parked without having been woken, or blocked on a lock is a no-op.  Core Lean only, all functions
structurally recursive.

**Named limitation (the gap the model cannot exhibit).**  Shared cells are *sequentially
consistent* here: a step's loads see the latest store of the interleaving.  The real cells are
`AtomicBool`s accessed with `Ordering::Relaxed` (`loading`, `set`) or data behind `RwLock`s; the
orderings the real code gets from the surrounding lock operations / `AtomicWaker` are trusted, and
weak-memory reorderings are outside this model.  `AtomicWaker::{register, wake}` are modelled as
atomic steps (trusted).  Lock acquisition inside a step is atomic with the rest of the step *from
the blocking point on*: every modelled step needs its locks at its first action (see `Memo`).

## Map to the Rust sources (reactive_graph/src)

* `Await` — `computed/async_derived/future_impls.rs`
  `AsyncDerivedReadyFuture::poll` / `AsyncDerivedFuture::poll` / `AsyncDerivedRefFuture::poll`:
  `aStart` = `loading.load` (+ `value.read_arc()` poll for the by-value/by-ref futures, which keeps
  an async read guard for the rest of the poll) up to yield `*:loaded`; `aPush` = `wakers.write().push`
  up to `*:pushed`; `aRet` = the second `loading.load()` with `waker.wake_by_ref()` when it reads
  `false` (the repair of F-C19-1; absent in `initOld`) and `return Poll::Pending` (drops the guard).  A poll that loads
  `loading = false` returns `Ready` inside `aStart` (no hook on that path).
  `computed/async_derived/arc_async_derived.rs`: `pWrite` = the derived's task resuming after its
  future completed: `set_inner_value` (`*value.write().await = v`; Pending while a reader guard is
  out, a pending writer keeps later readers out, and releasing the write lock wakes the readers
  queued behind it — async-lock, trusted) up to `notify_subs:enter`; `pStore` =
  `loading.store(false)` (`notify_subs:stored`); `pDrain` = state replace, `ready_tx.send`,
  subscribers' `mark_dirty`, `mem::take(wakers)` + `wake()` each (`notify_subs:drained`); `pFinish`.
* `Chan` — `channel.rs`: `Sender::notify` = `sStore` (`set.store(true)`, yield `notify:stored`) then
  `sWake` (`waker.wake()`); `Receiver::poll_next` = `rRegister` (`waker.register`, yield
  `recv:registered`) then `rSwap` (`set.swap(false)`); the receiver *task* loops like
  `while rx.next().await.is_some()` (effect.rs / arc_async_derived.rs) with a poll budget.
* `Memo` — `computed/inner.rs` `MemoInner::update_if_necessary` as called from
  `ArcMemo::try_read_untracked` (`computed/arc_memo.rs`), `signal/subscriber_traits.rs`
  (a signal's `mark_subscribers_check` = clone the subscriber set, `mark_dirty` each; the memo stays
  subscribed until its own `clear_sources`) and `ArcRwSignal::set`:
  `g0` = `needs_update` (`reactivity.read`) [+ the whole clean path], yield `memo:before-take`;
  `g1` = `value.write().take()` (`memo:taken`); `g2` = `inner_1` (`clear_sources`) + the user function
  with no lock held (`memo:before-reactivity`); `g3` = `reactivity.write()` (`memo:reactivity-held`);
  `g4` = `value.write()` + store + `state = Clean` + unlock (`memo:released`); `g5` = return and
  `value.read()` + `unwrap()`.
* `Sig` — `signal/guards.rs` `Plain::try_new` (`try_read`: a read while the write lock is held
  yields `None`, which `Get::get`/`get_untracked` turn into a panic), `ArcRwSignal::try_write`
  (blocking `write()`); `holdWrite v` .. `unhold` is one `sig.update(|n| { *n = v; … })` whose
  closure spans several schedule entries (every update runs its closure with the lock write-held).
-/
namespace Leptos.Park

abbrev ThreadId := Nat

/-- function update -/
def upd {α : Type} (f : Nat → α) (i : Nat) (a : α) : Nat → α :=
  fun j => if j = i then a else f j

/-! ## Await: awaiters vs. `notify_subs` (thread 0 = producer, thread i+1 = awaiter i) -/
namespace Await

inductive APc where
  | start    -- about to poll (h:start)
  | push     -- loaded `loading = true`; at `*:loaded`
  | ret      -- pushed the waker; at `*:pushed`
  | parked   -- returned Pending; at h:park
  | ready    -- returned Ready
  | gaveUp   -- poll budget exhausted
  deriving DecidableEq, Repr

structure Awaiter where
  pc : APc := .start
  woken : Bool := false
  guard : Bool := false
  /-- its `value.read_arc()` future is queued behind a pending writer for the rest of this poll -/
  listening : Bool := false
  /-- the lock's `no_writer` event has notified this listener -/
  notified : Bool := false
  polls : Nat := 2
  pendings : Nat := 0
  /-- the value a Ready poll returned -/
  got : Nat := 0
  deriving DecidableEq, Repr

inductive PPc where
  | start | entered | stored | drained | done
  deriving DecidableEq, Repr

structure State where
  /-- `true` = the code after `fix: … re-check loading after registering the waker` (F-C19-1);
  `false` = the code before it (`initOld`), kept for the regression witness -/
  recheck : Bool
  /-- by-value / by-ref future (takes the async read guard on `value` during the poll) -/
  guardKind : Bool
  loading : Bool := true
  value : Option Nat := none
  wakers : List Nat := []
  readers : Nat := 0
  writerWaiting : Bool := false
  /-- awaiters queued on the async lock's `no_writer` event, in registration order -/
  listeners : List Nat := []
  ppc : PPc := .start
  /-- loads still to come after the current one (a source written from the producer's thread:
  `loading.store(true)`, new fetcher) and the number of the current load -/
  reloads : Nat := 0
  loadNo : Nat := 0
  aw : Nat → Awaiter

def init (guardKind : Bool) (polls : Nat) : State :=
  { recheck := true, guardKind, aw := fun _ => { polls } }

/-- with `reloads` further loads after the first -/
def initR (guardKind : Bool) (polls reloads : Nat) : State :=
  { recheck := true, guardKind, reloads, aw := fun _ => { polls } }

/-- the await path as it was before the repair of F-C19-1: no second look at `loading` -/
def initOld (guardKind : Bool) (polls : Nat) : State :=
  { recheck := false, guardKind, aw := fun _ => { polls } }

/-- `Event::notify(1)` (event-listener, trusted): unless a listener is already notified, notify
the first one in the queue, which fires its task waker -/
def notifyOne (aw : Nat → Awaiter) (ls : List Nat) : Nat → Awaiter :=
  if ls.any (fun j => (aw j).notified) then aw
  else match ls with
    | [] => aw
    | j :: _ => upd aw j { aw j with notified := true, woken := true }

/-- begin a poll: budget check, `loading.load`, (guard), Ready on `false` -/
def beginPoll (s : State) (i : Nat) (a : Awaiter) : State :=
  if a.polls = 0 then { s with aw := upd s.aw i { a with pc := .gaveUp } }
  else
    let a := { a with polls := a.polls - 1 }
    if s.loading then
      if s.guardKind && !s.writerWaiting then
        { s with readers := s.readers + 1, aw := upd s.aw i { a with pc := .push, guard := true } }
      else
        if s.guardKind then
          { s with listeners := s.listeners ++ [i], aw := upd s.aw i { a with pc := .push, listening := true } }
        else
          { s with aw := upd s.aw i { a with pc := .push } }
    else
      { s with aw := upd s.aw i { a with pc := .ready, got := s.value.getD 0 } }

def stepAwaiter (s : State) (i : Nat) : State :=
  let a := s.aw i
  match a.pc with
  | .start => beginPoll s i a
  | .push => { s with wakers := s.wakers ++ [i], aw := upd s.aw i { a with pc := .ret } }
  | .ret =>
    -- the poll returns: the guard / the queued `read_arc()` future is dropped; a dropped listener
    -- that had been notified passes the notification on
    let ls := s.listeners.filter (· != i)
    -- repaired code: `if !loading.load() { waker.wake_by_ref() }` before `Poll::Pending`
    let aw := upd s.aw i { a with pc := .parked, guard := false, listening := false, notified := false,
                                  woken := a.woken || (s.recheck && !s.loading)
                                  pendings := a.pendings + 1 }
    { s with
      readers := (if a.guard then s.readers - 1 else s.readers)
      listeners := ls
      aw := if a.notified then notifyOne aw ls else aw }
  | .parked => if a.woken then beginPoll s i { a with woken := false } else s
  | .ready => s
  | .gaveUp => s

/-- wake every registered waker -/
def wakeAll (aw : Nat → Awaiter) (ws : List Nat) : Nat → Awaiter :=
  fun j => if j ∈ ws then { aw j with woken := true } else aw j

def stepProducer (s : State) : State :=
  match s.ppc with
  | .start =>
    if s.readers = 0 then
      -- releasing the write lock notifies the first reader queued behind it
      { s with value := some (7 + s.loadNo), writerWaiting := false, ppc := .entered
               aw := notifyOne s.aw s.listeners }
    else { s with writerWaiting := true }
  | .entered => { s with loading := false, ppc := .stored }
  | .stored => { s with aw := wakeAll s.aw s.wakers, wakers := [], ppc := .drained }
  | .drained => { s with ppc := .done }
  | .done =>
    -- reload: the derived's source is written, its task starts the next load
    if s.reloads = 0 then s
    else { s with loading := true, ppc := .start, reloads := s.reloads - 1, loadNo := s.loadNo + 1 }

def step (s : State) (t : ThreadId) : State :=
  match t with
  | 0 => stepProducer s
  | i + 1 => stepAwaiter s i

def run (s : State) : List ThreadId → State
  | [] => s
  | t :: ts => run (step s t) ts

/-- the state the property forbids: the value is ready, the producer is through, and awaiter `i`
is parked with nobody left to wake it -/
def lost (s : State) (i : Nat) : Bool :=
  (s.aw i).pc == .parked && !(s.aw i).woken && !s.loading && s.ppc == .done

/-- party `t` is inside a poll (between two poll boundaries) -/
def midPoll (s : State) (t : ThreadId) : Bool :=
  match t with
  | 0 => s.ppc == .entered || s.ppc == .stored || s.ppc == .drained
  | i + 1 => (s.aw i).pc == .push || (s.aw i).pc == .ret

/-- `cur` = the party that is inside a poll, if any.  A schedule is *serial* when a party that is
inside a poll is the only one scheduled until its poll returns: what a single-threaded executor
does (C10's setting). -/
def serialFrom (s : State) (cur : Option ThreadId) : List ThreadId → Bool
  | [] => true
  | t :: ts =>
    (cur == none || cur == some t) &&
      (let s' := step s t
       serialFrom s' (if midPoll s' t then some t else none) ts)

def Serial (s : State) (sched : List ThreadId) : Bool := serialFrom s none sched

end Await

/-! ## Chan: `Sender::notify` vs `Receiver::poll_next` (thread 0 = receiver task, thread i+1 = sender i) -/
namespace Chan

inductive RPc where
  | idle        -- about to poll (h:start / h:poll)
  | registered  -- at `recv:registered`
  | parked      -- returned Pending (h:park)
  | done        -- poll budget exhausted
  deriving DecidableEq, Repr

structure State where
  set : Bool := false
  /-- a waker is stored in the `AtomicWaker` -/
  reg : Bool := false
  /-- the task's waker has fired since the task last cleared it -/
  woken : Bool := false
  rpc : RPc := .idle
  polls : Nat
  runs : Nat := 0
  /-- sender i is between `set.store(true)` and `waker.wake()` -/
  mid : Nat → Bool := fun _ => false
  left : Nat → Nat
  sent : Nat → Nat := fun _ => 0

def init (polls : Nat) (left : Nat → Nat) : State := { polls, left }

def stepReceiver (s : State) : State :=
  match s.rpc with
  | .idle =>
    if s.polls = 0 then { s with rpc := .done }
    else { s with polls := s.polls - 1, reg := true, rpc := .registered }
  | .registered =>
    if s.set then { s with set := false, runs := s.runs + 1, rpc := .idle }
    else { s with rpc := .parked }
  | .parked => if s.woken then { s with woken := false, rpc := .idle } else s
  | .done => s

def stepSender (s : State) (i : Nat) : State :=
  if s.mid i then
    let s := if s.reg then { s with reg := false, woken := true } else s
    { s with mid := upd s.mid i false, left := upd s.left i (s.left i - 1), sent := upd s.sent i (s.sent i + 1) }
  else if s.left i = 0 then s
  else { s with set := true, mid := upd s.mid i true }

def step (s : State) (t : ThreadId) : State :=
  match t with
  | 0 => stepReceiver s
  | i + 1 => stepSender s i

def run (s : State) : List ThreadId → State
  | [] => s
  | t :: ts => run (step s t) ts

end Chan

/-! ## Memo: `update_if_necessary` / `get` / `set` / user guards with real (blocking) locks -/
namespace Memo

inductive Op where
  | get            -- `memo.get_untracked()`
  | set (v : Nat)  -- `sig.set(v)`
  | hold           -- `let g = memo.read_untracked()` kept across schedule entries
  | drop           -- `drop(g)`
  deriving DecidableEq, Repr

inductive Res where
  | val (n : Nat) | held (n : Nat) | unit | panic
  deriving DecidableEq, Repr

inductive Pc where
  | atOp        -- at h:start / h:next, before op `k` (finished when `k ≥ prog.length`)
  | g1 | g2 | g3 | g4 | g5
  | markDirty   -- hidden (no yield point): inside `sig.set`, before `memo.mark_dirty()`
  deriving DecidableEq, Repr

structure Party where
  prog : List Op := []
  k : Nat := 0
  pc : Pc := .atOp
  /-- granted a step and not yet back at a yield point (blocked on a lock) -/
  inflight : Bool := false
  isHold : Bool := false
  old : Option Nat := none
  new : Nat := 0
  holding : Bool := false
  results : List Res := []
  deriving DecidableEq, Repr

structure State where
  n : Nat
  sig : Nat := 1
  /-- the memo is in the signal's subscriber set -/
  subscribed : Bool
  dirty : Bool
  value : Option Nat
  /-- holder of `reactivity.write()` across a yield point -/
  rw : Option Nat := none
  /-- user-held read guards on `value` -/
  guards : Nat := 0
  ps : Nat → Party

def init (clean : Bool) (progs : List (List Op)) : State :=
  { n := progs.length
    subscribed := clean, dirty := !clean, value := if clean then some 10 else none
    ps := fun i => { prog := progs.getD i [] } }

def finished (p : Party) : Bool := p.pc == .atOp && p.k ≥ p.prog.length

/-- an op is complete: next op; a finishing thread drops what it still holds -/
def opDone (s : State) (i : Nat) (p : Party) (r : Res) : State :=
  let p := { p with k := p.k + 1, pc := .atOp, results := p.results ++ [r] }
  if p.k ≥ p.prog.length && p.holding then
    { s with guards := s.guards - 1, ps := upd s.ps i { p with holding := false } }
  else { s with ps := upd s.ps i p }

/-- return from `update_if_necessary`, `value.read()`, `unwrap()` -/
def readValue (s : State) (i : Nat) (p : Party) : State :=
  match s.value with
  | none => opDone s i p .panic
  | some v =>
    if p.isHold then opDone { s with guards := s.guards + 1 } i { p with holding := true } (.held v)
    else opDone s i p (.val v)

/-- one micro-step of party `i`; `none` = blocked on a lock (or nothing to do) -/
def micro (s : State) (i : Nat) : Option State :=
  let p := s.ps i
  let free := s.rw == none
  match p.pc with
  | .atOp =>
    match p.prog[p.k]? with
    | none => none
    | some .get =>
      if !free then none
      else if s.dirty then some { s with ps := upd s.ps i { p with pc := .g1, isHold := false } }
      else some (readValue s i { p with isHold := false })
    | some .hold =>
      if !free then none
      else if s.dirty then some { s with ps := upd s.ps i { p with pc := .g1, isHold := true } }
      else some (readValue s i { p with isHold := true })
    | some (.set v) =>
      if s.subscribed then
        some { s with sig := v, ps := upd s.ps i { p with pc := .markDirty } }
      else some (opDone { s with sig := v } i p .unit)
    | some .drop =>
      if p.holding then some (opDone { s with guards := s.guards - 1 } i { p with holding := false } .unit)
      else some (opDone s i p .unit)
  | .g1 =>
    if s.guards != 0 then none
    else some { s with value := none, ps := upd s.ps i { p with pc := .g2, old := s.value } }
  | .g2 =>
    if !free then none
    else some { s with subscribed := true, ps := upd s.ps i { p with pc := .g3, new := s.sig * 10 } }
  | .g3 =>
    if !free then none
    else some { s with rw := some i, ps := upd s.ps i { p with pc := .g4 } }
  | .g4 =>
    if s.guards != 0 then none
    else some { s with value := some p.new, dirty := false, rw := none, ps := upd s.ps i { p with pc := .g5 } }
  | .g5 => some (readValue s i p)
  | .markDirty =>
    if !free then none
    else some (opDone { s with dirty := true } i p .unit)

def hidden (pc : Pc) : Bool := pc == .markDirty

/-- run party `i` (which has been granted a step or is in flight) up to its next yield point or
until it blocks -/
def advance (fuel : Nat) (s : State) (i : Nat) : State :=
  match fuel with
  | 0 => s
  | fuel + 1 =>
    match micro s i with
    | none => { s with ps := upd s.ps i { s.ps i with inflight := true } }
    | some s' =>
      if hidden (s'.ps i).pc then advance fuel s' i
      else { s' with ps := upd s'.ps i { s'.ps i with inflight := false } }

/-- threads in flight continue as soon as their lock is free (lowest id first) -/
def settlePass (s : State) : Nat → State
  | 0 => s
  | j + 1 =>
    let s := settlePass s j
    if (s.ps j).inflight then advance 4 s j else s

def settle (s : State) : Nat → State
  | 0 => s
  | r + 1 => settle (settlePass s s.n) r

def step (s : State) (t : ThreadId) : State :=
  let p := s.ps t
  if t ≥ s.n || finished p || p.inflight then s
  else settle (advance 4 s t) (s.n + 1)

def run (s : State) : List ThreadId → State
  | [] => s
  | t :: ts => run (step s t) ts

/-- the sequential `memo.get_untracked()` the harness performs after the run -/
def finalGet (s : State) : Res :=
  if s.dirty then .val (s.sig * 10)
  else match s.value with
    | some v => .val v
    | none => .panic

/-- somebody is blocked for good: no party can move although not all are finished -/
def allFinished (s : State) : Nat → Bool
  | 0 => true
  | j + 1 => finished (s.ps j) && allFinished s j

/-- some party among the first `j` can take a micro-step -/
def anyEnabled (s : State) : Nat → Bool
  | 0 => false
  | j + 1 => (micro s j).isSome || anyEnabled s j

def deadlocked (s : State) : Bool := !allFinished s s.n && !anyEnabled s s.n

/-! ### the lock discipline of `update_if_necessary`, as a table

`locksHeld pc` = locks held while parked at `pc`; `locksNeeded pc` = locks the step from `pc`
acquires (all at its first action).  `userFunAt` = the step that runs the user's function. -/
inductive Lock where
  | reactivity | value
  deriving DecidableEq, Repr

def memoPcs : List Pc := [.atOp, .g1, .g2, .g3, .g4, .g5, .markDirty]

def locksHeld : Pc → List Lock
  | .g4 => [.reactivity]
  | _ => []

def locksNeeded : Pc → List Lock
  | .atOp => [.reactivity]       -- needs_update (get / hold); set / drop need nothing here
  | .g1 => [.value]
  | .g2 => [.reactivity]         -- clear_sources, add_source inside the user function's reads
  | .g3 => [.reactivity]
  | .g4 => [.value]
  | .g5 => []                    -- `value.read()`: conflicts only with a writer, and no step parks holding `value.write()`
  | .markDirty => [.reactivity]

/-- a lock can be taken right now (`value`: for writing, i.e. no user read guard is out) -/
def available (s : State) : Lock → Bool
  | .reactivity => s.rw == none
  | .value => s.guards == 0

def userFunAt : Pc := .g2

/-- edges `held → wanted` of the lock-acquisition graph -/
def lockEdges : List (Lock × Lock) :=
  memoPcs.flatMap fun pc => (locksHeld pc).flatMap fun h => (locksNeeded pc).map fun w => (h, w)

end Memo

/-! ## Sig: plain signal reads (`try_read`) against blocking writes and an `update` in progress -/
namespace Sig

inductive Op where
  | read | set (v : Nat) | holdWrite (v : Nat) | unhold
  deriving DecidableEq, Repr

inductive Res where
  | val (n : Nat) | unit | panic
  deriving DecidableEq, Repr

structure Party where
  prog : List Op := []
  k : Nat := 0
  inflight : Bool := false
  results : List Res := []
  deriving DecidableEq, Repr

structure State where
  n : Nat
  sig : Nat := 1
  writer : Option Nat := none
  ps : Nat → Party

def init (progs : List (List Op)) : State :=
  { n := progs.length, ps := fun i => { prog := progs.getD i [] } }

def finished (p : Party) : Bool := p.k ≥ p.prog.length

def opDone (s : State) (i : Nat) (p : Party) (r : Res) : State :=
  let p := { p with k := p.k + 1, inflight := false, results := p.results ++ [r] }
  let s := { s with ps := upd s.ps i p }
  if p.k ≥ p.prog.length && s.writer == some i then { s with writer := none } else s

def micro (s : State) (i : Nat) : Option State :=
  let p := s.ps i
  match p.prog[p.k]? with
  | none => none
  | some .read => some (opDone s i p (if s.writer.isSome then .panic else .val s.sig))
  | some (.set v) => if s.writer.isSome then none else some (opDone { s with sig := v } i p .unit)
  | some (.holdWrite v) =>
    if s.writer.isSome then none else some (opDone { s with sig := v, writer := some i } i p .unit)
  | some .unhold =>
    some (opDone (if s.writer == some i then { s with writer := none } else s) i p .unit)

def advance (s : State) (i : Nat) : State :=
  match micro s i with
  | none => { s with ps := upd s.ps i { s.ps i with inflight := true } }
  | some s' => s'

def settlePass (s : State) : Nat → State
  | 0 => s
  | j + 1 =>
    let s := settlePass s j
    if (s.ps j).inflight then advance s j else s

def settle (s : State) : Nat → State
  | 0 => s
  | r + 1 => settle (settlePass s s.n) r

def step (s : State) (t : ThreadId) : State :=
  let p := s.ps t
  if t ≥ s.n || finished p || p.inflight then s
  else settle (advance s t) (s.n + 1)

def run (s : State) : List ThreadId → State
  | [] => s
  | t :: ts => run (step s t) ts

end Sig

/-! ## Graph: a DAG of memos over one signal — `update_if_necessary` with its `Check` arm,
`mark_dirty` / `mark_check` propagation and every `reactivity` lock acquisition as a micro-step

Each thread is an abstract machine with a stack of frames (its continuation).  One micro-step =
the code from one `reactivity` lock acquisition (or yield point) to the next; a micro-step whose
lock is taken blocks (the thread stays "in flight").  `value` locks never block here (no user
guards in this scenario) and are not modelled.  Memo `i` may only read the signal and memos `< i`.

Frames ↔ Rust (`computed/inner.rs` unless said otherwise):
`uin` = `needs_update`'s first `reactivity.read()`; `ucheck`/`ucheckAfter` = the `Check` arm's
`any(|source| source.update_if_necessary() || reactivity.read().state == Dirty)`; `uclean` = the
else branch (`state = Clean`); `utake` = `value.write().take()`; `uclearBegin` = `inner_1`'s read;
`uclearLock`/`uclearLoop`/`uclearRm` = `Subscriber::clear_sources` → `SourceSet::clear_sources`
(`graph/sets.rs`; yield `sources:clearing` before each `remove_subscriber`); `ufun`/`utrack2`/
`ureadVal` = the user function reading its sources with `Observer` = this memo (`traits.rs`
`Track::track` = `subscriber.add_source` then `source.add_subscriber`, then
`try_read_untracked` = `update_if_necessary` + `value.read().unwrap()`); `ulock` =
`reactivity.write()`; `ustore` = store, `state = Clean`, unlock (yield `memo:unlocked`), then
`mark_dirty` of every subscriber that is not the current `Observer` (`inner_2`); `markDirty`/`markSubsLock`/`markLoop` =
`mark_dirty` + `mark_subscribers_check` (subscribers cloned under the read lock, notified after it
is released — 0488c9f; before: read lock held over the loop, `markHolds`); `markCheck`/
`markCheckLock` = `mark_check`;
`dIdle`/`dNext`/`dNeeds`/`dCheck`/`dAfter`/`dRunRead`/`dRunVal` = the async derived's task of the
`derived` scenario (`arc_async_derived.rs`: `while rx.next().await` → `needs_rerun`
(`async_derived/inner.rs`: test-and-clear `Dirty` under the write lock, else
`source.update_if_necessary()` for every source) → run the fetcher under `with_observer`); `setSig` = `ArcRwSignal::set` (subscriber set cloned, each `mark_dirty`). -/
namespace Graph

inductive Src where
  | sig | memo (j : Nat)
  deriving DecidableEq, Repr

inductive Fn where
  | mul (c : Nat) | add (c : Nat) | div (c : Nat) | plus
  deriving DecidableEq, Repr

structure Def where
  f : Fn
  reads : List Src
  deriving DecidableEq, Repr

def applyFn (f : Fn) (a : List Nat) : Nat :=
  match f with
  | .mul c => a.getD 0 0 * c
  | .add c => a.getD 0 0 + c
  | .div c => a.getD 0 0 / c
  | .plus => a.getD 0 0 + a.getD 1 0

inductive St where
  | clean | check | dirty
  deriving DecidableEq, Repr

structure MemoSt where
  st : St := .dirty
  value : Option Nat := none
  sources : List Src := []
  subs : List Nat := []
  /-- `reactivity` write holder (thread id) -/
  w : Option Nat := none
  /-- `reactivity` read holders -/
  r : List Nat := []
  deriving DecidableEq, Repr

inductive YName where
  | opStart | beforeTake | taken | cleared | beforeReactivity | reactivityHeld | unlocked | released | clearing
  deriving DecidableEq, Repr

inductive Op where
  | get (m : Nat) | set (v : Nat)
  /-- `derived` scenario: write the signal `b` the async derived reads directly -/
  | setB (v : Nat)
  /-- `derived` scenario: run the executor of the derived's task until idle (thread 0) -/
  | poll
  deriving DecidableEq, Repr

inductive Res where
  | val (n : Nat) | unit | panic
  deriving DecidableEq, Repr

/-- The async derived of the `derived` scenario: value = (last memo) * 1000 + signal `b`.
`sources`: `some j` = memo `j`, `none` = signal `b` (never cleared, `async_derived/inner.rs`).
`flag`/`reg`/`woken` = its notification channel (`channel.rs`) and the task's waker. -/
structure Der where
  present : Bool := false
  /-- `true` = the node is an `Effect` (`effect/effect.rs` task, `effect/inner.rs`): its check runs
  with no observer and ends with `take(dirty)`, its sources are cleared before every run, `value` is
  the last value it logged; `false` = an `ArcAsyncDerived` -/
  isEffect : Bool := false
  dirty : Bool := false
  first : Bool := true
  flag : Bool := false
  reg : Bool := false
  woken : Bool := false
  value : Option Nat := none
  sources : List (Option Nat) := []
  subB : Bool := false
  /-- the task's future panicked inside a poll (a memo it read had no value): the executor drops it -/
  dead : Bool := false
  deriving DecidableEq, Repr

inductive Frame where
  | yld (y : YName)
  | uin (m : Nat)
  | ucheck (m : Nat) (rest : List Src)
  | ucheckAfter (m : Nat) (rest : List Src)
  | uclean (m : Nat)
  | utake (m : Nat)
  | uclearBegin (m : Nat) (old : Option Nat)
  | uclearLock (m : Nat) (old : Option Nat)
  | uclearLoop (m : Nat) (old : Option Nat) (rest : List Src)
  | uclearRm (m : Nat) (old : Option Nat) (src : Src) (rest : List Src)
  | ufunBegin (m : Nat) (old : Option Nat)
  | ufun (m : Nat) (old : Option Nat) (reads : List Src) (acc : List Nat)
  | utrack2 (m : Nat) (old : Option Nat) (src : Src) (reads : List Src) (acc : List Nat)
  | ureadVal (m : Nat) (old : Option Nat) (j : Nat) (reads : List Src) (acc : List Nat)
  | ulock (m : Nat) (new : Nat) (changed : Bool)
  | ustore (m : Nat) (new : Nat) (changed : Bool)
  | uret (changed : Bool)
  | markDirty (m : Nat)
  | markSubsLock (m : Nat)
  | markLoop (m : Nat) (rest : List Nat)
  | markCheck (m : Nat)
  | markCheckLock (m : Nat)
  | setSig (v : Nat)
  | readOut (m : Nat)
  | opEnd
  -- the async derived's task (`arc_async_derived.rs` loop, `inner.rs` `needs_rerun`)
  | setSigB (v : Nat)
  | dIdle
  | dNext
  | dNeeds
  | dCheck (rest : List (Option Nat))
  | dCheckAfter (rest : List (Option Nat))
  | dAfter
  | dRunRead (rest : List (Option Nat)) (acc : List Nat)
  | dRunVal (j : Nat) (rest : List (Option Nat)) (acc : List Nat)
  | eCheckEnd
  | eClear (rest : List (Option Nat))
  deriving DecidableEq, Repr

structure Thread where
  prog : List Op := []
  k : Nat := 0
  frames : List Frame := []
  /-- the thread-local `Observer` stack (top first) -/
  obs : List Nat := []
  /-- return value of the last `update_if_necessary` -/
  ret : Bool := false
  cur : Res := .unit
  results : List Res := []
  inflight : Bool := false
  deriving DecidableEq, Repr

structure State where
  n : Nat
  defs : List Def
  gateM : Bool
  gateL : Bool
  /-- `false` = the repaired `Subscriber::clear_sources` (F-C19-6): the sources are taken out under
  the subscriber's own write lock and unsubscribed after releasing it; `true` = the code before the
  repair (`initOld`): the lock is held while each source is locked -/
  clearHolds : Bool := false
  /-- `false` = the repaired `MemoInner::mark_subscribers_check` / `mark_check` (0488c9f, F-C19-9):
  the subscribers are notified from a snapshot, after the memo's own read lock is released;
  `true` = the code before it: the read lock is held over the loop -/
  markHolds : Bool := false
  /-- final read-back by the main thread: no yield point parks -/
  finalMode : Bool := false
  sig : Nat := 1
  sigSubs : List Nat := []
  /-- signal `b` and the async derived (`derived` scenario); as a subscriber the derived has the
  id `defs.length` -/
  sigB : Nat := 10
  der : Der := {}
  ms : Nat → MemoSt := fun _ => {}
  ts : Nat → Thread

def opFrames : Op → List Frame
  | .get m => [.uin m, .readOut m]
  | .set v => [.setSig v]
  | .setB v => [.setSigB v]
  | .poll => [.dIdle]

/-- `Sender::notify` on the derived's channel: set the flag, wake the registered task waker -/
def Der.notify (d : Der) : Der :=
  if d.reg then { d with flag := true, reg := false, woken := true } else { d with flag := true }

/-- load the frames of op `k` (a harness-level yield point precedes every op) -/
def loadOp (th : Thread) : Thread :=
  match th.prog[th.k]? with
  | none => { th with frames := [] }
  | some op => { th with frames := .yld .opStart :: opFrames op ++ [.opEnd] }

def gated (s : State) : YName → Bool
  | .opStart => !s.finalMode
  | .clearing => s.gateL && !s.finalMode
  | _ => s.gateM && !s.finalMode

def setM (s : State) (m : Nat) (x : MemoSt) : State := { s with ms := upd s.ms m x }
def setT (s : State) (t : Nat) (x : Thread) : State := { s with ts := upd s.ts t x }

def isDer (s : State) (m : Nat) : Bool := s.der.present && m == s.defs.length

def canR (s : State) (m : Nat) : Bool := (s.ms m).w == none
def canW (s : State) (m : Nat) : Bool := (s.ms m).w == none && (s.ms m).r == []

def subscribe (l : List Nat) (m : Nat) : List Nat := if l.contains m then l else l ++ [m]

def recompute (m : Nat) : List Frame := [.yld .beforeTake, .utake m]

def marks (subs : List Nat) : List Frame := subs.flatMap fun sub => [.markDirty sub, .markSubsLock sub]

/-- frames up to (not including) the op's `opEnd` are dropped: a panic unwinds the operation -/
def unwind : List Frame → List Frame
  | [] => []
  | .opEnd :: rest => .opEnd :: rest
  | _ :: rest => unwind rest

/-- one micro-step of thread `t` (its head frame is not a yield); `none` = blocked on a lock -/
def exec (s : State) (t : Nat) : Option State :=
  let th := s.ts t
  match th.frames with
  | [] => none
  | fr :: rest =>
    let go (s : State) (th : Thread) (frames : List Frame) : Option State :=
      some (setT s t { th with frames })
    match fr with
    | .yld _ => go s th rest
    | .uin m =>
      if !canR s m then none else
      match (s.ms m).st with
      | .clean => go s th (.uclean m :: rest)
      | .dirty => go s th (recompute m ++ rest)
      | .check => go s th (.ucheck m (s.ms m).sources :: rest)
    | .ucheck m [] => go s th (.uclean m :: rest)
    | .ucheck m (.sig :: more) => go s { th with ret := false } (.ucheckAfter m more :: rest)
    | .ucheck m (.memo j :: more) => go s th (.uin j :: .ucheckAfter m more :: rest)
    | .ucheckAfter m more =>
      if th.ret then go s th (recompute m ++ rest)
      else if !canR s m then none
      else if (s.ms m).st == .dirty then go s th (recompute m ++ rest)
      else go s th (.ucheck m more :: rest)
    | .uclean m =>
      if !canW s m then none else
      go (setM s m { s.ms m with st := .clean }) { th with ret := false } rest
    | .utake m =>
      go (setM s m { s.ms m with value := none }) th
        (.yld .taken :: .uclearBegin m (s.ms m).value :: rest)
    | .uclearBegin m old => if !canR s m then none else go s th (.uclearLock m old :: rest)
    | .uclearLock m old =>
      if !canW s m then none else
      go (setM s m { s.ms m with sources := [], w := if s.clearHolds then some t else none }) th
        (.uclearLoop m old (s.ms m).sources :: rest)
    | .uclearLoop m old [] =>
      go (if s.clearHolds then setM s m { s.ms m with w := none } else s) th
        (.yld .cleared :: .ufunBegin m old :: rest)
    | .ufunBegin m old =>
      go s { th with obs := m :: th.obs }
        (.ufun m old ((s.defs.getD m { f := .plus, reads := [] }).reads) [] :: rest)
    | .uclearLoop m old (src :: more) => go s th (.yld .clearing :: .uclearRm m old src more :: rest)
    | .uclearRm m old .sig more =>
      go { s with sigSubs := s.sigSubs.filter (· != m) } th (.uclearLoop m old more :: rest)
    | .uclearRm m old (.memo j) more =>
      if !canW s j then none else
      go (setM s j { s.ms j with subs := (s.ms j).subs.filter (· != m) }) th (.uclearLoop m old more :: rest)
    | .ufun m old [] acc =>
      let new := applyFn (s.defs.getD m { f := .plus, reads := [] }).f acc
      go s { th with obs := th.obs.drop 1 } (.yld .beforeReactivity :: .ulock m new (old != some new) :: rest)
    | .ufun m old (src :: more) acc =>
      if !canW s m then none else
      go (setM s m { s.ms m with sources := (s.ms m).sources ++ [src] }) th (.utrack2 m old src more acc :: rest)
    | .utrack2 m old .sig more acc =>
      go { s with sigSubs := subscribe s.sigSubs m } th (.ufun m old more (acc ++ [s.sig]) :: rest)
    | .utrack2 m old (.memo j) more acc =>
      if !canW s j then none else
      go (setM s j { s.ms j with subs := subscribe (s.ms j).subs m }) th
        (.uin j :: .ureadVal m old j more acc :: rest)
    | .ureadVal m old j more acc =>
      match (s.ms j).value with
      | some v => go s th (.ufun m old more (acc ++ [v]) :: rest)
      | none => go s { th with cur := .panic, obs := [] } (unwind rest)
    | .ulock m new ch =>
      if !canW s m then none else
      go (setM s m { s.ms m with w := some t }) th (.yld .reactivityHeld :: .ustore m new ch :: rest)
    | .ustore m new ch =>
      let subs := if ch then (s.ms m).subs.filter (fun sub => th.obs.head? != some sub) else []
      go (setM s m { s.ms m with value := some new, st := .clean, w := none }) th
        ((if ch then [.yld .unlocked] else []) ++ marks subs ++ [.yld .released, .uret ch] ++ rest)
    | .uret ch => go s { th with ret := ch } rest
    | .markDirty m =>
      -- the async derived: `mark_dirty` = state Dirty + `notifier.notify()`
      if isDer s m then go { s with der := { s.der with dirty := true }.notify } th rest else
      if !canW s m then none else go (setM s m { s.ms m with st := .dirty }) th rest
    | .markSubsLock m =>
      if isDer s m then go s th rest else
      if !canR s m then none else
      go (if s.markHolds then setM s m { s.ms m with r := t :: (s.ms m).r } else s) th
        (.markLoop m (s.ms m).subs :: rest)
    | .markLoop m [] => go (if s.markHolds then setM s m { s.ms m with r := (s.ms m).r.erase t } else s) th rest
    | .markLoop m (sub :: more) => go s th (.markCheck sub :: .markCheckLock sub :: .markLoop m more :: rest)
    | .markCheck m =>
      -- the async derived: `mark_check` = `notifier.notify()`
      if isDer s m then go { s with der := s.der.notify } th rest else
      if !canW s m then none else
      go (setM s m { s.ms m with st := if (s.ms m).st == .dirty then .dirty else .check }) th rest
    | .markCheckLock m =>
      if isDer s m then go s th rest else
      if !canR s m then none else
      go (if s.markHolds then setM s m { s.ms m with r := t :: (s.ms m).r } else s) th
        (.markLoop m (s.ms m).subs :: rest)
    | .setSig v => go { s with sig := v } { th with cur := .unit } (marks s.sigSubs ++ rest)
    | .readOut m =>
      match (s.ms m).value with
      | some v => go s { th with cur := .val v } rest
      | none => go s { th with cur := .panic } rest
    | .opEnd =>
      let s := if th.prog[th.k]? == some Op.poll && th.cur == .panic then { s with der := { s.der with dead := true } } else s
      some (setT s t (loadOp { th with results := th.results ++ [th.cur], k := th.k + 1, frames := [] }))
    | .setSigB v =>
      go { s with sigB := v } { th with cur := .unit }
        ((if s.der.subB then marks [s.defs.length] else []) ++ rest)
    | .dIdle =>
      -- `run_until_idle`: poll the task while its waker has fired
      if s.der.woken && !s.der.dead then
        go { s with der := { s.der with woken := false } } { th with cur := .unit } (.dNext :: .dIdle :: rest)
      else go s { th with cur := .unit } rest
    | .dNext =>
      -- `rx.next().await`: register the waker, swap the flag
      if s.der.flag then go { s with der := { s.der with reg := true, flag := false } } th (.dNeeds :: rest)
      else go { s with der := { s.der with reg := true } } th rest
    | .dNeeds =>
      -- `needs_rerun` under `with_observer`: test-and-clear `Dirty`, else check the sources
      if s.der.dirty then
        go { s with der := { s.der with dirty := false } }
          { th with obs := s.defs.length :: th.obs, ret := true } (.dAfter :: rest)
      else if s.der.isEffect then
        -- `EffectInner::update_if_necessary`: the sources are checked under `untrack` (no observer:
        -- the id `defs.length + 1` is nobody's), then `was_marked = take(dirty)`
        go s { th with obs := (s.defs.length + 1) :: th.obs } (.dCheck s.der.sources :: .eCheckEnd :: .dAfter :: rest)
      else go s { th with obs := s.defs.length :: th.obs } (.dCheck s.der.sources :: .dAfter :: rest)
    | .dCheck [] => go s { th with ret := false } rest
    | .dCheck (some j :: more) => go s th (.uin j :: .dCheckAfter more :: rest)
    | .dCheck (none :: more) => go s th (.dCheck more :: rest)
    | .dCheckAfter more => if th.ret then go s th rest else go s th (.dCheck more :: rest)
    | .eCheckEnd =>
      go { s with der := { s.der with dirty := false } } { th with ret := th.ret || s.der.dirty } rest
    | .eClear [] => go s th rest
    | .eClear (some j :: more) =>
      -- `clear_sources` (sources already taken out of the effect): `memo.remove_subscriber(effect)`
      if !canW s j then none else
      go (setM s j { s.ms j with subs := (s.ms j).subs.filter (· != s.defs.length) }) th (.eClear more :: rest)
    | .eClear (none :: more) => go { s with der := { s.der with subB := false } } th (.eClear more :: rest)
    | .dAfter =>
      if th.ret || s.der.first then
        -- run the fetcher / the effect function (observer = the node): it reads the last memo, then
        -- signal `b`; an effect drops its old sources first
        go { s with der := { s.der with first := false, sources := if s.der.isEffect then [] else s.der.sources } }
          { th with obs := s.defs.length :: th.obs.drop 1 }
          ((if s.der.isEffect then [.eClear s.der.sources] else []) ++
            .dRunRead [some (s.defs.length - 1), none] [] :: rest)
      else go s { th with obs := th.obs.drop 1 } (.dNext :: rest)
    | .dRunRead [] acc =>
      go { s with der := { s.der with value := some (acc.getD 0 0 * 1000 + acc.getD 1 0) } }
        { th with obs := th.obs.drop 1 } (.dNext :: rest)
    | .dRunRead (some j :: more) acc =>
      if !canW s j then none else
      let d := { s.der with sources := if s.der.sources.contains (some j) then s.der.sources else s.der.sources ++ [some j] }
      go (setM { s with der := d } j { s.ms j with subs := subscribe (s.ms j).subs s.defs.length }) th
        (.uin j :: .dRunVal j more acc :: rest)
    | .dRunRead (none :: more) acc =>
      let d := { s.der with subB := true, sources := if s.der.sources.contains none then s.der.sources else s.der.sources ++ [none] }
      go { s with der := d } th (.dRunRead more (acc ++ [s.sigB]) :: rest)
    | .dRunVal j more acc =>
      match (s.ms j).value with
      | some v => go s th (.dRunRead more (acc ++ [v]) :: rest)
      | none => go s { th with cur := .panic, obs := [] } (unwind rest)

def finished (th : Thread) : Bool := th.frames.isEmpty

/-- run thread `t` until it parks at a gated yield point, finishes or blocks -/
def cont : Nat → State → Nat → State
  | 0, s, _ => s
  | fuel + 1, s, t =>
    let th := s.ts t
    match th.frames with
    | [] => setT s t { th with inflight := false }
    | .yld y :: rest =>
      if gated s y then setT s t { th with inflight := false }
      else cont fuel (setT s t { th with frames := rest }) t
    | _ =>
      match exec s t with
      | none => setT s t { th with inflight := true }
      | some s' => cont fuel s' t

def fuel : Nat := 600

/-- the controller grants thread `t` its turn: leave the yield point it is parked at and run on -/
def grant (s : State) (t : Nat) : State :=
  let th := s.ts t
  match th.frames with
  | .yld _ :: rest => cont fuel (setT s t { th with frames := rest }) t
  | _ => cont fuel s t

def settlePass (s : State) : Nat → State
  | 0 => s
  | j + 1 =>
    let s := settlePass s j
    if (s.ts j).inflight then cont fuel s j else s

def settle (s : State) : Nat → State
  | 0 => s
  | r + 1 => settle (settlePass s s.n) r

def step (s : State) (t : ThreadId) : State :=
  let th := s.ts t
  if t ≥ s.n || finished th || th.inflight then s
  else settle (grant s t) (s.n + 1)

def run (s : State) : List ThreadId → State
  | [] => s
  | t :: ts => run (step s t) ts

def init (defs : List Def) (gateM gateL : Bool) (progs : List (List Op)) : State :=
  { n := progs.length, defs, gateM, gateL
    ts := fun i => loadOp { prog := progs.getD i [] } }

/-- the main thread reads every memo in index order, nothing parks (used for the initial `clean`
state and for the read-back after the run); its results are appended to thread `s.n`'s -/
def readAll (s : State) : State :=
  let k := s.defs.length
  let s1 := { s with finalMode := true }
  let s2 := setT s1 s.n (loadOp { prog := (List.range k).map Op.get })
  let s3 := cont (fuel * (k + 1)) s2 s.n
  { s3 with finalMode := false }

def initClean (defs : List Def) (gateM gateL : Bool) (progs : List (List Op)) : State :=
  let s := readAll (init defs gateM gateL progs)
  setT s s.n {}

/-- the code before the repairs of F-C19-6 and F-C19-9 (as at the pinned commit) -/
def initOld (defs : List Def) (gateM gateL : Bool) (progs : List (List Op)) : State :=
  { init defs gateM gateL progs with clearHolds := true, markHolds := true }

def initCleanOld (defs : List Def) (gateM gateL : Bool) (progs : List (List Op)) : State :=
  let s := readAll (initOld defs gateM gateL progs)
  setT s s.n {}

/-- the `derived` scenario after its set-up: memos as the first load left them, the derived loaded,
subscribed, its task parked in `rx.next()` -/
def initDerived (defs : List Def) (progs : List (List Op)) (isEffect : Bool := false) : State :=
  let s0 := init defs true false progs
  let s1 := { s0 with finalMode := true, der := { present := true, isEffect, flag := true, woken := true } }
  let s2 := setT s1 s1.n (loadOp { prog := [Op.poll] })
  let s3 := cont (fuel * 2) s2 s1.n
  setT { s3 with finalMode := false } s3.n {}

/-- the poll thread 0 performs once every party has returned; nothing parks -/
def finalPoll (s : State) : State :=
  let s1 := { s with finalMode := true }
  let s2 := setT s1 0 (loadOp { prog := [Op.poll] })
  cont (fuel * 2) s2 0

def allFinished (s : State) : Nat → Bool
  | 0 => true
  | j + 1 => finished (s.ts j) && allFinished s j

/-- from-scratch values of all memos for a signal value -/
def scratch (defs : List Def) (sig : Nat) : List Nat :=
  defs.foldl (fun vals d =>
    vals ++ [applyFn d.f (d.reads.map fun src => match src with | .sig => sig | .memo j => vals.getD j 0)]) []

end Graph

/-! ## Notify: concurrent `notify_subs` on one async derived (`arc_async_derived.rs`)

`notify_subs` saves the derived's state, sets it to `Notifying` (while it notifies, `mark_dirty`
is ignored) and restores the saved state at its end.  Caller 0 is the derived's own task
(`set_inner_value`), the others call the public `Notify::notify`.  Steps = the code between the
yield points `notify_subs:{enter,stored,drained}`.  `post` = after every caller has returned, the
derived's source is written: `mark_dirty` must take effect (the derived loads again). -/
namespace Notify

inductive DSt where
  | clean | dirty | notifying
  deriving DecidableEq, Repr

inductive CPc where
  | start | entered | stored | drained | post | done
  deriving DecidableEq, Repr

structure Caller where
  pc : CPc := .start
  prev : DSt := .clean
  deriving DecidableEq, Repr

structure State where
  /-- number of `notify()` callers (threads 1..k) -/
  k : Nat
  /-- `true` = repaired code (F-C19-7): a caller that saved `Notifying` does not write it back;
  `false` = the code before the repair -/
  guardRestore : Bool
  dstate : DSt := .clean
  cs : Nat → Caller := fun _ => {}
  reloaded : Bool := false

def init (guardRestore : Bool) (k : Nat) : State := { k, guardRestore }

def othersDone (s : State) : Nat → Bool
  | 0 => true
  | j + 1 => (s.cs (j + 1)).pc == .done && othersDone s j

def step (s : State) (t : ThreadId) : State :=
  let c := s.cs t
  match c.pc with
  | .start => { s with cs := upd s.cs t { c with pc := .entered } }
  | .entered => { s with cs := upd s.cs t { c with pc := .stored } }
  | .stored => { s with dstate := .notifying, cs := upd s.cs t { c with pc := .drained, prev := s.dstate } }
  | .drained =>
    { s with
      dstate := if s.guardRestore && c.prev == .notifying then s.dstate else c.prev
      cs := upd s.cs t { c with pc := if t = 0 then .post else .done } }
  | .post =>
    if othersDone s s.k then
      -- the source is written: `mark_dirty` is ignored while the state is `Notifying`
      { s with reloaded := s.dstate != .notifying
               dstate := if s.dstate == .notifying then .notifying else .clean
               cs := upd s.cs t { c with pc := .done } }
    else s
  | .done => s

def run (s : State) : List ThreadId → State
  | [] => s
  | t :: ts => run (step s t) ts

end Notify

/-! ## AwaitW: awaiting a loaded async derived while another thread writes it

Thread 0 is inside `derived.update(|v| ..)`: `Write::try_write` takes the value's async lock with
`blocking_write` and keeps it for the closure; thread 1 polls.  `AsyncDerivedFuture::poll` /
`AsyncDerivedRefFuture::poll` with `loading = false` and the read lock not available take the
`(_, Poll::Pending)` arm: return `Pending` and drop the `read_arc()` future — i.e. the only
registration of the task's waker.  `AsyncDerivedReadyFuture` does not touch the value lock. -/
namespace AwaitW

inductive WPc where
  | start | inUpdate | done
  deriving DecidableEq, Repr

inductive APc where
  | start | parked | ready | gaveUp
  deriving DecidableEq, Repr

structure State where
  /-- 0 = `ready()`, 1 = by value, 2 = by ref -/
  kind : Nat
  wpc : WPc := .start
  value : Nat := 7
  apc : APc := .start
  woken : Bool := false
  polls : Nat
  pendings : Nat := 0
  got : Nat := 0

def init (kind polls : Nat) : State := { kind, polls }

def step (s : State) (t : ThreadId) : State :=
  match t with
  | 0 =>
    match s.wpc with
    | .start => { s with wpc := .inUpdate, value := 9 }
    | .inUpdate => { s with wpc := .done }   -- guard dropped, `notify_subs` drains an empty waker list
    | .done => s
  | 1 =>
    let poll (s : State) : State :=
      if s.polls = 0 then { s with apc := .gaveUp }
      else if s.kind != 0 && s.wpc == .inUpdate then
        { s with polls := s.polls - 1, pendings := s.pendings + 1, apc := .parked }
      else { s with polls := s.polls - 1, apc := .ready, got := s.value }
    match s.apc with
    | .start => poll s
    | .parked => if s.woken then poll { s with woken := false } else s
    | _ => s
  | _ => s

def run (s : State) : List ThreadId → State
  | [] => s
  | t :: ts => run (step s t) ts

def lost (s : State) : Bool := s.apc == .parked && !s.woken && s.wpc == .done

end AwaitW

/-! ## Imm: one thread, an `ImmediateEffect` reading the last memo of a graph

`effect/immediate.rs`: the effect runs synchronously inside `mark_check` / `mark_dirty`.  Before
0488c9f a memo notified its subscribers while holding its own `reactivity` read lock, and the
effect's body — reading the memo again — needed that lock for writing on the same thread: the
first `set` never returned.  Compared observable: the op results, the last value the effect
logged, and the final values (how often the synchronous effect runs inside one propagation is not
C19's subject). -/
namespace Imm

structure Out where
  results : List (Option Nat) := []   -- `none` = the result of a `set`
  hung : Bool := false
  last : Nat
  sig : Nat := 1

def watched (defs : List Graph.Def) (sig : Nat) : Nat := (Graph.scratch defs sig).getLastD 0

/-- `old` = the code before 0488c9f -/
def run (old : Bool) (defs : List Graph.Def) : List Graph.Op → Out → Out
  | [], o => o
  | .get j :: rest, o => run old defs rest { o with results := o.results ++ [some ((Graph.scratch defs o.sig).getD j 0)] }
  | .set v :: rest, o =>
    if old then { o with hung := true }
    else run old defs rest { o with results := o.results ++ [none], sig := v, last := watched defs v }
  | _ :: rest, o => run old defs rest o

def exec (old : Bool) (defs : List Graph.Def) (prog : List Graph.Op) : Out :=
  run old defs prog { last := watched defs 1 }

end Imm

/-- the tail both sides append to every schedule: 3 rounds of 8 entries per party -/
def tail (n : Nat) : List ThreadId :=
  let round := (List.range n).flatMap fun t => List.replicate 8 t
  round ++ round ++ round

end Leptos.Park
